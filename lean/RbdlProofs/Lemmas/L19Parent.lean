import RbdlProofs.Lemmas.L19Names
/-
  L19Parent — where a frame's body is attached: the parent recorded by `AddBody` for a one-body
  joint (`lambda`) or a fixed joint (`mMovableParent`) and the stored joint frame, and their
  stability under the rest of the load.
-/
namespace Rbdl.L19
open Lean.Grind Rbdl Rbdl.ModelS Rbdl.LuaLoad

section
variable {α : Type} [Field α] [DecidableEq α]

/-- what a successful `AddBody` records about the parent and the joint frame -/
theorem addBody_parent (m m' : ModelS α) (hwf : m.WF) (p : Nat) (X : XT α) (j : Joint α)
    (b : Body α) (n : String) (id : Nat) (h : m.addBody p X j b n = (m', .ok id)) :
    (j.jt.kind = .single → id = m.bodies.length ∧ m'.lam id = m.mpOf p ∧
      m'.XT_ id = X * m.mpXOf p ∧ (m'.joint id).jt = j.jt ∧ (m'.joint id).axes = j.axes) ∧
    (j.jt = .fixed → id = m.fixedBodies.length + fixedDisc ∧
      (m'.fixedBody (id - fixedDisc)).movableParent = m.mpOf p ∧
      (m'.fixedBody (id - fixedDisc)).parentTransform = m.fpXOf p X) := by
  rw [addBody_eq] at h
  by_cases hd : n ≠ "" ∧ m.hasName n
  · rw [if_pos hd] at h; cases h
  · rw [if_neg hd] at h
    constructor
    · intro hk
      rw [hk] at h
      simp only at h
      rw [addBodyMovable_eq, if_neg hd] at h
      cases h
      have hl := hwf.len_lambda
      have hx := hwf.len_xT
      have hjn := hwf.len_joints
      simp only [nBodies] at hl hx hjn
      refine ⟨rfl, ?_, ?_, ?_, ?_⟩
      · simp only [lam, movableResult]
        exact getD_append_last' _ _ _ _ hl.symm
      · simp only [XT_, movableResult]
        exact getD_append_last' _ _ _ _ hx.symm
      · simp only [joint, movableResult]
        rw [getD_append_last' _ _ _ _ hjn.symm]; rfl
      · simp only [joint, movableResult]
        rw [getD_append_last' _ _ _ _ hjn.symm]; rfl
    · intro hf
      have hk : j.jt.kind = .fixed := (kind_fixed_iff j.jt).mpr hf
      rw [hk] at h
      simp only at h
      cases hjoin : (m.body (m.mpOf p)).join (m.fpXOf p X) b with
      | none => rw [addBodyFixed_none m p X b n hd hjoin] at h; cases h
      | some pb =>
        rw [addBodyFixed_some m p X b n pb hd hjoin] at h
        cases h
        refine ⟨rfl, ?_, ?_⟩
        · simp only [fixedBody, fixedResult, Nat.add_sub_cancel]
          rw [getD_append_last]
        · simp only [fixedBody, fixedResult, Nat.add_sub_cancel]
          rw [getD_append_last]

/-- the per-body lists only grow during `AddBody` (whatever the outcome) -/
theorem addBody_prefixes (m : ModelS α) (p : Nat) (X : XT α) (j : Joint α) (b : Body α)
    (n : String) :
    m.lambda <+: (m.addBody p X j b n).1.lambda ∧ m.xT <+: (m.addBody p X j b n).1.xT ∧
    m.joints <+: (m.addBody p X j b n).1.joints ∧
    m.fixedBodies <+: (m.addBody p X j b n).1.fixedBodies ∧
    m.bodies.length ≤ (m.addBody p X j b n).1.bodies.length := by
  have ho := addBody_outcome m p X j b n
  generalize m.addBody p X j b n = r at ho
  cases ho with
  | dup => exact ⟨List.prefix_refl _, List.prefix_refl _, List.prefix_refl _, List.prefix_refl _, Nat.le_refl _⟩
  | rejected => exact ⟨List.prefix_refl _, List.prefix_refl _, List.prefix_refl _, List.prefix_refl _, Nat.le_refl _⟩
  | movable m' _ _ _ ha =>
    refine ⟨ha.lambda, ha.xT, ha.joints, ?_, ?_⟩
    · simp only; rw [ha.fixed]; exact List.prefix_refl _
    · simp only; rw [ha.nb]; omega
  | fixed m' _ _ ha =>
    obtain ⟨fb, hfb⟩ := ha.fixed
    refine ⟨?_, ?_, ?_, ?_, ?_⟩
    · simp only; rw [ha.lambda]; exact List.prefix_refl _
    · simp only; rw [ha.xT]; exact List.prefix_refl _
    · simp only; rw [ha.joints]; exact List.prefix_refl _
    · simp only; rw [hfb]; exact List.prefix_append _ _
    · simp only; rw [ha.nb]; exact Nat.le_refl _

/-- the model lists compared between two loader states -/
structure Grows (m m' : ModelS α) : Prop where
  lambda : m.lambda <+: m'.lambda
  xT : m.xT <+: m'.xT
  joints : m.joints <+: m'.joints
  fixed : m.fixedBodies <+: m'.fixedBodies
  nb : m.bodies.length ≤ m'.bodies.length

omit [Field α] [DecidableEq α] in
theorem Grows.refl (m : ModelS α) : Grows m m :=
  ⟨List.prefix_refl _, List.prefix_refl _, List.prefix_refl _, List.prefix_refl _, Nat.le_refl _⟩
omit [Field α] [DecidableEq α] in
theorem Grows.trans {a b c : ModelS α} (h1 : Grows a b) (h2 : Grows b c) : Grows a c :=
  ⟨h1.lambda.trans h2.lambda, h1.xT.trans h2.xT, h1.joints.trans h2.joints,
   h1.fixed.trans h2.fixed, Nat.le_trans h1.nb h2.nb⟩

theorem loadFrame_grows (s : LState α) (f : FrameEntry α) : Grows s.m (loadFrame s f).1.m := by
  cases hp : f.parent with
  | none => simp only [loadFrame, hp]; exact Grows.refl _
  | some pn =>
    cases hj : jointOf f.joint with
    | error e => simp only [loadFrame, hp, hj]; exact Grows.refl _
    | ok j =>
      cases hb : bodyOf f.body with
      | error e => simp only [loadFrame, hp, hj, hb]; exact Grows.refl _
      | ok b =>
        have h := addBody_prefixes s.m (mapGet s.map pn) (frameOf f.jointFrame) j b f.name
        cases hr : s.m.addBody (mapGet s.map pn) (frameOf f.jointFrame) j b f.name with
        | mk m' res =>
          rw [hr] at h
          cases res <;> (simp only [loadFrame, hp, hj, hb, hr]; exact ⟨h.1, h.2.1, h.2.2.1, h.2.2.2.1, h.2.2.2.2⟩)

theorem loadFrames_grows (fs : List (FrameEntry α)) : ∀ s : LState α,
    Grows s.m (loadFrames s fs).1.m := by
  induction fs with
  | nil => intro s; exact Grows.refl _
  | cons f fs ih =>
    intro s
    have h1 := loadFrame_grows s f
    simp only [loadFrames]
    split
    · rename_i s' _ hr
      rw [hr] at h1
      exact h1.trans (ih s')
    · rename_i r hne
      generalize loadFrame s f = r at h1 hne
      exact h1

omit [DecidableEq α] in
/-- in a larger model the movable parent / parent transform of an id of the smaller model is
    the same (ids of movable bodies stay below the fixed-body discriminator) -/
theorem mpOf_stable (m m' : ModelS α) (hg : Grows m m') (hcap : m'.bodies.length ≤ fixedDisc)
    (p : Nat) (hp : m.validId p) (X : XT α) :
    m'.mpOf p = m.mpOf p ∧ m'.mpXOf p = m.mpXOf p ∧ m'.fpXOf p X = m.fpXOf p X := by
  have hnb := hg.nb
  by_cases hf : m.isFixedBodyId p = true
  · have hf' : m'.isFixedBodyId p = true := by
      rw [isFixedBodyId_iff] at hf ⊢
      have := hg.fixed.length_le
      omega
    have hk : p - fixedDisc < m.fixedBodies.length := ((isFixedBodyId_iff m p).mp hf).2.2
    have hfb : m'.fixedBody (p - fixedDisc) = m.fixedBody (p - fixedDisc) :=
      prefix_getD hg.fixed _ hk _
    simp only [mpOf, mpXOf, fpXOf, if_pos hf, if_pos hf', hfb, and_self]
  · have hlt : p < m.bodies.length := by
      rcases hp with h | h
      · exact h
      · exact absurd h hf
    have hf' : ¬ m'.isFixedBodyId p = true := by
      rw [isFixedBodyId_iff]; omega
    simp only [mpOf, mpXOf, fpXOf, if_neg hf, if_neg hf', and_self]

/-- Loop level: in the model a successful load leaves behind, the body of every frame with a
    one-body joint hangs below the movable parent of the resolved parent id, with the given joint
    frame (composed with the fixed parent's transform) and the joint's type and axes; every fixed
    frame is recorded with that movable parent and transform.  The parent id is the `parent`
    argument of the frame's construction call. -/
theorem loadFrames_parents (fs : List (FrameEntry α)) : ∀ (s : LState α) (t : TState),
    Agree s t → Inv s → s.m.fixedBodies.length + fs.length ≤ fixedDisc →
    (loadFrames s fs).2 = .ok () → (loadFrames s fs).1.m.bodies.length ≤ fixedDisc →
    ∀ (k pid : Nat) (X : XT α) (j : Joint α) (b : Body α) (n : String) (id : Nat),
      (frameCalls t fs).1[k]? = some (.addBody pid X j b n) → (frameCalls t fs).2.1[k]? = some id →
      (j.jt.kind = .single →
        (loadFrames s fs).1.m.lam id = (loadFrames s fs).1.m.mpOf pid ∧
        (loadFrames s fs).1.m.XT_ id = X * (loadFrames s fs).1.m.mpXOf pid ∧
        ((loadFrames s fs).1.m.joint id).jt = j.jt ∧
        ((loadFrames s fs).1.m.joint id).axes = j.axes) ∧
      (j.jt = .fixed →
        ((loadFrames s fs).1.m.fixedBody (id - fixedDisc)).movableParent =
          (loadFrames s fs).1.m.mpOf pid ∧
        ((loadFrames s fs).1.m.fixedBody (id - fixedDisc)).parentTransform =
          (loadFrames s fs).1.m.fpXOf pid X) := by
  induction fs with
  | nil => intro s t _ _ _ _ _ k pid X j b n id h; simp [frameCalls] at h
  | cons f fs ih =>
    intro s t hA hI hcap hok hnb k pid X j b n id hcall hid
    simp only [List.length_cons] at hcap
    cases hp : f.parent with
    | none => simp only [loadFrames, loadFrame, hp] at hok; cases hok
    | some pn =>
      cases hj : jointOf f.joint with
      | error e => simp only [loadFrames, loadFrame, hp, hj] at hok; cases hok
      | ok j0 =>
        cases hb : bodyOf f.body with
        | error e => simp only [loadFrames, loadFrame, hp, hj, hb] at hok; cases hok
        | ok b0 =>
          cases hr : s.m.addBody (mapGet s.map pn) (frameOf f.jointFrame) j0 b0 f.name with
          | mk m' res =>
            cases res with
            | error e => simp only [loadFrames, loadFrame, hp, hj, hb, hr] at hok; cases hok
            | ok id0 =>
              have hstep : loadFrame s f = (⟨m', mapSet s.map f.name id0, s.ids ++ [id0]⟩, .ok ()) := by
                simp only [loadFrame, hp, hj, hb, hr]
              obtain ⟨hid0, hA'⟩ := agree_after s t hA m' _ _ j0 b0 f.name id0 hr
              obtain ⟨hI', hfl⟩ := loadFrame_inv s f hI (by omega)
              rw [hstep] at hI' hfl
              have hfl' : m'.fixedBodies.length ≤ s.m.fixedBodies.length + 1 := hfl
              simp only [loadFrames, hstep] at hok hnb ⊢
              simp only [frameCalls, hp, hj, hb] at hcall hid
              cases k with
              | succ k =>
                simp only [List.getElem?_cons_succ] at hcall hid
                exact ih _ (t.after j0 f.name) hA' hI' (by simp only; omega) hok hnb
                  k pid X j b n id hcall hid
              | zero =>
                simp only [List.getElem?_cons_zero, Option.some.injEq, ApiCall.addBody.injEq] at hcall hid
                obtain ⟨rfl, rfl, rfl, rfl, rfl⟩ := hcall
                rw [← hid0] at hid; subst hid
                rw [← hA.map] at *
                have hpv := mapGet_valid s hI pn
                obtain ⟨hs, hf⟩ := addBody_parent s.m m' hI.wf _ _ j0 b0 f.name id0 hr
                have hg1 : Grows s.m m' := by
                  have := loadFrame_grows s f; rw [hstep] at this; exact this
                have hg2 := loadFrames_grows fs ⟨m', mapSet s.map f.name id0, s.ids ++ [id0]⟩
                simp only at hg2
                have hst := mpOf_stable s.m _ (hg1.trans hg2) hnb _ hpv (frameOf f.jointFrame)
                obtain ⟨e1, e2, e3⟩ := hst
                constructor
                · intro hk
                  obtain ⟨hid', hl, hx, hjt, hax⟩ := hs hk
                  have hnb' : m'.bodies.length = s.m.bodies.length + 1 := by
                    have := (addBody_ok_counts s.m m' _ _ j0 b0 f.name id0 hr).2
                      (by intro hfx; rw [hfx] at hk; cases hk)
                    have h1 : j0.newBodies = 1 := by simp [Joint.newBodies, hk]
                    omega
                  have hwf' := hI'.wf
                  have hlt : id0 < m'.bodies.length := by omega
                  refine ⟨?_, ?_, ?_, ?_⟩
                  · rw [e1, ← hl]
                    exact prefix_getD hg2.lambda id0 (by rw [hwf'.len_lambda]; exact hlt) _
                  · rw [e2, ← hx]
                    exact prefix_getD hg2.xT id0 (by rw [hwf'.len_xT]; exact hlt) _
                  · rw [← hjt]
                    exact congrArg Joint.jt (prefix_getD hg2.joints id0 (by rw [hwf'.len_joints]; exact hlt) _)
                  · rw [← hax]
                    exact congrArg Joint.axes (prefix_getD hg2.joints id0 (by rw [hwf'.len_joints]; exact hlt) _)
                · intro hfx
                  obtain ⟨hid', hmp, hpt⟩ := hf hfx
                  have hlen : m'.fixedBodies.length = s.m.fixedBodies.length + 1 :=
                    ((addBody_ok_counts s.m m' _ _ j0 b0 f.name id0 hr).1 hfx).2.2
                  have hlt : id0 - fixedDisc < m'.fixedBodies.length := by omega
                  have hfb := prefix_getD hg2.fixed (id0 - fixedDisc) hlt
                    (⟨0, V3.zero, M3.zero, 0, XT.id⟩ : FixedBody α)
                  simp only [fixedBody] at hmp hpt ⊢
                  rw [hfb, e1, e3]
                  exact ⟨hmp, hpt⟩

end
end Rbdl.L19
