import RbdlProofs.Lemmas.L09FUpd
import RbdlProofs.Lemmas.L09Ex
import RbdlProofs.Lemmas.L05Ex
/-
  C09F: concrete instances over `Rat`.  The tree `C04.Ex.m` of `L09.Ex` (revoluteZ, revolute, spherical,
  custom cylindrical joint; one fixed body, id `fixedDisc`, on body 2 with `parentTransform = C16.Ex.Y`)
  with the constraint set of `L09.Ex.ops` extended by
  * a contact on the fixed body (row 5),
  * a loop fixed body → body 4 (row 6: predecessor fixed),
  * a stabilised loop base → fixed body with a translational axis (row 7: successor fixed),
  * a loop fixed body → fixed body between two different frames of it (row 8: both fixed).
-/
namespace Rbdl.FEx
open Lean.Grind Rbdl Rbdl.L05 Rbdl.L09 Rbdl.L09F Rbdl.Spec

abbrev m : ModelS Rat := L09.Ex.m
abbrev st : QS Rat := L09.Ex.st
abbrev qd : VecN Rat := L09.Ex.qd
abbrev qdd : VecN Rat := L09.Ex.qdd
/-- construction-time workspace -/
abbrev w0 : WS Rat := L09.Ex.w0
/-- after `UpdateKinematics (Q, QDot, QDDot)` -/
abbrev w2 : WS Rat := L09.Ex.w2

def ops : List (L09.Op Rat) :=
  L09.Ex.ops ++
  [.contact fixedDisc ⟨1, 2, 3⟩ ⟨1, 0, 0⟩ noUserId,
   .loop fixedDisc 4 ⟨M3.one, ⟨0, 0, 1⟩⟩ ⟨M3.one, ⟨0, 1, 0⟩⟩ ⟨⟨0, 1, 0⟩, ⟨1, 0, 0⟩⟩ false 0 3,
   .loop 0 fixedDisc L09.Ex.XPb ⟨M3.one, ⟨1, 0, 2⟩⟩ ⟨⟨0, 0, 0⟩, ⟨0, 0, 1⟩⟩ true 5 4,
   .loop fixedDisc fixedDisc ⟨M3.one, ⟨1, 0, 0⟩⟩ ⟨M3.one, ⟨0, 1, 0⟩⟩ ⟨⟨1, 0, 0⟩, ⟨0, 1, 0⟩⟩ false 0 5]

def C : CSet Rat := run ops

theorem C_shape : C.cs.map (fun c => (c.ctype, c.row, c.T.length, c.bodyP, c.bodyS)) =
    [(.contact, 0, 2, 3, 0), (.loop, 2, 2, 0, 1), (.loop, 4, 1, 2, 3),
     (.contact, 5, 1, fixedDisc, 0), (.loop, 6, 1, fixedDisc, 4), (.loop, 7, 1, 0, fixedDisc),
     (.loop, 8, 1, fixedDisc, fixedDisc)] ∧ C.size = 9 := by
  decide +kernel

/-- the contact on the fixed body (row 5) -/
def cF : Constr Rat := C.cs.getD 3 default
/-- the loop fixed body → body 4 (row 6) -/
def cP : Constr Rat := C.cs.getD 4 default
/-- the loop base → fixed body (row 7) -/
def cS : Constr Rat := C.cs.getD 5 default
/-- the loop fixed body → fixed body (row 8) -/
def cB : Constr Rat := C.cs.getD 6 default

theorem cF_contact : cF.ctype = .contact := by decide +kernel
theorem cP_loop : cP.ctype = .loop := by decide +kernel
theorem cS_loop : cS.ctype = .loop := by decide +kernel
theorem cB_loop : cB.ctype = .loop := by decide +kernel

theorem C_len : C.cs.length = 7 := by decide +kernel
theorem cF_mem : cF ∈ (run ops).cs :=
  L09.Ex.getD_mem _ 3 _ (by rw [show (run ops) = C from rfl, C_len]; decide)
theorem cP_mem : cP ∈ (run ops).cs :=
  L09.Ex.getD_mem _ 4 _ (by rw [show (run ops) = C from rfl, C_len]; decide)
theorem cS_mem : cS ∈ (run ops).cs :=
  L09.Ex.getD_mem _ 5 _ (by rw [show (run ops) = C from rfl, C_len]; decide)
theorem cB_mem : cB ∈ (run ops).cs :=
  L09.Ex.getD_mem _ 6 _ (by rw [show (run ops) = C from rfl, C_len]; decide)
theorem cF_shape : Shape cF := (inv_foldl ops _ inv_empty).shape _ cF_mem
theorem cP_shape : Shape cP := (inv_foldl ops _ inv_empty).shape _ cP_mem
theorem cS_shape : Shape cS := (inv_foldl ops _ inv_empty).shape _ cS_mem
theorem cB_shape : Shape cB := (inv_foldl ops _ inv_empty).shape _ cB_mem

/-! ### ids -/

theorem resId_fixed : resId m fixedDisc = 2 := by decide +kernel

theorem idJ_fixed : IdJ m fixedDisc :=
  ⟨⟨fun _ => by decide +kernel, by rw [resId_fixed]; decide⟩, by rw [resId_fixed]; exact L09.Ex.body2_ok⟩
theorem idJ_0 : IdJ m 0 := IdJ.of_bodyOK L09.Ex.body0_ok
theorem idJ_3 : IdJ m 3 := IdJ.of_bodyOK L09.Ex.body3_ok
theorem idJ_4 : IdJ m 4 := IdJ.of_bodyOK (Or.inr ⟨by decide, by decide, by decide⟩)

theorem cF_P : IdJ m cF.bodyP := by
  have : cF.bodyP = fixedDisc := by decide +kernel
  rw [this]; exact idJ_fixed
theorem cP_P : IdJ m cP.bodyP := by
  have : cP.bodyP = fixedDisc := by decide +kernel
  rw [this]; exact idJ_fixed
theorem cP_S : IdJ m cP.bodyS := by
  have : cP.bodyS = 4 := by decide +kernel
  rw [this]; exact idJ_4
theorem cS_P : IdJ m cS.bodyP := by
  have : cS.bodyP = 0 := by decide +kernel
  rw [this]; exact idJ_0
theorem cS_S : IdJ m cS.bodyS := by
  have : cS.bodyS = fixedDisc := by decide +kernel
  rw [this]; exact idJ_fixed
theorem cB_P : IdJ m cB.bodyP := by
  have : cB.bodyP = fixedDisc := by decide +kernel
  rw [this]; exact idJ_fixed
theorem cB_S : IdJ m cB.bodyS := by
  have : cB.bodyS = fixedDisc := by decide +kernel
  rw [this]; exact idJ_fixed

/-- the three constraints of `L09.Ex.ops` in the extended set -/
def c0 : Constr Rat := C.cs.getD 0 default
def c1 : Constr Rat := C.cs.getD 1 default
def c2 : Constr Rat := C.cs.getD 2 default

theorem mem_C (c : Constr Rat) (hc : c ∈ C.cs) :
    c = c0 ∨ c = c1 ∨ c = c2 ∨ c = cF ∨ c = cP ∨ c = cS ∨ c = cB := by
  obtain ⟨i, hi, rfl⟩ := List.getElem_of_mem hc
  have hl : C.cs.length = 7 := C_len
  have e : ∀ j (hj : j < C.cs.length), C.cs[j] = C.cs.getD j default := by
    intro j hj
    rw [List.getD_eq_getElem?_getD, List.getElem?_eq_getElem hj, Option.getD_some]
  rw [e i hi]
  obtain rfl | rfl | rfl | rfl | rfl | rfl | rfl :
    i = 0 ∨ i = 1 ∨ i = 2 ∨ i = 3 ∨ i = 4 ∨ i = 5 ∨ i = 6 := by omega
  · exact Or.inl rfl
  · exact Or.inr (Or.inl rfl)
  · exact Or.inr (Or.inr (Or.inl rfl))
  · exact Or.inr (Or.inr (Or.inr (Or.inl rfl)))
  · exact Or.inr (Or.inr (Or.inr (Or.inr (Or.inl rfl))))
  · exact Or.inr (Or.inr (Or.inr (Or.inr (Or.inr (Or.inl rfl)))))
  · exact Or.inr (Or.inr (Or.inr (Or.inr (Or.inr (Or.inr rfl)))))

theorem ops_contactOK : ∀ c ∈ (run ops).cs, c.ctype = .contact → IdJ m c.bodyP := by
  intro c hc hct
  rcases mem_C c hc with rfl | rfl | rfl | rfl | rfl | rfl | rfl
  · have : c0.bodyP = 3 := by decide +kernel
    rw [this]; exact idJ_3
  · exact absurd hct (by decide +kernel)
  · exact absurd hct (by decide +kernel)
  · exact cF_P
  · exact absurd hct (by rw [cP_loop]; decide)
  · exact absurd hct (by rw [cS_loop]; decide)
  · exact absurd hct (by rw [cB_loop]; decide)

/-! ### workspaces -/

theorem tree : L13.TreeOrder m := L09.Ex.setup.kin.tree

theorem w2_rot0 : (w2.X_base 0).E.IsRot := by constructor <;> decide +kernel

theorem orth_w2 (id : Nat) (h : BodyOK m (resId m id)) : OrthAt m w2 id :=
  orthAt_of_jacHyp L05.Ex.w2_jacHyp w2_rot0 h

/-- a workspace with unrelated data in `X_base` (no rotations) -/
def wJunk : WS Rat :=
  { w2 with X_base := fun i => ⟨⟨1, 2, (i : Rat), 4, 5, 6, 7, 8, 9⟩, ⟨1, (i : Rat), 3⟩⟩ }

/-! ### a fixed body on the base -/

/-- `C04.Ex.m` with a second fixed body (id `fixedDisc + 1`) attached to the base with
    `parentTransform = C16.Ex.X` -/
def m0 : ModelS Rat :=
  { C04.Ex.m with fixedBodies := C04.Ex.m.fixedBodies ++ [⟨1, ⟨0, 0, 0⟩, M3.one, 0, C16.Ex.X⟩] }

theorem setup0 : Setup m0 w0 st :=
  have h := L09.Ex.setup
  ⟨⟨h.kin.tree, h.kin.jc, h.kin.frame, h.kin.unit, h.kin.ws, h.kin.inj⟩,
    ⟨h.layout.1, h.layout.2, h.layout.3⟩, h.cdof, h.w3, h.x0⟩

/-- a stabilised loop (fixed body on the base) → body 3 with a translational axis (row 0), a loop
    (fixed body on body 2) → (fixed body on the base) (row 1), a contact on the fixed body on the base
    (row 2) -/
def ops0 : List (L09.Op Rat) :=
  [.loop (fixedDisc + 1) 3 ⟨M3.one, ⟨1, 0, 0⟩⟩ ⟨M3.one, ⟨0, 1, 0⟩⟩ ⟨⟨0, 0, 0⟩, ⟨0, 1, 0⟩⟩ true 4 4,
   .loop fixedDisc (fixedDisc + 1) ⟨M3.one, ⟨0, 0, 1⟩⟩ ⟨M3.one, ⟨1, 1, 0⟩⟩ ⟨⟨0, 0, 1⟩, ⟨1, 0, 0⟩⟩ false 0 7,
   .contact (fixedDisc + 1) ⟨1, 1, 0⟩ ⟨0, 0, 1⟩ noUserId]

def C0 : CSet Rat := run ops0
def dA : Constr Rat := C0.cs.getD 0 default
def dB : Constr Rat := C0.cs.getD 1 default
def dC : Constr Rat := C0.cs.getD 2 default

theorem C0_shape : C0.cs.map (fun c => (c.ctype, c.row, c.T.length, c.bodyP, c.bodyS)) =
    [(.loop, 0, 1, fixedDisc + 1, 3), (.loop, 1, 1, fixedDisc, fixedDisc + 1),
     (.contact, 2, 1, fixedDisc + 1, 0)] ∧ C0.size = 3 := by decide +kernel

theorem dA_loop : dA.ctype = .loop := by decide +kernel
theorem dB_loop : dB.ctype = .loop := by decide +kernel
theorem dC_contact : dC.ctype = .contact := by decide +kernel
theorem C0_len : C0.cs.length = 3 := by decide +kernel
theorem dA_shape : Shape dA := (inv_foldl ops0 _ inv_empty).shape _
  (L09.Ex.getD_mem _ 0 _ (by show 0 < C0.cs.length; rw [C0_len]; decide))
theorem dB_shape : Shape dB := (inv_foldl ops0 _ inv_empty).shape _
  (L09.Ex.getD_mem _ 1 _ (by show 1 < C0.cs.length; rw [C0_len]; decide))
theorem dC_shape : Shape dC := (inv_foldl ops0 _ inv_empty).shape _
  (L09.Ex.getD_mem _ 2 _ (by show 2 < C0.cs.length; rw [C0_len]; decide))

theorem resId0_base : resId m0 (fixedDisc + 1) = 0 := by decide +kernel
theorem resId0_fixed : resId m0 fixedDisc = 2 := by decide +kernel
theorem idJ0_base : IdJ m0 (fixedDisc + 1) :=
  ⟨⟨fun _ => by decide +kernel, by rw [resId0_base]; decide⟩, Or.inl resId0_base⟩
theorem idJ0_fixed : IdJ m0 fixedDisc :=
  ⟨⟨fun _ => by decide +kernel, by rw [resId0_fixed]; decide⟩,
    by rw [resId0_fixed]; exact Or.inr ⟨by decide, by decide, by decide⟩⟩
theorem idJ0_3 : IdJ m0 3 := IdJ.of_bodyOK (Or.inr ⟨by decide, by decide, by decide⟩)

theorem dA_P : IdJ m0 dA.bodyP := by
  have : dA.bodyP = fixedDisc + 1 := by decide +kernel
  rw [this]; exact idJ0_base
theorem dA_S : IdJ m0 dA.bodyS := by
  have : dA.bodyS = 3 := by decide +kernel
  rw [this]; exact idJ0_3
theorem dB_P : IdJ m0 dB.bodyP := by
  have : dB.bodyP = fixedDisc := by decide +kernel
  rw [this]; exact idJ0_fixed
theorem dB_S : IdJ m0 dB.bodyS := by
  have : dB.bodyS = fixedDisc + 1 := by decide +kernel
  rw [this]; exact idJ0_base
theorem dC_P : IdJ m0 dC.bodyP := by
  have : dC.bodyP = fixedDisc + 1 := by decide +kernel
  rw [this]; exact idJ0_base

/-- after `UpdateKinematics (Q, QDot, QDDot)` -/
def w20 : WS Rat := updateKinematics m0 w0 st qd qdd
theorem w20_jacHyp : JacHyp m0 w20 qd := setup0.jacHyp qd qdd
theorem w20_rot0 : (w20.X_base 0).E.IsRot := by
  unfold w20
  rw [uk_X_base_zero, setup0.x0]
  exact xt_id_rot

end Rbdl.FEx
