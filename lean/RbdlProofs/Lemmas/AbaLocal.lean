import RbdlProofs.Lemmas.AbaLoops
/-
  C02, part 2 (helpers): one iteration of the second and third loop of `forwardDynamics` and of
  `rneaBackward`, described through the local algebra (A1)/(A2) of `Aba.lean`.
-/
namespace Rbdl.L02
open Lean.Grind Rbdl
set_option linter.unusedSectionVars false
set_option linter.unusedSimpArgs false

theorem upd_upd_same {β : Type} (f : Nat → β) (k : Nat) (v v' : β) :
    upd (upd f k v) k v' = upd f k v' := by
  funext j; unfold upd; split <;> rfl

section
variable {α : Type} [Field α] [DecidableEq α]

/-! ### arity and the number of coordinates -/

theorem arity_one_dof (m : ModelS α) (i : Nat) (h : m.arity i = .one) : (m.joint i).dof = 1 := by
  unfold ModelS.arity at h; dsimp only at h
  split at h
  · cases h
  · split at h
    · assumption
    · split at h <;> cases h

theorem arity_three_dof (m : ModelS α) (i : Nat) (h : m.arity i = .three) :
    (m.joint i).dof = 3 := by
  unfold ModelS.arity at h; dsimp only at h
  split at h
  · cases h
  · split at h
    · cases h
    · split at h
      · assumption
      · cases h

/-! ### the joint-space quantities stored by the second loop -/

/-- `U`, `d`, `u` (1 DoF) and `U`, `D⁻¹`, `u` (3 DoF) of body `i` -/
def stored (w : WS α) (i : Nat) : SV α × α × α × M63 α × M3 α × V3 α :=
  (w.U i, w.d i, w.u i, w.U3 i, w.Dinv3 i, w.u3 i)

/-- the acceleration the third loop computes from `a' = X a_λ + c` -/
def accelOf (m : ModelS α) (w : WS α) (i : Nat) (a' : SV α) : SV α :=
  match m.arity i with
  | .one => a' + ((1 / w.d i) * (w.u i - (w.U i).dot a')) * w.S i
  | .three => a' + (w.S3 i).mulV3 (w.Dinv3 i * (w.u3 i - (w.U3 i).tmulSV a'))
  | _ => a'

/-- invertibility of the joint-space pivot of body `i`: `d_i ≠ 0` resp. `det (Sᵀ U) ≠ 0` -/
def pivotOk (m : ModelS α) (w : WS α) (i : Nat) : Prop :=
  match m.arity i with
  | .one => w.d i ≠ 0
  | .three => ((w.S3 i).tmul (w.U3 i)).det ≠ 0
  | _ => True

/-- the joint-space equation `S_iᵀ f = τ_i` -/
def jointEq (m : ModelS α) (w : WS α) (i : Nat) (f : SV α) (tau : VecN α) : Prop :=
  match m.arity i with
  | .one => (w.S i).dot f = tau (m.joint i).qIndex
  | .three => (w.S3 i).tmulSV f
      = ⟨tau (m.joint i).qIndex, tau ((m.joint i).qIndex + 1), tau ((m.joint i).qIndex + 2)⟩
  | _ => True

theorem pivotOk_one (m : ModelS α) (w : WS α) (i : Nat) (h : m.arity i = .one)
    (hd : w.d i ≠ 0) : pivotOk m w i := by
  unfold pivotOk; rw [h]; exact hd

theorem pivotOk_three (m : ModelS α) (w : WS α) (i : Nat) (h : m.arity i = .three)
    (hd : ((w.S3 i).tmul (w.U3 i)).det ≠ 0) : pivotOk m w i := by
  unfold pivotOk; rw [h]; exact hd

theorem accelOf_congr (m : ModelS α) (w w' : WS α) (i : Nat) (hst : stored w i = stored w' i)
    (hS : w.S i = w'.S i) (hS3 : w.S3 i = w'.S3 i) (a' : SV α) :
    accelOf m w i a' = accelOf m w' i a' := by
  simp only [stored, Prod.mk.injEq] at hst
  obtain ⟨h1, h2, h3, h4, h5, h6⟩ := hst
  unfold accelOf
  rw [h1, h2, h3, h4, h5, h6, hS, hS3]

theorem pivotOk_congr (m : ModelS α) (w w' : WS α) (i : Nat) (hst : stored w i = stored w' i)
    (hS3 : w.S3 i = w'.S3 i) : pivotOk m w i ↔ pivotOk m w' i := by
  simp only [stored, Prod.mk.injEq] at hst
  obtain ⟨h1, h2, h3, h4, h5, h6⟩ := hst
  unfold pivotOk
  rw [h2, h4, hS3]

theorem jointEq_congr (m : ModelS α) (w w' : WS α) (i : Nat) (hS : w.S i = w'.S i)
    (hS3 : w.S3 i = w'.S3 i) (f : SV α) (tau : VecN α) :
    jointEq m w i f tau ↔ jointEq m w' i f tau := by
  unfold jointEq
  rw [hS, hS3]

/-! ### `abaUD`, `abaU` -/

/-- workspace after `abaUD` and `abaU` of body `i` -/
def sU (m : ModelS α) (s : WS α) (i : Nat) (tau : VecN α) : WS α := abaU m (abaUD m s i) i tau

theorem sU_one (m : ModelS α) (s : WS α) (i : Nat) (tau : VecN α) (h : m.arity i = .one) :
    sU m s i tau = { s with
      U := upd s.U i (s.IA i * s.S i)
      d := upd s.d i ((s.S i).dot (s.IA i * s.S i))
      u := upd s.u i (tau (m.joint i).qIndex - (s.S i).dot (s.pA i)) } := by
  unfold sU abaU abaUD
  simp only [h]

theorem sU_three (m : ModelS α) (s : WS α) (i : Nat) (tau : VecN α) (h : m.arity i = .three) :
    sU m s i tau = { s with
      U3 := upd s.U3 i (M63.lmulSM (s.IA i) (s.S3 i))
      Dinv3 := upd s.Dinv3 i (M3.inv ((s.S3 i).tmul (M63.lmulSM (s.IA i) (s.S3 i))))
      u3 := upd s.u3 i ((⟨tau (m.joint i).qIndex, tau ((m.joint i).qIndex + 1),
        tau ((m.joint i).qIndex + 2)⟩ : V3 α) - (s.S3 i).tmulSV (s.pA i)) } := by
  unfold sU abaU abaUD
  simp only [h]

/-- `Ia` of body `i` computed from the workspace `s` the iteration starts from -/
def IaOf (m : ModelS α) (s : WS α) (tau : VecN α) (i : Nat) : SM α := abaIa m (sU m s i tau) i

/-- `pa` of body `i` -/
def paOf (m : ModelS α) (s : WS α) (tau : VecN α) (i : Nat) : SV α :=
  (sU m s i tau).pA i + abaIa m (sU m s i tau) i * (sU m s i tau).c i + abaUDu m (sU m s i tau) i

theorem fdB2_eq (m : ModelS α) (tau : VecN α) (i : Nat) (s : WS α) :
    fdB2 m tau i s =
      if m.lam i ≠ 0 ∧ m.arity i ≠ .other then
        { sU m s i tau with
          IA := upd (sU m s i tau).IA (m.lam i) ((sU m s i tau).IA (m.lam i)
            + ((sU m s i tau).X_lambda i).toMatrixTranspose * IaOf m s tau i
              * ((sU m s i tau).X_lambda i).toMatrix)
          pA := upd (sU m s i tau).pA (m.lam i) ((sU m s i tau).pA (m.lam i)
            + ((sU m s i tau).X_lambda i).applyTranspose (paOf m s tau i)) }
      else sU m s i tau := rfl

theorem sU_frame (m : ModelS α) (s : WS α) (i : Nat) (tau : VecN α) :
    (sU m s i tau).IA = s.IA ∧ (sU m s i tau).pA = s.pA ∧ (sU m s i tau).c = s.c
      ∧ (sU m s i tau).X_lambda = s.X_lambda ∧ (sU m s i tau).S = s.S
      ∧ (sU m s i tau).S3 = s.S3 := by
  unfold sU abaU abaUD
  cases m.arity i <;> exact ⟨rfl, rfl, rfl, rfl, rfl, rfl⟩

theorem sU_stored_other (m : ModelS α) (s : WS α) (i : Nat) (tau : VecN α) (j : Nat)
    (hne : j ≠ i) : stored (sU m s i tau) j = stored s j := by
  unfold sU abaU abaUD stored
  cases m.arity i <;> simp only [upd_other _ _ _ _ hne]

theorem fdB2_stored (m : ModelS α) (tau : VecN α) (i : Nat) (s : WS α) (j : Nat) :
    stored (fdB2 m tau i s) j = stored (sU m s i tau) j := by
  rw [fdB2_eq]; split <;> rfl

theorem fdB2_stored_other (m : ModelS α) (tau : VecN α) (i : Nat) (s : WS α) (j : Nat)
    (hne : j ≠ i) : stored (fdB2 m tau i s) j = stored s j := by
  rw [fdB2_stored, sU_stored_other m s i tau j hne]

theorem fdB2_frame (m : ModelS α) (tau : VecN α) (i : Nat) (s : WS α) :
    (fdB2 m tau i s).c = s.c ∧ (fdB2 m tau i s).X_lambda = s.X_lambda
      ∧ (fdB2 m tau i s).S = s.S ∧ (fdB2 m tau i s).S3 = s.S3 := by
  obtain ⟨_, _, h3, h4, h5, h6⟩ := sU_frame m s i tau
  rw [fdB2_eq]; split <;> exact ⟨h3, h4, h5, h6⟩

theorem fdB2_IA (m : ModelS α) (tau : VecN α) (i : Nat) (s : WS α) :
    (fdB2 m tau i s).IA =
      if m.lam i ≠ 0 ∧ m.arity i ≠ .other then
        upd s.IA (m.lam i) (s.IA (m.lam i)
          + (s.X_lambda i).toMatrixTranspose * IaOf m s tau i * (s.X_lambda i).toMatrix)
      else s.IA := by
  obtain ⟨h1, _, _, h4, _, _⟩ := sU_frame m s i tau
  rw [fdB2_eq]; split
  · show upd (sU m s i tau).IA _ _ = _
    rw [h1, h4]
  · exact h1

theorem fdB2_pA (m : ModelS α) (tau : VecN α) (i : Nat) (s : WS α) :
    (fdB2 m tau i s).pA =
      if m.lam i ≠ 0 ∧ m.arity i ≠ .other then
        upd s.pA (m.lam i) (s.pA (m.lam i) + (s.X_lambda i).applyTranspose (paOf m s tau i))
      else s.pA := by
  obtain ⟨_, h2, _, h4, _, _⟩ := sU_frame m s i tau
  rw [fdB2_eq]; split
  · show upd (sU m s i tau).pA _ _ = _
    rw [h2, h4]
  · exact h2

/-! ### the local theorems -/

/-- `accelOf` after iteration `i` of the second loop only depends on the workspace before it -/
theorem accelOf_fdB2 (m : ModelS α) (tau : VecN α) (i : Nat) (s : WS α) (a' : SV α) :
    accelOf m (fdB2 m tau i s) i a' = accelOf m (sU m s i tau) i a' := by
  obtain ⟨_, _, h5, h6⟩ := fdB2_frame m tau i s
  obtain ⟨_, _, _, _, g5, g6⟩ := sU_frame m s i tau
  apply accelOf_congr m _ _ i (fdB2_stored m tau i s i)
  · rw [h5, g5]
  · rw [h6, g6]

/-- (A1b)/(A2b) for iteration `i`: the force of body `i` as a function of the parent acceleration -/
theorem local_force (m : ModelS α) (tau : VecN α) (i : Nat) (s : WS α) (ax : SV α)
    (har : m.arity i = .one ∨ m.arity i = .three) :
    s.IA i * accelOf m (fdB2 m tau i s) i (ax + s.c i) + s.pA i
      = IaOf m s tau i * ax + paOf m s tau i := by
  rw [accelOf_fdB2]
  rcases har with h | h
  · unfold IaOf paOf
    rw [sU_one m s i tau h]
    simp only [accelOf, abaIa, abaUDu, h, upd_same]
    exact one_dof_force (s.IA i) (s.S i) (s.pA i) (s.c i) ax _ _
  · unfold IaOf paOf
    rw [sU_three m s i tau h]
    simp only [accelOf, abaIa, abaUDu, h, upd_same]
    exact three_dof_force (s.IA i) (s.S3 i) (s.pA i) (s.c i) ax _ _

/-- (A1a)/(A2a) for iteration `i`: the joint-space equation -/
theorem local_tau (m : ModelS α) (tau : VecN α) (i : Nat) (s : WS α) (a' : SV α)
    (har : m.arity i = .one ∨ m.arity i = .three) (hs : SymSM (s.IA i))
    (hp : pivotOk m (fdB2 m tau i s) i) :
    jointEq m s i (s.IA i * accelOf m (fdB2 m tau i s) i a' + s.pA i) tau := by
  have hp' : pivotOk m (sU m s i tau) i := by
    obtain ⟨_, _, _, h6⟩ := fdB2_frame m tau i s
    obtain ⟨_, _, _, _, _, g6⟩ := sU_frame m s i tau
    refine (pivotOk_congr m _ _ i (fdB2_stored m tau i s i) ?_).mp hp
    rw [h6, g6]
  rw [accelOf_fdB2]
  rcases har with h | h
  · rw [sU_one m s i tau h] at hp' ⊢
    simp only [pivotOk, h, upd_same] at hp'
    simp only [accelOf, jointEq, h, upd_same]
    exact one_dof_tau (s.IA i) hs (s.S i) (s.pA i) a' _ hp'
  · rw [sU_three m s i tau h] at hp' ⊢
    simp only [pivotOk, h, upd_same] at hp'
    simp only [accelOf, jointEq, h, upd_same]
    exact three_dof_tau (s.IA i) hs (s.S3 i) (s.pA i) a' _ _ (m3_mul_inv _ hp')

/-- (A1c)/(A2c): `Ia` is symmetric -/
theorem local_sym (m : ModelS α) (tau : VecN α) (i : Nat) (s : WS α)
    (har : m.arity i = .one ∨ m.arity i = .three) (hs : SymSM (s.IA i)) :
    SymSM (IaOf m s tau i) := by
  rcases har with h | h
  · unfold IaOf
    rw [sU_one m s i tau h]
    simp only [abaIa, h, upd_same]
    exact one_dof_Ia_sym (s.IA i) hs _ _
  · unfold IaOf
    rw [sU_three m s i tau h]
    simp only [abaIa, h, upd_same]
    exact three_dof_Ia_sym (s.IA i) hs _ _ (three_dof_Dinv_sym (s.IA i) hs (s.S3 i))

/-! ### third loop: `abaAccel` -/

theorem abaAccel_frame (m : ModelS α) (s : WS α) (i : Nat) (q : VecN α) :
    (abaAccel m s i q).1 = { s with a := (abaAccel m s i q).1.a } := by
  unfold abaAccel; dsimp only; split <;> rfl

theorem abaAccel_a (m : ModelS α) (s : WS α) (i : Nat) (q : VecN α)
    (har : m.arity i = .one ∨ m.arity i = .three) :
    (abaAccel m s i q).1.a
      = upd s.a i (accelOf m s i ((s.X_lambda i).apply (s.a (m.lam i)) + s.c i)) := by
  rcases har with h | h <;>
    simp only [abaAccel, accelOf, h, upd_same, upd_upd_same]

/-- the new acceleration in the form `inverseDynamics` uses: `a = X a_λ + c + S qdd` -/
theorem abaAccel_Sqdd (m : ModelS α) (s : WS α) (i : Nat) (q : VecN α)
    (har : m.arity i = .one ∨ m.arity i = .three) :
    (abaAccel m s i q).1.a i
      = (s.X_lambda i).apply (s.a (m.lam i)) + s.c i + s.Sqdd m i (abaAccel m s i q).2 := by
  rcases har with h | h
  · simp only [abaAccel, WS.Sqdd, h, upd_same]
  · have e1 : ∀ (k : Nat) (x y z : α) (q : VecN α),
        upd (upd (upd q k x) (k + 1) y) (k + 2) z k = x := by
      intro k x y z q; simp [upd]
    have e2 : ∀ (k : Nat) (x y z : α) (q : VecN α),
        upd (upd (upd q k x) (k + 1) y) (k + 2) z (k + 1) = y := by
      intro k x y z q; simp [upd]
    simp only [abaAccel, WS.Sqdd, h, upd_same, e1, e2]

theorem abaAccel_qdd_other (m : ModelS α) (s : WS α) (i : Nat) (q : VecN α) (e : Nat)
    (har : m.arity i = .one ∨ m.arity i = .three)
    (he : ∀ t, t < (m.joint i).dof → e ≠ (m.joint i).qIndex + t) :
    (abaAccel m s i q).2 e = q e := by
  rcases har with h | h
  · have hd := arity_one_dof m i h
    have h0 := he 0 (by omega)
    simp only [abaAccel, h]
    exact upd_other _ _ _ _ h0
  · have hd := arity_three_dof m i h
    have h0 : e ≠ (m.joint i).qIndex := he 0 (by omega)
    have h1 := he 1 (by omega)
    have h2 := he 2 (by omega)
    simp only [abaAccel, h]
    rw [upd_other _ _ _ _ h2, upd_other _ _ _ _ h1, upd_other _ _ _ _ h0]

/-- `S_i qdd_i` only reads the coordinates of joint `i` -/
theorem Sqdd_congr_q (m : ModelS α) (w : WS α) (i : Nat) (q q' : VecN α)
    (har : m.arity i = .one ∨ m.arity i = .three)
    (hq : ∀ t, t < (m.joint i).dof → q ((m.joint i).qIndex + t) = q' ((m.joint i).qIndex + t)) :
    w.Sqdd m i q = w.Sqdd m i q' := by
  rcases har with h | h
  · have hd := arity_one_dof m i h
    have h0 := hq 0 (by omega)
    simp only [WS.Sqdd, h]
    rw [show (m.joint i).qIndex = (m.joint i).qIndex + 0 from rfl, h0]
  · have hd := arity_three_dof m i h
    have h0 := hq 0 (by omega)
    have h1 := hq 1 (by omega)
    have h2 := hq 2 (by omega)
    simp only [WS.Sqdd, h]
    rw [show (m.joint i).qIndex = (m.joint i).qIndex + 0 from rfl, h0, h1, h2]

/-! ### `tauWrite` and the backward loop -/

theorem tauWrite_other (m : ModelS α) (w : WS α) (i : Nat) (f : SV α) (t : VecN α) (e : Nat)
    (har : m.arity i = .one ∨ m.arity i = .three)
    (he : ∀ k, k < (m.joint i).dof → e ≠ (m.joint i).qIndex + k) :
    w.tauWrite m i f t e = t e := by
  rcases har with h | h
  · have hd := arity_one_dof m i h
    have h0 := he 0 (by omega)
    simp only [WS.tauWrite, h]
    exact upd_other _ _ _ _ h0
  · have hd := arity_three_dof m i h
    have h0 : e ≠ (m.joint i).qIndex := he 0 (by omega)
    have h1 := he 1 (by omega)
    have h2 := he 2 (by omega)
    simp only [WS.tauWrite, h]
    rw [upd_other _ _ _ _ h2, upd_other _ _ _ _ h1, upd_other _ _ _ _ h0]

theorem tauWrite_same (m : ModelS α) (w : WS α) (i : Nat) (f : SV α) (t tau : VecN α)
    (har : m.arity i = .one ∨ m.arity i = .three) (hj : jointEq m w i f tau) :
    ∀ k, k < (m.joint i).dof →
      w.tauWrite m i f t ((m.joint i).qIndex + k) = tau ((m.joint i).qIndex + k) := by
  intro k hk
  rcases har with h | h
  · have hd := arity_one_dof m i h
    have : k = 0 := by omega
    subst this
    simp only [jointEq, h] at hj
    simp only [WS.tauWrite, h, Nat.add_zero, upd_same]
    exact hj
  · have hd := arity_three_dof m i h
    simp only [jointEq, h] at hj
    simp only [WS.tauWrite, h, hj]
    have : k = 0 ∨ k = 1 ∨ k = 2 := by omega
    rcases this with rfl | rfl | rfl <;> simp [upd]

theorem idBB_snd (m : ModelS α) (i : Nat) (s : WS α × VecN α) :
    (idBB m i s).2 = s.1.tauWrite m i (s.1.f i) s.2 := by
  unfold idBB; dsimp only; split <;> rfl

theorem idBB_f (m : ModelS α) (i : Nat) (s : WS α × VecN α) :
    (idBB m i s).1.f =
      if m.lam i ≠ 0 then
        upd s.1.f (m.lam i) (s.1.f (m.lam i) + (s.1.X_lambda i).applyTranspose (s.1.f i))
      else s.1.f := by
  unfold idBB; dsimp only; split <;> rfl

theorem idBB_frame (m : ModelS α) (i : Nat) (s : WS α × VecN α) :
    (idBB m i s).1.X_lambda = s.1.X_lambda ∧ (idBB m i s).1.S = s.1.S
      ∧ (idBB m i s).1.S3 = s.1.S3 := by
  unfold idBB; dsimp only; split <;> exact ⟨rfl, rfl, rfl⟩

end
end Rbdl.L02
