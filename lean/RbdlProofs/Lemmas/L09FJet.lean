import RbdlProofs.Lemmas.L09FRed
/-
  C09F, part 4: the pose jet of a fixed body (`idPoseJet`: world pose jet of the movable parent composed
  with the constant pose of the `parentTransform`), frame placements and contact functions on it, and
  when `X_base` of the carrying body is a rotation (`OrthAt`).
-/
set_option linter.unusedSectionVars false
set_option linter.unusedSimpArgs false
namespace Rbdl.L09F
open Lean.Grind Rbdl Rbdl.L05 Rbdl.L06 Rbdl.L09 Rbdl.Spec

section
variable {α : Type} [Field α] [DecidableEq α]

/-- world pose jet of the body with id `id` along the trajectory `(q, q̇, q̈)`: of a movable body (or the
    base) `bodyPoseJet`; of a fixed body the pose of its movable parent composed with the constant pose
    `(E_fᵀ, r_f)` of its `parentTransform` -/
def idPoseJet (m : ModelS α) (st : QS α) (qd qdd : VecN α) (id : Nat) : Pose (D2 α) :=
  if fixedDisc ≤ id then
    (bodyPoseJet m st qd qdd (resId m id)).comp
      (framePose D2.const (m.fixedBody (id - fixedDisc)).parentTransform.E
        (m.fixedBody (id - fixedDisc)).parentTransform.r)
  else bodyPoseJet m st qd qdd id

theorem idPoseJet_movable (m : ModelS α) (st : QS α) (qd qdd : VecN α) (id : Nat)
    (h : ¬ fixedDisc ≤ id) : idPoseJet m st qd qdd id = bodyPoseJet m st qd qdd id := if_neg h

theorem d2_ext {a b : D2 α} (h1 : a.x = b.x) (h2 : a.d1 = b.d1) (h3 : a.d2 = b.d2) : a = b := by
  cases a; cases b; simp only at *; simp only [*]

theorem pose_ext {β : Type} {A B : Pose β} (h1 : A.R = B.R) (h2 : A.p = B.p) : A = B := by
  cases A; cases B; simp only at *; simp only [*]

/-- a frame of a body attached by the constant transform `T` is the composed frame of the parent -/
theorem framePlacement_comp (P : Pose (D2 α)) (T Xf : XT α) :
    framePlacement (P.comp (framePose D2.const T.E T.r)) Xf
      = framePlacement P ⟨T.E.transpose * Xf.E, T.r + T.E.tmulVec Xf.r⟩ := by
  apply pose_ext <;> ext <;>
    simp only [framePlacement, Pose.comp, framePose, Spec.liftM, liftV] <;> jet06_simp <;> grind

theorem contactPhi_comp (P : Pose (D2 α)) (T : XT α) (x n : V3 α) :
    contactPhi (P.comp (framePose D2.const T.E T.r)) x n = contactPhi P (T.r + T.E.tmulVec x) n := by
  apply d2_ext <;> simp only [contactPhi, Pose.comp, framePose, liftV] <;> jet06_simp <;> grind

/-- **the frame `Xf` of the body `id` is the composed frame `resFrame` of the body that carries it** -/
theorem framePlacement_idPoseJet (m : ModelS α) (st : QS α) (qd qdd : VecN α) (id : Nat) (Xf : XT α) :
    framePlacement (idPoseJet m st qd qdd id) Xf
      = framePlacement (bodyPoseJet m st qd qdd (resId m id)) (resFrame m id Xf) := by
  by_cases hf : fixedDisc ≤ id
  · unfold idPoseJet resFrame resPoint
    rw [if_pos hf, if_pos hf, if_pos hf]
    exact framePlacement_comp _ _ _
  · rw [idPoseJet_movable m st qd qdd id hf, resId_movable m id hf, resFrame_movable m id Xf hf]

theorem contactPhi_idPoseJet (m : ModelS α) (st : QS α) (qd qdd : VecN α) (id : Nat) (x n : V3 α) :
    contactPhi (idPoseJet m st qd qdd id) x n
      = contactPhi (bodyPoseJet m st qd qdd (resId m id)) (resPoint m id x) n := by
  by_cases hf : fixedDisc ≤ id
  · unfold idPoseJet resPoint
    rw [if_pos hf, if_pos hf]
    exact contactPhi_comp _ _ _ _
  · rw [idPoseJet_movable m st qd qdd id hf, resId_movable m id hf, resPoint_movable m id x hf]

/-- a body attached by a constant *rotation* turns with its parent -/
theorem omega_comp (P : Pose (D2 α)) (T : XT α) (hT : T.E.IsRot) :
    (NodeKin.ofPose (P.comp (framePose D2.const T.E T.r))).omega = (NodeKin.ofPose P).omega := by
  obtain ⟨n0,n1,n2,o01,o02,o12,c00,c01,c02,c10,c11,c12,c20,c21,c22⟩ := hT.transpose
  simp only [M3.transpose] at *
  ext <;> simp only [NodeKin.omega, vee, Pose.comp, framePose] <;> jet06_simp <;> grind

theorem omegaDot_comp (P : Pose (D2 α)) (T : XT α) (hT : T.E.IsRot) :
    (NodeKin.ofPose (P.comp (framePose D2.const T.E T.r))).omegaDot = (NodeKin.ofPose P).omegaDot := by
  obtain ⟨n0,n1,n2,o01,o02,o12,c00,c01,c02,c10,c11,c12,c20,c21,c22⟩ := hT.transpose
  simp only [M3.transpose] at *
  ext <;> simp only [NodeKin.omegaDot, vee, Pose.comp, framePose] <;> jet06_simp <;> grind

/-- the angular velocity / acceleration of a fixed body (whose `parentTransform` is a rotation) are those
    of its movable parent -/
theorem omega_idPoseJet (m : ModelS α) (st : QS α) (qd qdd : VecN α) (id : Nat)
    (hT : fixedDisc ≤ id → (m.fixedBody (id - fixedDisc)).parentTransform.E.IsRot) :
    (NodeKin.ofPose (idPoseJet m st qd qdd id)).omega
      = (NodeKin.ofPose (bodyPoseJet m st qd qdd (resId m id))).omega ∧
    (NodeKin.ofPose (idPoseJet m st qd qdd id)).omegaDot
      = (NodeKin.ofPose (bodyPoseJet m st qd qdd (resId m id))).omegaDot := by
  by_cases hf : fixedDisc ≤ id
  · unfold idPoseJet
    rw [if_pos hf]
    exact ⟨omega_comp _ _ (hT hf), omegaDot_comp _ _ (hT hf)⟩
  · rw [idPoseJet_movable m st qd qdd id hf, resId_movable m id hf]
    exact ⟨rfl, rfl⟩

/-! ### `X_base` of the carrying body is a rotation -/

theorem orthAt_of_jacHyp {m : ModelS α} {w : WS α} {qd : VecN α} (hJ : JacHyp m w qd)
    (h0 : (w.X_base 0).E.IsRot) {id : Nat} (hid : BodyOK m (resId m id)) : OrthAt m w id := by
  intro _
  rcases hid with e | ⟨h1, hi, _⟩
  · rw [e]; exact h0
  · exact hJ.kin.rot_base hJ.layout.tree _ h1 hi

theorem xt_id_rot : (XT.id : XT α).E.IsRot := M3.isRot_one

theorem _root_.Rbdl.L09.Setup.orthAt {m : ModelS α} {w : WS α} {st : QS α} (h : Setup m w st) (qd qdd : VecN α)
    {id : Nat} (hid : BodyOK m (resId m id)) : OrthAt m (updateKinematics m w st qd qdd) id :=
  orthAt_of_jacHyp (h.jacHyp qd qdd) (by rw [uk_X_base_zero, h.x0]; exact xt_id_rot) hid

theorem orthAt_ukcAcc {m : ModelS α} {w : WS α} {id : Nat} (h : OrthAt m w id) (q : VecN α) :
    OrthAt m (updateKinematicsCustom m w none none (some q)) id := by
  intro hf
  rw [ukcAcc_eq]
  exact h hf

/-- **ids covered by the jet statements**: a fixed-body id of the model or an id below `fixedDisc`,
    carried by the base or a movable body of the model -/
structure IdJ (m : ModelS α) (id : Nat) : Prop where
  idF : IdF m id
  ok : BodyOK m (resId m id)

theorem IdJ.of_bodyOK {m : ModelS α} {id : Nat} (h : BodyOK m id) : IdJ m id :=
  ⟨idF_of_bodyOK h, by rw [resId_movable m id h.notFixed]; exact h⟩

theorem IdJ.of_idOK {m : ModelS α} {id : Nat} (h : L13.IdOK m id) : IdJ m id :=
  ⟨idF_of_idOK h, bodyOK_resId h⟩

end
end Rbdl.L09F
