import RbdlProofs.Lemmas.L13Kin
/-
  C13 helper lemmas, part 6: `inverseDynamics` and `nonlinearEffects` on two reachable workspaces.
-/
namespace Rbdl.L13
open Lean.Grind Rbdl Rbdl.Loops Rbdl.L12
set_option linter.unusedSimpArgs false
set_option linter.unusedVariables false
set_option linter.unusedSectionVars false
set_option linter.constructorNameAsVariable false

section
variable {α : Type} [Field α]

/-! ### `inverseDynamics` -/

theorem idFwdBody_steps (m : ModelS α) (st : QS α) (qd qdd : VecN α) (i : Nat) (w : WS α) :
    idFwdBody m st qd qdd i w
      = stF m i (stAid m qdd i (stC i (stV m i (jcalc m w i st qd)))) := rfl

/-- entries agreeing after the forward loop has passed the bodies `< k` -/
@[dom] def Did (m : ModelS α) (k : Nat) : Dom :=
  Dom.at [.X_base, .v, .a] 0 ∪ Dom.rng [.X_lambda, .v_J, .c_J, .v, .c, .a, .f] 1 k ∪ SDom m 1 k

theorem JointOK.ne_other {m : ModelS α} {i : Nat} (h : JointOK m i) : m.arity i ≠ .other := by
  obtain ⟨h1, h2⟩ := h
  rw [h2]
  cases hj : (m.joint i).jt <;> simp only [hj, JT.hasJcalc, Bool.false_eq_true] at h1 <;>
    exact (by decide)

theorem idFwdBody_sim (m : ModelS α) (st : QS α) (qd qdd : VecN α) (htree : TreeOrder m)
    (hok : AllJointOK m) (i : Nat) (s t : WS α) (h1 : 1 ≤ i) (h2 : i < 1 + (m.nBodies - 1))
    (h : Agree m (Did m i) s t) :
    Agree m (Did m (i + 1)) (idFwdBody m st qd qdd i s) (idFwdBody m st qd qdd i t) := by
  have hl := htree i h1 (by omega)
  have hk := (hok i h1 (by omega)).2
  have hJ := h.jcalcU i h1 (by omega) (hok i h1 (by omega)).1 st qd
  rw [idFwdBody_steps, idFwdBody_steps]
  exact (((((hJ.stV i (by dom) (by dom) (by dom)).stC i (by dom) (by dom) (by dom)).stAid qdd i
    (by dom) (by dom) (by dom) (by domw [hk]) (by domw [hk]) (by domw [hk])
    (hok i h1 (by omega)).ne_other).stF i (by dom) (by dom))).mono (by dom)

theorem idInit_sim (m : ModelS α) (w w' : WS α) (hw : WSFixed m w) (hw' : WSFixed m w') :
    Agree m (Dom.at [.X_base, .v, .a] 0) (idInit m w) (idInit m w') := by
  have h0 := Agree.init hw hw'
  have h1 := h0.set_v 0 (x := SV.zero) (x' := SV.zero) rfl (D' := Dom.at [.X_base, .v] 0) (by dom)
  exact h1.set_a 0 (x := spatialGravityNeg m) (x' := spatialGravityNeg m) rfl (by dom)

theorem id_fwd_sim (m : ModelS α) (st : QS α) (qd qdd : VecN α) (htree : TreeOrder m)
    (hok : AllJointOK m) (w w' : WS α) (hw : WSFixed m w) (hw' : WSFixed m w') :
    Agree m (Did m (1 + (m.nBodies - 1)))
      (forUp (m.nBodies - 1) 1 (idFwdBody m st qd qdd) (idInit m w))
      (forUp (m.nBodies - 1) 1 (idFwdBody m st qd qdd) (idInit m w')) :=
  forUp_simI (fun k s t => Agree m (Did m k) s t) _ _ _ _
    (fun i s t h1 h2 h => idFwdBody_sim m st qd qdd htree hok i s t h1 h2 h) _ _
    ((idInit_sim m w w' hw hw').mono (by dom))

theorem idFextBody_steps (m : ModelS α) (fe : Nat → SV α) (i : Nat) (w : WS α) :
    idFextBody m fe i w = stFe fe i (stXb m i w) := rfl

@[dom] def Dfe (m : ModelS α) (k : Nat) : Dom :=
  Did m (1 + (m.nBodies - 1)) ∪ Dom.rng [.X_base] 1 k

theorem idFextBody_sim (m : ModelS α) (fe : Nat → SV α) (htree : TreeOrder m)
    (i : Nat) (s t : WS α) (h1 : 1 ≤ i) (h2 : i < 1 + (m.nBodies - 1))
    (h : Agree m (Dfe m i) s t) :
    Agree m (Dfe m (i + 1)) (idFextBody m fe i s) (idFextBody m fe i t) := by
  have hl := htree i h1 (by omega)
  rw [idFextBody_steps, idFextBody_steps]
  exact ((h.stXb i h1 (by dom) (by dom)).stFe fe i (by dom) (by dom)).mono (by dom)

/-- what the backward pass needs: `f`, `X_lambda` and the motion subspaces of all movable bodies -/
@[dom] def Drnea (m : ModelS α) : Dom :=
  Dom.rng [.f, .X_lambda] 1 (1 + (m.nBodies - 1)) ∪ SDom m 1 (1 + (m.nBodies - 1))

theorem rneaBody_steps (m : ModelS α) (i : Nat) (w : WS α) (tau : VecN α) :
    rneaBody m i (w, tau) =
      (if m.lam i ≠ 0 then stFl m i w else w, w.tauWrite m i (w.f i) tau) := by
  unfold rneaBody; dsimp only; split <;> rfl

theorem rnea_sim (m : ModelS α) (htree : TreeOrder m) (hok : AllJointOK m) (w w' : WS α)
    (tau : VecN α) (h : Agree m (Drnea m) w w') :
    Agree m (Drnea m) (rneaBackward m w tau).1 (rneaBackward m w' tau).1 ∧
      (rneaBackward m w tau).2 = (rneaBackward m w' tau).2 := by
  rw [rnea_eq, rnea_eq]
  refine forDown_sim (fun s t : WS α × VecN α => Agree m (Drnea m) s.1 t.1 ∧ s.2 = t.2)
    (rneaBody m) (rneaBody m) _ _ ?_ (w, tau) (w', tau) ⟨h, rfl⟩
  rintro i ⟨s, ts⟩ ⟨t, tt⟩ h1 h2 ⟨hA, rfl⟩
  have hi1 : 1 ≤ i := by omega
  have hl := htree i hi1 (by omega)
  have hk := (hok i hi1 (by omega)).2
  rw [rneaBody_steps, rneaBody_steps]
  dsimp only at hA ⊢
  refine ⟨?_, ?_⟩
  · split
    · exact hA.stFl i (by dom) (by dom) (by dom)
    · exact hA
  · rw [hA.get_f (j := i) (by dom),
      hA.tauWrite i _ _ (by domw [hk]) (by domw [hk]) (by domw [hk])]

theorem id_indep (m : ModelS α) (st : QS α) (qd qdd tau : VecN α) (fext : Option (Nat → SV α))
    (htree : TreeOrder m) (hok : AllJointOK m) (w w' : WS α) (hw : WSFixed m w)
    (hw' : WSFixed m w') :
    (inverseDynamics m w st qd qdd tau fext).2 = (inverseDynamics m w' st qd qdd tau fext).2 := by
  rw [id_eq, id_eq]
  have h1 := id_fwd_sim m st qd qdd htree hok w w' hw hw'
  cases fext with
  | none => exact (rnea_sim m htree hok _ _ tau (h1.mono (by dom))).2
  | some fe =>
    have h2 := forUp_simI (fun k s t => Agree m (Dfe m k) s t) _ _ (m.nBodies - 1) 1
      (fun i s t h1 h2 h => idFextBody_sim m fe htree i s t h1 h2 h) _ _ (h1.mono (by dom))
    exact (rnea_sim m htree hok _ _ tau (h2.mono (by dom))).2

/-! ### `nonlinearEffects` -/

/-- `f[i]` as `NonlinearEffects` computes it -/
def stFne [DecidableEq α] (m : ModelS α) (fext : Option (Nat → SV α)) (i : Nat) (w : WS α) : WS α :=
  { w with f := upd w.f i (match fext with
      | none => bodyForce m w i
      | some fe => if fe i ≠ SV.zero then bodyForce m w i - (w.X_base i).applyAdjoint (fe i)
                   else bodyForce m w i) }

theorem Agree.stFne [DecidableEq α] {m : ModelS α} {D : Dom} {w w' : WS α} (h : Agree m D w w')
    (fext : Option (Nat → SV α)) (i : Nat) (h1 : D .a i) (h2 : D .v i)
    (h3 : fext.isSome → D .X_base i) :
    Agree m (D ∪ Dom.at [.f] i) (L13.stFne m fext i w) (L13.stFne m fext i w') := by
  refine h.set_f i ?_ (by dom)
  cases fext with
  | none => exact h.bodyForce i h1 h2
  | some fe => dsimp only; rw [h.bodyForce i h1 h2, h.get_X_base (h3 rfl)]

theorem neBody_steps [DecidableEq α] (m : ModelS α) (fext : Option (Nat → SV α)) (i : Nat) (w : WS α) :
    neBody m fext i w =
      L13.stFne m fext i
        ((match fext with
          | none => fun w => w
          | some _ => fun w => if m.lam i ≠ 0 then stXb m i w else stXb0 i w)
        (if m.lam i = 0 then stAg (spatialGravityNeg m) i (stC i (stV0 i w))
         else stAn m i (stC i (stV m i w)))) := by
  unfold neBody
  by_cases hl : m.lam i = 0
  · cases fext <;> simp only [hl, if_true, ne_eq, not_true_eq_false, if_false] <;> rfl
  · cases fext <;> simp only [hl, if_false, ne_eq, not_false_eq_true, if_true] <;> rfl

/-- entries agreeing when the main loop of `NonlinearEffects` has passed the bodies `< k` (the
    `jcalc` pass over `mJointUpdateOrder` comes first) -/
@[dom] def Dne (m : ModelS α) (fext : Option (Nat → SV α)) (k : Nat) : Dom :=
  Dom.at [.X_base, .v, .a] 0 ∪ Dom.rng [.X_lambda, .v_J, .c_J] 1 (1 + (m.nBodies - 1))
    ∪ SDom m 1 (1 + (m.nBodies - 1)) ∪ Dom.rng [.v, .c, .a, .f] 1 k
    ∪ Dom.when (fext.isSome = true) (Dom.rng [.X_base] 1 k)

theorem neBody_sim [DecidableEq α] (m : ModelS α) (fext : Option (Nat → SV α)) (htree : TreeOrder m)
    (i : Nat) (s t : WS α) (h1 : 1 ≤ i) (h2 : i < 1 + (m.nBodies - 1))
    (h : Agree m (Dne m fext i) s t) :
    Agree m (Dne m fext (i + 1)) (neBody m fext i s) (neBody m fext i t) := by
  have hl := htree i h1 (by omega)
  rw [neBody_steps, neBody_steps]
  by_cases hl0 : m.lam i = 0
  · have hA := ((h.stV0 i (by dom)).stC i (by dom) (by dom) (by dom)).stAg
      (spatialGravityNeg m) i (by dom) (by dom)
    cases fext with
    | none =>
      simp only [hl0, if_true]
      exact (hA.stFne none i (by dom) (by dom) (fun h => by cases h)).mono (by dom)
    | some fe =>
      simp only [hl0, if_true, ne_eq, not_true_eq_false, if_false]
      exact ((hA.stXb0 i h1 (by dom)).stFne (some fe) i (by dom) (by dom)
        (fun _ => by dom)).mono (by dom)
  · have hA := ((h.stV i (by dom) (by dom) (by dom)).stC i (by dom) (by dom) (by dom)).stAn i
      (by dom) (by dom) (by dom)
    cases fext with
    | none =>
      simp only [hl0, if_false]
      exact (hA.stFne none i (by dom) (by dom) (fun h => by cases h)).mono (by dom)
    | some fe =>
      simp only [hl0, if_false, ne_eq, not_false_eq_true, if_true]
      rw [if_pos hl0, if_pos hl0]
      exact ((hA.stXb i h1 (by dom) (by dom)).stFne (some fe) i (by dom) (by dom)
        (fun _ => by dom)).mono (by dom)

/-- `mJointUpdateOrder` (without its first entry, the root) lists exactly the movable bodies -/
def UOrderOK (m : ModelS α) : Prop :=
  (∀ j ∈ m.updateOrder.drop 1, 1 ≤ j ∧ j < m.nBodies) ∧
  (∀ i, 1 ≤ i → i < m.nBodies → i ∈ m.updateOrder.drop 1)

/-- what `jcalc` establishes for the bodies in `l` -/
def DjcL (m : ModelS α) (l : List Nat) : Dom :=
  fun g j => j ∈ l ∧ (g = .X_lambda ∨ g = .v_J ∨ g = .c_J ∨
    ((g = .S ∨ g = .S3 ∨ g = .cS) ∧ m.arity j = jtAr (m.joint j).jt))

theorem foldl_jcalc_sim (m : ModelS α) (st : QS α) (qd : VecN α) (hjc : AllJcalc m) (B : Dom)
    (l : List Nat) : ∀ (done : List Nat) (s t : WS α), (∀ j ∈ l, 1 ≤ j ∧ j < m.nBodies) →
      Agree m (B ∪ DjcL m done) s t →
      Agree m (B ∪ DjcL m (done ++ l)) (l.foldl (fun w i => jcalc m w i st qd) s)
        (l.foldl (fun w i => jcalc m w i st qd) t) := by
  induction l with
  | nil => intro done s t _ h; rw [List.append_nil]; exact h
  | cons i l ih =>
    intro done s t hl h
    obtain ⟨hi1, hi2⟩ := hl i (List.mem_cons_self ..)
    have hJ := h.jcalc i hi1 hi2 (hjc i hi1 hi2) st qd (D' := B ∪ DjcL m (done ++ [i])) (by
      intro g j hgj
      simp only [dom, DjcL, List.mem_append, List.mem_cons, List.mem_nil_iff, or_false] at hgj ⊢
      rcases hgj with hb | ⟨hd | rfl, hg⟩
      · exact Or.inl (Or.inl hb)
      · exact Or.inl (Or.inr ⟨hd, hg⟩)
      · exact Or.inr ⟨rfl, hg⟩)
    have := ih (done ++ [i]) _ _ (fun j hj => hl j (List.mem_cons_of_mem _ hj)) hJ
    rw [List.append_assoc] at this
    exact this

theorem ne_indep [DecidableEq α] (m : ModelS α) (st : QS α) (qd tau : VecN α) (fext : Option (Nat → SV α))
    (htree : TreeOrder m) (hok : AllJointOK m) (huo : UOrderOK m) (w w' : WS α)
    (hw : WSFixed m w) (hw' : WSFixed m w') :
    (nonlinearEffects m w st qd tau fext).2 = (nonlinearEffects m w' st qd tau fext).2 := by
  rw [ne_eq, ne_eq]
  have h0 : Agree m (Dom.at [.X_base, .v, .a] 0 ∪ DjcL m []) (idInit m w) (idInit m w') :=
    (idInit_sim m w w' hw hw').mono (by
      intro g j hgj
      rcases hgj with h | h
      · exact h
      · exact absurd h.1 (List.not_mem_nil))
  have h1 := foldl_jcalc_sim m st qd hok.jcalc _ (m.updateOrder.drop 1) [] _ _ huo.1 h0
  rw [List.nil_append] at h1
  have h2 : Agree m (Dne m fext 1) _ _ := h1.mono (by
    intro g j hgj
    simp only [dom, List.mem_cons, List.mem_nil_iff, or_false] at hgj
    rcases hgj with (((h | ⟨hg, hj1, hj2⟩) | ⟨hg, hj1, hj2, ha⟩) | ⟨_, hj1, hj2⟩) | ⟨_, _, hj1, hj2⟩
    · exact Or.inl (by simpa only [dom, List.mem_cons, List.mem_nil_iff, or_false] using h)
    · refine Or.inr ⟨huo.2 j hj1 (by omega), ?_⟩
      rcases hg with rfl | rfl | rfl
      · exact Or.inl rfl
      · exact Or.inr (Or.inl rfl)
      · exact Or.inr (Or.inr (Or.inl rfl))
    · exact Or.inr ⟨huo.2 j hj1 (by omega), Or.inr (Or.inr (Or.inr ⟨hg, ha⟩))⟩
    · omega
    · omega)
  have h3 := forUp_simI (fun k s t => Agree m (Dne m fext k) s t) _ _ (m.nBodies - 1) 1
    (fun i s t h1 h2 h => neBody_sim m fext htree i s t h1 h2 h) _ _ h2
  exact (rnea_sim m htree hok _ _ tau (h3.mono (by dom))).2

end
end Rbdl.L13
