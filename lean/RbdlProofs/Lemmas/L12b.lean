import Rbdl.Spec.Balance
import RbdlProofs.Lemmas.L12
/-
  Helper lemmas for the balance-addon part of C12 (`CalculateFootPlacementEstimator`):
  * 3x3 algebra: `skew r (skew r)ᵀ = |r|² 1 − r rᵀ`, symmetry of shifted inertias
  * sums over lists of body states: shift of the reference point of the whole-body inertia and of the
    angular momentum (parallel-axis / transfer formulas), symmetry
  * bridges from the fold-shaped definitions of `Rbdl/Spec/Mech.lean` (`totalMass`, `massSum`,
    `angularMomentum`) to the list sums of `Rbdl/Spec/Balance.lean`
  * the `JC0` loop of the code-shaped model as a list sum
-/
namespace Rbdl.L12b
open Lean.Grind Rbdl Rbdl.Spec Rbdl.Loops Rbdl.L12

attribute [ext] Rbdl.Spec.FpeState

/-! ## 3x3 algebra -/
section Algebra
variable {α : Type} [Field α]

theorem m3_addLaws : AddLaws (M3.zero : M3 α) :=
  ⟨by intros; alg_ext, by intros; alg_ext, by intros; alg_ext⟩

/-- `VectorCrossMatrix(r) * VectorCrossMatrix(r)ᵀ = |r|² 1 − r rᵀ` -/
theorem skew_mul_transpose (r : V3 α) :
    M3.skew r * (M3.skew r).transpose = r.dot r * (M3.one : M3 α) - M3.outer r r := by
  alg_ext

theorem skew_mulVec (r v : V3 α) : M3.skew r * v = r.cross v := by alg_ext

/-- the parallel-axis term written with cross-product matrices, as the C++ does (the sign of the
    offset does not matter) -/
theorem shiftInertia_skew (Ic : M3 α) (m : α) (c P : V3 α) :
    shiftInertia Ic m c P = Ic + m * (M3.skew (P - c) * (M3.skew (P - c)).transpose) := by
  unfold shiftInertia
  alg_ext

theorem m3_transpose_add (A B : M3 α) : (A + B).transpose = A.transpose + B.transpose := by alg_ext

theorem shiftInertia_symm (Ic : M3 α) (m : α) (c P : V3 α) (h : Ic.transpose = Ic) :
    (shiftInertia Ic m c P).transpose = shiftInertia Ic m c P := by
  simp only [M3.transpose, M3.ext_iff] at h
  unfold shiftInertia
  alg_ext

theorem conj_symm (R I : M3 α) (h : I.transpose = I) :
    (R * I * R.transpose).transpose = R * I * R.transpose := by
  simp only [M3.transpose, M3.ext_iff] at h
  alg_ext

end Algebra

/-! ## sums over lists of body states -/
section Lists
variable {α : Type} [Field α]

/-- change of the reference point of the whole-body inertia, for an arbitrary pair of points:
    with `d = C − P` and the first moment `S = Σ m_i (c_i − C)` about `C` -/
theorem inertiaAboutL_shift (P C : V3 α) (l : List (BodyState α)) :
    inertiaAboutL P l =
      inertiaAboutL C l + sumMass l * ((C - P).dot (C - P) * (M3.one : M3 α) - M3.outer (C - P) (C - P))
        + ((2 * (sumMoment l - sumMass l * C).dot (C - P)) * (M3.one : M3 α)
            - M3.outer (sumMoment l - sumMass l * C) (C - P)
            - M3.outer (C - P) (sumMoment l - sumMass l * C)) := by
  induction l with
  | nil => simp only [inertiaAboutL, sumMass, sumMoment]; alg_ext
  | cons b l ih =>
    simp only [inertiaAboutL, sumMass, sumMoment]
    rw [ih]
    unfold shiftInertia
    alg_ext

/-- **parallel-axis theorem for the whole body**: if `C` is the centre of mass (`M C = Σ m_i c_i`) then
    `J_P = J_C + M (|d|² 1 − d dᵀ)`, `d = C − P` -/
theorem inertiaAboutL_parallel_axis (P C : V3 α) (l : List (BodyState α))
    (hC : sumMass l * C = sumMoment l) :
    inertiaAboutL P l =
      inertiaAboutL C l + sumMass l * ((C - P).dot (C - P) * (M3.one : M3 α) - M3.outer (C - P) (C - P)) := by
  rw [inertiaAboutL_shift P C l, ← hC]
  alg_ext

/-- transfer of the angular momentum between two reference points: `H_P = H_Q + (Q − P) × Σ m_i ċ_i` -/
theorem angMomAboutL_shift (P Q : V3 α) (l : List (BodyState α)) :
    angMomAboutL P l = angMomAboutL Q l + (Q - P).cross (sumMomentum l) := by
  induction l with
  | nil => simp only [angMomAboutL, sumMomentum]; alg_ext
  | cons b l ih =>
    simp only [angMomAboutL, sumMomentum]
    rw [ih]
    alg_ext

theorem inertiaAboutL_symm (P : V3 α) (l : List (BodyState α))
    (h : ∀ b ∈ l, b.Iw.transpose = b.Iw) :
    (inertiaAboutL P l).transpose = inertiaAboutL P l := by
  induction l with
  | nil => rfl
  | cons b l ih =>
    simp only [inertiaAboutL]
    rw [m3_transpose_add, shiftInertia_symm _ _ _ _ (h b (List.mem_cons_self ..)),
      ih (fun c hc => h c (List.mem_cons_of_mem _ hc))]

end Lists

/-! ## bridges to the fold-shaped definitions of `Spec/Mech.lean` -/
section Bridges
variable {α : Type} [Field α]

/-- inertial state of a (node, kinematics) pair -/
def stateOf (p : SNode α × NodeKin α) : BodyState α :=
  ⟨p.1.mass, p.2.pt p.1.com, p.2.ptd p.1.com, p.2.R * p.1.inertia * p.2.R.transpose, p.2.omega⟩

/-- the counted bodies of a list of (node, kinematics) pairs -/
def statesOf (l : List (SNode α × NodeKin α)) : List (BodyState α) :=
  (l.filter (fun p => p.1.counts)).map stateOf

theorem bodyStates_eq (M : SModel α) (st : State α) :
    bodyStates M st = statesOf (M.nodes.zip (kinTable M st)) := rfl

theorem statesOf_cons (p : SNode α × NodeKin α) (l : List (SNode α × NodeKin α)) :
    statesOf (p :: l) = if p.1.counts then stateOf p :: statesOf l else statesOf l := by
  unfold statesOf
  by_cases h : p.1.counts = true
  · rw [List.filter_cons_of_pos (by simpa using h), List.map_cons, if_pos h]
  · rw [List.filter_cons_of_neg (by simpa using h), if_neg h]

/-- the mass-weighted folds of `Mech.lean` are start value + list sum -/
theorem massFold_pt (l : List (SNode α × NodeKin α)) (a : V3 α) :
    l.foldl (fun acc p => if p.1.counts then acc + p.1.mass * p.2.pt p.1.com else acc) a
      = a + sumMoment (statesOf l) := by
  induction l generalizing a with
  | nil => simp only [List.foldl_nil, statesOf, List.filter_nil, List.map_nil, sumMoment]; alg_ext
  | cons p l ih =>
    rw [List.foldl_cons, ih, statesOf_cons]
    by_cases h : p.1.counts = true
    · simp only [h, if_true, sumMoment, stateOf]; alg_ext
    · simp only [h]; rfl

theorem massFold_ptd (l : List (SNode α × NodeKin α)) (a : V3 α) :
    l.foldl (fun acc p => if p.1.counts then acc + p.1.mass * p.2.ptd p.1.com else acc) a
      = a + sumMomentum (statesOf l) := by
  induction l generalizing a with
  | nil => simp only [List.foldl_nil, statesOf, List.filter_nil, List.map_nil, sumMomentum]; alg_ext
  | cons p l ih =>
    rw [List.foldl_cons, ih, statesOf_cons]
    by_cases h : p.1.counts = true
    · simp only [h, if_true, sumMomentum, stateOf]; alg_ext
    · simp only [h]; rfl

theorem massSum_pt [DecidableEq α] (M : SModel α) (st : State α) :
    Spec.massSum M st (fun nd k => k.pt nd.com) = sumMoment (bodyStates M st) := by
  unfold Spec.massSum
  rw [bodyStates_eq]
  show (M.nodes.zip (kinTable M st)).foldl
      (fun acc p => if p.1.counts then acc + p.1.mass * p.2.pt p.1.com else acc) V3.zero = _
  rw [massFold_pt]; alg_ext

theorem massSum_ptd [DecidableEq α] (M : SModel α) (st : State α) :
    Spec.massSum M st (fun nd k => k.ptd nd.com) = sumMomentum (bodyStates M st) := by
  unfold Spec.massSum
  rw [bodyStates_eq]
  show (M.nodes.zip (kinTable M st)).foldl
      (fun acc p => if p.1.counts then acc + p.1.mass * p.2.ptd p.1.com else acc) V3.zero = _
  rw [massFold_ptd]; alg_ext


/-! ### the kinematics table has one entry per node, so `zip` loses nothing -/

omit [Field α] in
theorem fkStep_length {β : Type} [CommRing β] (lift : α → β) (cs : Coords β)
    (l : List (SNode α)) (tab : List (Pose β)) :
    (l.foldl (fun (tab : List (Pose β)) (nd : SNode α) =>
      if tab.isEmpty then [Pose.id]
      else
        let pp := tab.getD nd.parent Pose.id
        tab ++ [pp.comp ((framePose lift nd.E nd.r).comp (jointPose lift nd.joint nd.qIdx nd.wIdx cs))])
      tab).length = tab.length + l.length := by
  induction l generalizing tab with
  | nil => simp
  | cons nd l ih =>
    rw [List.foldl_cons, ih]
    by_cases h : tab.isEmpty = true
    · rw [if_pos h]
      have : tab = [] := List.isEmpty_iff.mp h
      subst this
      simp; omega
    · rw [if_neg h]
      simp; omega

theorem kinTable_length (M : SModel α) (st : State α) : (kinTable M st).length = M.nodes.length := by
  unfold kinTable fkTable
  rw [List.length_map, fkStep_length]
  simp

theorem massFold_m (ns : List (SNode α)) (ks : List (NodeKin α)) (h : ns.length ≤ ks.length) (a : α) :
    ns.foldl (fun acc nd => if nd.counts then acc + nd.mass else acc) a
      = a + sumMass (statesOf (ns.zip ks)) := by
  induction ns generalizing ks a with
  | nil => simp only [List.foldl_nil, List.zip_nil_left, statesOf, List.filter_nil, List.map_nil, sumMass]; grind
  | cons nd ns ih =>
    cases ks with
    | nil => simp at h
    | cons k ks =>
      rw [List.foldl_cons, List.zip_cons_cons, statesOf_cons, ih ks (by simpa using h)]
      by_cases hc : nd.counts = true
      · simp only [hc, if_true, sumMass, stateOf]; grind
      · simp only [hc]; rfl

theorem totalMass_eq [DecidableEq α] (M : SModel α) (st : State α) :
    totalMass M = sumMass (bodyStates M st) := by
  unfold totalMass
  rw [bodyStates_eq, massFold_m M.nodes (kinTable M st) (by rw [kinTable_length]; exact Nat.le_refl _)]
  grind

/-- `M · com = Σ m_i c_i` and `M · v_com = Σ m_i ċ_i` for the specification's centre of mass -/
theorem com_moment [DecidableEq α] (M : SModel α) (st : State α) (hM : totalMass M ≠ 0) :
    sumMass (bodyStates M st) * com M st = sumMoment (bodyStates M st) := by
  rw [← totalMass_eq, ← massSum_pt]
  unfold com
  generalize totalMass M = T at hM
  generalize Spec.massSum M st (fun nd k => k.pt nd.com) = S
  ext <;> simp only [alg] <;> grind

theorem com_momentum [DecidableEq α] (M : SModel α) (st : State α) (hM : totalMass M ≠ 0) :
    totalMass M * comVelocity M st = sumMomentum (bodyStates M st) := by
  rw [← massSum_ptd]
  unfold comVelocity
  generalize totalMass M = T at hM
  generalize Spec.massSum M st (fun nd k => k.ptd nd.com) = S
  ext <;> simp only [alg] <;> grind

/-- first component of the fold of `Spec.angularMomentum` = angular momentum about `C` of the list -/
theorem angMomFold (C Cd : V3 α) (l : List (SNode α × NodeKin α)) (acc : V3 α × V3 α) :
    (l.foldl (fun (acc : V3 α × V3 α) (p : SNode α × NodeKin α) =>
      let (nd, k) := p
      if !nd.counts then acc else
      let c := k.pt nd.com; let cd := k.ptd nd.com; let cdd := k.ptdd nd.com
      let Iw := k.R * nd.inertia * k.R.transpose
      let Iwd := k.Rd * nd.inertia * k.R.transpose + k.R * nd.inertia * k.Rd.transpose
      let L := (c - C).cross (nd.mass * cd) + Iw * k.omega
      let Ld := (cd - Cd).cross (nd.mass * cd) + (c - C).cross (nd.mass * cdd)
                + Iwd * k.omega + Iw * k.omegaDot
      (acc.1 + L, acc.2 + Ld)) acc).1 = acc.1 + angMomAboutL C (statesOf l) := by
  induction l generalizing acc with
  | nil => simp only [List.foldl_nil, statesOf, List.filter_nil, List.map_nil, angMomAboutL]; alg_ext
  | cons p l ih =>
    obtain ⟨nd, k⟩ := p
    rw [List.foldl_cons, ih, statesOf_cons]
    by_cases hc : nd.counts = true
    · simp only [hc, Bool.not_true, if_true, angMomAboutL, stateOf]
      alg_ext
    · simp only [Bool.not_eq_true] at hc
      simp only [hc, Bool.not_false, if_true]
      rfl

theorem angularMomentum_eq [DecidableEq α] (M : SModel α) (st : State α) :
    (angularMomentum M st).1 = angularMomentumAbout M st (com M st) := by
  unfold angularMomentum angularMomentumAbout
  rw [bodyStates_eq]
  show (List.foldl _ (V3.zero, V3.zero) (M.nodes.zip (kinTable M st))).1 = _
  rw [angMomFold]; alg_ext

end Bridges

/-! ## the `JC0` loop of the code-shaped model -/
section Code
variable {α : Type} [Field α] [DecidableEq α]
open Rbdl.Spec.FpeCode

/-- inertial state of movable body `i` as the workspace has it: `X_base[i]` maps base to body
    coordinates, `v[i]` is the spatial velocity in body coordinates -/
def codeState (m : ModelS α) (w : WS α) (i : Nat) : BodyState α :=
  let b := m.body i
  let X := w.X_base i
  ⟨b.mass, X.r + X.E.tmulVec b.com, X.E.tmulVec ((w.v i).v + (w.v i).w.cross b.com),
   X.E.transpose * b.inertia * X.E, X.E.tmulVec (w.v i).w⟩

/-- the bodies the `JC0` loop visits -/
def codeStates (m : ModelS α) (w : WS α) : List (BodyState α) :=
  ((List.range' 1 (m.nBodies - 1)).filter (fun i => !(m.body i).isVirtual)).map (codeState m w)

omit [DecidableEq α] in
theorem jc0Term_eq (m : ModelS α) (w : WS α) (C : V3 α) (i : Nat) :
    jc0Term m w C i = shiftInertia (codeState m w i).Iw (codeState m w i).m (codeState m w i).c C := by
  rw [shiftInertia_skew]
  unfold jc0Term codeState
  alg_ext

omit [DecidableEq α] in
theorem jc0Fold (m : ModelS α) (w : WS α) (C : V3 α) (l : List Nat) (a : M3 α) :
    l.foldl (fun J i => if (m.body i).isVirtual then J else J + jc0Term m w C i) a
      = a + inertiaAboutL C ((l.filter (fun i => !(m.body i).isVirtual)).map (codeState m w)) := by
  induction l generalizing a with
  | nil => simp only [List.foldl_nil, List.filter_nil, List.map_nil, inertiaAboutL]; alg_ext
  | cons i l ih =>
    rw [List.foldl_cons, ih]
    by_cases hv : (m.body i).isVirtual = true
    · rw [if_pos hv, List.filter_cons_of_neg (by simp [hv])]
    · rw [if_neg hv, List.filter_cons_of_pos (by simpa using hv), List.map_cons, inertiaAboutL, jc0Term_eq]
      alg_ext

omit [DecidableEq α] in
/-- the loop of BalanceToolkit.cc:117-131 computes the inertia about `C` of the non-virtual movable
    bodies as the workspace places them -/
theorem jc0Loop_eq (m : ModelS α) (w : WS α) (C : V3 α) :
    jc0Loop m w C = inertiaAboutL C (codeStates m w) := by
  unfold jc0Loop codeStates
  rw [forUp_eq_foldl, jc0Fold]
  alg_ext

end Code

/-! ## foot-placement algebra: auxiliary -/
section Foot
variable {α : Type} [Field α]

/-- auxiliary for `fpe_leg_angle`: the vector `d u − h k` with `u ⟂ k` unit, `d = h t`, `t c = s` -/
theorem fpe_leg_aux (k u : V3 α) (h c s t : α) (hu : u.dot u = 1) (huk : u.dot k = 0)
    (hk : k.dot k = 1) (hcs : c * c + s * s = 1) (ht : t * c = s) :
    (h * k - (h * t) * u).dot k = h ∧
    ((h * t) * u - h * k).dot ((h * t) * u - h * k) * (c * c) = h * h := by
  simp only [alg] at hu huk hk ⊢
  refine ⟨by grind, ?_⟩
  have e : (h * t * u.x - h * k.x) * (h * t * u.x - h * k.x) + (h * t * u.y - h * k.y) * (h * t * u.y - h * k.y)
      + (h * t * u.z - h * k.z) * (h * t * u.z - h * k.z)
      = h * h * (t * t) * (u.x * u.x + u.y * u.y + u.z * u.z) + h * h * (k.x * k.x + k.y * k.y + k.z * k.z)
        - 2 * h * h * t * (u.x * k.x + u.y * k.y + u.z * k.z) := by grind
  rw [e, hu, hk, huk]
  grind

end Foot

/-- squares of rationals are non-negative (for the statement about the precondition guard) -/
theorem rat_mul_self_nonneg (a : Rat) : 0 ≤ a * a := by
  rcases (Rat.le_total : 0 ≤ a ∨ a ≤ 0) with h | h
  · exact Rat.mul_nonneg h h
  · have : 0 ≤ -a := by grind
    have := Rat.mul_nonneg this this
    grind

end Rbdl.L12b
