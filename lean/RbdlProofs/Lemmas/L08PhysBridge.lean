import RbdlProofs.Lemmas.Kkt
import Mathlib.Algebra.BigOperators.Fin
import RbdlProofs.Lemmas.L08Phys
/-
  Bridge between the Mathlib-matrix statements of `Kkt*.lean` / C08 / C10 / C11
  (`Matrix (Fin n) (Fin k) K`, `Fin n → K`) and the arrays of the code-shaped model
  (`MatN K = Nat → Nat → K`, `VecN K = Nat → K`, finite sums `sumTo`).  `K` is a (Mathlib) field; the
  model is instantiated at `K` through `Field.toGrindField`.

  `toM n k G` / `toV n x` restrict an array to its first rows / columns / entries; `ofV x` extends a
  vector by zeros.  `(toM G *ᵥ toV x) i = rowDot G k i x`, `((toM G)ᵀ *ᵥ toV λ) j = colDot G n j λ`.
-/
set_option linter.unusedSectionVars false
namespace Rbdl.L08Phys.Bridge
open Matrix Rbdl Rbdl.L09 Rbdl.L08Phys

variable {K : Type} [Field K] [DecidableEq K]

/-- the leading `n × k` block of an array as a Mathlib matrix -/
def toM (n k : Nat) (G : MatN K) : Matrix (Fin n) (Fin k) K := Matrix.of fun i j => G i j
/-- the first `n` entries of an array as a Mathlib vector -/
def toV (n : Nat) (x : VecN K) : Fin n → K := fun i => x i
/-- a Mathlib vector as an array (zero beyond `n`) -/
def ofV {n : Nat} (x : Fin n → K) : VecN K := fun k => if h : k < n then x ⟨k, h⟩ else 0

theorem sumTo_eq_sum (n : Nat) (f : Nat → K) : sumTo n f = ∑ i : Fin n, f i := by
  induction n with
  | zero => simp [sumTo]
  | succ n ih => rw [sumTo, ih, Fin.sum_univ_castSucc]; rfl

theorem toV_ofV {n : Nat} (x : Fin n → K) : toV n (ofV x) = x := by
  funext i
  simp [toV, ofV]

theorem ofV_apply {n : Nat} (x : Fin n → K) (i : Fin n) : ofV x i = x i := by
  simp [ofV]

theorem toM_mulVec (n k : Nat) (G : MatN K) (x : VecN K) (i : Fin n) :
    (toM n k G *ᵥ toV k x) i = rowDot G k i x := by
  unfold rowDot
  rw [sumTo_eq_sum]
  rfl

theorem toM_transpose_mulVec (n k : Nat) (G : MatN K) (lam : VecN K) (j : Fin k) :
    ((toM n k G)ᵀ *ᵥ toV n lam) j = colDot G n j lam := by
  unfold colDot
  rw [sumTo_eq_sum]
  rfl

theorem toV_dot (n : Nat) (x y : VecN K) : toV n x ⬝ᵥ toV n y = sumTo n (fun i => x i * y i) := by
  rw [sumTo_eq_sum]
  rfl

/-- `G x = γ` as a matrix equation ⇔ row by row -/
theorem constraint_eq_iff (nc nv : Nat) (G : MatN K) (x gam : VecN K) :
    toM nc nv G *ᵥ toV nv x = toV nc gam ↔ ∀ r, r < nc → rowDot G nv r x = gam r := by
  constructor
  · intro h r hr
    have := congrFun h ⟨r, hr⟩
    rw [toM_mulVec] at this
    exact this
  · intro h
    funext i
    rw [toM_mulVec]
    exact h i i.2

/-- `H x + N = τ + Gᵀ λ` as a matrix equation ⇔ entry by entry -/
theorem motion_eq_iff (nc nv : Nat) (H G : MatN K) (x N tau lam : VecN K) :
    toM nv nv H *ᵥ toV nv x + toV nv N = toV nv tau + (toM nc nv G)ᵀ *ᵥ toV nc lam ↔
      ∀ r, r < nv → sumTo nv (fun c => H r c * x c) + N r = tau r + colDot G nc r lam := by
  constructor
  · intro h r hr
    have := congrFun h ⟨r, hr⟩
    rw [Pi.add_apply, Pi.add_apply, toM_mulVec, toM_transpose_mulVec] at this
    exact this
  · intro h
    funext i
    rw [Pi.add_apply, Pi.add_apply, toM_mulVec, toM_transpose_mulVec]
    exact h i i.2

/-! ### the selection matrices of the actuation map -/

theorem selMat_mulVec {N : ℕ} (s : Finset (Fin N)) (x : Fin N → K) (j : Fin s.card) :
    (Kkt.selMat K s *ᵥ x) j = x (s.orderEmbOfFin rfl j) := by
  simp [Kkt.selMat, Matrix.mulVec, dotProduct]

theorem selMat_mulVec_eq_iff {N : ℕ} (s : Finset (Fin N)) (x y : Fin N → K) :
    Kkt.selMat K s *ᵥ x = Kkt.selMat K s *ᵥ y ↔ ∀ i ∈ s, x i = y i := by
  constructor
  · intro h i hi
    obtain ⟨j, rfl⟩ := Kkt.exists_orderEmbOfFin_eq hi
    have := congrFun h j
    rwa [selMat_mulVec, selMat_mulVec] at this
  · intro h
    funext j
    rw [selMat_mulVec, selMat_mulVec]
    exact h _ (s.orderEmbOfFin_mem rfl j)

/-- **tracking, entrywise**: `S q̈ = S q̈_des` ⇔ `q̈` and `q̈_des` agree on the actuated coordinates -/
theorem selS_mulVec_eq_iff {N : ℕ} (act : Fin N → Bool) (x y : Fin N → K) :
    Kkt.selS K act *ᵥ x = Kkt.selS K act *ᵥ y ↔ ∀ i, act i = true → x i = y i := by
  unfold Kkt.selS
  rw [selMat_mulVec_eq_iff]
  simp [Kkt.actSet]

/-- **`P τ = 0`, entrywise**: `τ` vanishes on the unactuated coordinates -/
theorem selP_mulVec_eq_zero_iff {N : ℕ} (act : Fin N → Bool) (t : Fin N → K) :
    Kkt.selP K act *ᵥ t = 0 ↔ ∀ i, act i = false → t i = 0 := by
  have h := selMat_mulVec_eq_iff (K := K) (Kkt.actSet act false) t 0
  rw [Matrix.mulVec_zero] at h
  unfold Kkt.selP
  rw [h]
  simp [Kkt.actSet]

/-! ### the fully actuated case (for the non-vacuity example) -/

/-- `G x = γ` for a Mathlib vector `x` and the arrays `G`, `γ` -/
def ConstrHolds (nc nv : Nat) (G : MatN K) (x : Fin nv → K) (gam : VecN K) : Prop :=
  toM nc nv G *ᵥ x = toV nc gam

theorem constrHolds_iff (nc nv : Nat) (G : MatN K) (x gam : VecN K) :
    ConstrHolds nc nv G (toV nv x) gam ↔ ∀ r, r < nc → rowDot G nv r x = gam r :=
  constraint_eq_iff nc nv G x gam

section FullyActuated
variable {N : ℕ} (act : Fin N → Bool) [IsEmpty (Fin (Kkt.actSet act false).card)]

theorem selP_transpose_mulVec_of_empty (y : Fin (Kkt.actSet act false).card → K) :
    (Kkt.selP K act)ᵀ *ᵥ y = 0 := by
  funext i
  simp [Matrix.mulVec, dotProduct]

theorem selS_roundtrip_of_empty (x : Fin N → K) :
    (Kkt.selS K act)ᵀ *ᵥ (Kkt.selS K act *ᵥ x) = x := by
  have h := Kkt.selS_selP_partition (K := K) act
  have : ((Kkt.selS K act)ᵀ * Kkt.selS K act + (Kkt.selP K act)ᵀ * Kkt.selP K act) *ᵥ x = x := by
    rw [h, one_mulVec]
  rw [add_mulVec, ← mulVec_mulVec, ← mulVec_mulVec, selP_transpose_mulVec_of_empty, add_zero] at this
  exact this

/-- with every coordinate actuated, the `v`-equation of the operator of C11 holds for `v = 0` iff the
    desired accelerations satisfy the constraints -/
theorem hv_of_feasible (nc : Nat) (G : MatN K) (gam : VecN K) (x : Fin N → K)
    (h : ConstrHolds nc N G x gam) :
    (toM nc N G * (Kkt.selP K act)ᵀ) *ᵥ (fun _ => 0 : Fin (Kkt.actSet act false).card → K)
      = toV nc gam - (toM nc N G * (Kkt.selS K act)ᵀ) *ᵥ (Kkt.selS K act *ᵥ x) := by
  unfold ConstrHolds at h
  rw [← mulVec_mulVec, ← mulVec_mulVec, selS_roundtrip_of_empty, h, sub_self,
    selP_transpose_mulVec_of_empty, mulVec_zero]

theorem eq_of_empty (x y : Fin (Kkt.actSet act false).card → K) : x = y := by
  funext i; exact isEmptyElim i

end FullyActuated

end Rbdl.L08Phys.Bridge
