import RbdlProofs.Lemmas.L05Ws
/-
  C05, routine level: `CalcPointJacobian`, `CalcPointJacobian6D`, `CalcBodySpatialJacobian` as
  instances of `jacFill`; the change-of-frame relations between them; `G q̇`.
-/
namespace Rbdl.L05
open Lean.Grind Rbdl Rbdl.Loops
set_option linter.unusedSimpArgs false
set_option linter.unusedVariables false
set_option linter.unusedSectionVars false

section
variable {α : Type} [Field α]

/-! ### the three routines are `jacFill` -/

/-- the transform `CalcBodySpatialJacobian` uses: base → (fixed) body frame -/
def bsjT (m : ModelS α) (w : WS α) (id : Nat) : XT α :=
  if m.isFixedBodyId id then
    (m.fixedBody (id - fixedDisc)).parentTransform * w.X_base (m.refBody id)
  else w.X_base (m.refBody id)

theorem calcPointJacobian_eq (m : ModelS α) (w : WS α) (st : QS α) (id : Nat) (p : V3 α)
    (G : MatN α) (update : Bool) :
    (calcPointJacobian m w st id p G update).2
      = jacFill m (updQ m w st update) ⟨M3.one, bodyToBase0 m (updQ m w st update) id p⟩
          (m.refBody id) (fun x => V3.toList x.v) G := rfl

theorem calcPointJacobian6D_eq (m : ModelS α) (w : WS α) (st : QS α) (id : Nat) (p : V3 α)
    (G : MatN α) (update : Bool) :
    (calcPointJacobian6D m w st id p G update).2
      = jacFill m (updQ m w st update) ⟨M3.one, bodyToBase0 m (updQ m w st update) id p⟩
          (m.refBody id) SV.toList G := rfl

theorem calcBodySpatialJacobian_eq (m : ModelS α) (w : WS α) (st : QS α) (id : Nat)
    (G : MatN α) (update : Bool) :
    (calcBodySpatialJacobian m w st id G update).2
      = jacFill m (updQ m w st update) (bsjT m (updQ m w st update) id) (m.refBody id)
          SV.toList G := rfl

theorem updQ_false (m : ModelS α) (w : WS α) (st : QS α) : updQ m w st false = w := rfl

theorem isFixedBodyId_of_not (m : ModelS α) (id : Nat) (hid : ¬ fixedDisc ≤ id) :
    m.isFixedBodyId id = false := by
  unfold ModelS.isFixedBodyId; simp [hid]

theorem refBody_movable (m : ModelS α) (id : Nat) (hid : ¬ fixedDisc ≤ id) : m.refBody id = id := by
  unfold ModelS.refBody
  rw [isFixedBodyId_of_not m id hid]
  rfl

theorem refBody_fixed (m : ModelS α) (id : Nat) (hf : m.isFixedBodyId id = true) :
    m.refBody id = (m.fixedBody (id - fixedDisc)).movableParent := by
  unfold ModelS.refBody
  rw [hf]
  rfl

theorem fixedDisc_le_of_fixed (m : ModelS α) (id : Nat) (hf : m.isFixedBodyId id = true) :
    fixedDisc ≤ id := by
  unfold ModelS.isFixedBodyId at hf
  simp only [Bool.and_eq_true, decide_eq_true_eq] at hf
  exact hf.1.1

theorem bsjT_movable (m : ModelS α) (w : WS α) (id : Nat) (hid : ¬ fixedDisc ≤ id) :
    bsjT m w id = w.X_base id := by
  unfold bsjT
  rw [isFixedBodyId_of_not m id hid, refBody_movable m id hid]
  rfl

theorem bsjT_fixed (m : ModelS α) (w : WS α) (id : Nat) (hf : m.isFixedBodyId id = true) :
    bsjT m w id = (m.fixedBody (id - fixedDisc)).parentTransform
      * w.X_base (m.fixedBody (id - fixedDisc)).movableParent := by
  unfold bsjT
  rw [refBody_fixed m id hf, hf]
  rfl

theorem bodyToBase0_movable (m : ModelS α) (w : WS α) (id : Nat) (p : V3 α)
    (hid : ¬ fixedDisc ≤ id) :
    bodyToBase0 m w id p = (w.X_base id).r + (w.X_base id).E.tmulVec p := by
  unfold bodyToBase0
  rw [if_neg hid]

/-- a point of a fixed body is the point `r_f + E_fᵀ p` of its movable parent -/
theorem bodyToBase0_fixed (m : ModelS α) (w : WS α) (id : Nat) (p : V3 α)
    (hid : fixedDisc ≤ id) :
    bodyToBase0 m w id p
      = (w.X_base (m.fixedBody (id - fixedDisc)).movableParent).r
        + (w.X_base (m.fixedBody (id - fixedDisc)).movableParent).E.tmulVec
            ((m.fixedBody (id - fixedDisc)).parentTransform.r
              + (m.fixedBody (id - fixedDisc)).parentTransform.E.tmulVec p) := by
  unfold bodyToBase0
  rw [if_pos hid]

/-! ### (4) the three Jacobians agree under the change of frame -/

/-- rows 3..5 of the 6-D point Jacobian are the point Jacobian -/
theorem pointJacobian_rows (m : ModelS α) (w : WS α) (st : QS α) (id : Nat) (p : V3 α)
    (G3 G6 : MatN α) (update : Bool) (hG : ∀ r k, r < 3 → G3 r k = G6 (r + 3) k) :
    ∀ r k, r < 3 →
      (calcPointJacobian m w st id p G3 update).2 r k
        = (calcPointJacobian6D m w st id p G6 update).2 (r + 3) k := by
  rw [calcPointJacobian_eq, calcPointJacobian6D_eq]
  refine jacFill_sim (fun A B => ∀ r k, r < 3 → A r k = B (r + 3) k) m _ _ _ _ _ _ ?_ G3 G6 hG
  intro A B c y hAB r k hr
  by_cases hk : k = c
  · subst hk
    rw [setCol_same, setCol_same]
    obtain rfl | rfl | rfl : r = 0 ∨ r = 1 ∨ r = 2 := by omega
    all_goals rfl
  · rw [setCol_other _ _ _ _ _ hk, setCol_other _ _ _ _ _ hk]
    exact hAB r k hr

/-- column by column, the 6-D point Jacobian is the body spatial Jacobian moved from the body frame
    to the base frame and then to the point: `⟨1, p_world⟩ ∘ T_body⁻¹` -/
theorem pointJacobian6D_of_spatial (m : ModelS α) (w : WS α) (st : QS α) (id : Nat) (p : V3 α)
    (G6 GB : MatN α) (update : Bool)
    (hrot : (bsjT m (updQ m w st update) id).E.IsRot)
    (hG : ∀ k, colSV G6 k
      = (⟨M3.one, bodyToBase0 m (updQ m w st update) id p⟩ : XT α).apply
          ((bsjT m (updQ m w st update) id).inverse.apply (colSV GB k))) :
    ∀ k, colSV (calcPointJacobian6D m w st id p G6 update).2 k
      = (⟨M3.one, bodyToBase0 m (updQ m w st update) id p⟩ : XT α).apply
          ((bsjT m (updQ m w st update) id).inverse.apply
            (colSV (calcBodySpatialJacobian m w st id GB update).2 k)) := by
  rw [calcPointJacobian6D_eq, calcBodySpatialJacobian_eq]
  generalize updQ m w st update = w' at hrot hG ⊢
  generalize (⟨M3.one, bodyToBase0 m w' id p⟩ : XT α) = T6 at hG ⊢
  generalize bsjT m w' id = TB at hrot hG ⊢
  refine jacFill_sim (fun A B => ∀ k, colSV A k = T6.apply (TB.inverse.apply (colSV B k)))
    m w' T6 TB _ _ _ ?_ G6 GB hG
  intro A B c y hAB k
  by_cases hk : k = c
  · subst hk
    rw [colSV_setCol_same, colSV_setCol_same, C16.inverse_apply TB hrot]
  · rw [colSV_setCol_other _ _ _ _ hk, colSV_setCol_other _ _ _ _ hk]
    exact hAB k

/-- zero-initialised matrices are related as required -/
theorem zeroMat_related (T6 TB : XT α) (k : Nat) :
    colSV (zeroMat : MatN α) k = T6.apply (TB.inverse.apply (colSV (zeroMat : MatN α) k)) := by
  rw [colSV_zeroMat, apply_zero, apply_zero]

/-! ### (3) `G q̇` -/

/-- `⟨1, r + Eᵀ p⟩ ∘ X⁻¹ = ⟨Eᵀ, p⟩`: from the body frame to base coordinates at the point `p` -/
theorem point_transform (X : XT α) (h : X.E.IsRot) (p : V3 α) (v : SV α) :
    (⟨M3.one, X.r + X.E.tmulVec p⟩ : XT α).apply (X.inverse.apply v)
      = (⟨X.E.transpose, p⟩ : XT α).apply v := by
  obtain ⟨n0,n1,n2,o01,o02,o12,c00,c01,c02,c10,c11,c12,c20,c21,c22⟩ := h.transpose
  simp only [M3.transpose] at *
  ext <;> simp only [alg] <;> grind

theorem mulVecV3_eq (G : MatN α) (n : Nat) (x : VecN α) :
    mulVecV3 G n x = ⟨sumTo n (fun k => G 0 k * x k), sumTo n (fun k => G 1 k * x k),
      sumTo n (fun k => G 2 k * x k)⟩ := rfl

/-- the rows of `mulVecSV` are the sums `Σ_k G r k * x k` -/
theorem mulVecSV_row (G : MatN α) (n : Nat) (x : VecN α) (r : Nat) (hr : r < 6) :
    (SV.toList (mulVecSV G n x)).getD r 0 = sumTo n (fun k => G r k * x k) := by
  obtain rfl | rfl | rfl | rfl | rfl | rfl : r = 0 ∨ r = 1 ∨ r = 2 ∨ r = 3 ∨ r = 4 ∨ r = 5 := by
    omega
  all_goals rfl

theorem mulVecV3_row (G : MatN α) (n : Nat) (x : VecN α) (r : Nat) (hr : r < 3) :
    (V3.toList (mulVecV3 G n x)).getD r 0 = sumTo n (fun k => G r k * x k) := by
  obtain rfl | rfl | rfl : r = 0 ∨ r = 1 ∨ r = 2 := by omega
  all_goals rfl

/-- the linear rows of a 6-row product -/
theorem mulVecSV_v (G3 G6 : MatN α) (n : Nat) (x : VecN α)
    (h : ∀ r k, r < 3 → G3 r k = G6 (r + 3) k) : mulVecV3 G3 n x = (mulVecSV G6 n x).v := by
  have e : ∀ r, r < 3 → (fun k => G3 r k * x k) = (fun k => G6 (r + 3) k * x k) :=
    fun r hr => funext (fun k => by rw [h r k hr])
  simp only [mulVecV3, mulVecSV, e 0 (by omega), e 1 (by omega), e 2 (by omega)]

/-- workspace hypotheses of the `G q̇` theorems: coordinate layout, one column per degree of freedom,
    kinematic recursions -/
structure JacHyp (m : ModelS α) (w : WS α) (qd : VecN α) : Prop where
  layout : Layout m
  cols : ColsOk m w
  kin : KinWS m w qd

/-- (3) body spatial Jacobian of a movable body: `G q̇ = v[id]` -/
theorem bodySpatialJacobian_mul_movable (m : ModelS α) (w : WS α) (st : QS α) (qd : VecN α)
    (id : Nat) (h : JacHyp m w qd) (h1 : 1 ≤ id) (hi : id < m.nBodies) (hid : ¬ fixedDisc ≤ id) :
    mulVecSV (calcBodySpatialJacobian m w st id zeroMat false).2 m.qdotSize qd = w.v id := by
  rw [calcBodySpatialJacobian_eq, updQ_false, refBody_movable m id hid, bsjT_movable m w id hid,
    jacFill_mulVec h.layout h.cols h.kin _ id h1 hi,
    apply_inverse _ (h.kin.rot_base h.layout.tree id h1 hi)]

/-- (3) 6-D point Jacobian of a movable body: `G q̇ = CalcPointVelocity6D` in the same workspace -/
theorem pointJacobian6D_mul_movable (m : ModelS α) (w : WS α) (st : QS α) (qd : VecN α)
    (id : Nat) (p : V3 α) (h : JacHyp m w qd) (h1 : 1 ≤ id) (hi : id < m.nBodies)
    (hid : ¬ fixedDisc ≤ id) :
    mulVecSV (calcPointJacobian6D m w st id p zeroMat false).2 m.qdotSize qd
      = (calcPointVelocity6D m w st qd id p false).2 := by
  rw [calcPointJacobian6D_eq, updQ_false, refBody_movable m id hid, bodyToBase0_movable m w id p hid,
    jacFill_mulVec h.layout h.cols h.kin _ id h1 hi,
    point_transform _ (h.kin.rot_base h.layout.tree id h1 hi),
    L06.calcPointVelocity6D_eq m w st qd id p hid (by omega)]

/-- (3) point Jacobian of a movable body: `G q̇ = CalcPointVelocity` in the same workspace -/
theorem pointJacobian_mul_movable (m : ModelS α) (w : WS α) (st : QS α) (qd : VecN α)
    (id : Nat) (p : V3 α) (h : JacHyp m w qd) (h1 : 1 ≤ id) (hi : id < m.nBodies)
    (hid : ¬ fixedDisc ≤ id) :
    mulVecV3 (calcPointJacobian m w st id p zeroMat false).2 m.qdotSize qd
      = (calcPointVelocity m w st qd id p false).2 := by
  rw [mulVecSV_v _ (calcPointJacobian6D m w st id p zeroMat false).2 _ _
    (pointJacobian_rows m w st id p zeroMat zeroMat false (fun _ _ _ => rfl)),
    pointJacobian6D_mul_movable m w st qd id p h h1 hi hid]
  rfl

/-! ### fixed bodies: the same statements through the movable parent -/

/-- `CalcPointVelocity6D` (no update) on a fixed body, when `X_base` of its parent is a rotation -/
theorem calcPointVelocity6D_fixed (m : ModelS α) (w : WS α) (st : QS α) (qd : VecN α) (id : Nat)
    (p : V3 α) (hf : m.isFixedBodyId id = true)
    (hrb : ¬ fixedDisc ≤ (m.fixedBody (id - fixedDisc)).movableParent)
    (hrb0 : (m.fixedBody (id - fixedDisc)).movableParent ≠ 0)
    (hrot : (w.X_base (m.fixedBody (id - fixedDisc)).movableParent).E.IsRot) :
    (calcPointVelocity6D m w st qd id p false).2
      = (⟨(w.X_base (m.fixedBody (id - fixedDisc)).movableParent).E.transpose,
          (m.fixedBody (id - fixedDisc)).parentTransform.r
            + (m.fixedBody (id - fixedDisc)).parentTransform.E.tmulVec p⟩ : XT α).apply
          (w.v (m.fixedBody (id - fixedDisc)).movableParent) := by
  have hd := fixedDisc_le_of_fixed m id hf
  simp only [calcPointVelocity6D, refPoint, hf, worldOrientation0, if_neg hrb,
    Bool.false_eq_true, if_false, if_true, upd_other _ _ _ _ hrb0, baseToBody0, bodyToBase0,
    if_pos hd]
  congr 2
  generalize (m.fixedBody (id - fixedDisc)).parentTransform.r
    + (m.fixedBody (id - fixedDisc)).parentTransform.E.tmulVec p = p'
  have e : (w.X_base (m.fixedBody (id - fixedDisc)).movableParent).r
      + (w.X_base (m.fixedBody (id - fixedDisc)).movableParent).E.tmulVec p'
      - (w.X_base (m.fixedBody (id - fixedDisc)).movableParent).r
      = (w.X_base (m.fixedBody (id - fixedDisc)).movableParent).E.tmulVec p' := by alg_ext
  rw [e, hrot.mul_tmulVec]

/-- (3) 6-D point Jacobian of a fixed body -/
theorem pointJacobian6D_mul_fixed (m : ModelS α) (w : WS α) (st : QS α) (qd : VecN α)
    (id : Nat) (p : V3 α) (h : JacHyp m w qd) (hf : m.isFixedBodyId id = true)
    (h1 : 1 ≤ (m.fixedBody (id - fixedDisc)).movableParent)
    (hi : (m.fixedBody (id - fixedDisc)).movableParent < m.nBodies)
    (hrb : ¬ fixedDisc ≤ (m.fixedBody (id - fixedDisc)).movableParent) :
    mulVecSV (calcPointJacobian6D m w st id p zeroMat false).2 m.qdotSize qd
      = (calcPointVelocity6D m w st qd id p false).2 := by
  have hrot := h.kin.rot_base h.layout.tree _ h1 hi
  rw [calcPointJacobian6D_eq, updQ_false, refBody_fixed m id hf,
    bodyToBase0_fixed m w id p (fixedDisc_le_of_fixed m id hf),
    jacFill_mulVec h.layout h.cols h.kin _ _ h1 hi, point_transform _ hrot,
    calcPointVelocity6D_fixed m w st qd id p hf hrb (by omega) hrot]

/-- (3) point Jacobian of a fixed body -/
theorem pointJacobian_mul_fixed (m : ModelS α) (w : WS α) (st : QS α) (qd : VecN α)
    (id : Nat) (p : V3 α) (h : JacHyp m w qd) (hf : m.isFixedBodyId id = true)
    (h1 : 1 ≤ (m.fixedBody (id - fixedDisc)).movableParent)
    (hi : (m.fixedBody (id - fixedDisc)).movableParent < m.nBodies)
    (hrb : ¬ fixedDisc ≤ (m.fixedBody (id - fixedDisc)).movableParent) :
    mulVecV3 (calcPointJacobian m w st id p zeroMat false).2 m.qdotSize qd
      = (calcPointVelocity m w st qd id p false).2 := by
  rw [mulVecSV_v _ (calcPointJacobian6D m w st id p zeroMat false).2 _ _
    (pointJacobian_rows m w st id p zeroMat zeroMat false (fun _ _ _ => rfl)),
    pointJacobian6D_mul_fixed m w st qd id p h hf h1 hi hrb]
  rfl

/-- (3) body spatial Jacobian of a fixed body: `G q̇` is the spatial velocity of the movable parent
    expressed in the frame of the fixed body -/
theorem bodySpatialJacobian_mul_fixed (m : ModelS α) (w : WS α) (st : QS α) (qd : VecN α)
    (id : Nat) (h : JacHyp m w qd) (hf : m.isFixedBodyId id = true)
    (h1 : 1 ≤ (m.fixedBody (id - fixedDisc)).movableParent)
    (hi : (m.fixedBody (id - fixedDisc)).movableParent < m.nBodies) :
    mulVecSV (calcBodySpatialJacobian m w st id zeroMat false).2 m.qdotSize qd
      = (m.fixedBody (id - fixedDisc)).parentTransform.apply
          (w.v (m.fixedBody (id - fixedDisc)).movableParent) := by
  have hrot := h.kin.rot_base h.layout.tree _ h1 hi
  rw [calcBodySpatialJacobian_eq, updQ_false, bsjT_fixed m w id hf, refBody_fixed m id hf,
    jacFill_mulVec h.layout h.cols h.kin _ _ h1 hi, C16.mul_apply _ _ hrot,
    apply_inverse _ hrot]

/-! ### (5) a matrix that is not zero-initialised -/

/-- column `k` belongs to a joint on the path from `start` -/
def onPathCol (m : ModelS α) (w : WS α) (start k : Nat) : Bool :=
  (path m start).any (fun j =>
    decide ((m.joint j).qIndex ≤ k ∧ k < (m.joint j).qIndex + (w.Scols m j).length))

theorem onPathCol_iff (m : ModelS α) (w : WS α) (start k : Nat) :
    onPathCol m w start k = true ↔ ∃ j ∈ path m start, inBlock m w j k := by
  unfold onPathCol inBlock
  simp only [List.any_eq_true, decide_eq_true_eq]

/-- the part of `G` in the columns the routine does not write -/
def offPathPart (m : ModelS α) (w : WS α) (start : Nat) (G : MatN α) : MatN α :=
  fun r k => if onPathCol m w start k then 0 else G r k

/-- (5) with an arbitrary initial matrix, `G q̇` is the velocity **plus** the product of the
    off-path columns of the initial matrix with `q̇` -/
theorem jacFill_mulVec_garbage {m : ModelS α} {w : WS α} {qd : VecN α} (hL : Layout m)
    (hc : ColsOk m w) (hk : KinWS m w qd) (T : XT α) (start : Nat) (h1 : 1 ≤ start)
    (hs : start < m.nBodies) (G : MatN α) :
    mulVecSV (jacFill m w T start SV.toList G) m.qdotSize qd
      = T.apply ((w.X_base start).inverse.apply (w.v start))
        + mulVecSV (offPathPart m w start G) m.qdotSize qd := by
  have hcol : ∀ k, colSV (jacFill m w T start SV.toList G) k
      = colSV (jacFill m w T start SV.toList (offPathPart m w start G)) k := by
    intro k
    by_cases hon : onPathCol m w start k = true
    · obtain ⟨j, hj, hb⟩ := (onPathCol_iff m w start k).1 hon
      unfold inBlock at hb
      obtain ⟨c, rfl⟩ : ∃ c, k = (m.joint j).qIndex + c := ⟨k - (m.joint j).qIndex, by omega⟩
      have hcj : c < (w.Scols m j).length := by omega
      simp only [colSV, jacFill_column m w T start SV.toList _ hL hc hs j hj c hcj, SV.toList,
        List.length_cons, List.length_nil]
      rfl
    · have hmiss : ∀ j ∈ path m start, ¬ inBlock m w j k := fun j hj hb =>
        hon ((onPathCol_iff m w start k).2 ⟨j, hj, hb⟩)
      simp only [colSV, jacFill_offpath m w T start SV.toList _ hL.tree hs k hmiss, offPathPart]
      have : onPathCol m w start k = false := by simpa using hon
      simp only [this, Bool.false_eq_true, if_false]
  rw [mulVecSV_congr _ _ _ _ (fun k _ => hcol k), jacFill_eq_path m hL.tree w T start hs]
  rw [mulVecSV_fillList m w T m.qdotSize qd _ (path_blocksDisjoint hL hc start hs) _
    (fun j hj => by
      have := mem_path m hL.tree start hs j hj
      exact block_in_range hL hc j this.1 (by omega))
    (fun j hj k hk' => by
      have : onPathCol m w start k = true := (onPathCol_iff m w start k).2 ⟨j, hj, hk'⟩
      simp only [colSV, offPathPart, this, if_true]
      rfl)]
  rw [velocity_as_sum hk hL.tree start h1 hs, pathSum_apply, sv_add_comm]

end
end Rbdl.L05
