import RbdlProofs.Lemmas.L08PhysDyn
/-
  C08 / C10, physical reading (part 6): the position-level content of the workspace `csvWS`
  (`X_lambda`, motion subspaces, `X_base`) does not depend on the velocity vector
  `CalcConstrainedSystemVariables` is called with.  Used to read the entries of `G` as unit-rate
  velocities and to compare the pre- and post-impact states of C10.
-/
set_option linter.unusedSectionVars false
namespace Rbdl.L08Phys
open Lean.Grind Rbdl Rbdl.Loops Rbdl.L05 Rbdl.L09

section
variable {α : Type} [Field α] [DecidableEq α]

theorem customCalc_cols_qd (kind : CustomKind) (k : Nat) (st : QS α) (qd qd' : VecN α) :
    (customCalc kind k st qd).2.1 = (customCalc kind k st qd').2.1 := by
  cases kind <;> rfl

/-- the position-level outputs of `jcalc` do not depend on `q̇` -/
theorem jcalc_static_qd (m : ModelS α) (s : WS α) (i : Nat) (st : QS α) (qd qd' : VecN α) :
    (jcalc m s i st qd).X_lambda = (jcalc m s i st qd').X_lambda ∧
    (jcalc m s i st qd).S = (jcalc m s i st qd').S ∧
    (jcalc m s i st qd).S3 = (jcalc m s i st qd').S3 ∧
    (jcalc m s i st qd).cS = (jcalc m s i st qd').cS := by
  refine ⟨by rw [jcalc_X_lambda, jcalc_X_lambda], ?_, ?_, ?_⟩
  · unfold jcalc; dsimp only; cases (m.joint i).jt <;> rfl
  · unfold jcalc; dsimp only; cases (m.joint i).jt <;> rfl
  · rw [L01.jcalc_cS, L01.jcalc_cS, customCalc_cols_qd _ _ st qd qd']
/-- the position-level content of `csvWS` (link transforms, motion subspaces, base transforms) does
    not depend on the velocity vector the routine was called with -/
theorem csvWS_static (m : ModelS α) (w : WS α) (st : QS α) (qd qd' : VecN α)
    (fext : Option (Nat → SV α)) (h : WsHyp m w st) :
    (csvWS m w st qd true fext).X_lambda = (csvWS m w st qd' true fext).X_lambda ∧
    (csvWS m w st qd true fext).Scols m = (csvWS m w st qd' true fext).Scols m ∧
    (csvWS m w st qd true fext).X_base = (csvWS m w st qd' true fext).X_base := by
  have hu : updQ m w st true = updateKinematicsCustom m w (some st) none none := rfl
  -- rows outside the range hold the entry values
  have hout : ∀ (q : VecN α) j, (j = 0 ∨ m.nBodies ≤ j) →
      (csvWS m w st q true fext).X_lambda j
        = (updateKinematicsCustom m w (some st) none none).X_lambda j ∧
      (csvWS m w st q true fext).Scols m j
        = (updateKinematicsCustom m w (some st) none none).Scols m j ∧
      (csvWS m w st q true fext).X_base j
        = (updateKinematicsCustom m w (some st) none none).X_base j := by
    intro q j hj
    have hr := neForward_row_outside m h.inj h.perm (updateKinematicsCustom m w (some st) none none)
      st q fext j hj
    have eX := csvWS_keep (fun w => w.X_lambda) (fun _ _ => rfl) (fun _ _ => rfl) m w st q true fext
    have eB := csvWS_keep (fun w => w.X_base) (fun _ _ => rfl) (fun _ _ => rfl) m w st q true fext
    have eS := csvWS_keep (fun w => w.Scols m) (fun _ _ => rfl) (fun _ _ => rfl) m w st q true fext
    rw [hu] at eX eB eS
    refine ⟨?_, ?_, ?_⟩
    · rw [eX, (L01.row_fields hr).1]; rfl
    · rw [eS, L01.Scols_row m _ _ j hr]; rfl
    · rw [eB, (L01.row_fields hr).2.2.2.2.2.2.2.2.2]; rfl
  obtain ⟨_, hb0, hr⟩ := csvWS_rows m w st qd fext h
  obtain ⟨_, hb0', hr'⟩ := csvWS_rows m w st qd' fext h
  have hX : ∀ j, (csvWS m w st qd true fext).X_lambda j = (csvWS m w st qd' true fext).X_lambda j := by
    intro j
    by_cases hj : 1 ≤ j ∧ j < m.nBodies
    · rw [(hr j hj.1 hj.2).1, (hr' j hj.1 hj.2).1, (jcalc_static_qd m _ j st qd qd').1]
    · rw [(hout qd j (by omega)).1, (hout qd' j (by omega)).1]
  refine ⟨funext hX, funext fun j => ?_, funext fun j => ?_⟩
  · by_cases hj : 1 ≤ j ∧ j < m.nBodies
    · obtain ⟨_, _, _, rS, rS3, rcS, _, _⟩ := hr j hj.1 hj.2
      obtain ⟨_, _, _, rS', rS3', rcS', _, _⟩ := hr' j hj.1 hj.2
      obtain ⟨_, jS, jS3, jcS⟩ := jcalc_static_qd m
        (updateKinematicsCustom m w (some st) none none) j st qd qd'
      exact L05.Scols_congr m _ _ j (by rw [rS, rS', jS]) (by rw [rS3, rS3', jS3])
        (fun hc => by rw [rcS hc, rcS' hc, jcS])
    · rw [(hout qd j (by omega)).2.1, (hout qd' j (by omega)).2.1]
  · -- `X_base`: the recursion with equal link transforms
    have hJ := csvWS_jacHyp m w st qd fext h
    have hJ' := csvWS_jacHyp m w st qd' fext h
    induction j using Nat.strongRecOn with
    | _ j ih =>
      by_cases hj : 1 ≤ j ∧ j < m.nBodies
      · rw [(hJ.kin j hj.1 hj.2).X_base, (hJ'.kin j hj.1 hj.2).X_base, hX j]
        by_cases hl : m.lam j ≠ 0
        · rw [if_pos hl, if_pos hl, ih (m.lam j) (h.setup.kin.tree j hj.1 hj.2)]
        · rw [if_neg hl, if_neg hl]
      · rw [(hout qd j (by omega)).2.2, (hout qd' j (by omega)).2.2]

/-- a row times a unit vector is an entry -/
theorem rowDot_unit (G : MatN α) (nv r k : Nat) (hk : k < nv) :
    rowDot G nv r (L03.unitVec k) = G r k := by
  unfold rowDot
  induction nv with
  | zero => omega
  | succ n ih =>
    rw [sumTo]
    by_cases e : k = n
    · subst e
      have z : sumTo k (fun j => G r j * (L03.unitVec k : VecN α) j) = 0 := by
        have : ∀ n', n' ≤ k → sumTo n' (fun j => G r j * (L03.unitVec k : VecN α) j) = 0 := by
          intro n'
          induction n' with
          | zero => intro _; rfl
          | succ n' ih' =>
            intro hn'
            rw [sumTo, ih' (by omega)]
            show 0 + G r n' * (if n' = k then 1 else 0) = 0
            rw [if_neg (by omega)]; grind
        exact this k (Nat.le_refl _)
      rw [z]
      show 0 + G r k * (if k = k then 1 else 0) = _
      rw [if_pos rfl]; grind
    · rw [ih (by omega)]
      show G r k + G r n * (if n = k then 1 else 0) = _
      rw [if_neg (fun h => e h.symm)]; grind

end
end Rbdl.L08Phys
