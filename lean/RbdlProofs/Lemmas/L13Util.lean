import RbdlProofs.Lemmas.L13Crba
/-
  C13 helper lemmas, part 10: `calcCenterOfMass`, `calcKineticEnergy` on two reachable workspaces.
-/
namespace Rbdl.L13
open Lean.Grind Rbdl Rbdl.Loops Rbdl.L12
set_option linter.unusedSimpArgs false
set_option linter.unusedVariables false
set_option linter.unusedSectionVars false
set_option linter.constructorNameAsVariable false

section
variable {α : Type} [Field α]

/-- writing unrelated values into `hdotc[i]` only loses that entry -/
theorem Agree.junk_hdotc {m : ModelS α} {D D' : Dom} {w w' : WS α} (h : Agree m D w w') (i : Nat)
    (x x' : SV α) (hD : ∀ g j, D' g j → D g j ∧ ¬ (g = .hdotc ∧ j = i)) :
    Agree m D' { w with hdotc := upd w.hdotc i x } { w' with hdotc := upd w'.hdotc i x' } := by
  refine ⟨h.fix, h.fix', fun g j hgj => ?_⟩
  obtain ⟨h1, h2⟩ := hD g j hgj
  have := h.eq g j h1
  cases g <;> first
    | exact this
    | (simp only [view] at this ⊢
       have e : j ≠ i := fun e => h2 ⟨rfl, e⟩
       simp only [upd_other _ _ _ _ e]; exact this)

/-- `hc[i] = I_i v_i` -/
def stHc (i : Nat) (w : WS α) : WS α := { w with hc := upd w.hc i ((w.Ic i).toMatrix * w.v i) }
/-- `hdotc[i] = I_i a_i + v_i ×* I_i v_i` -/
def stHd (i : Nat) (w : WS α) : WS α := { w with hdotc := upd w.hdotc i (comHd w i) }
/-- `Ic[i] = I_i` -/
def stIcm (m : ModelS α) (i : Nat) (w : WS α) : WS α := { w with Ic := upd w.Ic i (m.rbi i) }

theorem comInitBody_steps (m : ModelS α) (i : Nat) (w : WS α) :
    comInitBody m i w = stHd i (stHc i (stIcm m i w)) := rfl

section steps
variable {m : ModelS α} {D : Dom} {w w' : WS α}

theorem Agree.stIcm (h : Agree m D w w') (i : Nat) :
    Agree m (D ∪ Dom.at [.Ic] i) (L13.stIcm m i w) (L13.stIcm m i w') :=
  h.set_Ic i rfl (by dom)

theorem Agree.stHc (h : Agree m D w w') (i : Nat) (h1 : D .Ic i) (h2 : D .v i) :
    Agree m (D ∪ Dom.at [.hc] i) (L13.stHc i w) (L13.stHc i w') :=
  h.set_hc i (by rw [h.get_Ic h1, h.get_v h2]) (by dom)

theorem Agree.stHd (h : Agree m D w w') (i : Nat) (h1 : D .Ic i) (h2 : D .v i) (h3 : D .a i) :
    Agree m (D ∪ Dom.at [.hdotc] i) (L13.stHd i w) (L13.stHd i w') :=
  h.set_hdotc i (by unfold comHd; rw [h.get_Ic h1, h.get_v h2, h.get_a h3]) (by dom)

/-- the version for workspaces whose accelerations are unrelated -/
theorem Agree.stHd_junk (h : Agree m D w w') (i : Nat) (hD : ∀ j, ¬ D .hdotc j) :
    Agree m D (L13.stHd i w) (L13.stHd i w') :=
  h.junk_hdotc i _ _ (fun g j hgj => ⟨hgj, fun e => hD j (e.1 ▸ hgj)⟩)

end steps

/-- `hc[λ] += X_lambda[i]ᵀ hc[i]` -/
def stHcl (m : ModelS α) (i : Nat) (w : WS α) : WS α :=
  { w with hc := upd w.hc (m.lam i) (w.hc (m.lam i) + (w.X_lambda i).applyTranspose (w.hc i)) }
/-- `hdotc[λ] += X_lambda[i]ᵀ hdotc[i]` -/
def stHdl (m : ModelS α) (i : Nat) (w : WS α) : WS α :=
  { w with hdotc := upd w.hdotc (m.lam i) (w.hdotc (m.lam i) +
      (w.X_lambda i).applyTranspose (w.hdotc i)) }

theorem Agree.stHcl {m : ModelS α} {D : Dom} {w w' : WS α} (h : Agree m D w w') (i : Nat)
    (h1 : D .hc (m.lam i)) (h2 : D .X_lambda i) (h3 : D .hc i) :
    Agree m D (L13.stHcl m i w) (L13.stHcl m i w') :=
  h.set_hc (m.lam i) (by rw [h.get_hc h1, h.get_X_lambda h2, h.get_hc h3])
    (fun g j hgj => Or.inl hgj)

theorem Agree.stHdl {m : ModelS α} {D : Dom} {w w' : WS α} (h : Agree m D w w') (i : Nat)
    (h1 : D .hdotc (m.lam i)) (h2 : D .X_lambda i) (h3 : D .hdotc i) :
    Agree m D (L13.stHdl m i w) (L13.stHdl m i w') :=
  h.set_hdotc (m.lam i) (by rw [h.get_hdotc h1, h.get_X_lambda h2, h.get_hdotc h3])
    (fun g j hgj => Or.inl hgj)

theorem comBody_steps (m : ModelS α) (i : Nat) (w : WS α) (It : RBI α) (ht : SV α) :
    comBody m i (w, It, ht) =
      if m.lam i ≠ 0 then (stHcl m i (stIcl m i w), It, ht)
      else (w, It + (w.X_lambda i).applyTransposeRBI (w.Ic i),
        ht + (w.X_lambda i).applyTranspose (w.hc i)) := by
  unfold comBody; dsimp only; split <;> rfl

theorem comHdBwdBody_steps (m : ModelS α) (i : Nat) (w : WS α) (hd : SV α) :
    comHdBwdBody m i (w, hd) =
      if m.lam i ≠ 0 then (stHdl m i w, hd)
      else (w, hd + (w.X_lambda i).applyTranspose (w.hdotc i)) := by
  unfold comHdBwdBody; dsimp only; split <;> rfl

/-- the first backward loop of `calcCenterOfMass` on agreeing workspaces -/
theorem comBwd_sim (m : ModelS α) (htree : TreeOrder m) (D : Dom)
    (hD : ∀ g j, Dom.rng [.Ic, .hc, .X_lambda] 1 (1 + (m.nBodies - 1)) g j → D g j)
    (w w' : WS α) (h : Agree m D w w') (T : RBI α × SV α) :
    Agree m D (forDown (m.nBodies - 1) (m.nBodies - 1) (comBody m) (w, T)).1
        (forDown (m.nBodies - 1) (m.nBodies - 1) (comBody m) (w', T)).1 ∧
      (forDown (m.nBodies - 1) (m.nBodies - 1) (comBody m) (w, T)).2
        = (forDown (m.nBodies - 1) (m.nBodies - 1) (comBody m) (w', T)).2 := by
  refine forDown_sim (fun s t : WS α × RBI α × SV α => Agree m D s.1 t.1 ∧ s.2 = t.2)
    (comBody m) (comBody m) _ _ ?_ (w, T) (w', T) ⟨h, rfl⟩
  rintro i ⟨s, It, ht⟩ ⟨t, It', ht'⟩ h1 h2 ⟨hA, hT⟩
  obtain ⟨rfl, rfl⟩ := Prod.mk.inj hT
  have hi1 : 1 ≤ i := by omega
  have hl := htree i hi1 (by omega)
  have hm : ∀ g j, g ∈ [Fld.Ic, .hc, .X_lambda] → 1 ≤ j → j < 1 + (m.nBodies - 1) → D g j :=
    fun g j hg hj1 hj2 => hD g j ⟨hg, hj1, hj2⟩
  rw [comBody_steps, comBody_steps]
  dsimp only at hA ⊢
  split
  · rename_i hl0
    exact ⟨(hA.stIcl i (hm _ _ (by simp) (by omega) (by omega)) (hm _ _ (by simp) hi1 (by omega))
      (hm _ _ (by simp) hi1 (by omega))).stHcl i (hm _ _ (by simp) (by omega) (by omega))
      (hm _ _ (by simp) hi1 (by omega)) (hm _ _ (by simp) hi1 (by omega)), rfl⟩
  · refine ⟨hA, ?_⟩
    rw [hA.get_X_lambda (hm _ _ (by simp) hi1 (by omega)),
      hA.get_Ic (hm _ _ (by simp) hi1 (by omega)), hA.get_hc (hm _ _ (by simp) hi1 (by omega))]

theorem comHdBwd_sim (m : ModelS α) (htree : TreeOrder m) (D : Dom)
    (hD : ∀ g j, Dom.rng [.hdotc, .X_lambda] 1 (1 + (m.nBodies - 1)) g j → D g j)
    (w w' : WS α) (h : Agree m D w w') (T : SV α) :
    (forDown (m.nBodies - 1) (m.nBodies - 1) (comHdBwdBody m) (w, T)).2
        = (forDown (m.nBodies - 1) (m.nBodies - 1) (comHdBwdBody m) (w', T)).2 := by
  refine (forDown_sim (fun s t : WS α × SV α => Agree m D s.1 t.1 ∧ s.2 = t.2)
    (comHdBwdBody m) (comHdBwdBody m) _ _ ?_ (w, T) (w', T) ⟨h, rfl⟩).2
  rintro i ⟨s, hs⟩ ⟨t, ht'⟩ h1 h2 ⟨hA, rfl⟩
  have hi1 : 1 ≤ i := by omega
  have hl := htree i hi1 (by omega)
  have hm : ∀ g j, g ∈ [Fld.hdotc, .X_lambda] → 1 ≤ j → j < 1 + (m.nBodies - 1) → D g j :=
    fun g j hg hj1 hj2 => hD g j ⟨hg, hj1, hj2⟩
  rw [comHdBwdBody_steps, comHdBwdBody_steps]
  dsimp only at hA ⊢
  split
  · rename_i hl0
    exact ⟨hA.stHdl i (hm _ _ (by simp) (by omega) (by omega)) (hm _ _ (by simp) hi1 (by omega))
      (hm _ _ (by simp) hi1 (by omega)), rfl⟩
  · refine ⟨hA, ?_⟩
    rw [hA.get_X_lambda (hm _ _ (by simp) hi1 (by omega)),
      hA.get_hdotc (hm _ _ (by simp) hi1 (by omega))]

/-- initialisation loop when the accelerations agree -/
theorem comInit_sim (m : ModelS α) (B : Dom)
    (hB : ∀ g j, Dom.rng [.v, .a] 1 (1 + (m.nBodies - 1)) g j → B g j) (w w' : WS α)
    (h : Agree m B w w') :
    Agree m (B ∪ Dom.rng [.Ic, .hc, .hdotc] 1 (1 + (m.nBodies - 1)))
      (forUp (m.nBodies - 1) 1 (comInitBody m) w) (forUp (m.nBodies - 1) 1 (comInitBody m) w') := by
  refine forUp_simI (fun k s t => Agree m (B ∪ Dom.rng [.Ic, .hc, .hdotc] 1 k) s t) _ _
    (m.nBodies - 1) 1 (fun i s t h1 h2 h => ?_) w w' (h.mono (by dom))
  have hv : (B ∪ Dom.rng [.Ic, .hc, .hdotc] 1 i) .v i := Or.inl (hB _ _ (by dom))
  have ha : (B ∪ Dom.rng [.Ic, .hc, .hdotc] 1 i) .a i := Or.inl (hB _ _ (by dom))
  rw [comInitBody_steps, comInitBody_steps]
  exact (((h.stIcm i).stHc i (by dom) (Or.inl hv)).stHd i (by dom) (Or.inl (Or.inl hv))
    (Or.inl (Or.inl ha))).mono (by dom)

/-- initialisation loop when the accelerations are unrelated: `hdotc` is lost -/
theorem comInit_sim_junk (m : ModelS α) (B : Dom)
    (hB : ∀ g j, Dom.rng [.v] 1 (1 + (m.nBodies - 1)) g j → B g j) (hB' : ∀ j, ¬ B .hdotc j)
    (w w' : WS α) (h : Agree m B w w') :
    Agree m (B ∪ Dom.rng [.Ic, .hc] 1 (1 + (m.nBodies - 1)))
      (forUp (m.nBodies - 1) 1 (comInitBody m) w) (forUp (m.nBodies - 1) 1 (comInitBody m) w') := by
  refine forUp_simI (fun k s t => Agree m (B ∪ Dom.rng [.Ic, .hc] 1 k) s t) _ _
    (m.nBodies - 1) 1 (fun i s t h1 h2 h => ?_) w w' (h.mono (by dom))
  have hv : (B ∪ Dom.rng [.Ic, .hc] 1 i) .v i := Or.inl (hB _ _ (by dom))
  rw [comInitBody_steps, comInitBody_steps]
  refine (((h.stIcm i).stHc i (by dom) (Or.inl hv)).stHd_junk i ?_).mono (by dom)
  intro j hj
  rcases hj with ((hj | hj) | hj) | hj
  · exact hB' j hj
  all_goals simp only [dom, List.mem_cons, List.mem_nil_iff, or_false, reduceCtorEq, false_and,
    false_or] at hj

theorem comOut_eq (m : ModelS α) (w : WS α) (st : QS α) (qd : VecN α) (qdd : Option (VecN α))
    (wantAcc : Bool) :
    (calcCenterOfMass m w st qd qdd wantAcc true).2 =
      (let n := m.nBodies - 1
       let doAcc := qdd.isSome && wantAcc
       let w1 := forUp n 1 (comInitBody m) (updateKinematicsCustom m w (some st) (some qd) qdd)
       let w2 := if doAcc then forUp n 1 comHdBody w1 else w1
       let r := forDown n n (comBody m) (w2, RBI.ofMat 0 V3.zero M3.zero, SV.zero)
       let r2 := if doAcc then forDown n n (comHdBwdBody m) (r.1, SV.zero) else (r.1, SV.zero)
       comOut r.2.1 r.2.2 r2.2) := rfl

theorem com_indep (m : ModelS α) (st : QS α) (qd : VecN α) (qdd : Option (VecN α))
    (wantAcc : Bool) (htree : TreeOrder m) (hok : AllJointOK m) (w w' : WS α)
    (hw : WSFixed m w) (hw' : WSFixed m w') :
    (calcCenterOfMass m w st qd qdd wantAcc true).2
      = (calcCenterOfMass m w' st qd qdd wantAcc true).2 := by
  rw [comOut_eq, comOut_eq]
  have hV := ukc_qv_sim m st qd htree hok.jcalc (Dom.at [.X_base] 0) w w'
    ((Agree.init hw hw').mono (by dom))
  cases qdd with
  | none =>
    simp only [Option.isSome_none, Bool.false_and, Bool.false_eq_true, if_false]
    have h1 := comInit_sim_junk m _ (by dom) (by
      intro j hj
      simp only [dom, List.mem_cons, List.mem_nil_iff, or_false, reduceCtorEq, false_and,
        false_or, or_self] at hj) _ _ hV
    obtain ⟨_, h2⟩ := comBwd_sim m htree _ (by dom) _ _ h1 (RBI.ofMat 0 V3.zero M3.zero, SV.zero)
    rw [h2]
  | some qdd =>
    have hA : Agree m (Dom.at [.X_base] 0 ∪ Dacc m (1 + (m.nBodies - 1)))
        (updateKinematicsCustom m w (some st) (some qd) (some qdd))
        (updateKinematicsCustom m w' (some st) (some qd) (some qdd)) := by
      rw [ukc_full_eq, ukc_full_eq]
      exact ukc_acc_sim m qdd htree hok _ _ _ hV
    have h1 := comInit_sim m _ (by dom) _ _ hA
    cases wantAcc with
    | false =>
      simp only [Option.isSome_some, Bool.and_false, Bool.false_eq_true, if_false]
      obtain ⟨_, h2⟩ := comBwd_sim m htree _ (by dom) _ _ h1
        (RBI.ofMat 0 V3.zero M3.zero, SV.zero)
      rw [h2]
    | true =>
      simp only [Option.isSome_some, Bool.and_true, if_true]
      have h1' := forUp_sim (fun s t => Agree m (Dom.at [.X_base] 0 ∪ Dacc m (1 + (m.nBodies - 1))
          ∪ Dom.rng [.Ic, .hc, .hdotc] 1 (1 + (m.nBodies - 1))) s t) comHdBody comHdBody
        (m.nBodies - 1) 1 (fun i s t hi1 hi2 h =>
          (h.stHd i (by dom) (by dom) (by dom)).mono (by dom)) _ _ h1
      obtain ⟨h2a, h2⟩ := comBwd_sim m htree _ (by dom) _ _ h1'
        (RBI.ofMat 0 V3.zero M3.zero, SV.zero)
      rw [h2, comHdBwd_sim m htree _ (by dom) _ _ h2a SV.zero]

theorem ke_indep (m : ModelS α) (st : QS α) (qd : VecN α) (htree : TreeOrder m)
    (hjc : AllJcalc m) (w w' : WS α) (hw : WSFixed m w) (hw' : WSFixed m w') :
    (calcKineticEnergy m w st qd true).2 = (calcKineticEnergy m w' st qd true).2 := by
  have hV := ukc_qv_sim m st qd htree hjc (Dom.at [.X_base] 0) w w'
    ((Agree.init hw hw').mono (by dom))
  unfold calcKineticEnergy
  simp only [if_true]
  refine forUp_congr _ _ _ _ (fun i acc h1 h2 => ?_) _
  rw [hV.get_v (j := i) (by dom)]

/-- `calcPotentialEnergy` is a special case of `calcCenterOfMass` -/
theorem pe_indep (m : ModelS α) (st : QS α) (htree : TreeOrder m) (hok : AllJointOK m)
    (w w' : WS α) (hw : WSFixed m w) (hw' : WSFixed m w') :
    (calcPotentialEnergy m w st true).2 = (calcPotentialEnergy m w' st true).2 := by
  have := com_indep m st zeroVec none false htree hok w w' hw hw'
  unfold calcPotentialEnergy
  dsimp only
  rw [this]

/-! ### `calcZeroMomentPoint` (its `hc` updates work on whatever the workspace holds) -/

theorem Agree.junk_hc {m : ModelS α} {D D' : Dom} {w w' : WS α} (h : Agree m D w w') (i : Nat)
    (x x' : SV α) (hD : ∀ g j, D' g j → D g j ∧ ¬ (g = .hc ∧ j = i)) :
    Agree m D' { w with hc := upd w.hc i x } { w' with hc := upd w'.hc i x' } := by
  refine ⟨h.fix, h.fix', fun g j hgj => ?_⟩
  obtain ⟨h1, h2⟩ := hD g j hgj
  have := h.eq g j h1
  cases g <;> first
    | exact this
    | (simp only [view] at this ⊢
       have e : j ≠ i := fun e => h2 ⟨rfl, e⟩
       simp only [upd_other _ _ _ _ e]; exact this)

theorem Agree.stHcl_junk {m : ModelS α} {D : Dom} {w w' : WS α} (h : Agree m D w w') (i : Nat)
    (hD : ∀ j, ¬ D .hc j) : Agree m D (L13.stHcl m i w) (L13.stHcl m i w') :=
  h.junk_hc (m.lam i) _ _ (fun g j hgj => ⟨hgj, fun e => hD j (e.1 ▸ hgj)⟩)

theorem zmpInitBody_steps (m : ModelS α) (i : Nat) (w : WS α) :
    zmpInitBody m i w = stHd i (stIcm m i w) := rfl

theorem zmpBody_steps (m : ModelS α) (i : Nat) (w : WS α) (It : RBI α) (hd : SV α) :
    zmpBody m i (w, It, hd) =
      if m.lam i ≠ 0 then (stHdl m i (stHcl m i (stIcl m i w)), It, hd)
      else (w, It + (w.X_lambda i).applyTransposeRBI (w.Ic i),
        hd + (w.X_lambda i).applyTranspose (w.hdotc i)) := by
  unfold zmpBody; dsimp only; split <;> rfl

theorem zmp_indep (m : ModelS α) (st : QS α) (qd qdd : VecN α) (normal point : V3 α)
    (htree : TreeOrder m) (hok : AllJointOK m) (w w' : WS α)
    (hw : WSFixed m w) (hw' : WSFixed m w') :
    (calcZeroMomentPoint m w st qd qdd normal point true).2
      = (calcZeroMomentPoint m w' st qd qdd normal point true).2 := by
  rw [zmp_raw, zmp_raw]
  suffices h : zmpTotals m w st qd qdd true = zmpTotals m w' st qd qdd true by rw [h]
  unfold zmpTotals zmpKin zmpBwd zmpInit
  simp only [if_true]
  have hV := ukc_qv_sim m st qd htree hok.jcalc (Dom.at [.X_base] 0) w w'
    ((Agree.init hw hw').mono (by dom))
  have hA : Agree m (Dom.at [.X_base] 0 ∪ Dacc m (1 + (m.nBodies - 1)))
      (updateKinematicsCustom m w (some st) (some qd) (some qdd))
      (updateKinematicsCustom m w' (some st) (some qd) (some qdd)) := by
    rw [ukc_full_eq, ukc_full_eq]
    exact ukc_acc_sim m qdd htree hok _ _ _ hV
  have h1 := forUp_simI (fun k s t => Agree m (Dom.at [.X_base] 0 ∪ Dacc m (1 + (m.nBodies - 1))
      ∪ Dom.rng [.Ic, .hdotc] 1 k) s t) (zmpInitBody m) (zmpInitBody m) (m.nBodies - 1) 1
    (fun i s t h1 h2 h => by
      rw [zmpInitBody_steps, zmpInitBody_steps]
      exact ((h.stIcm i).stHd i (by dom) (by dom) (by dom)).mono (by dom)) _ _
    (hA.mono (by dom))
  refine (forDown_sim (fun s t : WS α × RBI α × SV α =>
      Agree m (Dom.at [.X_base] 0 ∪ Dacc m (1 + (m.nBodies - 1))
        ∪ Dom.rng [.Ic, .hdotc] 1 (1 + (m.nBodies - 1))) s.1 t.1 ∧ s.2 = t.2)
    (zmpBody m) (zmpBody m) _ _ ?_ (_, RBI.ofMat 0 V3.zero M3.zero, SV.zero)
    (_, RBI.ofMat 0 V3.zero M3.zero, SV.zero) ⟨h1, rfl⟩).2
  rintro i ⟨s, It, hd⟩ ⟨t, It', hd'⟩ hi1 hi2 ⟨hB, hT⟩
  obtain ⟨rfl, rfl⟩ := Prod.mk.inj hT
  have h1i : 1 ≤ i := by omega
  have hl := htree i h1i (by omega)
  rw [zmpBody_steps, zmpBody_steps]
  dsimp only at hB ⊢
  split
  · rename_i hl0
    refine ⟨((hB.stIcl i (by dom) (by dom) (by dom)).stHcl_junk i ?_).stHdl i
      (by dom) (by dom) (by dom), rfl⟩
    intro j hj
    simp only [dom, List.mem_cons, List.mem_nil_iff, or_false, reduceCtorEq, false_and,
      false_or, or_self, and_false] at hj
  · refine ⟨hB, ?_⟩
    rw [hB.get_X_lambda (j := i) (by dom), hB.get_Ic (j := i) (by dom),
      hB.get_hdotc (j := i) (by dom)]

end
end Rbdl.L13
