import RbdlProofs.Lemmas.L08FForces
/-
  C08, last clause: concrete data over `Rat` on the sets of `L09Ex.lean`.
-/
namespace Rbdl.L08F.Ex
open Lean.Grind Rbdl Rbdl.L05 Rbdl.L09

/-- multipliers `λ_r = r + 1` -/
def lam : VecN Rat := fun r => (r : Rat) + 1

theorem isRot_of_dec (E : M3 Rat)
    (h : E.m00*E.m00 + E.m01*E.m01 + E.m02*E.m02 = 1 ∧ E.m10*E.m10 + E.m11*E.m11 + E.m12*E.m12 = 1 ∧
      E.m20*E.m20 + E.m21*E.m21 + E.m22*E.m22 = 1 ∧ E.m00*E.m10 + E.m01*E.m11 + E.m02*E.m12 = 0 ∧
      E.m00*E.m20 + E.m01*E.m21 + E.m02*E.m22 = 0 ∧ E.m10*E.m20 + E.m11*E.m21 + E.m12*E.m22 = 0 ∧
      E.m11*E.m22 - E.m12*E.m21 = E.m00 ∧ E.m12*E.m20 - E.m10*E.m22 = E.m01 ∧
      E.m10*E.m21 - E.m11*E.m20 = E.m02 ∧ E.m21*E.m02 - E.m22*E.m01 = E.m10 ∧
      E.m22*E.m00 - E.m20*E.m02 = E.m11 ∧ E.m20*E.m01 - E.m21*E.m00 = E.m12 ∧
      E.m01*E.m12 - E.m02*E.m11 = E.m20 ∧ E.m02*E.m10 - E.m00*E.m12 = E.m21 ∧
      E.m00*E.m11 - E.m01*E.m10 = E.m22) : E.IsRot := by
  obtain ⟨a0,a1,a2,a3,a4,a5,a6,a7,a8,a9,a10,a11,a12,a13,a14⟩ := h
  exact ⟨a0,a1,a2,a3,a4,a5,a6,a7,a8,a9,a10,a11,a12,a13,a14⟩

/-- the orientation of body 3 in the workspace `w2` is a rotation -/
theorem cC_E_rot : (contactE L09.Ex.cC L09.Ex.m L09.Ex.w2 L09.Ex.st false).IsRot :=
  isRot_of_dec _ (by decide +kernel)

theorem A_rot : (frameOf L09.Ex.w2 0 L09.Ex.XPb).E.IsRot := isRot_of_dec _ (by decide +kernel)
theorem B_rot : (frameOf L09.Ex.w2 1 L09.Ex.XSb).E.IsRot := isRot_of_dec _ (by decide +kernel)

/-- the wrenches of the contact group of `L09.Ex` in both modes (values) -/
theorem cC_forces_values :
    (L09.Ex.cC.forces L09.Ex.m L09.Ex.w2 L09.Ex.st lam true false []).2.map (fun e => (e.1, e.2.2))
      = [(0, ⟨⟨0, 0, 0⟩, ⟨2, 0, 1⟩⟩), (0, ⟨⟨0, 0, 0⟩, ⟨-2, 0, -1⟩⟩)] := by decide +kernel

end Rbdl.L08F.Ex
