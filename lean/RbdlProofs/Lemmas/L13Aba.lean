import RbdlProofs.Lemmas.L13Kin
/-
  C13 helper lemmas, part 8: the articulated-body helpers (`abaUD`, `abaU`, `abaIa`, `abaUDu`,
  `abaAccel`) and `forwardDynamics` on two reachable workspaces.
-/
namespace Rbdl.L13
open Lean.Grind Rbdl Rbdl.Loops Rbdl.L12
set_option linter.unusedSimpArgs false
set_option linter.unusedVariables false
set_option linter.unusedSectionVars false
set_option linter.constructorNameAsVariable false

/-- the arity a per-arity field belongs to -/
def Fld.ar : Fld → Option Arity
  | .S | .U | .d | .u => some .one
  | .S3 | .U3 | .Dinv3 | .u3 => some .three
  | .cS | .cU | .cDinv | .cu => some .custom
  | _ => none

section
variable {α : Type} [Field α]

theorem view_none (m : ModelS α) (w : WS α) (g : Fld) (j : Nat)
    (hg : g.ar ≠ none) (ha : g.ar ≠ some (m.arity j)) : view m w g j = none := by
  cases g <;> first
    | exact absurd rfl hg
    | (have ha' : ¬ m.arity j = _ := fun e => ha (by rw [e]; rfl)
       simp only [view, ha', if_false])

/-- entries of a per-arity field at a body of another arity agree trivially -/
theorem Agree.widen {m : ModelS α} {D D' : Dom} {w w' : WS α} (h : Agree m D w w')
    (hD : ∀ g j, D' g j → D g j ∨ (g.ar ≠ none ∧ g.ar ≠ some (m.arity j))) :
    Agree m D' w w' := by
  refine ⟨h.fix, h.fix', fun g j hgj => ?_⟩
  rcases hD g j hgj with h1 | ⟨hg, ha⟩
  · exact h.eq g j h1
  · rw [view_none m w g j hg ha, view_none m w' g j hg ha]

/-- the per-arity fields `L` of body `i` agree trivially when `i` has none of their arities -/
theorem Agree.widen_at {m : ModelS α} {D : Dom} {w w' : WS α} (h : Agree m D w w') (L : List Fld)
    (i : Nat) (hL : ∀ g ∈ L, g.ar ≠ none ∧ g.ar ≠ some (m.arity i)) :
    Agree m (D ∪ Dom.at L i) w w' :=
  h.widen (fun g j hgj => by
    rcases hgj with h1 | ⟨hg, rfl⟩
    · exact Or.inl h1
    · exact Or.inr (hL g hg))

/-- discharges the side condition of `widen_at` from `ha : m.arity i = _` -/
macro "widen_side " ha:ident : tactic => `(tactic| (rw [$ha:ident]; decide))

theorem Agree.abaUD [DecidableEq α] {m : ModelS α} {D : Dom} {w w' : WS α} (h : Agree m D w w')
    (i : Nat) (hIA : D .IA i) (hS : D .S i) (hS3 : D .S3 i) (hcS : D .cS i) :
    Agree m (D ∪ Dom.at [.U, .d, .U3, .Dinv3, .cU, .cDinv] i) (abaUD m w i) (abaUD m w' i) := by
  unfold Rbdl.abaUD
  cases ha : m.arity i <;> dsimp only
  · have e : w.IA i * w.S i = w'.IA i * w'.S i := by rw [h.get_IA hIA, h.get_S hS ha]
    have h1 := h.set_U i e (D' := D ∪ Dom.at [.U] i) (by dom)
    have h2 := h1.set_d i (x := (w.S i).dot (w.IA i * w.S i))
      (x' := (w'.S i).dot (w'.IA i * w'.S i)) (by rw [e, h.get_S hS ha])
      (D' := D ∪ Dom.at [.U, .d] i) (by dom)
    exact (h2.widen_at [.U3, .Dinv3, .cU, .cDinv] i (by widen_side ha)).mono (by dom)
  · have e : M63.lmulSM (w.IA i) (w.S3 i) = M63.lmulSM (w'.IA i) (w'.S3 i) := by
      rw [h.get_IA hIA, h.get_S3 hS3 ha]
    have h1 := h.set_U3 i e (D' := D ∪ Dom.at [.U3] i) (by dom)
    have h2 := h1.set_Dinv3 i (x := M3.inv ((w.S3 i).tmul (M63.lmulSM (w.IA i) (w.S3 i))))
      (x' := M3.inv ((w'.S3 i).tmul (M63.lmulSM (w'.IA i) (w'.S3 i))))
      (by rw [e, h.get_S3 hS3 ha]) (D' := D ∪ Dom.at [.U3, .Dinv3] i) (by dom)
    exact (h2.widen_at [.U, .d, .cU, .cDinv] i (by widen_side ha)).mono (by dom)
  · have eS := h.get_cS hcS ha
    have eI := h.get_IA hIA
    have h1 := h.set_cU i
      (x := (w.cS (m.joint i).customIdx).map (fun (s : SV α) => SM.mulVec (w.IA i) s))
      (x' := (w'.cS (m.joint i).customIdx).map (fun (s : SV α) => SM.mulVec (w'.IA i) s))
      (by rw [eS, eI]) (D' := D ∪ Dom.at [.cU] i) (by dom)
    have h2 := h1.set_cDinv i
      (x := ((lmInverse ((w.cS (m.joint i).customIdx).map (fun s =>
        ((w.cS (m.joint i).customIdx).map (fun (s : SV α) => SM.mulVec (w.IA i) s)).map
          (fun u => s.dot u)))).getD []))
      (x' := ((lmInverse ((w'.cS (m.joint i).customIdx).map (fun s =>
        ((w'.cS (m.joint i).customIdx).map (fun (s : SV α) => SM.mulVec (w'.IA i) s)).map
          (fun u => s.dot u)))).getD []))
      (by rw [eS, eI]) (D' := D ∪ Dom.at [.cU, .cDinv] i) (by dom)
    exact (h2.widen_at [.U, .d, .U3, .Dinv3] i (by widen_side ha)).mono (by dom)
  · exact h.widen_at _ i (by widen_side ha)

theorem Agree.abaU {m : ModelS α} {D : Dom} {w w' : WS α} (h : Agree m D w w')
    (i : Nat) (tau : VecN α) (hpA : D .pA i) (hS : D .S i) (hS3 : D .S3 i) (hcS : D .cS i) :
    Agree m (D ∪ Dom.at [.u, .u3, .cu] i) (abaU m w i tau) (abaU m w' i tau) := by
  unfold Rbdl.abaU
  cases ha : m.arity i <;> dsimp only
  · have h1 := h.set_u i (x := tau (m.joint i).qIndex - (w.S i).dot (w.pA i))
      (x' := tau (m.joint i).qIndex - (w'.S i).dot (w'.pA i))
      (by rw [h.get_pA hpA, h.get_S hS ha]) (D' := D ∪ Dom.at [.u] i) (by dom)
    exact (h1.widen_at [.u3, .cu] i (by widen_side ha)).mono (by dom)
  · have h1 := h.set_u3 i
      (x := (⟨tau (m.joint i).qIndex, tau ((m.joint i).qIndex + 1),
        tau ((m.joint i).qIndex + 2)⟩ : V3 α) - (w.S3 i).tmulSV (w.pA i))
      (x' := (⟨tau (m.joint i).qIndex, tau ((m.joint i).qIndex + 1),
        tau ((m.joint i).qIndex + 2)⟩ : V3 α) - (w'.S3 i).tmulSV (w'.pA i))
      (by rw [h.get_pA hpA, h.get_S3 hS3 ha]) (D' := D ∪ Dom.at [.u3] i) (by dom)
    exact (h1.widen_at [.u, .cu] i (by widen_side ha)).mono (by dom)
  · have h1 := h.set_cu i
      (x := (zipIdx (w.cS (m.joint i).customIdx)).map
        (fun p => tau ((m.joint i).qIndex + p.2) - p.1.dot (w.pA i)))
      (x' := (zipIdx (w'.cS (m.joint i).customIdx)).map
        (fun p => tau ((m.joint i).qIndex + p.2) - p.1.dot (w'.pA i)))
      (by rw [h.get_pA hpA, h.get_cS hcS ha]) (D' := D ∪ Dom.at [.cu] i) (by dom)
    exact (h1.widen_at [.u, .u3] i (by widen_side ha)).mono (by dom)
  · exact h.widen_at _ i (by widen_side ha)

theorem Agree.abaIa {m : ModelS α} {D : Dom} {w w' : WS α} (h : Agree m D w w') (i : Nat)
    (hIA : D .IA i) (hU : D .U i) (hd : D .d i) (hU3 : D .U3 i) (hD3 : D .Dinv3 i)
    (hcU : D .cU i) (hcD : D .cDinv i) : abaIa m w i = abaIa m w' i := by
  unfold Rbdl.abaIa
  cases ha : m.arity i <;> dsimp only
  · rw [h.get_IA hIA, h.get_U hU ha, h.get_d hd ha]
  · rw [h.get_IA hIA, h.get_U3 hU3 ha, h.get_Dinv3 hD3 ha]
  · rw [h.get_IA hIA, h.get_cU hcU ha, h.get_cDinv hcD ha]
  · rw [h.get_IA hIA]

theorem Agree.abaUDu {m : ModelS α} {D : Dom} {w w' : WS α} (h : Agree m D w w') (i : Nat)
    (hU : D .U i) (hd : D .d i) (hu : D .u i) (hU3 : D .U3 i) (hD3 : D .Dinv3 i)
    (hu3 : D .u3 i) (hcU : D .cU i) (hcD : D .cDinv i) (hcu : D .cu i) :
    abaUDu m w i = abaUDu m w' i := by
  unfold Rbdl.abaUDu
  cases ha : m.arity i <;> dsimp only
  · rw [h.get_u hu ha, h.get_U hU ha, h.get_d hd ha]
  · rw [h.get_u3 hu3 ha, h.get_U3 hU3 ha, h.get_Dinv3 hD3 ha]
  · rw [h.get_cu hcu ha, h.get_cU hcU ha, h.get_cDinv hcD ha]

/-- the second half of `abaAccel`: joint acceleration and `a[i] += S qdd` -/
def accRest (m : ModelS α) (w : WS α) (i : Nat) (qdd : VecN α) : WS α × VecN α :=
  let k := (m.joint i).qIndex
  match m.arity i with
  | .one =>
    let x := (1 / w.d i) * (w.u i - (w.U i).dot (w.a i))
    let qdd := upd qdd k x
    ({ w with a := upd w.a i (w.a i + x * w.S i) }, qdd)
  | .three =>
    let x := w.Dinv3 i * (w.u3 i - (w.U3 i).tmulSV (w.a i))
    let qdd := upd (upd (upd qdd k x.x) (k+1) x.y) (k+2) x.z
    ({ w with a := upd w.a i (w.a i + (w.S3 i).mulV3 x) }, qdd)
  | .custom =>
    let ci := (m.joint i).customIdx
    let rhs := ((w.cu ci).zip (w.cU ci)).map (fun p => p.1 - p.2.dot (w.a i))
    let x := lmMulVec (w.cDinv ci) rhs
    let qdd := (zipIdx x).foldl (fun q p => upd q (k + p.2) p.1) qdd
    ({ w with a := upd w.a i (w.a i + colsMul (w.cS ci) (fun z => x.getD z 0)) }, qdd)
  | .other => (w, qdd)

theorem abaAccel_eq (m : ModelS α) (w : WS α) (i : Nat) (qdd : VecN α) :
    abaAccel m w i qdd = accRest m (stAn m i w) i qdd := rfl

theorem Agree.accRest {m : ModelS α} {D : Dom} {w w' : WS α} (h : Agree m D w w') (i : Nat)
    (qdd : VecN α) (ha0 : D .a i)
    (hS : D .S i) (hS3 : D .S3 i) (hcS : D .cS i)
    (hU : D .U i) (hd : D .d i) (hu : D .u i) (hU3 : D .U3 i) (hD3 : D .Dinv3 i)
    (hu3 : D .u3 i) (hcU : D .cU i) (hcD : D .cDinv i) (hcu : D .cu i) :
    Agree m D (L13.accRest m w i qdd).1 (L13.accRest m w' i qdd).1 ∧
      (L13.accRest m w i qdd).2 = (L13.accRest m w' i qdd).2 := by
  have ea := h.get_a ha0
  unfold L13.accRest
  cases ha : m.arity i <;> dsimp only
  · have ed := h.get_d hd ha; have eu := h.get_u hu ha; have eU := h.get_U hU ha
    have eS := h.get_S hS ha
    rw [ed, eu, eU, ea, eS]
    exact ⟨h.set_a i rfl (fun g j hgj => Or.inl hgj), rfl⟩
  · have ed := h.get_Dinv3 hD3 ha; have eu := h.get_u3 hu3 ha; have eU := h.get_U3 hU3 ha
    have eS := h.get_S3 hS3 ha
    rw [ed, eu, eU, ea, eS]
    exact ⟨h.set_a i rfl (fun g j hgj => Or.inl hgj), rfl⟩
  · have ed := h.get_cDinv hcD ha; have eu := h.get_cu hcu ha; have eU := h.get_cU hcU ha
    have eS := h.get_cS hcS ha
    rw [ed, eu, eU, ea, eS]
    exact ⟨h.set_a i rfl (fun g j hgj => Or.inl hgj), rfl⟩
  · exact ⟨h, rfl⟩

/-! ### `forwardDynamics` -/

/-- `IA[i] = I_i` -/
def stIA (m : ModelS α) (i : Nat) (w : WS α) : WS α :=
  { w with IA := upd w.IA i (m.rbi i).toMatrix }
/-- `pA[i] = v_i ×* I_i v_i (- X_base[i]* f_ext[i])` -/
def stPAf [DecidableEq α] (m : ModelS α) (fext : Option (Nat → SV α)) (i : Nat) (w : WS α) :
    WS α :=
  { w with pA := upd w.pA i (match fext with
      | none => crossf (w.v i) (m.rbi i * w.v i)
      | some fe => if fe i ≠ SV.zero then
          crossf (w.v i) (m.rbi i * w.v i) - (w.X_base i).applyAdjoint (fe i)
        else crossf (w.v i) (m.rbi i * w.v i)) }
/-- `pA[λ] += X_lambda[i]ᵀ pa` -/
def stPAl [DecidableEq α] (m : ModelS α) (i : Nat) (w : WS α) : WS α :=
  { w with pA := upd w.pA (m.lam i) (w.pA (m.lam i) +
      (w.X_lambda i).applyTranspose (w.pA i + abaIa m w i * w.c i + abaUDu m w i)) }
/-- `IA[λ] += X_lambda[i]ᵀ Ia X_lambda[i]` -/
def stIAl [DecidableEq α] (m : ModelS α) (i : Nat) (w : WS α) : WS α :=
  { w with IA := upd w.IA (m.lam i) (w.IA (m.lam i) +
      (w.X_lambda i).toMatrixTranspose * abaIa m w i * (w.X_lambda i).toMatrix) }

section fd
variable [DecidableEq α] {m : ModelS α} {D : Dom} {w w' : WS α}

theorem Agree.stIA (h : Agree m D w w') (i : Nat) :
    Agree m (D ∪ Dom.at [.IA] i) (L13.stIA m i w) (L13.stIA m i w') :=
  h.set_IA i rfl (by dom)

theorem Agree.stPAf (h : Agree m D w w') (fext : Option (Nat → SV α)) (i : Nat) (h2 : D .v i)
    (h3 : fext.isSome → D .X_base i) :
    Agree m (D ∪ Dom.at [.pA] i) (L13.stPAf m fext i w) (L13.stPAf m fext i w') := by
  refine h.set_pA i ?_ (by dom)
  cases fext with
  | none => dsimp only; rw [h.get_v h2]
  | some fe => dsimp only; rw [h.get_v h2, h.get_X_base (h3 rfl)]

theorem Agree.stPAl (h : Agree m D w w') (i : Nat) (h1 : D .pA (m.lam i)) (h2 : D .X_lambda i)
    (h3 : D .pA i) (h4 : D .c i) (hIA : D .IA i) (hU : D .U i) (hd : D .d i) (hu : D .u i)
    (hU3 : D .U3 i) (hD3 : D .Dinv3 i) (hu3 : D .u3 i) (hcU : D .cU i) (hcD : D .cDinv i)
    (hcu : D .cu i) : Agree m D (L13.stPAl m i w) (L13.stPAl m i w') :=
  h.set_pA (m.lam i) (by
    rw [h.get_pA h1, h.get_X_lambda h2, h.get_pA h3, h.get_c h4,
      h.abaIa i hIA hU hd hU3 hD3 hcU hcD, h.abaUDu i hU hd hu hU3 hD3 hu3 hcU hcD hcu])
    (fun g j hgj => Or.inl hgj)

theorem Agree.stIAl (h : Agree m D w w') (i : Nat) (h1 : D .IA (m.lam i)) (h2 : D .X_lambda i)
    (hIA : D .IA i) (hU : D .U i) (hd : D .d i) (hU3 : D .U3 i) (hD3 : D .Dinv3 i)
    (hcU : D .cU i) (hcD : D .cDinv i) : Agree m D (L13.stIAl m i w) (L13.stIAl m i w') :=
  h.set_IA (m.lam i) (by
    rw [h.get_IA h1, h.get_X_lambda h2, h.abaIa i hIA hU hd hU3 hD3 hcU hcD])
    (fun g j hgj => Or.inl hgj)

end fd

theorem fdFwdBody_steps [DecidableEq α] (m : ModelS α) (st : QS α) (qd : VecN α)
    (fext : Option (Nat → SV α)) (i : Nat) (w : WS α) :
    fdFwdBody m st qd fext i w =
      stPAf m fext i (stIA m i (stC i (stV m i
        (if m.lam i ≠ 0 then stXb m i (jcalc m w i st qd) else stXb0 i (jcalc m w i st qd))))) := by
  unfold fdFwdBody; dsimp only; split <;> rfl

theorem fdBwdBody_steps [DecidableEq α] (m : ModelS α) (tau : VecN α) (i : Nat) (w : WS α) :
    fdBwdBody m tau i w =
      if m.lam i ≠ 0 ∧ m.arity i ≠ .other then
        stIAl m i (stPAl m i (abaU m (abaUD m w i) i tau))
      else abaU m (abaUD m w i) i tau := by
  unfold fdBwdBody; dsimp only; split <;> rfl

/-- entries agreeing after the first loop of `forwardDynamics` has passed the bodies `< k` -/
@[dom] def Dfd (m : ModelS α) (k : Nat) : Dom :=
  Dom.at [.X_base, .v] 0 ∪ Dom.rng [.X_lambda, .v_J, .c_J, .X_base, .v, .c, .IA, .pA] 1 k
    ∪ SDom m 1 k

theorem fdFwdBody_sim [DecidableEq α] (m : ModelS α) (st : QS α) (qd : VecN α)
    (fext : Option (Nat → SV α)) (htree : TreeOrder m) (hjc : AllJcalc m) (i : Nat) (s t : WS α)
    (h1 : 1 ≤ i) (h2 : i < 1 + (m.nBodies - 1)) (h : Agree m (Dfd m i) s t) :
    Agree m (Dfd m (i + 1)) (fdFwdBody m st qd fext i s) (fdFwdBody m st qd fext i t) := by
  have hl := htree i h1 (by omega)
  have hJ := h.jcalcU i h1 (by omega) (hjc i h1 (by omega)) st qd
  rw [fdFwdBody_steps, fdFwdBody_steps]
  split
  · exact ((((((hJ.stXb i h1 (by dom) (by dom)).stV i (by dom) (by dom) (by dom)).stC i
      (by dom) (by dom) (by dom)).stIA i).stPAf fext i (by dom) (fun _ => by dom))).mono (by dom)
  · exact ((((((hJ.stXb0 i h1 (by dom)).stV i (by dom) (by dom) (by dom)).stC i
      (by dom) (by dom) (by dom)).stIA i).stPAf fext i (by dom) (fun _ => by dom))).mono (by dom)

/-- the articulated-body fields -/
abbrev abaFlds : List Fld := [.U, .d, .U3, .Dinv3, .cU, .cDinv, .u, .u3, .cu]

/-- entries agreeing when the second loop of `forwardDynamics` is about to visit body `k` -/
@[dom] def Dfb (m : ModelS α) (k : Nat) : Dom :=
  Dfd m (1 + (m.nBodies - 1)) ∪ Dom.rng abaFlds (k + 1) (1 + (m.nBodies - 1))

theorem fdBwdBody_sim [DecidableEq α] (m : ModelS α) (tau : VecN α) (htree : TreeOrder m)
    (hok : AllJointOK m) (i : Nat) (s t : WS α) (h1 : i ≤ m.nBodies - 1)
    (h2 : m.nBodies - 1 < i + (m.nBodies - 1)) (h : Agree m (Dfb m i) s t) :
    Agree m (Dfb m (i - 1)) (fdBwdBody m tau i s) (fdBwdBody m tau i t) := by
  have hi1 : 1 ≤ i := by omega
  have hl := htree i hi1 (by omega)
  have hk := (hok i hi1 (by omega)).2
  have hA := (h.abaUD i (by dom) (by domw [hk]) (by domw [hk]) (by domw [hk])).abaU i tau
    (by dom) (by domw [hk]) (by domw [hk]) (by domw [hk])
  rw [fdBwdBody_steps, fdBwdBody_steps]
  split
  · rename_i hc
    have hl0 : m.lam i ≠ 0 := hc.1
    exact ((hA.stPAl i (by dom) (by dom) (by dom) (by dom) (by dom) (by dom) (by dom) (by dom)
      (by dom) (by dom) (by dom) (by dom) (by dom) (by dom)).stIAl i (by dom) (by dom) (by dom)
      (by dom) (by dom) (by dom) (by dom) (by dom) (by dom)).mono (by dom)
  · exact hA.mono (by dom)

/-- entries agreeing after the third loop has passed the bodies `< k` -/
@[dom] def Dfa (m : ModelS α) (k : Nat) : Dom :=
  Dfb m 0 ∪ Dom.at [.a] 0 ∪ Dom.rng [.a] 1 k

/-- what the third loop reads (besides the accelerations it writes itself) -/
@[dom] def DaccIn (m : ModelS α) : Dom :=
  Dom.rng [.X_lambda, .c, .U, .d, .U3, .Dinv3, .cU, .cDinv, .u, .u3, .cu] 1 (1 + (m.nBodies - 1))
    ∪ SDom m 1 (1 + (m.nBodies - 1)) ∪ Dom.at [.a] 0

theorem accBody_sim [DecidableEq α] (m : ModelS α) (htree : TreeOrder m) (hok : AllJointOK m)
    (B : Dom) (hB : ∀ g j, (DaccIn m) g j → B g j)
    (i : Nat) (s t : WS α × VecN α) (h1 : 1 ≤ i) (h2 : i < 1 + (m.nBodies - 1))
    (h : Agree m (B ∪ Dom.rng [.a] 1 i) s.1 t.1 ∧ s.2 = t.2) :
    Agree m (B ∪ Dom.rng [.a] 1 (i + 1)) (accBody m i s).1 (accBody m i t).1 ∧
      (accBody m i s).2 = (accBody m i t).2 := by
  obtain ⟨s, qs⟩ := s
  obtain ⟨t, qt⟩ := t
  obtain ⟨hA, rfl⟩ := h
  dsimp only at hA
  have hl := htree i h1 (by omega)
  have hk := (hok i h1 (by omega)).2
  have hin : ∀ g, (g ∈ [Fld.X_lambda, .c] ++ abaFlds ∨ ((g = .S ∨ g = .S3 ∨ g = .cS))) →
      (B ∪ Dom.rng [.a] 1 i) g i := by
    intro g hg
    refine Or.inl (hB g i ?_)
    rcases hg with hg | hg
    · simp only [List.mem_append, List.mem_cons, List.mem_nil_iff, or_false] at hg
      rcases hg with (rfl | rfl) | rfl | rfl | rfl | rfl | rfl | rfl | rfl | rfl | rfl <;> dom
    · rcases hg with rfl | rfl | rfl <;> domw [hk]
  have ha0 : (B ∪ Dom.rng [.a] 1 i) .a (m.lam i) := by
    by_cases hl0 : m.lam i = 0
    · rw [hl0]; exact Or.inl (hB _ _ (by dom))
    · exact Or.inr (by dom)
  show Agree m _ (abaAccel m s i qs).1 (abaAccel m t i qs).1 ∧
    (abaAccel m s i qs).2 = (abaAccel m t i qs).2
  rw [abaAccel_eq, abaAccel_eq]
  have hA1 := hA.stAn i (hin _ (by simp)) ha0 (hin _ (by simp))
  have hm : ∀ g, (B ∪ Dom.rng [.a] 1 i) g i → (B ∪ Dom.rng [.a] 1 i ∪ Dom.at [.a] i) g i :=
    fun g hg => Or.inl hg
  obtain ⟨hR, hq⟩ := hA1.accRest i qs (Or.inr ⟨by simp, rfl⟩)
    (hm _ (hin _ (by simp))) (hm _ (hin _ (by simp))) (hm _ (hin _ (by simp)))
    (hm _ (hin _ (by simp))) (hm _ (hin _ (by simp))) (hm _ (hin _ (by simp)))
    (hm _ (hin _ (by simp))) (hm _ (hin _ (by simp))) (hm _ (hin _ (by simp)))
    (hm _ (hin _ (by simp))) (hm _ (hin _ (by simp))) (hm _ (hin _ (by simp)))
  exact ⟨hR.mono (by dom), hq⟩

theorem acc_loop_sim [DecidableEq α] (m : ModelS α) (htree : TreeOrder m) (hok : AllJointOK m)
    (B : Dom) (hB : ∀ g j, (DaccIn m) g j → B g j) (w w' : WS α) (qdd : VecN α)
    (h : Agree m B w w') :
    (forUp (m.nBodies - 1) 1 (accBody m) (w, qdd)).2
      = (forUp (m.nBodies - 1) 1 (accBody m) (w', qdd)).2 :=
  (forUp_simI (fun k (s t : WS α × VecN α) =>
      Agree m (B ∪ Dom.rng [.a] 1 k) s.1 t.1 ∧ s.2 = t.2) _ _ (m.nBodies - 1) 1
    (fun i s t h1 h2 h => accBody_sim m htree hok B hB i s t h1 h2 h) (w, qdd) (w', qdd)
    ⟨h.mono (by dom), rfl⟩).2

theorem fd_indep [DecidableEq α] (m : ModelS α) (st : QS α) (qd tau qdd : VecN α)
    (fext : Option (Nat → SV α)) (htree : TreeOrder m) (hok : AllJointOK m) (w w' : WS α)
    (hw : WSFixed m w) (hw' : WSFixed m w') :
    (forwardDynamics m w st qd tau qdd fext).2 = (forwardDynamics m w' st qd tau qdd fext).2 := by
  rw [fd_eq, fd_eq]
  have h0 := (Agree.init hw hw').set_v 0 (x := SV.zero) (x' := SV.zero) rfl
    (D' := Dom.at [.X_base, .v] 0) (by dom)
  have h1 := forUp_simI (fun k s t => Agree m (Dfd m k) s t) _ _ (m.nBodies - 1) 1
    (fun i s t h1 h2 h => fdFwdBody_sim m st qd fext htree hok.jcalc i s t h1 h2 h) _ _
    (h0.mono (by dom))
  have h2 := forDown_simI (fun k s t => Agree m (Dfb m k) s t) _ _ (m.nBodies - 1)
    (m.nBodies - 1) (fun i s t h1 h2 h => fdBwdBody_sim m tau htree hok i s t h1 h2 h) _ _
    (h1.mono (by dom))
  rw [Nat.sub_self] at h2
  have h3 := h2.set_a 0 (x := spatialGravityNeg m) (x' := spatialGravityNeg m) rfl
    (D' := Dfb m 0 ∪ Dom.at [.a] 0) (by dom)
  exact acc_loop_sim m htree hok _ (by dom) _ _ qdd h3

end
end Rbdl.L13
