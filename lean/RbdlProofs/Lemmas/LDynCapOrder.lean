import RbdlProofs.Lemmas.LDynCap
import RbdlProofs.Lemmas.LDynCapBuild
/-
  `mJointUpdateOrder` of a model produced by construction enumerates the movable bodies
  (`OrderOK`): the grouping by joint type (`groupOrder`) is a permutation.
-/
namespace Rbdl.LDynCap
open Lean.Grind Rbdl Rbdl.Spec Rbdl.L01Cap
set_option linter.unusedSimpArgs false
set_option linter.unusedVariables false
set_option linter.unusedSectionVars false

section Group

theorem go_perm : ∀ (fuel : Nat) (ts : List (JT × Nat)), ts.length ≤ fuel →
    (ModelS.groupOrder.go fuel ts).Perm (ts.map (·.2)) := by
  intro fuel
  induction fuel with
  | zero =>
    intro ts h
    have : ts = [] := List.eq_nil_of_length_eq_zero (by omega)
    subst this
    simp [ModelS.groupOrder.go]
  | succ fuel ih =>
    intro ts h
    cases ts with
    | nil => simp [ModelS.groupOrder.go]
    | cons x rest =>
      obtain ⟨t, i⟩ := x
      simp only [ModelS.groupOrder.go, List.map_cons]
      refine List.Perm.cons _ ?_
      have hlen : (rest.filter (fun p => !(p.1 == t))).length ≤ fuel := by
        have := List.length_filter_le (fun p : JT × Nat => !(p.1 == t)) rest
        simp only [List.length_cons] at h
        omega
      have h1 := ih _ hlen
      have h2 := (List.filter_append_perm (fun p : JT × Nat => p.1 == t) rest).map (·.2)
      rw [List.map_append] at h2
      exact (List.Perm.append_left _ h1).trans h2

/-- the grouped update order (without its first entry, the base) enumerates `1 … n-1` -/
theorem groupOrder_drop (l : List JT) (hl : l ≠ []) :
    ((ModelS.groupOrder (ModelS.indexed l)).drop 1).Perm (List.range' 1 (l.length - 1)) := by
  cases l with
  | nil => exact absurd rfl hl
  | cons a l' =>
    have hidx : ModelS.indexed (a :: l') = (a, 0) :: l'.zip (List.range' 1 l'.length) := by
      unfold ModelS.indexed
      rw [List.length_cons, List.range_eq_range', List.range'_succ, List.zip_cons_cons]
    have hp := go_perm (ModelS.indexed (a :: l')).length (ModelS.indexed (a :: l')) (Nat.le_refl _)
    have hmap : (ModelS.indexed (a :: l')).map (·.2) = 0 :: List.range' 1 l'.length := by
      unfold ModelS.indexed
      rw [List.map_snd_zip (by simp), List.length_cons, List.range_eq_range', List.range'_succ]
    rw [hmap] at hp
    unfold ModelS.groupOrder
    rw [hidx] at hp ⊢
    simp only [List.length_cons] at hp ⊢
    simp only [ModelS.groupOrder.go] at hp ⊢
    rw [List.drop_one, List.tail_cons, Nat.add_sub_cancel]
    exact hp.cons_inv

end Group

section
variable {α : Type} [Field α] [DecidableEq α]

/-- the update order is the grouping of the current joint list (or the model is still empty) -/
def UO (m : ModelS α) : Prop :=
  m.updateOrder = ModelS.groupOrder (ModelS.indexed (m.joints.map (·.jt))) ∨
    (m.updateOrder = [] ∧ m.nBodies = 1)

theorem orderOK_of_uo {m : ModelS α} (hwf : m.WF) (h : UO m) : OrderOK m := by
  unfold OrderOK
  rcases h with h | ⟨h1, h2⟩
  · rw [h]
    have hne : m.joints.map (·.jt) ≠ [] := by
      intro e
      have := congrArg List.length e
      rw [List.length_map, hwf.len_joints] at this
      have := hwf.nb_pos
      simp at *
      omega
    have := groupOrder_drop (m.joints.map (·.jt)) hne
    rw [List.length_map, hwf.len_joints] at this
    exact this
  · rw [h1, h2]
    exact List.Perm.refl _

theorem uo_movable (m : ModelS α) (parent : Nat) (frame : XT α) (j : Joint α) (b : Body α)
    (name : String) : UO (m.movableResult parent frame j b name) := Or.inl rfl

theorem uo_fixed (m : ModelS α) (h : UO m) (parent : Nat) (frame : XT α) (b : Body α)
    (name : String) (pb : Body α) : UO (m.fixedResult parent frame b name pb) := by
  rcases h with h | ⟨h1, h2⟩
  · exact Or.inl h
  · refine Or.inr ⟨h1, ?_⟩
    show (m.bodies.set _ _).length = 1
    rw [List.length_set]; exact h2

theorem uo_addBody (m : ModelS α) (h : UO m) (parent : Nat) (frame : XT α) (j : Joint α)
    (b : Body α) (name : String)
    (hk : j.jt.hasJcalc = true ∨ j.jt = .fixed ∨ j.jt = .floatingBase) :
    UO (m.addBody parent frame j b name).1 := by
  rw [ModelS.addBody_eq]
  by_cases hd : name ≠ "" ∧ m.hasName name
  · rw [if_pos hd]; exact h
  · rw [if_neg hd]
    rcases hk with hj | hfix | hfl
    · rw [hasJcalc_single _ hj]
      show UO (m.addBodyMovable parent frame j b name).1
      rw [ModelS.addBodyMovable_eq, if_neg hd]
      exact uo_movable ..
    · have hk : j.jt.kind = .fixed := by rw [hfix]; rfl
      rw [hk]
      show UO (m.addBodyFixed parent frame b name).1
      cases hjoin : (m.body (m.mpOf parent)).join (m.fpXOf parent frame) b with
      | none => rw [ModelS.addBodyFixed_none m parent frame b name hd hjoin]; exact h
      | some pb =>
        rw [ModelS.addBodyFixed_some m parent frame b name pb hd hjoin]
        exact uo_fixed m h parent frame b name pb
    · have hk : j.jt.kind = .floating := by rw [hfl]; rfl
      rw [hk]
      show UO (m.addFloating parent frame b name).1
      unfold ModelS.addFloating
      have hd1 : ¬(name ≠ "" ∧
          (m.movableResult parent frame ModelS.floatT ModelS.nullBody "").hasName name) := by
        rw [ModelS.hasName_congr (ModelS.movableResult_names_unnamed ..)]; exact hd
      rw [ModelS.addBodyMovable_eq, if_neg hd1]
      exact uo_movable ..

theorem uo_custom (m : ModelS α) (h : UO m) (parent : Nat) (frame : XT α) (k : CustomKind)
    (b : Body α) (name : String) : UO (m.addBodyCustomJoint parent frame k b name).1 := by
  rw [ModelS.addBodyCustomJoint_eq]
  by_cases hd : name ≠ "" ∧ m.hasName name
  · rw [if_pos hd]; exact h
  · rw [if_neg hd]; exact uo_movable ..

theorem uo_runF (ops : List (Op α)) : ∀ (m : ModelS α), UO m → goodRunF m ops → UO (m.run ops) := by
  induction ops with
  | nil => intro m h _; exact h
  | cons op ops ih =>
    intro m h hg
    obtain ⟨hv, hs, _, _, hrest⟩ := hg
    refine ih _ ?_ hrest
    have hkind : ∀ (frame : XT α) (j : Joint α) (b : Body α), addOK frame j b →
        j.jt.hasJcalc = true ∨ j.jt = .fixed ∨ j.jt = .floatingBase := by
      intro frame j b ha
      rcases ha.2.2 with ⟨hj, _⟩ | hf | ⟨hf, _⟩
      · exact Or.inl hj.1
      · exact Or.inr (Or.inl hf)
      · exact Or.inr (Or.inr hf)
    cases op with
    | addBody parent frame j b name => exact uo_addBody m h parent frame j b name (hkind _ _ _ hs)
    | appendBody frame j b name =>
      exact uo_addBody m h m.prevBodyId frame j b name (hkind _ _ _ hs)
    | addBodyCustomJoint parent frame k b name => exact uo_custom m h parent frame k b name

theorem uo_run (ops : List (Op α)) : ∀ (m : ModelS α), UO m → goodRun m ops → UO (m.run ops) := by
  induction ops with
  | nil => intro m h _; exact h
  | cons op ops ih =>
    intro m h hg
    obtain ⟨hv, hs, _, hrest⟩ := hg
    refine ih _ ?_ hrest
    cases op with
    | addBody parent frame j b name =>
      exact uo_addBody m h parent frame j b name (Or.inl hs.2.1.1)
    | appendBody frame j b name =>
      exact uo_addBody m h m.prevBodyId frame j b name (Or.inl hs.2.1.1)
    | addBodyCustomJoint parent frame k b name => exact hs.elim

theorem uo_init : UO (ModelS.init : ModelS α) := Or.inr ⟨rfl, rfl⟩

/-- **`mJointUpdateOrder` of a constructed model enumerates its movable bodies** -/
theorem orderOK_by_constructionF (ops : List (Op α))
    (hg : goodRunF (ModelS.init : ModelS α) ops) : OrderOK ((ModelS.init : ModelS α).run ops) :=
  orderOK_of_uo (refinesF_by_construction ops hg).1.wf (uo_runF ops _ uo_init hg)

theorem orderOK_by_construction (ops : List (Op α))
    (hg : goodRun (ModelS.init : ModelS α) ops) : OrderOK ((ModelS.init : ModelS α).run ops) :=
  orderOK_of_uo (refines_by_construction ops hg).1.wf (uo_run ops _ uo_init hg)

end
end Rbdl.LDynCap
