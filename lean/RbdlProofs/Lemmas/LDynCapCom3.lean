import RbdlProofs.Lemmas.LDynCapCom2
/-
  Capstones for the whole-body routines: the folds of `Rbdl/Spec/Mech.lean` (`totalMass`, `massSum`,
  `angularMomentum`, `kineticEnergy`) as sums over the node indices, in terms of the node quantities
  `nodeI`, `nodeH`, `nodeHd` of `LDynCapCom2.lean`.
-/
namespace Rbdl.LDynCap
open Lean.Grind Rbdl Rbdl.Spec Rbdl.L06 Rbdl.L01 Rbdl.Loops Rbdl.L01Cap
set_option linter.unusedSimpArgs false
set_option linter.unusedVariables false
set_option linter.unusedSectionVars false

section Generic
variable {β : Type} [Add β] {z : β} {γ : Type}

theorem foldl_eq_lsumG_aux (L : AddLaws z) (t : γ → β) (g : β → γ → β)
    (hg : ∀ a x, g a x = a + t x) (d : γ) (l : List γ) : ∀ (s : Nat) (a : β),
      l.foldl g a = a + lsum z (fun i => t (l.getD (i - s) d)) (List.range' s l.length) := by
  induction l with
  | nil => intro s a; simp only [List.foldl_nil, List.length_nil, List.range'_zero, lsum]
           exact (L.add_zero a).symm
  | cons x l ih =>
    intro s a
    rw [List.foldl_cons, hg, ih (s + 1), List.length_cons, List.range'_succ, lsum, Nat.sub_self,
      List.getD_cons_zero]
    have e : lsum z (fun i => t ((x :: l).getD (i - s) d)) (List.range' (s + 1) l.length)
        = lsum z (fun i => t (l.getD (i - (s + 1)) d)) (List.range' (s + 1) l.length) := by
      refine lsum_congr _ _ _ (fun c hc => ?_)
      rw [List.mem_range'_1] at hc
      have : c - s = (c - (s + 1)) + 1 := by omega
      rw [this, List.getD_cons_succ]
    rw [e, L.add_assoc]

/-- a left fold adding `t x` for every element is the sum of `t` over the indices -/
theorem foldl_eq_lsumG (L : AddLaws z) (t : γ → β) (g : β → γ → β)
    (hg : ∀ a x, g a x = a + t x) (d : γ) (l : List γ) (a : β) :
    l.foldl g a = a + lsum z (fun i => t (l.getD i d)) (List.range l.length) := by
  rw [List.range_eq_range', foldl_eq_lsumG_aux L t g hg d l 0 a]
  simp only [Nat.sub_zero]

end Generic

section
variable {α : Type} [Field α] [DecidableEq α]

theorem totalMass_eq (M : SModel α) :
    totalMass M = lsum 0 (fun n => if cnt M n = true then (M.nodes.getD n nd0).mass else 0)
      (List.range M.nodes.length) := by
  unfold totalMass
  rw [foldl_eq_lsumG L12.ring_addLaws (fun nd : SNode α => if nd.counts = true then nd.mass else 0)
    _ (fun a nd => by by_cases h : nd.counts = true <;> simp only [h, if_true, if_false] <;> grind)
    nd0]
  have ez : ∀ a : α, 0 + a = a := by intro a; grind
  rw [ez]
  rfl

theorem massSum_eq (M : SModel α) (S : State α) (hne : M.nodes ≠ [])
    (f : SNode α → NodeKin α → V3 α) :
    massSum M S f = lsum V3.zero (fun n => if cnt M n = true then
        (M.nodes.getD n nd0).mass * f (M.nodes.getD n nd0) (specKin M S n) else V3.zero)
      (List.range M.nodes.length) := by
  unfold massSum
  dsimp only
  rw [foldl_eq_lsumG L12.v3_addLaws
    (fun p : SNode α × NodeKin α => if p.1.counts = true then p.1.mass * f p.1 p.2 else V3.zero)
    _ (fun a p => by
      by_cases h : p.1.counts = true
      · simp only [h, if_true]
      · simp only [h, if_false]; exact (L12.v3_addLaws.add_zero a).symm)
    (nd0, NodeKin.ofPose Pose.id), L12.v3_addLaws.zero_add]
  have hl : (M.nodes.zip (kinTable M S)).length = M.nodes.length := by
    rw [List.length_zip, kinTable_length M S hne]; omega
  rw [hl]
  refine lsum_congr _ _ _ (fun n hn => ?_)
  rw [List.mem_range] at hn
  rw [zip_kin_getD M S hne n hn]
  rfl

/-- total inertia / momentum / momentum rate of the counted nodes -/
def specI (M : SModel α) (S : State α) : RBI α :=
  lsum RBI.zero (fun n => if cnt M n = true then nodeI M S n else RBI.zero)
    (List.range M.nodes.length)
def specH (M : SModel α) (S : State α) : SV α :=
  lsum SV.zero (fun n => if cnt M n = true then nodeH M S n else SV.zero)
    (List.range M.nodes.length)
def specHd (M : SModel α) (S : State α) : SV α :=
  lsum SV.zero (fun n => if cnt M n = true then nodeHd M S n else SV.zero)
    (List.range M.nodes.length)

theorem totalMass_specI (M : SModel α) (S : State α) : totalMass M = (specI M S).m := by
  unfold specI
  rw [totalMass_eq, L12.rbi_lsum_m]
  refine lsum_congr _ _ _ (fun n _ => ?_)
  by_cases h : cnt M n = true
  · rw [if_pos h, if_pos h]; rfl
  · rw [if_neg h, if_neg h]; rfl

theorem massSum_pt (M : SModel α) (S : State α) (hne : M.nodes ≠ []) :
    massSum M S (fun nd k => k.pt nd.com) = (specI M S).h := by
  unfold specI
  rw [massSum_eq M S hne, L12.rbi_lsum_h]
  refine lsum_congr _ _ _ (fun n _ => ?_)
  by_cases h : cnt M n = true
  · rw [if_pos h, if_pos h]
    exact (node_inertia _ _ _ _).2.symm
  · rw [if_neg h, if_neg h]; rfl

theorem massSum_ptd (M : SModel α) (S : State α) (hne : M.nodes ≠ []) :
    massSum M S (fun nd k => k.ptd nd.com) = (specH M S).v := by
  unfold specH
  rw [massSum_eq M S hne, L12.sv_lsum_v]
  refine lsum_congr _ _ _ (fun n _ => ?_)
  by_cases h : cnt M n = true
  · rw [if_pos h, if_pos h]; rfl
  · rw [if_neg h, if_neg h]; rfl

theorem massSum_ptdd (M : SModel α) (S : State α) (hne : M.nodes ≠ []) :
    massSum M S (fun nd k => k.ptdd nd.com) = (specHd M S).v := by
  unfold specHd
  rw [massSum_eq M S hne, L12.sv_lsum_v]
  refine lsum_congr _ _ _ (fun n _ => ?_)
  by_cases h : cnt M n = true
  · rw [if_pos h, if_pos h]; rfl
  · rw [if_neg h, if_neg h]; rfl

/-! ### angular momentum about the centre of mass -/

/-- moment about the point `C` of the wrench-like pair `(moment about the origin, vector)` -/
def aboutPt (C : V3 α) (h : SV α) : V3 α := h.w - C.cross h.v

theorem aboutPt_add (C : V3 α) (a b : SV α) : aboutPt C (a + b) = aboutPt C a + aboutPt C b := by
  unfold aboutPt; alg_ext
theorem aboutPt_zero (C : V3 α) : aboutPt C (SV.zero : SV α) = V3.zero := by
  unfold aboutPt; alg_ext

theorem pair_fold {γ : Type} (c : γ → Bool) (f g : γ → V3 α) (l : List γ) : ∀ (a b : V3 α),
    l.foldl (fun (acc : V3 α × V3 α) p => if (!c p) = true then acc else (acc.1 + f p, acc.2 + g p))
        (a, b)
      = (l.foldl (fun acc p => if c p = true then acc + f p else acc) a,
         l.foldl (fun acc p => if c p = true then acc + g p else acc) b) := by
  induction l with
  | nil => intro a b; rfl
  | cons x l ih =>
    intro a b
    simp only [List.foldl_cons]
    cases hc : c x
    · simp only [Bool.not_false, if_true, Bool.false_eq_true, if_false]; exact ih a b
    · simp only [Bool.not_true, Bool.false_eq_true, if_false, if_true]; exact ih _ _

theorem v3_lsum_sub (f g : Nat → V3 α) (l : List Nat) :
    lsum V3.zero (fun n => f n - g n) l = lsum V3.zero f l - lsum V3.zero g l := by
  induction l with
  | nil => simp only [lsum]; alg_ext
  | cons c l ih => simp only [lsum]; rw [ih]; alg_ext

theorem am_core (c C mv d : V3 α) : (c - C).cross mv + d = (c.cross mv + d) - C.cross mv := by
  alg_ext
theorem amd_core (c C cd Cd cdd n1 n2 : V3 α) (mass : α) :
    (cd - Cd).cross (mass * cd) + (c - C).cross (mass * cdd) + n1 + n2
      = ((c.cross (mass * cdd) + (n1 + n2)) - C.cross (mass * cdd)) - Cd.cross (mass * cd) := by
  alg_ext
theorem smul_cross_self (k : α) (v : V3 α) : (k * v).cross v = V3.zero := by alg_ext
theorem v3_sub_zero (a : V3 α) : a - V3.zero = a := by alg_ext

/-- **`Spec.angularMomentum`** in terms of the total momentum and its rate about the base origin -/
theorem angularMomentum_eq (M : SModel α) (S : State α) (hne : M.nodes ≠ []) :
    angularMomentum M S
      = (aboutPt (com M S) (specH M S), aboutPt (com M S) (specHd M S)) := by
  have hl : (M.nodes.zip (kinTable M S)).length = M.nodes.length := by
    rw [List.length_zip, kinTable_length M S hne]; omega
  have e : angularMomentum M S = (M.nodes.zip (kinTable M S)).foldl
      (fun (acc : V3 α × V3 α) p => if (!p.1.counts) = true then acc else
        (acc.1 + ((p.2.pt p.1.com - com M S).cross (p.1.mass * p.2.ptd p.1.com)
            + (p.2.R * p.1.inertia * p.2.R.transpose) * p.2.omega),
         acc.2 + ((p.2.ptd p.1.com - comVelocity M S).cross (p.1.mass * p.2.ptd p.1.com)
            + (p.2.pt p.1.com - com M S).cross (p.1.mass * p.2.ptdd p.1.com)
            + (p.2.Rd * p.1.inertia * p.2.R.transpose + p.2.R * p.1.inertia * p.2.Rd.transpose)
                * p.2.omega
            + (p.2.R * p.1.inertia * p.2.R.transpose) * p.2.omegaDot))) (V3.zero, V3.zero) := rfl
  rw [e, pair_fold (fun p : SNode α × NodeKin α => p.1.counts)]
  refine Prod.ext ?_ ?_
  · dsimp only
    rw [foldl_eq_lsumG L12.v3_addLaws
      (fun p : SNode α × NodeKin α => if p.1.counts = true then
        (p.2.pt p.1.com - com M S).cross (p.1.mass * p.2.ptd p.1.com)
            + (p.2.R * p.1.inertia * p.2.R.transpose) * p.2.omega else V3.zero)
      _ (fun a p => by
        by_cases h : p.1.counts = true
        · simp only [h, if_true]
        · simp only [h, if_false]; exact (L12.v3_addLaws.add_zero a).symm)
      (nd0, NodeKin.ofPose Pose.id), L12.v3_addLaws.zero_add, hl]
    unfold specH
    rw [lsum_map SV.zero V3.zero (aboutPt (com M S)) (aboutPt_zero _) (aboutPt_add _)]
    refine lsum_congr _ _ _ (fun n hn => ?_)
    rw [List.mem_range] at hn
    rw [zip_kin_getD M S hne n hn]
    by_cases h : cnt M n = true
    · have h' : (M.nodes.getD n nd0).counts = true := h
      rw [if_pos h]
      simp only [h', if_true]
      exact am_core _ _ _ _
    · have h' : ¬ (M.nodes.getD n nd0).counts = true := h
      rw [if_neg h, aboutPt_zero]
      simp only [h', if_false, Bool.false_eq_true]
  · dsimp only
    rw [foldl_eq_lsumG L12.v3_addLaws
      (fun p : SNode α × NodeKin α => if p.1.counts = true then
        (p.2.ptd p.1.com - comVelocity M S).cross (p.1.mass * p.2.ptd p.1.com)
            + (p.2.pt p.1.com - com M S).cross (p.1.mass * p.2.ptdd p.1.com)
            + (p.2.Rd * p.1.inertia * p.2.R.transpose + p.2.R * p.1.inertia * p.2.Rd.transpose)
                * p.2.omega
            + (p.2.R * p.1.inertia * p.2.R.transpose) * p.2.omegaDot else V3.zero)
      _ (fun a p => by
        by_cases h : p.1.counts = true
        · simp only [h, if_true]
        · simp only [h, if_false]; exact (L12.v3_addLaws.add_zero a).symm)
      (nd0, NodeKin.ofPose Pose.id), L12.v3_addLaws.zero_add, hl]
    have hsplit : ∀ n, n < M.nodes.length →
        (fun p : SNode α × NodeKin α => if p.1.counts = true then
          (p.2.ptd p.1.com - comVelocity M S).cross (p.1.mass * p.2.ptd p.1.com)
              + (p.2.pt p.1.com - com M S).cross (p.1.mass * p.2.ptdd p.1.com)
              + (p.2.Rd * p.1.inertia * p.2.R.transpose + p.2.R * p.1.inertia * p.2.Rd.transpose)
                  * p.2.omega
              + (p.2.R * p.1.inertia * p.2.R.transpose) * p.2.omegaDot else V3.zero)
          ((M.nodes.zip (kinTable M S)).getD n (nd0, NodeKin.ofPose Pose.id))
        = aboutPt (com M S) (if cnt M n = true then nodeHd M S n else SV.zero)
          - (comVelocity M S).cross ((if cnt M n = true then nodeH M S n else SV.zero).v) := by
      intro n hn
      rw [zip_kin_getD M S hne n hn]
      by_cases h : cnt M n = true
      · have h' : (M.nodes.getD n nd0).counts = true := h
        rw [if_pos h, if_pos h]
        simp only [h', if_true]
        exact amd_core _ _ _ _ _ _ _ _
      · have h' : ¬ (M.nodes.getD n nd0).counts = true := h
        rw [if_neg h, if_neg h, aboutPt_zero]
        simp only [h', if_false, Bool.false_eq_true]
        alg_ext
    rw [lsum_congr _ _ _ (fun n hn => hsplit n (List.mem_range.1 hn)), v3_lsum_sub,
      ← lsum_map SV.zero V3.zero (aboutPt (com M S)) (aboutPt_zero _) (aboutPt_add _),
      ← lsum_map SV.zero V3.zero (fun h : SV α => (comVelocity M S).cross h.v)
        (by alg_ext) (fun a b => by alg_ext)]
    show aboutPt (com M S) (specHd M S) - (comVelocity M S).cross (specH M S).v = _
    have hcd : comVelocity M S = (1 / totalMass M) * (specH M S).v := by
      unfold comVelocity; rw [massSum_ptd M S hne]
    rw [hcd, smul_cross_self, v3_sub_zero]

end
end Rbdl.LDynCap
