import RbdlProofs.Lemmas.Alg16
import RbdlProofs.Props.C16
/-
  Helper definitions and lemmas for C04 (forward kinematics follows the joint definitions).
-/
namespace Rbdl
open Lean.Grind
set_option linter.unusedSimpArgs false

attribute [ext] Spec.Pose

/-- joint types for which `jcalc` writes `X_lambda[i]` -/
def JT.hasJcalc : JT → Bool
  | .revoluteX | .revoluteY | .revoluteZ | .revolute | .prismatic | .helical | .spherical
  | .eulerZYX | .eulerXYZ | .eulerYXZ | .eulerZXY | .translationXYZ | .custom => true
  | _ => false

section
variable {α : Type} [Field α]

/-- `X_J` of the harness' custom joints (independent of `qd`) -/
def customXJ (kind : CustomKind) (k : Nat) (st : QS α) : XT α :=
  match kind with
  | .revX => Xrotx (st.c k) (st.s k)
  | .eulerZYX =>
    ⟨eulerZYX_E (st.c k) (st.s k) (st.c (k+1)) (st.s (k+1)) (st.c (k+2)) (st.s (k+2)), V3.zero⟩
  | .cyl => Xrotz (st.c k) (st.s k) * Xtrans ⟨0, 0, st.q (k+1)⟩

theorem customCalc_fst (kind : CustomKind) (k : Nat) (st : QS α) (qd : VecN α) :
    (customCalc kind k st qd).1 = customXJ kind k st := by
  cases kind <;> rfl

/-- the value `jcalc` leaves in `X_lambda[i]` (`old` = the previous content, kept by the joint
    types `jcalc` does not handle) -/
def jcalcX (m : ModelS α) (i : Nat) (st : QS α) (old : XT α) : XT α :=
  let j := m.joint i
  let k := j.qIndex
  let XT_i := m.XT_ i
  match j.jt with
  | .revoluteX => Xrotx (st.c k) (st.s k) * XT_i
  | .revoluteY => Xroty (st.c k) (st.s k) * XT_i
  | .revoluteZ => Xrotz (st.c k) (st.s k) * XT_i
  | .helical | .revolute | .prismatic => jcalcXJ m i st * XT_i
  | .spherical => (⟨(getQuaternion m i st.q).toMatrix, V3.zero⟩ : XT α) * XT_i
  | .eulerZYX =>
    (⟨eulerZYX_E (st.c k) (st.s k) (st.c (k+1)) (st.s (k+1)) (st.c (k+2)) (st.s (k+2)), V3.zero⟩
      : XT α) * XT_i
  | .eulerXYZ =>
    (⟨eulerXYZ_E (st.c k) (st.s k) (st.c (k+1)) (st.s (k+1)) (st.c (k+2)) (st.s (k+2)), V3.zero⟩
      : XT α) * XT_i
  | .eulerYXZ =>
    (⟨eulerYXZ_E (st.c k) (st.s k) (st.c (k+1)) (st.s (k+1)) (st.c (k+2)) (st.s (k+2)), V3.zero⟩
      : XT α) * XT_i
  | .eulerZXY =>
    (⟨eulerZXY_E (st.c k) (st.s k) (st.c (k+1)) (st.s (k+1)) (st.c (k+2)) (st.s (k+2)), V3.zero⟩
      : XT α) * XT_i
  | .translationXYZ => ⟨XT_i.E, XT_i.r + XT_i.E.tmulVec ⟨st.q k, st.q (k+1), st.q (k+2)⟩⟩
  | .custom => customXJ (m.custom j.customIdx) k st * XT_i
  | _ => old

theorem upd_self {β : Type} (f : Nat → β) (k : Nat) : upd f k (f k) = f := by
  funext j; unfold upd; split <;> simp_all

theorem jcalc_X_lambda (m : ModelS α) (w : WS α) (i : Nat) (st : QS α) (qd : VecN α) :
    (jcalc m w i st qd).X_lambda = upd w.X_lambda i (jcalcX m i st (w.X_lambda i)) := by
  unfold jcalc jcalcX
  dsimp only
  cases h : (m.joint i).jt <;> simp only [upd_self, customCalc_fst]

theorem jcalcXlambdaS_X_lambda (m : ModelS α) (w : WS α) (i : Nat) (st : QS α) :
    (jcalcXlambdaS m w i st).X_lambda = upd w.X_lambda i (jcalcX m i st (w.X_lambda i)) := by
  have htr : ∀ (q : V3 α) (X : XT α),
      (⟨M3.one, q⟩ : XT α) * X = ⟨X.E, X.r + X.E.tmulVec q⟩ := by
    intro q X; alg_ext
  unfold jcalcXlambdaS jcalcX
  dsimp only
  cases h : (m.joint i).jt <;> simp only [upd_self, customCalc_fst, htr]

theorem jcalc_X_base (m : ModelS α) (w : WS α) (i : Nat) (st : QS α) (qd : VecN α) :
    (jcalc m w i st qd).X_base = w.X_base := by
  unfold jcalc
  dsimp only
  cases h : (m.joint i).jt <;> rfl

/-! ### pose algebra -/

theorem poseOfXT_mul' {β : Type} [CommRing β] (X Y : XT β) :
    poseOfXT (X * Y) = (poseOfXT Y).comp (poseOfXT X) := by
  ext <;> simp only [alg, poseOfXT, Spec.Pose.comp] <;> grind

theorem framePose_id {β : Type} [CommRing β] (X : XT β) :
    Spec.framePose id X.E X.r = poseOfXT X := rfl

/-- the pose statement for the value written by `jcalc` -/
theorem jcalcX_pose (m : ModelS α) (i : Nat) (st : QS α) (old : XT α)
    (hj : (m.joint i).jt.hasJcalc = true) :
    poseOfXT (jcalcX m i st old) =
      (Spec.framePose id (m.XT_ i).E (m.XT_ i).r).comp
        (Spec.jointPose id (m.sjoint i) (m.joint i).qIndex (m.w3 i) (coordsOf st)) := by
  rw [framePose_id]
  unfold jcalcX ModelS.sjoint
  dsimp only
  cases h : (m.joint i).jt <;> simp only [h, JT.hasJcalc, Bool.false_eq_true] at hj
  case custom =>
    simp only [poseOfXT_mul']; congr 1
    cases hc : m.custom (m.joint i).customIdx <;>
      (ext <;> simp only [alg, poseOfXT, Spec.Pose.comp, Spec.Pose.id, Spec.jointPose,
        Spec.rodrigues, Spec.rotX, Spec.rotY, Spec.rotZ, coordsOf, id, eulerZYX_E, customXJ]
        <;> grind)
  all_goals
    (try (simp only [poseOfXT_mul']; congr 1))
    try (ext <;> simp only [alg, poseOfXT, Spec.Pose.comp, Spec.Pose.id, Spec.jointPose,
      Spec.rodrigues, Spec.rotX, Spec.rotY, Spec.rotZ, Spec.quatRot, coordsOf, id, jcalcXJ, h,
      getQuaternion, eulerZYX_E, eulerXYZ_E, eulerYXZ_E, eulerZXY_E] <;> grind)

end

/-! ### generic `forUp` lemmas: a loop whose iteration `i` writes only entry `i` of a view -/

theorem forUp_add {σ : Type} (a b lo : Nat) (body : Nat → σ → σ) (s : σ) :
    forUp (a + b) lo body s = forUp b (lo + a) body (forUp a lo body s) := by
  induction a generalizing lo s with
  | zero => simp [forUp]
  | succ a ih =>
    have : a + 1 + b = (a + b) + 1 := by omega
    rw [this]
    simp only [forUp]
    rw [ih]
    have : lo + 1 + a = lo + (a + 1) := by omega
    rw [this]

/-- entries outside the index range of the loop are untouched -/
theorem forUp_get_outside {σ β : Type} (get : σ → Nat → β) (body : Nat → σ → σ)
    (hbody : ∀ i s j, j ≠ i → get (body i s) j = get s j)
    (n lo : Nat) (s : σ) (j : Nat) (hj : j < lo ∨ lo + n ≤ j) :
    get (forUp n lo body s) j = get s j := by
  induction n generalizing lo s with
  | zero => rfl
  | succ n ih =>
    simp only [forUp]
    rw [ih (lo + 1) (body lo s) (by omega)]
    exact hbody lo s j (by omega)

/-- entry `j` is final once the counter has passed `j`: it is what iteration `j` wrote -/
theorem forUp_get_inside {σ β : Type} (get : σ → Nat → β) (body : Nat → σ → σ)
    (hbody : ∀ i s j, j ≠ i → get (body i s) j = get s j)
    (n lo : Nat) (s : σ) (j : Nat) (h1 : lo ≤ j) (h2 : j < lo + n) :
    get (forUp n lo body s) j = get (body j (forUp (j - lo) lo body s)) j := by
  have hn : n = (j - lo) + (1 + (n - (j - lo) - 1)) := by omega
  rw [hn, forUp_add, forUp_add]
  rw [forUp_get_outside get body hbody _ _ _ j (by omega)]
  have : lo + (j - lo) = j := by omega
  simp only [this, forUp]

/-- entries below `i` are already final in the state iteration `i` starts from -/
theorem forUp_get_prefix {σ β : Type} (get : σ → Nat → β) (body : Nat → σ → σ)
    (hbody : ∀ i s j, j ≠ i → get (body i s) j = get s j)
    (n lo : Nat) (s : σ) (i j : Nat) (h1 : lo ≤ i) (h2 : i ≤ lo + n) (hj : j < i) :
    get (forUp n lo body s) j = get (forUp (i - lo) lo body s) j := by
  have hn : n = (i - lo) + (n - (i - lo)) := by omega
  rw [hn, forUp_add]
  rw [forUp_get_outside get body hbody _ _ _ j (by omega)]

/-! ### the position loop of `UpdateKinematicsCustom` -/
section
variable {α : Type} [Field α]

/-- body of the first loop of `updateKinematicsCustom` -/
def ukcBody (m : ModelS α) (st : QS α) (i : Nat) (w : WS α) : WS α :=
  let lam := m.lam i
  let w := jcalc m w i st zeroVec
  if lam ≠ 0 then { w with X_base := upd w.X_base i (w.X_lambda i * w.X_base lam) }
  else { w with X_base := upd w.X_base i (w.X_lambda i) }

theorem ukc_eq_forUp (m : ModelS α) (w : WS α) (st : QS α) :
    updateKinematicsCustom m w (some st) none none = forUp (m.nBodies - 1) 1 (ukcBody m st) w :=
  rfl

theorem ukcBody_X_lambda (m : ModelS α) (st : QS α) (i : Nat) (w : WS α) :
    (ukcBody m st i w).X_lambda = upd w.X_lambda i (jcalcX m i st (w.X_lambda i)) := by
  unfold ukcBody
  dsimp only
  split <;> exact jcalc_X_lambda m w i st zeroVec

theorem ukcBody_X_base (m : ModelS α) (st : QS α) (i : Nat) (w : WS α) :
    (ukcBody m st i w).X_base = upd w.X_base i
      (if m.lam i ≠ 0 then jcalcX m i st (w.X_lambda i) * w.X_base (m.lam i)
       else jcalcX m i st (w.X_lambda i)) := by
  unfold ukcBody
  dsimp only
  split <;> simp only [jcalc_X_lambda, jcalc_X_base, upd_same]

theorem ukcBody_X_lambda_other (m : ModelS α) (st : QS α) (i : Nat) (w : WS α) (j : Nat)
    (h : j ≠ i) : (ukcBody m st i w).X_lambda j = w.X_lambda j := by
  rw [ukcBody_X_lambda, upd_other _ _ _ _ h]

theorem ukcBody_X_base_other (m : ModelS α) (st : QS α) (i : Nat) (w : WS α) (j : Nat)
    (h : j ≠ i) : (ukcBody m st i w).X_base j = w.X_base j := by
  rw [ukcBody_X_base, upd_other _ _ _ _ h]

/-- `X_lambda[i]` after the loop is the value `jcalc` computes from joint `i` and `st` alone -/
theorem ukc_X_lambda (m : ModelS α) (w : WS α) (st : QS α) (i : Nat) (h1 : 1 ≤ i)
    (h2 : i < m.nBodies) :
    (updateKinematicsCustom m w (some st) none none).X_lambda i
      = jcalcX m i st (w.X_lambda i) := by
  rw [ukc_eq_forUp]
  rw [forUp_get_inside (fun s => s.X_lambda) (ukcBody m st) (ukcBody_X_lambda_other m st)
    _ _ _ i h1 (by omega)]
  rw [ukcBody_X_lambda, upd_same]
  rw [forUp_get_outside (fun s => s.X_lambda) (ukcBody m st) (ukcBody_X_lambda_other m st)
    _ _ _ i (by omega)]

theorem ukc_X_lambda_outside (m : ModelS α) (w : WS α) (st : QS α) (i : Nat)
    (h : i = 0 ∨ m.nBodies ≤ i) :
    (updateKinematicsCustom m w (some st) none none).X_lambda i = w.X_lambda i := by
  rw [ukc_eq_forUp]
  exact forUp_get_outside (fun s => s.X_lambda) (ukcBody m st) (ukcBody_X_lambda_other m st)
    (m.nBodies - 1) 1 w i (by omega)

theorem ukc_X_base_outside (m : ModelS α) (w : WS α) (st : QS α) (i : Nat)
    (h : i = 0 ∨ m.nBodies ≤ i) :
    (updateKinematicsCustom m w (some st) none none).X_base i = w.X_base i := by
  rw [ukc_eq_forUp]
  exact forUp_get_outside (fun s => s.X_base) (ukcBody m st) (ukcBody_X_base_other m st)
    (m.nBodies - 1) 1 w i (by omega)

/-- `X_base[i]` after the loop, in terms of the final `X_lambda[i]` and the final `X_base[λ i]` -/
theorem ukc_X_base (m : ModelS α) (w : WS α) (st : QS α)
    (htree : ∀ i, 1 ≤ i → i < m.nBodies → m.lam i < i)
    (i : Nat) (h1 : 1 ≤ i) (h2 : i < m.nBodies) :
    let w' := updateKinematicsCustom m w (some st) none none
    w'.X_base i = if m.lam i ≠ 0 then w'.X_lambda i * w'.X_base (m.lam i) else w'.X_lambda i := by
  intro w'
  have hl : w'.X_lambda i = jcalcX m i st (w.X_lambda i) := ukc_X_lambda m w st i h1 h2
  have hb : w'.X_base (m.lam i) = (forUp (i - 1) 1 (ukcBody m st) w).X_base (m.lam i) :=
    forUp_get_prefix (fun s => s.X_base) (ukcBody m st) (ukcBody_X_base_other m st)
      _ _ _ i (m.lam i) h1 (by omega) (htree i h1 h2)
  have hli : (forUp (i - 1) 1 (ukcBody m st) w).X_lambda i = w.X_lambda i :=
    forUp_get_outside (fun s => s.X_lambda) (ukcBody m st) (ukcBody_X_lambda_other m st)
      _ _ _ i (by omega)
  rw [hl, hb]
  show (forUp (m.nBodies - 1) 1 (ukcBody m st) w).X_base i = _
  rw [forUp_get_inside (fun s => s.X_base) (ukcBody m st) (ukcBody_X_base_other m st)
    _ _ _ i h1 (by omega)]
  rw [ukcBody_X_base, upd_same, hli]

/-! ### rotation invariant -/

/-- what joint `i` needs from the state for its `X_J` to be a rotation + translation:
    `c² + s² = 1` for every (cos, sin) pair it reads, unit axis for revolute / helical,
    unit quaternion for spherical -/
def ModelS.jointUnit (m : ModelS α) (i : Nat) (st : QS α) : Prop :=
  let j := m.joint i
  let k := j.qIndex
  let ax := j.axes.headD SV.zero
  let cs : Nat → Prop := fun n => st.c n * st.c n + st.s n * st.s n = 1
  match j.jt with
  | .revoluteX | .revoluteY | .revoluteZ => cs k
  | .revolute | .helical => cs k ∧ ax.w.nrm2 = 1
  | .spherical => (getQuaternion m i st.q).nrm2 = 1
  | .eulerZYX | .eulerXYZ | .eulerYXZ | .eulerZXY => cs k ∧ cs (k+1) ∧ cs (k+2)
  | .custom =>
    match m.custom j.customIdx with
    | .revX => cs k
    | .eulerZYX => cs k ∧ cs (k+1) ∧ cs (k+2)
    | .cyl => cs k
  | _ => True

theorem eulerZYX_E_eq (c0 s0 c1 s1 c2 s2 : α) :
    eulerZYX_E c0 s0 c1 s1 c2 s2 = (Xrotx c2 s2).E * (Xroty c1 s1).E * (Xrotz c0 s0).E := by
  ext <;> simp only [alg, eulerZYX_E] <;> grind
theorem eulerXYZ_E_eq (c0 s0 c1 s1 c2 s2 : α) :
    eulerXYZ_E c0 s0 c1 s1 c2 s2 = (Xrotz c2 s2).E * (Xroty c1 s1).E * (Xrotx c0 s0).E := by
  ext <;> simp only [alg, eulerXYZ_E] <;> grind
theorem eulerYXZ_E_eq (c0 s0 c1 s1 c2 s2 : α) :
    eulerYXZ_E c0 s0 c1 s1 c2 s2 = (Xrotz c2 s2).E * (Xrotx c1 s1).E * (Xroty c0 s0).E := by
  ext <;> simp only [alg, eulerYXZ_E] <;> grind
theorem eulerZXY_E_eq (c0 s0 c1 s1 c2 s2 : α) :
    eulerZXY_E c0 s0 c1 s1 c2 s2 = (Xroty c2 s2).E * (Xrotx c1 s1).E * (Xrotz c0 s0).E := by
  ext <;> simp only [alg, eulerZXY_E] <;> grind

theorem eulerZYX_E_isRot (c0 s0 c1 s1 c2 s2 : α) (h0 : c0*c0 + s0*s0 = 1)
    (h1 : c1*c1 + s1*s1 = 1) (h2 : c2*c2 + s2*s2 = 1) : (eulerZYX_E c0 s0 c1 s1 c2 s2).IsRot := by
  rw [eulerZYX_E_eq]
  exact ((C16.Xrotx_isRot _ _ h2).mul (C16.Xroty_isRot _ _ h1)).mul (C16.Xrotz_isRot _ _ h0)
theorem eulerXYZ_E_isRot (c0 s0 c1 s1 c2 s2 : α) (h0 : c0*c0 + s0*s0 = 1)
    (h1 : c1*c1 + s1*s1 = 1) (h2 : c2*c2 + s2*s2 = 1) : (eulerXYZ_E c0 s0 c1 s1 c2 s2).IsRot := by
  rw [eulerXYZ_E_eq]
  exact ((C16.Xrotz_isRot _ _ h2).mul (C16.Xroty_isRot _ _ h1)).mul (C16.Xrotx_isRot _ _ h0)
theorem eulerYXZ_E_isRot (c0 s0 c1 s1 c2 s2 : α) (h0 : c0*c0 + s0*s0 = 1)
    (h1 : c1*c1 + s1*s1 = 1) (h2 : c2*c2 + s2*s2 = 1) : (eulerYXZ_E c0 s0 c1 s1 c2 s2).IsRot := by
  rw [eulerYXZ_E_eq]
  exact ((C16.Xrotz_isRot _ _ h2).mul (C16.Xrotx_isRot _ _ h1)).mul (C16.Xroty_isRot _ _ h0)
theorem eulerZXY_E_isRot (c0 s0 c1 s1 c2 s2 : α) (h0 : c0*c0 + s0*s0 = 1)
    (h1 : c1*c1 + s1*s1 = 1) (h2 : c2*c2 + s2*s2 = 1) : (eulerZXY_E c0 s0 c1 s1 c2 s2).IsRot := by
  rw [eulerZXY_E_eq]
  exact ((C16.Xroty_isRot _ _ h2).mul (C16.Xrotx_isRot _ _ h1)).mul (C16.Xrotz_isRot _ _ h0)

theorem XT.mul_E {β : Type} [CommRing β] (X Y : XT β) : (X * Y).E = X.E * Y.E := rfl

theorem Xtrans_E_isRot {β : Type} [CommRing β] (r : V3 β) : (Xtrans r).E.IsRot := M3.isRot_one

/-- the rotation part of the value written by `jcalc` is a rotation -/
theorem jcalcX_isRot (m : ModelS α) (i : Nat) (st : QS α) (old : XT α)
    (hj : (m.joint i).jt.hasJcalc = true) (hE : (m.XT_ i).E.IsRot) (hu : m.jointUnit i st) :
    (jcalcX m i st old).E.IsRot := by
  unfold ModelS.jointUnit at hu
  unfold jcalcX
  dsimp only at hu ⊢
  cases h : (m.joint i).jt <;> simp only [h, JT.hasJcalc, Bool.false_eq_true] at hj <;>
    simp only [h] at hu <;> simp only [XT.mul_E]
  case translationXYZ => exact hE
  case custom =>
    refine M3.IsRot.mul ?_ hE
    cases hc : m.custom (m.joint i).customIdx <;> simp only [hc] at hu <;> simp only [customXJ]
    · exact C16.Xrotx_isRot _ _ hu
    · exact eulerZYX_E_isRot _ _ _ _ _ _ hu.1 hu.2.1 hu.2.2
    · exact (C16.Xrotz_isRot _ _ hu).mul (Xtrans_E_isRot _)
  case revoluteX => exact (C16.Xrotx_isRot _ _ hu).mul hE
  case revoluteY => exact (C16.Xroty_isRot _ _ hu).mul hE
  case revoluteZ => exact (C16.Xrotz_isRot _ _ hu).mul hE
  case revolute =>
    simp only [jcalcXJ, h]; exact (C16.Xrot_isRot _ _ _ hu.1 hu.2).mul hE
  case prismatic =>
    simp only [jcalcXJ, h]; exact (Xtrans_E_isRot _).mul hE
  case helical =>
    simp only [jcalcXJ, h, XT.mul_E]
    exact ((C16.Xrot_isRot _ _ _ hu.1 hu.2).mul (Xtrans_E_isRot _)).mul hE
  case spherical => exact (C16.quat_toMatrix_isRot _ hu).mul hE
  case eulerZYX => exact (eulerZYX_E_isRot _ _ _ _ _ _ hu.1 hu.2.1 hu.2.2).mul hE
  case eulerXYZ => exact (eulerXYZ_E_isRot _ _ _ _ _ _ hu.1 hu.2.1 hu.2.2).mul hE
  case eulerYXZ => exact (eulerYXZ_E_isRot _ _ _ _ _ _ hu.1 hu.2.1 hu.2.2).mul hE
  case eulerZXY => exact (eulerZXY_E_isRot _ _ _ _ _ _ hu.1 hu.2.1 hu.2.2).mul hE

/-! ### rotations and their transposes acting on vectors -/

theorem M3.IsRot.mul_tmulVec {β : Type} [CommRing β] {E : M3 β} (h : E.IsRot) (p : V3 β) :
    E * E.tmulVec p = p := by
  obtain ⟨n0,n1,n2,o01,o02,o12,c00,c01,c02,c10,c11,c12,c20,c21,c22⟩ := h
  ext <;> simp only [alg] <;> grind

theorem M3.IsRot.tmulVec_mul {β : Type} [CommRing β] {E : M3 β} (h : E.IsRot) (p : V3 β) :
    E.tmulVec (E * p) = p := by
  obtain ⟨n0,n1,n2,o01,o02,o12,c00,c01,c02,c10,c11,c12,c20,c21,c22⟩ := h.transpose
  simp only [M3.transpose] at *
  ext <;> simp only [alg] <;> grind

end

end Rbdl
