import RbdlProofs.Lemmas.L07Relabel
/-
  C07, whole-model statement for `InverseDynamics`: a model with a 3-DoF joint (Euler order or
  `TranslationXYZ`) versus the model in which this joint is replaced by a chain of three 1-DoF
  joints through two massless bodies, all other bodies being in one-to-one correspondence.
-/
namespace Rbdl.L07
open Lean.Grind Rbdl Rbdl.Loops Rbdl.L01
set_option linter.unusedVariables false
set_option linter.unusedSimpArgs false
set_option linter.unusedSectionVars false

section
variable {α : Type} [Field α]

/-- a spatial vector is determined by its scalar products -/
theorem sv_dot_ext (a b : SV α) (h : ∀ s : SV α, s.dot a = s.dot b) : a = b := by
  have h1 := h ⟨⟨1, 0, 0⟩, V3.zero⟩
  have h2 := h ⟨⟨0, 1, 0⟩, V3.zero⟩
  have h3 := h ⟨⟨0, 0, 1⟩, V3.zero⟩
  have h4 := h ⟨V3.zero, ⟨1, 0, 0⟩⟩
  have h5 := h ⟨V3.zero, ⟨0, 1, 0⟩⟩
  have h6 := h ⟨V3.zero, ⟨0, 0, 1⟩⟩
  simp only [alg] at h1 h2 h3 h4 h5 h6
  ext <;> grind

/-- transposed action of a product of three transforms -/
theorem applyTranspose_mul3 (X1 X2 X3 : XT α)
    (e1 : ∀ v, (X3 * X2 * X1).apply v = X3.apply (X2.apply (X1.apply v))) (f : SV α) :
    (X3 * X2 * X1).applyTranspose f
      = X1.applyTranspose (X2.applyTranspose (X3.applyTranspose f)) := by
  apply sv_dot_ext
  intro s
  rw [← C16.apply_dot_eq_dot_applyTranspose, e1, C16.apply_dot_eq_dot_applyTranspose,
    C16.apply_dot_eq_dot_applyTranspose, C16.apply_dot_eq_dot_applyTranspose]

/-- Joint `iE` of `mE` is the composite of the chain `i₁ → i₂ → i₃` of 1-DoF joints of `mC` at the
    state `(st, qd, qdd)`: the conclusion of `euler_jcalc` / `trans_jcalc`, together with the facts
    about the chain transforms that the forward and backward recursions use. -/
structure Composite3 (mE : ModelS α) (iE : Nat) (mC : ModelS α) (i1 i2 i3 : Nat) (wE wC : WS α)
    (st : QS α) (qd : VecN α) : Prop where
  X : (jcalc mE wE iE st qd).X_lambda iE
    = (jcalc mC wC i3 st qd).X_lambda i3 * (jcalc mC wC i2 st qd).X_lambda i2
        * (jcalc mC wC i1 st qd).X_lambda i1
  S : (jcalc mE wE iE st qd).S3 iE
    = ⟨((jcalc mC wC i3 st qd).X_lambda i3).apply (((jcalc mC wC i2 st qd).X_lambda i2).apply
          ((jcalc mC wC i1 st qd).S i1)),
       ((jcalc mC wC i3 st qd).X_lambda i3).apply ((jcalc mC wC i2 st qd).S i2),
       (jcalc mC wC i3 st qd).S i3⟩
  vJ : (jcalc mE wE iE st qd).v_J iE
    = chainVJ ((jcalc mC wC i2 st qd).X_lambda i2) ((jcalc mC wC i3 st qd).X_lambda i3)
        ((jcalc mC wC i1 st qd).v_J i1) ((jcalc mC wC i2 st qd).v_J i2)
        ((jcalc mC wC i3 st qd).v_J i3)
  cJ : (jcalc mE wE iE st qd).c_J iE
    = chainCJ ((jcalc mC wC i2 st qd).X_lambda i2) ((jcalc mC wC i3 st qd).X_lambda i3)
        ((jcalc mC wC i1 st qd).v_J i1) ((jcalc mC wC i1 st qd).c_J i1)
        ((jcalc mC wC i2 st qd).v_J i2) ((jcalc mC wC i2 st qd).c_J i2)
        ((jcalc mC wC i3 st qd).v_J i3) ((jcalc mC wC i3 st qd).c_J i3)
  rot2 : ((jcalc mC wC i2 st qd).X_lambda i2).E.IsRot
  rot3 : ((jcalc mC wC i3 st qd).X_lambda i3).E.IsRot
  mul3 : ∀ v, ((jcalc mC wC i3 st qd).X_lambda i3 * (jcalc mC wC i2 st qd).X_lambda i2
        * (jcalc mC wC i1 st qd).X_lambda i1).apply v
    = ((jcalc mC wC i3 st qd).X_lambda i3).apply (((jcalc mC wC i2 st qd).X_lambda i2).apply
        (((jcalc mC wC i1 st qd).X_lambda i1).apply v))
  aE : mE.arity iE = .three
  a1 : mC.arity i1 = .one
  a2 : mC.arity i2 = .one
  a3 : mC.arity i3 = .one
  q1 : (mC.joint i1).qIndex = (mE.joint iE).qIndex
  q2 : (mC.joint i2).qIndex = (mE.joint iE).qIndex + 1
  q3 : (mC.joint i3).qIndex = (mE.joint iE).qIndex + 2

theorem composite3_of_euler {mE mC : ModelS α} {i i1 i2 i3 : Nat}
    (h : EulerChain mE i mC i1 i2 i3) (wE wC : WS α) (st : QS α) (qd : VecN α)
    (hE : FixedW mE wE i) (hw1 : FixedW mC wC i1) (hw2 : FixedW mC wC i2) (hw3 : FixedW mC wC i3)
    (hc1 : st.c ((mE.joint i).qIndex + 1) * st.c ((mE.joint i).qIndex + 1)
      + st.s ((mE.joint i).qIndex + 1) * st.s ((mE.joint i).qIndex + 1) = 1)
    (hc2 : st.c ((mE.joint i).qIndex + 2) * st.c ((mE.joint i).qIndex + 2)
      + st.s ((mE.joint i).qIndex + 2) * st.s ((mE.joint i).qIndex + 2) = 1) :
    Composite3 mE i mC i1 i2 i3 wE wC st qd := by
  obtain ⟨aE, a1, a2, a3⟩ := h.arity
  obtain ⟨r1, r2, r3⟩ := h.rev
  obtain ⟨e1, e2, e3, e4⟩ := euler_jcalc h wE wC wC wC st qd hE hw1 hw2 hw3
  obtain ⟨R2, z2⟩ : ((jcalc mC wC i2 st qd).X_lambda i2).E.IsRot ∧
      ((jcalc mC wC i2 st qd).X_lambda i2).r = V3.zero := by
    rw [(jcalc_rev mC wC i2 st qd r2 hw2).1, h.q2]
    exact rotJ_mul_id_isRot _ _ _ hc1 _ h.x2
  obtain ⟨R3, z3⟩ : ((jcalc mC wC i3 st qd).X_lambda i3).E.IsRot ∧
      ((jcalc mC wC i3 st qd).X_lambda i3).r = V3.zero := by
    rw [(jcalc_rev mC wC i3 st qd r3 hw3).1, h.q3]
    exact rotJ_mul_id_isRot _ _ _ hc2 _ h.x3
  exact ⟨e1, e2, e3, e4, R2, R3, mul_apply3_r0 _ _ _ z2 z3, aE, a1, a2, a3, h.q1, h.q2, h.q3⟩

theorem composite3_of_trans {mE mC : ModelS α} {i i1 i2 i3 : Nat}
    (h : TransChain mE i mC i1 i2 i3) (wE wC : WS α) (st : QS α) (qd : VecN α)
    (hE : FixedW mE wE i) (hw1 : FixedW mC wC i1) (hw2 : FixedW mC wC i2) (hw3 : FixedW mC wC i3)
    (hrot : (mE.XT_ i).E.IsRot) :
    Composite3 mE i mC i1 i2 i3 wE wC st qd := by
  obtain ⟨aE, a1, a2, a3⟩ := h.arity
  obtain ⟨e1, e2, e3, e4⟩ := trans_jcalc h wE wC wC wC st qd hE hw1 hw2 hw3
  have R1 : ((jcalc mC wC i1 st qd).X_lambda i1).E.IsRot := by
    rw [(jcalc_prism mC wC i1 st qd h.j1 hw1).1, h.x1]
    exact (Xtrans_isRot _).mul hrot
  have R2 : ((jcalc mC wC i2 st qd).X_lambda i2).E.IsRot := by
    rw [(jcalc_prism mC wC i2 st qd h.j2 hw2).1, h.x2, C16.mul_id]; exact Xtrans_isRot _
  have R3 : ((jcalc mC wC i3 st qd).X_lambda i3).E.IsRot := by
    rw [(jcalc_prism mC wC i3 st qd h.j3 hw3).1, h.x3, C16.mul_id]; exact Xtrans_isRot _
  exact ⟨e1, e2, e3, e4, R2, R3, mul_apply3_rot _ _ _ R1 R2, aE, a1, a2, a3, h.q1, h.q2, h.q3⟩

/-- `φ` embeds the bodies of `mE` into those of `mC` (inverse `ψ` off the two chain bodies): body
    `iE` goes to the last chain body `i₃`, whose ancestors `i₂`, `i₁` are massless and hang on the
    image of the parent of `iE`; everything else corresponds one to one. -/
structure ChainEmbed (mE mC : ModelS α) (φ ψ : Nat → Nat) (iE i1 i2 i3 : Nat) : Prop where
  nb : mC.nBodies = mE.nBodies + 2
  zero : φ 0 = 0
  bE : 1 ≤ iE ∧ iE < mE.nBodies
  b1 : 1 ≤ i1 ∧ i1 < mC.nBodies
  b2 : 1 ≤ i2 ∧ i2 < mC.nBodies
  phiE : φ iE = i3
  range : ∀ i, 1 ≤ i → i < mE.nBodies → 1 ≤ φ i ∧ φ i < mC.nBodies ∧ φ i ≠ i1 ∧ φ i ≠ i2
  left : ∀ i, i < mE.nBodies → ψ (φ i) = i
  right : ∀ j, 1 ≤ j → j < mC.nBodies → j ≠ i1 → j ≠ i2 → ψ j < mE.nBodies ∧ φ (ψ j) = j
  tree : ∀ i, 1 ≤ i → i < mE.nBodies → mE.lam i < i
  tree' : ∀ i, 1 ≤ i → i < mC.nBodies → mC.lam i < i
  lam : ∀ i, 1 ≤ i → i < mE.nBodies → i ≠ iE → mC.lam (φ i) = φ (mE.lam i)
  lam3 : mC.lam i3 = i2
  lam2 : mC.lam i2 = i1
  lam1 : mC.lam i1 = φ (mE.lam iE)
  rbi : ∀ i, 1 ≤ i → i < mE.nBodies → mC.rbi (φ i) = mE.rbi i
  virt : ∀ i, 1 ≤ i → i < mE.nBodies → (mC.body (φ i)).isVirtual = (mE.body i).isVirtual
  arity : ∀ i, 1 ≤ i → i < mE.nBodies → i ≠ iE → mC.arity (φ i) = mE.arity i
  arityOk : ∀ i, 1 ≤ i → i < mE.nBodies → mE.arity i ≠ .other
  m1 : (mC.body i1).isVirtual = true ∨ mC.rbi i1 = RBI.zero
  m2 : (mC.body i2).isVirtual = true ∨ mC.rbi i2 = RBI.zero
  grav : mC.gravity = mE.gravity

variable {mE mC : ModelS α} {φ ψ : Nat → Nat} {iE i1 i2 i3 : Nat}

theorem ChainEmbed.b3 (C : ChainEmbed mE mC φ ψ iE i1 i2 i3) : 1 ≤ i3 ∧ i3 < mC.nBodies := by
  have := C.range iE C.bE.1 C.bE.2
  rw [C.phiE] at this
  exact ⟨this.1, this.2.1⟩

theorem ChainEmbed.inj (C : ChainEmbed mE mC φ ψ iE i1 i2 i3) {i j : Nat} (hi : i < mE.nBodies)
    (hj : j < mE.nBodies) (h : φ i = φ j) : i = j := by
  rw [← C.left i hi, ← C.left j hj, h]

/-- the joint rows of the final workspaces agree along `φ` off the composite joint -/
structure RowsEqOff (mE mC : ModelS α) (φ : Nat → Nat) (iE : Nat) (qdd : VecN α) (W W' : WS α) :
    Prop where
  X : ∀ i, 1 ≤ i → i < mE.nBodies → i ≠ iE → W'.X_lambda (φ i) = W.X_lambda i
  vJ : ∀ i, 1 ≤ i → i < mE.nBodies → i ≠ iE → W'.v_J (φ i) = W.v_J i
  cJ : ∀ i, 1 ≤ i → i < mE.nBodies → i ≠ iE → W'.c_J (φ i) = W.c_J i
  sq : ∀ i, 1 ≤ i → i < mE.nBodies → i ≠ iE → W'.Sqdd mC (φ i) qdd = W.Sqdd mE i qdd
  cols : ∀ i, 1 ≤ i → i < mE.nBodies → i ≠ iE → W'.Scols mC (φ i) = W.Scols mE i

/-- the three chain steps of the closed forward recursion of `mC` -/
theorem chain_closed (C : ChainEmbed mE mC φ ψ iE i1 i2 i3) {st : QS α} {qd qdd : VecN α}
    {wC W' : WS α} (h' : FwdClosed mC st qd qdd wC W')
    (a1 : mC.arity i1 = .one) (a2 : mC.arity i2 = .one) (a3 : mC.arity i3 = .one) :
    (⟨XT.id, W'.v i3, W'.a i3⟩ : Kin α)
      = ⟨XT.id,
         (kstep (W'.X_lambda i3) (W'.v_J i3) (W'.c_J i3) (W'.Sqdd mC i3 qdd)
          (kstep (W'.X_lambda i2) (W'.v_J i2) (W'.c_J i2) (W'.Sqdd mC i2 qdd)
          (kstep (W'.X_lambda i1) (W'.v_J i1) (W'.c_J i1) (W'.Sqdd mC i1 qdd)
            ⟨XT.id, W'.v (mC.lam i1), W'.a (mC.lam i1)⟩))).v,
         (kstep (W'.X_lambda i3) (W'.v_J i3) (W'.c_J i3) (W'.Sqdd mC i3 qdd)
          (kstep (W'.X_lambda i2) (W'.v_J i2) (W'.c_J i2) (W'.Sqdd mC i2 qdd)
          (kstep (W'.X_lambda i1) (W'.v_J i1) (W'.c_J i1) (W'.Sqdd mC i1 qdd)
            ⟨XT.id, W'.v (mC.lam i1), W'.a (mC.lam i1)⟩))).a⟩ := by
  have n1 : mC.arity i1 ≠ .other := by rw [a1]; exact fun e => nomatch e
  have n2 : mC.arity i2 ≠ .other := by rw [a2]; exact fun e => nomatch e
  have n3 : mC.arity i3 ≠ .other := by rw [a3]; exact fun e => nomatch e
  have b3 := C.b3
  simp only [kstep]
  rw [h'.v i3 b3.1 b3.2, h'.a i3 b3.1 b3.2 n3, h'.c i3 b3.1 b3.2, h'.v i3 b3.1 b3.2, C.lam3,
    h'.v i2 C.b2.1 C.b2.2, h'.a i2 C.b2.1 C.b2.2 n2, h'.c i2 C.b2.1 C.b2.2,
    h'.v i2 C.b2.1 C.b2.2, C.lam2,
    h'.v i1 C.b1.1 C.b1.2, h'.a i1 C.b1.1 C.b1.2 n1, h'.c i1 C.b1.1 C.b1.2,
    h'.v i1 C.b1.1 C.b1.2]

theorem Sqdd_closed {m : ModelS α} {st : QS α} {qd qdd : VecN α} {w W : WS α}
    (h : FwdClosed m st qd qdd w W) (i : Nat) (h1 : 1 ≤ i) (h2 : i < m.nBodies) :
    W.Sqdd m i qdd = (jcalc m w i st qd).Sqdd m i qdd :=
  Sqdd_congr m W (jcalc m w i st qd) i qdd (fun _ => h.jS i h1 h2) (fun _ => h.jS3 i h1 h2)
    (fun hc => h.jcS i h1 h2 hc)

/-- the composite joint in the closed forms: the last chain body of `mC` moves like body `iE` -/
theorem composite_kin (C : ChainEmbed mE mC φ ψ iE i1 i2 i3) {st : QS α} {qd qdd : VecN α}
    {wE wC W W' : WS α} (h : FwdClosed mE st qd qdd wE W) (h' : FwdClosed mC st qd qdd wC W')
    (K : Composite3 mE iE mC i1 i2 i3 wE wC st qd)
    (hv : W'.v (mC.lam i1) = W.v (mE.lam iE)) (ha : W'.a (mC.lam i1) = W.a (mE.lam iE)) :
    W'.v i3 = W.v iE ∧ W'.a i3 = W.a iE := by
  have b3 := C.b3
  have key := chain_closed C h' K.a1 K.a2 K.a3
  rw [h'.jX i1 C.b1.1 C.b1.2, h'.jX i2 C.b2.1 C.b2.2, h'.jX i3 b3.1 b3.2,
    h'.jvJ i1 C.b1.1 C.b1.2, h'.jvJ i2 C.b2.1 C.b2.2, h'.jvJ i3 b3.1 b3.2,
    h'.jcJ i1 C.b1.1 C.b1.2, h'.jcJ i2 C.b2.1 C.b2.2, h'.jcJ i3 b3.1 b3.2,
    Sqdd_closed h' i1 C.b1.1 C.b1.2, Sqdd_closed h' i2 C.b2.1 C.b2.2, Sqdd_closed h' i3 b3.1 b3.2,
    kstep3 _ _ _ K.rot2 K.rot3 K.mul3, ← K.X, ← K.vJ, ← K.cJ, hv, ha] at key
  have nE : mE.arity iE ≠ .other := by rw [K.aE]; exact fun e => nomatch e
  have hsq : ((jcalc mC wC i3 st qd).X_lambda i3).apply (((jcalc mC wC i2 st qd).X_lambda i2).apply
        ((jcalc mC wC i1 st qd).Sqdd mC i1 qdd))
      + ((jcalc mC wC i3 st qd).X_lambda i3).apply ((jcalc mC wC i2 st qd).Sqdd mC i2 qdd)
      + (jcalc mC wC i3 st qd).Sqdd mC i3 qdd = W.Sqdd mE iE qdd := by
    rw [Sqdd_closed h iE C.bE.1 C.bE.2, Sqdd_three _ _ _ _ K.aE, Sqdd_one _ _ _ _ K.a1,
      Sqdd_one _ _ _ _ K.a2, Sqdd_one _ _ _ _ K.a3, K.S, K.q1, K.q2, K.q3]
    simp only [M63.mulV3, apply_smul]
  rw [hsq] at key
  have eE : (⟨XT.id, W.v iE, W.a iE⟩ : Kin α)
      = ⟨XT.id, (kstep ((jcalc mE wE iE st qd).X_lambda iE) ((jcalc mE wE iE st qd).v_J iE)
          ((jcalc mE wE iE st qd).c_J iE) (W.Sqdd mE iE qdd)
          ⟨XT.id, W.v (mE.lam iE), W.a (mE.lam iE)⟩).v,
         (kstep ((jcalc mE wE iE st qd).X_lambda iE) ((jcalc mE wE iE st qd).v_J iE)
          ((jcalc mE wE iE st qd).c_J iE) (W.Sqdd mE iE qdd)
          ⟨XT.id, W.v (mE.lam iE), W.a (mE.lam iE)⟩).a⟩ := by
    simp only [kstep]
    rw [h.v iE C.bE.1 C.bE.2, h.a iE C.bE.1 C.bE.2 nE, h.c iE C.bE.1 C.bE.2, h.v iE C.bE.1 C.bE.2,
      h.jX iE C.bE.1 C.bE.2, h.jvJ iE C.bE.1 C.bE.2, h.jcJ iE C.bE.1 C.bE.2]
  rw [← eE] at key
  exact ⟨congrArg Kin.v key, congrArg Kin.a key⟩

/-- forward pass: corresponding bodies have the same velocity and acceleration -/
theorem embed_forward (C : ChainEmbed mE mC φ ψ iE i1 i2 i3) {st : QS α} {qd qdd : VecN α}
    {wE wC W W' : WS α} (h : FwdClosed mE st qd qdd wE W) (h' : FwdClosed mC st qd qdd wC W')
    (K : Composite3 mE iE mC i1 i2 i3 wE wC st qd) (hr : RowsEqOff mE mC φ iE qdd W W') :
    ∀ i, i < mE.nBodies → W'.v (φ i) = W.v i ∧ W'.a (φ i) = W.a i := by
  intro i
  induction i using Nat.strongRecOn with
  | _ i ih =>
    intro h2
    by_cases h1 : 1 ≤ i
    · have hl := C.tree i h1 h2
      obtain ⟨iv, ia⟩ := ih (mE.lam i) hl (by omega)
      by_cases hE : i = iE
      · subst hE
        rw [C.phiE]
        exact composite_kin C h h' K (by rw [C.lam1]; exact iv) (by rw [C.lam1]; exact ia)
      · obtain ⟨s1, s2, _, _⟩ := C.range i h1 h2
        have hv : W'.v (φ i) = W.v i := by
          rw [h'.v _ s1 s2, h.v i h1 h2, hr.X i h1 h2 hE, C.lam i h1 h2 hE, iv, hr.vJ i h1 h2 hE]
        have hcc : W'.c (φ i) = W.c i := by
          rw [h'.c _ s1 s2, h.c i h1 h2, hr.cJ i h1 h2 hE, hv, hr.vJ i h1 h2 hE]
        refine ⟨hv, ?_⟩
        rw [h'.a _ s1 s2 (by rw [C.arity i h1 h2 hE]; exact C.arityOk i h1 h2),
          h.a i h1 h2 (C.arityOk i h1 h2), hr.X i h1 h2 hE, C.lam i h1 h2 hE, ia, hcc,
          hr.sq i h1 h2 hE]
    · have : i = 0 := by omega
      subst this
      rw [C.zero]
      refine ⟨by rw [h.v0, h'.v0], ?_⟩
      rw [h.a0, h'.a0]; unfold spatialGravityNeg; rw [C.grav]

/-- body forces of corresponding bodies (no external forces) -/
theorem embed_force (C : ChainEmbed mE mC φ ψ iE i1 i2 i3) {st : QS α} {qd qdd : VecN α}
    {wE wC W W' : WS α} (h : FwdClosed mE st qd qdd wE W) (h' : FwdClosed mC st qd qdd wC W')
    (hf : ForceClosed mE none wE W) (hf' : ForceClosed mC none wC W')
    (K : Composite3 mE iE mC i1 i2 i3 wE wC st qd) (hr : RowsEqOff mE mC φ iE qdd W W') :
    (∀ i, 1 ≤ i → i < mE.nBodies → W'.f (φ i) = W.f i) ∧ W'.f i1 = SV.zero ∧ W'.f i2 = SV.zero := by
  refine ⟨fun i h1 h2 => ?_, ?_, ?_⟩
  · obtain ⟨hv, ha⟩ := embed_forward C h h' K hr i h2
    obtain ⟨s1, s2, _, _⟩ := C.range i h1 h2
    rw [hf'.f _ s1 s2, hf.f i h1 h2]
    unfold netForce bodyForce
    simp only [C.virt i h1 h2, C.rbi i h1 h2, hv, ha]
  · rw [hf'.f _ C.b1.1 C.b1.2]; exact bodyForce_massless _ _ _ C.m1
  · rw [hf'.f _ C.b2.1 C.b2.2]; exact bodyForce_massless _ _ _ C.m2

/-- the child of `φ i` that carries the subtree of the child `c` of `i` -/
def topOf (φ : Nat → Nat) (iE i1 : Nat) (c : Nat) : Nat := if c = iE then i1 else φ c

theorem embed_i1_ne_i2 (C : ChainEmbed mE mC φ ψ iE i1 i2 i3) : i1 ≠ i2 := by
  have := C.tree' i2 C.b2.1 C.b2.2
  rw [C.lam2] at this
  omega

theorem embed_i3_ne (C : ChainEmbed mE mC φ ψ iE i1 i2 i3) : i3 ≠ i1 ∧ i3 ≠ i2 := by
  have := C.range iE C.bE.1 C.bE.2
  rw [C.phiE] at this
  exact ⟨this.2.2.1, this.2.2.2⟩

/-- the only child of `i₁` is `i₂`, the only child of `i₂` is `i₃` -/
theorem embed_chain_children (C : ChainEmbed mE mC φ ψ iE i1 i2 i3) :
    childrenOf mC.lam (mC.nBodies - 1) i1 = [i2] ∧
    childrenOf mC.lam (mC.nBodies - 1) i2 = [i3] := by
  have b3 := C.b3
  have h12 := embed_i1_ne_i2 C
  obtain ⟨h31, h32⟩ := embed_i3_ne C
  have nd : ∀ j, (childrenOf mC.lam (mC.nBodies - 1) j).Nodup := fun j =>
    List.Nodup.sublist List.filter_sublist List.nodup_range'
  have single : ∀ j c, (∀ x, x ∈ childrenOf mC.lam (mC.nBodies - 1) j ↔ x = c) →
      childrenOf mC.lam (mC.nBodies - 1) j = [c] := by
    intro j c hx
    have hp : (childrenOf mC.lam (mC.nBodies - 1) j).Perm [c] := by
      rw [List.perm_ext_iff_of_nodup (nd j) (by simp)]
      intro x; rw [hx x]; simp
    exact List.perm_singleton.mp hp
  have other : ∀ x, 1 ≤ x → x < mC.nBodies → x ≠ i1 → x ≠ i2 → x ≠ i3 →
      mC.lam x ≠ i1 ∧ mC.lam x ≠ i2 := by
    intro x x1 x2 n1 n2 n3
    obtain ⟨p1, p2⟩ := C.right x x1 x2 n1 n2
    have hx0 : ψ x ≠ 0 := by intro e; rw [e, C.zero] at p2; omega
    have hxE : ψ x ≠ iE := by intro e; rw [e, C.phiE] at p2; exact n3 p2.symm
    have hl := C.lam (ψ x) (by omega) p1 hxE
    rw [p2] at hl
    rw [hl]
    have hlt := C.tree (ψ x) (by omega) p1
    by_cases hz : mE.lam (ψ x) = 0
    · rw [hz, C.zero]; exact ⟨by have := C.b1.1; omega, by have := C.b2.1; omega⟩
    · have := C.range (mE.lam (ψ x)) (by omega) (by omega)
      exact ⟨this.2.2.1, this.2.2.2⟩
  constructor
  · apply single
    intro x
    rw [mem_childrenOf]
    constructor
    · rintro ⟨⟨x1, x2⟩, hl⟩
      by_cases e2 : x = i2
      · exact e2
      · exfalso
        by_cases e1 : x = i1
        · have := C.tree' i1 C.b1.1 C.b1.2; rw [← e1, hl] at this; omega
        · by_cases e3 : x = i3
          · rw [e3, C.lam3] at hl; exact h12 hl.symm
          · exact (other x x1 (by omega) e1 e2 e3).1 hl
    · rintro rfl; exact ⟨⟨C.b2.1, by have := C.b2.2; omega⟩, C.lam2⟩
  · apply single
    intro x
    rw [mem_childrenOf]
    constructor
    · rintro ⟨⟨x1, x2⟩, hl⟩
      by_cases e3 : x = i3
      · exact e3
      · exfalso
        by_cases e2 : x = i2
        · have := C.tree' i2 C.b2.1 C.b2.2; rw [← e2, hl] at this; omega
        · by_cases e1 : x = i1
          · have hl1 := C.lam1
            rw [← e1, hl] at hl1
            by_cases hz : mE.lam iE = 0
            · rw [hz, C.zero] at hl1; have := C.b2.1; omega
            · have := C.range (mE.lam iE) (by omega) (by have := C.tree iE C.bE.1 C.bE.2; have := C.bE.2; omega)
              exact this.2.2.2 hl1.symm
          · exact (other x x1 (by omega) e1 e2 e3).2 hl
    · rintro rfl; exact ⟨⟨b3.1, by omega⟩, C.lam3⟩


/-- the children of `φ i` in `mC` are the tops of the chains of the children of `i` -/
theorem embed_children (C : ChainEmbed mE mC φ ψ iE i1 i2 i3) (i : Nat) (hi : i < mE.nBodies) :
    (childrenOf mC.lam (mC.nBodies - 1) (φ i)).Perm
      ((childrenOf mE.lam (mE.nBodies - 1) i).map (topOf φ iE i1)) := by
  have b3 := C.b3
  have h12 := embed_i1_ne_i2 C
  obtain ⟨h31, h32⟩ := embed_i3_ne C
  have hφi : φ i ≠ i1 ∧ φ i ≠ i2 := by
    by_cases hz : i = 0
    · rw [hz, C.zero]; exact ⟨by have := C.b1.1; omega, by have := C.b2.1; omega⟩
    · have := C.range i (by omega) hi; exact ⟨this.2.2.1, this.2.2.2⟩
  have nd1 : (childrenOf mC.lam (mC.nBodies - 1) (φ i)).Nodup :=
    List.Nodup.sublist List.filter_sublist List.nodup_range'
  have nd0 : (childrenOf mE.lam (mE.nBodies - 1) i).Nodup :=
    List.Nodup.sublist List.filter_sublist List.nodup_range'
  have nd2 : ((childrenOf mE.lam (mE.nBodies - 1) i).map (topOf φ iE i1)).Nodup := by
    unfold List.Nodup
    rw [List.pairwise_map]
    refine List.Pairwise.imp_of_mem (fun {a b} ha hb hab e => hab ?_) nd0
    rw [mem_childrenOf] at ha hb
    unfold topOf at e
    have ra := C.range a ha.1.1 (by omega)
    have rb := C.range b hb.1.1 (by omega)
    by_cases ea : a = iE <;> by_cases eb : b = iE
    · rw [ea, eb]
    · rw [if_pos ea, if_neg eb] at e; exact absurd e.symm rb.2.2.1
    · rw [if_neg ea, if_pos eb] at e; exact absurd e ra.2.2.1
    · rw [if_neg ea, if_neg eb] at e; exact C.inj (by omega) (by omega) e
  rw [List.perm_ext_iff_of_nodup nd1 nd2]
  intro c'
  rw [mem_childrenOf, List.mem_map]
  constructor
  · rintro ⟨⟨c1, c2⟩, hl⟩
    have c2' : c' < mC.nBodies := by omega
    by_cases e1 : c' = i1
    · refine ⟨iE, ?_, by unfold topOf; rw [if_pos rfl, e1]⟩
      rw [mem_childrenOf]
      refine ⟨⟨C.bE.1, by have := C.bE.2; omega⟩, ?_⟩
      rw [e1, C.lam1] at hl
      exact C.inj (by have := C.tree iE C.bE.1 C.bE.2; have := C.bE.2; omega) hi hl
    · by_cases e2 : c' = i2
      · rw [e2, C.lam2] at hl; exact absurd hl.symm hφi.1
      · by_cases e3 : c' = i3
        · rw [e3, C.lam3] at hl; exact absurd hl.symm hφi.2
        · obtain ⟨p1, p2⟩ := C.right c' c1 c2' e1 e2
          have hx0 : ψ c' ≠ 0 := by intro e; rw [e, C.zero] at p2; omega
          have hxE : ψ c' ≠ iE := by intro e; rw [e, C.phiE] at p2; exact e3 p2.symm
          refine ⟨ψ c', ?_, by unfold topOf; rw [if_neg hxE, p2]⟩
          rw [mem_childrenOf]
          refine ⟨⟨by omega, by omega⟩, ?_⟩
          have hl2 := C.lam (ψ c') (by omega) p1 hxE
          rw [p2, hl] at hl2
          have hlt := C.tree (ψ c') (by omega) p1
          exact (C.inj hi (by omega) hl2).symm
  · rintro ⟨c, hc, rfl⟩
    rw [mem_childrenOf] at hc
    obtain ⟨⟨c1, c2⟩, hl⟩ := hc
    unfold topOf
    by_cases e : c = iE
    · rw [if_pos e]
      exact ⟨⟨C.b1.1, by have := C.b1.2; omega⟩, by rw [C.lam1, ← e, hl]⟩
    · rw [if_neg e]
      obtain ⟨s1, s2, _, _⟩ := C.range c c1 (by omega)
      exact ⟨⟨s1, by omega⟩, by rw [C.lam c c1 (by omega) e, hl]⟩

/-- backward pass: the accumulated forces of corresponding bodies agree -/
theorem embed_Ftot (C : ChainEmbed mE mC φ ψ iE i1 i2 i3) {st : QS α} {qd qdd : VecN α}
    {wE wC W W' : WS α} (h : FwdClosed mE st qd qdd wE W) (h' : FwdClosed mC st qd qdd wC W')
    (K : Composite3 mE iE mC i1 i2 i3 wE wC st qd) (hr : RowsEqOff mE mC φ iE qdd W W')
    (hF : ∀ i, 1 ≤ i → i < mE.nBodies → W'.f (φ i) = W.f i)
    (hF1 : W'.f i1 = SV.zero) (hF2 : W'.f i2 = SV.zero) :
    ∀ i, 1 ≤ i → i < mE.nBodies → rneaFtot mC W' (φ i) = rneaFtot mE W i := by
  have b3 := C.b3
  obtain ⟨ch1, ch2⟩ := embed_chain_children C
  have key : ∀ k i, 1 ≤ i → i < mE.nBodies → mE.nBodies - i ≤ k →
      rneaFtot mC W' (φ i) = rneaFtot mE W i := by
    intro k
    induction k with
    | zero => intro i h1 h2 hk; omega
    | succ k ih =>
      intro i h1 h2 hk
      obtain ⟨s1, s2, _, _⟩ := C.range i h1 h2
      rw [rneaFtot_rec mC W' C.tree' (φ i) (by omega), rneaFtot_rec mE W C.tree i (by omega),
        hF i h1 h2, lsum_perm L12.sv_addLaws _ (embed_children C i h2), lsum_map_idx]
      congr 1
      refine lsum_congr _ _ _ (fun c hc => ?_)
      rw [mem_childrenOf] at hc
      obtain ⟨⟨c1, c2⟩, hl⟩ := hc
      have hlt := C.tree c c1 (by omega)
      have ihc := ih c c1 (by omega) (by omega)
      unfold topOf
      by_cases e : c = iE
      · rw [if_pos e]
        subst e
        rw [C.phiE] at ihc
        rw [rneaFtot_single mC W' C.tree' i1 i2 (by have := C.b1.1; omega) hF1 ch1,
          rneaFtot_single mC W' C.tree' i2 i3 (by have := C.b2.1; omega) hF2 ch2, ihc,
          h'.jX i1 C.b1.1 C.b1.2, h'.jX i2 C.b2.1 C.b2.2, h'.jX i3 b3.1 b3.2,
          ← applyTranspose_mul3 _ _ _ K.mul3, ← K.X, ← h.jX c C.bE.1 C.bE.2]
      · rw [if_neg e, hr.X c c1 (by omega) e, ihc]
  intro i h1 h2
  exact key (mE.nBodies - i) i h1 h2 (Nat.le_refl _)


/-- **whole-model statement.** `InverseDynamics` on the model with the 3-DoF joint and on the model
    with the chain of three 1-DoF joints through massless bodies (same coordinates, same state,
    no external forces): corresponding bodies get the same `v`, `a`, `f` and accumulated force, and
    every generalized force is the same — those of the other joints at their (possibly relabelled)
    coordinates, those of the 3-DoF joint at the three chain coordinates. -/
theorem embed_inverseDynamics (C : ChainEmbed mE mC φ ψ iE i1 i2 i3)
    (hwf : mE.WF) (hwf' : mC.WF) (hc : CustomInj mE) (hc' : CustomInj mC)
    (wE wC : WS α) (st : QS α) (qd qdd tau tau' : VecN α)
    (K : Composite3 mE iE mC i1 i2 i3 wE wC st qd)
    (hrow : ∀ i, 1 ≤ i → i < mE.nBodies → i ≠ iE →
      jrow mC wC (φ i) st qd qdd = jrow mE wE i st qd qdd) :
    (∀ i, 1 ≤ i → i < mE.nBodies →
      (idForward mC wC st qd qdd none).v (φ i) = (idForward mE wE st qd qdd none).v i ∧
      (idForward mC wC st qd qdd none).a (φ i) = (idForward mE wE st qd qdd none).a i ∧
      (idForward mC wC st qd qdd none).f (φ i) = (idForward mE wE st qd qdd none).f i ∧
      rneaFtot mC (idForward mC wC st qd qdd none) (φ i)
        = rneaFtot mE (idForward mE wE st qd qdd none) i) ∧
    (∀ i d, 1 ≤ i → i < mE.nBodies → i ≠ iE → d < (mE.joint i).dof →
      (inverseDynamics mC wC st qd qdd tau' none).2 ((mC.joint (φ i)).qIndex + d)
        = (inverseDynamics mE wE st qd qdd tau none).2 ((mE.joint i).qIndex + d)) ∧
    (∀ d, d < 3 →
      (inverseDynamics mC wC st qd qdd tau' none).2 ((mE.joint iE).qIndex + d)
        = (inverseDynamics mE wE st qd qdd tau none).2 ((mE.joint iE).qIndex + d)) := by
  obtain ⟨h, hf, _⟩ := idForward_closed mE hc hwf.lam_lt wE st qd qdd none
  obtain ⟨h', hf', _⟩ := idForward_closed mC hc' hwf'.lam_lt wC st qd qdd none
  have b3 := C.b3
  have hr : RowsEqOff mE mC φ iE qdd (idForward mE wE st qd qdd none)
      (idForward mC wC st qd qdd none) := by
    have key : ∀ i, 1 ≤ i → i < mE.nBodies → i ≠ iE → _ := fun i h1 h2 hE => by
      obtain ⟨s1, s2, _, _⟩ := C.range i h1 h2
      exact (jrow_closed h' (φ i) s1 s2).trans ((hrow i h1 h2 hE).trans (jrow_closed h i h1 h2).symm)
    constructor
    · intro i h1 h2 hE; exact congrArg (·.1) (key i h1 h2 hE)
    · intro i h1 h2 hE; exact congrArg (·.2.1) (key i h1 h2 hE)
    · intro i h1 h2 hE; exact congrArg (·.2.2.1) (key i h1 h2 hE)
    · intro i h1 h2 hE; exact congrArg (·.2.2.2.2) (key i h1 h2 hE)
    · intro i h1 h2 hE; exact congrArg (·.2.2.2.1) (key i h1 h2 hE)
  obtain ⟨hF, hF1, hF2⟩ := embed_force C h h' hf hf' K hr
  have hFt := embed_Ftot C h h' K hr hF hF1 hF2
  have harity' : ∀ j, 1 ≤ j → j < mC.nBodies → mC.arity j ≠ .other := by
    intro j j1 j2
    by_cases e1 : j = i1
    · rw [e1, K.a1]; exact fun e => nomatch e
    · by_cases e2 : j = i2
      · rw [e2, K.a2]; exact fun e => nomatch e
      · obtain ⟨p1, p2⟩ := C.right j j1 j2 e1 e2
        have hx0 : ψ j ≠ 0 := by intro e; rw [e, C.zero] at p2; omega
        by_cases e3 : ψ j = iE
        · rw [← p2, e3, C.phiE, K.a3]; exact fun e => nomatch e
        · rw [← p2, C.arity (ψ j) (by omega) p1 e3]; exact C.arityOk (ψ j) (by omega) p1
  have hlen := scols_length_closed mE hwf st qd qdd wE _ h C.arityOk
  have hlen' := scols_length_closed mC hwf' st qd qdd wC _ h' harity'
  have hdisj := owns_disjoint_of_WF mE _ hwf hlen
  have hdisj' := owns_disjoint_of_WF mC _ hwf' hlen'
  refine ⟨fun i h1 h2 => ?_, fun i d h1 h2 hE hd => ?_, ?_⟩
  · obtain ⟨hv, ha⟩ := embed_forward C h h' K hr i h2
    exact ⟨hv, ha, hF i h1 h2, hFt i h1 h2⟩
  · obtain ⟨s1, s2, _, _⟩ := C.range i h1 h2
    rw [inverseDynamics_eq, inverseDynamics_eq]
    have ho : owns mE (idForward mE wE st qd qdd none) i ((mE.joint i).qIndex + d) := by
      unfold owns; rw [hlen i h1 h2]; omega
    have ho' : owns mC (idForward mC wC st qd qdd none) (φ i) ((mC.joint (φ i)).qIndex + d) := by
      unfold owns; rw [hr.cols i h1 h2 hE, hlen i h1 h2]; omega
    rw [(C01.rnea_backward_closed mC hwf'.lam_lt _ tau' hdisj').2.2.1 (φ i) _ s1 s2 ho',
      (C01.rnea_backward_closed mE hwf.lam_lt _ tau hdisj).2.2.1 i _ h1 h2 ho,
      hr.cols i h1 h2 hE, hFt i h1 h2]
    congr 2
    omega
  · obtain ⟨ch1, ch2⟩ := embed_chain_children C
    have kC := chain_tau mC hwf'.lam_lt _ tau' hdisj' i1 i2 i3 C.b1 C.b2 b3 K.a1 K.a2 K.a3 hF1 hF2
      ch1 ch2
    have kE := C01.rnea_tau_three mE hwf.lam_lt _ tau hdisj iE C.bE.1 C.bE.2 K.aE
    rw [← inverseDynamics_eq, K.q1, K.q2, K.q3, h'.jX i2 C.b2.1 C.b2.2, h'.jX i3 b3.1 b3.2,
      h'.jS i1 C.b1.1 C.b1.2, h'.jS i2 C.b2.1 C.b2.2, h'.jS i3 b3.1 b3.2, ← K.S,
      ← h.jS3 iE C.bE.1 C.bE.2, ← C.phiE, hFt iE C.bE.1 C.bE.2] at kC
    rw [← inverseDynamics_eq] at kE
    have e := kC.trans kE.symm
    intro d hd
    obtain rfl | rfl | rfl : d = 0 ∨ d = 1 ∨ d = 2 := by omega
    · exact congrArg V3.x e
    · exact congrArg V3.y e
    · exact congrArg V3.z e


end
end Rbdl.L07
