import RbdlProofs.Lemmas.L01CapFixFinal
import RbdlProofs.Lemmas.L07All
/-
  Capstones for the dynamics / whole-body routines, common layer.

  * `ne_eq_spec`, `ne_eq_specF`   `NonlinearEffects` = first-principles Newton–Euler forces at `q̈ = 0`.
-/
namespace Rbdl.LDynCap
open Lean.Grind Rbdl Rbdl.Spec Rbdl.L06 Rbdl.L01 Rbdl.Loops Rbdl.L01Cap
set_option linter.unusedSimpArgs false
set_option linter.unusedVariables false
set_option linter.unusedSectionVars false

section
variable {α : Type} [Field α] [DecidableEq α]

/-- `mJointUpdateOrder` (without the leading 0) enumerates the movable bodies: validated by the C++ at
    run time, needed by every routine that runs `jcalc` in that order -/
def OrderOK (m : ModelS α) : Prop :=
  (m.updateOrder.drop 1).Perm (List.range' 1 (m.nBodies - 1))

theorem wsj_of_wsfixed {m : ModelS α} (hm : ModelOK m) {w : WS α} (hw : WSFixed m w) : WSJ m w :=
  L07.wsj_of_fixed m w (fun i h1 h2 => jointOK_of_decl m i (hm.jc i h1 h2) (hm.decl i h1 h2))
    (fun i h1 h2 => hw.2 i h1 h2)

/-- `NonlinearEffects` = `InverseDynamics` at `q̈ = 0` on every `WSFixed` workspace -/
theorem ne_eq_id0 {m : ModelS α} (hm : ModelOK m) (hord : OrderOK m) (w : WS α)
    (hw : WSFixed m w) (st : QS α) (qd tau : VecN α) (fext : Option (Nat → SV α)) (x : Nat)
    (hx : x < m.dofCount) :
    (nonlinearEffects m w st qd tau fext).2 x
      = (inverseDynamics m w st qd (fun _ => 0) tau fext).2 x :=
  C01.nonlinear_effects_eq_rnea0 m hm.wf hm.cinj hord w w (wsj_of_wsfixed hm hw)
    (wsj_of_wsfixed hm hw) st qd tau tau fext (fun _ => ⟨hw.1, hw.1⟩) x hx

/-! ### the link between the code-level model and the specification, common to `Refines` and
    `RefinesF` -/

/-- virtual bodies (the massless intermediate bodies of emulated multi-DoF joints) carry the zero
    spatial inertia: `inverseDynamics` skips the body force of a virtual body, the other routines do
    not (C02 has the machine-checked counterexample) -/
def VirtZero (m : ModelS α) : Prop :=
  ∀ i, 1 ≤ i → i < m.nBodies → (m.body i).isVirtual = true → m.rbi i = RBI.zero

/-- what `Refines` (with `off = 1`, `nodeOf = id`) and `RefinesF` have in common: every node that
    carries a body moves with a movable body of the model (`bodyOf`) at a constant offset; the pose jets
    of the movable bodies satisfy the forward-kinematics recursion of the model; `I[i]` is the sum of
    the inertias of the nodes that move with body `i`. -/
structure Link (m : ModelS α) (M : SModel α) (off : Nat → XT α) (nodeOf : Nat → Nat) : Prop where
  gravity : M.gravity = m.gravity
  nv : M.nv = m.dofCount
  ne : M.nodes ≠ []
  base : (M.nodes.getD 0 nd0).hasBody = false
  body_lt : ∀ n, n < M.nodes.length → (M.nodes.getD n nd0).hasBody = true → bodyOf M n < m.nBodies
  offrot : ∀ n, n < M.nodes.length → (M.nodes.getD n nd0).hasBody = true → (off n).E.IsRot
  symm : ∀ n, n < M.nodes.length → (M.nodes.getD n nd0).hasBody = true →
    (M.nodes.getD n nd0).inertia.transpose = (M.nodes.getD n nd0).inertia
  fk : ∀ (st : QS α) (qd qdd : VecN α),
    specPose M (stateOf st qd qdd) (nodeOf 0) = Pose.id ∧
    ∀ i, 1 ≤ i → i < m.nBodies →
      specPose M (stateOf st qd qdd) (nodeOf i)
        = (specPose M (stateOf st qd qdd) (nodeOf (m.lam i))).comp
            ((framePoseJet m i).comp (jointPoseJet m i st qd qdd))
  att : ∀ (S : State α) n, n < M.nodes.length → (M.nodes.getD n nd0).hasBody = true →
    specPose M S n = (specPose M S (nodeOf (bodyOf M n))).comp (constPose (off n))
  rbi : ∀ i, 1 ≤ i → i < m.nBodies →
    m.rbi i = lsum RBI.zero (nodeRBI M off i) (List.range M.nodes.length)
  virt : ∀ i, 1 ≤ i → i < m.nBodies → (m.body i).isVirtual = true → ∀ x : SV α,
    m.rbi i * x = SV.zero

/-- an inertia that annihilates every motion vector is zero -/
theorem rbi_eq_zero_of_mul (I : RBI α) (h : ∀ x : SV α, I * x = SV.zero) : I = RBI.zero := by
  have h1 := h ⟨⟨1, 0, 0⟩, V3.zero⟩
  have h2 := h ⟨⟨0, 1, 0⟩, V3.zero⟩
  have h3 := h ⟨⟨0, 0, 1⟩, V3.zero⟩
  have h4 := h ⟨V3.zero, ⟨1, 0, 0⟩⟩
  have h5 := h ⟨V3.zero, ⟨0, 1, 0⟩⟩
  simp only [alg, SV.ext_iff, V3.ext_iff] at h1 h2 h3 h4 h5
  obtain ⟨m, ⟨hx, hy, hz⟩, a, b, c, d, e, f⟩ := I
  simp only [RBI.zero, V3.zero, RBI.mk.injEq, V3.mk.injEq]
  simp only at h1 h2 h3 h4 h5
  refine ⟨?_, ⟨?_, ?_, ?_⟩, ?_, ?_, ?_, ?_, ?_, ?_⟩ <;> grind

theorem virtZero_of_link {m : ModelS α} {M : SModel α} {off : Nat → XT α} {nodeOf : Nat → Nat}
    (hL : Link m M off nodeOf) : VirtZero m :=
  fun i i1 i2 hv => rbi_eq_zero_of_mul _ (hL.virt i i1 i2 hv)

theorem getD_lt {β : Type} (l : List β) (n : Nat) (d : β) (h : n < l.length) :
    l[n]? = some (l.getD n d) := by
  rw [List.getD_eq_getElem?_getD, List.getElem?_eq_getElem h]; rfl

theorem virtZero_of_refinesF {m : ModelS α} {M : SModel α} {off : Nat → XT α} {nodeOf : Nat → Nat}
    (hR : RefinesF m M off nodeOf) : VirtZero m :=
  fun i i1 i2 hv => rbi_eq_zero_of_mul _ (hR.virt i i1 i2 hv)

theorem link_of_refinesF {m : ModelS α} {M : SModel α} {off : Nat → XT α} {nodeOf : Nat → Nat}
    (hm : ModelOK m) (hR : RefinesF m M off nodeOf) : Link m M off nodeOf := by
  obtain ⟨b, hb, hb1, hb2, hb3, hb4⟩ := hR.base
  have hne : M.nodes ≠ [] := by intro h; rw [h] at hb; cases hb
  have hb0 : M.nodes.getD 0 nd0 = b := getD_of_some hb
  have hpos : ∀ n, (M.nodes.getD n nd0).hasBody = true → n ≠ 0 := by
    intro n hh e; subst e; rw [hb0, hb1] at hh; cases hh
  refine ⟨hR.gravity, hR.nv, hne, by rw [hb0]; exact hb1, ?_, ?_, ?_, ?_, ?_, hR.rbi, hR.virt⟩
  · intro n hn hh
    exact (hR.node n _ (by have := hpos n hh; omega) (getD_lt _ n nd0 hn)).body_lt
  · intro n hn hh
    exact (hR.node n _ (by have := hpos n hh; omega) (getD_lt _ n nd0 hn)).offrot
  · intro n hn hh
    exact (hR.node n _ (by have := hpos n hh; omega) (getD_lt _ n nd0 hn)).symm hh
  · intro st qd qdd
    exact specPoseF_rec hm hR st qd qdd
  · intro S n hn hh
    exact specPose_off hR S n _ (getD_lt _ n nd0 hn)

theorem applyTransposeRBI_id' (I : RBI α) : (XT.id : XT α).applyTransposeRBI I = I := by alg_ext

theorem link_of_refines {m : ModelS α} {M : SModel α} (hm : ModelOK m) (hR : Refines m M)
    (hv : VirtZero m) : Link m M (fun _ => XT.id) (fun i => i) := by
  have hne := nodes_ne_nil hm hR
  have hnb := hm.wf.nb_pos
  have h0 : (M.nodes.getD 0 nd0).hasBody = false :=
    (hR.base _ (getD_lt _ 0 nd0 (by rw [hR.len]; omega))).1
  have hpos : ∀ n, (M.nodes.getD n nd0).hasBody = true → n ≠ 0 := by
    intro n hh e; subst e; rw [h0] at hh; cases hh
  have hN : ∀ n, 1 ≤ n → n < M.nodes.length → NodeRefines m n (M.nodes.getD n nd0) :=
    fun n n1 hn => hR.node n _ n1 (getD_lt _ n nd0 hn)
  have hbo : ∀ n, 1 ≤ n → n < M.nodes.length → bodyOf M n = n :=
    fun n n1 hn => (hN n n1 hn).movableId
  refine ⟨hR.gravity, hR.nv, hne, h0, ?_, ?_, ?_, ?_, ?_, ?_, ?_⟩
  · intro n hn hh
    rw [hbo n (by have := hpos n hh; omega) hn, ← hR.len]; exact hn
  · intro n hn hh; exact M3.isRot_one
  · intro n hn hh
    exact (hN n (by have := hpos n hh; omega) hn).symm hh
  · intro st qd qdd
    exact specPose_rec hm hR st qd qdd
  · intro S n hn hh
    rw [hbo n (by have := hpos n hh; omega) hn, constPose_id, pose_comp_id]
  · intro i i1 i2
    have hil : i < M.nodes.length := by rw [hR.len]; exact i2
    rw [L03.Core.lsum_single L12.rbi_addLaws _ _ i List.nodup_range (List.mem_range.2 hil)]
    · unfold nodeRBI
      have hNi := hN i i1 hil
      by_cases hh : (M.nodes.getD i nd0).hasBody = true
      · rw [if_pos ⟨hNi.movableId, hh⟩, applyTransposeRBI_id', hNi.rbi hh]
      · rw [if_neg (fun h => hh h.2)]
        refine hv i i1 i2 ?_
        have := hNi.virt
        cases hb : (m.body i).isVirtual
        · rw [hb] at this; exact absurd this hh
        · rfl
    · intro c hc hci
      rw [List.mem_range] at hc
      unfold nodeRBI
      by_cases hc0 : c = 0
      · subst hc0
        rw [if_neg (fun h => by rw [h0] at h; cases h.2)]
      · rw [if_neg (fun h => hci ((hN c (by omega) hc).movableId.symm.trans h.1))]
  · intro i i1 i2 hvi x
    rw [hv i i1 i2 hvi]
    exact L03.Core.rbi_zero_mul x

end
end Rbdl.LDynCap
