import RbdlProofs.Lemmas.AbaLocal
/-
  C02, part 2 (phases 2 and 3): the third loop of `forwardDynamics` (accelerations) and the
  lockstep of its second loop with `rneaBackward`.
-/
namespace Rbdl.L02
open Lean.Grind Rbdl
set_option linter.unusedSectionVars false

section
variable {α : Type} [Field α] [DecidableEq α]

/-! ### phase 3: the accelerations -/

/-- all fields except `a` agree -/
def sameButA (s w : WS α) : Prop := { s with a := w.a } = w

theorem sameButA_fields {s w : WS α} (h : sameButA s w) :
    s.X_lambda = w.X_lambda ∧ s.c = w.c ∧ s.S = w.S ∧ s.S3 = w.S3
      ∧ (∀ i, stored s i = stored w i) := by
  unfold sameButA at h
  have e1 := congrArg WS.X_lambda h
  have e2 := congrArg WS.c h
  have e3 := congrArg WS.S h
  have e4 := congrArg WS.S3 h
  have e5 : ∀ i, stored s i = stored w i := fun i => by
    have := congrArg (fun x => stored x i) h; exact this
  exact ⟨e1, e2, e3, e4, e5⟩

/-- invariant of the third loop of `forwardDynamics`; `wB` = workspace it starts from -/
structure P3 (m : ModelS α) (wB : WS α) (i : Nat) (sq : WS α × VecN α) : Prop where
  same : sameButA sq.1 wB
  a0 : sq.1.a 0 = wB.a 0
  acc : ∀ j, 1 ≤ j → j < i →
    sq.1.a j = accelOf m wB j ((wB.X_lambda j).apply (sq.1.a (m.lam j)) + wB.c j)
  acq : ∀ j, 1 ≤ j → j < i →
    sq.1.a j = (wB.X_lambda j).apply (sq.1.a (m.lam j)) + wB.c j + wB.Sqdd m j sq.2

theorem P3_step (m : ModelS α) (wB : WS α) (i : Nat) (sq : WS α × VecN α) (h1 : 1 ≤ i)
    (hlams : ∀ j, 1 ≤ j → j ≤ i → m.lam j < j)
    (hars : ∀ j, 1 ≤ j → j ≤ i → m.arity j = .one ∨ m.arity j = .three)
    (hq : ∀ j, 1 ≤ j → j < i → (m.joint j).qIndex + (m.joint j).dof ≤ (m.joint i).qIndex)
    (h : P3 m wB i sq) : P3 m wB (i + 1) (fdB3 m i sq) := by
  obtain ⟨fX, fc, fS, fS3, fst⟩ := sameButA_fields h.same
  have har := hars i h1 (Nat.le_refl _)
  have hlam : m.lam i < i := hlams i h1 (Nat.le_refl _)
  have hlami : m.lam i ≠ i := by omega
  have hnc : ∀ j, 1 ≤ j → j ≤ i → m.arity j ≠ .custom := by
    intro j hj1 hj2
    rcases hars j hj1 hj2 with h | h <;> rw [h] <;> decide
  have hao : ∀ j, j ≠ i → (fdB3 m i sq).1.a j = sq.1.a j := by
    intro j hj
    show (abaAccel m sq.1 i sq.2).1.a j = _
    rw [abaAccel_a m sq.1 i sq.2 har, upd_other _ _ _ _ hj]
  constructor
  · show { (abaAccel m sq.1 i sq.2).1 with a := wB.a } = wB
    rw [abaAccel_frame]; exact h.same
  · rw [hao 0 (by omega)]; exact h.a0
  · intro j hj1 hj
    by_cases hji : j = i
    · rw [hji, hao _ hlami]
      show (abaAccel m sq.1 i sq.2).1.a i = _
      rw [abaAccel_a m sq.1 i sq.2 har, upd_same, fX, fc]
      exact accelOf_congr m sq.1 wB i (fst i) (by rw [fS]) (by rw [fS3]) _
    · have hlj : m.lam j ≠ i := by have := hlams j hj1 (by omega); omega
      rw [hao j hji, hao _ hlj]; exact h.acc j hj1 (by omega)
  · intro j hj1 hj
    by_cases hji : j = i
    · rw [hji, hao _ hlami]
      show (abaAccel m sq.1 i sq.2).1.a i = _
      rw [abaAccel_Sqdd m sq.1 i sq.2 har, fX, fc]
      rw [Sqdd_congr m sq.1 wB i _ (by rw [fS]) (by rw [fS3]) (hnc i h1 (Nat.le_refl _))]
      rfl
    · have hj' : j < i := by omega
      have hlj : m.lam j ≠ i := by have := hlams j hj1 (by omega); omega
      rw [hao j hji, hao _ hlj]
      have : wB.Sqdd m j (fdB3 m i sq).2 = wB.Sqdd m j sq.2 := by
        apply Sqdd_congr_q m wB j _ _ (hars j hj1 (by omega))
        intro t ht
        show (abaAccel m sq.1 i sq.2).2 _ = _
        apply abaAccel_qdd_other m sq.1 i sq.2 _ har
        intro t' ht'
        have := hq j hj1 hj'
        omega
      rw [this]; exact h.acq j hj1 hj'

/-! ### phase 2: second loop of `forwardDynamics` and `rneaBackward` in lockstep -/

/-- lockstep relation after `k` iterations (bodies `> n - k` done); `a` = the accelerations,
    `w1` / `r1` = the two workspaces before the loops -/
structure R2 (m : ModelS α) (tau : VecN α) (w1 r1 : WS α) (a : Nat → SV α) (k : Nat)
    (s : WS α) (rt : WS α × VecN α) : Prop where
  fr_s : s.c = w1.c ∧ s.X_lambda = w1.X_lambda ∧ s.S = w1.S ∧ s.S3 = w1.S3
  fr_r : rt.1.X_lambda = r1.X_lambda ∧ rt.1.S = r1.S ∧ rt.1.S3 = r1.S3
  frc : ∀ j, 1 ≤ j → j < m.nBodies → rt.1.f j = s.IA j * a j + s.pA j
  sym : ∀ j, 1 ≤ j → j < m.nBodies → SymSM (s.IA j)
  tau_ok : ∀ j, m.nBodies - 1 - k < j → j < m.nBodies → ∀ t, t < (m.joint j).dof →
    rt.2 ((m.joint j).qIndex + t) = tau ((m.joint j).qIndex + t)

theorem phase2 (m : ModelS α) (tau t0 : VecN α) (w1 r1 : WS α) (a : Nat → SV α)
    (htree : ∀ j, 1 ≤ j → j < m.nBodies → m.lam j < j)
    (hars : ∀ j, 1 ≤ j → j < m.nBodies → m.arity j = .one ∨ m.arity j = .three)
    (hqidx : ∀ i j, 1 ≤ i → i < j → j < m.nBodies →
      (m.joint i).qIndex + (m.joint i).dof ≤ (m.joint j).qIndex)
    (hxl : ∀ j, 1 ≤ j → j < m.nBodies → r1.X_lambda j = w1.X_lambda j)
    (hsS : ∀ j, 1 ≤ j → j < m.nBodies → r1.S j = w1.S j)
    (hsS3 : ∀ j, 1 ≤ j → j < m.nBodies → r1.S3 j = w1.S3 j)
    (hfrc : ∀ j, 1 ≤ j → j < m.nBodies → r1.f j = w1.IA j * a j + w1.pA j)
    (hsym : ∀ j, 1 ≤ j → j < m.nBodies → SymSM (w1.IA j))
    (ha : ∀ j, 1 ≤ j → j < m.nBodies →
      a j = accelOf m (forDown (m.nBodies - 1) (m.nBodies - 1) (fdB2 m tau) w1) j
        ((w1.X_lambda j).apply (a (m.lam j)) + w1.c j))
    (hpiv : ∀ j, 1 ≤ j → j < m.nBodies →
      pivotOk m (forDown (m.nBodies - 1) (m.nBodies - 1) (fdB2 m tau) w1) j) :
    ∀ k, k ≤ m.nBodies - 1 →
      R2 m tau w1 r1 a k (forDown k (m.nBodies - 1) (fdB2 m tau) w1)
        (forDown k (m.nBodies - 1) (idBB m) (r1, t0)) := by
  intro k
  induction k with
  | zero =>
    intro _
    exact ⟨⟨rfl, rfl, rfl, rfl⟩, ⟨rfl, rfl, rfl⟩, hfrc, hsym, fun j h1 h2 => by omega⟩
  | succ k ih =>
    intro hk
    have h := ih (by omega)
    rw [forDown_succ_right, forDown_succ_right]
    generalize hs : forDown k (m.nBodies - 1) (fdB2 m tau) w1 = s at h ⊢
    generalize hrt : forDown k (m.nBodies - 1) (idBB m) (r1, t0) = rt at h ⊢
    generalize hi : m.nBodies - 1 - k = i at h ⊢
    have hi1 : 1 ≤ i := by omega
    have hi2 : i < m.nBodies := by omega
    have har := hars i hi1 hi2
    have hlam : m.lam i < i := htree i hi1 hi2
    obtain ⟨sc, sX, sS, sS3⟩ := h.fr_s
    obtain ⟨rX, rS, rS3⟩ := h.fr_r
    obtain ⟨bc, bX, bS, bS3⟩ := fdB2_frame m tau i s
    -- the stored joint-space quantities of body `i` are final after this iteration
    have hfrozen : stored (forDown (m.nBodies - 1) (m.nBodies - 1) (fdB2 m tau) w1) i
        = stored (fdB2 m tau i s) i := by
      have := forDown_get_frozen (fun s => stored s) (fdB2 m tau) (fdB2_stored_other m tau)
        (m.nBodies - 1) (m.nBodies - 1) k w1 (by omega) (Nat.le_refl _)
      rw [hi, hs] at this; exact this
    have hBS : (forDown (m.nBodies - 1) (m.nBodies - 1) (fdB2 m tau) w1).S = w1.S :=
      forDown_frame (fun s => s.S) (fdB2 m tau) (fun i s => (fdB2_frame m tau i s).2.2.1) _ _ _
    have hBS3 : (forDown (m.nBodies - 1) (m.nBodies - 1) (fdB2 m tau) w1).S3 = w1.S3 :=
      forDown_frame (fun s => s.S3) (fdB2 m tau) (fun i s => (fdB2_frame m tau i s).2.2.2) _ _ _
    have hai : a i = accelOf m (fdB2 m tau i s) i ((s.X_lambda i).apply (a (m.lam i)) + s.c i) := by
      rw [ha i hi1 hi2, sX, sc]
      exact accelOf_congr m _ _ i hfrozen (by rw [hBS, bS, sS]) (by rw [hBS3, bS3, sS3]) _
    have hpi : pivotOk m (fdB2 m tau i s) i :=
      (pivotOk_congr m _ _ i hfrozen (by rw [hBS3, bS3, sS3])).mp (hpiv i hi1 hi2)
    have hforce : s.IA i * a i + s.pA i
        = IaOf m s tau i * (s.X_lambda i).apply (a (m.lam i)) + paOf m s tau i := by
      have := local_force m tau i s ((s.X_lambda i).apply (a (m.lam i))) har
      rw [← hai] at this; exact this
    have htau : jointEq m s i (s.IA i * a i + s.pA i) tau := by
      have := local_tau m tau i s ((s.X_lambda i).apply (a (m.lam i)) + s.c i) har
        (h.sym i hi1 hi2) hpi
      rw [← hai] at this; exact this
    have hno : m.arity i ≠ .other := by rcases har with h | h <;> rw [h] <;> decide
    have hXr : rt.1.X_lambda i = s.X_lambda i := by rw [rX, sX]; exact hxl i hi1 hi2
    obtain ⟨iX, iS, iS3⟩ := idBB_frame m i rt
    constructor
    · exact ⟨bc.trans sc, bX.trans sX, bS.trans sS, bS3.trans sS3⟩
    · exact ⟨iX.trans rX, iS.trans rS, iS3.trans rS3⟩
    · -- frc
      intro j hj1 hj2
      rw [idBB_f, fdB2_IA, fdB2_pA]
      by_cases hl : m.lam i = 0
      · have hc : ¬ (m.lam i ≠ 0 ∧ m.arity i ≠ .other) := fun h => h.1 hl
        have hc' : ¬ (m.lam i ≠ 0) := fun h => h hl
        rw [if_neg hc, if_neg hc, if_neg hc']
        exact h.frc j hj1 hj2
      · have hc : m.lam i ≠ 0 ∧ m.arity i ≠ .other := ⟨hl, hno⟩
        have hc' : m.lam i ≠ 0 := hl
        rw [if_pos hc, if_pos hc, if_pos hc']
        by_cases hjl : j = m.lam i
        · rw [hjl, upd_same, upd_same, upd_same, hXr, h.frc i hi1 hi2, hforce,
            h.frc (m.lam i) (by omega) (by omega), applyTranspose_add, congr_apply]
          exact force_acc _ _ _ _ _
        · rw [upd_other _ _ _ _ hjl, upd_other _ _ _ _ hjl, upd_other _ _ _ _ hjl]
          exact h.frc j hj1 hj2
    · -- sym
      intro j hj1 hj2
      rw [fdB2_IA]
      by_cases hl : m.lam i = 0
      · have hc : ¬ (m.lam i ≠ 0 ∧ m.arity i ≠ .other) := fun h => h.1 hl
        rw [if_neg hc]; exact h.sym j hj1 hj2
      · have hc : m.lam i ≠ 0 ∧ m.arity i ≠ .other := ⟨hl, hno⟩
        rw [if_pos hc]
        by_cases hjl : j = m.lam i
        · rw [hjl, upd_same]
          exact symSM_add (h.sym _ (by omega) (by omega))
            (symSM_congr _ (local_sym m tau i s har (h.sym i hi1 hi2)))
        · rw [upd_other _ _ _ _ hjl]; exact h.sym j hj1 hj2
    · -- tau_ok
      intro j hj1 hj2 t ht
      rw [idBB_snd]
      by_cases hji : j = i
      · rw [hji] at ht ⊢
        apply tauWrite_same m rt.1 i (rt.1.f i) rt.2 tau har _ t ht
        rw [h.frc i hi1 hi2]
        refine (jointEq_congr m rt.1 s i ?_ ?_ _ _).mpr htau
        · rw [rS, sS]; exact hsS i hi1 hi2
        · rw [rS3, sS3]; exact hsS3 i hi1 hi2
      · have hij : i < j := by omega
        rw [tauWrite_other m rt.1 i (rt.1.f i) rt.2 _ har]
        · exact h.tau_ok j (by omega) hj2 t ht
        · intro t' ht'
          have := hqidx i j hi1 hij hj2
          omega

end
end Rbdl.L02
