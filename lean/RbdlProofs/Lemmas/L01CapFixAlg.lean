import RbdlProofs.Lemmas.L01CapThm
import RbdlProofs.Lemmas.L03Core
/-
  C01 capstone, Stage D (fixed bodies), algebra: a body rigidly attached to a moving frame by a constant
  transform `X` contributes to the Newton–Euler balance as the spatial inertia `Xᵀ I X` in that frame;
  constant pose jets; sums over fibres.
-/
namespace Rbdl.L01Cap
open Lean.Grind Rbdl Rbdl.Spec Rbdl.L06 Rbdl.L01 Rbdl.Loops
set_option linter.unusedSimpArgs false
set_option linter.unusedVariables false
set_option linter.unusedSectionVars false

section
variable {α : Type} [Field α]

/-! ### transport of the body force -/

theorem applyTranspose_crossf (X : XT α) (h : X.E.IsRot) (v f : SV α) :
    X.applyTranspose (crossf (X.apply v) f) = crossf v (X.applyTranspose f) := by
  rot_ext h

theorem applyTranspose_add' (X : XT α) (a b : SV α) :
    X.applyTranspose (a + b) = X.applyTranspose a + X.applyTranspose b := by alg_ext

/-- the net force of a body attached by the constant transform `X`, paired with a velocity of the
    attached frame, is that of the inertia `Xᵀ I X` in the carrying frame -/
theorem force_transport (X : XT α) (h : X.E.IsRot) (I : RBI α) (u a v : SV α) :
    (X.apply u).dot (I * X.apply a + crossf (X.apply v) (I * X.apply v))
      = u.dot (X.applyTransposeRBI I * a + crossf v (X.applyTransposeRBI I * v)) := by
  rw [C16.apply_dot_eq_dot_applyTranspose, applyTranspose_add', applyTranspose_crossf X h,
    L03.Core.aTR_mul X h, L03.Core.aTR_mul X h]

/-- the map `J ↦ J a + v ×* J v` is additive -/
theorem rbiForce_add (A B : RBI α) (a v : SV α) :
    (A + B) * a + crossf v ((A + B) * v) = (A * a + crossf v (A * v)) + (B * a + crossf v (B * v)) := by
  alg_ext
theorem rbiForce_zero (a v : SV α) :
    (RBI.zero : RBI α) * a + crossf v ((RBI.zero : RBI α) * v) = SV.zero := by alg_ext

theorem crossf_zero (v : SV α) : crossf v SV.zero = SV.zero := by alg_ext

/-! ### constant pose jets -/

/-- the constant pose jet of the frame `SpatialTransform(E, r)` -/
def constPose (X : XT α) : Pose (D2 α) := framePose D2.const X.E X.r

theorem xtOfKin_constPose (X : XT α) : xtOfKin (NodeKin.ofPose (constPose X)) = X := rfl

theorem bf_constPose (X : XT α) (h : X.E.IsRot) :
    BodyForm (NodeKin.ofPose (constPose X)) SV.zero SV.zero :=
  bodyForm_const (k := NodeKin.ofPose (constPose X)) h.transpose rfl rfl rfl rfl

theorem constPose_id : constPose (XT.id : XT α) = Pose.id := by
  ext <;> simp only [constPose, framePose, Pose.id, alg] <;> rfl

theorem pose_comp_id {β : Type} [CommRing β] (A : Pose β) : A.comp Pose.id = A := by
  ext <;> simp only [Pose.comp, Pose.id, alg] <;> grind

theorem pose_comp_assoc {β : Type} [CommRing β] (A B C : Pose β) :
    (A.comp B).comp C = A.comp (B.comp C) := by
  ext <;> simp only [Pose.comp, alg] <;> grind

/-- `constPose (X * Y) = constPose Y ∘ constPose X` (`X * Y` applies `Y` first) -/
theorem constPose_mul (X Y : XT α) :
    constPose (X * Y) = (constPose Y).comp (constPose X) := by
  ext <;> simp only [constPose, framePose, Pose.comp] <;> jet06_simp <;> grind

theorem sv_step_fix (X : XT α) (V : SV α) : X.apply V + SV.zero = X.apply V := by alg_ext
theorem sv_step_fix_a (X : XT α) (A V : SV α) :
    X.apply A + SV.zero + crossm (X.apply V + SV.zero) SV.zero = X.apply A := by alg_ext
theorem apply_sub (X : XT α) (a b : SV α) : X.apply (a - b) = X.apply a - X.apply b := by alg_ext

/-- a frame attached by a constant transform to a moving frame: body form -/
theorem bf_attached {k : NodeKin α} {V A : SV α} (h : BodyForm k V A) (X : XT α)
    (hX : X.E.IsRot) :
    BodyForm (compKin k (NodeKin.ofPose (constPose X))) (X.apply V) (X.apply A) := by
  have := h.comp (bf_constPose X hX)
  rw [xtOfKin_constPose] at this
  exact this.congr (sv_step_fix _ _) (sv_step_fix_a _ _ _)

/-! ### sums over fibres -/

theorem lsum_add (f g : Nat → α) (l : List Nat) :
    lsum 0 (fun i => f i + g i) l = lsum 0 f l + lsum 0 g l := by
  induction l with
  | nil => simp only [lsum]; grind
  | cons c l ih => simp only [lsum]; rw [ih]; grind

theorem lsum_ite_eq (a : α) (k : Nat) (l : List Nat) (hnd : l.Nodup) (hk : k ∈ l) :
    lsum 0 (fun i => if k = i then a else 0) l = a := by
  induction l with
  | nil => cases hk
  | cons c l ih =>
    rw [List.nodup_cons] at hnd
    simp only [lsum]
    by_cases h : k = c
    · subst h
      rw [if_pos rfl]
      have : lsum 0 (fun i => if k = i then a else 0) l = 0 := by
        have hc := lsum_congr (z := (0 : α)) (fun i => if k = i then a else 0) (fun _ => 0) l
          (fun i hi => if_neg (fun (e : k = i) => hnd.1 (e ▸ hi)))
        rw [hc, lsum_zero]
      rw [this]; grind
    · rw [if_neg h]
      have hk' : k ∈ l := by
        rcases List.mem_cons.1 hk with e | e
        · exact absurd e h
        · exact e
      rw [ih hnd.2 hk']; grind

/-- regrouping a sum by a classifying map `b` with values below `N` -/
theorem lsum_fiber (f : Nat → α) (b : Nat → Nat) (N : Nat) (l : List Nat)
    (hb : ∀ n ∈ l, b n < N) :
    lsum 0 f l = lsum 0 (fun i => lsum 0 (fun n => if b n = i then f n else 0) l) (List.range N) := by
  induction l with
  | nil =>
    simp only [lsum]
    exact (lsum_zero (α := α) (List.range N)).symm
  | cons c l ih =>
    simp only [lsum]
    rw [lsum_add, ← ih (fun n hn => hb n (List.mem_cons_of_mem _ hn)),
      lsum_ite_eq (f c) (b c) (List.range N) List.nodup_range
        (List.mem_range.2 (hb c (List.mem_cons_self ..)))]

theorem lsum_single (a : α) (k : Nat) (l : List Nat) (hnd : l.Nodup) (hk : k ∈ l) :
    lsum 0 (fun n => if n = k then a else 0) l = a := by
  have : (fun n => if n = k then a else 0) = (fun n => if k = n then a else 0) := by
    funext n; by_cases h : n = k
    · rw [if_pos h, if_pos h.symm]
    · rw [if_neg h, if_neg (fun e => h e.symm)]
  rw [this]
  exact lsum_ite_eq a k l hnd hk

end
end Rbdl.L01Cap
