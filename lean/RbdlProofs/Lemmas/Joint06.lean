import RbdlProofs.Lemmas.Motion06
/-
  C06, joint level: the pose jet of every joint kind is in body form with `V = v_J`,
  `A = S q̈ + c_J` (scalar statements, no model / workspace yet).
-/
namespace Rbdl.L06
open Lean.Grind Rbdl Rbdl.Spec
set_option linter.unusedSimpArgs false
set_option linter.unusedVariables false
set_option linter.unusedSectionVars false

section
variable {α : Type} [Field α]

/-- close the five `BodyForm` goals of an explicit pose jet component by component -/
macro "bf06_grind" : tactic =>
  `(tactic| (refine ⟨?_, ?_, ?_, ?_, ?_⟩
             · constructor <;> jet06_simp <;> grind
             all_goals (ext <;> jet06_simp <;> grind)))

/-! ### 1-DoF joints -/

theorem bf_rotX (c s qd qdd : α) (hcs : c * c + s * s = 1) :
    BodyForm (NodeKin.ofPose ⟨rotX (D2.cosJ c s qd qdd) (D2.sinJ c s qd qdd), V3.zero⟩)
      ⟨⟨qd, 0, 0⟩, V3.zero⟩ ⟨⟨qdd, 0, 0⟩, V3.zero⟩ := by bf06_grind

theorem bf_rotY (c s qd qdd : α) (hcs : c * c + s * s = 1) :
    BodyForm (NodeKin.ofPose ⟨rotY (D2.cosJ c s qd qdd) (D2.sinJ c s qd qdd), V3.zero⟩)
      ⟨⟨0, qd, 0⟩, V3.zero⟩ ⟨⟨0, qdd, 0⟩, V3.zero⟩ := by bf06_grind

theorem bf_rotZ (c s qd qdd : α) (hcs : c * c + s * s = 1) :
    BodyForm (NodeKin.ofPose ⟨rotZ (D2.cosJ c s qd qdd) (D2.sinJ c s qd qdd), V3.zero⟩)
      ⟨⟨0, 0, qd⟩, V3.zero⟩ ⟨⟨0, 0, qdd⟩, V3.zero⟩ := by bf06_grind

/-- revolute joint about the unit axis `a` -/
theorem bf_revolute (c s qd qdd : α) (a : V3 α) (hcs : c * c + s * s = 1) (ha : a.nrm2 = 1) :
    BodyForm (NodeKin.ofPose
        ⟨rodrigues (D2.cosJ c s qd qdd) (D2.sinJ c s qd qdd) (constV a), V3.zero⟩)
      ⟨qd * a, V3.zero⟩ ⟨qdd * a, V3.zero⟩ := by
  simp only [alg] at ha
  bf06_grind

/-- prismatic joint along `a` (any axis) -/
theorem bf_prismatic (q qd qdd : α) (a : V3 α) :
    BodyForm (NodeKin.ofPose ⟨M3.one, (⟨q, qd, qdd⟩ : D2 α) * constV a⟩)
      ⟨V3.zero, qd * a⟩ ⟨V3.zero, qdd * a⟩ := by bf06_grind

/-- helical joint: rotation about the unit axis `a`, translation `q b` -/
theorem bf_helical (c s q qd qdd : α) (a b : V3 α) (hcs : c * c + s * s = 1)
    (ha : a.nrm2 = 1) :
    BodyForm (NodeKin.ofPose
        ⟨rodrigues (D2.cosJ c s qd qdd) (D2.sinJ c s qd qdd) (constV a),
         (⟨q, qd, qdd⟩ : D2 α) * constV b⟩)
      ⟨qd * a, qd * ((Xrot c s a).E * b)⟩
      ⟨qdd * a, qdd * ((Xrot c s a).E * b) + (-qd * qd) * a.cross ((Xrot c s a).E * b)⟩ := by
  simp only [alg] at ha
  bf06_grind

/-- cylindrical joint about / along z -/
theorem bf_cylZ (c s qd qdd z zd zdd : α) (hcs : c * c + s * s = 1) :
    BodyForm (NodeKin.ofPose
        ⟨rotZ (D2.cosJ c s qd qdd) (D2.sinJ c s qd qdd), ⟨0, 0, (⟨z, zd, zdd⟩ : D2 α)⟩⟩)
      ⟨⟨0, 0, qd⟩, ⟨0, 0, zd⟩⟩ ⟨⟨0, 0, qdd⟩, ⟨0, 0, zdd⟩⟩ := by bf06_grind

/-- three translations -/
theorem bf_translationXYZ (x xd xdd y yd ydd z zd zdd : α) :
    BodyForm (NodeKin.ofPose
        ⟨M3.one, ⟨(⟨x, xd, xdd⟩ : D2 α), (⟨y, yd, ydd⟩ : D2 α), (⟨z, zd, zdd⟩ : D2 α)⟩⟩)
      ⟨V3.zero, ⟨xd, yd, zd⟩⟩ ⟨V3.zero, ⟨xdd, ydd, zdd⟩⟩ := by bf06_grind


/-! ### Euler-angle joints -/

theorem bf_eulerZYX (c0 s0 c1 s1 c2 s2 qd0 qd1 qd2 qdd0 qdd1 qdd2 : α)
    (h0 : c0 * c0 + s0 * s0 = 1) (h1 : c1 * c1 + s1 * s1 = 1) (h2 : c2 * c2 + s2 * s2 = 1) :
    BodyForm (NodeKin.ofPose
        ⟨rotZ (D2.cosJ c0 s0 qd0 qdd0) (D2.sinJ c0 s0 qd0 qdd0)
          * rotY (D2.cosJ c1 s1 qd1 qdd1) (D2.sinJ c1 s1 qd1 qdd1)
          * rotX (D2.cosJ c2 s2 qd2 qdd2) (D2.sinJ c2 s2 qd2 qdd2), V3.zero⟩)
      ((eulerZYX_S M63.zero c1 s1 c2 s2).mulV3 ⟨qd0, qd1, qd2⟩)
      ((eulerZYX_S M63.zero c1 s1 c2 s2).mulV3 ⟨qdd0, qdd1, qdd2⟩
        + eulerZYX_cJ c1 s1 c2 s2 qd0 qd1 qd2) := by
  simp only [eulerZYX_S, M63.setW, eulerZYX_cJ]
  bf06_grind

theorem bf_eulerXYZ (c0 s0 c1 s1 c2 s2 qd0 qd1 qd2 qdd0 qdd1 qdd2 : α)
    (h0 : c0 * c0 + s0 * s0 = 1) (h1 : c1 * c1 + s1 * s1 = 1) (h2 : c2 * c2 + s2 * s2 = 1) :
    BodyForm (NodeKin.ofPose
        ⟨rotX (D2.cosJ c0 s0 qd0 qdd0) (D2.sinJ c0 s0 qd0 qdd0)
          * rotY (D2.cosJ c1 s1 qd1 qdd1) (D2.sinJ c1 s1 qd1 qdd1)
          * rotZ (D2.cosJ c2 s2 qd2 qdd2) (D2.sinJ c2 s2 qd2 qdd2), V3.zero⟩)
      ((eulerXYZ_S M63.zero c1 s1 c2 s2).mulV3 ⟨qd0, qd1, qd2⟩)
      ((eulerXYZ_S M63.zero c1 s1 c2 s2).mulV3 ⟨qdd0, qdd1, qdd2⟩
        + eulerXYZ_cJ c1 s1 c2 s2 qd0 qd1 qd2) := by
  simp only [eulerXYZ_S, M63.setW, eulerXYZ_cJ]
  bf06_grind

theorem bf_eulerYXZ (c0 s0 c1 s1 c2 s2 qd0 qd1 qd2 qdd0 qdd1 qdd2 : α)
    (h0 : c0 * c0 + s0 * s0 = 1) (h1 : c1 * c1 + s1 * s1 = 1) (h2 : c2 * c2 + s2 * s2 = 1) :
    BodyForm (NodeKin.ofPose
        ⟨rotY (D2.cosJ c0 s0 qd0 qdd0) (D2.sinJ c0 s0 qd0 qdd0)
          * rotX (D2.cosJ c1 s1 qd1 qdd1) (D2.sinJ c1 s1 qd1 qdd1)
          * rotZ (D2.cosJ c2 s2 qd2 qdd2) (D2.sinJ c2 s2 qd2 qdd2), V3.zero⟩)
      ((eulerYXZ_S M63.zero c1 s1 c2 s2).mulV3 ⟨qd0, qd1, qd2⟩)
      ((eulerYXZ_S M63.zero c1 s1 c2 s2).mulV3 ⟨qdd0, qdd1, qdd2⟩
        + eulerYXZ_cJ c1 s1 c2 s2 qd0 qd1 qd2) := by
  simp only [eulerYXZ_S, M63.setW, eulerYXZ_cJ]
  bf06_grind

theorem bf_eulerZXY (c0 s0 c1 s1 c2 s2 qd0 qd1 qd2 qdd0 qdd1 qdd2 : α)
    (h0 : c0 * c0 + s0 * s0 = 1) (h1 : c1 * c1 + s1 * s1 = 1) (h2 : c2 * c2 + s2 * s2 = 1) :
    BodyForm (NodeKin.ofPose
        ⟨rotZ (D2.cosJ c0 s0 qd0 qdd0) (D2.sinJ c0 s0 qd0 qdd0)
          * rotX (D2.cosJ c1 s1 qd1 qdd1) (D2.sinJ c1 s1 qd1 qdd1)
          * rotY (D2.cosJ c2 s2 qd2 qdd2) (D2.sinJ c2 s2 qd2 qdd2), V3.zero⟩)
      ((eulerZXY_S M63.zero c1 s1 c2 s2).mulV3 ⟨qd0, qd1, qd2⟩)
      ((eulerZXY_S M63.zero c1 s1 c2 s2).mulV3 ⟨qdd0, qdd1, qdd2⟩
        + eulerZXY_cJ c1 s1 c2 s2 qd0 qd1 qd2) := by
  simp only [eulerZXY_S, M63.setW, eulerZXY_cJ]
  bf06_grind

/-! ### spherical joint -/

/-- `½ Q ⊗ (o, 0)` with the factor written as a multiplication by `h = 2⁻¹` -/
def quatDh (h : α) (Q : Quat α) (o : V3 α) : Quat α :=
  ⟨(Q.w * o.x + Q.y * o.z - Q.z * o.y) * h, (Q.w * o.y + Q.z * o.x - Q.x * o.z) * h,
   (Q.w * o.z + Q.x * o.y - Q.y * o.x) * h, (-(Q.x * o.x) - Q.y * o.y - Q.z * o.z) * h⟩

/-- the quaternion jet of `Spec.coordJets`, `2⁻¹` abstracted to `h` with `2 h = 1` -/
theorem bf_spherical_h (h : α) (hh : 2 * h = 1) (Q : Quat α) (hQ : Q.nrm2 = 1) (o od : V3 α) :
    BodyForm (NodeKin.ofPose
        ⟨quatRot
          (⟨Q.x, (quatDh h Q o).x, (quatDh h (quatDh h Q o) o).x + (quatDh h Q od).x⟩ : D2 α)
          (⟨Q.y, (quatDh h Q o).y, (quatDh h (quatDh h Q o) o).y + (quatDh h Q od).y⟩ : D2 α)
          (⟨Q.z, (quatDh h Q o).z, (quatDh h (quatDh h Q o) o).z + (quatDh h Q od).z⟩ : D2 α)
          (⟨Q.w, (quatDh h Q o).w, (quatDh h (quatDh h Q o) o).w + (quatDh h Q od).w⟩ : D2 α),
         V3.zero⟩)
      ⟨o, V3.zero⟩ ⟨od, V3.zero⟩ := by
  simp only [alg] at hQ
  simp only [quatDh]
  bf06_grind

end
end Rbdl.L06
