import RbdlProofs.Lemmas.L09Whole
import RbdlProofs.Lemmas.L13CSVel
/-
  C09F, part 1: a body id `≥ fixedDisc` is resolved by the kinematics routines through the movable
  parent of the fixed body and its `parentTransform`.  `resId`, `resPoint`, `resFrame`: the movable
  parent, and a point / a constraint frame of the fixed body expressed in the movable parent.
  Closed forms (`update_kinematics = false`) of `bodyToBase0`, `worldOrientation0`, `loopFrame`,
  `calcPointJacobian(6D)`, `calcPointVelocity6D`, `calcPointAcceleration6D` for every id.
-/
set_option linter.unusedSectionVars false
set_option linter.unusedSimpArgs false
namespace Rbdl.L09F
open Lean.Grind Rbdl Rbdl.L05 Rbdl.L09 Rbdl.Spec

section
variable {α : Type} [Field α] [DecidableEq α]

/-- the movable body (or the base) that carries the body `id` -/
def resId (m : ModelS α) (id : Nat) : Nat :=
  if fixedDisc ≤ id then (m.fixedBody (id - fixedDisc)).movableParent else id

/-- the point `p` of body `id` in the coordinates of `resId m id`: `r_f + E_fᵀ p` for a fixed body with
    `parentTransform = (E_f, r_f)` -/
def resPoint (m : ModelS α) (id : Nat) (p : V3 α) : V3 α :=
  if fixedDisc ≤ id then
    (m.fixedBody (id - fixedDisc)).parentTransform.r
      + (m.fixedBody (id - fixedDisc)).parentTransform.E.tmulVec p
  else p

/-- the constraint frame `Xf = (E, r)` (columns of `E`: frame axes in body coordinates, `r`: origin) of
    body `id`, composed with the `parentTransform` of a fixed body: the same frame in the coordinates of
    `resId m id`, `(E_fᵀ E, r_f + E_fᵀ r)` -/
def resFrame (m : ModelS α) (id : Nat) (Xf : XT α) : XT α :=
  ⟨if fixedDisc ≤ id then (m.fixedBody (id - fixedDisc)).parentTransform.E.transpose * Xf.E else Xf.E,
   resPoint m id Xf.r⟩

/-- **the ids covered**: an id `≥ fixedDisc` is a fixed-body id of the model, and the body that
    carries it is not again a fixed-body id -/
structure IdF (m : ModelS α) (id : Nat) : Prop where
  fixed : fixedDisc ≤ id → m.isFixedBodyId id = true
  par : ¬ fixedDisc ≤ resId m id

theorem resId_movable (m : ModelS α) (id : Nat) (h : ¬ fixedDisc ≤ id) : resId m id = id := if_neg h
theorem resPoint_movable (m : ModelS α) (id : Nat) (p : V3 α) (h : ¬ fixedDisc ≤ id) :
    resPoint m id p = p := if_neg h
theorem resFrame_movable (m : ModelS α) (id : Nat) (Xf : XT α) (h : ¬ fixedDisc ≤ id) :
    resFrame m id Xf = Xf := by
  unfold resFrame
  rw [if_neg h, resPoint_movable m id _ h]
theorem resFrame_r (m : ModelS α) (id : Nat) (Xf : XT α) : (resFrame m id Xf).r = resPoint m id Xf.r :=
  rfl

theorem IdF.of_notFixed {m : ModelS α} {id : Nat} (h : ¬ fixedDisc ≤ id) : IdF m id :=
  ⟨fun hf => absurd hf h, by rw [resId_movable m id h]; exact h⟩

theorem idF_of_bodyOK {m : ModelS α} {id : Nat} (h : BodyOK m id) : IdF m id :=
  IdF.of_notFixed h.notFixed

/-- the ids of C13CS (`L13.IdOK`: `refBody id < nBodies ≤ fixedDisc`) are covered -/
theorem idF_of_idOK {m : ModelS α} {id : Nat} (h : L13.IdOK m id) : IdF m id := by
  obtain ⟨h1, h2⟩ := h
  by_cases hf : fixedDisc ≤ id
  · have hfix : m.isFixedBodyId id = true := by
      cases hb : m.isFixedBodyId id with
      | true => rfl
      | false =>
        unfold ModelS.refBody at h1
        rw [hb] at h1
        simp only [Bool.false_eq_true, if_false] at h1
        omega
    refine ⟨fun _ => hfix, ?_⟩
    rw [refBody_fixed m id hfix] at h1
    unfold resId
    rw [if_pos hf]
    omega
  · exact IdF.of_notFixed hf

theorem refBody_res {m : ModelS α} {id : Nat} (h : IdF m id) : m.refBody id = resId m id := by
  by_cases hf : fixedDisc ≤ id
  · rw [refBody_fixed m id (h.fixed hf)]
    unfold resId
    rw [if_pos hf]
  · rw [refBody_movable m id hf, resId_movable m id hf]

theorem refBody_resId {m : ModelS α} {id : Nat} (h : IdF m id) :
    m.refBody (resId m id) = resId m id := refBody_movable m _ h.par

/-- with `refBody < nBodies ≤ fixedDisc` the resolved id is the base or a movable body -/
theorem bodyOK_resId {m : ModelS α} {id : Nat} (h : L13.IdOK m id) : BodyOK m (resId m id) := by
  have hF := idF_of_idOK h
  obtain ⟨h1, h2⟩ := h
  rw [refBody_res hF] at h1
  by_cases h0 : resId m id = 0
  · exact Or.inl h0
  · exact Or.inr ⟨by omega, h1, hF.par⟩

/-! ### position level -/

theorem bodyToBase0_res (m : ModelS α) (w : WS α) (id : Nat) (p : V3 α) (h : IdF m id) :
    bodyToBase0 m w id p = bodyToBase0 m w (resId m id) (resPoint m id p) := by
  have hp := h.par
  by_cases hf : fixedDisc ≤ id
  · rw [bodyToBase0_movable m w _ _ hp]
    unfold resId at hp ⊢
    rw [if_pos hf] at hp ⊢
    unfold bodyToBase0 resPoint
    rw [if_pos hf, if_pos hf]
  · rw [resId_movable m id hf, resPoint_movable m id p hf]

theorem mul_tr_assoc (A B C : M3 α) : (A * B).transpose * C = B.transpose * (A.transpose * C) := by
  alg_ext

/-- the orientation `CalcBodyWorldOrientation` returns, applied to a frame -/
theorem wo_res (m : ModelS α) (w : WS α) (id : Nat) (Xf : XT α) :
    (worldOrientation0 m w id).2.transpose * Xf.E
      = (w.X_base (resId m id)).E.transpose * (resFrame m id Xf).E := by
  by_cases hf : fixedDisc ≤ id
  · unfold worldOrientation0 resFrame resId
    rw [if_pos hf, if_pos hf, if_pos hf]
    exact mul_tr_assoc _ _ _
  · unfold worldOrientation0 resFrame resId
    rw [if_neg hf, if_neg hf, if_neg hf]

/-- `CalcBodyWorldOrientation` writes `mBaseTransform` of a fixed body only -/
theorem wo_ws (m : ModelS α) (w : WS α) (id : Nat) :
    ∃ fb, (worldOrientation0 m w id).1 = L13CS.setFb fb w := L13CS.wo_setFb m w id

theorem wo_ws_movable (m : ModelS α) (w : WS α) (id : Nat) (h : ¬ fixedDisc ≤ id) :
    (worldOrientation0 m w id).1 = w := by
  unfold worldOrientation0
  rw [if_neg h]

/-- **world placement of a constraint frame on any body**: that of the composed frame on the body
    that carries it -/
theorem loopFrame_res (m : ModelS α) (w : WS α) (st : QS α) (id : Nat) (Xf : XT α) (h : IdF m id) :
    loopFrame m w st id Xf false
      = ((worldOrientation0 m w id).1, frameOf w (resId m id) (resFrame m id Xf)) := by
  show ((worldOrientation0 m w id).1,
      (⟨(worldOrientation0 m w id).2.transpose * Xf.E, bodyToBase0 m w id Xf.r⟩ : XT α)) = _
  rw [wo_res m w id Xf, bodyToBase0_res m w id Xf.r h, bodyToBase0_movable m w _ _ h.par]
  rfl

theorem pointJacobian6D_res (m : ModelS α) (w : WS α) (st : QS α) (id : Nat) (p : V3 α)
    (G : MatN α) (h : IdF m id) :
    calcPointJacobian6D m w st id p G false
      = calcPointJacobian6D m w st (resId m id) (resPoint m id p) G false := by
  show (w, jacFill m w ⟨M3.one, bodyToBase0 m w id p⟩ (m.refBody id) SV.toList G)
    = (w, jacFill m w ⟨M3.one, bodyToBase0 m w (resId m id) (resPoint m id p)⟩
        (m.refBody (resId m id)) SV.toList G)
  rw [bodyToBase0_res m w id p h, refBody_res h, refBody_resId h]

theorem pointJacobian_res (m : ModelS α) (w : WS α) (st : QS α) (id : Nat) (p : V3 α)
    (G : MatN α) (h : IdF m id) :
    calcPointJacobian m w st id p G false
      = calcPointJacobian m w st (resId m id) (resPoint m id p) G false := by
  show (w, jacFill m w ⟨M3.one, bodyToBase0 m w id p⟩ (m.refBody id) (fun x => V3.toList x.v) G)
    = (w, jacFill m w ⟨M3.one, bodyToBase0 m w (resId m id) (resPoint m id p)⟩
        (m.refBody (resId m id)) (fun x => V3.toList x.v) G)
  rw [bodyToBase0_res m w id p h, refBody_res h, refBody_resId h]

/-! ### velocity and acceleration level: `X_base` of the carrying body must be a rotation -/

/-- what the point routines need for an id `≥ fixedDisc`: they map the point to base coordinates and
    back with `X_base` of the movable parent -/
def OrthAt (m : ModelS α) (w : WS α) (id : Nat) : Prop :=
  fixedDisc ≤ id → (w.X_base (resId m id)).E.IsRot

theorem OrthAt.of_notFixed {m : ModelS α} {w : WS α} {id : Nat} (h : ¬ fixedDisc ≤ id) :
    OrthAt m w id := fun hf => absurd hf h

theorem rot_roundtrip {E : M3 α} (h : E.IsRot) (r p : V3 α) : E * (r + E.tmulVec p - r) = p := by
  rot_ext h

theorem refPoint_res (m : ModelS α) (w : WS α) (id : Nat) (p : V3 α) (h : IdF m id)
    (ho : OrthAt m w id) : refPoint m w id p = (resId m id, resPoint m id p) := by
  by_cases hf : fixedDisc ≤ id
  · have hp := h.par
    have hr := ho hf
    unfold refPoint
    rw [h.fixed hf]
    simp only [if_true]
    rw [bodyToBase0_res m w id p h, bodyToBase0_movable m w _ _ hp]
    unfold resId at hp hr ⊢
    rw [if_pos hf] at hp hr ⊢
    unfold baseToBody0
    rw [if_neg hp]
    exact congrArg _ (rot_roundtrip hr _ _)
  · unfold refPoint
    rw [isFixedBodyId_of_not m id hf, resId_movable m id hf, resPoint_movable m id p hf]
    rfl

theorem pointVelocity6D_res (m : ModelS α) (w : WS α) (st : QS α) (qd : VecN α) (id : Nat)
    (p : V3 α) (h : IdF m id) (ho : OrthAt m w id) :
    calcPointVelocity6D m w st qd id p false
      = ({ w with v := upd w.v 0 SV.zero }, vel6 w (resId m id) (resPoint m id p)) := by
  have hr : refPoint m { w with v := upd w.v 0 SV.zero } id p = (resId m id, resPoint m id p) :=
    refPoint_res m _ id p h ho
  unfold calcPointVelocity6D
  simp only [Bool.false_eq_true, if_false]
  rw [hr]
  simp only [worldOrientation0, if_neg h.par, vel6]

theorem pointAcceleration6D_res (m : ModelS α) (w : WS α) (st : QS α) (qd qdd : VecN α) (id : Nat)
    (p : V3 α) (h : IdF m id) (ho : OrthAt m w id) :
    calcPointAcceleration6D m w st qd qdd id p false
      = ({ w with v := upd w.v 0 SV.zero, a := upd w.a 0 SV.zero },
         acc6 w (resId m id) (resPoint m id p)) := by
  have hr : refPoint m { w with v := upd w.v 0 SV.zero, a := upd w.a 0 SV.zero } id p
      = (resId m id, resPoint m id p) := refPoint_res m _ id p h ho
  unfold calcPointAcceleration6D
  simp only [Bool.false_eq_true, if_false]
  rw [hr]
  simp only [worldOrientation0, if_neg h.par, acc6, vel6]

end
end Rbdl.L09F
