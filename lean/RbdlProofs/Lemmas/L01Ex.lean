import RbdlProofs.Lemmas.L01
import RbdlProofs.Props.C14
/-
  Concrete instances over `Rat` for the satisfiability examples of C01: the model built by the
  construction calls of `C14.Ex.ops` (floating base = translationXYZ + spherical, revolute,
  spherical, revoluteX + prismatic chain, custom cylindrical joint; branched; update order
  `[0,1,2,4,3,5,6,7]`), the workspace after construction and a second, unrelated workspace.
-/
namespace Rbdl.L01.Ex
open Lean.Grind Rbdl Rbdl.Loops

def M : ModelS Rat := C14.Ex.M

theorem M_wf : M.WF := C14.wf_run C14.Ex.ops C14.Ex.validRun_ops
theorem M_n : M.nBodies = 8 := by decide +kernel
theorem M_tree : ∀ i, 1 ≤ i → i < M.nBodies → M.lam i < i := M_wf.lam_lt
theorem M_perm : (M.updateOrder.drop 1).Perm (List.range' 1 (M.nBodies - 1)) := by decide +kernel
theorem M_order : M.updateOrder = [0, 1, 2, 4, 3, 5, 6, 7] := by decide +kernel

theorem jt1 : (M.joint 1).jt = .translationXYZ := by decide +kernel
theorem jt2 : (M.joint 2).jt = .spherical := by decide +kernel
theorem jt3 : (M.joint 3).jt = .revolute := by decide +kernel
theorem jt4 : (M.joint 4).jt = .spherical := by decide +kernel
theorem jt5 : (M.joint 5).jt = .revoluteX := by decide +kernel
theorem jt6 : (M.joint 6).jt = .prismatic := by decide +kernel
theorem jt7 : (M.joint 7).jt = .custom := by decide +kernel

theorem joint_custom_lt {α : Type} [Field α] (m : ModelS α) (i : Nat)
    (h : (m.joint i).jt = .custom) : i < m.joints.length := by
  apply Classical.byContradiction
  intro hn
  unfold ModelS.joint at h
  simp only [List.getD, List.getElem?_eq_none (Nat.le_of_not_lt hn), Option.getD_none] at h
  cases h

theorem M_customInj : CustomInj M := by
  have key : ∀ i, (M.joint i).jt = .custom → i = 7 := by
    intro i h
    have hl := joint_custom_lt M i h
    have h8 : M.joints.length = 8 := by decide +kernel
    rw [h8] at hl
    obtain rfl | rfl | rfl | rfl | rfl | rfl | rfl | rfl :
      i = 0 ∨ i = 1 ∨ i = 2 ∨ i = 3 ∨ i = 4 ∨ i = 5 ∨ i = 6 ∨ i = 7 := by omega
    · exact absurd h (by decide +kernel)
    · rw [jt1] at h; cases h
    · rw [jt2] at h; cases h
    · rw [jt3] at h; cases h
    · rw [jt4] at h; cases h
    · rw [jt5] at h; cases h
    · rw [jt6] at h; cases h
    · rfl
  intro i j hi hj _
  rw [key i hi, key j hj]

theorem M_jointOK : ∀ i, 1 ≤ i → i < M.nBodies → JointOK M i := by
  intro i h1 h2
  rw [M_n] at h2
  obtain rfl | rfl | rfl | rfl | rfl | rfl | rfl :
    i = 1 ∨ i = 2 ∨ i = 3 ∨ i = 4 ∨ i = 5 ∨ i = 6 ∨ i = 7 := by omega
  · unfold JointOK; rw [jt1]; exact (by decide +kernel : (M.joint 1).dof = 3)
  · unfold JointOK; rw [jt2]; exact (by decide +kernel : (M.joint 2).dof = 3)
  · unfold JointOK; rw [jt3]; exact (by decide +kernel : (M.joint 3).dof = 1)
  · unfold JointOK; rw [jt4]; exact (by decide +kernel : (M.joint 4).dof = 3)
  · unfold JointOK; rw [jt5]; exact (by decide +kernel : (M.joint 5).dof = 1)
  · unfold JointOK; rw [jt6]; exact (by decide +kernel : (M.joint 6).dof = 1)
  · unfold JointOK; rw [jt7]; trivial

/-- the workspace after construction -/
def w0 : WS Rat := initWS M

/-- a second workspace: same construction-time entries, everything a routine rewrites replaced by
    unrelated values -/
def w1 : WS Rat :=
  { w0 with
    v := fun i => ⟨⟨1, (i : Rat), 2⟩, ⟨0, 1, (i : Rat) / 2⟩⟩
    a := fun _ => ⟨⟨3, 1, 4⟩, ⟨1, 5, 9⟩⟩
    c := fun _ => ⟨⟨2, 7, 1⟩, ⟨8, 2, 8⟩⟩
    f := fun i => ⟨⟨(i : Rat), 0, 1⟩, ⟨1, 1, 2⟩⟩
    X_lambda := fun _ => C16.Ex.Y
    X_base := fun i => if i = 0 then XT.id else C16.Ex.X
    v_J := fun i => if i = 5 then sv6 9 0 0 0 0 0 else ⟨⟨1, 2, 3⟩, ⟨4, 5, 6⟩⟩
    c_J := fun i => if i = 1 ∨ i = 7 then ⟨⟨1, 2, 3⟩, ⟨4, 5, 6⟩⟩ else SV.zero
    S3 := fun i => if i = 2 ∨ i = 4 then sphericalS ⟨⟨⟨7, 0, 0⟩, V3.zero⟩, ⟨⟨0, 8, 0⟩, V3.zero⟩, ⟨⟨0, 0, 9⟩, V3.zero⟩⟩
          else if i = 1 then translationS ⟨⟨V3.zero, ⟨5, 0, 0⟩⟩, ⟨V3.zero, ⟨0, 6, 0⟩⟩, ⟨V3.zero, ⟨0, 0, 7⟩⟩⟩
          else M63.zero
    cS := fun _ => [⟨⟨1, 2, 3⟩, ⟨4, 5, 6⟩⟩] }

theorem w0_Xb0 : w0.X_base 0 = XT.id := rfl
theorem w1_Xb0 : w1.X_base 0 = XT.id := rfl

theorem w0_WSJ : WSJ M w0 := by
  intro i h1 h2
  refine ⟨M_jointOK i h1 h2, ?_⟩
  rw [M_n] at h2
  obtain rfl | rfl | rfl | rfl | rfl | rfl | rfl :
    i = 1 ∨ i = 2 ∨ i = 3 ∨ i = 4 ∨ i = 5 ∨ i = 6 ∨ i = 7 := by omega
  · unfold WSJat; rw [jt1]; rfl
  · unfold WSJat; rw [jt2]; exact ⟨rfl, rfl⟩
  · unfold WSJat; rw [jt3]; exact ⟨rfl, rfl⟩
  · unfold WSJat; rw [jt4]; exact ⟨rfl, rfl⟩
  · unfold WSJat; rw [jt5]
    have h : w0.S 5 = sv6 1 0 0 0 0 0 := by
      show (M.joint 5).axes.headD SV.zero = _
      decide +kernel
    have hv : w0.v_J 5 = sv6 1 0 0 0 0 0 := h
    exact ⟨h, by rw [hv]; rfl, by rw [hv]; rfl, by rw [hv]; rfl, rfl⟩
  · unfold WSJat; rw [jt6]; exact ⟨rfl, rfl⟩
  · unfold WSJat; rw [jt7]; trivial

theorem w1_WSJ : WSJ M w1 := by
  intro i h1 h2
  refine ⟨M_jointOK i h1 h2, ?_⟩
  rw [M_n] at h2
  obtain rfl | rfl | rfl | rfl | rfl | rfl | rfl :
    i = 1 ∨ i = 2 ∨ i = 3 ∨ i = 4 ∨ i = 5 ∨ i = 6 ∨ i = 7 := by omega
  · unfold WSJat; rw [jt1]; rfl
  · unfold WSJat; rw [jt2]; exact ⟨rfl, rfl⟩
  · unfold WSJat; rw [jt3]; exact ⟨rfl, rfl⟩
  · unfold WSJat; rw [jt4]; exact ⟨rfl, rfl⟩
  · unfold WSJat; rw [jt5]
    have h : w1.S 5 = sv6 1 0 0 0 0 0 := by
      show (M.joint 5).axes.headD SV.zero = _
      decide +kernel
    exact ⟨h, rfl, rfl, rfl, rfl⟩
  · unfold WSJat; rw [jt6]; exact ⟨rfl, rfl⟩
  · unfold WSJat; rw [jt7]; trivial

/-- a state with `(cos, sin) = (4/5, 3/5)` and unit quaternions -/
def st : QS Rat :=
  { q := fun n => if n = 3 ∨ n = 7 then 1/5 else if n = 4 ∨ n = 5 ∨ n = 8 ∨ n = 9 then 2/5
                  else if n = 14 ∨ n = 15 then 4/5 else 1/2
    c := fun _ => 4/5
    s := fun _ => 3/5 }
def qd : VecN Rat := fun n => (n : Rat) / 3 - 1
def qdd : VecN Rat := fun n => 2 - (n : Rat) / 5
def fe : Nat → SV Rat := fun i => if i = 4 then SV.zero else ⟨⟨1, (i : Rat), 0⟩, ⟨0, 2, 1⟩⟩

/-- the workspace the backward pass of the example starts from -/
def Wex : WS Rat := idForward M w1 st qd qdd (some fe)

theorem Wex_len : ∀ i, 1 ≤ i → i < M.nBodies → (Wex.Scols M i).length = (M.joint i).dof :=
  scols_length_closed M M_wf st qd qdd w1 _
    (idForward_closed M M_customInj M_tree w1 st qd qdd (some fe)).1
    (fun i h1 h2 => (M_jointOK i h1 h2).arity_ne_other)

/-- entry 13 of `tau` (second coordinate of the custom cylindrical joint of body 7) -/
theorem owns_7_13 : owns M Wex 7 13 := by
  unfold owns
  rw [Wex_len 7 (by decide) (by rw [M_n]; decide)]
  decide +kernel

/-- entry 6 of `tau` (the coordinate of the revolute joint of body 3) -/
theorem owns_3_6 : owns M Wex 3 6 := by
  unfold owns
  rw [Wex_len 3 (by decide) (by rw [M_n]; decide)]
  decide +kernel

/-- the `X_lambda` of the bodies below body 3 are rotations + translations after the forward pass
    (unit quaternion, `cos² + sin² = 1`, joint frames with rotation part `1`) -/
theorem Wex_rot : ∀ c, 3 < c → c < M.nBodies → (Wex.X_lambda c).E.IsRot := by
  intro c h1 h2
  have hX : Wex.X_lambda c = jcalcX M c st (w1.X_lambda c) := by
    have h := (idForward_closed M M_customInj M_tree w1 st qd qdd (some fe)).1.jX c (by omega) h2
    rw [jcalc_X_lambda, upd_same] at h
    exact h
  rw [hX]
  have hframe : ∀ c, (M.XT_ c).E = M3.one → (M.XT_ c).E.IsRot := fun c e => by
    rw [e]; exact M3.isRot_one
  rw [M_n] at h2
  obtain rfl | rfl | rfl | rfl : c = 4 ∨ c = 5 ∨ c = 6 ∨ c = 7 := by omega
  · refine jcalcX_isRot M 4 st _ (M_jointOK 4 (by decide) (by rw [M_n]; decide)).hasJcalc
      (hframe 4 (by decide +kernel)) ?_
    unfold ModelS.jointUnit; dsimp only; rw [jt4]; dsimp only; decide +kernel
  · refine jcalcX_isRot M 5 st _ (M_jointOK 5 (by decide) (by rw [M_n]; decide)).hasJcalc
      (hframe 5 (by decide +kernel)) ?_
    unfold ModelS.jointUnit; dsimp only; rw [jt5]; dsimp only; decide +kernel
  · refine jcalcX_isRot M 6 st _ (M_jointOK 6 (by decide) (by rw [M_n]; decide)).hasJcalc
      (hframe 6 (by decide +kernel)) ?_
    unfold ModelS.jointUnit; dsimp only; rw [jt6]; trivial
  · refine jcalcX_isRot M 7 st _ (M_jointOK 7 (by decide) (by rw [M_n]; decide)).hasJcalc
      (hframe 7 (by decide +kernel)) ?_
    unfold ModelS.jointUnit; dsimp only; rw [jt7]; dsimp only
    rw [show M.custom (M.joint 7).customIdx = .cyl from by decide +kernel]
    dsimp only; decide +kernel

/-- a workspace satisfying `WSJ` whose `X_base[0]` is not the identity -/
def wbad : WS Rat := { w1 with X_base := fun _ => C16.Ex.X }
theorem wbad_WSJ : WSJ M wbad := w1_WSJ

end Rbdl.L01.Ex
