import RbdlProofs.Lemmas.L01CapThm
import Rbdl.Spec.Build
/-
  C01 capstone, Stage E: the relation `Refines` is established by construction.

  The specification model is built *in parallel* with the construction calls, from what the caller
  passes (`Spec.SB.add`, then `SModel.finalize` for the quaternion indices): `specOf ops`.  For every
  sequence of successful `AddBody` / `AppendBody` calls with the joint types that get one movable body
  (`Op.simple`: revoluteX/Y/Z, revolute, prismatic, helical, spherical, the four Euler orders,
  translationXYZ; rotation joint frames; real bodies with symmetric inertia) the model `init.run ops`
  satisfies `ModelOK` and `Refines (init.run ops) (specOf ops)`.
-/
namespace Rbdl.L01Cap
open Lean.Grind Rbdl Rbdl.Spec Rbdl.L06 Rbdl.L01 Rbdl.Loops
set_option linter.unusedSimpArgs false
set_option linter.unusedVariables false
set_option linter.unusedSectionVars false

section
variable {α : Type} [Field α] [DecidableEq α]

/-! ### the parallel construction -/

/-- the joint description the caller of `AddBody` passes, read off the `Joint` object -/
def descOf (j : Joint α) : JDesc α :=
  match j.jt with
  | .revolute => .revolute (j.axes.headD SV.zero).w
  | .prismatic => .prismatic (j.axes.headD SV.zero).v
  | .helical => .axes [j.axes.headD SV.zero]
  | t => .typed t

/-- state of the parallel construction: the specification builder and the id returned last
    (what `AppendBody` attaches to) -/
structure PB (α : Type) where
  sb : SB α
  prev : Nat

def PB.init : PB α := ⟨SB.init, 0⟩

def PB.add (p : PB α) (parent : Nat) (frame : XT α) (d : JDesc α) (b : Body α) : PB α :=
  let r := p.sb.add parent frame.E frame.r d b.mass b.com b.inertia
  ⟨r.1, r.2.getD p.prev⟩

def PB.step (p : PB α) : Op α → PB α
  | .addBody parent frame j b _ => p.add parent frame (descOf j) b
  | .appendBody frame j b _ => p.add p.prev frame (descOf j) b
  | .addBodyCustomJoint parent frame k b _ => p.add parent frame (.custom k) b

def PB.run (p : PB α) : List (Op α) → PB α
  | [] => p
  | op :: ops => PB.run (p.step op) ops

/-- **the specification model of a construction sequence** -/
def specOf (ops : List (Op α)) : SModel α := ((PB.init : PB α).run ops).sb.M.finalize

/-! ### supported operations -/

/-- joints that get exactly one movable body and are declared as the `Joint` constructors declare
    them; a helical joint has a proper screw axis -/
def GoodJoint (j : Joint α) : Prop :=
  j.jt.hasJcalc = true ∧ j.jt ≠ .custom ∧ JointDecl j ∧
  (j.jt = .helical → (j.axes.headD SV.zero).w ≠ V3.zero ∧ (j.axes.headD SV.zero).v ≠ V3.zero)

def GoodBody (b : Body α) : Prop := b.isVirtual = false ∧ b.inertia.transpose = b.inertia

def Op.simple : Op α → Prop
  | .addBody _ frame j b _ => frame.E.IsRot ∧ GoodJoint j ∧ GoodBody b
  | .appendBody frame j b _ => frame.E.IsRot ∧ GoodJoint j ∧ GoodBody b
  | .addBodyCustomJoint _ _ _ _ _ => False

/-- every operation is valid, supported and succeeds -/
def goodRun (m : ModelS α) : List (Op α) → Prop
  | [] => True
  | op :: ops =>
    op.valid m ∧ Op.simple op ∧ (∃ id, (m.step op).2 = .ok id) ∧ goodRun (m.step op).1 ops

/-! ### the position-level joint of a `Joint` object -/

/-- `ModelS.sjoint` for the non-custom joint types, as a function of the joint alone -/
def jointSj (j : Joint α) : SJoint α :=
  let ax := j.axes.headD SV.zero
  match j.jt with
  | .revoluteX => .revolute ⟨1, 0, 0⟩
  | .revoluteY => .revolute ⟨0, 1, 0⟩
  | .revoluteZ => .revolute ⟨0, 0, 1⟩
  | .revolute => .revolute ax.w
  | .prismatic => .prismatic ax.v
  | .helical => .helical ax.w ax.v
  | .spherical => .spherical
  | .eulerZYX => .euler .zyx
  | .eulerXYZ => .euler .xyz
  | .eulerYXZ => .euler .yxz
  | .eulerZXY => .euler .zxy
  | .translationXYZ => .translationXYZ
  | _ => .fixed

theorem sjoint_eq_sj (m : ModelS α) (i : Nat) (h : (m.joint i).jt ≠ .custom) :
    m.sjoint i = jointSj (m.joint i) := by
  unfold ModelS.sjoint jointSj
  dsimp only
  cases hj : (m.joint i).jt <;> first | rfl | exact absurd hj h

/-- not the fixed joint -/
def notFixed : SJoint α → Bool
  | .fixed => false
  | _ => true

theorem expand_descOf (j : Joint α) (h : GoodJoint j) :
    expand (descOf j) = some [(jointSj j)] ∧ notFixed (jointSj j) = true ∧
    (jointSj j).dof = j.dof := by
  obtain ⟨hjc, hnc, hd, hh⟩ := h
  unfold JointDecl at hd
  unfold descOf jointSj expand
  dsimp only at hd ⊢
  cases hj : j.jt <;> simp only [hj, JT.hasJcalc, Bool.false_eq_true] at hjc hd hh ⊢
  case custom => exact absurd hj hnc
  case helical =>
    obtain ⟨hw, hv⟩ := hh trivial
    simp only [List.isEmpty_cons, Bool.false_eq_true, if_false, List.map_cons, List.map_nil,
      axisJoint, if_neg hw, if_neg hv, SJoint.dof, hd, and_self]
    exact ⟨trivial, rfl, trivial⟩
  all_goals first
    | exact ⟨trivial, rfl, hd.1.symm⟩
    | exact ⟨trivial, rfl, hd.symm⟩
    | exact ⟨rfl, hd.1.symm⟩
    | exact ⟨rfl, hd.symm⟩

/-! ### one node appended by `SB.add` -/

def singleNode (b : SB α) (parent : Nat) (E : M3 α) (r : V3 α) (sj : SJoint α)
    (mass : α) (com : V3 α) (inertia : M3 α) : SNode α :=
  ⟨b.nodeOf parent, E, r, sj, b.M.nv, 0, true, mass, com, inertia, b.nMovable, b.nMovable⟩

theorem add_single (b : SB α) (parent : Nat) (E : M3 α) (r : V3 α) (j : JDesc α) (sj : SJoint α)
    (mass : α) (com : V3 α) (inertia : M3 α) (he : expand j = some [sj])
    (hsj : notFixed sj = true) :
    b.add parent E r j mass com inertia
      = ({ b with M := { b.M with nodes := b.M.nodes ++ [singleNode b parent E r sj mass com inertia] },
                  nMovable := b.nMovable + 1,
                  idMap := b.idMap ++ [(b.nMovable, b.M.nodes.length, b.M.nodes.length)] },
          some b.nMovable) := by
  unfold SB.add
  rw [he]
  cases sj <;> first | (simp [notFixed] at hsj; done) | (simp [singleNode])

/-- the id map of a model without fixed bodies -/
def idMapN (n : Nat) : List (Nat × Nat × Nat) := (List.range n).map (fun k => (k, k, k))

theorem idMapN_succ (n : Nat) : idMapN (n + 1) = idMapN n ++ [(n, n, n)] := by
  simp [idMapN, List.range_succ]

theorem find_idMapN (n id : Nat) (h : id < n) :
    (idMapN n).find? (fun p => p.1 == id) = some (id, id, id) := by
  induction n with
  | zero => omega
  | succ n ih =>
    rw [idMapN_succ, List.find?_append]
    by_cases hlt : id < n
    · rw [ih hlt]; rfl
    · have hid : id = n := by omega
      subst hid
      have hnone : (idMapN id).find? (fun p => p.1 == id) = none := by
        rw [List.find?_eq_none]
        intro p hp
        simp only [idMapN, List.mem_map, List.mem_range] at hp
        obtain ⟨k, hk, rfl⟩ := hp
        simp; omega
      rw [hnone]
      simp

theorem nodeOf_idMapN (b : SB α) (n id : Nat) (hb : b.idMap = idMapN n) (h : id < n) :
    b.nodeOf id = id := by
  unfold SB.nodeOf
  rw [hb, find_idMapN n id h]

theorem nv_append (M : SModel α) (nd : SNode α) :
    ({ M with nodes := M.nodes ++ [nd] } : SModel α).nv = M.nv + nd.joint.dof := by
  unfold SModel.nv
  rw [List.foldl_append]
  rfl

/-! ### the simulation invariant -/

/-- `NodeRefines` without the quaternion index (assigned by `finalize` at the end) -/
structure NodePre (m : ModelS α) (i : Nat) (nd : SNode α) : Prop where
  parent : nd.parent = m.lam i
  E : nd.E = (m.XT_ i).E
  r : nd.r = (m.XT_ i).r
  joint : nd.joint = m.sjoint i
  qIdx : nd.qIdx = (m.joint i).qIndex
  apiId : nd.apiId = i
  movableId : nd.movableId = i
  virt : nd.hasBody = !(m.body i).isVirtual
  rbi : nd.hasBody = true → m.rbi i = RBI.ofMassComInertiaC nd.mass nd.com nd.inertia
  symm : nd.hasBody = true → nd.inertia.transpose = nd.inertia

structure Sim (m : ModelS α) (p : PB α) : Prop where
  ok : ModelOK m
  nofixed : m.fixedBodies = []
  nocustom : ∀ i, (m.joint i).jt ≠ .custom
  prev : p.prev = m.prevBodyId
  len : p.sb.M.nodes.length = m.nBodies
  nmov : p.sb.nMovable = m.nBodies
  idmap : p.sb.idMap = idMapN m.nBodies
  gravity : p.sb.M.gravity = m.gravity
  nv : p.sb.M.nv = m.dofCount
  base : ∀ nd, p.sb.M.nodes[0]? = some nd → nd.hasBody = false ∧ nd.apiId = 0 ∧ nd.joint = .fixed
  node : ∀ i nd, 1 ≤ i → p.sb.M.nodes[i]? = some nd → NodePre m i nd

theorem sim_init : Sim (ModelS.init : ModelS α) PB.init := by
  refine ⟨⟨C14.wf_init, ?_, ?_, ?_, ?_⟩, rfl, ?_, rfl, rfl, rfl, rfl, rfl, rfl, ?_, ?_⟩
  · intro i j hi; exfalso
    have : ((ModelS.init : ModelS α).joint i).jt = .undefined := by
      unfold ModelS.joint ModelS.init
      cases i <;> rfl
    rw [this] at hi; cases hi
  · intro i h1 h2; exact absurd h2 (by show ¬ i < 1; omega)
  · intro i h1 h2; exact absurd h2 (by show ¬ i < 1; omega)
  · intro i h1 h2; exact absurd h2 (by show ¬ i < 1; omega)
  · intro i
    have : ((ModelS.init : ModelS α).joint i).jt = .undefined := by
      unfold ModelS.joint ModelS.init
      cases i <;> rfl
    rw [this]; exact fun h => nomatch h
  · intro nd h
    simp only [PB.init, SB.init, List.getElem?_cons_zero, Option.some.injEq] at h
    subst h
    exact ⟨rfl, rfl, rfl⟩
  · intro i nd h1 h
    exfalso
    obtain ⟨k, rfl⟩ : ∃ k, i = k + 1 := ⟨i - 1, by omega⟩
    simp [PB.init, SB.init] at h

/-! ### the model after one movable body was added (no fixed bodies) -/

section Movable
variable (m : ModelS α) (parent : Nat) (frame : XT α) (j : Joint α) (b : Body α) (name : String)

theorem mpOf_nofixed (hnf : m.fixedBodies = []) : m.mpOf parent = parent := by
  unfold ModelS.mpOf ModelS.isFixedBodyId
  rw [hnf]; simp

theorem mpXOf_nofixed (hnf : m.fixedBodies = []) : m.mpXOf parent = XT.id := by
  unfold ModelS.mpXOf ModelS.isFixedBodyId
  rw [hnf]; simp

theorem mr_nBodies : (m.movableResult parent frame j b name).nBodies = m.nBodies + 1 := by
  simp [ModelS.movableResult, ModelS.nBodies]

theorem mr_lam_old (hwf : m.WF) (i : Nat) (hi : i < m.nBodies) :
    (m.movableResult parent frame j b name).lam i = m.lam i := by
  unfold ModelS.lam ModelS.movableResult
  exact getD_append_left _ _ _ _ (by rw [hwf.len_lambda]; exact hi)

theorem mr_lam_new (hwf : m.WF) :
    (m.movableResult parent frame j b name).lam m.nBodies = m.mpOf parent := by
  unfold ModelS.lam ModelS.movableResult
  exact getD_append_last' _ _ _ _ hwf.len_lambda.symm

theorem mr_joint_old (hwf : m.WF) (i : Nat) (hi : i < m.nBodies) :
    (m.movableResult parent frame j b name).joint i = m.joint i := by
  unfold ModelS.joint ModelS.movableResult
  exact getD_append_left _ _ _ _ (by rw [hwf.len_joints]; exact hi)

theorem mr_joint_new (hwf : m.WF) :
    (m.movableResult parent frame j b name).joint m.nBodies = { j with qIndex := m.dofCount } := by
  have hl3 := hwf.len_joints
  have hnb := hwf.nb_pos
  have hlast : m.joints.getLastD Joint.root = m.joint (m.nBodies - 1) := by
    rw [getLastD_eq_getD, hl3]; rfl
  unfold ModelS.joint ModelS.movableResult
  dsimp only
  rw [getD_append_last' _ _ _ _ hl3.symm]
  unfold ModelS.newJoint
  rw [hlast, hwf.q_last]

theorem mr_XT_old (hwf : m.WF) (i : Nat) (hi : i < m.nBodies) :
    (m.movableResult parent frame j b name).XT_ i = m.XT_ i := by
  unfold ModelS.XT_ ModelS.movableResult
  exact getD_append_left _ _ _ _ (by rw [hwf.len_xT]; exact hi)

theorem mr_XT_new (hwf : m.WF) (hnf : m.fixedBodies = []) :
    (m.movableResult parent frame j b name).XT_ m.nBodies = frame := by
  unfold ModelS.XT_ ModelS.movableResult
  dsimp only
  rw [getD_append_last' _ _ _ _ hwf.len_xT.symm, mpXOf_nofixed m parent hnf, C16.mul_id]

theorem mr_body_old (i : Nat) (hi : i < m.nBodies) :
    (m.movableResult parent frame j b name).body i = m.body i := by
  unfold ModelS.body ModelS.movableResult
  exact getD_append_left _ _ _ _ hi

theorem mr_body_new : (m.movableResult parent frame j b name).body m.nBodies = b := by
  unfold ModelS.body ModelS.movableResult
  exact getD_append_last _ _ _

theorem mr_rbi_old (hwf : m.WF) (i : Nat) (hi : i < m.nBodies) :
    (m.movableResult parent frame j b name).rbi i = m.rbi i := by
  unfold ModelS.rbi ModelS.movableResult
  exact getD_append_left _ _ _ _ (by rw [hwf.len_I]; exact hi)

theorem mr_rbi_new (hwf : m.WF) :
    (m.movableResult parent frame j b name).rbi m.nBodies
      = RBI.ofMassComInertiaC b.mass b.com b.inertia := by
  unfold ModelS.rbi ModelS.movableResult
  exact getD_append_last' _ _ _ _ hwf.len_I.symm

theorem mr_sjoint_old (hwf : m.WF) (i : Nat) (hi : i < m.nBodies) :
    (m.movableResult parent frame j b name).sjoint i = m.sjoint i := by
  unfold ModelS.sjoint
  rw [mr_joint_old m parent frame j b name hwf i hi]
  rfl

theorem mr_joint_out (hwf : m.WF) (i : Nat) (hi : m.nBodies < i) :
    (m.movableResult parent frame j b name).joint i = Joint.root := by
  unfold ModelS.joint ModelS.movableResult
  dsimp only
  rw [List.getD_eq_getElem?_getD, List.getElem?_eq_none]
  · rfl
  · rw [List.length_append, hwf.len_joints]; simp; omega

end Movable

/-- **one step of the simulation**: adding one movable body on both sides -/
theorem sim_movable (m : ModelS α) (p : PB α) (hS : Sim m p) (parent : Nat) (frame : XT α)
    (j : Joint α) (b : Body α) (name : String) (hp : parent < m.nBodies) (hE : frame.E.IsRot)
    (hj : GoodJoint j) (hb : GoodBody b) (hn : ¬(name ≠ "" ∧ m.hasName name)) :
    Sim (m.movableResult parent frame j b name) (p.add parent frame (descOf j) b) := by
  have hwf := hS.ok.wf
  obtain ⟨he, hsj, hdof⟩ := expand_descOf j hj
  have hwf' : (m.movableResult parent frame j b name).WF :=
    ModelS.wf_movableResult m hwf parent frame j b name (Or.inl hp)
      (fun hc => absurd hc hj.2.1) hn
  have hnb' := mr_nBodies m parent frame j b name
  -- the joints of the new model
  have hjt : ∀ i, ((m.movableResult parent frame j b name).joint i).jt ≠ .custom := by
    intro i
    rcases Nat.lt_trichotomy i m.nBodies with h | h | h
    · rw [mr_joint_old m parent frame j b name hwf i h]; exact hS.nocustom i
    · subst h; rw [mr_joint_new m parent frame j b name hwf]; exact hj.2.1
    · rw [mr_joint_out m parent frame j b name hwf i h]; exact fun e => nomatch e
  -- the builder after the step
  have hadd : p.add parent frame (descOf j) b
      = ⟨{ p.sb with
            M := { p.sb.M with nodes := p.sb.M.nodes ++
              [singleNode p.sb parent frame.E frame.r (jointSj j) b.mass b.com b.inertia] },
            nMovable := p.sb.nMovable + 1,
            idMap := p.sb.idMap ++ [(p.sb.nMovable, p.sb.M.nodes.length, p.sb.M.nodes.length)] },
         p.sb.nMovable⟩ := by
    unfold PB.add
    rw [add_single p.sb parent frame.E frame.r (descOf j) (jointSj j) b.mass b.com b.inertia he hsj]
    rfl
  rw [hadd]
  have hold : ∀ i nd, 1 ≤ i → i < m.nBodies → NodePre m i nd →
      NodePre (m.movableResult parent frame j b name) i nd := by
    intro i nd i1 i2 h
    exact ⟨by rw [mr_lam_old m parent frame j b name hwf i i2]; exact h.parent,
      by rw [mr_XT_old m parent frame j b name hwf i i2]; exact h.E,
      by rw [mr_XT_old m parent frame j b name hwf i i2]; exact h.r,
      by rw [mr_sjoint_old m parent frame j b name hwf i i2]; exact h.joint,
      by rw [mr_joint_old m parent frame j b name hwf i i2]; exact h.qIdx,
      h.apiId, h.movableId,
      by rw [mr_body_old m parent frame j b name i i2]; exact h.virt,
      by rw [mr_rbi_old m parent frame j b name hwf i i2]; exact h.rbi, h.symm⟩
  refine ⟨⟨hwf', ?_, ?_, ?_, ?_⟩, hS.nofixed, hjt, ?_, ?_, ?_, ?_, hS.gravity, ?_, ?_, ?_⟩
  · -- cinj
    intro i k hi; exact absurd hi (hjt i)
  · -- jc
    intro i i1 i2
    rw [hnb'] at i2
    by_cases h : i < m.nBodies
    · rw [mr_joint_old m parent frame j b name hwf i h]; exact hS.ok.jc i i1 h
    · have : i = m.nBodies := by omega
      subst this; rw [mr_joint_new m parent frame j b name hwf]; exact hj.1
  · -- decl
    intro i i1 i2
    rw [hnb'] at i2
    by_cases h : i < m.nBodies
    · rw [mr_joint_old m parent frame j b name hwf i h]; exact hS.ok.decl i i1 h
    · have : i = m.nBodies := by omega
      subst this; rw [mr_joint_new m parent frame j b name hwf]; exact hj.2.2.1
  · -- frames
    intro i i1 i2
    rw [hnb'] at i2
    by_cases h : i < m.nBodies
    · rw [mr_XT_old m parent frame j b name hwf i h]; exact hS.ok.frame i i1 h
    · have : i = m.nBodies := by omega
      subst this; rw [mr_XT_new m parent frame j b name hwf hS.nofixed]; exact hE
  · -- prev
    show p.sb.nMovable = m.bodies.length
    exact hS.nmov
  · -- len
    show (p.sb.M.nodes ++ _).length = _
    rw [List.length_append, hS.len, hnb']; rfl
  · -- nmov
    show p.sb.nMovable + 1 = _
    rw [hS.nmov, hnb']
  · -- idmap
    show p.sb.idMap ++ _ = _
    rw [hS.idmap, hS.nmov, hS.len, hnb', idMapN_succ]
  · -- nv
    show ({ p.sb.M with nodes := p.sb.M.nodes ++ _ } : SModel α).nv = _
    rw [nv_append, hS.nv]
    show m.dofCount + (jointSj j).dof = m.dofCount + j.dof
    rw [hdof]
  · -- base
    intro nd h
    have h0 : 0 < p.sb.M.nodes.length := by rw [hS.len]; exact hwf.nb_pos
    have : (p.sb.M.nodes ++
        [singleNode p.sb parent frame.E frame.r (jointSj j) b.mass b.com b.inertia])[0]?
        = p.sb.M.nodes[0]? := List.getElem?_append_left h0
    exact hS.base nd (this ▸ h)
  · -- nodes
    intro i nd i1 h
    have h' : (p.sb.M.nodes ++
        [singleNode p.sb parent frame.E frame.r (jointSj j) b.mass b.com b.inertia])[i]? = some nd := h
    by_cases hi : i < m.nBodies
    · rw [List.getElem?_append_left (by rw [hS.len]; exact hi)] at h'
      exact hold i nd i1 hi (hS.node i nd i1 h')
    · have hlen : i < (p.sb.M.nodes ++
          [singleNode p.sb parent frame.E frame.r (jointSj j) b.mass b.com b.inertia]).length := by
        rcases Nat.lt_or_ge i (p.sb.M.nodes ++
          [singleNode p.sb parent frame.E frame.r (jointSj j) b.mass b.com b.inertia]).length with h1 | h1
        · exact h1
        · rw [List.getElem?_eq_none h1] at h'; cases h'
      rw [List.length_append, hS.len] at hlen
      have hi' : i = m.nBodies := by simp at hlen; omega
      subst hi'
      rw [List.getElem?_append_right (by rw [hS.len]; exact Nat.le_refl _), hS.len, Nat.sub_self]
        at h'
      simp only [List.getElem?_cons_zero, Option.some.injEq] at h'
      subst h'
      refine ⟨?_, ?_, ?_, ?_, ?_, ?_, ?_, ?_, ?_, ?_⟩
      · show p.sb.nodeOf parent = _
        rw [mr_lam_new m parent frame j b name hwf, mpOf_nofixed m parent hS.nofixed,
          nodeOf_idMapN p.sb m.nBodies parent hS.idmap hp]
      · show frame.E = _
        rw [mr_XT_new m parent frame j b name hwf hS.nofixed]
      · show frame.r = _
        rw [mr_XT_new m parent frame j b name hwf hS.nofixed]
      · show (jointSj j) = _
        rw [sjoint_eq_sj _ _ (hjt m.nBodies), mr_joint_new m parent frame j b name hwf]
        rfl
      · show p.sb.M.nv = _
        rw [mr_joint_new m parent frame j b name hwf, hS.nv]
      · exact hS.nmov
      · exact hS.nmov
      · show true = _
        rw [mr_body_new, hb.1]; rfl
      · intro _
        exact mr_rbi_new m parent frame j b name hwf
      · intro _
        exact hb.2

/-! ### the step function -/

theorem prev_lt {m : ModelS α} {p : PB α} (hS : Sim m p) : m.prevBodyId < m.nBodies := by
  rcases hS.ok.wf.prev_ok with h | h
  · exact h
  · exfalso
    unfold ModelS.isFixedBodyId at h
    rw [hS.nofixed] at h
    simp at h

theorem validId_lt {m : ModelS α} {p : PB α} (hS : Sim m p) (id : Nat) (h : m.validId id) :
    id < m.nBodies := by
  rcases h with h | h
  · exact h
  · exfalso
    unfold ModelS.isFixedBodyId at h
    rw [hS.nofixed] at h
    simp at h

theorem hasJcalc_single (t : JT) (h : t.hasJcalc = true) : t.kind = .single := by
  cases t <;> first | rfl | (simp [JT.hasJcalc] at h)

theorem sim_addBody (m : ModelS α) (p : PB α) (hS : Sim m p) (parent : Nat) (frame : XT α)
    (j : Joint α) (b : Body α) (name : String) (hp : parent < m.nBodies) (hE : frame.E.IsRot)
    (hj : GoodJoint j) (hb : GoodBody b) (id : Nat)
    (hok : (m.addBody parent frame j b name).2 = .ok id) :
    Sim (m.addBody parent frame j b name).1 (p.add parent frame (descOf j) b) := by
  rw [ModelS.addBody_eq] at hok ⊢
  by_cases hd : name ≠ "" ∧ m.hasName name
  · rw [if_pos hd] at hok; cases hok
  · rw [if_neg hd] at hok ⊢
    rw [hasJcalc_single _ hj.1] at hok ⊢
    show Sim (m.addBodyMovable parent frame j b name).1 _
    rw [ModelS.addBodyMovable_eq, if_neg hd]
    exact sim_movable m p hS parent frame j b name hp hE hj hb hd

theorem sim_step (m : ModelS α) (p : PB α) (hS : Sim m p) (op : Op α) (hv : op.valid m)
    (hs : Op.simple op) (id : Nat) (hok : (m.step op).2 = .ok id) :
    Sim (m.step op).1 (p.step op) := by
  cases op with
  | addBody parent frame j b name =>
    exact sim_addBody m p hS parent frame j b name (validId_lt hS parent hv.1) hs.1 hs.2.1 hs.2.2
      id hok
  | appendBody frame j b name =>
    show Sim (m.addBody m.prevBodyId frame j b name).1 (p.add p.prev frame (descOf j) b)
    rw [hS.prev]
    exact sim_addBody m p hS m.prevBodyId frame j b name (prev_lt hS) hs.1 hs.2.1 hs.2.2 id hok
  | addBodyCustomJoint parent frame k b name => exact hs.elim

theorem sim_run (ops : List (Op α)) : ∀ (m : ModelS α) (p : PB α), Sim m p → goodRun m ops →
    Sim (m.run ops) (p.run ops) := by
  induction ops with
  | nil => intro m p h _; exact h
  | cons op ops ih =>
    intro m p hS hg
    obtain ⟨hv, hs, ⟨id, hok⟩, hrest⟩ := hg
    exact ih _ _ (sim_step m p hS op hv hs id hok) hrest

end
end Rbdl.L01Cap
