import RbdlProofs.Lemmas.Loops
import RbdlProofs.Props.C16
import RbdlProofs.Lemmas.Kin04
/-
  Helper lemmas for C12 (centre of mass, zero-moment point, energies): additive-monoid laws of the
  spatial types, linearity / functoriality of the transposed transforms, the loops of
  `rbdl_utils.cc` as named functions.
-/
namespace Rbdl.L12
open Lean.Grind Rbdl Rbdl.Loops

section Algebra
variable {α : Type} [CommRing α]

theorem ring_addLaws : AddLaws (0 : α) := ⟨by intros; grind, by intros; grind, by intros; grind⟩
theorem v3_addLaws : AddLaws (V3.zero : V3 α) :=
  ⟨by intros; alg_ext, by intros; alg_ext, by intros; alg_ext⟩
theorem sv_addLaws : AddLaws (SV.zero : SV α) :=
  ⟨by intros; alg_ext, by intros; alg_ext, by intros; alg_ext⟩
theorem rbi_addLaws : AddLaws (RBI.zero : RBI α) :=
  ⟨by intros; alg_ext, by intros; alg_ext, by intros; alg_ext⟩
theorem sm_addLaws : AddLaws (SM.zero : SM α) :=
  ⟨by intros; alg_ext, by intros; alg_ext, by intros; alg_ext⟩

theorem applyTranspose_add (X : XT α) (a b : SV α) :
    X.applyTranspose (a + b) = X.applyTranspose a + X.applyTranspose b := by alg_ext
theorem applyTransposeRBI_add (X : XT α) (A B : RBI α) :
    X.applyTransposeRBI (A + B) = X.applyTransposeRBI A + X.applyTransposeRBI B := by alg_ext

theorem mul_applyTranspose (X Y : XT α) (h : Y.E.IsRot) (f : SV α) :
    (X * Y).applyTranspose f = Y.applyTranspose (X.applyTranspose f) := by rot_ext h

theorem tmulVec_mul (A B : M3 α) (v : V3 α) : (A * B).tmulVec v = B.tmulVec (A.tmulVec v) := by
  alg_ext

theorem m3_mul_assoc (A B C : M3 α) : A * B * C = A * (B * C) := by alg_ext
theorem m3_transpose_mul (A B : M3 α) : (A * B).transpose = B.transpose * A.transpose := by
  alg_ext

theorem conj_mul (A B M : M3 α) :
    (A * B).transpose * M * (A * B) = B.transpose * (A.transpose * M * A) * B := by
  rw [m3_transpose_mul]
  simp only [m3_mul_assoc]

theorem conj_Imat_symm (A : M3 α) (I : RBI α) :
    (A.transpose * I.Imat * A).transpose = A.transpose * I.Imat * A := by alg_ext

/-- auxiliary for `mul_applyTransposeRBI`: transforming by `Y` the inertia `(m, u, K)` shifted by
    `xr` is the same as shifting by `Y.r + Yᵀ xr` after rotating (`K` symmetric, `Y` a rotation) -/
theorem aTR_shift (Y : XT α) (h : Y.E.IsRot) (m : α) (u xr : V3 α) (K : M3 α)
    (hK : K.transpose = K) :
    RBI.ofMat m (Y.E.tmulVec u + m * (Y.r + Y.E.tmulVec xr))
      (Y.E.transpose * K * Y.E
        - M3.skew (Y.r + Y.E.tmulVec xr) * M3.skew (Y.E.tmulVec u)
        - M3.skew (Y.E.tmulVec u + m * (Y.r + Y.E.tmulVec xr)) * M3.skew (Y.r + Y.E.tmulVec xr))
      = Y.applyTransposeRBI
          (RBI.ofMat m (u + m * xr) (K - M3.skew xr * M3.skew u - M3.skew (u + m * xr) * M3.skew xr))
    := by
  simp only [M3.transpose, M3.ext_iff] at hK
  rot_ext h

/-- `(X Y)ᵀ I (X Y) = Yᵀ (Xᵀ I X) Y` on rigid-body inertias (only `Y` must be a rotation) -/
theorem mul_applyTransposeRBI (X Y : XT α) (h : Y.E.IsRot) (I : RBI α) :
    (X * Y).applyTransposeRBI I = Y.applyTransposeRBI (X.applyTransposeRBI I) := by
  show RBI.ofMat I.m ((X.E * Y.E).tmulVec I.h + I.m * (Y.r + Y.E.tmulVec X.r))
      ((X.E * Y.E).transpose * I.Imat * (X.E * Y.E)
        - M3.skew (Y.r + Y.E.tmulVec X.r) * M3.skew ((X.E * Y.E).tmulVec I.h)
        - M3.skew ((X.E * Y.E).tmulVec I.h + I.m * (Y.r + Y.E.tmulVec X.r))
            * M3.skew (Y.r + Y.E.tmulVec X.r)) = _
  rw [tmulVec_mul, conj_mul]
  exact aTR_shift Y h I.m (X.E.tmulVec I.h) X.r _ (conj_Imat_symm X.E I)

theorem rbi_lsum_m (f : Nat → RBI α) (l : List Nat) :
    (lsum RBI.zero f l).m = lsum 0 (fun i => (f i).m) l :=
  lsum_map RBI.zero 0 (fun I : RBI α => I.m) rfl (fun _ _ => rfl) f l
theorem rbi_lsum_h (f : Nat → RBI α) (l : List Nat) :
    (lsum RBI.zero f l).h = lsum V3.zero (fun i => (f i).h) l :=
  lsum_map RBI.zero V3.zero (fun I : RBI α => I.h) rfl (fun _ _ => rfl) f l
theorem sv_lsum_v (f : Nat → SV α) (l : List Nat) :
    (lsum SV.zero f l).v = lsum V3.zero (fun i => (f i).v) l :=
  lsum_map SV.zero V3.zero (fun x : SV α => x.v) rfl (fun _ _ => rfl) f l
theorem v3_lsum_dot (f : Nat → V3 α) (g : V3 α) (l : List Nat) :
    (lsum V3.zero f l).dot g = lsum 0 (fun i => (f i).dot g) l :=
  lsum_map V3.zero 0 (fun x : V3 α => x.dot g) (by simp only [alg]; grind)
    (fun a b => by simp only [alg]; grind) f l

theorem applyTransposeRBI_m (X : XT α) (I : RBI α) : (X.applyTransposeRBI I).m = I.m := rfl
theorem applyTransposeRBI_h (X : XT α) (I : RBI α) :
    (X.applyTransposeRBI I).h = X.E.tmulVec I.h + I.m * X.r := rfl
theorem applyTranspose_v (X : XT α) (f : SV α) : (X.applyTranspose f).v = X.E.tmulVec f.v := rfl

/-- closed form of the last lines of `CalcZeroMomentPoint`: moving the net wrench to the centre of
    mass, removing the weight and moving back -/
theorem zmp_wrench (com g : V3 α) (mass : α) (hd : SV α) :
    (Xtrans com).inverse.applyAdjoint
        ((Xtrans com).applyAdjoint hd - mass * (⟨V3.zero, g⟩ : SV α))
      = ⟨hd.w - com.cross (mass * g), hd.v - mass * g⟩ := by alg_ext

end Algebra

section FieldAlg
variable {α : Type} [Field α]

/-- the point returned by `CalcZeroMomentPoint` for plane normal `n`, plane point `p`, net moment
    `n0` (about the origin) and net force `f` -/
def zmpPoint (n p n0 f : V3 α) : V3 α := (1 / n.dot f) * (n.cross n0 + n.dot p * f)

/-- `Σ mᵢ`, `Σ mᵢ cᵢ`, `Σ mᵢ cᵢ·(-g)` of a list of point masses -/
def massSum : List (α × V3 α) → α
  | [] => 0
  | p :: l => p.1 + massSum l
def momentSum : List (α × V3 α) → V3 α
  | [] => V3.zero
  | p :: l => p.1 * p.2 + momentSum l
def peSum (g : V3 α) : List (α × V3 α) → α
  | [] => 0
  | p :: l => p.1 * p.2.dot (-g) + peSum g l

theorem peSum_eq (g : V3 α) (l : List (α × V3 α)) : peSum g l = (momentSum l).dot (-g) := by
  induction l with
  | nil => simp only [peSum, momentSum, alg]; grind
  | cons p l ih => rw [peSum, momentSum, ih]; simp only [alg]; grind

end FieldAlg

section Model
variable {α : Type} [Field α]

/-- the kinematics step of `calcCenterOfMass` -/
def comKin (m : ModelS α) (w : WS α) (st : QS α) (qd : VecN α) (qdd : Option (VecN α))
    (update : Bool) : WS α :=
  if update then updateKinematicsCustom m w (some st) (some qd) qdd else w

/-- `hdot_c[i]` as `calcCenterOfMass` computes it -/
def comHd (w : WS α) (i : Nat) : SV α := w.Ic i * w.a i + crossf (w.v i) (w.Ic i * w.v i)

/-- body of the initialisation loop of `calcCenterOfMass` -/
def comInitBody (m : ModelS α) (i : Nat) (w : WS α) : WS α :=
  let w := { w with Ic := upd w.Ic i (m.rbi i) }
  let w := { w with hc := upd w.hc i ((w.Ic i).toMatrix * w.v i) }
  { w with hdotc := upd w.hdotc i (comHd w i) }

/-- the workspace `calcCenterOfMass` starts its backward loops from (`w0` = after kinematics) -/
def comInit (m : ModelS α) (w0 : WS α) (doAcc : Bool) : WS α :=
  let n := m.nBodies - 1
  let w := forUp n 1 (comInitBody m) w0
  if doAcc then forUp n 1 (fun i w => { w with hdotc := upd w.hdotc i (comHd w i) }) w else w

/-- body of the first backward loop of `calcCenterOfMass` -/
def comBody (m : ModelS α) (i : Nat) (s : WS α × RBI α × SV α) : WS α × RBI α × SV α :=
  let (w, Itot, htot) := s
  let lam := m.lam i
  let X := w.X_lambda i
  if lam ≠ 0 then
    ({ w with Ic := upd w.Ic lam (w.Ic lam + X.applyTransposeRBI (w.Ic i))
              hc := upd w.hc lam (w.hc lam + X.applyTranspose (w.hc i)) }, Itot, htot)
  else (w, Itot + X.applyTransposeRBI (w.Ic i), htot + X.applyTranspose (w.hc i))

/-- first backward loop of `calcCenterOfMass`: final workspace, `Itot`, `htot` -/
def comBwd (m : ModelS α) (w1 : WS α) : WS α × RBI α × SV α :=
  forDown (m.nBodies - 1) (m.nBodies - 1) (comBody m) (w1, RBI.ofMat 0 V3.zero M3.zero, SV.zero)

/-- `(Itot, htot)` of `calcCenterOfMass` -/
def comTotals (m : ModelS α) (w : WS α) (st : QS α) (qd : VecN α) (qdd : Option (VecN α))
    (wantAcc update : Bool) : RBI α × SV α :=
  (comBwd m (comInit m (comKin m w st qd qdd update) (qdd.isSome && wantAcc))).2

theorem com_mass_eq (m : ModelS α) (w : WS α) (st : QS α) (qd : VecN α) (qdd : Option (VecN α))
    (wantAcc update : Bool) :
    (calcCenterOfMass m w st qd qdd wantAcc update).2.mass
      = (comTotals m w st qd qdd wantAcc update).1.m := rfl

theorem com_com_eq (m : ModelS α) (w : WS α) (st : QS α) (qd : VecN α) (qdd : Option (VecN α))
    (wantAcc update : Bool) :
    (calcCenterOfMass m w st qd qdd wantAcc update).2.com
      = (1 / (comTotals m w st qd qdd wantAcc update).1.m) * (comTotals m w st qd qdd wantAcc update).1.h := rfl

theorem com_comVel_eq (m : ModelS α) (w : WS α) (st : QS α) (qd : VecN α) (qdd : Option (VecN α))
    (wantAcc update : Bool) :
    (calcCenterOfMass m w st qd qdd wantAcc update).2.comVel
      = (1 / (comTotals m w st qd qdd wantAcc update).1.m) * (comTotals m w st qd qdd wantAcc update).2.v := rfl

theorem com_angMom_eq (m : ModelS α) (w : WS α) (st : QS α) (qd : VecN α) (qdd : Option (VecN α))
    (wantAcc update : Bool) :
    (calcCenterOfMass m w st qd qdd wantAcc update).2.angMom
      = ((Xtrans (calcCenterOfMass m w st qd qdd wantAcc update).2.com).applyAdjoint
          (comTotals m w st qd qdd wantAcc update).2).w := rfl

/-! ### the initialisation loop -/

theorem comInitBody_Ic (m : ModelS α) (i : Nat) (w : WS α) :
    (comInitBody m i w).Ic = upd w.Ic i (m.rbi i) := rfl
theorem comInitBody_hc (m : ModelS α) (i : Nat) (w : WS α) :
    (comInitBody m i w).hc = upd w.hc i ((m.rbi i).toMatrix * w.v i) := by
  unfold comInitBody; simp only [upd_same]

/-- the fields the initialisation loops do not write -/
theorem comInit_keep {τ : Type} (view : WS α → τ)
    (hv : ∀ (w : WS α) Ic hc hdotc, view { w with Ic := Ic, hc := hc, hdotc := hdotc } = view w)
    (m : ModelS α) (w0 : WS α) (doAcc : Bool) : view (comInit m w0 doAcc) = view w0 := by
  have h1 : view (forUp (m.nBodies - 1) 1 (comInitBody m) w0) = view w0 :=
    forUp_keep view _ _ _ (fun i s _ _ => hv s _ _ _) w0
  unfold comInit
  dsimp only
  split
  · rw [forUp_keep view _ _ _ (fun i s _ _ => hv s s.Ic s.hc _), h1]
  · exact h1

theorem comInit_X_lambda (m : ModelS α) (w0 : WS α) (doAcc : Bool) :
    (comInit m w0 doAcc).X_lambda = w0.X_lambda :=
  comInit_keep (fun w => w.X_lambda) (fun _ _ _ _ => rfl) m w0 doAcc
theorem comInit_X_base (m : ModelS α) (w0 : WS α) (doAcc : Bool) :
    (comInit m w0 doAcc).X_base = w0.X_base :=
  comInit_keep (fun w => w.X_base) (fun _ _ _ _ => rfl) m w0 doAcc
theorem comInit_v (m : ModelS α) (w0 : WS α) (doAcc : Bool) :
    (comInit m w0 doAcc).v = w0.v :=
  comInit_keep (fun w => w.v) (fun _ _ _ _ => rfl) m w0 doAcc

/-- the second (optional) initialisation loop writes `hdotc` only -/
theorem comInit_acc {τ : Type} (view : WS α → τ)
    (hv : ∀ (w : WS α) hdotc, view { w with hdotc := hdotc } = view w)
    (m : ModelS α) (w0 : WS α) (doAcc : Bool) :
    view (comInit m w0 doAcc) = view (forUp (m.nBodies - 1) 1 (comInitBody m) w0) := by
  unfold comInit
  dsimp only
  split
  · exact forUp_keep view _ _ _ (fun i s _ _ => hv s _) _
  · rfl

/-- `Ic[i] = I_i` after initialisation -/
theorem comInit_Ic (m : ModelS α) (w0 : WS α) (doAcc : Bool) (i : Nat) (h1 : 1 ≤ i)
    (h2 : i ≤ m.nBodies - 1) : (comInit m w0 doAcc).Ic i = m.rbi i := by
  rw [comInit_acc (fun w => w.Ic) (fun _ _ => rfl) m w0 doAcc]
  rw [forUp_get_inside (fun s => s.Ic) (comInitBody m)
    (fun i s j hj => by rw [comInitBody_Ic, upd_other _ _ _ _ hj]) _ _ _ i h1 (by omega)]
  rw [comInitBody_Ic, upd_same]

/-- `hc[i] = I_i v_i` after initialisation -/
theorem comInit_hc (m : ModelS α) (w0 : WS α) (doAcc : Bool) (i : Nat) (h1 : 1 ≤ i)
    (h2 : i ≤ m.nBodies - 1) : (comInit m w0 doAcc).hc i = m.rbi i * w0.v i := by
  rw [comInit_acc (fun w => w.hc) (fun _ _ => rfl) m w0 doAcc]
  rw [forUp_get_inside (fun s => s.hc) (comInitBody m)
    (fun i s j hj => by rw [comInitBody_hc, upd_other _ _ _ _ hj]) _ _ _ i h1 (by omega)]
  rw [comInitBody_hc, upd_same, C16.rbi_mulVec_eq]
  have hv : (forUp (i - 1) 1 (comInitBody m) w0).v = w0.v :=
    forUp_keep (fun w => w.v) (comInitBody m) _ _ (fun i s _ _ => rfl) w0
  rw [hv]

/-! ### the backward loop as two instances of the generic accumulation with a total -/

/-- `Ic[λ] += X_λᵀ Ic[i] X_λ` -/
def TI (Xl : Nat → XT α) (c : Nat) (x : RBI α) : RBI α := (Xl c).applyTransposeRBI x
/-- `hc[λ] += X_λᵀ hc[i]` -/
def Th (Xl : Nat → XT α) (c : Nat) (x : SV α) : SV α := (Xl c).applyTranspose x

theorem comBody_X_lambda (m : ModelS α) (i : Nat) (s : WS α × RBI α × SV α) :
    (comBody m i s).1.X_lambda = s.1.X_lambda := by
  obtain ⟨w, It, ht⟩ := s
  unfold comBody; dsimp only; split <;> rfl

theorem comBody_I (m : ModelS α) (i : Nat) (s : WS α × RBI α × SV α) :
    ((comBody m i s).1.Ic, (comBody m i s).2.1)
      = totAddBody m.lam (TI s.1.X_lambda) i (s.1.Ic, s.2.1) := by
  obtain ⟨w, It, ht⟩ := s
  show _ = totBody _ _ _ _ _
  unfold comBody totBody; dsimp only [TI]; split <;> rfl

theorem comBody_h (m : ModelS α) (i : Nat) (s : WS α × RBI α × SV α) :
    ((comBody m i s).1.hc, (comBody m i s).2.2)
      = totAddBody m.lam (Th s.1.X_lambda) i (s.1.hc, s.2.2) := by
  obtain ⟨w, It, ht⟩ := s
  show _ = totBody _ _ _ _ _
  unfold comBody totBody; dsimp only [Th]; split <;> rfl

theorem comBwd_I (m : ModelS α) (w1 : WS α) :
    ((comBwd m w1).1.Ic, (comBwd m w1).2.1)
      = forDown (m.nBodies - 1) (m.nBodies - 1) (totAddBody m.lam (TI w1.X_lambda))
          (w1.Ic, RBI.zero) :=
  (forDown_sim (fun s t => s.1.X_lambda = w1.X_lambda ∧ (s.1.Ic, s.2.1) = t)
    (comBody m) (totAddBody m.lam (TI w1.X_lambda)) _ _
    (fun i s t _ _ h => ⟨by rw [comBody_X_lambda, h.1], by rw [comBody_I, h.1, h.2]⟩)
    (w1, RBI.ofMat 0 V3.zero M3.zero, SV.zero) (w1.Ic, RBI.zero) ⟨rfl, rfl⟩).2

theorem comBwd_h (m : ModelS α) (w1 : WS α) :
    ((comBwd m w1).1.hc, (comBwd m w1).2.2)
      = forDown (m.nBodies - 1) (m.nBodies - 1) (totAddBody m.lam (Th w1.X_lambda))
          (w1.hc, SV.zero) :=
  (forDown_sim (fun s t => s.1.X_lambda = w1.X_lambda ∧ (s.1.hc, s.2.2) = t)
    (comBody m) (totAddBody m.lam (Th w1.X_lambda)) _ _
    (fun i s t _ _ h => ⟨by rw [comBody_X_lambda, h.1], by rw [comBody_h, h.1, h.2]⟩)
    (w1, RBI.ofMat 0 V3.zero M3.zero, SV.zero) (w1.hc, SV.zero) ⟨rfl, rfl⟩).2

/-- the workspace is kinematically consistent on bodies `1..n`: `X_base[i] = X_λ[i] X_base[λ i]`
    (`X_λ[i]` for bodies attached to the root) and all `X_base[i]` are rotations + translations -/
structure KinOK (m : ModelS α) (w : WS α) : Prop where
  tree : ∀ i, 1 ≤ i → i ≤ m.nBodies - 1 → m.lam i < i
  base : ∀ i, 1 ≤ i → i ≤ m.nBodies - 1 →
    w.X_base i = if m.lam i ≠ 0 then w.X_lambda i * w.X_base (m.lam i) else w.X_lambda i
  rot : ∀ i, 1 ≤ i → i ≤ m.nBodies - 1 → (w.X_base i).E.IsRot

/-- generic step shared by all totals: the accumulation with transport `X_λᵀ·` sums the start
    values transported by `X_baseᵀ·` -/
theorem total_I (m : ModelS α) (w1 : WS α) (hk : KinOK m w1) (arr : Nat → RBI α) :
    (forDown (m.nBodies - 1) (m.nBodies - 1) (totAddBody m.lam (TI w1.X_lambda))
        (arr, RBI.zero)).2
      = lsum RBI.zero (fun i => (w1.X_base i).applyTransposeRBI (arr i))
          (List.range' 1 (m.nBodies - 1)) := by
  rw [tot_path_sum m.lam (TI w1.X_lambda) rbi_addLaws
    (fun c a b => applyTransposeRBI_add _ a b) _ hk.tree _ (Nat.le_refl _), rbi_addLaws.zero_add]
  refine lsum_congr _ _ _ (fun i hi => ?_)
  rw [List.mem_range'_1] at hi
  refine pathT_eq m.lam (TI w1.X_lambda) _ hk.tree (fun i x => (w1.X_base i).applyTransposeRBI x)
    (fun i x h1 h2 => ?_) i hi.1 (by omega) _ (by omega) _
  have hl := hk.tree i h1 h2
  rw [hk.base i h1 h2]
  by_cases h0 : m.lam i = 0
  · rw [if_neg (by simpa using h0), if_pos h0]; rfl
  · rw [if_pos h0, if_neg h0, mul_applyTransposeRBI _ _ (hk.rot _ (by omega) (by omega))]; rfl

theorem total_h (m : ModelS α) (w1 : WS α) (hk : KinOK m w1) (arr : Nat → SV α) :
    (forDown (m.nBodies - 1) (m.nBodies - 1) (totAddBody m.lam (Th w1.X_lambda))
        (arr, SV.zero)).2
      = lsum SV.zero (fun i => (w1.X_base i).applyTranspose (arr i))
          (List.range' 1 (m.nBodies - 1)) := by
  rw [tot_path_sum m.lam (Th w1.X_lambda) sv_addLaws
    (fun c a b => applyTranspose_add _ a b) _ hk.tree _ (Nat.le_refl _), sv_addLaws.zero_add]
  refine lsum_congr _ _ _ (fun i hi => ?_)
  rw [List.mem_range'_1] at hi
  refine pathT_eq m.lam (Th w1.X_lambda) _ hk.tree (fun i x => (w1.X_base i).applyTranspose x)
    (fun i x h1 h2 => ?_) i hi.1 (by omega) _ (by omega) _
  have hl := hk.tree i h1 h2
  rw [hk.base i h1 h2]
  by_cases h0 : m.lam i = 0
  · rw [if_neg (by simpa using h0), if_pos h0]; rfl
  · rw [if_pos h0, if_neg h0, mul_applyTranspose _ _ (hk.rot _ (by omega) (by omega))]; rfl

/-- `Itot = Σ_i X_base[i]ᵀ Ic[i] X_base[i]` (with the `Ic` the loop starts from) -/
theorem comBwd_Itot (m : ModelS α) (w1 : WS α) (hk : KinOK m w1) :
    (comBwd m w1).2.1 = lsum RBI.zero (fun i => (w1.X_base i).applyTransposeRBI (w1.Ic i))
      (List.range' 1 (m.nBodies - 1)) := by
  have h := congrArg Prod.snd (comBwd_I m w1)
  dsimp only at h
  rw [h, total_I m w1 hk]

/-- `htot = Σ_i X_base[i]ᵀ hc[i]` (with the `hc` the loop starts from) -/
theorem comBwd_htot (m : ModelS α) (w1 : WS α) (hk : KinOK m w1) :
    (comBwd m w1).2.2 = lsum SV.zero (fun i => (w1.X_base i).applyTranspose (w1.hc i))
      (List.range' 1 (m.nBodies - 1)) := by
  have h := congrArg Prod.snd (comBwd_h m w1)
  dsimp only at h
  rw [h, total_h m w1 hk]

theorem KinOK.comInit {m : ModelS α} {w0 : WS α} (hk : KinOK m w0) (doAcc : Bool) :
    KinOK m (comInit m w0 doAcc) := by
  constructor
  · exact hk.tree
  · rw [comInit_X_base, comInit_X_lambda]; exact hk.base
  · rw [comInit_X_base]; exact hk.rot

/-! ### `calcZeroMomentPoint` -/

/-- the kinematics step of `calcZeroMomentPoint` -/
def zmpKin (m : ModelS α) (w : WS α) (st : QS α) (qd qdd : VecN α) (update : Bool) : WS α :=
  if update then updateKinematicsCustom m w (some st) (some qd) (some qdd) else w

/-- body of the initialisation loop of `calcZeroMomentPoint` -/
def zmpInitBody (m : ModelS α) (i : Nat) (w : WS α) : WS α :=
  let w := { w with Ic := upd w.Ic i (m.rbi i) }
  { w with hdotc := upd w.hdotc i (w.Ic i * w.a i + crossf (w.v i) (w.Ic i * w.v i)) }

/-- body of the backward loop of `calcZeroMomentPoint` -/
def zmpBody (m : ModelS α) (i : Nat) (s : WS α × RBI α × SV α) : WS α × RBI α × SV α :=
  let (w, Itot, hdtot) := s
  let lam := m.lam i
  let X := w.X_lambda i
  if lam ≠ 0 then
    ({ w with Ic := upd w.Ic lam (w.Ic lam + X.applyTransposeRBI (w.Ic i))
              hc := upd w.hc lam (w.hc lam + X.applyTranspose (w.hc i))
              hdotc := upd w.hdotc lam (w.hdotc lam + X.applyTranspose (w.hdotc i)) }, Itot, hdtot)
  else (w, Itot + X.applyTransposeRBI (w.Ic i), hdtot + X.applyTranspose (w.hdotc i))

def zmpInit (m : ModelS α) (w0 : WS α) : WS α := forUp (m.nBodies - 1) 1 (zmpInitBody m) w0

def zmpBwd (m : ModelS α) (w1 : WS α) : WS α × RBI α × SV α :=
  forDown (m.nBodies - 1) (m.nBodies - 1) (zmpBody m) (w1, RBI.ofMat 0 V3.zero M3.zero, SV.zero)

/-- `(Itot, hdtot)` of `calcZeroMomentPoint` -/
def zmpTotals (m : ModelS α) (w : WS α) (st : QS α) (qd qdd : VecN α) (update : Bool) :
    RBI α × SV α :=
  (zmpBwd m (zmpInit m (zmpKin m w st qd qdd update))).2

/-- the wrench `h3` of `calcZeroMomentPoint` from the totals `(Itot, hdtot)` and gravity -/
def zmpH3 (T : RBI α × SV α) (g : V3 α) : SV α :=
  let mass := T.1.m
  let com := (1 / mass) * T.1.h
  (Xtrans com).inverse.applyAdjoint ((Xtrans com).applyAdjoint T.2 - mass * (⟨V3.zero, g⟩ : SV α))

theorem zmp_raw (m : ModelS α) (w : WS α) (st : QS α) (qd qdd : VecN α) (normal point : V3 α)
    (update : Bool) :
    (calcZeroMomentPoint m w st qd qdd normal point update).2 =
      zmpPoint normal point (zmpH3 (zmpTotals m w st qd qdd update) m.gravity).w
        (zmpH3 (zmpTotals m w st qd qdd update) m.gravity).v := rfl

theorem zmpH3_eq (T : RBI α × SV α) (g : V3 α) :
    zmpH3 T g = ⟨T.2.w - ((1 / T.1.m) * T.1.h).cross (T.1.m * g), T.2.v - T.1.m * g⟩ :=
  zmp_wrench _ _ _ _

theorem zmpInitBody_Ic (m : ModelS α) (i : Nat) (w : WS α) :
    (zmpInitBody m i w).Ic = upd w.Ic i (m.rbi i) := rfl
theorem zmpInitBody_hdotc (m : ModelS α) (i : Nat) (w : WS α) :
    (zmpInitBody m i w).hdotc
      = upd w.hdotc i (m.rbi i * w.a i + crossf (w.v i) (m.rbi i * w.v i)) := by
  unfold zmpInitBody; simp only [upd_same]

theorem zmpInit_keep {τ : Type} (view : WS α → τ)
    (hv : ∀ (w : WS α) Ic hdotc, view { w with Ic := Ic, hdotc := hdotc } = view w)
    (m : ModelS α) (w0 : WS α) (n : Nat) : view (forUp n 1 (zmpInitBody m) w0) = view w0 :=
  forUp_keep view _ _ _ (fun _ s _ _ => hv s _ _) w0

theorem zmpInit_Ic (m : ModelS α) (w0 : WS α) (i : Nat) (h1 : 1 ≤ i) (h2 : i ≤ m.nBodies - 1) :
    (zmpInit m w0).Ic i = m.rbi i := by
  unfold zmpInit
  rw [forUp_get_inside (fun s => s.Ic) (zmpInitBody m)
    (fun i s j hj => by rw [zmpInitBody_Ic, upd_other _ _ _ _ hj]) _ _ _ i h1 (by omega)]
  rw [zmpInitBody_Ic, upd_same]

theorem zmpInit_hdotc (m : ModelS α) (w0 : WS α) (i : Nat) (h1 : 1 ≤ i) (h2 : i ≤ m.nBodies - 1) :
    (zmpInit m w0).hdotc i = m.rbi i * w0.a i + crossf (w0.v i) (m.rbi i * w0.v i) := by
  unfold zmpInit
  rw [forUp_get_inside (fun s => s.hdotc) (zmpInitBody m)
    (fun i s j hj => by rw [zmpInitBody_hdotc, upd_other _ _ _ _ hj]) _ _ _ i h1 (by omega)]
  rw [zmpInitBody_hdotc, upd_same]
  rw [zmpInit_keep (fun w => w.v) (fun _ _ _ => rfl), zmpInit_keep (fun w => w.a) (fun _ _ _ => rfl)]

theorem zmpBody_X_lambda (m : ModelS α) (i : Nat) (s : WS α × RBI α × SV α) :
    (zmpBody m i s).1.X_lambda = s.1.X_lambda := by
  obtain ⟨w, It, ht⟩ := s
  unfold zmpBody; dsimp only; split <;> rfl

theorem zmpBody_I (m : ModelS α) (i : Nat) (s : WS α × RBI α × SV α) :
    ((zmpBody m i s).1.Ic, (zmpBody m i s).2.1)
      = totAddBody m.lam (TI s.1.X_lambda) i (s.1.Ic, s.2.1) := by
  obtain ⟨w, It, ht⟩ := s
  show _ = totBody _ _ _ _ _
  unfold zmpBody totBody; dsimp only [TI]; split <;> rfl

theorem zmpBody_hd (m : ModelS α) (i : Nat) (s : WS α × RBI α × SV α) :
    ((zmpBody m i s).1.hdotc, (zmpBody m i s).2.2)
      = totAddBody m.lam (Th s.1.X_lambda) i (s.1.hdotc, s.2.2) := by
  obtain ⟨w, It, ht⟩ := s
  show _ = totBody _ _ _ _ _
  unfold zmpBody totBody; dsimp only [Th]; split <;> rfl

theorem zmpBwd_I (m : ModelS α) (w1 : WS α) :
    ((zmpBwd m w1).1.Ic, (zmpBwd m w1).2.1)
      = forDown (m.nBodies - 1) (m.nBodies - 1) (totAddBody m.lam (TI w1.X_lambda))
          (w1.Ic, RBI.zero) :=
  (forDown_sim (fun s t => s.1.X_lambda = w1.X_lambda ∧ (s.1.Ic, s.2.1) = t)
    (zmpBody m) (totAddBody m.lam (TI w1.X_lambda)) _ _
    (fun i s t _ _ h => ⟨by rw [zmpBody_X_lambda, h.1], by rw [zmpBody_I, h.1, h.2]⟩)
    (w1, RBI.ofMat 0 V3.zero M3.zero, SV.zero) (w1.Ic, RBI.zero) ⟨rfl, rfl⟩).2

theorem zmpBwd_hd (m : ModelS α) (w1 : WS α) :
    ((zmpBwd m w1).1.hdotc, (zmpBwd m w1).2.2)
      = forDown (m.nBodies - 1) (m.nBodies - 1) (totAddBody m.lam (Th w1.X_lambda))
          (w1.hdotc, SV.zero) :=
  (forDown_sim (fun s t => s.1.X_lambda = w1.X_lambda ∧ (s.1.hdotc, s.2.2) = t)
    (zmpBody m) (totAddBody m.lam (Th w1.X_lambda)) _ _
    (fun i s t _ _ h => ⟨by rw [zmpBody_X_lambda, h.1], by rw [zmpBody_hd, h.1, h.2]⟩)
    (w1, RBI.ofMat 0 V3.zero M3.zero, SV.zero) (w1.hdotc, SV.zero) ⟨rfl, rfl⟩).2

theorem KinOK.zmpInit {m : ModelS α} {w0 : WS α} (hk : KinOK m w0) : KinOK m (zmpInit m w0) := by
  unfold L12.zmpInit
  constructor
  · exact hk.tree
  · rw [zmpInit_keep (fun w => w.X_base) (fun _ _ _ => rfl),
      zmpInit_keep (fun w => w.X_lambda) (fun _ _ _ => rfl)]; exact hk.base
  · rw [zmpInit_keep (fun w => w.X_base) (fun _ _ _ => rfl)]; exact hk.rot

theorem zmpBwd_Itot (m : ModelS α) (w1 : WS α) (hk : KinOK m w1) :
    (zmpBwd m w1).2.1 = lsum RBI.zero (fun i => (w1.X_base i).applyTransposeRBI (w1.Ic i))
      (List.range' 1 (m.nBodies - 1)) := by
  have h := congrArg Prod.snd (zmpBwd_I m w1)
  dsimp only at h
  rw [h, total_I m w1 hk]

theorem zmpBwd_hdtot (m : ModelS α) (w1 : WS α) (hk : KinOK m w1) :
    (zmpBwd m w1).2.2 = lsum SV.zero (fun i => (w1.X_base i).applyTranspose (w1.hdotc i))
      (List.range' 1 (m.nBodies - 1)) := by
  have h := congrArg Prod.snd (zmpBwd_hd m w1)
  dsimp only at h
  rw [h, total_h m w1 hk]

end Model

end Rbdl.L12
