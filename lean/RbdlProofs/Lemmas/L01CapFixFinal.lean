import RbdlProofs.Lemmas.L01CapFixRun
import RbdlProofs.Lemmas.L01CapFinal
/-
  C01 capstone, Stages D + E (end): `SModel.finalize` after the parallel construction gives `RefinesF`.
-/
namespace Rbdl.L01Cap
open Lean.Grind Rbdl Rbdl.Spec Rbdl.L06 Rbdl.L01 Rbdl.Loops
set_option linter.unusedSimpArgs false
set_option linter.unusedVariables false
set_option linter.unusedSectionVars false

section
variable {α : Type} [Field α] [DecidableEq α]

theorem finNode_fields (nv c : Nat) (nd : SNode α) :
    (finNode nv c nd).parent = nd.parent ∧ (finNode nv c nd).E = nd.E ∧
    (finNode nv c nd).r = nd.r ∧ (finNode nv c nd).joint = nd.joint ∧
    (finNode nv c nd).qIdx = nd.qIdx ∧ (finNode nv c nd).apiId = nd.apiId ∧
    (finNode nv c nd).movableId = nd.movableId ∧ (finNode nv c nd).hasBody = nd.hasBody ∧
    (finNode nv c nd).mass = nd.mass ∧ (finNode nv c nd).com = nd.com ∧
    (finNode nv c nd).inertia = nd.inertia := by
  unfold finNode; split <;> exact ⟨rfl, rfl, rfl, rfl, rfl, rfl, rfl, rfl, rfl, rfl, rfl⟩

theorem finalize_getD (M : SModel α) (n : Nat) :
    ∃ c, M.finalize.nodes.getD n nd0 = finNode M.nv c (M.nodes.getD n nd0) ∨
      (M.finalize.nodes.getD n nd0 = nd0 ∧ M.nodes.getD n nd0 = nd0) := by
  obtain ⟨hlen, hnodes⟩ := finalize_nodes M
  by_cases hn : n < M.nodes.length
  · have hget : M.nodes[n]? = some (M.nodes.getD n nd0) := by
      rw [List.getD_eq_getElem?_getD, List.getElem?_eq_getElem hn]; rfl
    exact ⟨_, Or.inl (getD_of_some (hnodes n _ hget))⟩
  · refine ⟨0, Or.inr ⟨?_, ?_⟩⟩
    · rw [List.getD_eq_getElem?_getD, List.getElem?_eq_none (by rw [hlen]; omega)]; rfl
    · rw [List.getD_eq_getElem?_getD, List.getElem?_eq_none (by omega)]; rfl

theorem bodyOf_finalize (M : SModel α) (n : Nat) : bodyOf M.finalize n = bodyOf M n := by
  unfold bodyOf
  obtain ⟨c, h | ⟨h1, h2⟩⟩ := finalize_getD M n
  · rw [h]; exact (finNode_fields _ _ _).2.2.2.2.2.2.1
  · rw [h1, h2]

theorem nodeRBI_finalize (M : SModel α) (off : Nat → XT α) (i n : Nat) :
    nodeRBI M.finalize off i n = nodeRBI M off i n := by
  unfold nodeRBI
  obtain ⟨c, h | ⟨h1, h2⟩⟩ := finalize_getD M n
  · obtain ⟨_, _, _, _, _, _, f7, f8, f9, f10, f11⟩ := finNode_fields M.nv c (M.nodes.getD n nd0)
    rw [h, f7, f8, f9, f10, f11]
  · rw [h1, h2]

/-- **the parallel construction (with fixed bodies) establishes `RefinesF`** -/
theorem refinesF_of_sim {m : ModelS α} {p : PB α} (hS : SimF m p) (hW : SimW m p) :
    RefinesF m p.sb.M.finalize (offOf m p.sb.M) (lookupNode p.sb.idMap) := by
  obtain ⟨hlen, hnodes⟩ := finalize_nodes p.sb.M
  have hwf := hS.ok.wf
  obtain ⟨bs, hbs, hbs1, hbs2, hbs3, hbs4⟩ := hS.base
  have hback : ∀ n nd', p.sb.M.finalize.nodes[n]? = some nd' →
      ∃ nd, p.sb.M.nodes[n]? = some nd ∧
        nd' = finNode p.sb.M.nv ((p.sb.M.nodes.take n).countP isQuatNode) nd := by
    intro n nd' h
    have hn : n < p.sb.M.nodes.length := by rw [← hlen]; exact lt_of_get h
    have hget : p.sb.M.nodes[n]? = some p.sb.M.nodes[n] := List.getElem?_eq_getElem hn
    refine ⟨_, hget, ?_⟩
    rw [hnodes n _ hget] at h
    exact (Option.some.inj h).symm
  have hbq : isQuatNode bs = false := isQuat_fixed bs hbs4
  refine ⟨hS.gravity, by rw [finalize_nv, hS.nv], ?_, ?_, hS.lookup0, ?_, ?_, ?_, ?_, ?_, hS.virt⟩
  · refine ⟨bs, ?_, hbs1, hbs2, hbs3, hbs4⟩
    rw [hnodes 0 bs hbs]
    unfold finNode
    rw [hbq]; rfl
  · unfold offOf
    rw [getD_nodes hbs, hbs2, hbs3, if_pos rfl]
  · -- nodes
    intro n nd' n1 h
    obtain ⟨nd, hnd, rfl⟩ := hback n nd' h
    have hN := hS.node n nd n1 hnd
    obtain ⟨f1, f2, f3, f4, f5, f6, f7, f8, f9, f10, f11⟩ :=
      finNode_fields p.sb.M.nv ((p.sb.M.nodes.take n).countP isQuatNode) nd
    refine ⟨by rw [f1]; exact hN.par_lt, by rw [f7]; exact hN.body_lt, hN.offrot,
      by rw [f8, f11]; exact hN.symm, by rw [f6, f7, f4]; exact hN.fjoint,
      by rw [f6, f7, f1, bodyOf_finalize]; exact hN.fpar,
      by rw [f6, f7, f2, f3, f1]; exact hN.foff,
      by rw [f6, f7]; exact hN.mpos, ?_,
      by rw [f6, f7, f1, bodyOf_finalize]; exact hN.mpar,
      by rw [f6, f7, f2, f3, f1]; exact hN.mframe,
      by rw [f6, f7, f4]; exact hN.mjoint,
      by rw [f6, f7, f5]; exact hN.mqIdx, ?_⟩
    · rw [f6, f7]
      intro hmv
      unfold offOf
      rw [getD_nodes hnd, if_pos hmv]
    · rw [f6, f7]
      intro hmv hs
      have hq : isQuatNode nd = true := by
        rw [isQuatNode_iff, hN.mjoint hmv, sjoint_spherical_iff]; exact hs
      unfold finNode
      rw [if_pos hq]
      show p.sb.M.nv + _ = _
      rw [hS.nv, hW.wcount n nd n1 hnd hmv, hwf.w3_sph _ hN.body_lt hs]
  · -- nodeOf_lt
    intro i i1 i2
    obtain ⟨a1, a2, _⟩ := hS.movNode i i1 i2
    exact ⟨a1, by rw [hlen]; exact a2⟩
  · -- nodeOf_mov
    intro i nd' i1 i2 h
    obtain ⟨nd, hnd, rfl⟩ := hback _ nd' h
    obtain ⟨_, _, a3⟩ := hS.movNode i i1 i2
    obtain ⟨_, _, _, _, _, f6, f7, _⟩ := finNode_fields p.sb.M.nv
      ((p.sb.M.nodes.take (lookupNode p.sb.idMap i)).countP isQuatNode) nd
    rw [f6, f7]
    exact a3 nd hnd
  · -- nodeOf_inj
    intro n nd' n1 h hmv
    obtain ⟨nd, hnd, rfl⟩ := hback n nd' h
    obtain ⟨_, _, _, _, _, f6, f7, _⟩ := finNode_fields p.sb.M.nv
      ((p.sb.M.nodes.take n).countP isQuatNode) nd
    rw [f6, f7] at hmv
    rw [f7, ← hmv]
    exact hS.idnode n nd n1 hnd
  · -- rbi
    intro i i1 i2
    rw [hlen, hS.rbi i i1 i2]
    exact lsum_congr _ _ _ (fun n _ => (nodeRBI_finalize _ _ _ _).symm)

/-- **Stages D + E**: for every supported construction sequence that succeeds (single-body joints,
    fixed joints, the floating base, custom joints; any valid parent, including fixed bodies) the
    model built by the construction code satisfies `ModelOK` and refines — with the fixed bodies kept
    as separate bodies — the specification model built in parallel -/
theorem refinesF_by_construction (ops : List (Op α))
    (hg : goodRunF (ModelS.init : ModelS α) ops) :
    ModelOK ((ModelS.init : ModelS α).run ops) ∧
    RefinesF ((ModelS.init : ModelS α).run ops) (specOf ops)
      (offOf ((ModelS.init : ModelS α).run ops) ((PB.init : PB α).run ops).sb.M)
      (lookupNode ((PB.init : PB α).run ops).sb.idMap) := by
  obtain ⟨hS, hW⟩ := simFW_run ops _ _ simF_init simW_init hg
  exact ⟨hS.ok, refinesF_of_sim hS hW⟩

end
end Rbdl.L01Cap
