import RbdlProofs.Lemmas.L08PhysBridge
import RbdlProofs.Lemmas.L08PhysEx
import Mathlib.Algebra.Order.Field.Rat
/-
  A concrete instance over `ℚ` (with the field structure of Mathlib) for the non-vacuity example of
  `Props/C08PhysKkt.lean`: the tree `L08Phys.Ex.mD` with the constraint set `opsD`, all coordinates
  actuated, desired accelerations that satisfy the constraints.
-/
set_option linter.unusedSectionVars false
namespace Rbdl.L08Phys.KktEx
open Matrix Rbdl Rbdl.L09 Rbdl.L08Phys Rbdl.L08Phys.Bridge Rbdl.Kkt

/-- the constraint set `run opsD` (a value of `CSet ℚ`; built with the core field instance) -/
def CQ : CSet ℚ := @run ℚ Lean.Grind.instFieldRat inferInstance L08Phys.Ex.opsD
/- `sv`: `CalcConstrainedSystemVariables` on the example `mD` / `opsD`, evaluated with the field
   structure Mathlib puts on `ℚ` (a notation, so that the terms are syntactically those of the theorem) -/
local notation "sv" =>
  @sysVars ℚ (@Field.toGrindField ℚ Rat.instField) instDecidableEqRat L08Phys.Ex.mD L08Phys.Ex.wD
    L08Phys.Ex.stD L08Phys.Ex.qdD CQ true (some L08Phys.Ex.feD)

/-- every coordinate is actuated -/
def act : Fin L08Phys.Ex.mD.qdotSize → Bool := fun _ => true

theorem card_false : (actSet act false).card = 0 := by decide

instance : IsEmpty (Fin (actSet act false).card) := by rw [card_false]; infer_instance

theorem size3 : CQ.size = 3 := by decide +kernel

/-- the desired accelerations `qddD` satisfy `G q̈ = γ` (all three rows) -/
theorem G_qddDes :
    ConstrHolds CQ.size L08Phys.Ex.mD.qdotSize (sv).G (toV L08Phys.Ex.mD.qdotSize L08Phys.Ex.qddD) (sv).gamma := by
  rw [constrHolds_iff]
  intro r hr
  rw [size3] at hr
  obtain rfl | rfl | rfl : r = 0 ∨ r = 1 ∨ r = 2 := by omega
  all_goals decide +kernel

end Rbdl.L08Phys.KktEx
