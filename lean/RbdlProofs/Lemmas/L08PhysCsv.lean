import RbdlProofs.Lemmas.L08PhysWs
import RbdlProofs.Lemmas.L08PhysLoop
/-
  C08 / C11, physical reading (part 4): loop rows of `CalcConstrainedSystemVariables`
  (`update_kinematics = true`, hypotheses `WsHyp` on model / state / construction-time workspace).
-/
set_option linter.unusedSectionVars false
namespace Rbdl.L08Phys
open Lean.Grind Rbdl Rbdl.L05 Rbdl.L06 Rbdl.L09 Rbdl.Spec

section
variable {α : Type} [Field α] [DecidableEq α]

/-- the code's point acceleration / velocity on `csvWS` after `UpdateKinematicsCustom (NULL, NULL, q̈)`
    are the second / first derivative of the point position along the motion `(q, q̇, q̈)` -/
theorem csvWS_point_jet (h2 : (2 : α) ≠ 0) (m : ModelS α) (w : WS α) (st : QS α) (qd qdd : VecN α)
    (fext : Option (Nat → SV α)) (h : WsHyp m w st) (id : Nat) (hid : BodyOK m id) (p : V3 α) :
    (calcPointAcceleration m
        (updateKinematicsCustom m (csvWS m w st qd true fext) none none (some qdd)) st qd qdd id p
        false).2 = (NodeKin.ofPose (bodyPoseJet m st qd qdd id)).ptdd p ∧
    (calcPointVelocity m (csvWS m w st qd true fext) st qd id p false).2
      = (NodeKin.ofPose (bodyPoseJet m st qd qdd id)).ptd p := by
  have j := csvWS_bodyJet m w st qd qdd fext h2 h id hid
  refine ⟨?_, ?_⟩
  · show (calcPointAcceleration6D m _ st qd qdd id p false).2.v = _
    rw [pointAcceleration6D_eq _ _ _ _ _ _ _ hid.notFixed]
    dsimp only
    rw [j.acc6 h2]
  · show (calcPointVelocity6D m _ st qd id p false).2.v = _
    rw [pointVelocity6D_eq _ _ _ _ _ _ hid.notFixed]
    dsimp only
    rw [← ukc_vel6 m _ qdd, j.vel6 h2]

/-- **contact rows of `CalcConstrainedSystemVariables`** (`update_kinematics = true`): with
    `φ_r = n_r · (p + R x)` on the pose jet of the body along `(q, q̇, q̈)`: the reported velocity
    error is `φ̇_r`, and if row `r` of `G q̈ = γ` holds then `φ̈_r = 0` -/
theorem csv_contact_phi (h2 : (2 : α) ≠ 0) (C : CSet α) (hI : Inv C) (hC : Contig C)
    (hn : ∀ c ∈ C.cs, NoFixed c) (m : ModelS α) (w : WS α) (st : QS α) (qd : VecN α)
    (fext : Option (Nat → SV α)) (h : WsHyp m w st) (c : Constr α) (hc : c ∈ C.cs)
    (hct : c.ctype = .contact) (hP : BodyOK m c.bodyP) (qdd : VecN α) (r : Nat) (hr : hasRow c r) :
    (sysVars m w st qd C true fext).err r = 0 ∧
    (sysVars m w st qd C true fext).errd r
      = (contactPhi (bodyPoseJet m st qd qdd c.bodyP) c.XP.r (axisAt c r).v).d1 ∧
    (rowDot (sysVars m w st qd C true fext).G m.qdotSize r qdd
        = (sysVars m w st qd C true fext).gamma r →
      (contactPhi (bodyPoseJet m st qd qdd c.bodyP) c.XP.r (axisAt c r).v).d2 = 0) := by
  obtain ⟨_, e2, e3, _⟩ := csv_rows C hI hC hn m w st qd true fext c hc r hr
  obtain ⟨pa, pv⟩ := csvWS_point_jet h2 m w st qd qdd fext h c.bodyP hP c.XP.r
  have hs := hI.shape c hc
  obtain ⟨v1, v2⟩ := contact_errors c hct hs.vel hs.velAll hs.pos
    (fun b hb => by rw [hs.posAll b hb, hct]; rfl) m (csvWS m w st qd true fext) st qd
    (sysVars m w st qd C true fext).G (fun _ => 0) (fun _ => 0) r hr
  refine ⟨e2.trans v2, ?_, fun hK => ?_⟩
  · rw [e3, v1, pv, contactPhi_d1]
  · have := csv_contact_acc C hI hC hn m w st qd true fext (csvWS_jacHyp m w st qd fext h) c hc
      hct hP qdd r hr hK
    rw [pa] at this
    rw [contactPhi_d2]; exact this

/-- **loop rows of `CalcConstrainedSystemVariables`, exact**: with `φ_r` the constraint function on
    the pose jets of the motion `(q, q̇, q̈)`: the reported position error is `φ_r`, the reported
    velocity error is `φ̇_r + velGap`, and if row `r` of `G q̈ = γ` holds then
    `φ̈_r + accGap = −2 a errd_r − b² err_r` (0 without stabilisation) -/
theorem csv_loop_exact (h2 : (2 : α) ≠ 0) (C : CSet α) (hI : Inv C) (hC : Contig C)
    (hn : ∀ c ∈ C.cs, NoFixed c) (m : ModelS α) (w : WS α) (st : QS α) (qd : VecN α)
    (fext : Option (Nat → SV α)) (h : WsHyp m w st) (c : Constr α) (hc : c ∈ C.cs)
    (hct : c.ctype = .loop) (hP : BodyOK m c.bodyP) (hS : BodyOK m c.bodyS) (qdd : VecN α)
    (r : Nat) (hr : hasRow c r)
    (hrot : (axisAt c r).w = V3.zero ∨
      ((frameOf (csvWS m w st qd true fext) c.bodyS c.XS).E
          = (frameOf (csvWS m w st qd true fext) c.bodyP c.XP).E ∧
        (frameOf (csvWS m w st qd true fext) c.bodyP c.XP).E.IsRot)) :
    (sysVars m w st qd C true fext).err r
      = (loopPhi (framePlacement (bodyPoseJet m st qd qdd c.bodyP) c.XP)
          (framePlacement (bodyPoseJet m st qd qdd c.bodyS) c.XS) (axisAt c r)).x ∧
    (sysVars m w st qd C true fext).errd r
      = (loopPhi (framePlacement (bodyPoseJet m st qd qdd c.bodyP) c.XP)
          (framePlacement (bodyPoseJet m st qd qdd c.bodyS) c.XS) (axisAt c r)).d1
        + velGap (NodeKin.ofPose (framePlacement (bodyPoseJet m st qd qdd c.bodyP) c.XP))
            (NodeKin.ofPose (framePlacement (bodyPoseJet m st qd qdd c.bodyS) c.XS))
            (NodeKin.ofPose (bodyPoseJet m st qd qdd c.bodyP)).omega
            (NodeKin.ofPose (bodyPoseJet m st qd qdd c.bodyS)).omega (axisAt c r) ∧
    (rowDot (sysVars m w st qd C true fext).G m.qdotSize r qdd
        = (sysVars m w st qd C true fext).gamma r →
      (loopPhi (framePlacement (bodyPoseJet m st qd qdd c.bodyP) c.XP)
          (framePlacement (bodyPoseJet m st qd qdd c.bodyS) c.XS) (axisAt c r)).d2
        + accGap (NodeKin.ofPose (framePlacement (bodyPoseJet m st qd qdd c.bodyP) c.XP))
            (NodeKin.ofPose (framePlacement (bodyPoseJet m st qd qdd c.bodyS) c.XS))
            (NodeKin.ofPose (bodyPoseJet m st qd qdd c.bodyP)).omega (axisAt c r)
        = bgTerm c (sysVars m w st qd C true fext).err (sysVars m w st qd C true fext).errd r) := by
  have hJ := csvWS_jacHyp m w st qd fext h
  have jA := csvWS_bodyJet m w st qd qdd fext h2 h c.bodyP hP
  have jB := csvWS_bodyJet m w st qd qdd fext h2 h c.bodyS hS
  obtain ⟨e1, e2, e3, e4⟩ := csv_rows C hI hC hn m w st qd true fext c hc r hr
  obtain ⟨rA, _, _, _, _, _⟩ := jA.read h2 c.XP
  obtain ⟨rB, _, _, _, _, _⟩ := jB.read h2 c.XS
  rw [ukc_frameOf] at rA rB
  obtain ⟨p1, p2⟩ := loop_errors_phi h2 c hct (hI.shape c hc) m _ st qd qdd hJ hP hS _ _ jA jB r hr
    (sysVars m w st qd C true fext).G (fun _ => 0) (fun _ => 0) e1
  refine ⟨e2.trans p1, e3.trans p2, fun hK => ?_⟩
  exact loop_acc_of_kkt_row h2 c hct m _ st qd qdd hJ hP hS _ _ jA jB r hr
    (by rw [rA, rB]; exact hrot) _ _ _ _ e1 e4 hK

/-- **loop rows, the class of `C09.loop_gamma_is_phidd`** (conditions on the frames, velocities and
    the predecessor's angular acceleration as the workspace holds them; `W'` is `csvWS` after
    `UpdateKinematicsCustom (NULL, NULL, q̈)`): both discrepancies vanish -/
theorem csv_loop_clean (h2 : (2 : α) ≠ 0) (C : CSet α) (hI : Inv C) (hC : Contig C)
    (hn : ∀ c ∈ C.cs, NoFixed c) (m : ModelS α) (w : WS α) (st : QS α) (qd : VecN α)
    (fext : Option (Nat → SV α)) (h : WsHyp m w st) (c : Constr α) (hc : c ∈ C.cs)
    (hct : c.ctype = .loop) (hP : BodyOK m c.bodyP) (hS : BodyOK m c.bodyS) (qdd : VecN α)
    (r : Nat) (hr : hasRow c r)
    (hrot : (axisAt c r).w = V3.zero ∨
      ((frameOf (csvWS m w st qd true fext) c.bodyS c.XS).E
          = (frameOf (csvWS m w st qd true fext) c.bodyP c.XP).E ∧
        (frameOf (csvWS m w st qd true fext) c.bodyP c.XP).E.IsRot))
    (ha : (frameOf (csvWS m w st qd true fext) c.bodyP c.XP).r.cross (axisAt c r).w = V3.zero)
    (hv : (axisAt c r).w = V3.zero ∨
      (vel6 (csvWS m w st qd true fext) c.bodyP c.XP.r).v = V3.zero ∨
      (vel6 (csvWS m w st qd true fext) c.bodyS c.XS.r).v
        = (vel6 (csvWS m w st qd true fext) c.bodyP c.XP.r).v)
    (hb : (axisAt c r).v = V3.zero ∨
      ((vel6 (csvWS m w st qd true fext) c.bodyP c.XP.r).w = V3.zero ∧
        (acc6 (updateKinematicsCustom m (csvWS m w st qd true fext) none none (some qdd))
          c.bodyP c.XP.r).w = V3.zero) ∨
      ((frameOf (csvWS m w st qd true fext) c.bodyS c.XS).r
          = (frameOf (csvWS m w st qd true fext) c.bodyP c.XP).r ∧
        (vel6 (csvWS m w st qd true fext) c.bodyS c.XS.r).v
          = (vel6 (csvWS m w st qd true fext) c.bodyP c.XP.r).v)) :
    (sysVars m w st qd C true fext).err r
      = (loopPhi (framePlacement (bodyPoseJet m st qd qdd c.bodyP) c.XP)
          (framePlacement (bodyPoseJet m st qd qdd c.bodyS) c.XS) (axisAt c r)).x ∧
    (sysVars m w st qd C true fext).errd r
      = (loopPhi (framePlacement (bodyPoseJet m st qd qdd c.bodyP) c.XP)
          (framePlacement (bodyPoseJet m st qd qdd c.bodyS) c.XS) (axisAt c r)).d1 ∧
    (rowDot (sysVars m w st qd C true fext).G m.qdotSize r qdd
        = (sysVars m w st qd C true fext).gamma r →
      (loopPhi (framePlacement (bodyPoseJet m st qd qdd c.bodyP) c.XP)
          (framePlacement (bodyPoseJet m st qd qdd c.bodyS) c.XS) (axisAt c r)).d2
        = bgTerm c (sysVars m w st qd C true fext).err (sysVars m w st qd C true fext).errd r) := by
  have jA := csvWS_bodyJet m w st qd qdd fext h2 h c.bodyP hP
  have jB := csvWS_bodyJet m w st qd qdd fext h2 h c.bodyS hS
  obtain ⟨rA, pA, oA, vA, odA, _⟩ := jA.read h2 c.XP
  obtain ⟨rB, pB, _, vB, _, _⟩ := jB.read h2 c.XS
  rw [ukc_frameOf] at rA pA rB pB
  rw [ukc_vel6] at oA vA vB
  obtain ⟨e1, e2, e3⟩ := csv_loop_exact h2 C hI hC hn m w st qd fext h c hc hct hP hS qdd r hr hrot
  have g1 := velGap_zero h2 (NodeKin.ofPose (framePlacement (bodyPoseJet m st qd qdd c.bodyP) c.XP))
    (NodeKin.ofPose (framePlacement (bodyPoseJet m st qd qdd c.bodyS) c.XS))
    (NodeKin.ofPose (bodyPoseJet m st qd qdd c.bodyP)).omega
    (NodeKin.ofPose (bodyPoseJet m st qd qdd c.bodyS)).omega (axisAt c r)
    (by rw [rA, rB]; exact hrot) (by rw [pA]; exact ha)
    (by
      rw [oA, pA, pB]
      rcases hb with h | ⟨h, _⟩ | ⟨h, _⟩
      · exact Or.inl h
      · exact Or.inr (Or.inl h)
      · exact Or.inr (Or.inr h))
  have g2 := accGap_zero (NodeKin.ofPose (framePlacement (bodyPoseJet m st qd qdd c.bodyP) c.XP))
    (NodeKin.ofPose (framePlacement (bodyPoseJet m st qd qdd c.bodyS) c.XS))
    (NodeKin.ofPose (bodyPoseJet m st qd qdd c.bodyP)).omega (axisAt c r)
    (by rw [pA]; exact ha) (by rw [vA, vB]; exact hv)
    (by
      rcases hb with h | ⟨h, h'⟩ | ⟨h, h'⟩
      · exact Or.inl h
      · exact Or.inr (Or.inl ⟨by rw [oA]; exact h,
          (jA.frameJet h2 c.XP).rdd_zero (by rw [oA]; exact h) (by rw [odA]; exact h')⟩)
      · exact Or.inr (Or.inr ⟨by rw [pA, pB]; exact h, by rw [vA, vB]; exact h'⟩))
  refine ⟨e1, ?_, fun hK => ?_⟩
  · rw [e2, g1]; grind
  · have := e3 hK
    rw [g2] at this
    rw [← this]; grind

end
end Rbdl.L08Phys
