import RbdlProofs.Lemmas.L07Trans
import RbdlProofs.Lemmas.Model14
import RbdlProofs.Lemmas.Model15
import RbdlProofs.Props.C15
/-
  C07, remaining joint-level and construction-level equivalences:
  F (`RevoluteX` three ways), D (`FloatingBase`), E (fixed joint versus merged inertia: the fields the
  dynamics read), G (spherical versus Euler joint).
-/
namespace Rbdl.L07
open Lean.Grind Rbdl Rbdl.Loops Rbdl.L01
set_option linter.unusedVariables false
set_option linter.unusedSimpArgs false
set_option linter.unusedSectionVars false

/-! ### G: the angular velocity of an Euler joint on jets -/
section Omega
variable {β : Type} [CommRing β]

/-- the angular velocity `S(q) q̇` of an Euler joint, written over a commutative ring so that it
    can be evaluated on jets -/
def eulerOmega : JT → β → β → β → β → β → β → β → V3 β
  | .eulerZYX, c1, s1, c2, s2, x0, x1, x2 => ⟨-s1*x0 + x2, c1*s2*x0 + c2*x1, c1*c2*x0 - s2*x1⟩
  | .eulerXYZ, c1, s1, c2, s2, x0, x1, x2 => ⟨c2*c1*x0 + s2*x1, -s2*c1*x0 + c2*x1, s1*x0 + x2⟩
  | .eulerYXZ, c1, s1, c2, s2, x0, x1, x2 => ⟨s2*c1*x0 + c2*x1, c2*c1*x0 - s2*x1, -s1*x0 + x2⟩
  | .eulerZXY, c1, s1, c2, s2, x0, x1, x2 => ⟨-s2*c1*x0 + c2*x1, s1*x0 + x2, c1*c2*x0 + s2*x1⟩
  | _, _, _, _, _, _, _, _ => V3.zero
end Omega

section
variable {α : Type} [Field α]

/-- `eulerOmega` is the angular part of `v_J = S q̇` -/
theorem eulerOmega_eq (e : JT) (he : isEuler e = true) (c1 s1 c2 s2 x0 x1 x2 : α) :
    (eulerS e M63.zero c1 s1 c2 s2).mulV3 ⟨x0, x1, x2⟩
      = ⟨eulerOmega e c1 s1 c2 s2 x0 x1 x2, V3.zero⟩ := by
  l07_euler e he <;>
    (unfold eulerS eulerOmega
     simp only [eulerZYX_S, eulerXYZ_S, eulerYXZ_S, eulerZXY_S, M63.setW, M63.zero]
     alg_ext)

/-- **G**, the `ω̇` identity: evaluate `ω = S(q) q̇` on the jets of the Euler angles
    (`cos q_k`, `sin q_k` with rates `q̇_k`, `q̈_k`; `q̇_k` with rate `q̈_k`).  The value is `v_J`,
    the first derivative is `S q̈ + c_J`. -/
theorem eulerOmega_jet (e : JT) (he : isEuler e = true)
    (c1 s1 c2 s2 qd0 qd1 qd2 qdd0 qdd1 qdd2 j0 j1 j2 : α) :
    let W : V3 (D2 α) := eulerOmega e (D2.cosJ c1 s1 qd1 qdd1) (D2.sinJ c1 s1 qd1 qdd1)
      (D2.cosJ c2 s2 qd2 qdd2) (D2.sinJ c2 s2 qd2 qdd2) ⟨qd0, qdd0, j0⟩ ⟨qd1, qdd1, j1⟩
      ⟨qd2, qdd2, j2⟩
    (⟨⟨W.x.x, W.y.x, W.z.x⟩, V3.zero⟩ : SV α)
      = (eulerS e M63.zero c1 s1 c2 s2).mulV3 ⟨qd0, qd1, qd2⟩ ∧
    (⟨⟨W.x.d1, W.y.d1, W.z.d1⟩, V3.zero⟩ : SV α)
      = (eulerS e M63.zero c1 s1 c2 s2).mulV3 ⟨qdd0, qdd1, qdd2⟩
        + eulerCJ e c1 s1 c2 s2 qd0 qd1 qd2 := by
  intro W
  constructor
  · rw [eulerOmega_eq e he]
    l07_euler e he <;>
      simp only [W, eulerOmega, D2.cosJ, D2.sinJ, D2.mul_def, D2.add_def, D2.neg_def, D2.sub_def]
  · rw [eulerOmega_eq e he]
    l07_euler e he <;>
      (unfold eulerCJ
       simp only [W, eulerOmega, D2.cosJ, D2.sinJ, D2.mul_def, D2.add_def, D2.neg_def, D2.sub_def,
         eulerZYX_cJ, eulerXYZ_cJ, eulerYXZ_cJ, eulerZXY_cJ]
       alg_ext)
end

section
variable {α : Type} [Field α]

/-! ### F -/
/-- `jcalc` for a `Revolute` joint with arbitrary axis -/
theorem jcalc_revolute (m : ModelS α) (w : WS α) (i : Nat) (st : QS α) (qd : VecN α)
    (ht : (m.joint i).jt = .revolute) (hw : FixedW m w i) :
    let ax := (m.joint i).axes.headD SV.zero
    (jcalc m w i st qd).X_lambda i
      = Xrot (st.c (m.joint i).qIndex) (st.s (m.joint i).qIndex) ax.w * m.XT_ i ∧
    (jcalc m w i st qd).S i = ax ∧
    (jcalc m w i st qd).v_J i = qd (m.joint i).qIndex * ax ∧
    (jcalc m w i st qd).c_J i = SV.zero := by
  intro ax
  unfold FixedW at hw
  rw [ht] at hw
  simp only [FixedAt] at hw
  obtain ⟨a1, a2⟩ := hw
  rw [L13.jcalc_eq]
  simp only [upd_same]
  unfold jcalcX L13.jcalcS L13.jcalcVJ L13.jcalcCJ jcalcXJ
  simp only [ht, a1, a2, ax, and_self]

/-- `jcalc` for the user-defined joint re-implementing `RevoluteX` -/
theorem jcalc_customRevX (m : ModelS α) (w : WS α) (i : Nat) (st : QS α) (qd : VecN α)
    (ht : (m.joint i).jt = .custom) (hk : m.custom (m.joint i).customIdx = .revX) :
    (jcalc m w i st qd).X_lambda i
      = Xrotx (st.c (m.joint i).qIndex) (st.s (m.joint i).qIndex) * m.XT_ i ∧
    (jcalc m w i st qd).cS (m.joint i).customIdx = [sv6 1 0 0 0 0 0] ∧
    (jcalc m w i st qd).v_J i = qd (m.joint i).qIndex * (sv6 1 0 0 0 0 0 : SV α) ∧
    (jcalc m w i st qd).c_J i = SV.zero := by
  rw [L13.jcalc_eq]
  simp only [upd_same]
  unfold jcalcX L13.jcalcVJ L13.jcalcCJ L13.jcalcCS
  simp only [ht, hk, customXJ, customCalc, upd_same, true_and]
  simp only [colsMul, colsMul.indexedCols, List.length_cons, List.length_nil, List.range,
    List.range.loop, List.zip_cons_cons, List.zip_nil_right, List.foldl_cons, List.foldl_nil,
    Nat.add_zero, and_true]
  alg_ext

/-! ### G -/
theorem sphericalS_fixed (S : M63 α) (h : S3mask .spherical S = M63.zero) :
    sphericalS S = sphericalS M63.zero := by
  obtain ⟨⟨⟨a0, a1, a2⟩, ⟨a3, a4, a5⟩⟩, ⟨⟨b0, b1, b2⟩, ⟨b3, b4, b5⟩⟩, ⟨⟨d0, d1, d2⟩, ⟨d3, d4, d5⟩⟩⟩ := S
  simp only [S3mask, M63.setW, M63.zero, SV.zero, V3.zero, M63.mk.injEq, SV.mk.injEq, V3.mk.injEq,
    sphericalS] at h ⊢
  grind

/-- `jcalc` for the spherical joint -/
theorem jcalc_sph (m : ModelS α) (w : WS α) (i : Nat) (st : QS α) (qd : VecN α)
    (ht : (m.joint i).jt = .spherical) (hw : FixedW m w i) :
    let k := (m.joint i).qIndex
    (jcalc m w i st qd).X_lambda i
      = (⟨(getQuaternion m i st.q).toMatrix, V3.zero⟩ : XT α) * m.XT_ i ∧
    (jcalc m w i st qd).S3 i = sphericalS M63.zero ∧
    (jcalc m w i st qd).v_J i = ⟨⟨qd k, qd (k+1), qd (k+2)⟩, V3.zero⟩ ∧
    (jcalc m w i st qd).c_J i = SV.zero := by
  intro k
  unfold FixedW at hw
  rw [ht] at hw
  simp only [FixedAt] at hw
  obtain ⟨a1, a2⟩ := hw
  have hS := sphericalS_fixed _ a2
  rw [L13.jcalc_eq]
  simp only [upd_same]
  unfold jcalcX L13.jcalcVJ L13.jcalcCJ L13.jcalcS3
  simp only [ht, hS, a1, k, and_self]

/-- the acceleration written by a step depends on `c_J` and `S q̈` only through their sum -/
theorem kstep_congr (X : XT α) (vJ cJ sq cJ' sq' : SV α) (p : Kin α) (h : cJ + sq = cJ' + sq') :
    kstep X vJ cJ sq p = kstep X vJ cJ' sq' p := by
  have e : ∀ (A C c s : SV α), A + (c + C) + s = A + C + (c + s) := by intros; alg_ext
  unfold kstep
  rw [e, e, h]

theorem sphericalS_mulV3 (x0 x1 x2 : α) :
    (sphericalS (M63.zero : M63 α)).mulV3 ⟨x0, x1, x2⟩ = ⟨⟨x0, x1, x2⟩, V3.zero⟩ := by
  simp only [sphericalS, M63.setW, M63.zero]
  alg_ext

/-- **G**: a spherical joint and an Euler joint at the same orientation.  If the rotation matrices
    agree and the spherical joint's velocity coordinates are the angular velocity `ω = S(q) q̇` of
    the Euler joint, then `X_λ` and `v_J` agree; if moreover its acceleration coordinates are
    `ω̇ = S q̈ + c_J` (the derivative of `ω`, `eulerOmega_jet`), one step of the `UpdateKinematics`
    loop gives the same `X_base`, `v`, `a`. -/
theorem spherical_euler (mS mE : ModelS α) (i j : Nat) (wS wE : WS α) (stS stE : QS α)
    (qdS qddS qdE qddE : VecN α)
    (hS : (mS.joint i).jt = .spherical) (hdS : (mS.joint i).dof = 3)
    (hE : isEuler (mE.joint j).jt = true) (hdE : (mE.joint j).dof = 3)
    (hX : mS.XT_ i = mE.XT_ j) (hwS : FixedW mS wS i) (hwE : FixedW mE wE j)
    (hrot : (getQuaternion mS i stS.q).toMatrix
      = eulerE (mE.joint j).jt (stE.c (mE.joint j).qIndex) (stE.s (mE.joint j).qIndex)
          (stE.c ((mE.joint j).qIndex + 1)) (stE.s ((mE.joint j).qIndex + 1))
          (stE.c ((mE.joint j).qIndex + 2)) (stE.s ((mE.joint j).qIndex + 2)))
    (homega : (⟨⟨qdS (mS.joint i).qIndex, qdS ((mS.joint i).qIndex + 1),
        qdS ((mS.joint i).qIndex + 2)⟩, V3.zero⟩ : SV α)
      = (jcalc mE wE j stE qdE).v_J j) :
    (jcalc mS wS i stS qdS).X_lambda i = (jcalc mE wE j stE qdE).X_lambda j ∧
    (jcalc mS wS i stS qdS).v_J i = (jcalc mE wE j stE qdE).v_J j ∧
    ((⟨⟨qddS (mS.joint i).qIndex, qddS ((mS.joint i).qIndex + 1),
        qddS ((mS.joint i).qIndex + 2)⟩, V3.zero⟩ : SV α)
      = (jcalc mE wE j stE qdE).Sqdd mE j qddE + (jcalc mE wE j stE qdE).c_J j →
     parentKin mS wS i = parentKin mE wE j →
     kinOf (L06.ukBody mS stS qdS qddS i wS) i = kinOf (L06.ukBody mE stE qdE qddE j wE) j) := by
  obtain ⟨a1, a2, a3, a4⟩ := jcalc_sph mS wS i stS qdS hS hwS
  obtain ⟨e1, e2, e3, e4⟩ := jcalc_euler mE wE j stE qdE hE hwE
  have hXl : (jcalc mS wS i stS qdS).X_lambda i = (jcalc mE wE j stE qdE).X_lambda j := by
    rw [a1, e1, hrot, hX]
  have hvJ : (jcalc mS wS i stS qdS).v_J i = (jcalc mE wE j stE qdE).v_J j := by
    rw [a3, homega]
  refine ⟨hXl, hvJ, fun hacc hp => ?_⟩
  have aS : mS.arity i = .three :=
    L01.arity_of_dof3 _ _ (by rw [hS]; exact fun e => nomatch e) hdS
  have aE : mE.arity j = .three := L01.arity_of_dof3 _ _ (isEuler_ne_custom hE) hdE
  rw [ukBody_kin _ _ _ _ _ _ (by rw [aS]; exact fun e => nomatch e),
    ukBody_kin _ _ _ _ _ _ (by rw [aE]; exact fun e => nomatch e), hXl, hvJ, hp]
  apply kstep_congr
  rw [a4, Sqdd_three _ _ _ _ aS, a2, sphericalS_mulV3, hacc]
  generalize (jcalc mE wE j stE qdE).Sqdd mE j qddE = A
  generalize (jcalc mE wE j stE qdE).c_J j = B
  alg_ext

end

section
variable {α : Type} [Field α] [DecidableEq α]

/-! ### D -/
/-- **D**. `AddBody` with a `FloatingBase` joint is, literally, `AddBody` with a `TranslationXYZ`
    joint and an unnamed massless virtual body, followed by `AddBody` of the body itself on that
    virtual body through a `Spherical` joint with the identity joint frame. -/
theorem floatingBase_eq (m : ModelS α) (parent : Nat) (frame : XT α) (j : Joint α) (b : Body α)
    (name : String) (hj : j.jt = .floatingBase) (jT jS : Joint α)
    (hT : Joint.ofType .translationXYZ = some jT) (hS : Joint.ofType .spherical = some jS) :
    m.addBody parent frame j b name =
      if name ≠ "" ∧ m.hasName name then (m, .error .duplicateName)
      else match m.addBody parent frame jT ModelS.nullBody "" with
        | (m1, .ok id) => m1.addBody id XT.id jS b name
        | r => r := by
  have eT : jT = ModelS.floatT := by
    simp only [Joint.ofType, Option.some.injEq] at hT; exact hT.symm
  have eS : jS = ModelS.floatS := by
    simp only [Joint.ofType, Option.some.injEq] at hS; exact hS.symm
  subst eT eS
  rw [ModelS.addBody_eq]
  by_cases hd : name ≠ "" ∧ m.hasName name
  · rw [if_pos hd, if_pos hd]
  · rw [if_neg hd, if_neg hd]
    have h1 : m.addBody parent frame ModelS.floatT ModelS.nullBody ""
        = (ModelS.movableResult m parent frame ModelS.floatT ModelS.nullBody "", .ok m.bodies.length) := by
      rw [ModelS.addBody_eq, if_neg (ModelS.not_dup_empty m)]
      show ModelS.addBodyMovable m parent frame ModelS.floatT ModelS.nullBody "" = _
      exact ModelS.addBodyMovable_unnamed ..
    rw [h1]
    simp only [hj, JT.kind]
    have hd1 : ¬(name ≠ "" ∧
        (ModelS.movableResult m parent frame ModelS.floatT ModelS.nullBody "").hasName name) := by
      rw [ModelS.hasName_congr (ModelS.movableResult_names_unnamed ..)]; exact hd
    rw [ModelS.addBody_eq, if_neg hd1]
    rfl

/-! ### E -/
/-- the model with other contents of the three fields the dynamics never read: the list of fixed
    bodies, the name table and `previously_added_body_id` -/
def reFNP (m : ModelS α) (f : List (FixedBody α)) (n : List (String × Nat)) (p : Nat) : ModelS α :=
  { m with fixedBodies := f, names := n, prevBodyId := p }

section
variable (m : ModelS α) (f : List (FixedBody α)) (n : List (String × Nat)) (p : Nat)
theorem reFNP_nBodies : (reFNP m f n p).nBodies = m.nBodies := rfl
theorem reFNP_lam : (reFNP m f n p).lam = m.lam := rfl
theorem reFNP_joint : (reFNP m f n p).joint = m.joint := rfl
theorem reFNP_XT : (reFNP m f n p).XT_ = m.XT_ := rfl
theorem reFNP_rbi : (reFNP m f n p).rbi = m.rbi := rfl
theorem reFNP_body : (reFNP m f n p).body = m.body := rfl
theorem reFNP_arity : (reFNP m f n p).arity = m.arity := rfl
theorem reFNP_updateOrder : (reFNP m f n p).updateOrder = m.updateOrder := rfl
theorem reFNP_jcalc : jcalc (reFNP m f n p) = jcalc m := rfl
theorem reFNP_jcalcXlambdaS : jcalcXlambdaS (reFNP m f n p) = jcalcXlambdaS m := rfl
theorem reFNP_Sqdd (W : WS α) : W.Sqdd (reFNP m f n p) = W.Sqdd m := rfl
theorem reFNP_Scols (W : WS α) : W.Scols (reFNP m f n p) = W.Scols m := rfl
theorem reFNP_tauWrite (W : WS α) : W.tauWrite (reFNP m f n p) = W.tauWrite m := rfl
theorem reFNP_bodyForce : bodyForce (reFNP m f n p) = bodyForce m := rfl
theorem reFNP_grav : spatialGravityNeg (reFNP m f n p) = spatialGravityNeg m := rfl
theorem reFNP_walkUp {σ : Type} : walkUp (σ := σ) (reFNP m f n p) = walkUp m := by
  funext fuel j body s
  induction fuel generalizing j s with
  | zero => rfl
  | succ k ih => simp only [walkUp]; split; rfl; exact ih _ _
theorem reFNP_abaUD : abaUD (reFNP m f n p) = abaUD m := rfl
theorem reFNP_abaIa : abaIa (reFNP m f n p) = abaIa m := rfl
theorem reFNP_abaU : abaU (reFNP m f n p) = abaU m := rfl
theorem reFNP_abaUDu : abaUDu (reFNP m f n p) = abaUDu m := rfl
theorem reFNP_abaAccel : abaAccel (reFNP m f n p) = abaAccel m := rfl
theorem reFNP_rneaBackward : rneaBackward (reFNP m f n p) = rneaBackward m := by
  unfold rneaBackward
  simp only [reFNP_nBodies, reFNP_lam, reFNP_tauWrite]
  rfl

theorem reFNP_updateKinematics : updateKinematics (reFNP m f n p) = updateKinematics m := by
  unfold updateKinematics
  simp only [reFNP_nBodies, reFNP_lam, reFNP_jcalc, reFNP_arity, reFNP_Sqdd]
  rfl
theorem reFNP_updateKinematicsCustom :
    updateKinematicsCustom (reFNP m f n p) = updateKinematicsCustom m := by
  unfold updateKinematicsCustom
  simp only [reFNP_nBodies, reFNP_lam, reFNP_jcalc, reFNP_arity, reFNP_Sqdd]
  rfl
theorem reFNP_inverseDynamics : inverseDynamics (reFNP m f n p) = inverseDynamics m := by
  unfold inverseDynamics
  simp only [reFNP_nBodies, reFNP_lam, reFNP_jcalc, reFNP_arity, reFNP_Sqdd, reFNP_bodyForce,
    reFNP_grav, reFNP_rneaBackward]
theorem reFNP_nonlinearEffects : nonlinearEffects (reFNP m f n p) = nonlinearEffects m := by
  unfold nonlinearEffects
  simp only [reFNP_nBodies, reFNP_lam, reFNP_jcalc, reFNP_arity, reFNP_Sqdd, reFNP_bodyForce,
    reFNP_grav, reFNP_rneaBackward, reFNP_updateOrder]
  rfl
theorem reFNP_crba : crba (reFNP m f n p) = crba m := by
  unfold crba
  simp only [reFNP_nBodies, reFNP_lam, reFNP_jcalcXlambdaS, reFNP_rbi, reFNP_joint, reFNP_Scols,
    reFNP_walkUp]
  rfl
theorem reFNP_forwardDynamics : forwardDynamics (reFNP m f n p) = forwardDynamics m := by
  unfold forwardDynamics
  simp only [reFNP_nBodies, reFNP_lam, reFNP_jcalc, reFNP_arity, reFNP_rbi, reFNP_grav,
    reFNP_abaUD, reFNP_abaIa, reFNP_abaU, reFNP_abaUDu, reFNP_abaAccel]
  rfl
theorem reFNP_calcMInvTimesTau : calcMInvTimesTau (reFNP m f n p) = calcMInvTimesTau m := by
  unfold calcMInvTimesTau
  simp only [reFNP_nBodies, reFNP_lam, reFNP_jcalcXlambdaS, reFNP_arity, reFNP_rbi,
    reFNP_updateOrder, reFNP_abaUD, reFNP_abaIa, reFNP_abaU, reFNP_abaUDu, reFNP_abaAccel]
  rfl

/-! movable-body kinematics queries (`id < fixedDisc`: not a fixed-body id) -/
theorem reFNP_isFixed (id : Nat) (h : id < fixedDisc) :
    (reFNP m f n p).isFixedBodyId id = false ∧ m.isFixedBodyId id = false := by
  unfold ModelS.isFixedBodyId
  have : ¬ fixedDisc ≤ id := by omega
  simp [this]
theorem reFNP_bodyToBase0 (w : WS α) (id : Nat) (h : id < fixedDisc) :
    bodyToBase0 (reFNP m f n p) w id = bodyToBase0 m w id := by
  funext q
  unfold bodyToBase0
  rw [if_neg (by omega), if_neg (by omega)]
theorem reFNP_baseToBody0 (w : WS α) (id : Nat) (h : id < fixedDisc) :
    baseToBody0 (reFNP m f n p) w id = baseToBody0 m w id := by
  funext q
  unfold baseToBody0
  rw [if_neg (by omega), if_neg (by omega)]
theorem reFNP_worldOrientation0 (w : WS α) (id : Nat) (h : id < fixedDisc) :
    worldOrientation0 (reFNP m f n p) w id = worldOrientation0 m w id := by
  unfold worldOrientation0
  rw [if_neg (by omega), if_neg (by omega)]
theorem reFNP_refBody (id : Nat) (h : id < fixedDisc) :
    (reFNP m f n p).refBody id = m.refBody id := by
  unfold ModelS.refBody
  rw [(reFNP_isFixed m f n p id h).1, (reFNP_isFixed m f n p id h).2]
  rfl
theorem reFNP_refPoint (w : WS α) (id : Nat) (h : id < fixedDisc) :
    refPoint (reFNP m f n p) w id = refPoint m w id := by
  funext q
  unfold refPoint
  rw [(reFNP_isFixed m f n p id h).1, (reFNP_isFixed m f n p id h).2]
  rfl
theorem reFNP_jacFill (w : WS α) : jacFill (reFNP m f n p) w = jacFill m w := by
  unfold jacFill
  simp only [reFNP_walkUp, reFNP_nBodies, reFNP_joint, reFNP_Scols]
theorem reFNP_updQ : updQ (reFNP m f n p) = updQ m := by
  unfold updQ
  simp only [reFNP_updateKinematicsCustom]
theorem reFNP_calcBodyToBaseCoordinates (w : WS α) (st : QS α) (id : Nat) (h : id < fixedDisc) :
    calcBodyToBaseCoordinates (reFNP m f n p) w st id = calcBodyToBaseCoordinates m w st id := by
  funext q u
  unfold calcBodyToBaseCoordinates
  simp only [reFNP_updQ, reFNP_bodyToBase0 _ _ _ _ _ _ h]
theorem reFNP_calcPointJacobian (w : WS α) (st : QS α) (id : Nat) (h : id < fixedDisc) :
    calcPointJacobian (reFNP m f n p) w st id = calcPointJacobian m w st id := by
  funext q G u
  unfold calcPointJacobian
  simp only [reFNP_updQ, reFNP_bodyToBase0 _ _ _ _ _ _ h, reFNP_jacFill, reFNP_refBody _ _ _ _ _ h]
theorem reFNP_calcPointVelocity6D (w : WS α) (st : QS α) (qd : VecN α) (id : Nat)
    (h : id < fixedDisc) :
    calcPointVelocity6D (reFNP m f n p) w st qd id = calcPointVelocity6D m w st qd id := by
  funext q u
  unfold calcPointVelocity6D
  simp only [reFNP_updateKinematicsCustom, reFNP_refPoint _ _ _ _ _ _ h]
  rw [reFNP_worldOrientation0 _ _ _ _ _ _ (by unfold refPoint; rw [(reFNP_isFixed m f n p id h).2]; exact h)]
theorem reFNP_calcPointAcceleration6D (w : WS α) (st : QS α) (qd qdd : VecN α) (id : Nat)
    (h : id < fixedDisc) :
    calcPointAcceleration6D (reFNP m f n p) w st qd qdd id
      = calcPointAcceleration6D m w st qd qdd id := by
  funext q u
  unfold calcPointAcceleration6D
  simp only [reFNP_updateKinematics, reFNP_refPoint _ _ _ _ _ _ h]
  rw [reFNP_worldOrientation0 _ _ _ _ _ _ (by unfold refPoint; rw [(reFNP_isFixed m f n p id h).2]; exact h)]
end
theorem not_fixed_of_lt (m : ModelS α) (id : Nat) (h : id < fixedDisc) :
    m.isFixedBodyId id = false := by
  unfold ModelS.isFixedBodyId
  have : ¬ fixedDisc ≤ id := by omega
  simp [this]

/-- **E**, construction: adding a body through a movable joint and then a second body through a
    fixed joint on it gives the same model as adding the joined body directly — up to the fields
    that only record the fixed body (`mFixedBodies`, the name table, `previously_added_body_id`). -/
theorem fixed_vs_merged (m : ModelS α) (p : Nat) (X : XT α) (j : Joint α) (bP : Body α)
    (nP : String) (XF : XT α) (bF : Body α) (nF : String) (m1 m2 : ModelS α) (n fid : Nat)
    (hI : m.I.length = m.bodies.length) (hn : m.bodies.length < fixedDisc)
    (h1 : m.addBodyMovable p X j bP nP = (m1, .ok n))
    (h2 : m1.addBodyFixed n XF bF nF = (m2, .ok fid)) :
    ∃ pb, bP.join XF bF = some pb ∧
      ∃ m1', m.addBodyMovable p X j pb nP = (m1', .ok n) ∧
        m2 = reFNP m1' m2.fixedBodies m2.names m2.prevBodyId := by
  rw [ModelS.addBodyMovable_eqS5] at h1
  split at h1
  · cases h1
  rename_i hdup
  simp only [Prod.mk.injEq, Except.ok.injEq] at h1
  obtain ⟨e1, e2⟩ := h1
  subst e2
  have hnf : m1.isFixedBodyId m.bodies.length = false := not_fixed_of_lt _ _ hn
  have hT : m1.fixedTarget m.bodies.length XF = (m.bodies.length, XF) := by
    unfold ModelS.fixedTarget; rw [hnf]; rfl
  obtain ⟨_, _, pb, hj, hm2⟩ := ModelS.addBodyFixed_ok h2
  rw [hT] at hj hm2
  have hb : m1.body m.bodies.length = bP := by
    rw [← e1]; simp only [ModelS.movableResultS, ModelS.body, ModelS.getD_append_length]
  rw [hb] at hj
  refine ⟨pb, hj, ModelS.movableResultS m p X j pb nP, ?_, ?_⟩
  · rw [ModelS.addBodyMovable_eqS5, if_neg hdup]
  · rw [hm2, ← e1]
    simp only [ModelS.movableResultS, reFNP, ModelS.set_append_length]
    simp only [← hI, ModelS.set_append_length]

end
/-! ### F, E (statements used by the property file) -/
section
variable {α : Type} [Field α]

theorem Scols_one (m : ModelS α) (W : WS α) (j : Nat) (h : m.arity j = .one) :
    W.Scols m j = [W.S j] := by unfold WS.Scols; rw [h]
theorem Scols_custom (m : ModelS α) (W : WS α) (j : Nat) (h : m.arity j = .custom) :
    W.Scols m j = W.cS (m.joint j).customIdx := by unfold WS.Scols; rw [h]

/-- **F** -/
theorem revX_three (mA mB mC : ModelS α) (i j k : Nat) (wA wB wC : WS α) (st : QS α)
    (qd : VecN α)
    (hA : (mA.joint i).jt = .revoluteX) (dA : (mA.joint i).dof = 1)
    (hB : (mB.joint j).jt = .revolute) (dB : (mB.joint j).dof = 1)
    (hBax : (mB.joint j).axes.headD SV.zero = sv6 1 0 0 0 0 0)
    (hC : (mC.joint k).jt = .custom) (hCk : mC.custom (mC.joint k).customIdx = .revX)
    (qB : (mB.joint j).qIndex = (mA.joint i).qIndex) (qC : (mC.joint k).qIndex = (mA.joint i).qIndex)
    (xB : mB.XT_ j = mA.XT_ i) (xC : mC.XT_ k = mA.XT_ i)
    (hwA : FixedW mA wA i) (hwB : FixedW mB wB j) :
    let JA := jcalc mA wA i st qd
    let JB := jcalc mB wB j st qd
    let JC := jcalc mC wC k st qd
    (JB.X_lambda j = JA.X_lambda i ∧ JC.X_lambda k = JA.X_lambda i) ∧
    (JB.v_J j = JA.v_J i ∧ JC.v_J k = JA.v_J i) ∧
    (JA.c_J i = SV.zero ∧ JB.c_J j = SV.zero ∧ JC.c_J k = SV.zero) ∧
    (JA.Scols mA i = [sv6 1 0 0 0 0 0] ∧ JB.Scols mB j = [sv6 1 0 0 0 0 0] ∧
      JC.Scols mC k = [sv6 1 0 0 0 0 0]) := by
  intro JA JB JC
  obtain ⟨a1, a2, a3, a4⟩ := jcalc_rev mA wA i st qd (by rw [hA]; rfl) hwA
  obtain ⟨b1, b2, b3, b4⟩ := jcalc_revolute mB wB j st qd hB hwB
  obtain ⟨c1, c2, c3, c4⟩ := jcalc_customRevX mC wC k st qd hC hCk
  rw [hA] at a1 a2 a3
  simp only [rotJ, axisJ] at a1 a2 a3
  rw [hBax] at b1 b2 b3
  have hx : (sv6 1 0 0 0 0 0 : SV α).w = ⟨1, 0, 0⟩ := rfl
  rw [hx, C16.Xrot_x, qB, xB] at b1
  rw [qB] at b3
  rw [qC, xC] at c1
  rw [qC] at c3
  have arA : mA.arity i = .one := arity_of_dof1 _ _ (by rw [hA]; exact fun e => nomatch e) dA
  have arB : mB.arity j = .one := arity_of_dof1 _ _ (by rw [hB]; exact fun e => nomatch e) dB
  have arC : mC.arity k = .custom := (arity_custom_iff mC k).2 hC
  refine ⟨⟨?_, ?_⟩, ⟨?_, ?_⟩, ⟨a4, b4, c4⟩, ?_, ?_, ?_⟩
  · show (jcalc mB wB j st qd).X_lambda j = (jcalc mA wA i st qd).X_lambda i
    rw [a1, b1]
  · show (jcalc mC wC k st qd).X_lambda k = (jcalc mA wA i st qd).X_lambda i
    rw [a1, c1]
  · show (jcalc mB wB j st qd).v_J j = (jcalc mA wA i st qd).v_J i
    rw [a3, b3]
  · show (jcalc mC wC k st qd).v_J k = (jcalc mA wA i st qd).v_J i
    rw [a3, c3]
  · rw [Scols_one _ _ _ arA]; show [(jcalc mA wA i st qd).S i] = _; rw [a2]
  · rw [Scols_one _ _ _ arB]; show [(jcalc mB wB j st qd).S j] = _; rw [b2]
  · rw [Scols_custom _ _ _ arC]; exact c2
end

section
variable {α : Type} [Field α] [DecidableEq α]

theorem addBody_single (m : ModelS α) (p : Nat) (X : XT α) (j : Joint α) (b : Body α)
    (name : String) (hk : j.jt.kind = .single) :
    m.addBody p X j b name = m.addBodyMovable p X j b name := by
  rw [ModelS.addBody_eq, ModelS.addBodyMovable_eq]
  by_cases hd : name ≠ "" ∧ m.hasName name
  · rw [if_pos hd, if_pos hd]
  · rw [if_neg hd, if_neg hd]
    simp only [hk]

/-- **E1** -/
theorem fixed_mass_props (m : ModelS α) (parent : Nat) (frame : XT α) (j : Joint α) (b : Body α)
    (name : String) (m1 : ModelS α) (id : Nat) (hj : j.jt = .fixed) (hp : parent < fixedDisc)
    (hadd : m.addBody parent frame j b name = (m1, .ok id)) :
    ∃ pb, (m.body parent).join frame b = some pb ∧
      m1.bodies = m.bodies.set parent pb ∧ m1.I = m.I.set parent pb.toRBI ∧
      (frame.E.IsRot → pb.toRBI = (m.body parent).toRBI + frame.applyTransposeRBI b.toRBI) ∧
      m1.lambda = m.lambda ∧ m1.xT = m.xT ∧ m1.joints = m.joints ∧ m1.mu = m.mu ∧
      m1.w3Index = m.w3Index ∧ m1.customJoints = m.customJoints ∧
      m1.updateOrder = m.updateOrder ∧ m1.gravity = m.gravity ∧ m1.dofCount = m.dofCount ∧
      m1.qSize = m.qSize ∧ m1.qdotSize = m.qdotSize ∧ m1.lambdaQ = m.lambdaQ := by
  rw [ModelS.addBody_fixed _ _ _ _ _ _ hj] at hadd
  obtain ⟨_, _, pb, hjoin, hm1⟩ := ModelS.addBodyFixed_ok hadd
  have hT : m.fixedTarget parent frame = (parent, frame) := by
    unfold ModelS.fixedTarget; rw [not_fixed_of_lt _ _ hp]; rfl
  rw [hT] at hjoin hm1
  refine ⟨pb, hjoin, ?_⟩
  subst hm1
  exact ⟨rfl, rfl, fun hr => C15.join_toRBI hr hjoin, rfl, rfl, rfl, rfl, rfl, rfl, rfl, rfl, rfl,
    rfl, rfl, rfl⟩
end
end Rbdl.L07
