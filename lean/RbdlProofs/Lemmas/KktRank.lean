import Mathlib.LinearAlgebra.Matrix.Rank
/-
  The rank test of `isConstrainedSystemFullyActuated` (Constraints.cc): `rank (G Pᵀ) = n - na`
  (number of columns of `G Pᵀ`) is the same as injectivity of `v ↦ (G Pᵀ) v`.
-/
namespace Rbdl.Kkt
open Matrix

theorem rank_eq_card_iff_inj {K : Type*} [Field K] {m u : Type*} [Fintype m] [Fintype u]
    (A : Matrix m u K) :
    A.rank = Fintype.card u ↔ ∀ v : u → K, A *ᵥ v = 0 → v = 0 := by
  rw [← Matrix.ker_mulVecLin_eq_bot_iff, ← Submodule.finrank_eq_zero, Matrix.rank]
  have h := LinearMap.finrank_range_add_finrank_ker A.mulVecLin
  rw [Module.finrank_fintype_fun_eq_card] at h
  omega

end Rbdl.Kkt
