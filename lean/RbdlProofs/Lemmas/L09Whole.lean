import RbdlProofs.Lemmas.L09Bridge
/-
  C09, part 7: whole constraint sets.  With contiguous (hence pairwise disjoint) rows, the loops over
  the constraints in `calcConstraintsJacobian`, `calcConstraintsPositionError`,
  `calcConstraintsVelocityError` and the gamma loop of `calcConstrainedSystemVariables` leave in the
  rows of every constraint exactly what that constraint writes (ids below `fixedDisc`,
  `update_kinematics = false`).
-/
set_option linter.unusedSectionVars false
namespace Rbdl.L09
open Lean.Grind Rbdl Rbdl.L05 Rbdl.Spec

section
variable {α : Type} [Field α] [DecidableEq α]

/-- a fold whose step overwrites the rows of its constraint and keeps the others -/
theorem foldRows {σ β : Type} (step : σ → Constr α → σ) (get : σ → Nat → β)
    (val : Constr α → Nat → β) (I : σ → Prop) (cs : List (Constr α))
    (hI : ∀ s c, c ∈ cs → I s → I (step s c))
    (hstep : ∀ s c r, c ∈ cs → I s →
      get (step s c) r = if hasRow c r then val c r else get s r)
    (hpw : cs.Pairwise (fun a b => ∀ r, ¬ (hasRow a r ∧ hasRow b r)))
    (s0 : σ) (h0 : I s0) :
    I (cs.foldl step s0) ∧
    (∀ c ∈ cs, ∀ r, hasRow c r → get (cs.foldl step s0) r = val c r) ∧
    (∀ r, (∀ c ∈ cs, ¬ hasRow c r) → get (cs.foldl step s0) r = get s0 r) := by
  induction cs generalizing s0 with
  | nil => exact ⟨h0, fun c hc => by simp at hc, fun r _ => rfl⟩
  | cons d ds ih =>
    rw [List.pairwise_cons] at hpw
    have hd : d ∈ d :: ds := List.mem_cons_self
    obtain ⟨i1, i2, i3⟩ := ih (fun s c hc => hI s c (List.mem_cons_of_mem _ hc))
      (fun s c r hc => hstep s c r (List.mem_cons_of_mem _ hc)) hpw.2 (step s0 d) (hI s0 d hd h0)
    refine ⟨i1, fun c hc r hr => ?_, fun r hr => ?_⟩
    · by_cases hcd : c ∈ ds
      · exact i2 c hcd r hr
      · have e : c = d := by
          rcases List.mem_cons.mp hc with h | h
          · exact h
          · exact absurd h hcd
        subst e
        rw [List.foldl_cons, i3 r (fun b hb hbr => hpw.1 b hb r ⟨hr, hbr⟩), hstep s0 c r hd h0,
          if_pos hr]
    · rw [List.foldl_cons, i3 r (fun c hc => hr c (List.mem_cons_of_mem _ hc)), hstep s0 d r hd h0,
        if_neg (hr d hd)]

theorem foldl_keep {σ τ β : Type} (step : σ → β → σ) (view : σ → τ) (l : List β)
    (h : ∀ s c, c ∈ l → view (step s c) = view s) (s0 : σ) :
    view (l.foldl step s0) = view s0 := by
  induction l generalizing s0 with
  | nil => rfl
  | cons d ds ih =>
    rw [List.foldl_cons, ih (fun s c hc => h s c (List.mem_cons_of_mem _ hc)),
      h s0 d List.mem_cons_self]

/-- contiguous rows are pairwise disjoint -/
theorem pairwise_of_contig {C : CSet α} (hI : Inv C) (hC : Contig C) :
    C.cs.Pairwise (fun a b => ∀ r, ¬ (hasRow a r ∧ hasRow b r)) := by
  rw [List.pairwise_iff_getElem]
  intro i j hi hj hij r ⟨ha, hb⟩
  have := (hC.disjoint hI i j _ _ (List.getElem?_eq_getElem hi) (List.getElem?_eq_getElem hj) hij).1
  have h1 := ha.2
  have h2 := hb.1
  omega

/-- every row below `size` belongs to a constraint's range only through `hasRow` (used to state
    that rows of no constraint are untouched) -/
def NoFixed (c : Constr α) : Prop := ¬ fixedDisc ≤ c.bodyP ∧ ¬ fixedDisc ≤ c.bodyS

/-! ### workspaces that differ only in `v[0]`, `a[0]` -/

structure KEq (w w' : WS α) : Prop where
  xb : w'.X_base = w.X_base
  v : upd w'.v 0 SV.zero = upd w.v 0 SV.zero
  a : upd w'.a 0 SV.zero = upd w.a 0 SV.zero

theorem KEq.rfl' (w : WS α) : KEq w w := ⟨rfl, rfl, rfl⟩

theorem KEq.frameOf {w w' : WS α} (h : KEq w w') (id : Nat) (Xf : XT α) :
    frameOf w' id Xf = frameOf w id Xf := by
  unfold L09.frameOf; rw [h.xb]

theorem KEq.vel6 {w w' : WS α} (h : KEq w w') (id : Nat) (p : V3 α) :
    vel6 w' id p = vel6 w id p := by
  unfold L09.vel6; rw [h.xb, h.v]

theorem KEq.acc6 {w w' : WS α} (h : KEq w w') (id : Nat) (p : V3 α) :
    acc6 w' id p = acc6 w id p := by
  unfold L09.acc6; rw [h.vel6, h.xb, h.a]

theorem KEq.setv {w w' : WS α} (h : KEq w w') : KEq w { w' with v := upd w'.v 0 SV.zero } :=
  ⟨h.xb, by show upd (upd w'.v 0 SV.zero) 0 SV.zero = _; rw [upd_upd]; exact h.v, h.a⟩

theorem KEq.setva {w w' : WS α} (h : KEq w w') :
    KEq w { w' with v := upd w'.v 0 SV.zero, a := upd w'.a 0 SV.zero } :=
  ⟨h.xb, by show upd (upd w'.v 0 SV.zero) 0 SV.zero = _; rw [upd_upd]; exact h.v,
    by show upd (upd w'.a 0 SV.zero) 0 SV.zero = _; rw [upd_upd]; exact h.a⟩

/-! ### one step of each loop -/

theorem loop_jacobian_ws (c : Constr α) (hc : c.ctype = .loop) (m : ModelS α) (w : WS α)
    (st : QS α) (G : MatN α) (hP : ¬ fixedDisc ≤ c.bodyP) : (c.jacobian m w st G false).1 = w := by
  unfold Constr.jacobian
  simp only [hc]
  rw [show (calcPointJacobian6D m w st c.bodyP c.XP.r (fun _ _ => 0) false) =
    (w, loopJp c m w st) from rfl]
  dsimp only
  rw [show (calcPointJacobian6D m w st c.bodyS c.XS.r (fun _ _ => 0) false) =
    (w, loopJs c m w st) from rfl]
  dsimp only
  rw [loopFrame_eq m w st c.bodyP c.XP hP]

/-- the rows a constraint writes into `G` do not depend on the matrix passed in -/
theorem jacobian_step (c : Constr α) (hn : NoFixed c) (m : ModelS α) (w : WS α) (st : QS α)
    (G : MatN α) (r col : Nat) :
    (c.jacobian m w st G false).1 = w ∧
    (c.jacobian m w st G false).2 r col
      = if hasRow c r ∧ col < m.qdotSize then (c.jacobian m w st zeroMat false).2 r col
        else G r col := by
  cases hc : c.ctype with
  | contact =>
    refine ⟨contact_jacobian_ws c hc m w st G false, ?_⟩
    rw [contact_jacobian_get c hc, contact_jacobian_get c hc m w st zeroMat]
    by_cases h : hasRow c r ∧ col < m.qdotSize
    · rw [if_pos h, if_pos h, if_pos h]
    · rw [if_neg h, if_neg h]
  | loop =>
    refine ⟨loop_jacobian_ws c hc m w st G hn.1, ?_⟩
    rw [loop_jacobian_get c hc m w st G hn.1, loop_jacobian_get c hc m w st zeroMat hn.1]
    by_cases h : hasRow c r ∧ col < m.qdotSize
    · rw [if_pos h, if_pos h, if_pos h]
    · rw [if_neg h, if_neg h]

theorem positionError_step (c : Constr α) (hn : NoFixed c) (m : ModelS α) (w : WS α) (st : QS α)
    (err : VecN α) (r : Nat) :
    (c.positionError m w st err false).1 = w ∧
    (c.positionError m w st err false).2 r
      = if hasRow c r then (c.positionError m w st (fun _ => 0) false).2 r else err r := by
  cases hc : c.ctype with
  | contact =>
    refine ⟨by unfold Constr.positionError; simp only [hc]; rfl, ?_⟩
    rw [contact_positionError_get c hc, contact_positionError_get c hc m w st (fun _ => 0)]
    by_cases h : hasRow c r
    · rw [if_pos h, if_pos h, if_pos h]
    · rw [if_neg h, if_neg h]
  | loop =>
    refine ⟨?_, ?_⟩
    · unfold Constr.positionError
      simp only [hc]
      rw [loopFrame_eq m w st c.bodyP c.XP hn.1]
      dsimp only
      rw [loopFrame_eq m w st c.bodyS c.XS hn.2]
    · rw [loop_positionError_get c hc m w st err hn.1 hn.2,
        loop_positionError_get c hc m w st (fun _ => 0) hn.1 hn.2]
      by_cases h : hasRow c r
      · rw [if_pos h, if_pos h, if_pos h]
      · rw [if_neg h, if_neg h]

theorem velocityError_step (c : Constr α) (hn : NoFixed c) (m : ModelS α) (w w' : WS α) (st : QS α)
    (qd : VecN α) (G : MatN α) (errd : VecN α) (hk : KEq w w') (r : Nat) :
    KEq w (c.velocityError m w' st qd G errd false).1 ∧
    (c.velocityError m w' st qd G errd false).2 r
      = if hasRow c r then (c.velocityError m w st qd G (fun _ => 0) false).2 r else errd r := by
  cases hc : c.ctype with
  | contact =>
    have e : ∀ (u : WS α), calcPointVelocity m u st qd c.bodyP c.XP.r false
        = ({ u with v := upd u.v 0 SV.zero }, (vel6 u c.bodyP c.XP.r).v) := by
      intro u
      show ((calcPointVelocity6D m u st qd c.bodyP c.XP.r false).1,
        (calcPointVelocity6D m u st qd c.bodyP c.XP.r false).2.v) = _
      rw [pointVelocity6D_eq m u st qd c.bodyP c.XP.r hn.1]
    refine ⟨?_, ?_⟩
    · unfold Constr.velocityError
      simp only [hc]
      rw [e w']
      exact hk.setv
    · rw [contact_velocityError_get c hc, contact_velocityError_get c hc m w st qd G (fun _ => 0),
        e w', e w]
      dsimp only
      rw [hk.vel6]
      by_cases h : hasRow c r
      · rw [if_pos h, if_pos h, if_pos h]
      · rw [if_neg h, if_neg h]
  | loop =>
    refine ⟨by unfold Constr.velocityError; simp only [hc]; exact hk, ?_⟩
    rw [loop_velocityError_get c hc, loop_velocityError_get c hc m w st qd G (fun _ => 0)]
    by_cases h : hasRow c r
    · rw [if_pos h, if_pos h, if_pos h]
    · rw [if_neg h, if_neg h]

theorem gamma_step (c : Constr α) (hn : NoFixed c) (m : ModelS α) (w w' : WS α) (st : QS α)
    (qd : VecN α) (gam : VecN α) (hk : KEq w w') (r : Nat) :
    KEq w (c.gamma m w' st qd gam).1 ∧
    (c.gamma m w' st qd gam).2 r
      = if hasRow c r then (c.gamma m w st qd (fun _ => 0)).2 r else gam r := by
  cases hc : c.ctype with
  | contact =>
    have e : ∀ (u : WS α), calcPointAcceleration m u st qd zeroVec c.bodyP c.XP.r false
        = ({ u with v := upd u.v 0 SV.zero, a := upd u.a 0 SV.zero }, (acc6 u c.bodyP c.XP.r).v) := by
      intro u
      show ((calcPointAcceleration6D m u st qd zeroVec c.bodyP c.XP.r false).1,
        (calcPointAcceleration6D m u st qd zeroVec c.bodyP c.XP.r false).2.v) = _
      rw [pointAcceleration6D_eq m u st qd zeroVec c.bodyP c.XP.r hn.1]
    refine ⟨?_, ?_⟩
    · unfold Constr.gamma
      simp only [hc]
      rw [e w']
      exact hk.setva
    · rw [contact_gamma_get c hc, contact_gamma_get c hc m w st qd (fun _ => 0), e w', e w]
      dsimp only
      rw [hk.acc6]
      by_cases h : hasRow c r
      · rw [if_pos h, if_pos h, if_pos h]
      · rw [if_neg h, if_neg h]
  | loop =>
    refine ⟨?_, ?_⟩
    · unfold Constr.gamma
      simp only [hc]
      rw [loopFrame_eq m w' st c.bodyP c.XP hn.1]
      dsimp only
      rw [pointVelocity6D_eq m w' st qd c.bodyP c.XP.r hn.1]
      dsimp only
      rw [pointVelocity6D_eq m _ st qd c.bodyS c.XS.r hn.2]
      dsimp only
      rw [pointAcceleration6D_eq m _ st qd zeroVec c.bodyP c.XP.r hn.1]
      dsimp only
      rw [pointAcceleration6D_eq m _ st qd zeroVec c.bodyS c.XS.r hn.2]
      exact hk.setv.setv.setva.setva
    · rw [loop_gamma_get c hc m w' st qd gam hn.1 hn.2,
        loop_gamma_get c hc m w st qd (fun _ => 0) hn.1 hn.2,
        hk.frameOf, hk.vel6, hk.vel6, hk.acc6, hk.acc6]
      by_cases h : hasRow c r
      · rw [if_pos h, if_pos h, if_pos h]
      · rw [if_neg h, if_neg h]

/-! ### the loops over the constraints -/

/-- `CalcConstraintsJacobian` (no update): the rows of every constraint are those it writes; rows of
    no constraint and columns `≥ qdotSize` keep the input -/
theorem constraintsJacobian_rows (C : CSet α) (hI : Inv C) (hC : Contig C)
    (hn : ∀ c ∈ C.cs, NoFixed c) (m : ModelS α) (w : WS α) (st : QS α) (G : MatN α) :
    (calcConstraintsJacobian m w st C G false).1 = w ∧
    (∀ c ∈ C.cs, ∀ r, hasRow c r → ∀ col, col < m.qdotSize →
      (calcConstraintsJacobian m w st C G false).2 r col
        = (c.jacobian m w st zeroMat false).2 r col) ∧
    (∀ r col, (∀ c ∈ C.cs, ¬ hasRow c r) ∨ ¬ col < m.qdotSize →
      (calcConstraintsJacobian m w st C G false).2 r col = G r col) := by
  unfold calcConstraintsJacobian
  show (C.cs.foldl (fun (s : WS α × MatN α) c => c.jacobian m s.1 st s.2 false) (w, G)).1 = w ∧ _
  have key : ∀ col, col < m.qdotSize → _ := fun col hcol =>
    foldRows (fun (s : WS α × MatN α) c => c.jacobian m s.1 st s.2 false)
      (fun s r => s.2 r col) (fun c r => (c.jacobian m w st zeroMat false).2 r col)
      (fun s => s.1 = w) C.cs
      (fun s c hc hs => by
        show (c.jacobian m s.1 st s.2 false).1 = w
        rw [hs]; exact (jacobian_step c (hn c hc) m w st s.2 0 0).1)
      (fun s c r hc hs => by
        show (c.jacobian m s.1 st s.2 false).2 r col = _
        rw [hs, (jacobian_step c (hn c hc) m w st s.2 r col).2]
        by_cases h : hasRow c r
        · rw [if_pos ⟨h, hcol⟩, if_pos h]
        · rw [if_neg (fun hh => h hh.1), if_neg h])
      (pairwise_of_contig hI hC) (w, G) rfl
  have hws : (C.cs.foldl (fun (s : WS α × MatN α) c => c.jacobian m s.1 st s.2 false) (w, G)).1 = w :=
    (foldRows (fun (s : WS α × MatN α) c => c.jacobian m s.1 st s.2 false)
      (fun _ (_ : Nat) => ()) (fun _ _ => ()) (fun s => s.1 = w) C.cs
      (fun s c hc hs => by
        show (c.jacobian m s.1 st s.2 false).1 = w
        rw [hs]; exact (jacobian_step c (hn c hc) m w st s.2 0 0).1)
      (fun _ _ _ _ _ => by split <;> rfl) (pairwise_of_contig hI hC) (w, G) rfl).1
  refine ⟨hws, fun c hc r hr col hcol => (key col hcol).2.1 c hc r hr, fun r col h => ?_⟩
  by_cases hcol : col < m.qdotSize
  · rcases h with h | h
    · exact (key col hcol).2.2 r h
    · exact absurd hcol h
  · -- columns beyond `qdotSize` are never written
    have inv : ∀ (l : List (Constr α)), (∀ c ∈ l, c ∈ C.cs) → ∀ (s : WS α × MatN α), s.1 = w →
        (l.foldl (fun (s : WS α × MatN α) c => c.jacobian m s.1 st s.2 false) s).2 r col
          = s.2 r col := by
      intro l
      induction l with
      | nil => intro _ s _; rfl
      | cons d ds ih =>
        intro hl s hs
        have hd := hl d List.mem_cons_self
        rw [List.foldl_cons, ih (fun c hc => hl c (List.mem_cons_of_mem _ hc)) _
          (by rw [hs]; exact (jacobian_step d (hn d hd) m w st s.2 0 0).1), hs,
          (jacobian_step d (hn d hd) m w st s.2 r col).2, if_neg (fun hh => hcol hh.2)]
    exact inv C.cs (fun _ h => h) (w, G) rfl

/-- `CalcConstraintsPositionError` (no update) -/
theorem constraintsPositionError_rows (C : CSet α) (hI : Inv C) (hC : Contig C)
    (hn : ∀ c ∈ C.cs, NoFixed c) (m : ModelS α) (w : WS α) (st : QS α) (err : VecN α) :
    (calcConstraintsPositionError m w st C err false).1 = w ∧
    (∀ c ∈ C.cs, ∀ r, hasRow c r →
      (calcConstraintsPositionError m w st C err false).2 r
        = (c.positionError m w st (fun _ => 0) false).2 r) ∧
    (∀ r, (∀ c ∈ C.cs, ¬ hasRow c r) →
      (calcConstraintsPositionError m w st C err false).2 r = err r) := by
  unfold calcConstraintsPositionError
  have key := foldRows (fun (s : WS α × VecN α) c => c.positionError m s.1 st s.2 false)
      (fun s r => s.2 r) (fun c r => (c.positionError m w st (fun _ => 0) false).2 r)
      (fun s => s.1 = w) C.cs
      (fun s c hc hs => by
        show (c.positionError m s.1 st s.2 false).1 = w
        rw [hs]; exact (positionError_step c (hn c hc) m w st s.2 0).1)
      (fun s c r hc hs => by
        show (c.positionError m s.1 st s.2 false).2 r = _
        rw [hs]; exact (positionError_step c (hn c hc) m w st s.2 r).2)
      (pairwise_of_contig hI hC) (w, err) rfl
  exact ⟨key.1, key.2.1, key.2.2⟩

/-- the error loop of `CalcConstraintsVelocityError` for a given matrix `G` -/
theorem constraintsVelocityError_rows (C : CSet α) (hI : Inv C) (hC : Contig C)
    (hn : ∀ c ∈ C.cs, NoFixed c) (m : ModelS α) (w : WS α) (st : QS α) (qd : VecN α) (G : MatN α)
    (errd : VecN α) :
    (∀ c ∈ C.cs, ∀ r, hasRow c r →
      (C.cs.foldl (fun (s : WS α × VecN α) c => c.velocityError m s.1 st qd G s.2 false)
          (w, errd)).2 r
        = (c.velocityError m w st qd G (fun _ => 0) false).2 r) ∧
    (∀ r, (∀ c ∈ C.cs, ¬ hasRow c r) →
      (C.cs.foldl (fun (s : WS α × VecN α) c => c.velocityError m s.1 st qd G s.2 false)
          (w, errd)).2 r = errd r) := by
  have key := foldRows (fun (s : WS α × VecN α) c => c.velocityError m s.1 st qd G s.2 false)
      (fun s r => s.2 r) (fun c r => (c.velocityError m w st qd G (fun _ => 0) false).2 r)
      (fun s => KEq w s.1) C.cs
      (fun s c hc hs => (velocityError_step c (hn c hc) m w s.1 st qd G s.2 hs 0).1)
      (fun s c r hc hs => (velocityError_step c (hn c hc) m w s.1 st qd G s.2 hs r).2)
      (pairwise_of_contig hI hC) (w, errd) (KEq.rfl' w)
  exact ⟨key.2.1, key.2.2⟩

/-- the gamma loop of `CalcConstrainedSystemVariables`: in the rows of constraint `c` stands
    `calcGamma` of `c` plus its Baumgarte term -/
theorem gammaLoop_rows (C : CSet α) (hI : Inv C) (hC : Contig C)
    (hn : ∀ c ∈ C.cs, NoFixed c) (m : ModelS α) (w : WS α) (st : QS α) (qd : VecN α)
    (err errd : VecN α) :
    (∀ c ∈ C.cs, ∀ r, hasRow c r →
      (C.cs.foldl (fun (s : WS α × VecN α) c =>
          let (w, g) := c.gamma m s.1 st qd s.2
          (w, c.addBaumgarte err errd g)) (w, fun _ => 0)).2 r
        = (c.gamma m w st qd (fun _ => 0)).2 r
          + (if c.baumgarte = true then -(2 * c.bgA * errd r) - c.bgB * c.bgB * err r else 0)) ∧
    (∀ r, (∀ c ∈ C.cs, ¬ hasRow c r) →
      (C.cs.foldl (fun (s : WS α × VecN α) c =>
          let (w, g) := c.gamma m s.1 st qd s.2
          (w, c.addBaumgarte err errd g)) (w, fun _ => 0)).2 r = 0) := by
  have key := foldRows (fun (s : WS α × VecN α) c =>
          let (w, g) := c.gamma m s.1 st qd s.2
          (w, c.addBaumgarte err errd g))
      (fun s r => s.2 r)
      (fun c r => (c.gamma m w st qd (fun _ => 0)).2 r
          + (if c.baumgarte = true then -(2 * c.bgA * errd r) - c.bgB * c.bgB * err r else 0))
      (fun s => KEq w s.1) C.cs
      (fun s c hc hs => (gamma_step c (hn c hc) m w s.1 st qd s.2 hs 0).1)
      (fun s c r hc hs => by
        show c.addBaumgarte err errd (c.gamma m s.1 st qd s.2).2 r = _
        rw [addBaumgarte_get, (gamma_step c (hn c hc) m w s.1 st qd s.2 hs r).2]
        by_cases h : hasRow c r
        · rw [if_pos h, if_pos h]
          by_cases hb : c.baumgarte = true
          · rw [if_pos ⟨hb, h⟩, if_pos hb]
          · rw [if_neg (fun hh => hb hh.1), if_neg hb]; grind
        · rw [if_neg h, if_neg h, if_neg (fun hh => h hh.2)])
      (pairwise_of_contig hI hC) (w, fun _ => 0) (KEq.rfl' w)
  exact ⟨key.2.1, key.2.2⟩

/-! ### `CalcConstrainedSystemVariables` -/

/-- the workspace in which `CalcConstrainedSystemVariables` evaluates the constraint routines: after
    the optional position update, `NonlinearEffects` and the composite-rigid-body algorithm -/
def csvWS (m : ModelS α) (w : WS α) (st : QS α) (qd : VecN α) (update : Bool)
    (fext : Option (Nat → SV α)) : WS α :=
  (crba m (nonlinearEffects m (updQ m w st update) st qd (fun _ => 0) fext).1 st (fun _ _ => 0)
    false).1

/-- the velocity-error loop only sets `v[0] = 0` -/
theorem velocityError_ws (c : Constr α) (hn : NoFixed c) (m : ModelS α) (w u : WS α) (st : QS α)
    (qd : VecN α) (G : MatN α) (errd : VecN α)
    (hu : u = w ∨ u = { w with v := upd w.v 0 SV.zero }) :
    (c.velocityError m u st qd G errd false).1 = w ∨
    (c.velocityError m u st qd G errd false).1 = { w with v := upd w.v 0 SV.zero } := by
  cases hc : c.ctype with
  | contact =>
    right
    unfold Constr.velocityError
    simp only [hc]
    have e : calcPointVelocity m u st qd c.bodyP c.XP.r false
        = ({ u with v := upd u.v 0 SV.zero }, (vel6 u c.bodyP c.XP.r).v) := by
      show ((calcPointVelocity6D m u st qd c.bodyP c.XP.r false).1,
        (calcPointVelocity6D m u st qd c.bodyP c.XP.r false).2.v) = _
      rw [pointVelocity6D_eq m u st qd c.bodyP c.XP.r hn.1]
    rw [e]
    rcases hu with rfl | rfl
    · rfl
    · show ({ w with v := upd (upd w.v 0 SV.zero) 0 SV.zero } : WS α) = _
      rw [upd_upd]
  | loop =>
    unfold Constr.velocityError
    simp only [hc]
    exact hu

theorem ukc_setv (m : ModelS α) (w : WS α) (q : VecN α) :
    updateKinematicsCustom m { w with v := upd w.v 0 SV.zero } none none (some q)
      = { updateKinematicsCustom m w none none (some q) with v := upd w.v 0 SV.zero } := by
  rw [ukcAcc_eq, ukcAcc_eq]
  rfl

theorem keq_setv (w : WS α) : KEq w { w with v := upd w.v 0 SV.zero } := (KEq.rfl' w).setv

section csvStages
variable (m : ModelS α) (w : WS α) (st : QS α) (qd : VecN α) (C : CSet α) (update : Bool)
  (fext : Option (Nat → SV α))

/-- the stages of `CalcConstrainedSystemVariables` after CRBA -/
def csvJ : WS α × MatN α :=
  calcConstraintsJacobian m (csvWS m w st qd update fext) st C (fun _ _ => 0) false
def csvP : WS α × VecN α :=
  calcConstraintsPositionError m (csvJ m w st qd C update fext).1 st C (fun _ => 0) false
def csvV : WS α × MatN α × VecN α :=
  calcConstraintsVelocityError m (csvP m w st qd C update fext).1 st qd C
    (csvJ m w st qd C update fext).2 (fun _ => 0) false
def csvGam : WS α × VecN α :=
  C.cs.foldl (fun (s : WS α × VecN α) c =>
    let (w', g) := c.gamma m s.1 st qd s.2
    (w', c.addBaumgarte (csvP m w st qd C update fext).2 (csvV m w st qd C update fext).2.2 g))
    (updateKinematicsCustom m (csvV m w st qd C update fext).1 none none (some zeroVec), fun _ => 0)

theorem csv_fields :
    (calcConstrainedSystemVariables m w st qd C update fext).2.G = (csvV m w st qd C update fext).2.1 ∧
    (calcConstrainedSystemVariables m w st qd C update fext).2.err = (csvP m w st qd C update fext).2 ∧
    (calcConstrainedSystemVariables m w st qd C update fext).2.errd
      = (csvV m w st qd C update fext).2.2 ∧
    (calcConstrainedSystemVariables m w st qd C update fext).2.gamma
      = (csvGam m w st qd C update fext).2 := ⟨rfl, rfl, rfl, rfl⟩

end csvStages

/-- **`CalcConstrainedSystemVariables`, row by row**: with `W = csvWS …` the workspace after
    `NonlinearEffects` and CRBA, the fields `G`, `err`, `errd`, `gamma` of the result hold, in the
    rows of every constraint `c`, what `c` writes when evaluated in `W` (for `gamma`: in `W` after
    `UpdateKinematicsCustom (NULL, NULL, 0)`, plus the Baumgarte term of the reported errors) -/
theorem csv_rows (C : CSet α) (hI : Inv C) (hC : Contig C) (hn : ∀ c ∈ C.cs, NoFixed c)
    (m : ModelS α) (w : WS α) (st : QS α) (qd : VecN α) (update : Bool)
    (fext : Option (Nat → SV α)) :
    ∀ c ∈ C.cs, ∀ r, hasRow c r →
      (∀ col, col < m.qdotSize →
        (calcConstrainedSystemVariables m w st qd C update fext).2.G r col
          = (c.jacobian m (csvWS m w st qd update fext) st zeroMat false).2 r col) ∧
      (calcConstrainedSystemVariables m w st qd C update fext).2.err r
        = (c.positionError m (csvWS m w st qd update fext) st (fun _ => 0) false).2 r ∧
      (calcConstrainedSystemVariables m w st qd C update fext).2.errd r
        = (c.velocityError m (csvWS m w st qd update fext) st qd
            (calcConstrainedSystemVariables m w st qd C update fext).2.G (fun _ => 0) false).2 r ∧
      (calcConstrainedSystemVariables m w st qd C update fext).2.gamma r
        = (c.gamma m (updateKinematicsCustom m (csvWS m w st qd update fext) none none
              (some zeroVec)) st qd (fun _ => 0)).2 r
          + (if c.baumgarte = true then
              -(2 * c.bgA * (calcConstrainedSystemVariables m w st qd C update fext).2.errd r)
                - c.bgB * c.bgB * (calcConstrainedSystemVariables m w st qd C update fext).2.err r
             else 0) := by
  intro c hc r hr
  obtain ⟨fG, fE, fD, fGam⟩ := csv_fields m w st qd C update fext
  rw [fG, fE, fD, fGam]
  generalize hW : csvWS m w st qd update fext = W
  have hJ := constraintsJacobian_rows C hI hC hn m W st (fun _ _ => 0)
  have hPE := constraintsPositionError_rows C hI hC hn m W st (fun _ => 0)
  have eJ : csvJ m w st qd C update fext = calcConstraintsJacobian m W st C (fun _ _ => 0) false := by
    unfold csvJ; rw [hW]
  have eJ1 : (csvJ m w st qd C update fext).1 = W := by rw [eJ]; exact hJ.1
  have eP : csvP m w st qd C update fext
      = calcConstraintsPositionError m W st C (fun _ => 0) false := by
    unfold csvP; rw [eJ1]
  have eP1 : (csvP m w st qd C update fext).1 = W := by rw [eP]; exact hPE.1
  have hJ2 := constraintsJacobian_rows C hI hC hn m W st (csvJ m w st qd C update fext).2
  have eV : csvV m w st qd C update fext
      = calcConstraintsVelocityError m W st qd C (csvJ m w st qd C update fext).2 (fun _ => 0)
          false := by
    unfold csvV; rw [eP1]
  have eVG : (csvV m w st qd C update fext).2.1
      = (calcConstraintsJacobian m W st C (csvJ m w st qd C update fext).2 false).2 := by
    rw [eV]; rfl
  have hcve : calcConstraintsVelocityError m W st qd C (csvJ m w st qd C update fext).2
        (fun _ => 0) false
      = ((C.cs.foldl (fun (s : WS α × VecN α) c => c.velocityError m s.1 st qd
            (calcConstraintsJacobian m W st C (csvJ m w st qd C update fext).2 false).2 s.2 false)
            ((calcConstraintsJacobian m W st C (csvJ m w st qd C update fext).2 false).1,
              fun _ => 0)).1,
         (calcConstraintsJacobian m W st C (csvJ m w st qd C update fext).2 false).2,
         (C.cs.foldl (fun (s : WS α × VecN α) c => c.velocityError m s.1 st qd
            (calcConstraintsJacobian m W st C (csvJ m w st qd C update fext).2 false).2 s.2 false)
            ((calcConstraintsJacobian m W st C (csvJ m w st qd C update fext).2 false).1,
              fun _ => 0)).2) := rfl
  have eVD : (csvV m w st qd C update fext).2.2
      = (C.cs.foldl (fun (s : WS α × VecN α) c => c.velocityError m s.1 st qd
          (csvV m w st qd C update fext).2.1 s.2 false) (W, fun _ => 0)).2 := by
    rw [eVG, eV, hcve, hJ2.1]
  have eVW : (csvV m w st qd C update fext).1
      = (C.cs.foldl (fun (s : WS α × VecN α) c => c.velocityError m s.1 st qd
          (csvV m w st qd C update fext).2.1 s.2 false) (W, fun _ => 0)).1 := by
    rw [eVG, eV, hcve, hJ2.1]
  -- workspace after the velocity-error loop
  have hVws : ∀ (G : MatN α) (l : List (Constr α)), (∀ c ∈ l, c ∈ C.cs) → ∀ (s : WS α × VecN α),
      (s.1 = W ∨ s.1 = { W with v := upd W.v 0 SV.zero }) →
      ((l.foldl (fun (s : WS α × VecN α) c => c.velocityError m s.1 st qd G s.2 false) s).1 = W ∨
       (l.foldl (fun (s : WS α × VecN α) c => c.velocityError m s.1 st qd G s.2 false) s).1
          = { W with v := upd W.v 0 SV.zero }) := by
    intro G l
    induction l with
    | nil => intro _ s hs; exact hs
    | cons d ds ih =>
      intro hl s hs
      rw [List.foldl_cons]
      exact ih (fun c hc => hl c (List.mem_cons_of_mem _ hc)) _
        (velocityError_ws d (hn d (hl d List.mem_cons_self)) m W s.1 st qd G s.2 hs)
  refine ⟨fun col hcol => ?_, ?_, ?_, ?_⟩
  · rw [eVG]; exact hJ2.2.1 c hc r hr col hcol
  · rw [eP]; exact hPE.2.1 c hc r hr
  · rw [eVD]
    exact (constraintsVelocityError_rows C hI hC hn m W st qd _ (fun _ => 0)).1 c hc r hr
  · have hW' : (csvV m w st qd C update fext).1 = W ∨
        (csvV m w st qd C update fext).1 = { W with v := upd W.v 0 SV.zero } := by
      rw [eVW]; exact hVws _ C.cs (fun _ h => h) _ (Or.inl rfl)
    have hk : KEq (updateKinematicsCustom m W none none (some zeroVec))
        (updateKinematicsCustom m (csvV m w st qd C update fext).1 none none (some zeroVec)) := by
      rcases hW' with h | h
      · rw [h]; exact KEq.rfl' _
      · rw [h, ukc_setv]
        refine ⟨rfl, ?_, rfl⟩
        show upd (upd W.v 0 SV.zero) 0 SV.zero = upd (updateKinematicsCustom m W none none _).v 0 _
        rw [upd_upd, ukcAcc_eq]
    have key := foldRows (fun (s : WS α × VecN α) c =>
          let (w', g) := c.gamma m s.1 st qd s.2
          (w', c.addBaumgarte (csvP m w st qd C update fext).2 (csvV m w st qd C update fext).2.2 g))
      (fun s r => s.2 r)
      (fun c r => (c.gamma m (updateKinematicsCustom m W none none (some zeroVec)) st qd
          (fun _ => 0)).2 r
          + (if c.baumgarte = true then
              -(2 * c.bgA * (csvV m w st qd C update fext).2.2 r)
                - c.bgB * c.bgB * (csvP m w st qd C update fext).2 r
             else 0))
      (fun s => KEq (updateKinematicsCustom m W none none (some zeroVec)) s.1) C.cs
      (fun s c hc hs => (gamma_step c (hn c hc) m _ s.1 st qd s.2 hs 0).1)
      (fun s c r hc hs => by
        show c.addBaumgarte _ _ (c.gamma m s.1 st qd s.2).2 r = _
        rw [addBaumgarte_get, (gamma_step c (hn c hc) m _ s.1 st qd s.2 hs r).2]
        by_cases h : hasRow c r
        · rw [if_pos h, if_pos h]
          by_cases hb : c.baumgarte = true
          · rw [if_pos ⟨hb, h⟩, if_pos hb]
          · rw [if_neg (fun hh => hb hh.1), if_neg hb]; grind
        · rw [if_neg h, if_neg h, if_neg (fun hh => h hh.2)])
      (pairwise_of_contig hI hC)
      (updateKinematicsCustom m (csvV m w st qd C update fext).1 none none (some zeroVec),
        fun _ => 0) hk
    exact key.2.1 c hc r hr

end
end Rbdl.L09
