import RbdlProofs.Lemmas.L12
/-
  Helper lemmas for C03 (inertia matrix, `tau = H qddot + N`): the loops of
  `CompositeRigidBodyAlgorithm` and `InverseDynamics` as named functions, write lists for the
  `H(r,c) = x` assignments, counter-indexed loop invariants.
-/
namespace Rbdl.L03
open Lean.Grind Rbdl Rbdl.Loops
set_option linter.unusedSectionVars false

section Crba
variable {α : Type} [Field α]

/-- body of the first loop of `crba` -/
def crbaInitBody (m : ModelS α) (st : QS α) (update : Bool) (i : Nat) (w : WS α) : WS α :=
  let w := if update then jcalcXlambdaS m w i st else w
  { w with Ic := upd w.Ic i (m.rbi i) }

/-- the workspace the second loop of `crba` starts from -/
def crbaInit (m : ModelS α) (w : WS α) (st : QS α) (update : Bool) : WS α :=
  forUp (m.nBodies - 1) 1 (crbaInitBody m st update) w

/-- `Ic[λ i] += X_λᵀ Ic[i] X_λ` -/
def crbaIc (m : ModelS α) (i : Nat) (w : WS α) : WS α :=
  if m.lam i ≠ 0 then
    { w with Ic := upd w.Ic (m.lam i) (w.Ic (m.lam i) + (w.X_lambda i).applyTransposeRBI (w.Ic i)) }
  else w

/-- the diagonal block `H(i-block, i-block) = S_iᵀ Ic_i S_i` -/
def crbaDiag (ki : Nat) (Si : List (SV α × Nat)) (Ic : RBI α) (H : MatN α) : MatN α :=
  Si.foldl (fun H a => (Si.map (fun p => (Ic * p.1, p.2))).foldl
    (fun H b => setH H (ki + a.2) (ki + b.2) (a.1.dot b.1)) H) H

/-- one step of the walk to the root -/
def crbaWalkBody (m : ModelS α) (w : WS α) (ki : Nat) (j : Nat)
    (s : List (SV α × Nat) × MatN α) : List (SV α × Nat) × MatN α :=
  let (F, H) := s
  if m.lam j = 0 then (F, H) else
  let F := F.map (fun p => ((w.X_lambda j).applyTranspose p.1, p.2))
  let jj := m.lam j
  let kj := (m.joint jj).qIndex
  let Sj := zipIdx (w.Scols m jj)
  let H := F.foldl (fun H a => Sj.foldl (fun H b =>
    let x := a.1.dot b.1
    setH (setH H (ki + a.2) (kj + b.2) x) (kj + b.2) (ki + a.2) x) H) H
  (F, H)

/-- the `H` update of iteration `i` (with the workspace after the `Ic` update) -/
def crbaStepH (m : ModelS α) (w : WS α) (i : Nat) (H : MatN α) : MatN α :=
  let ki := (m.joint i).qIndex
  let Si := zipIdx (w.Scols m i)
  let F : List (SV α × Nat) := Si.map (fun p => (w.Ic i * p.1, p.2))
  (walkUp m m.nBodies i (crbaWalkBody m w ki) (F, crbaDiag ki Si (w.Ic i) H)).2

/-- body of the second loop of `crba` -/
def crbaBody (m : ModelS α) (i : Nat) (s : WS α × MatN α) : WS α × MatN α :=
  (crbaIc m i s.1, crbaStepH m (crbaIc m i s.1) i s.2)

theorem crba_eq (m : ModelS α) (w : WS α) (st : QS α) (H : MatN α) (update : Bool) :
    crba m w st H update
      = forDown (m.nBodies - 1) (m.nBodies - 1) (crbaBody m) (crbaInit m w st update, H) := rfl


/-! ### the workspace part of the second loop -/

theorem jcalcXlambdaS_Ic (m : ModelS α) (w : WS α) (i : Nat) (st : QS α) :
    (jcalcXlambdaS m w i st).Ic = w.Ic := by
  unfold jcalcXlambdaS
  dsimp only
  cases h : (m.joint i).jt <;> rfl

theorem crbaInitBody_Ic (m : ModelS α) (st : QS α) (update : Bool) (i : Nat) (w : WS α) :
    (crbaInitBody m st update i w).Ic = upd w.Ic i (m.rbi i) := by
  unfold crbaInitBody
  cases update
  · rfl
  · simp only [if_true, jcalcXlambdaS_Ic]

/-- `Ic[i] = I_i` after the first loop -/
theorem crbaInit_Ic (m : ModelS α) (w : WS α) (st : QS α) (update : Bool) (i : Nat)
    (h1 : 1 ≤ i) (h2 : i ≤ m.nBodies - 1) : (crbaInit m w st update).Ic i = m.rbi i := by
  unfold crbaInit
  rw [forUp_get_inside (fun s => s.Ic) (crbaInitBody m st update)
    (fun i s j hj => by rw [crbaInitBody_Ic, upd_other _ _ _ _ hj]) _ _ _ i h1 (by omega)]
  rw [crbaInitBody_Ic, upd_same]

/-- the second loop changes only `Ic` in the workspace -/
theorem crbaIc_keep {τ : Type} (view : WS α → τ)
    (hv : ∀ (w : WS α) Ic, view { w with Ic := Ic } = view w) (m : ModelS α) (i : Nat)
    (w : WS α) : view (crbaIc m i w) = view w := by
  unfold crbaIc; split
  · exact hv w _
  · rfl

theorem crbaLoop_keep {τ : Type} (view : WS α → τ)
    (hv : ∀ (w : WS α) Ic, view { w with Ic := Ic } = view w) (m : ModelS α) (cnt hi : Nat)
    (s : WS α × MatN α) : view (forDown cnt hi (crbaBody m) s).1 = view s.1 :=
  forDown_keep (fun s => view s.1) (crbaBody m) cnt hi
    (fun i s _ _ => crbaIc_keep view hv m i s.1) s

theorem crbaIc_Ic (m : ModelS α) (i : Nat) (w : WS α) :
    (crbaIc m i w).Ic = bwdBody m.lam (fun c a x => a + L12.TI w.X_lambda c x) i w.Ic := by
  unfold crbaIc bwdBody L12.TI; split <;> rfl

/-- the `Ic` array of the second loop is the generic backward accumulation -/
theorem crbaLoop_Ic (m : ModelS α) (cnt hi : Nat) (s : WS α × MatN α) :
    (forDown cnt hi (crbaBody m) s).1.Ic
      = forDown cnt hi (bwdBody m.lam (fun c a x => a + L12.TI s.1.X_lambda c x)) s.1.Ic :=
  (forDown_sim (fun (s' : WS α × MatN α) t => s'.1.X_lambda = s.1.X_lambda ∧ s'.1.Ic = t)
    (crbaBody m) (bwdBody m.lam (fun c a x => a + L12.TI s.1.X_lambda c x)) cnt hi
    (fun i s' t _ _ h => ⟨by
        show (crbaIc m i s'.1).X_lambda = _
        rw [crbaIc_keep (fun w => w.X_lambda) (fun _ _ => rfl), h.1], by
        show (crbaIc m i s'.1).Ic = _
        rw [crbaIc_Ic, h.1, h.2]⟩)
    s s.1.Ic ⟨rfl, rfl⟩).2


/-- composite inertias after `crba` (lemma form of `C03.crba_Ic_closed`) -/
theorem crba_Ic_l (m : ModelS α) (w : WS α) (st : QS α) (H0 : MatN α) (update : Bool)
    (htree : ∀ c, 1 ≤ c → c ≤ m.nBodies - 1 → m.lam c < c)
    (i : Nat) (h1 : 1 ≤ i) (h2 : i ≤ m.nBodies - 1) :
    (crba m w st H0 update).1.Ic i
      = m.rbi i + lsum RBI.zero
          (fun c => ((crba m w st H0 update).1.X_lambda c).applyTransposeRBI
            ((crba m w st H0 update).1.Ic c))
          (childrenOf m.lam (m.nBodies - 1) i) := by
  rw [crba_eq, crbaLoop_keep (fun w => w.X_lambda) (fun _ _ => rfl), crbaLoop_Ic]
  rw [bwd_sum m.lam _ L12.rbi_addLaws _ htree _ i (by omega), crbaInit_Ic m w st update i h1 h2]
  rfl

/-! ### write lists -/

/-- `H(r,c) = x` for a list of writes `(r, c, x)`, in order -/
def applyW (H : MatN α) (ws : List (Nat × Nat × α)) : MatN α :=
  ws.foldl (fun H t => setH H t.1 t.2.1 t.2.2) H

theorem applyW_nil (H : MatN α) : applyW H [] = H := rfl
theorem applyW_cons (H : MatN α) (t : Nat × Nat × α) (ws : List (Nat × Nat × α)) :
    applyW H (t :: ws) = applyW (setH H t.1 t.2.1 t.2.2) ws := rfl
theorem applyW_append (H : MatN α) (ws ws' : List (Nat × Nat × α)) :
    applyW H (ws ++ ws') = applyW (applyW H ws) ws' := by
  unfold applyW; rw [List.foldl_append]

/-- an entry no write addresses is unchanged -/
theorem applyW_nomem (H : MatN α) (ws : List (Nat × Nat × α)) (r c : Nat)
    (h : ∀ t ∈ ws, ¬ (t.1 = r ∧ t.2.1 = c)) : applyW H ws r c = H r c := by
  induction ws generalizing H with
  | nil => rfl
  | cons t ws ih =>
    rw [applyW_cons, ih _ (fun t' ht' => h t' (List.mem_cons_of_mem _ ht'))]
    have := h t (List.mem_cons_self ..)
    unfold setH
    rw [if_neg (fun e => this ⟨e.1.symm, e.2.symm⟩)]

/-- an entry addressed by a write, all writes to it carrying the same value, gets that value -/
theorem applyW_mem (H : MatN α) (ws : List (Nat × Nat × α)) (r c : Nat) (x : α)
    (hx : (r, c, x) ∈ ws) (hc : ∀ t ∈ ws, t.1 = r → t.2.1 = c → t.2.2 = x) :
    applyW H ws r c = x := by
  induction ws generalizing H with
  | nil => cases hx
  | cons t ws ih =>
    rw [applyW_cons]
    by_cases h : ∃ t' ∈ ws, t'.1 = r ∧ t'.2.1 = c
    · obtain ⟨t', ht', e1, e2⟩ := h
      have e3 := hc t' (List.mem_cons_of_mem _ ht') e1 e2
      have : t' = (r, c, x) := by
        obtain ⟨a, b, y⟩ := t'; simp only at e1 e2 e3; subst e1 e2 e3; rfl
      exact ih _ (this ▸ ht') (fun t ht => hc t (List.mem_cons_of_mem _ ht))
    · rw [applyW_nomem _ ws r c (fun t' ht' e => h ⟨t', ht', e⟩)]
      have ht : t = (r, c, x) := by
        rcases List.mem_cons.1 hx with e | e
        · exact e.symm
        · exact absurd ⟨(r, c, x), e, rfl, rfl⟩ h
      subst ht
      unfold setH
      simp

theorem zipIdx_eq (l : List (SV α)) : Rbdl.zipIdx l = l.zipIdx := by
  unfold Rbdl.zipIdx
  rw [List.zipIdx_eq_zip_range', List.range_eq_range']

/-- `(x, a) ∈ zipIdx l` iff `x` is entry `a` of `l` -/
theorem mem_zipIdx_iff (l : List (SV α)) (p : SV α × Nat) :
    p ∈ Rbdl.zipIdx l ↔ p.2 < l.length ∧ l.getD p.2 SV.zero = p.1 := by
  rw [zipIdx_eq, List.mem_zipIdx_iff_getElem?, List.getD_eq_getElem?_getD]
  constructor
  · intro h
    have hl : p.2 < l.length := by
      rcases Nat.lt_or_ge p.2 l.length with h' | h'
      · exact h'
      · rw [List.getElem?_eq_none h'] at h; cases h
    exact ⟨hl, by rw [h]; rfl⟩
  · intro ⟨hl, h⟩
    rw [List.getElem?_eq_getElem hl] at h ⊢
    simp only [Option.getD_some] at h
    rw [h]

theorem mk_mem_zipIdx (l : List (SV α)) (a : Nat) (h : a < l.length) :
    (l.getD a SV.zero, a) ∈ Rbdl.zipIdx l := (mem_zipIdx_iff l _).2 ⟨h, rfl⟩


/-! ### the `H` writes of one iteration as a write list -/

/-- writes of the diagonal block -/
def diagW (ki : Nat) (Si : List (SV α × Nat)) (Ic : RBI α) : List (Nat × Nat × α) :=
  Si.flatMap (fun a => Si.map (fun b => (ki + a.2, ki + b.2, a.1.dot (Ic * b.1))))

theorem crbaDiag_eq (ki : Nat) (Si : List (SV α × Nat)) (Ic : RBI α) (H : MatN α) :
    crbaDiag ki Si Ic H = applyW H (diagW ki Si Ic) := by
  simp only [crbaDiag, applyW, diagW, List.foldl_flatMap, List.foldl_map]

/-- writes of one step of the walk: block `(i, j)` and its transpose -/
def stepW (ki kj : Nat) (F Sj : List (SV α × Nat)) : List (Nat × Nat × α) :=
  F.flatMap (fun a => Sj.flatMap (fun b =>
    [(ki + a.2, kj + b.2, a.1.dot b.1), (kj + b.2, ki + a.2, a.1.dot b.1)]))

theorem stepW_eq (ki kj : Nat) (F Sj : List (SV α × Nat)) (H : MatN α) :
    F.foldl (fun H a => Sj.foldl (fun H b =>
      let x := a.1.dot b.1
      setH (setH H (ki + a.2) (kj + b.2) x) (kj + b.2) (ki + a.2) x) H) H
      = applyW H (stepW ki kj F Sj) := by
  simp only [applyW, stepW, List.foldl_flatMap, List.foldl_cons, List.foldl_nil]

/-- writes of the walk from body `j` to the root -/
def walkW (m : ModelS α) (w : WS α) (ki : Nat) :
    Nat → Nat → List (SV α × Nat) → List (Nat × Nat × α)
  | 0, _, _ => []
  | f+1, j, F =>
    if j = 0 then [] else if m.lam j = 0 then [] else
    stepW ki (m.joint (m.lam j)).qIndex
        (F.map (fun p => ((w.X_lambda j).applyTranspose p.1, p.2))) (zipIdx (w.Scols m (m.lam j)))
      ++ walkW m w ki f (m.lam j) (F.map (fun p => ((w.X_lambda j).applyTranspose p.1, p.2)))

theorem walkUp_zero {σ : Type} (m : ModelS α) (f : Nat) (body : Nat → σ → σ) (s : σ) :
    walkUp m f 0 body s = s := by
  cases f <;> simp [walkUp]

theorem walkUp_eq (m : ModelS α) (w : WS α) (ki : Nat) (fuel j : Nat) (F : List (SV α × Nat))
    (H : MatN α) :
    (walkUp m fuel j (crbaWalkBody m w ki) (F, H)).2 = applyW H (walkW m w ki fuel j F) := by
  induction fuel generalizing j F H with
  | zero => rfl
  | succ f ih =>
    rw [walkUp, walkW]
    by_cases hj : j = 0
    · rw [if_pos hj, if_pos hj]; rfl
    · rw [if_neg hj, if_neg hj]
      by_cases hl : m.lam j = 0
      · rw [if_pos hl]
        have : crbaWalkBody m w ki j (F, H) = (F, H) := by
          unfold crbaWalkBody; simp only [hl, if_true]
        rw [this, hl, walkUp_zero]; rfl
      · rw [if_neg hl, applyW_append, ← stepW_eq, ← ih]
        congr 2
        unfold crbaWalkBody
        simp only [hl, if_false]

theorem crbaStepH_eq (m : ModelS α) (w : WS α) (i : Nat) (H : MatN α) :
    crbaStepH m w i H
      = applyW (applyW H (diagW (m.joint i).qIndex (zipIdx (w.Scols m i)) (w.Ic i)))
          (walkW m w (m.joint i).qIndex m.nBodies i
            ((zipIdx (w.Scols m i)).map (fun p => (w.Ic i * p.1, p.2)))) := by
  unfold crbaStepH
  dsimp only
  rw [walkUp_eq, crbaDiag_eq]


/-! ### the diagonal block -/

theorem mem_diagW (ki : Nat) (cols : List (SV α)) (Ic : RBI α) (t : Nat × Nat × α) :
    t ∈ diagW ki (zipIdx cols) Ic ↔ ∃ a b, a < cols.length ∧ b < cols.length ∧
      t = (ki + a, ki + b, (cols.getD a SV.zero).dot (Ic * cols.getD b SV.zero)) := by
  unfold diagW
  simp only [List.mem_flatMap, List.mem_map, mem_zipIdx_iff]
  constructor
  · rintro ⟨p, ⟨hp1, hp2⟩, q, ⟨hq1, hq2⟩, rfl⟩
    exact ⟨p.2, q.2, hp1, hq1, by rw [hp2, hq2]⟩
  · rintro ⟨a, b, ha, hb, rfl⟩
    exact ⟨(cols.getD a SV.zero, a), ⟨ha, rfl⟩, (cols.getD b SV.zero, b), ⟨hb, rfl⟩, rfl⟩

theorem diag_val (ki : Nat) (cols : List (SV α)) (Ic : RBI α) (H : MatN α) (a b : Nat)
    (ha : a < cols.length) (hb : b < cols.length) :
    applyW H (diagW ki (zipIdx cols) Ic) (ki + a) (ki + b)
      = (cols.getD a SV.zero).dot (Ic * cols.getD b SV.zero) := by
  refine applyW_mem _ _ _ _ _ ((mem_diagW ..).2 ⟨a, b, ha, hb, rfl⟩) ?_
  intro t ht e1 e2
  obtain ⟨a', b', _, _, rfl⟩ := (mem_diagW ..).1 ht
  simp only at e1 e2
  have : a' = a := by omega
  have : b' = b := by omega
  subst_vars; rfl

theorem diag_frame (ki : Nat) (cols : List (SV α)) (Ic : RBI α) (H : MatN α) (r c : Nat)
    (h : ¬ (ki ≤ r ∧ r < ki + cols.length ∧ ki ≤ c ∧ c < ki + cols.length)) :
    applyW H (diagW ki (zipIdx cols) Ic) r c = H r c := by
  refine applyW_nomem _ _ _ _ ?_
  intro t ht e
  obtain ⟨a', b', _, _, rfl⟩ := (mem_diagW ..).1 ht
  simp only at e
  omega

/-- a matrix (as a function of two indices) is symmetric -/
def SymmH (H : MatN α) : Prop := ∀ r c, H r c = H c r

/-- rigid-body inertias are symmetric: `a · (I b) = b · (I a)` -/
theorem rbi_dot_symm (I : RBI α) (a b : SV α) : a.dot (I * b) = b.dot (I * a) := by
  simp only [alg]; grind

theorem sv_dot_comm (a b : SV α) : a.dot b = b.dot a := by
  simp only [alg]; grind

theorem diag_symm (ki : Nat) (cols : List (SV α)) (Ic : RBI α) (H : MatN α) (hH : SymmH H) :
    SymmH (applyW H (diagW ki (zipIdx cols) Ic)) := by
  intro r c
  by_cases h : ki ≤ r ∧ r < ki + cols.length ∧ ki ≤ c ∧ c < ki + cols.length
  · obtain ⟨a, rfl⟩ : ∃ a, r = ki + a := ⟨r - ki, by omega⟩
    obtain ⟨b, rfl⟩ : ∃ b, c = ki + b := ⟨c - ki, by omega⟩
    rw [diag_val _ _ _ _ a b (by omega) (by omega), diag_val _ _ _ _ b a (by omega) (by omega)]
    exact rbi_dot_symm ..
  · rw [diag_frame _ _ _ _ r c h, diag_frame _ _ _ _ c r (by omega)]
    exact hH r c

/-! ### symmetry is kept by the walk -/

theorem foldl_inv {σ β : Type} (P : σ → Prop) (f : σ → β → σ) (l : List β)
    (h : ∀ s b, P s → P (f s b)) (s : σ) (h0 : P s) : P (l.foldl f s) := by
  induction l generalizing s with
  | nil => exact h0
  | cons b l ih => exact ih _ (h s b h0)

theorem walkUp_inv {σ : Type} (m : ModelS α) (P : σ → Prop) (body : Nat → σ → σ)
    (h : ∀ j s, P s → P (body j s)) (fuel j : Nat) (s : σ) (h0 : P s) :
    P (walkUp m fuel j body s) := by
  induction fuel generalizing j s with
  | zero => exact h0
  | succ f ih =>
    rw [walkUp]; split
    · exact h0
    · exact ih _ _ (h j s h0)

theorem setH_pair_symm (H : MatN α) (hH : SymmH H) (r c : Nat) (x : α) :
    SymmH (setH (setH H r c x) c r x) := by
  intro r' c'
  unfold setH
  have := hH r' c'
  grind

theorem crbaWalkBody_symm (m : ModelS α) (w : WS α) (ki j : Nat)
    (s : List (SV α × Nat) × MatN α) (hs : SymmH s.2) : SymmH (crbaWalkBody m w ki j s).2 := by
  obtain ⟨F, H⟩ := s
  unfold crbaWalkBody
  dsimp only
  split
  · exact hs
  · exact foldl_inv SymmH _ _ (fun H a hH => foldl_inv SymmH _ _
      (fun H b hH => setH_pair_symm H hH _ _ _) H hH) H hs

theorem crbaStepH_symm (m : ModelS α) (w : WS α) (i : Nat) (H : MatN α) (hH : SymmH H) :
    SymmH (crbaStepH m w i H) := by
  unfold crbaStepH
  dsimp only
  apply walkUp_inv m (fun s : List (SV α × Nat) × MatN α => SymmH s.2)
  · exact fun j s hs => crbaWalkBody_symm m w _ j s hs
  · show SymmH (crbaDiag _ _ _ _)
    rw [crbaDiag_eq]
    exact diag_symm _ _ _ _ hH

end Crba

end Rbdl.L03
