import RbdlProofs.Lemmas.L09FSet
/-
  C09F, part 6: `update_kinematics = true`.  The Jacobian and the position error of one constraint with
  the flag set are those with the flag cleared in any workspace that carries the position-level entries
  (`KEq5`) of `UpdateKinematicsCustom (Q)` — in particular after `UpdateKinematics (Q, QDot, QDDot)` and
  after `UpdateKinematicsCustom (Q, QDot)` (tree order is the only hypothesis).
-/
set_option linter.unusedSectionVars false
set_option linter.unusedSimpArgs false
namespace Rbdl.L09F
open Lean.Grind Rbdl Rbdl.Loops Rbdl.L05 Rbdl.L09 Rbdl.L13 Rbdl.L13CS Rbdl.Spec

section
variable {α : Type} [Field α] [DecidableEq α]

/-- one iteration of `UpdateKinematics` and of `UpdateKinematicsCustom (Q)` write the same
    position-level entries -/
theorem ukBody_keq5 {a b : WS α} (h : KEq5 a b) (m : ModelS α) (st : QS α) (qd qdd : VecN α)
    (i : Nat) : KEq5 (L06.ukBody m st qd qdd i a) (ukcBody m st i b) := by
  refine ⟨?_, ?_, ?_, ?_, ?_⟩
  · funext j
    by_cases hj : j = i
    · subst hj
      rw [L06.ukBody_X_base, ukcBody_X_base, upd_same, jcalc_X_lambda, upd_same, h.xl, h.xb]
    · rw [L06.ukBody_X_base_other _ _ _ _ _ _ _ hj, ukcBody_X_base_other _ _ _ _ _ hj, h.xb]
  · rw [L05.ukBody_X_lambda, jcalc_X_lambda, ukcBody_X_lambda, h.xl]
  · rw [L06.ukBody_S, L13.jcalc_eq, L13CS.ukcBody_S, h.s]
  · rw [L06.ukBody_S3, L13.jcalc_eq, L13CS.ukcBody_S3, h.s3]
  · rw [L05.ukBody_cS, L13.jcalc_eq, L13CS.ukcBody_cS, h.cs]

/-- **`UpdateKinematics (Q, QDot, QDDot)` leaves the position-level entries of
    `UpdateKinematicsCustom (Q)`** (no hypothesis) -/
theorem uk_keq5 (m : ModelS α) (w : WS α) (st : QS α) (qd qdd : VecN α) :
    KEq5 (updateKinematics m w st qd qdd) (updateKinematicsCustom m w (some st) none none) := by
  rw [L06.uk_eq_forUp, ukc_eq_forUp]
  exact forUp_sim (fun s t => KEq5 s t) _ _ _ _
    (fun i s t _ _ hst => ukBody_keq5 hst m st qd qdd i) _ _ ⟨rfl, rfl, rfl, rfl, rfl⟩

theorem ukcqv_keq5 (m : ModelS α) (w : WS α) (st : QS α) (qd : VecN α) :
    KEq5 (updateKinematicsCustom m w (some st) (some qd) none)
      (updateKinematicsCustom m w (some st) none none) := by
  obtain ⟨h1, h2, h3, h4, h5⟩ := ukcqv_fields m w st qd
  exact ⟨h1, h2, h3, h4, h5⟩

/-- **flag set = flag cleared in a workspace with the position-level entries of the update** -/
theorem jacobian_true (m : ModelS α) (htree : TreeOrder m) (c : Constr α) (w s : WS α) (st : QS α)
    (G : MatN α) (hk : KEq5 s (updateKinematicsCustom m w (some st) none none)) :
    (c.jacobian m s st G false).2 = (c.jacobian m w st G true).2 :=
  (jacobian_k m htree st w (u := false) (u' := true) (s := s) (s' := w) hk (KEq5.rfl' _) c G).1

theorem positionError_true (m : ModelS α) (htree : TreeOrder m) (c : Constr α) (w s : WS α)
    (st : QS α) (err : VecN α) (hk : KEq5 s (updateKinematicsCustom m w (some st) none none)) :
    (c.positionError m s st err false).2 = (c.positionError m w st err true).2 :=
  (positionError_k m htree st w (u := false) (u' := true) (s := s) (s' := w) hk (KEq5.rfl' _) c err).1

/-- the 6-D point Jacobian with the flag set is the one after the update -/
theorem pj6_true (m : ModelS α) (w : WS α) (st : QS α) (id : Nat) (p : V3 α) (G : MatN α) :
    (calcPointJacobian6D m w st id p G true).2
      = (calcPointJacobian6D m (updateKinematicsCustom m w (some st) none none) st id p G false).2 :=
  rfl

theorem pj6_congr5 {a b : WS α} (h : KEq5 a b) (m : ModelS α) (st : QS α) (id : Nat) (p : V3 α)
    (G : MatN α) :
    (calcPointJacobian6D m a st id p G false).2 = (calcPointJacobian6D m b st id p G false).2 :=
  h.pj60 m id p G

/-- `UpdateKinematicsCustom (Q, QDot)` leaves a workspace in which C05 applies -/
theorem _root_.Rbdl.L09.Setup.jacHyp_ukc {m : ModelS α} {w : WS α} {st : QS α} (h : Setup m w st) (qd : VecN α) :
    JacHyp m (updateKinematicsCustom m w (some st) (some qd) none) qd :=
  have hk := kinWS_updateKinematicsCustom m w st qd h.kin
  ⟨h.layout, colsOk_of_customCols hk.2 h.cdof, hk.1⟩

theorem ukc_X_base_zero (m : ModelS α) (w : WS α) (st : QS α) :
    (updateKinematicsCustom m w (some st) none none).X_base 0 = w.X_base 0 := by
  rw [ukc_eq_forUp]
  exact forUp_inv (fun s : WS α => s.X_base 0 = w.X_base 0) _ _ _
    (fun i s h1 _ hs => by
      show (ukcBody m st i s).X_base 0 = _
      rw [ukcBody_X_base_other m st i s 0 (by omega)]; exact hs) _ rfl

theorem _root_.Rbdl.L09.Setup.orthAt_ukc {m : ModelS α} {w : WS α} {st : QS α} (h : Setup m w st) (qd : VecN α)
    {id : Nat} (hid : BodyOK m (resId m id)) :
    OrthAt m (updateKinematicsCustom m w (some st) (some qd) none) id :=
  orthAt_of_jacHyp (h.jacHyp_ukc qd)
    (by rw [(ukcqv_fields m w st qd).1, ukc_X_base_zero, h.x0]; exact xt_id_rot) hid

end
end Rbdl.L09F
