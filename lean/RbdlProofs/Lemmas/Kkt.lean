import Mathlib.Data.Matrix.Mul
import Mathlib.Data.Matrix.Block
import Mathlib.LinearAlgebra.Matrix.Symmetric
import Mathlib.Data.Finset.Sort
import Mathlib.Order.Interval.Finset.Fin
import Mathlib.Algebra.Order.Ring.Defs
import Mathlib.Tactic.Ring
import Mathlib.Tactic.Abel
import Mathlib.Tactic.LinearCombination
import Mathlib.Tactic.Linarith
/-
  Helper lemmas for C08 / C10 / C11: the linear algebra of the KKT relations that specify the
  constrained-dynamics routines of Constraints.cc (the dense solves themselves are delegated to
  Eigen and are checked at run time in certificate mode).

  Everything is stated over arbitrary finite index types (`Fin n`, `Fin m` are instances) and over
  the weakest scalar structure for which the proof works: a commutative ring for the purely
  algebraic facts, a commutative ring with a partial order where "positive definite" appears, a
  linearly ordered field only where `1/2` is needed.  A linearly ordered field
  (`[Field K] [LinearOrder K] [IsStrictOrderedRing K]`) is an instance of all of them.
-/
namespace Rbdl.Kkt
open Matrix

variable {K : Type*} {m n z a u : Type*}
  [Fintype m] [Fintype n] [Fintype z] [Fintype a] [Fintype u]

/-! ### quadratic forms -/

section Ring
variable [CommRing K]

/-- `x ⬝ Gᵀ y = (G x) ⬝ y`. -/
theorem dot_transpose_mulVec (G : Matrix m n K) (x : n → K) (y : m → K) :
    x ⬝ᵥ Gᵀ *ᵥ y = G *ᵥ x ⬝ᵥ y := by
  rw [dotProduct_mulVec, vecMul_transpose]

/-- For a symmetric matrix the bilinear form is symmetric. -/
theorem dot_mulVec_symm {H : Matrix n n K} (hH : H.IsSymm) (x y : n → K) :
    x ⬝ᵥ H *ᵥ y = y ⬝ᵥ H *ᵥ x := by
  rw [dotProduct_mulVec, ← mulVec_transpose, hH.eq, dotProduct_comm]

/-- The core of every uniqueness statement: a homogeneous KKT system with a definite `H`
(`x ⬝ H x = 0 → x = 0`; symmetry is not needed) and a `G` with injective transpose has only the
trivial solution. -/
theorem kkt_homogeneous (H : Matrix n n K) (G : Matrix m n K)
    (hdef : ∀ x : n → K, x ⬝ᵥ H *ᵥ x = 0 → x = 0)
    (hG : ∀ y : m → K, Gᵀ *ᵥ y = 0 → y = 0)
    {d : n → K} {l : m → K} (h1 : H *ᵥ d = Gᵀ *ᵥ l) (h2 : G *ᵥ d = 0) :
    d = 0 ∧ l = 0 := by
  have hd : d = 0 := by
    apply hdef
    rw [h1, dot_transpose_mulVec, h2, zero_dotProduct]
  refine ⟨hd, hG l ?_⟩
  rw [← h1, hd, mulVec_zero]

/-- Uniqueness of the solution of `H x = c + Gᵀ l`, `G x = g` (definiteness form). -/
theorem kkt_unique_of_definite (H : Matrix n n K) (G : Matrix m n K)
    (hdef : ∀ x : n → K, x ⬝ᵥ H *ᵥ x = 0 → x = 0)
    (hG : ∀ y : m → K, Gᵀ *ᵥ y = 0 → y = 0)
    {c : n → K} {g : m → K} {x x' : n → K} {l l' : m → K}
    (h1 : H *ᵥ x = c + Gᵀ *ᵥ l) (h2 : G *ᵥ x = g)
    (h1' : H *ᵥ x' = c + Gᵀ *ᵥ l') (h2' : G *ᵥ x' = g) :
    x = x' ∧ l = l' := by
  have h := kkt_homogeneous H G hdef hG (d := x - x') (l := l - l')
    (by rw [mulVec_sub, mulVec_sub, h1, h1']; abel)
    (by rw [mulVec_sub, h2, h2', sub_self])
  exact ⟨sub_eq_zero.mp h.1, sub_eq_zero.mp h.2⟩

/-- positive definite (in the sense of the quadratic form) implies definite. -/
theorem definite_of_pos [PartialOrder K] {H : Matrix n n K}
    (hpd : ∀ x : n → K, x ≠ 0 → 0 < x ⬝ᵥ H *ᵥ x) :
    ∀ x : n → K, x ⬝ᵥ H *ᵥ x = 0 → x = 0 := by
  intro x hx
  by_contra hne
  have := hpd x hne
  rw [hx] at this
  exact lt_irrefl _ this

/-! ### range-space method -/

/-- Algebra of the range-space (Schur complement) method.  Only `H * Hinv = 1` is used. -/
theorem range_space [DecidableEq n] (H Hinv : Matrix n n K) (G : Matrix m n K) (hHinv : H * Hinv = 1)
    (c : n → K) (gamma lam : m → K)
    (hlam : (G * Hinv * Gᵀ) *ᵥ lam = gamma - G *ᵥ (Hinv *ᵥ c)) :
    H *ᵥ (Hinv *ᵥ (c + Gᵀ *ᵥ lam)) = c + Gᵀ *ᵥ lam ∧
    G *ᵥ (Hinv *ᵥ (c + Gᵀ *ᵥ lam)) = gamma := by
  constructor
  · rw [mulVec_mulVec, hHinv, one_mulVec]
  · rw [mulVec_add, mulVec_add, mulVec_mulVec (Gᵀ *ᵥ lam), mulVec_mulVec lam, hlam]
    abel

/-- `H = Lᵀ L` with `Li` the inverse of `L`: then `Li Liᵀ` is a right inverse of `H`. -/
theorem ltl_inverse [DecidableEq n] (L Li : Matrix n n K) (h1 : L * Li = 1) (h2 : Li * L = 1) :
    (Lᵀ * L) * (Li * Liᵀ) = 1 := by
  rw [Matrix.mul_assoc, ← Matrix.mul_assoc L, h1, Matrix.one_mul, ← transpose_mul, h2,
    transpose_one]

/-! ### null-space method -/

/-- Algebra of the null-space method. -/
theorem null_space (H : Matrix n n K) (G : Matrix m n K) (Y : Matrix n m K) (Z : Matrix n z K)
    (c : n → K) (gamma : m → K) (qy : m → K) (qz : z → K) (lam : m → K)
    (hGZ : G * Z = 0)
    (hYZ : ∀ r : n → K, Yᵀ *ᵥ r = 0 → Zᵀ *ᵥ r = 0 → r = 0)
    (hy : (G * Y) *ᵥ qy = gamma)
    (hz : (Zᵀ * H * Z) *ᵥ qz = Zᵀ *ᵥ (c - H *ᵥ (Y *ᵥ qy)))
    (hl : (G * Y)ᵀ *ᵥ lam = Yᵀ *ᵥ (H *ᵥ (Y *ᵥ qy + Z *ᵥ qz) - c)) :
    H *ᵥ (Y *ᵥ qy + Z *ᵥ qz) = c + Gᵀ *ᵥ lam ∧ G *ᵥ (Y *ᵥ qy + Z *ᵥ qz) = gamma := by
  constructor
  · have hr : H *ᵥ (Y *ᵥ qy + Z *ᵥ qz) - c - Gᵀ *ᵥ lam = 0 := by
      apply hYZ
      · rw [mulVec_sub, ← hl, mulVec_mulVec lam, transpose_mul, sub_self]
      · have hZG : Zᵀ * Gᵀ = 0 := by rw [← transpose_mul, hGZ, transpose_zero]
        rw [mulVec_sub, mulVec_sub, mulVec_mulVec lam, hZG, zero_mulVec, mulVec_add,
          mulVec_add, mulVec_mulVec qz, mulVec_mulVec qz, ← Matrix.mul_assoc, hz, mulVec_sub]
        abel
    have := sub_eq_zero.mp hr
    rw [sub_eq_iff_eq_add] at this
    rw [this]; abel
  · rw [mulVec_add, mulVec_mulVec, mulVec_mulVec, hGZ, zero_mulVec, add_zero, hy]

/-! ### direct method -/

/-- The direct method: the block system `[[H, Gᵀ],[G, 0]] (x, y) = (c, gamma)` is the KKT relation
with multiplier `-y`. -/
theorem direct_block (H : Matrix n n K) (G : Matrix m n K) (c x : n → K) (gamma y : m → K) :
    fromBlocks H Gᵀ G 0 *ᵥ Sum.elim x y = Sum.elim c gamma ↔
      H *ᵥ x = c + Gᵀ *ᵥ (-y) ∧ G *ᵥ x = gamma := by
  rw [fromBlocks_mulVec, Sum.elim_comp_inl, Sum.elim_comp_inr, zero_mulVec, add_zero,
    Sum.elim_eq_iff, mulVec_neg]
  constructor
  · rintro ⟨h1, h2⟩
    exact ⟨by rw [← h1]; abel, h2⟩
  · rintro ⟨h1, h2⟩
    exact ⟨by rw [h1]; abel, h2⟩

/-! ### impulses -/

/-- Energy balance of an impulse (general `vplus`, no `1/2`). -/
theorem impulse_energy_general {H : Matrix n n K} (hH : H.IsSymm) (G : Matrix m n K)
    (qm qp : n → K) (L vplus : m → K)
    (hrel : H *ᵥ (qp - qm) + Gᵀ *ᵥ L = 0) (hG : G *ᵥ qp = vplus) :
    qm ⬝ᵥ H *ᵥ qm - qp ⬝ᵥ H *ᵥ qp =
      (qp - qm) ⬝ᵥ H *ᵥ (qp - qm) + 2 * (vplus ⬝ᵥ L) := by
  have hd : H *ᵥ (qp - qm) = -(Gᵀ *ᵥ L) := eq_neg_of_add_eq_zero_left hrel
  have h1 : qp ⬝ᵥ H *ᵥ (qp - qm) = -(vplus ⬝ᵥ L) := by
    rw [hd, dotProduct_neg, dot_transpose_mulVec, hG]
  have h2 : qm ⬝ᵥ H *ᵥ qp = qp ⬝ᵥ H *ᵥ qm := dot_mulVec_symm hH _ _
  simp only [mulVec_sub, dotProduct_sub, sub_dotProduct] at h1 ⊢
  linear_combination (-2 : K) * h1 + h2

/-! ### positive definiteness of the reduced matrices (justifies the `llt()` solves) -/

/-- The Schur complement `G H⁻¹ Gᵀ` of the range-space method is positive definite. -/
theorem schur_pos [PartialOrder K] [DecidableEq n] {H Hinv : Matrix n n K} (G : Matrix m n K)
    (hHinv : H * Hinv = 1)
    (hpd : ∀ x : n → K, x ≠ 0 → 0 < x ⬝ᵥ H *ᵥ x)
    (hG : ∀ y : m → K, Gᵀ *ᵥ y = 0 → y = 0) :
    ∀ y : m → K, y ≠ 0 → 0 < y ⬝ᵥ (G * Hinv * Gᵀ) *ᵥ y := by
  intro y hy
  have hz : H *ᵥ (Hinv *ᵥ (Gᵀ *ᵥ y)) = Gᵀ *ᵥ y := by
    rw [mulVec_mulVec, hHinv, one_mulVec]
  have hne : Hinv *ᵥ (Gᵀ *ᵥ y) ≠ 0 := by
    intro h0
    rw [h0, mulVec_zero] at hz
    exact hy (hG y hz.symm)
  have := hpd _ hne
  rw [hz, dot_transpose_mulVec, dotProduct_comm, mulVec_mulVec (Gᵀ *ᵥ y) G Hinv,
    mulVec_mulVec y (G * Hinv) Gᵀ] at this
  exact this

/-- The reduced matrix `Zᵀ H Z` of the null-space method is positive definite when `Z` has
independent columns. -/
theorem reduced_pos [PartialOrder K] {H : Matrix n n K} (Z : Matrix n z K)
    (hpd : ∀ x : n → K, x ≠ 0 → 0 < x ⬝ᵥ H *ᵥ x)
    (hZ : ∀ w : z → K, Z *ᵥ w = 0 → w = 0) :
    ∀ w : z → K, w ≠ 0 → 0 < w ⬝ᵥ (Zᵀ * H * Z) *ᵥ w := by
  intro w hw
  have := hpd (Z *ᵥ w) (fun h => hw (hZ w h))
  rw [← dot_transpose_mulVec, mulVec_mulVec, mulVec_mulVec] at this
  exact this

/-! ### constrained inverse dynamics -/

/-- Algebra of `InverseDynamicsConstraints` (clean form). `P * Pᵀ = 1` is not needed. -/
theorem idc_exact [DecidableEq n] [DecidableEq a]
    (H : Matrix n n K) (G : Matrix m n K) (S : Matrix a n K) (P : Matrix u n K)
    (hpart : Sᵀ * S + Pᵀ * P = 1) (hSS : S * Sᵀ = 1) (hSP : S * Pᵀ = 0)
    (N qdd_des qdd tau : n → K) (gamma lam : m → K) (uu : a → K) (v : u → K)
    (hu : uu = S *ᵥ qdd_des)
    (hv : (G * Pᵀ) *ᵥ v = gamma - (G * Sᵀ) *ᵥ uu)
    (hqdd : qdd = Sᵀ *ᵥ uu + Pᵀ *ᵥ v)
    (hlam : (P * Gᵀ) *ᵥ lam = P *ᵥ (H *ᵥ qdd + N))
    (htau : tau = Sᵀ *ᵥ (S *ᵥ (H *ᵥ qdd + N - Gᵀ *ᵥ lam))) :
    G *ᵥ qdd = gamma ∧ P *ᵥ tau = 0 ∧ H *ᵥ qdd + N = tau + Gᵀ *ᵥ lam ∧
      S *ᵥ qdd = S *ᵥ qdd_des := by
  have hPS : P * Sᵀ = 0 := by
    have := congrArg transpose hSP
    rwa [transpose_mul, transpose_transpose, transpose_zero] at this
  refine ⟨?_, ?_, ?_, ?_⟩
  · rw [hqdd, mulVec_add, mulVec_mulVec uu, mulVec_mulVec v, hv]; abel
  · rw [htau, mulVec_mulVec, hPS, zero_mulVec]
  · have hr : P *ᵥ (H *ᵥ qdd + N - Gᵀ *ᵥ lam) = 0 := by
      rw [mulVec_sub, mulVec_mulVec lam, hlam, sub_self]
    have h1 : H *ᵥ qdd + N - Gᵀ *ᵥ lam = tau := by
      conv_lhs => rw [← one_mulVec (H *ᵥ qdd + N - Gᵀ *ᵥ lam), ← hpart, add_mulVec,
        ← mulVec_mulVec, ← mulVec_mulVec, hr, mulVec_zero, add_zero]
      exact htau.symm
    rw [← h1]; abel
  · rw [hqdd, mulVec_add, mulVec_mulVec uu, mulVec_mulVec v, hSS, hSP, one_mulVec, zero_mulVec,
      add_zero, hu]

/-- The same with the expressions of the C++ code (Constraints.cc, `InverseDynamicsConstraints`):
`Ful = S H Sᵀ`, `Fur = S H Pᵀ`, `Fll = P H Sᵀ`, `Flr = P H Pᵀ`, `GTu = S Gᵀ`, `GTl = P Gᵀ`; the
second solve produces `f0`, the stored `force` is `-f0`. -/
theorem idc_code [DecidableEq n] [DecidableEq a]
    (H : Matrix n n K) (G : Matrix m n K) (S : Matrix a n K) (P : Matrix u n K)
    (hpart : Sᵀ * S + Pᵀ * P = 1) (hSS : S * Sᵀ = 1) (hSP : S * Pᵀ = 0)
    (C qdd_des qdd tau : n → K) (gamma f0 force : m → K) (uu : a → K) (v : u → K)
    (hu : uu = S *ᵥ qdd_des)
    (hv : (P * Gᵀ)ᵀ *ᵥ v = gamma - (S * Gᵀ)ᵀ *ᵥ uu)
    (hf0 : (P * Gᵀ) *ᵥ f0 = -(P *ᵥ C) - (P * H * Sᵀ) *ᵥ uu - (P * H * Pᵀ) *ᵥ v)
    (hforce : force = -f0)
    (hqdd : qdd = Sᵀ *ᵥ uu + Pᵀ *ᵥ v)
    (htau : tau = -(Sᵀ *ᵥ (-(S *ᵥ C) -
        ((S * H * Sᵀ) *ᵥ uu + (S * H * Pᵀ) *ᵥ v - (S * Gᵀ) *ᵥ force)))) :
    G *ᵥ qdd = gamma ∧ P *ᵥ tau = 0 ∧ H *ᵥ qdd + C = tau + Gᵀ *ᵥ force ∧
      S *ᵥ qdd = S *ᵥ qdd_des := by
  refine idc_exact H G S P hpart hSS hSP C qdd_des qdd tau gamma force uu v hu ?_ hqdd ?_ ?_
  · rw [transpose_mul, transpose_transpose, transpose_mul, transpose_transpose] at hv
    exact hv
  · rw [hforce, mulVec_neg, hf0, hqdd]
    simp only [mulVec_add, ← mulVec_mulVec]
    abel
  · rw [htau, hqdd]
    simp only [mulVec_add, mulVec_sub, mulVec_neg, ← mulVec_mulVec]
    abel

omit [Fintype m] in
/-- Injectivity of `v ↦ A v` is the same as "every right-hand side has at most one solution". -/
theorem inj_iff_unique (A : Matrix m u K) :
    (∀ v : u → K, A *ᵥ v = 0 → v = 0) ↔
      ∀ (b : m → K) (v v' : u → K), A *ᵥ v = b → A *ᵥ v' = b → v = v' := by
  constructor
  · intro h b v v' hv hv'
    exact sub_eq_zero.mp (h _ (by rw [mulVec_sub, hv, hv', sub_self]))
  · intro h v hv
    exact h 0 v 0 hv (mulVec_zero A)

omit [Fintype m] in
/-- For one right-hand side that has a solution: the solution is unique iff `A` is injective. -/
theorem inj_iff_unique_of_solvable (A : Matrix m u K) (b : m → K) (v0 : u → K)
    (h0 : A *ᵥ v0 = b) :
    (∀ v : u → K, A *ᵥ v = 0 → v = 0) ↔ ∀ v : u → K, A *ᵥ v = b → v = v0 := by
  constructor
  · intro h v hv
    exact (inj_iff_unique A).mp h b v v0 hv h0
  · intro h v hv
    have := h (v0 + v) (by rw [mulVec_add, hv, add_zero, h0])
    exact add_left_cancel (a := v0) (by rw [this, add_zero])

end Ring


section Sel
variable {K : Type*} [CommRing K] {N : ℕ}

/-- Selection matrix of a set `s` of coordinates: row `i` is the unit vector of the `i`-th smallest
element of `s`. -/
def selMat (K : Type*) [CommRing K] (s : Finset (Fin N)) : Matrix (Fin s.card) (Fin N) K :=
  fun i j => if s.orderEmbOfFin rfl i = j then 1 else 0

theorem exists_orderEmbOfFin_eq {s : Finset (Fin N)} {j : Fin N} (hj : j ∈ s) :
    ∃ i, s.orderEmbOfFin rfl i = j := by
  have h : j ∈ Set.range (s.orderEmbOfFin rfl) := by
    rw [s.range_orderEmbOfFin rfl]; exact hj
  exact h

theorem selMat_mul_transpose_self (s : Finset (Fin N)) :
    selMat K s * (selMat K s)ᵀ = 1 := by
  ext i k
  simp only [selMat, mul_apply, transpose_apply, ite_mul, one_mul, zero_mul, Finset.sum_ite_eq,
    Finset.mem_univ, if_true, one_apply, EmbeddingLike.apply_eq_iff_eq]
  by_cases h : i = k
  · simp [h]
  · simp [h, Ne.symm h]

theorem selMat_mul_transpose_of_disjoint {s t : Finset (Fin N)} (hst : Disjoint s t) :
    selMat K s * (selMat K t)ᵀ = 0 := by
  ext i k
  have hne : t.orderEmbOfFin rfl k ≠ s.orderEmbOfFin rfl i := fun h =>
    Finset.disjoint_left.mp hst (s.orderEmbOfFin_mem rfl i) (h ▸ t.orderEmbOfFin_mem rfl k)
  simp only [selMat, mul_apply, transpose_apply, ite_mul, one_mul, zero_mul, Finset.sum_ite_eq,
    Finset.mem_univ, if_true, zero_apply, if_neg hne]

theorem transpose_mul_selMat (s : Finset (Fin N)) :
    (selMat K s)ᵀ * selMat K s = diagonal (fun j => if j ∈ s then 1 else 0) := by
  ext j j'
  simp only [selMat, mul_apply, transpose_apply, diagonal_apply, ite_mul, one_mul, zero_mul]
  by_cases hj : j ∈ s
  · obtain ⟨i0, rfl⟩ := exists_orderEmbOfFin_eq hj
    simp only [EmbeddingLike.apply_eq_iff_eq, Finset.sum_ite_eq', Finset.mem_univ, if_true, hj]
  · have hne : ∀ i, s.orderEmbOfFin rfl i ≠ j := fun i h => hj (h ▸ s.orderEmbOfFin_mem rfl i)
    simp [hne, hj]

/-- The loop counter of `ConstraintSet::SetActuationMap`: the `i`-th smallest element of `s` is the
`j ∈ s` that has exactly `i` elements of `s` below it. -/
theorem card_filter_lt_orderEmbOfFin (s : Finset (Fin N)) (i : Fin s.card) :
    (s.filter (· < s.orderEmbOfFin rfl i)).card = i := by
  have h : s.filter (· < s.orderEmbOfFin rfl i) =
      (Finset.Iio i).map (s.orderEmbOfFin rfl).toEmbedding := by
    ext x
    simp only [Finset.mem_filter, Finset.mem_map, Finset.mem_Iio, RelEmbedding.coe_toEmbedding]
    constructor
    · rintro ⟨hx, hlt⟩
      obtain ⟨i', rfl⟩ := exists_orderEmbOfFin_eq hx
      exact ⟨i', (s.orderEmbOfFin rfl).lt_iff_lt.mp hlt, rfl⟩
    · rintro ⟨i', hlt, rfl⟩
      exact ⟨s.orderEmbOfFin_mem rfl i', (s.orderEmbOfFin rfl).lt_iff_lt.mpr hlt⟩
  rw [h, Finset.card_map, Fin.card_Iio]

theorem orderEmbOfFin_eq_iff_count (s : Finset (Fin N)) (i : Fin s.card) (j : Fin N) :
    s.orderEmbOfFin rfl i = j ↔ j ∈ s ∧ (s.filter (· < j)).card = i := by
  constructor
  · rintro rfl
    exact ⟨s.orderEmbOfFin_mem rfl i, card_filter_lt_orderEmbOfFin s i⟩
  · rintro ⟨hj, hc⟩
    obtain ⟨i', rfl⟩ := exists_orderEmbOfFin_eq hj
    rw [card_filter_lt_orderEmbOfFin] at hc
    rw [Fin.ext hc]

/-- Entry-wise description of the selection matrix by the loop of `SetActuationMap`:
`S(j,i) = 1` exactly when `i` is selected and `j` selected coordinates precede it. -/
theorem selMat_apply_count (s : Finset (Fin N)) (i : Fin s.card) (j : Fin N) :
    selMat K s i j = if j ∈ s ∧ (s.filter (· < j)).card = i then 1 else 0 := by
  simp only [selMat, orderEmbOfFin_eq_iff_count]

/-- coordinates whose actuation flag is `b` -/
def actSet (act : Fin N → Bool) (b : Bool) : Finset (Fin N) := Finset.univ.filter (fun i => act i = b)

/-- `S`: rows = actuated coordinates in increasing order. -/
def selS (K : Type*) [CommRing K] (act : Fin N → Bool) :
    Matrix (Fin (actSet act true).card) (Fin N) K := selMat K (actSet act true)
/-- `P`: rows = unactuated coordinates in increasing order. -/
def selP (K : Type*) [CommRing K] (act : Fin N → Bool) :
    Matrix (Fin (actSet act false).card) (Fin N) K := selMat K (actSet act false)

theorem actSet_disjoint (act : Fin N → Bool) : Disjoint (actSet act true) (actSet act false) := by
  rw [Finset.disjoint_left]
  intro j h1 h2
  simp only [actSet, Finset.mem_filter, Finset.mem_univ, true_and] at h1 h2
  rw [h1] at h2; exact Bool.noConfusion h2

theorem card_actSet (act : Fin N → Bool) :
    (actSet act true).card + (actSet act false).card = N := by
  rw [← Finset.card_union_of_disjoint (actSet_disjoint act)]
  have : actSet act true ∪ actSet act false = Finset.univ := by
    ext j
    simp only [actSet, Finset.mem_union, Finset.mem_filter, Finset.mem_univ, true_and, iff_true]
    cases act j <;> simp
  rw [this, Finset.card_univ, Fintype.card_fin]

theorem selS_mul_transpose (act : Fin N → Bool) : selS K act * (selS K act)ᵀ = 1 :=
  selMat_mul_transpose_self _
theorem selP_mul_transpose (act : Fin N → Bool) : selP K act * (selP K act)ᵀ = 1 :=
  selMat_mul_transpose_self _
theorem selS_mul_selP_transpose (act : Fin N → Bool) : selS K act * (selP K act)ᵀ = 0 :=
  selMat_mul_transpose_of_disjoint (actSet_disjoint act)
theorem selS_selP_partition (act : Fin N → Bool) :
    (selS K act)ᵀ * selS K act + (selP K act)ᵀ * selP K act = 1 := by
  rw [selS, selP, transpose_mul_selMat, transpose_mul_selMat]
  ext j j'
  simp only [add_apply, diagonal_apply, one_apply, actSet, Finset.mem_filter, Finset.mem_univ,
    true_and]
  by_cases h : j = j'
  · cases act j <;> simp [h]
  · simp [h]

end Sel
end Rbdl.Kkt
