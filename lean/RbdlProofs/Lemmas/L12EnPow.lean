import RbdlProofs.Lemmas.L12EnLin
import RbdlProofs.Lemmas.LDynCapKE
/-
  C12 (energy balance), part 2: **the power identity on the specification**

      Σ_j (newtonEulerTau)_j · q̇_j = d/dt KE + d/dt PE − P_ext

  (d'Alembert's principle with the real velocity as virtual velocity).

  * `bodyTerm_lin`, `extTerm_lin`   the contribution of a node to `Spec.newtonEulerTau` is linear in the
                                    partial velocities, so contracting with `q̇` replaces them by the
                                    velocities (`L12EnLin.specPose_lin`);
  * `tau_dot_qd`                    `Σ_j τ_j q̇_j` as a sum over the nodes of force · velocity;
  * `node_power`                    per body: `F·ċ + N·ω = m ċ·c̈ + d/dt(½ ω·Iw ω) − m g·ċ` for a rotation jet
                                    and a symmetric inertia (`ω·(İw ω) = 0`, `Iw` symmetric);
  * `power_identity`                the assembled statement.
-/
namespace Rbdl.L12En
open Lean.Grind Rbdl Rbdl.Spec Rbdl.L06 Rbdl.L01Cap Rbdl.Loops Rbdl.LDynCap
set_option linter.unusedSimpArgs false
set_option linter.unusedVariables false
set_option linter.unusedSectionVars false

section
variable {α : Type} [Field α] [DecidableEq α]

/-! ### `q̇`-combinations of matrices and vectors -/

def msum (N : Nat) (qd : Nat → α) (A : Nat → M3 α) : M3 α :=
  ⟨sumTo N (fun j => qd j * (A j).m00), sumTo N (fun j => qd j * (A j).m01),
   sumTo N (fun j => qd j * (A j).m02), sumTo N (fun j => qd j * (A j).m10),
   sumTo N (fun j => qd j * (A j).m11), sumTo N (fun j => qd j * (A j).m12),
   sumTo N (fun j => qd j * (A j).m20), sumTo N (fun j => qd j * (A j).m21),
   sumTo N (fun j => qd j * (A j).m22)⟩

def vsum (N : Nat) (qd : Nat → α) (v : Nat → V3 α) : V3 α :=
  ⟨sumTo N (fun j => qd j * (v j).x), sumTo N (fun j => qd j * (v j).y),
   sumTo N (fun j => qd j * (v j).z)⟩

/-- a form that is linear in `(Ṙ, ṗ)`: force · point velocity + moment · angular velocity -/
def pform (A B c : V3 α) (Rt : M3 α) (Rd : M3 α) (pd : V3 α) : α :=
  A.dot (pd + Rd * c) + B.dot (vee (Rd * Rt))

theorem pform_lin (A B c : V3 α) (Rt : M3 α) (qd : Nat → α) (Rdj : Nat → M3 α) (pdj : Nat → V3 α)
    (N : Nat) :
    pform A B c Rt (msum N qd Rdj) (vsum N qd pdj)
      = sumTo N (fun j => qd j * pform A B c Rt (Rdj j) (pdj j)) := by
  induction N with
  | zero => simp only [pform, msum, vsum, sumTo, vee, alg]; grind
  | succ N ih =>
    rw [sumTo_succ', ← ih]
    simp only [pform, msum, vsum, sumTo_succ', vee, alg]
    grind

/-- the pose jet of a node along the motion and along the unit motions -/
structure KinLin (N : Nat) (qd : Nat → α) (k : NodeKin α) (kj : Nat → NodeKin α) : Prop where
  R : ∀ j, (kj j).R = k.R
  p : ∀ j, (kj j).p = k.p
  Rd : k.Rd = msum N qd (fun j => (kj j).Rd)
  pd : k.pd = vsum N qd (fun j => (kj j).pd)

theorem specKin_lin {M : SModel α} (hM : IdxOK M) (st : State α) (i : Nat) :
    KinLin M.nv st.qd (specKin M st i) (fun j => specKin M (unitVel st j) i) := by
  obtain ⟨⟨r00, r01, r02, r10, r11, r12, r20, r21, r22⟩, ⟨px, py, pz⟩⟩ := specPose_lin hM st i
  refine ⟨fun j => ?_, fun j => ?_, ?_, ?_⟩
  · simp only [specKin, NodeKin.ofPose, M3.mapD2, M3.mk.injEq]
    exact ⟨r00.x j, r01.x j, r02.x j, r10.x j, r11.x j, r12.x j, r20.x j, r21.x j, r22.x j⟩
  · simp only [specKin, NodeKin.ofPose, V3.mapD2, V3.mk.injEq]
    exact ⟨px.x j, py.x j, pz.x j⟩
  · simp only [specKin, NodeKin.ofPose, M3.mapD2, msum, M3.mk.injEq]
    exact ⟨r00.d1, r01.d1, r02.d1, r10.d1, r11.d1, r12.d1, r20.d1, r21.d1, r22.d1⟩
  · simp only [specKin, NodeKin.ofPose, V3.mapD2, vsum, V3.mk.injEq]
    exact ⟨px.d1, py.d1, pz.d1⟩

/-! ### the two node terms of `Spec.newtonEulerTau` are linear in the partial velocities -/

theorem bodyTerm_pform (g : V3 α) (nd : SNode α) (k kj : NodeKin α) (hR : kj.R = k.R) :
    bodyTerm g ((nd, k), kj)
      = if nd.hasBody = true then
          pform (nd.mass * (k.ptdd nd.com - g))
            ((k.Rd * nd.inertia * k.R.transpose + k.R * nd.inertia * k.Rd.transpose) * k.omega
              + (k.R * nd.inertia * k.R.transpose) * k.omegaDot)
            nd.com k.R.transpose kj.Rd kj.pd
        else 0 := by
  unfold bodyTerm pform NodeKin.ptd NodeKin.omega
  dsimp only
  rw [hR]

theorem extTerm_pform (fext : Nat → SV α) (nd : SNode α) (k kj : NodeKin α) (hR : kj.R = k.R) :
    extTerm fext ((nd, k), kj)
      = if nd.apiId ≠ nd.movableId ∨ nd.apiId = 0 then 0
        else pform (fext nd.movableId).v ((fext nd.movableId).w + (fext nd.movableId).v.cross k.p)
          V3.zero k.R.transpose kj.Rd kj.pd := by
  unfold extTerm pform NodeKin.omega
  dsimp only
  rw [hR]
  split
  · rfl
  · simp only [vee, alg]; grind

theorem bodyTerm_lin {N : Nat} {qd : Nat → α} (g : V3 α) (nd : SNode α) (k : NodeKin α)
    (kj : Nat → NodeKin α) (h : KinLin N qd k kj) :
    bodyTerm g ((nd, k), k) = sumTo N (fun j => qd j * bodyTerm g ((nd, k), kj j)) := by
  rw [bodyTerm_pform g nd k k rfl,
    sumTo_congr' N _ _ (fun j _ => by rw [bodyTerm_pform g nd k (kj j) (h.R j)])]
  by_cases hb : nd.hasBody = true
  · simp only [if_pos hb]
    rw [h.Rd, h.pd, pform_lin]
  · simp only [if_neg hb]
    rw [sumTo_congr' N _ (fun _ => 0) (fun j _ => by grind), sumTo_zero']

theorem extTerm_lin {N : Nat} {qd : Nat → α} (fext : Nat → SV α) (nd : SNode α) (k : NodeKin α)
    (kj : Nat → NodeKin α) (h : KinLin N qd k kj) :
    extTerm fext ((nd, k), k) = sumTo N (fun j => qd j * extTerm fext ((nd, k), kj j)) := by
  rw [extTerm_pform fext nd k k rfl,
    sumTo_congr' N _ _ (fun j _ => by rw [extTerm_pform fext nd k (kj j) (h.R j)])]
  by_cases hb : nd.apiId ≠ nd.movableId ∨ nd.apiId = 0
  · simp only [if_pos hb]
    rw [sumTo_congr' N _ (fun _ => 0) (fun j _ => by grind), sumTo_zero']
  · simp only [if_neg hb]
    rw [h.Rd, h.pd, pform_lin]

/-! ### `Σ_j τ_j q̇_j` as a sum over the nodes -/

/-- entry of the zipped tables of `Spec.newtonEulerTau` -/
theorem zip3_getD (M : SModel α) (S S' : State α) (hne : M.nodes ≠ []) (n : Nat)
    (hn : n < M.nodes.length) :
    ((M.nodes.zip (kinTable M S)).zip (kinTable M S')).getD n
        ((nd0, NodeKin.ofPose Pose.id), NodeKin.ofPose Pose.id)
      = ((M.nodes.getD n nd0, specKin M S n), specKin M S' n) := by
  have hl1 := kinTable_length M S hne
  have hl2 := kinTable_length M S' hne
  rw [getD_zip _ _ _ _ _ (by rw [List.length_zip, hl1]; omega) (by rw [hl2]; exact hn),
    getD_zip _ _ _ _ _ hn (by rw [hl1]; exact hn), kinTable_getD, kinTable_getD]

theorem zip3_length (M : SModel α) (S S' : State α) (hne : M.nodes ≠ []) :
    ((M.nodes.zip (kinTable M S)).zip (kinTable M S')).length = M.nodes.length := by
  rw [List.length_zip, List.length_zip, kinTable_length M S hne, kinTable_length M S' hne]; omega

/-- entry `x` of `Spec.newtonEulerTau` as a sum over the node indices -/
theorem tau_entry (M : SModel α) (S : State α) (fext : Nat → SV α) (hne : M.nodes ≠ []) (x : Nat)
    (hx : x < M.nv) :
    (newtonEulerTau M S fext).getD x 0
      = lsum 0 (fun n => bodyTerm M.gravity
            ((M.nodes.getD n nd0, specKin M S n), specKin M (unitVel S x) n)
          - extTerm fext ((M.nodes.getD n nd0, specKin M S n), specKin M (unitVel S x) n))
        (List.range M.nodes.length) := by
  rw [newtonEulerTau_getD M S fext x hx,
    foldl_eq_lsum (bodyTerm M.gravity) (bodyStep M.gravity) (bodyStep_eq M.gravity)
      ((nd0, NodeKin.ofPose Pose.id), NodeKin.ofPose Pose.id),
    foldl_eq_lsum (extTerm fext) (extStep fext) (extStep_eq fext)
      ((nd0, NodeKin.ofPose Pose.id), NodeKin.ofPose Pose.id), zip3_length M S _ hne]
  have e0 : ∀ a b : α, 0 + a - (0 + b) = a - b := by intro a b; grind
  rw [e0, lsum_sub]
  refine lsum_congr _ _ _ (fun n hn => ?_)
  rw [List.mem_range] at hn
  rw [zip3_getD M S _ hne n hn]

theorem sumTo_lsum_swap (N : Nat) (qd : Nat → α) (f : Nat → Nat → α) (l : List Nat) :
    sumTo N (fun j => lsum 0 (fun n => f n j) l * qd j)
      = lsum 0 (fun n => sumTo N (fun j => qd j * f n j)) l := by
  rw [lsum_sumTo_swap]
  refine sumTo_congr' N _ _ (fun j _ => ?_)
  rw [lsum_smul]; grind

/-- **`Σ_j τ_j q̇_j = Σ_nodes (force · velocity) − Σ_nodes (external force · velocity)`** -/
theorem tau_dot_qd {M : SModel α} (hM : IdxOK M) (hne : M.nodes ≠ []) (st : State α)
    (fext : Nat → SV α) :
    sumTo M.nv (fun j => (newtonEulerTau M st fext).getD j 0 * st.qd j)
      = lsum 0 (fun n => bodyTerm M.gravity
            ((M.nodes.getD n nd0, specKin M st n), specKin M st n)) (List.range M.nodes.length)
        - lsum 0 (fun n => extTerm fext
            ((M.nodes.getD n nd0, specKin M st n), specKin M st n)) (List.range M.nodes.length) := by
  rw [sumTo_congr' M.nv _ _ (fun j hj => by rw [tau_entry M st fext hne j hj]),
    sumTo_lsum_swap, lsum_sub]
  refine lsum_congr _ _ _ (fun n _ => ?_)
  have hk := specKin_lin hM st n
  rw [bodyTerm_lin M.gravity _ _ _ hk, extTerm_lin fext _ _ _ hk]
  have e : ∀ a b : α, a - b = a + -b := by intro a b; grind
  rw [e, ← sumTo_neg', ← sumTo_add']
  exact sumTo_congr' M.nv _ _ (fun j _ => by grind)

/-! ### the energy rates as sums over the nodes -/

/-- contribution of one node to `Spec.kineticEnergyRate` -/
def keRateTerm (p : SNode α × NodeKin α) : α :=
  if p.1.hasBody = true then
    p.1.mass * (p.2.ptd p.1.com).dot (p.2.ptdd p.1.com)
      + (p.2.omegaDot.dot ((p.2.R * p.1.inertia * p.2.R.transpose) * p.2.omega)
          + p.2.omega.dot ((p.2.Rd * p.1.inertia * p.2.R.transpose
              + p.2.R * p.1.inertia * p.2.Rd.transpose) * p.2.omega)
          + p.2.omega.dot ((p.2.R * p.1.inertia * p.2.R.transpose) * p.2.omegaDot)) / 2
  else 0

theorem zip2_length (M : SModel α) (S : State α) (hne : M.nodes ≠ []) :
    (M.nodes.zip (kinTable M S)).length = M.nodes.length := by
  rw [List.length_zip, kinTable_length M S hne]; omega

theorem kineticEnergyRate_eq (M : SModel α) (S : State α) (hne : M.nodes ≠ []) :
    kineticEnergyRate M S
      = lsum 0 (fun n => keRateTerm (M.nodes.getD n nd0, specKin M S n))
          (List.range M.nodes.length) := by
  unfold kineticEnergyRate
  dsimp only
  rw [foldl_eq_lsum keRateTerm _ (fun a p => by
      unfold keRateTerm
      cases h : p.1.hasBody
      · simp only [Bool.not_false, if_true, Bool.false_eq_true, if_false]; grind
      · simp only [Bool.not_true, Bool.false_eq_true, if_false, if_true])
    (nd0, NodeKin.ofPose Pose.id), zip2_length M S hne]
  have ez : ∀ a : α, 0 + a = a := by intro a; grind
  rw [ez]
  refine lsum_congr _ _ _ (fun n hn => ?_)
  rw [List.mem_range] at hn
  rw [zip_kin_getD M S hne n hn]

theorem externalPower_eq (M : SModel α) (S : State α) (fext : Nat → SV α) (hne : M.nodes ≠ []) :
    externalPower M S fext
      = lsum 0 (fun n => extTerm fext ((M.nodes.getD n nd0, specKin M S n), specKin M S n))
          (List.range M.nodes.length) := by
  unfold externalPower
  dsimp only
  rw [foldl_eq_lsum (fun p : SNode α × NodeKin α => extTerm fext ((p.1, p.2), p.2)) _ (fun a p => by
      unfold extTerm NodeKin.omega
      dsimp only
      split
      · grind
      · rfl)
    (nd0, NodeKin.ofPose Pose.id), zip2_length M S hne]
  have ez : ∀ a : α, 0 + a = a := by intro a; grind
  rw [ez]
  refine lsum_congr _ _ _ (fun n hn => ?_)
  rw [List.mem_range] at hn
  rw [zip_kin_getD M S hne n hn]

theorem v3_dot_zero (g : V3 α) : g.dot V3.zero = 0 := by simp only [alg]; grind
theorem v3_dot_add (g a b : V3 α) : g.dot (a + b) = g.dot a + g.dot b := by simp only [alg]; grind

theorem potentialEnergyRate_eq (M : SModel α) (S : State α) (hne : M.nodes ≠ []) :
    potentialEnergyRate M S
      = lsum 0 (fun n => if cnt M n = true then
            -(M.gravity.dot ((M.nodes.getD n nd0).mass * (specKin M S n).ptd (M.nodes.getD n nd0).com))
          else 0) (List.range M.nodes.length) := by
  unfold potentialEnergyRate
  rw [massSum_eq M S hne,
    lsum_map V3.zero 0 (fun v : V3 α => -(M.gravity.dot v))
      (by show -(M.gravity.dot V3.zero) = 0; rw [v3_dot_zero]; grind)
      (fun a b => by show -(M.gravity.dot (a + b)) = _; rw [v3_dot_add]; grind)]
  refine lsum_congr _ _ _ (fun n _ => ?_)
  by_cases h : cnt M n = true
  · rw [if_pos h, if_pos h]
  · rw [if_neg h, if_neg h, v3_dot_zero]; grind

/-! ### one body -/

theorem dot_skew_self (a x : V3 α) : a.dot (M3.skew a * x) = 0 := by simp only [alg]; grind
theorem skewT_self (a : V3 α) (R : M3 α) : (M3.skew a * R).transpose * a = V3.zero := by alg_ext
theorem m3_mulVec_zero (A : M3 α) : A * (V3.zero : V3 α) = V3.zero := by alg_ext

/-- `ω·(İw ω) = 0` for the jet of a rotation: `İw = [ω]× Iw − Iw [ω]×` -/
theorem iwd_power (h2 : (2 : α) ≠ 0) {k : NodeKin α} (hk : KinOk k) (I : M3 α) :
    k.omega.dot ((k.Rd * I * k.R.transpose + k.R * I * k.Rd.transpose) * k.omega) = 0 := by
  have hB := kinOk_bodyForm h2 hk
  have rot := hB.rot
  have hrd : k.Rd = M3.skew k.omega * k.R := by
    rw [skew_mul_rot rot]; exact hB.rd
  rw [m3_add_mulVec, v3_dot_add, hrd, m3_mul_assoc, m3_mul_assoc, m3_mulVec_assoc, dot_skew_self,
    m3_mulVec_assoc, m3_mulVec_assoc, skewT_self, m3_mulVec_zero, m3_mulVec_zero, v3_dot_zero]
  grind

/-- `R I Rᵀ` is symmetric when `I` is -/
theorem iw_symm (R I : M3 α) (hs : I.transpose = I) (x y : V3 α) :
    x.dot ((R * I * R.transpose) * y) = y.dot ((R * I * R.transpose) * x) := by
  simp only [alg, M3.ext_iff] at hs
  obtain ⟨-, h01, h02, -, -, h12, -, -, -⟩ := hs
  simp only [alg]
  grind

/-- **one body**: (net force)·ċ + (net moment)·ω = d/dt (½ m ċ·ċ + ½ ω·Iw ω) − m g·ċ -/
theorem node_power (h2 : (2 : α) ≠ 0) (g : V3 α) (nd : SNode α) {k : NodeKin α} (hk : KinOk k)
    (hs : nd.inertia.transpose = nd.inertia) (hb : nd.hasBody = true) :
    bodyTerm g ((nd, k), k) = keRateTerm (nd, k) + -(g.dot (nd.mass * k.ptd nd.com)) := by
  unfold bodyTerm keRateTerm
  simp only [if_pos hb]
  have h1 := iwd_power h2 hk nd.inertia
  have h3 := iw_symm k.R nd.inertia hs k.omega k.omegaDot
  generalize (k.Rd * nd.inertia * k.R.transpose + k.R * nd.inertia * k.Rd.transpose) * k.omega = A at *
  generalize (k.R * nd.inertia * k.R.transpose) * k.omegaDot = B at *
  generalize (k.R * nd.inertia * k.R.transpose) * k.omega = C at *
  generalize k.ptd nd.com = cd
  generalize k.ptdd nd.com = cdd
  generalize k.omega = w at *
  generalize k.omegaDot = wd at *
  simp only [alg] at h1 h3 ⊢
  grind

/-- for a rotation jet and a symmetric inertia the rate of the kinetic energy of a body is the familiar
    `m ċ·c̈ + ω·(R I Rᵀ ω̇)` -/
theorem keRateTerm_closed (h2 : (2 : α) ≠ 0) (nd : SNode α) {k : NodeKin α} (hk : KinOk k)
    (hs : nd.inertia.transpose = nd.inertia) (hb : nd.hasBody = true) :
    keRateTerm (nd, k) = nd.mass * (k.ptd nd.com).dot (k.ptdd nd.com)
      + k.omega.dot ((k.R * nd.inertia * k.R.transpose) * k.omegaDot) := by
  unfold keRateTerm
  simp only [if_pos hb]
  rw [iwd_power h2 hk nd.inertia, iw_symm k.R nd.inertia hs k.omegaDot k.omega]
  grind

/-! ### assembly -/

/-- what the power identity needs of a specification model at a state:
    * `idx`    the joints read generalized velocities below `M.nv`;
    * `kin`    the pose jet of every body is the jet of a curve of rotations (`Spec.KinOk`);
    * `symm`   symmetric inertia matrices;
    * `still`  bodies attached to the base (`movableId = 0`: they do not count towards the whole-body
               quantities) do not move. -/
structure EnergyOK (M : SModel α) (st : State α) : Prop where
  idx : ∀ nd ∈ M.nodes, ∀ i, i < nd.joint.dof → nd.qIdx + i < M.nv
  kin : ∀ p ∈ M.nodes.zip (kinTable M st), p.1.hasBody = true → KinOk p.2
  symm : ∀ nd ∈ M.nodes, nd.hasBody = true → nd.inertia.transpose = nd.inertia
  still : ∀ p ∈ M.nodes.zip (kinTable M st), p.1.hasBody = true → p.1.movableId = 0 →
    p.2.ptd p.1.com = V3.zero

theorem zip_kin_mem (M : SModel α) (S : State α) (hne : M.nodes ≠ []) (n : Nat)
    (hn : n < M.nodes.length) :
    (M.nodes.getD n nd0, specKin M S n) ∈ M.nodes.zip (kinTable M S) := by
  rw [← zip_kin_getD M S hne n hn, List.getD_eq_getElem?_getD,
    List.getElem?_eq_getElem (by rw [zip2_length M S hne]; exact hn)]
  exact List.getElem_mem _

theorem nodes_getD_mem (M : SModel α) (n : Nat) (hn : n < M.nodes.length) :
    M.nodes.getD n nd0 ∈ M.nodes := by
  rw [List.getD_eq_getElem?_getD, List.getElem?_eq_getElem hn]
  exact List.getElem_mem _

/-- **the power identity of the specification** -/
theorem power_identity (h2 : (2 : α) ≠ 0) {M : SModel α} {st : State α} (h : EnergyOK M st)
    (fext : Nat → SV α) :
    sumTo M.nv (fun j => (newtonEulerTau M st fext).getD j 0 * st.qd j)
      = kineticEnergyRate M st + potentialEnergyRate M st - externalPower M st fext := by
  by_cases hne : M.nodes = []
  · have hnv : M.nv = 0 := by unfold SModel.nv; rw [hne]; rfl
    unfold kineticEnergyRate potentialEnergyRate externalPower massSum
    simp only [hne, List.zip_nil_left, List.foldl_nil]
    rw [hnv, v3_dot_zero]
    show (0 : α) = _
    grind
  · rw [tau_dot_qd h.idx hne, kineticEnergyRate_eq M st hne, potentialEnergyRate_eq M st hne,
      externalPower_eq M st fext hne, ← lsum_add]
    congr 1
    refine lsum_congr _ _ _ (fun n hn => ?_)
    rw [List.mem_range] at hn
    have hmem := zip_kin_mem M st hne n hn
    by_cases hb : (M.nodes.getD n nd0).hasBody = true
    · rw [node_power h2 M.gravity _ (h.kin _ hmem hb) (h.symm _ (nodes_getD_mem M n hn) hb) hb]
      by_cases hc : cnt M n = true
      · rw [if_pos hc]
      · rw [if_neg hc]
        have h0 : (M.nodes.getD n nd0).movableId = 0 := by
          rcases Nat.eq_zero_or_pos (M.nodes.getD n nd0).movableId with e | e
          · exact e
          · exact absurd ((cnt_iff M n).2 ⟨hb, by unfold bodyOf; omega⟩) hc
        rw [h.still _ hmem hb h0]
        simp only [alg]; grind
    · have hc : ¬ cnt M n = true := fun hc => hb ((cnt_iff M n).1 hc).1
      rw [if_neg hc]
      unfold bodyTerm keRateTerm
      simp only [if_neg hb]
      grind

end
end Rbdl.L12En
