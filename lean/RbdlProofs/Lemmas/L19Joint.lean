import RbdlProofs.Lemmas.L19
import RbdlProofs.Lemmas.Alg16
/-
  L19Joint — which joint a `joint` table becomes, and that the choice does not change the
  mechanism: the specialised 1-DoF types (`RevoluteX/Y/Z`) have the motion subspace and the joint
  transform of the general screw joint about the given axis; an axis list of 2–6 entries becomes
  the chain of 1-DoF joints with exactly these axes; the named 3-DoF joints have, at the zero
  configuration, the motion subspace of their axis lists.
-/
namespace Rbdl.L19
open Lean.Grind Rbdl Rbdl.ModelS Rbdl.LuaLoad

section
variable {α : Type} [Field α] [DecidableEq α]

/-! ### `Joint(SpatialVector)` -/

omit [DecidableEq α] in
theorem zero_ne_one' : (0 : α) ≠ 1 := by grind

theorem ofAxis_axes (a : SV α) : (Joint.ofAxis a).axes = [a] ∧ (Joint.ofAxis a).dof = 1 ∧
    (Joint.ofAxis a).qIndex = 0 := ⟨rfl, rfl, rfl⟩

omit [DecidableEq α] in
theorem sv_y_ne_x : (sv6 0 1 0 0 0 0 : SV α) ≠ sv6 1 0 0 0 0 0 := by
  intro e; simp only [sv6, SV.mk.injEq, V3.mk.injEq] at e; exact zero_ne_one' e.1.1
omit [DecidableEq α] in
theorem sv_z_ne_x : (sv6 0 0 1 0 0 0 : SV α) ≠ sv6 1 0 0 0 0 0 := by
  intro e; simp only [sv6, SV.mk.injEq, V3.mk.injEq] at e; exact zero_ne_one' e.1.1
omit [DecidableEq α] in
theorem sv_z_ne_y : (sv6 0 0 1 0 0 0 : SV α) ≠ sv6 0 1 0 0 0 0 := by
  intro e; simp only [sv6, SV.mk.injEq, V3.mk.injEq] at e; exact zero_ne_one' e.1.2.1

theorem ofAxis_x : (Joint.ofAxis (sv6 1 0 0 0 0 0 : SV α)).jt = .revoluteX := by
  simp [Joint.ofAxis]
theorem ofAxis_y : (Joint.ofAxis (sv6 0 1 0 0 0 0 : SV α)).jt = .revoluteY := by
  simp [Joint.ofAxis, sv_y_ne_x]
theorem ofAxis_z : (Joint.ofAxis (sv6 0 0 1 0 0 0 : SV α)).jt = .revoluteZ := by
  simp [Joint.ofAxis, sv_z_ne_x, sv_z_ne_y]

/-- the five cases of `Joint(SpatialVector)` -/
theorem ofAxis_cases (a : SV α) :
    (a = sv6 1 0 0 0 0 0 ∧ (Joint.ofAxis a).jt = .revoluteX) ∨
    (a = sv6 0 1 0 0 0 0 ∧ (Joint.ofAxis a).jt = .revoluteY) ∨
    (a = sv6 0 0 1 0 0 0 ∧ (Joint.ofAxis a).jt = .revoluteZ) ∨
    (a.w = V3.zero ∧ (Joint.ofAxis a).jt = .prismatic) ∨
    (a.w ≠ V3.zero ∧ (Joint.ofAxis a).jt = .helical) := by
  by_cases h1 : a = sv6 1 0 0 0 0 0
  · left; exact ⟨h1, by rw [h1]; exact ofAxis_x⟩
  · by_cases h2 : a = sv6 0 1 0 0 0 0
    · right; left; exact ⟨h2, by rw [h2]; exact ofAxis_y⟩
    · by_cases h3 : a = sv6 0 0 1 0 0 0
      · right; right; left; exact ⟨h3, by rw [h3]; exact ofAxis_z⟩
      · by_cases h4 : a.w.x = 0 ∧ a.w.y = 0 ∧ a.w.z = 0
        · right; right; right; left
          refine ⟨?_, by simp [Joint.ofAxis, h1, h2, h3, h4]⟩
          obtain ⟨hx, hy, hz⟩ := h4
          cases a with | mk w v => cases w with | mk x y z =>
            simp only at hx hy hz; subst hx; subst hy; subst hz; rfl
        · right; right; right; right
          refine ⟨?_, by simp [Joint.ofAxis, h1, h2, h3, h4]⟩
          intro hw; apply h4
          rw [hw]; exact ⟨rfl, rfl, rfl⟩

/-! ### the specialised 1-DoF joints are the screw joint about their axis -/

omit [DecidableEq α] in
theorem Xrotx_eq (c s : α) : Xrotx c s = Xrot c s ⟨1, 0, 0⟩ := by alg_ext
omit [DecidableEq α] in
theorem Xroty_eq (c s : α) : Xroty c s = Xrot c s ⟨0, 1, 0⟩ := by alg_ext
omit [DecidableEq α] in
theorem Xrotz_eq (c s : α) : Xrotz c s = Xrot c s ⟨0, 0, 1⟩ := by alg_ext

omit [DecidableEq α] in
theorem mul_Xtrans_zero (X : XT α) (q : α) : X * Xtrans (q * (V3.zero : V3 α)) = X := by alg_ext

omit [DecidableEq α] in
/-- a unit rotation axis is fixed by the rotation about it -/
theorem Xrot_axis (c s : α) (w : V3 α) (hw : w.x * w.x + w.y * w.y + w.z * w.z = 1) :
    (Xrot c s w).E * w = w := by alg_ext

set_option linter.unusedSimpArgs false in
/-- After `jcalc_X_lambda_S`, the joint `Joint(SpatialVector a)` of body `i`
    * has motion subspace column `a` (helical: `(a.w, E_J a.v)`), and
    * its transform is the screw `Xrot(q, a.w) · Xtrans(q a.v)` (prismatic: `Xtrans(q a.v)`),
    whichever of the five joint types was selected. -/
theorem jcalc_ofAxis (m : ModelS α) (i k : Nat) (hi : i ≠ 0) (a : SV α) (st : QS α)
    (hj : m.joint i = { Joint.ofAxis a with qIndex := k }) :
    let w' := jcalcXlambdaS m (initWS m) i st
    let XJ : XT α := if a.w = V3.zero then Xtrans (st.q k * a.v)
                     else Xrot (st.c k) (st.s k) a.w * Xtrans (st.q k * a.v)
    w'.X_lambda i = XJ * m.XT_ i ∧ w'.S i = ⟨a.w, XJ.E * a.v⟩ ∧
    ((Joint.ofAxis a).jt ≠ .helical → w'.S i = a) := by
  have hax : (m.joint i).axes = [a] := by rw [hj]; rfl
  have hq : (m.joint i).qIndex = k := by rw [hj]
  have h01 := zero_ne_one' (α := α)
  have hjt0 : (m.joint i).jt = (Joint.ofAxis a).jt := by rw [hj]
  rcases ofAxis_cases a with ⟨ha, ht⟩ | ⟨ha, ht⟩ | ⟨ha, ht⟩ | ⟨ha, ht⟩ | ⟨ha, ht⟩
  all_goals
    have hjt := hjt0.trans ht
  · subst ha
    have hw : (sv6 1 0 0 0 0 0 : SV α).w ≠ V3.zero := by
      intro e; simp only [sv6, V3.zero, V3.mk.injEq] at e; exact h01 e.1.symm
    refine ⟨?_, ?_, fun _ => ?_⟩ <;>
      simp only [jcalcXlambdaS, hjt, hq, initWS, if_neg hi, hax, upd_same, if_neg hw, Xrotx_eq,
        sv6, List.headD_cons]
    · alg_ext
    · alg_ext
  · subst ha
    have hw : (sv6 0 1 0 0 0 0 : SV α).w ≠ V3.zero := by
      intro e; simp only [sv6, V3.zero, V3.mk.injEq] at e; exact h01 e.2.1.symm
    refine ⟨?_, ?_, fun _ => ?_⟩ <;>
      simp only [jcalcXlambdaS, hjt, hq, initWS, if_neg hi, hax, upd_same, if_neg hw, Xroty_eq,
        sv6, List.headD_cons]
    · alg_ext
    · alg_ext
  · subst ha
    have hw : (sv6 0 0 1 0 0 0 : SV α).w ≠ V3.zero := by
      intro e; simp only [sv6, V3.zero, V3.mk.injEq] at e; exact h01 e.2.2.symm
    refine ⟨?_, ?_, fun _ => ?_⟩ <;>
      simp only [jcalcXlambdaS, hjt, hq, initWS, if_neg hi, hax, upd_same, if_neg hw, Xrotz_eq,
        sv6, List.headD_cons]
    · alg_ext
    · alg_ext
  · refine ⟨?_, ?_, fun _ => ?_⟩ <;>
      simp only [jcalcXlambdaS, hjt, hq, initWS, if_neg hi, hax, upd_same, if_pos ha,
        jcalcXJ, List.headD_cons]
    cases a with | mk w v =>
      simp only at ha; subst ha
      alg_ext
  · refine ⟨?_, ?_, fun h => absurd ht h⟩ <;>
      simp only [jcalcXlambdaS, hjt, hq, initWS, if_neg hi, hax, upd_same, if_neg ha,
        jcalcXJ, List.headD_cons]

/-- a proper helical joint (unit axis, translation along it): the column is `a` as well -/
theorem jcalc_ofAxis_helical (m : ModelS α) (i k : Nat) (hi : i ≠ 0) (a : SV α) (st : QS α)
    (hj : m.joint i = { Joint.ofAxis a with qIndex := k })
    (hu : a.w.x * a.w.x + a.w.y * a.w.y + a.w.z * a.w.z = 1) (h : α) (hp : a.v = h * a.w) :
    (jcalcXlambdaS m (initWS m) i st).S i = a := by
  obtain ⟨-, hS, -⟩ := jcalc_ofAxis m i k hi a st hj
  have h01 := zero_ne_one' (α := α)
  have hw : a.w ≠ V3.zero := by
    intro e; rw [e] at hu; simp only [V3.zero] at hu; grind
  simp only [if_neg hw] at hS
  rw [hS]
  have hE := Xrot_axis (st.c k) (st.s k) a.w hu
  cases a with | mk w v =>
    simp only at hp hu hE ⊢
    subst hp
    have : (Xrot (st.c k) (st.s k) w * Xtrans (st.q k * (h * w))).E = (Xrot (st.c k) (st.s k) w).E := by
      alg_ext
    rw [this]
    have h2 : (Xrot (st.c k) (st.s k) w).E * (h * w) = h * ((Xrot (st.c k) (st.s k) w).E * w) := by
      alg_ext
    rw [h2, hE]

/-! ### 2–6 axes: the chain of 1-DoF joints with these axes -/

omit [Field α] [DecidableEq α] in
theorem ofAxes_kind (l : List (SV α)) (h2 : 2 ≤ l.length) (h6 : l.length ≤ 6) :
    (Joint.ofAxes l).jt.kind = .chain ∧ (Joint.ofAxes l).axes = l ∧
    (Joint.ofAxes l).newBodies = l.length := by
  have hk : (Joint.ofAxes l).jt.kind = .chain := by
    simp only [Joint.ofAxes]
    rcases l with _ | ⟨a, _ | ⟨b, _ | ⟨c, _ | ⟨d, _ | ⟨e, _ | ⟨f, _ | ⟨g, r⟩⟩⟩⟩⟩⟩⟩ <;>
      simp at h2 h6 <;> rfl
  exact ⟨hk, rfl, by simp only [Joint.newBodies]; rw [hk]; rfl⟩

/-- `AddBody` with an emulated multi-DoF joint is the chain of `Joint(SpatialVector)` joints -/
theorem addBody_ofAxes (m : ModelS α) (p : Nat) (X : XT α) (l : List (SV α)) (b : Body α)
    (n : String) (h2 : 2 ≤ l.length) (h6 : l.length ≤ 6) :
    m.addBody p X (Joint.ofAxes l) b n =
      if n ≠ "" ∧ m.hasName n then (m, .error .duplicateName) else m.addChain p X l b n := by
  rw [addBody_eq]
  obtain ⟨hk, hax, -⟩ := ofAxes_kind l h2 h6
  simp only [hk, hax]

/-- the joints a chain appends: one `Joint(SpatialVector a)` per axis, in order (types and axes) -/
theorem addChain_joints (b : Body α) (name : String) : ∀ (axes : List (SV α)) (m : ModelS α)
    (parent : Nat) (frame : XT α) (m' : ModelS α) (id : Nat),
    m.addChain parent frame axes b name = (m', .ok id) →
    m'.joints.map (fun j => (j.jt, j.axes)) =
      m.joints.map (fun j => (j.jt, j.axes)) ++
        axes.map (fun a => ((Joint.ofAxis a).jt, [a])) := by
  intro axes
  induction axes with
  | nil => intro m parent frame m' id h; simp [addChain] at h
  | cons a rest ih =>
    intro m parent frame m' id h
    cases rest with
    | nil =>
      simp only [addChain] at h
      rw [addBodyMovable_eq] at h
      split at h
      · cases h
      · cases h
        simp [movableResult, newJoint, Joint.ofAxis]
    | cons a2 rest2 =>
      simp only [addChain] at h
      rw [addBodyMovable_unnamed] at h
      simp only at h
      have := ih _ _ _ m' id h
      rw [this]
      simp [movableResult, newJoint, Joint.ofAxis]

/-! ### the named 3-DoF joints at the zero configuration -/

omit [DecidableEq α] in
/-- at `q = 0` the motion subspace of the Euler / translation joints consists of the axes the
    constructor `Joint(JointType)` stores, in order -/
theorem named_S_zero (t : JT) (j : Joint α) (hj : Joint.ofType t = some j)
    (ht : t = .eulerZYX ∨ t = .eulerXYZ ∨ t = .eulerYXZ ∨ t = .translationXYZ) :
    (match t with
     | .eulerZYX => eulerZYX_S M63.zero 1 0 1 0
     | .eulerXYZ => eulerXYZ_S M63.zero 1 0 1 0
     | .eulerYXZ => eulerYXZ_S M63.zero 1 0 1 0
     | _ => translationS (M63.zero : M63 α)).cols = j.axes := by
  rcases ht with h | h | h | h <;> subst h <;> simp only [Joint.ofType, Option.some.injEq] at hj <;>
    subst hj <;>
    simp [eulerZYX_S, eulerXYZ_S, eulerYXZ_S, translationS, M63.setW, M63.cols, M63.zero, sv6,
      SV.zero, V3.zero] <;> grind

end
end Rbdl.L19
