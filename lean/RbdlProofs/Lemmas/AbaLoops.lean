import RbdlProofs.Lemmas.Aba
import RbdlProofs.Lemmas.Kin04
/-
  C02, part 2 (helpers): generic loop lemmas, the loop bodies of `forwardDynamics` /
  `inverseDynamics` as named functions, and their field-by-field descriptions.
-/
namespace Rbdl.L02
open Lean.Grind Rbdl
set_option linter.unusedSimpArgs false
set_option linter.unusedSectionVars false

/-! ### generic loop lemmas -/

theorem forUp_succ_right {σ : Type} (n lo : Nat) (body : Nat → σ → σ) (s : σ) :
    forUp (n + 1) lo body s = body (lo + n) (forUp n lo body s) := by
  have := forUp_add n 1 lo body s
  simpa [forUp] using this

theorem forDown_add {σ : Type} (a b hi : Nat) (body : Nat → σ → σ) (s : σ) :
    forDown (a + b) hi body s = forDown b (hi - a) body (forDown a hi body s) := by
  induction a generalizing hi s with
  | zero => simp [forDown]
  | succ a ih =>
    have : a + 1 + b = (a + b) + 1 := by omega
    rw [this]
    simp only [forDown]
    rw [ih]
    have : hi - 1 - a = hi - (a + 1) := by omega
    rw [this]

theorem forDown_succ_right {σ : Type} (n hi : Nat) (body : Nat → σ → σ) (s : σ) :
    forDown (n + 1) hi body s = body (hi - n) (forDown n hi body s) := by
  have := forDown_add n 1 hi body s
  simpa [forDown] using this

/-- invariant rule for `forUp`: `P i` = "the iterations below `i` are done" -/
theorem forUp_inv {σ : Type} (P : Nat → σ → Prop) (body : Nat → σ → σ) (n lo : Nat) (s : σ)
    (h0 : P lo s)
    (hstep : ∀ i s, lo ≤ i → i < lo + n → P i s → P (i + 1) (body i s)) :
    P (lo + n) (forUp n lo body s) := by
  induction n with
  | zero => simpa [forUp] using h0
  | succ n ih =>
    rw [forUp_succ_right]
    have := ih (fun i s hi1 hi2 => hstep i s hi1 (by omega))
    exact hstep (lo + n) _ (by omega) (by omega) this

/-- two `forUp` loops in lockstep -/
theorem forUp_rel {σ ρ : Type} (R : Nat → σ → ρ → Prop) (b1 : Nat → σ → σ) (b2 : Nat → ρ → ρ)
    (n lo : Nat) (s : σ) (r : ρ) (h0 : R lo s r)
    (hstep : ∀ i s r, lo ≤ i → i < lo + n → R i s r → R (i + 1) (b1 i s) (b2 i r)) :
    R (lo + n) (forUp n lo b1 s) (forUp n lo b2 r) := by
  induction n with
  | zero => simpa [forUp] using h0
  | succ n ih =>
    rw [forUp_succ_right, forUp_succ_right]
    have := ih (fun i s r hi1 hi2 => hstep i s r hi1 (by omega))
    exact hstep (lo + n) _ _ (by omega) (by omega) this

/-- a quantity no iteration changes -/
theorem forUp_frame {σ β : Type} (get : σ → β) (body : Nat → σ → σ)
    (hbody : ∀ i s, get (body i s) = get s) (n lo : Nat) (s : σ) :
    get (forUp n lo body s) = get s := by
  induction n generalizing lo s with
  | zero => rfl
  | succ n ih => simp only [forUp]; rw [ih, hbody]

theorem forDown_frame {σ β : Type} (get : σ → β) (body : Nat → σ → σ)
    (hbody : ∀ i s, get (body i s) = get s) (n hi : Nat) (s : σ) :
    get (forDown n hi body s) = get s := by
  induction n generalizing hi s with
  | zero => rfl
  | succ n ih => simp only [forDown]; rw [ih, hbody]

/-- entries above the counter are not touched by a `forDown` whose iteration `i` writes entry `i`
    of the view only -/
theorem forDown_get_above {σ β : Type} (get : σ → Nat → β) (body : Nat → σ → σ)
    (hbody : ∀ i s j, j ≠ i → get (body i s) j = get s j)
    (n hi : Nat) (s : σ) (j : Nat) (hj : hi < j) :
    get (forDown n hi body s) j = get s j := by
  induction n generalizing hi s with
  | zero => rfl
  | succ n ih =>
    simp only [forDown]
    rw [ih (hi - 1) (body hi s) (by omega)]
    exact hbody hi s j (by omega)

/-- entry `i` of such a view is final after iteration `i` -/
theorem forDown_get_frozen {σ β : Type} (get : σ → Nat → β) (body : Nat → σ → σ)
    (hbody : ∀ i s j, j ≠ i → get (body i s) j = get s j)
    (n hi k : Nat) (s : σ) (hk : k < n) (hn : n ≤ hi) :
    get (forDown n hi body s) (hi - k) = get (body (hi - k) (forDown k hi body s)) (hi - k) := by
  obtain ⟨b, rfl⟩ : ∃ b, n = k + 1 + b := ⟨n - (k + 1), by omega⟩
  rw [forDown_add, forDown_get_above get body hbody _ _ _ _ (by omega), forDown_succ_right]

section
variable {α : Type} [Field α] [DecidableEq α]

/-! ### the loop bodies as named functions -/

/-- first loop of `forwardDynamics` -/
def fdB1 (m : ModelS α) (st : QS α) (qd : VecN α) (fext : Option (Nat → SV α)) (i : Nat)
    (w : WS α) : WS α :=
  let lam := m.lam i
  let w := jcalc m w i st qd
  let w := if lam ≠ 0 then { w with X_base := upd w.X_base i (w.X_lambda i * w.X_base lam) }
           else { w with X_base := upd w.X_base i (w.X_lambda i) }
  let w := { w with v := upd w.v i ((w.X_lambda i).apply (w.v lam) + w.v_J i) }
  let w := { w with c := upd w.c i (w.c_J i + crossm (w.v i) (w.v_J i)) }
  let w := { w with IA := upd w.IA i (m.rbi i).toMatrix }
  let p0 := crossf (w.v i) (m.rbi i * w.v i)
  let p1 := match fext with
    | none => p0
    | some fe => if fe i ≠ SV.zero then p0 - (w.X_base i).applyAdjoint (fe i) else p0
  { w with pA := upd w.pA i p1 }

/-- second loop of `forwardDynamics` -/
def fdB2 (m : ModelS α) (tau : VecN α) (i : Nat) (w : WS α) : WS α :=
  let w := abaUD m w i
  let w := abaU m w i tau
  let lam := m.lam i
  if lam ≠ 0 ∧ m.arity i ≠ .other then
    let Ia := abaIa m w i
    let pa := w.pA i + Ia * w.c i + abaUDu m w i
    let X := w.X_lambda i
    { w with IA := upd w.IA lam (w.IA lam + X.toMatrixTranspose * Ia * X.toMatrix)
             pA := upd w.pA lam (w.pA lam + X.applyTranspose pa) }
  else w

/-- third loop of `forwardDynamics` -/
def fdB3 (m : ModelS α) (i : Nat) (s : WS α × VecN α) : WS α × VecN α := abaAccel m s.1 i s.2

theorem forwardDynamics_eq (m : ModelS α) (w : WS α) (st : QS α) (qd tau q0 : VecN α)
    (fext : Option (Nat → SV α)) :
    forwardDynamics m w st qd tau q0 fext =
      (let n := m.nBodies - 1
       let w1 := forUp n 1 (fdB1 m st qd fext) { w with v := upd w.v 0 SV.zero }
       let wB := forDown n n (fdB2 m tau) w1
       forUp n 1 (fdB3 m) ({ wB with a := upd wB.a 0 (spatialGravityNeg m) }, q0)) := rfl

/-- first loop of `inverseDynamics` -/
def idB1 (m : ModelS α) (st : QS α) (qd qdd : VecN α) (i : Nat) (w : WS α) : WS α :=
  let lam := m.lam i
  let w := jcalc m w i st qd
  let w := { w with v := upd w.v i ((w.X_lambda i).apply (w.v lam) + w.v_J i) }
  let w := { w with c := upd w.c i (w.c_J i + crossm (w.v i) (w.v_J i)) }
  let w := match m.arity i with
    | .other => w
    | _ => { w with a := upd w.a i ((w.X_lambda i).apply (w.a lam) + w.c i + w.Sqdd m i qdd) }
  { w with f := upd w.f i (bodyForce m w i) }

/-- external-force loop of `inverseDynamics` -/
def idBF (m : ModelS α) (fe : Nat → SV α) (i : Nat) (w : WS α) : WS α :=
  let w := { w with X_base := upd w.X_base i (w.X_lambda i * w.X_base (m.lam i)) }
  { w with f := upd w.f i (w.f i - (w.X_base i).applyAdjoint (fe i)) }

/-- backward loop (`rneaBackward`) -/
def idBB (m : ModelS α) (i : Nat) (s : WS α × VecN α) : WS α × VecN α :=
  let tau := s.1.tauWrite m i (s.1.f i) s.2
  let lam := m.lam i
  if lam ≠ 0 then
    ({ s.1 with f := upd s.1.f lam (s.1.f lam + (s.1.X_lambda i).applyTranspose (s.1.f i)) }, tau)
  else (s.1, tau)

theorem inverseDynamics_eq (m : ModelS α) (w : WS α) (st : QS α) (qd qdd t0 : VecN α)
    (fext : Option (Nat → SV α)) :
    inverseDynamics m w st qd qdd t0 fext =
      (let n := m.nBodies - 1
       let r0 : WS α := { w with v := upd w.v 0 SV.zero, a := upd w.a 0 (spatialGravityNeg m) }
       let r1 := forUp n 1 (idB1 m st qd qdd) r0
       let r1' := match fext with
         | none => r1
         | some fe => forUp n 1 (idBF m fe) r1
       forDown n n (idBB m) (r1', t0)) := rfl

/-! ### the stages of the two routines -/

/-- workspace of `forwardDynamics` after its first loop -/
def fdW1 (m : ModelS α) (st : QS α) (qd : VecN α) (fext : Option (Nat → SV α)) (w : WS α) : WS α :=
  forUp (m.nBodies - 1) 1 (fdB1 m st qd fext) { w with v := upd w.v 0 SV.zero }

/-- workspace of `forwardDynamics` after its second loop -/
def fdWB (m : ModelS α) (tau : VecN α) (w1 : WS α) : WS α :=
  forDown (m.nBodies - 1) (m.nBodies - 1) (fdB2 m tau) w1

/-- `a[0] = -gravity` -/
def wBg (m : ModelS α) (wB : WS α) : WS α :=
  { wB with a := upd wB.a 0 (spatialGravityNeg m) }

/-- result of `forwardDynamics` from the workspace after the second loop -/
def fdFin (m : ModelS α) (wB : WS α) (q0 : VecN α) : WS α × VecN α :=
  forUp (m.nBodies - 1) 1 (fdB3 m) (wBg m wB, q0)

theorem forwardDynamics_stages (m : ModelS α) (w : WS α) (st : QS α) (qd tau q0 : VecN α)
    (fext : Option (Nat → SV α)) :
    forwardDynamics m w st qd tau q0 fext
      = fdFin m (fdWB m tau (fdW1 m st qd fext w)) q0 := rfl

/-- workspace of `inverseDynamics` after its first loop -/
def idR0 (m : ModelS α) (st : QS α) (qd qdd : VecN α) (w2 : WS α) : WS α :=
  forUp (m.nBodies - 1) 1 (idB1 m st qd qdd)
    { w2 with v := upd w2.v 0 SV.zero, a := upd w2.a 0 (spatialGravityNeg m) }

/-- workspace of `inverseDynamics` before `rneaBackward` -/
def idR1 (m : ModelS α) (st : QS α) (qd qdd : VecN α) (fext : Option (Nat → SV α)) (w2 : WS α) :
    WS α :=
  match fext with
  | none => idR0 m st qd qdd w2
  | some fe => forUp (m.nBodies - 1) 1 (idBF m fe) (idR0 m st qd qdd w2)

theorem inverseDynamics_stages (m : ModelS α) (w2 : WS α) (st : QS α) (qd qdd t0 : VecN α)
    (fext : Option (Nat → SV α)) :
    inverseDynamics m w2 st qd qdd t0 fext
      = forDown (m.nBodies - 1) (m.nBodies - 1) (idBB m) (idR1 m st qd qdd fext w2, t0) := rfl

/-! ### `jcalc`: what it reads and writes -/

/-- the workspace entries `jcalc` may write at body index `i` (for the non-custom joints) -/
def jd (w : WS α) (i : Nat) : XT α × SV α × M63 α × SV α × SV α :=
  (w.X_lambda i, w.S i, w.S3 i, w.v_J i, w.c_J i)

theorem jcalc_v (m : ModelS α) (w : WS α) (i : Nat) (st : QS α) (qd : VecN α) :
    (jcalc m w i st qd).v = w.v := by
  unfold jcalc; dsimp only; cases h : (m.joint i).jt <;> rfl
theorem jcalc_a (m : ModelS α) (w : WS α) (i : Nat) (st : QS α) (qd : VecN α) :
    (jcalc m w i st qd).a = w.a := by
  unfold jcalc; dsimp only; cases h : (m.joint i).jt <;> rfl
theorem jcalc_c (m : ModelS α) (w : WS α) (i : Nat) (st : QS α) (qd : VecN α) :
    (jcalc m w i st qd).c = w.c := by
  unfold jcalc; dsimp only; cases h : (m.joint i).jt <;> rfl
theorem jcalc_f (m : ModelS α) (w : WS α) (i : Nat) (st : QS α) (qd : VecN α) :
    (jcalc m w i st qd).f = w.f := by
  unfold jcalc; dsimp only; cases h : (m.joint i).jt <;> rfl
theorem jcalc_pA (m : ModelS α) (w : WS α) (i : Nat) (st : QS α) (qd : VecN α) :
    (jcalc m w i st qd).pA = w.pA := by
  unfold jcalc; dsimp only; cases h : (m.joint i).jt <;> rfl
theorem jcalc_IA (m : ModelS α) (w : WS α) (i : Nat) (st : QS α) (qd : VecN α) :
    (jcalc m w i st qd).IA = w.IA := by
  unfold jcalc; dsimp only; cases h : (m.joint i).jt <;> rfl

theorem jcalc_jd_other (m : ModelS α) (w : WS α) (i : Nat) (st : QS α) (qd : VecN α) (j : Nat)
    (hne : j ≠ i) : jd (jcalc m w i st qd) j = jd w j := by
  unfold jcalc jd; dsimp only
  cases h : (m.joint i).jt <;> simp only [upd_other _ _ _ _ hne]

theorem jcalc_jd_congr (m : ModelS α) (w w' : WS α) (i : Nat) (st : QS α) (qd : VecN α)
    (hw : jd w i = jd w' i) : jd (jcalc m w i st qd) i = jd (jcalc m w' i st qd) i := by
  simp only [jd, Prod.mk.injEq] at hw
  obtain ⟨h1, h2, h3, h4, h5⟩ := hw
  unfold jcalc jd; dsimp only
  cases h : (m.joint i).jt <;> simp only [upd_same, h1, h2, h3, h4, h5]

/-! ### first loop of `forwardDynamics`, field by field -/

/-- the `f_ext` term of body `i` in body coordinates (`X = X_base[i]`) -/
def fextTerm (fext : Option (Nat → SV α)) (X : XT α) (i : Nat) : SV α :=
  match fext with
  | none => SV.zero
  | some fe => X.applyAdjoint (fe i)

/-- `pA[i]` as the first loop of `forwardDynamics` computes it from `p0 = v ×* I v` -/
def fdP1 (fext : Option (Nat → SV α)) (p0 : SV α) (X : XT α) (i : Nat) : SV α :=
  match fext with
  | none => p0
  | some fe => if fe i ≠ SV.zero then p0 - X.applyAdjoint (fe i) else p0

theorem applyAdjoint_zero (X : XT α) : X.applyAdjoint SV.zero = SV.zero := by alg_ext

theorem fdP1_add_fextTerm (fext : Option (Nat → SV α)) (p0 : SV α) (X : XT α) (i : Nat) :
    fdP1 fext p0 X i + fextTerm fext X i = p0 := by
  unfold fdP1 fextTerm
  cases fext with
  | none => exact sv_add_zero p0
  | some fe =>
    dsimp only
    split
    · exact sv_add_sub_cancel _ _
    · next h =>
      have h0 : fe i = SV.zero := Classical.not_not.mp h
      rw [h0, applyAdjoint_zero]; exact sv_add_zero p0

variable (m : ModelS α) (st : QS α) (qd : VecN α)

theorem fdB1_jd (fext : Option (Nat → SV α)) (i : Nat) (w : WS α) (j : Nat) :
    jd (fdB1 m st qd fext i w) j = jd (jcalc m w i st qd) j := by
  unfold fdB1 jd; dsimp only; split <;> rfl

theorem fdB1_v (fext : Option (Nat → SV α)) (i : Nat) (w : WS α) :
    (fdB1 m st qd fext i w).v = upd w.v i
      (((jcalc m w i st qd).X_lambda i).apply (w.v (m.lam i)) + (jcalc m w i st qd).v_J i) := by
  unfold fdB1; dsimp only; split <;> simp only [jcalc_v]

theorem fdB1_c (fext : Option (Nat → SV α)) (i : Nat) (w : WS α) :
    (fdB1 m st qd fext i w).c = upd w.c i
      ((jcalc m w i st qd).c_J i
        + crossm ((fdB1 m st qd fext i w).v i) ((jcalc m w i st qd).v_J i)) := by
  rw [fdB1_v]
  unfold fdB1; dsimp only; split <;> simp only [jcalc_v, jcalc_c, upd_same]

theorem fdB1_IA (fext : Option (Nat → SV α)) (i : Nat) (w : WS α) :
    (fdB1 m st qd fext i w).IA = upd w.IA i (m.rbi i).toMatrix := by
  unfold fdB1; dsimp only; split <;> simp only [jcalc_IA]

theorem fdB1_X_base (fext : Option (Nat → SV α)) (i : Nat) (w : WS α) :
    (fdB1 m st qd fext i w).X_base = upd w.X_base i
      (if m.lam i ≠ 0 then (jcalc m w i st qd).X_lambda i * w.X_base (m.lam i)
       else (jcalc m w i st qd).X_lambda i) := by
  unfold fdB1; dsimp only; split <;> simp only [jcalc_X_base]

theorem fdB1_pA (fext : Option (Nat → SV α)) (i : Nat) (w : WS α) :
    (fdB1 m st qd fext i w).pA = upd w.pA i
      (fdP1 fext (crossf ((fdB1 m st qd fext i w).v i) (m.rbi i * (fdB1 m st qd fext i w).v i))
        ((fdB1 m st qd fext i w).X_base i) i) := by
  rw [fdB1_v, fdB1_X_base]
  unfold fdB1 fdP1; dsimp only; split <;> simp only [jcalc_v, jcalc_pA, jcalc_X_base, upd_same]

/-! ### first loop of `inverseDynamics`, field by field -/

variable (qdd : VecN α)

theorem idB1_jd (i : Nat) (w : WS α) (j : Nat) :
    jd (idB1 m st qd qdd i w) j = jd (jcalc m w i st qd) j := by
  unfold idB1 jd; dsimp only; split <;> rfl

theorem idB1_X_base (i : Nat) (w : WS α) : (idB1 m st qd qdd i w).X_base = w.X_base := by
  unfold idB1; dsimp only; split <;> simp only [jcalc_X_base]

theorem idB1_v (i : Nat) (w : WS α) :
    (idB1 m st qd qdd i w).v = upd w.v i
      (((jcalc m w i st qd).X_lambda i).apply (w.v (m.lam i)) + (jcalc m w i st qd).v_J i) := by
  unfold idB1; dsimp only; split <;> simp only [jcalc_v]

theorem idB1_c (i : Nat) (w : WS α) :
    (idB1 m st qd qdd i w).c = upd w.c i
      ((jcalc m w i st qd).c_J i
        + crossm ((idB1 m st qd qdd i w).v i) ((jcalc m w i st qd).v_J i)) := by
  rw [idB1_v]
  unfold idB1; dsimp only; split <;> simp only [jcalc_v, jcalc_c, upd_same]

theorem idB1_a (i : Nat) (w : WS α) (h : m.arity i ≠ .other) :
    (idB1 m st qd qdd i w).a = upd w.a i
      (((jcalc m w i st qd).X_lambda i).apply (w.a (m.lam i)) + (idB1 m st qd qdd i w).c i
        + (jcalc m w i st qd).Sqdd m i qdd) := by
  rw [idB1_c, idB1_v]
  unfold idB1; dsimp only
  split
  · next h' => exact absurd h' h
  · simp only [jcalc_v, jcalc_c, jcalc_a, upd_same, WS.Sqdd]

theorem idB1_f (i : Nat) (w : WS α) :
    (idB1 m st qd qdd i w).f = upd w.f i (bodyForce m (idB1 m st qd qdd i w) i) := by
  unfold idB1; dsimp only; split <;> simp only [jcalc_f, bodyForce]

theorem fdB1_jd_other (fext : Option (Nat → SV α)) (i : Nat) (w : WS α) (j : Nat) (hne : j ≠ i) :
    jd (fdB1 m st qd fext i w) j = jd w j := by
  rw [fdB1_jd, jcalc_jd_other _ _ _ _ _ _ hne]

theorem idB1_jd_other (i : Nat) (w : WS α) (j : Nat) (hne : j ≠ i) :
    jd (idB1 m st qd qdd i w) j = jd w j := by
  rw [idB1_jd, jcalc_jd_other _ _ _ _ _ _ hne]

omit m st qd qdd

theorem jd_X {a b : WS α} {j k : Nat} (h : jd a j = jd b k) : a.X_lambda j = b.X_lambda k :=
  congrArg (·.1) h
theorem jd_S {a b : WS α} {j k : Nat} (h : jd a j = jd b k) : a.S j = b.S k :=
  congrArg (·.2.1) h
theorem jd_S3 {a b : WS α} {j k : Nat} (h : jd a j = jd b k) : a.S3 j = b.S3 k :=
  congrArg (·.2.2.1) h
theorem jd_vJ {a b : WS α} {j k : Nat} (h : jd a j = jd b k) : a.v_J j = b.v_J k :=
  congrArg (·.2.2.2.1) h
theorem jd_cJ {a b : WS α} {j k : Nat} (h : jd a j = jd b k) : a.c_J j = b.c_J k :=
  congrArg (·.2.2.2.2) h

/-- `S_i qdd_i` only reads `S[i]` / `multdof3_S[i]` (non-custom joints) -/
theorem Sqdd_congr (m : ModelS α) (w w' : WS α) (i : Nat) (q : VecN α) (hS : w.S i = w'.S i)
    (hS3 : w.S3 i = w'.S3 i) (hc : m.arity i ≠ .custom) : w.Sqdd m i q = w'.Sqdd m i q := by
  unfold WS.Sqdd; dsimp only
  split
  · rw [hS]
  · rw [hS3]
  · next h => exact absurd h hc
  · rfl

end

end Rbdl.L02
