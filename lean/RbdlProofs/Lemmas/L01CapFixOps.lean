import RbdlProofs.Lemmas.L01CapFixFix
/-
  C01 capstone, Stages D + E: the construction calls (`AddBody` / `AppendBody` with single-body
  joints, fixed joints, the floating base; `AddBodyCustomJoint`) keep the invariant `SimF`.
-/
namespace Rbdl.L01Cap
open Lean.Grind Rbdl Rbdl.Spec Rbdl.L06 Rbdl.L01 Rbdl.Loops
set_option linter.unusedSimpArgs false
set_option linter.unusedVariables false
set_option linter.unusedSectionVars false

section
variable {α : Type} [Field α] [DecidableEq α]

/-! ### what `SB.add` appends -/

theorem add_single' (sb : SB α) (parent : Nat) (E : M3 α) (r : V3 α) (j : JDesc α) (sj : SJoint α)
    (mass : α) (com : V3 α) (inertia : M3 α) (he : expand j = some [sj])
    (hsj : notFixed sj = true) :
    sb.add parent E r j mass com inertia
      = (pushMov sb (singleNode sb parent E r sj mass com inertia) sb.M.nodes.length,
          some sb.nMovable) := by
  rw [add_single sb parent E r j sj mass com inertia he hsj]
  rfl

def fixedNode (sb : SB α) (parent : Nat) (E : M3 α) (r : V3 α) (mass : α) (com : V3 α)
    (inertia : M3 α) : SNode α :=
  ⟨sb.nodeOf parent, E, r, .fixed, 0, 0, true, mass, com, inertia, fixedDisc + sb.nFixed,
    (sb.M.nodes.getD (sb.nodeOf parent) nd0).movableId⟩

theorem add_fixed (sb : SB α) (parent : Nat) (E : M3 α) (r : V3 α) (j : JDesc α)
    (mass : α) (com : V3 α) (inertia : M3 α) (he : expand j = some [.fixed]) :
    sb.add parent E r j mass com inertia
      = (pushFix sb (fixedNode sb parent E r mass com inertia), some (fixedDisc + sb.nFixed)) := by
  unfold SB.add
  rw [he]
  rfl

def floatNode1 (sb : SB α) (parent : Nat) (E : M3 α) (r : V3 α) : SNode α :=
  ⟨sb.nodeOf parent, E, r, .translationXYZ, sb.M.nv, 0, false, 0, V3.zero, M3.zero,
    sb.nMovable, sb.nMovable⟩
def floatNode2 (sb : SB α) (mass : α) (com : V3 α) (inertia : M3 α) : SNode α :=
  ⟨sb.M.nodes.length, M3.one, V3.zero, .spherical, sb.M.nv + 3, 0, true, mass, com, inertia,
    sb.nMovable + 1, sb.nMovable + 1⟩

theorem add_floating (sb : SB α) (parent : Nat) (E : M3 α) (r : V3 α)
    (mass : α) (com : V3 α) (inertia : M3 α) :
    sb.add parent E r (.typed .floatingBase) mass com inertia
      = (pushMov (pushMov sb (floatNode1 sb parent E r) sb.M.nodes.length)
            (floatNode2 sb mass com inertia) sb.M.nodes.length,
          some (sb.nMovable + 1)) := by
  unfold SB.add
  simp [expand, pushMov, pushNode, floatNode1, floatNode2, List.range, List.range.loop, SJoint.dof]

/-! ### registering a custom joint -/

theorem sjoint_withCustom (m : ModelS α) (hwf : m.WF) (k : CustomKind) (i : Nat)
    (hi : i < m.nBodies) : (m.withCustom k).sjoint i = m.sjoint i := by
  unfold ModelS.sjoint
  have hj : (m.withCustom k).joint i = m.joint i := rfl
  dsimp only
  rw [hj]
  cases hjt : (m.joint i).jt <;> try rfl
  have hlt := (hwf.custom_ok i hi hjt).1
  have : (m.withCustom k).custom (m.joint i).customIdx = m.custom (m.joint i).customIdx := by
    unfold ModelS.custom ModelS.withCustom
    exact getD_append_left _ _ _ _ hlt
  simp only [this]

theorem simF_withCustom (m : ModelS α) (p : PB α) (hS : SimF m p) (k : CustomKind) :
    SimF (m.withCustom k) p := by
  have hwf := hS.ok.wf
  refine ⟨⟨ModelS.wf_withCustom m hwf k, hS.ok.cinj, hS.ok.jc, hS.ok.decl, hS.ok.frame⟩,
    hS.cap, hS.prev, hS.nmov, hS.nfix, hS.gravity, hS.nv, hS.base, hS.lookup0, hS.found, hS.keys,
    ?_, hS.idnode, hS.movNode, hS.fixNode, hS.bodyrbi, hS.rbi, hS.virt⟩
  intro n nd n1 h
  have hN := hS.node n nd n1 h
  exact ⟨hN.par_lt, hN.body_lt, hN.offrot, hN.symm, hN.fjoint, hN.fpar, hN.foff, hN.fid, hN.mpos,
    hN.mpar, hN.mframe,
    fun hm' => (sjoint_withCustom m hwf k _ hN.body_lt).symm ▸ hN.mjoint hm', hN.mqIdx⟩

/-! ### supported operations -/

def FixedJoint (j : Joint α) : Prop := j.jt = .fixed
def FloatJoint (j : Joint α) : Prop := j.jt = .floatingBase

/-- `AddBody` arguments the capstone covers: a proper rotation as joint frame; a joint that gets one
    movable body (`GoodJoint`), the fixed joint, or the floating base; a real body with symmetric
    inertia -/
def addOK (frame : XT α) (j : Joint α) (b : Body α) : Prop :=
  frame.E.IsRot ∧ b.inertia.transpose = b.inertia ∧
  ((GoodJoint j ∧ b.isVirtual = false) ∨ j.jt = .fixed ∨ (j.jt = .floatingBase ∧ b.isVirtual = false))

def Op.simpleF : Op α → Prop
  | .addBody _ frame j b _ => addOK frame j b
  | .appendBody frame j b _ => addOK frame j b
  | .addBodyCustomJoint _ frame _ b _ =>
      frame.E.IsRot ∧ b.inertia.transpose = b.inertia ∧ b.isVirtual = false

/-- every operation is valid, supported, succeeds, and the ids stay below the fixed-body
    discriminator -/
def goodRunF (m : ModelS α) : List (Op α) → Prop
  | [] => True
  | op :: ops =>
    op.valid m ∧ Op.simpleF op ∧ (∃ id, (m.step op).2 = .ok id) ∧ m.nBodies + 2 ≤ fixedDisc ∧
      goodRunF (m.step op).1 ops

theorem expand_fixed (j : Joint α) (h : j.jt = .fixed) : expand (descOf j) = some [.fixed] := by
  unfold descOf
  rw [h]
  rfl

theorem expand_float (j : Joint α) (h : j.jt = .floatingBase) :
    descOf j = .typed .floatingBase := by
  unfold descOf
  rw [h]

theorem nullBody_eq : (ModelS.nullBody : Body α) = ⟨0, V3.zero, M3.zero, true⟩ := rfl

/-- `AddBody` -/
theorem simF_addBody (m : ModelS α) (p : PB α) (hS : SimF m p) (parent : Nat) (frame : XT α)
    (j : Joint α) (b : Body α) (name : String) (hp : m.validId parent) (hjok : m.jointOk j)
    (hcapF : m.fixedBodies.length ≤ fixedDisc) (ha : addOK frame j b)
    (hcap : m.nBodies + 2 ≤ fixedDisc) (id : Nat)
    (hok : (m.addBody parent frame j b name).2 = .ok id) :
    SimF (m.addBody parent frame j b name).1 (p.add parent frame (descOf j) b) := by
  have hwf := hS.ok.wf
  obtain ⟨hE, hsym, hkind⟩ := ha
  rw [ModelS.addBody_eq] at hok ⊢
  by_cases hd : name ≠ "" ∧ m.hasName name
  · rw [if_pos hd] at hok; cases hok
  · rw [if_neg hd] at hok ⊢
    rcases hkind with ⟨hj, hbv⟩ | hfix | ⟨hfl, hbv⟩
    · -- one movable body
      obtain ⟨he, hsj, hdof⟩ := expand_descOf j hj
      rw [hasJcalc_single _ hj.1] at hok ⊢
      show SimF (m.addBodyMovable parent frame j b name).1 _
      rw [ModelS.addBodyMovable_eq, if_neg hd]
      unfold PB.add
      rw [add_single' p.sb parent frame.E frame.r (descOf j) (jointSj j) b.mass b.com b.inertia he
        hsj]
      show SimF _ ⟨_, p.sb.nMovable⟩
      rw [hS.nmov]
      refine simF_movable m p hS parent frame j b name (jointSj j) _ _ hp hE hd (by omega) hj.1
        hj.2.2.1 hjok (fun hc => absurd hc hj.2.1) ?_ hdof (fun hv => by rw [hbv] at hv; cases hv)
        rfl rfl rfl rfl rfl rfl rfl (by show true = !b.isVirtual; rw [hbv]; rfl)
        (fun _ => ⟨rfl, rfl, rfl, hsym⟩)
      rw [sjoint_eq_sj _ _ (by rw [mr_joint_new m parent frame j b name hwf]; exact hj.2.1),
        mr_joint_new m parent frame j b name hwf]
      rfl
    · -- a fixed body
      have hk : j.jt.kind = .fixed := by rw [hfix]; rfl
      rw [hk] at hok ⊢
      show SimF (m.addBodyFixed parent frame b name).1 _
      change (m.addBodyFixed parent frame b name).2 = .ok id at hok
      cases hjoin : (m.body (m.mpOf parent)).join (m.fpXOf parent frame) b with
      | none =>
        rw [ModelS.addBodyFixed_none m parent frame b name hd hjoin] at hok; cases hok
      | some pb =>
        rw [ModelS.addBodyFixed_some m parent frame b name pb hd hjoin]
        unfold PB.add
        rw [add_fixed p.sb parent frame.E frame.r (descOf j) b.mass b.com b.inertia
          (expand_fixed j hfix)]
        exact simF_fixed m p hS parent frame b name pb _ hp hE hd hcapF hsym hjoin rfl rfl rfl rfl
          rfl rfl rfl rfl rfl rfl
    · -- the floating base: translationXYZ (massless) + spherical
      have hk : j.jt.kind = .floating := by rw [hfl]; rfl
      rw [hk] at hok ⊢
      show SimF (m.addFloating parent frame b name).1 _
      unfold ModelS.addFloating
      have hd1 : ¬(name ≠ "" ∧
          (m.movableResult parent frame ModelS.floatT ModelS.nullBody "").hasName name) := by
        rw [ModelS.hasName_congr (ModelS.movableResult_names_unnamed ..)]; exact hd
      rw [ModelS.addBodyMovable_eq, if_neg hd1]
      unfold PB.add
      rw [expand_float j hfl, add_floating]
      -- first body
      have h1 : SimF (m.movableResult parent frame ModelS.floatT ModelS.nullBody "")
          ⟨pushMov p.sb (floatNode1 p.sb parent frame.E frame.r) p.sb.M.nodes.length, m.nBodies⟩ := by
        refine simF_movable m p hS parent frame ModelS.floatT ModelS.nullBody "" .translationXYZ _ _
          hp hE (ModelS.not_dup_empty m) (by omega) rfl (by change _ = _; rfl)
          (fun hc => by simp [ModelS.floatT] at hc) (fun hc => by simp [ModelS.floatT] at hc) ?_ rfl
          (fun _ => ⟨rfl, rfl⟩) rfl rfl rfl rfl rfl rfl rfl rfl (fun hh => by cases hh)
        rw [sjoint_eq_sj _ _ (by
          rw [mr_joint_new m parent frame _ _ _ hwf]; simp [ModelS.floatT]),
          mr_joint_new m parent frame _ _ _ hwf]
        rfl
      -- second body, attached to the first
      have hwf1 := h1.ok.wf
      have hnb1 := mr_nBodies m parent frame ModelS.floatT ModelS.nullBody ""
      have hnew : (m.movableResult parent frame ModelS.floatT ModelS.nullBody "").bodies.length
          = m.nBodies + 0 + 1 := by rw [Nat.add_zero]; exact hnb1
      have hlk : lookupNode (pushMov p.sb (floatNode1 p.sb parent frame.E frame.r)
          p.sb.M.nodes.length).idMap m.nBodies = p.sb.M.nodes.length := by
        have := h1.idnode p.sb.M.nodes.length (floatNode1 p.sb parent frame.E frame.r)
          (by obtain ⟨bs, hbs, _⟩ := hS.base; exact lt_of_get hbs) (pushNode_get_new _ _)
        rw [show (floatNode1 p.sb parent frame.E frame.r).apiId = m.nBodies from hS.nmov] at this
        exact this
      have h2 := simF_movable _ _ h1 m.nBodies XT.id ModelS.floatS b name .spherical
        (floatNode2 p.sb b.mass b.com b.inertia) p.sb.M.nodes.length
        (Or.inl (by rw [hnb1]; omega)) M3.isRot_one hd1 (by rw [hnb1]; omega) rfl
        (by change _ = _; rfl) (fun hc => by simp [ModelS.floatS] at hc)
        (fun hc => by simp [ModelS.floatS] at hc)
        (by
          rw [sjoint_eq_sj _ _ (by
            rw [mr_joint_new _ m.nBodies XT.id _ _ _ hwf1]; simp [ModelS.floatS]),
            mr_joint_new _ m.nBodies XT.id _ _ _ hwf1]
          rfl)
        rfl (fun hv => by rw [hbv] at hv; cases hv)
        (by rw [hlk]; rfl) rfl rfl rfl
        (by
          show p.sb.M.nv + 3 = (pushNode p.sb.M (floatNode1 p.sb parent frame.E frame.r)).nv
          unfold pushNode
          rw [nv_append]; rfl)
        rfl rfl (by show true = !b.isVirtual; rw [hbv]; rfl) (fun _ => ⟨rfl, rfl, rfl, hsym⟩)
      rw [hnb1] at h2
      show SimF (ModelS.movableResult _ m.bodies.length XT.id ModelS.floatS b name)
        ⟨_, p.sb.nMovable + 1⟩
      rw [hS.nmov]
      exact h2

end
end Rbdl.L01Cap
