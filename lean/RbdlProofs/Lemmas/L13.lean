import Rbdl.WSInv
import RbdlProofs.Lemmas.Loops
import RbdlProofs.Lemmas.Kin04
/-
  Helper lemmas for C13 (results do not depend on the workspace), part 1:
  * the workspace written by `jcalc` / `jcalc_X_lambda_S` as one structure equation
    (`jcalc_eq`, `jcalcXlambdaS_eq`);
  * `WSFixed` basics: construction (`wsfixed_initWS`), `poison`, the primitive steps that keep it
    (`wsfixed_jcalc`, `wsfixed_jcalcXlambdaS`, `wsfixed_congr`);
  * indexed loop simulation (`forUp_simI`, `forDown_simI`).
-/
namespace Rbdl.L13
open Lean.Grind Rbdl Rbdl.Loops
set_option linter.unusedSimpArgs false

/-! ## indexed simulation -/

/-- simulation with a relation that knows the loop counter: `R i` holds before iteration `i` -/
theorem forUp_simI {σ τ : Type} (R : Nat → σ → τ → Prop) (body : Nat → σ → σ)
    (body' : Nat → τ → τ) (n lo : Nat)
    (h : ∀ i s t, lo ≤ i → i < lo + n → R i s t → R (i + 1) (body i s) (body' i t))
    (s : σ) (t : τ) (h0 : R lo s t) : R (lo + n) (forUp n lo body s) (forUp n lo body' t) := by
  induction n generalizing lo s t with
  | zero => exact h0
  | succ k ih =>
    rw [forUp, forUp]
    have := ih (lo + 1) (fun i s t h1 h2 => h i s t (by omega) (by omega)) _ _
      (h lo s t (Nat.le_refl _) (by omega) h0)
    have e : lo + 1 + k = lo + (k + 1) := by omega
    rw [e] at this; exact this

/-- descending version: `R i` holds before iteration `i`, `R (i-1)` after it -/
theorem forDown_simI {σ τ : Type} (R : Nat → σ → τ → Prop) (body : Nat → σ → σ)
    (body' : Nat → τ → τ) (cnt hi : Nat)
    (h : ∀ i s t, i ≤ hi → hi < i + cnt → R i s t → R (i - 1) (body i s) (body' i t))
    (s : σ) (t : τ) (h0 : R hi s t) :
    R (hi - cnt) (forDown cnt hi body s) (forDown cnt hi body' t) := by
  induction cnt generalizing hi s t with
  | zero => exact h0
  | succ k ih =>
    rw [forDown, forDown]
    have := ih (hi - 1) (fun i s t h1 h2 => h i s t (by omega) (by omega)) _ _
      (h hi s t (Nat.le_refl _) (by omega) h0)
    have e : hi - 1 - k = hi - (k + 1) := by omega
    rw [e] at this; exact this

theorem foldl_sim {σ τ β : Type} (R : σ → τ → Prop) (f : σ → β → σ) (g : τ → β → τ)
    (l : List β) (h : ∀ s t b, b ∈ l → R s t → R (f s b) (g t b)) (s : σ) (t : τ) (h0 : R s t) :
    R (l.foldl f s) (l.foldl g t) := by
  induction l generalizing s t with
  | nil => exact h0
  | cons b l ih =>
    rw [List.foldl_cons, List.foldl_cons]
    exact ih (fun s t b hb => h s t b (List.mem_cons_of_mem _ hb)) _ _
      (h s t b (List.mem_cons_self ..) h0)

section
variable {α : Type} [Field α]

/-! ## what `jcalc` writes -/

/-- `S[i]` of a helical joint as `jcalc` / `jcalc_X_lambda_S` compute it -/
def helicalS (m : ModelS α) (i : Nat) (st : QS α) : SV α :=
  let ax := (m.joint i).axes.headD SV.zero
  ⟨ax.w, (jcalcXJ m i st).E * ax.v⟩

/-- new `S[i]` (`old` is kept by every type but helical) -/
def jcalcS (m : ModelS α) (i : Nat) (st : QS α) (old : SV α) : SV α :=
  match (m.joint i).jt with
  | .helical => helicalS m i st
  | _ => old

/-- new `multdof3_S[i]` -/
def jcalcS3 (m : ModelS α) (i : Nat) (st : QS α) (old : M63 α) : M63 α :=
  let k := (m.joint i).qIndex
  match (m.joint i).jt with
  | .spherical => sphericalS old
  | .eulerZYX => eulerZYX_S old (st.c (k+1)) (st.s (k+1)) (st.c (k+2)) (st.s (k+2))
  | .eulerXYZ => eulerXYZ_S old (st.c (k+1)) (st.s (k+1)) (st.c (k+2)) (st.s (k+2))
  | .eulerYXZ => eulerYXZ_S old (st.c (k+1)) (st.s (k+1)) (st.c (k+2)) (st.s (k+2))
  | .eulerZXY => eulerZXY_S old (st.c (k+1)) (st.s (k+1)) (st.c (k+2)) (st.s (k+2))
  | .translationXYZ => translationS old
  | _ => old

/-- new `v_J[i]` from the old `S[i]`, `v_J[i]`, `multdof3_S[i]` -/
def jcalcVJ (m : ModelS α) (i : Nat) (st : QS α) (qd : VecN α) (S vJ : SV α) (S3 : M63 α) :
    SV α :=
  let k := (m.joint i).qIndex
  match (m.joint i).jt with
  | .revoluteX => ⟨⟨qd k, vJ.w.y, vJ.w.z⟩, vJ.v⟩
  | .revoluteY => ⟨⟨vJ.w.x, qd k, vJ.w.z⟩, vJ.v⟩
  | .revoluteZ => ⟨⟨vJ.w.x, vJ.w.y, qd k⟩, vJ.v⟩
  | .helical => qd k * helicalS m i st
  | .revolute | .prismatic => qd k * S
  | .spherical => ⟨⟨qd k, qd (k+1), qd (k+2)⟩, V3.zero⟩
  | .eulerZYX | .eulerXYZ | .eulerYXZ | .eulerZXY | .translationXYZ =>
      (jcalcS3 m i st S3).mulV3 ⟨qd k, qd (k+1), qd (k+2)⟩
  | .custom =>
      colsMul (customCalc (m.custom (m.joint i).customIdx) k st qd).2.1 (fun z => qd (k + z))
  | _ => vJ

/-- new `c_J[i]` -/
def jcalcCJ (m : ModelS α) (i : Nat) (st : QS α) (qd : VecN α) (old : SV α) : SV α :=
  let k := (m.joint i).qIndex
  let (c1, s1, c2, s2) := (st.c (k+1), st.s (k+1), st.c (k+2), st.s (k+2))
  match (m.joint i).jt with
  | .helical =>
      let ax := (m.joint i).axes.headD SV.zero
      let XJ := jcalcXJ m i st
      ⟨V3.zero, (-(qd k) * qd k) * (ax.w.cross (XJ.E * ax.v))⟩
  | .eulerZYX => eulerZYX_cJ c1 s1 c2 s2 (qd k) (qd (k+1)) (qd (k+2))
  | .eulerXYZ => eulerXYZ_cJ c1 s1 c2 s2 (qd k) (qd (k+1)) (qd (k+2))
  | .eulerYXZ => eulerYXZ_cJ c1 s1 c2 s2 (qd k) (qd (k+1)) (qd (k+2))
  | .eulerZXY => eulerZXY_cJ c1 s1 c2 s2 (qd k) (qd (k+1)) (qd (k+2))
  | .translationXYZ => SV.zero
  | .custom => (customCalc (m.custom (m.joint i).customIdx) k st qd).2.2
  | _ => old

/-- new custom-joint `S` array -/
def jcalcCS (m : ModelS α) (i : Nat) (st : QS α) (old : Nat → List (SV α)) : Nat → List (SV α) :=
  match (m.joint i).jt with
  | .custom =>
      upd old (m.joint i).customIdx
        (customCalc (m.custom (m.joint i).customIdx) (m.joint i).qIndex st zeroVec).2.1
  | _ => old

theorem customCalc_S (kind : CustomKind) (k : Nat) (st : QS α) (qd qd' : VecN α) :
    (customCalc kind k st qd).2.1 = (customCalc kind k st qd').2.1 := by
  cases kind <;> rfl

/-- everything `jcalc` does, as one structure update -/
theorem jcalc_eq (m : ModelS α) (w : WS α) (i : Nat) (st : QS α) (qd : VecN α) :
    jcalc m w i st qd =
      { w with X_lambda := upd w.X_lambda i (jcalcX m i st (w.X_lambda i))
               S := upd w.S i (jcalcS m i st (w.S i))
               S3 := upd w.S3 i (jcalcS3 m i st (w.S3 i))
               v_J := upd w.v_J i (jcalcVJ m i st qd (w.S i) (w.v_J i) (w.S3 i))
               c_J := upd w.c_J i (jcalcCJ m i st qd (w.c_J i))
               cS := jcalcCS m i st w.cS } := by
  unfold jcalc jcalcX jcalcS jcalcS3 jcalcVJ jcalcCJ jcalcCS helicalS
  dsimp only
  cases h : (m.joint i).jt <;>
    simp only [upd_self, customCalc_fst, customCalc_S _ _ _ qd zeroVec, h, jcalcS3]

/-- new `S[i]` written by `jcalc_X_lambda_S` -/
def xlsS (m : ModelS α) (i : Nat) (st : QS α) (old : SV α) : SV α :=
  match (m.joint i).jt with
  | .revoluteX => ⟨⟨1, old.w.y, old.w.z⟩, old.v⟩
  | .revoluteY => ⟨⟨old.w.x, 1, old.w.z⟩, old.v⟩
  | .revoluteZ => ⟨⟨old.w.x, old.w.y, 1⟩, old.v⟩
  | .helical => helicalS m i st
  | .revolute | .prismatic => (m.joint i).axes.headD SV.zero
  | _ => old

/-- everything `jcalc_X_lambda_S` does, as one structure update -/
theorem jcalcXlambdaS_eq (m : ModelS α) (w : WS α) (i : Nat) (st : QS α) :
    jcalcXlambdaS m w i st =
      { w with X_lambda := upd w.X_lambda i (jcalcX m i st (w.X_lambda i))
               S := upd w.S i (xlsS m i st (w.S i))
               S3 := upd w.S3 i (jcalcS3 m i st (w.S3 i))
               cS := jcalcCS m i st w.cS } := by
  have htr : ∀ (q : V3 α) (X : XT α),
      (⟨M3.one, q⟩ : XT α) * X = ⟨X.E, X.r + X.E.tmulVec q⟩ := by
    intro q X; alg_ext
  unfold jcalcXlambdaS jcalcX xlsS jcalcS3 jcalcCS helicalS
  dsimp only
  cases h : (m.joint i).jt <;>
    simp only [upd_self, customCalc_fst, h, htr] <;> rfl

/-! ## `WSFixed`: primitive steps -/

theorem fixedAt_jcalc (m : ModelS α) (i : Nat) (st : QS α) (qd : VecN α) (S vJ cJ : SV α)
    (S3 : M63 α)
    (h : FixedAt (m.joint i).jt ((m.joint i).axes.headD SV.zero) S vJ cJ S3) :
    FixedAt (m.joint i).jt ((m.joint i).axes.headD SV.zero) (jcalcS m i st S)
      (jcalcVJ m i st qd S vJ S3) (jcalcCJ m i st qd cJ) (jcalcS3 m i st S3) := by
  unfold jcalcS jcalcVJ jcalcCJ jcalcS3
  dsimp only
  cases hj : (m.joint i).jt <;> simp only [hj, FixedAt] at h ⊢ <;> try exact h

theorem fixedAt_xls (m : ModelS α) (i : Nat) (st : QS α) (S vJ cJ : SV α) (S3 : M63 α)
    (h : FixedAt (m.joint i).jt ((m.joint i).axes.headD SV.zero) S vJ cJ S3) :
    FixedAt (m.joint i).jt ((m.joint i).axes.headD SV.zero) (xlsS m i st S) vJ cJ
      (jcalcS3 m i st S3) := by
  unfold xlsS jcalcS3
  dsimp only
  cases hj : (m.joint i).jt <;> simp only [hj, FixedAt] at h ⊢ <;> try exact h
  all_goals (obtain ⟨rfl, h⟩ := h; first | exact ⟨rfl, h⟩ | exact ⟨trivial, h⟩)

/-- under the invariant `jcalc_X_lambda_S` leaves `S[i]` as it is -/
theorem xlsS_of_fixed (m : ModelS α) (i : Nat) (st : QS α) (S vJ cJ : SV α) (S3 : M63 α)
    (h : FixedAt (m.joint i).jt ((m.joint i).axes.headD SV.zero) S vJ cJ S3) :
    xlsS m i st S = jcalcS m i st S := by
  unfold xlsS jcalcS
  cases hj : (m.joint i).jt <;> simp only [hj, FixedAt] at h ⊢
  all_goals (obtain ⟨rfl, _⟩ := h; rfl)

/-- a workspace with the same `S`, `v_J`, `c_J`, `multdof3_S`, `X_base[0]` -/
theorem wsfixed_congr (m : ModelS α) {w w2 : WS α} (h : WSFixed m w) (hS : w2.S = w.S)
    (hv : w2.v_J = w.v_J) (hc : w2.c_J = w.c_J) (h3 : w2.S3 = w.S3)
    (hX : w2.X_base 0 = w.X_base 0) : WSFixed m w2 := by
  unfold WSFixed at *
  rw [hS, hv, hc, h3, hX]; exact h

theorem wsfixed_jcalc (m : ModelS α) (w : WS α) (i : Nat) (st : QS α) (qd : VecN α)
    (h : WSFixed m w) : WSFixed m (jcalc m w i st qd) := by
  rw [jcalc_eq]
  refine ⟨h.1, fun j h1 h2 => ?_⟩
  dsimp only
  by_cases hj : j = i
  · subst hj; simp only [upd_same]; exact fixedAt_jcalc m j st qd _ _ _ _ (h.2 j h1 h2)
  · simp only [upd_other _ _ _ _ hj]; exact h.2 j h1 h2

theorem wsfixed_jcalcXlambdaS (m : ModelS α) (w : WS α) (i : Nat) (st : QS α)
    (h : WSFixed m w) : WSFixed m (jcalcXlambdaS m w i st) := by
  rw [jcalcXlambdaS_eq]
  refine ⟨h.1, fun j h1 h2 => ?_⟩
  dsimp only
  by_cases hj : j = i
  · subst hj; simp only [upd_same]; exact fixedAt_xls m j st _ _ _ _ (h.2 j h1 h2)
  · simp only [upd_other _ _ _ _ hj]; exact h.2 j h1 h2

theorem upd_zero_of_pos {β : Type} (f : Nat → β) (i : Nat) (v : β) (hi : 1 ≤ i) :
    upd f i v 0 = f 0 := upd_other _ _ _ _ (by omega)

/-! ## construction and poisoning -/

/-- the axis stored with a fixed-axis revolute joint is the axis its type names (true for every
    joint made by `Joint.ofType` / `Joint.ofAxis`) -/
def AxesOK (m : ModelS α) : Prop :=
  ∀ i, 1 ≤ i → i < m.nBodies →
    ((m.joint i).jt = .revoluteX → (m.joint i).axes.headD SV.zero = sv6 1 0 0 0 0 0) ∧
    ((m.joint i).jt = .revoluteY → (m.joint i).axes.headD SV.zero = sv6 0 1 0 0 0 0) ∧
    ((m.joint i).jt = .revoluteZ → (m.joint i).axes.headD SV.zero = sv6 0 0 1 0 0 0)

theorem wsfixed_initWS (m : ModelS α) (hax : AxesOK m) : WSFixed m (initWS m) := by
  refine ⟨rfl, fun i h1 h2 => ?_⟩
  obtain ⟨hx, hy, hz⟩ := hax i h1 h2
  have hi : i ≠ 0 := by omega
  simp only [initWS, hi, if_false]
  cases hj : (m.joint i).jt <;> simp only [hj, FixedAt, forall_const, reduceCtorEq, false_implies] at hx hy hz ⊢
  all_goals first
    | exact ⟨trivial, trivial⟩ | exact ⟨trivial, rfl⟩ | rfl
    | (rw [hx]; exact ⟨rfl, rfl, rfl, rfl, trivial⟩)
    | (rw [hy]; exact ⟨rfl, rfl, rfl, rfl, trivial⟩)
    | (rw [hz]; exact ⟨rfl, rfl, rfl, rfl, trivial⟩)

theorem wsfixed_poison (m : ModelS α) (w : WS α) (seed : Nat) (h : WSFixed m w) :
    WSFixed m (poison m w seed) := by
  refine ⟨?_, fun i h1 h2 => ?_⟩
  · simp only [poison, Nat.lt_irrefl, false_and, if_false]; exact h.1
  · have hi : 0 < i ∧ i < m.nBodies := ⟨by omega, h2⟩
    have := h.2 i h1 h2
    simp only [poison, hi, and_self, if_true, poisonS, poisonVJ, poisonCJ, poisonS3]
    cases hj : (m.joint i).jt <;> simp only [hj, FixedAt] at this ⊢ <;> try exact this

end
end Rbdl.L13
