import RbdlProofs.Lemmas.L13CSRel
/-
  C13 for the constraint-set routines, part 3: the kinematic routines, the per-constraint routines
  and the three set-level routines (`calcConstraintsJacobian`, `calcConstraintsPositionError`,
  `calcConstraintsVelocityError`) started with any two flags from two admissible workspaces
  (`Rel` / `RelV`) return the same results.
-/
namespace Rbdl.L13CS
open Lean.Grind Rbdl Rbdl.Loops Rbdl.L12 Rbdl.L13 Rbdl.L09
set_option linter.unusedSimpArgs false
set_option linter.unusedVariables false
set_option linter.unusedSectionVars false
set_option linter.constructorNameAsVariable false

section
variable {α : Type} [Field α]

/-- the set of agreeing entries contains what the Jacobian fill reads -/
def JacDom (m : ModelS α) (D : Dom) : Prop :=
  ∀ j, 1 ≤ j → j < m.nBodies → D .X_base j ∧ D .S j ∧ D .S3 j ∧ D .cS j

/-- ... and `X_base` of all bodies -/
def XbDom (m : ModelS α) (D : Dom) : Prop := ∀ j, j < m.nBodies → D .X_base j

theorem Dk_jac (m : ModelS α) (hok : AllJointOK m) : JacDom m (Dk m) := by
  intro j h1 h2
  have hk := (hok j h1 h2).2
  exact ⟨by dom, by domw [hk], by domw [hk], by domw [hk]⟩

theorem Dk_xb (m : ModelS α) : XbDom m (Dk m) := by
  intro j hj; dom

theorem XbDom.id {m : ModelS α} {D : Dom} (h : XbDom m D) {id : Nat} (hid : IdOK m id) :
    D .X_base (xbIdx m id) := by rw [hid.xb]; exact h _ hid.1

theorem XbDom.ref {m : ModelS α} {D : Dom} (h : XbDom m D) {id : Nat} (hid : IdOK m id) :
    D .X_base (xbIdx m (m.refBody id)) := by rw [xbIdx_ref hid]; exact h _ hid.1

/-! ## the routines without update, from agreeing workspaces -/

/-- `CalcPointJacobian` from an updated workspace -/
def pj0 (m : ModelS α) (w : WS α) (id : Nat) (p : V3 α) (G : MatN α) : MatN α :=
  jacFill m w ⟨M3.one, bodyToBase0 m w id p⟩ (m.refBody id) (fun x => V3.toList x.v) G

/-- `CalcPointJacobian6D` from an updated workspace -/
def pj60 (m : ModelS α) (w : WS α) (id : Nat) (p : V3 α) (G : MatN α) : MatN α :=
  jacFill m w ⟨M3.one, bodyToBase0 m w id p⟩ (m.refBody id) SV.toList G

theorem pj_pair (m : ModelS α) (w : WS α) (st : QS α) (id : Nat) (p : V3 α) (G : MatN α) (u : Bool) :
    calcPointJacobian m w st id p G u = (updQ m w st u, pj0 m (updQ m w st u) id p G) := rfl

theorem pj6_pair (m : ModelS α) (w : WS α) (st : QS α) (id : Nat) (p : V3 α) (G : MatN α)
    (u : Bool) :
    calcPointJacobian6D m w st id p G u = (updQ m w st u, pj60 m (updQ m w st u) id p G) := rfl

theorem _root_.Rbdl.L13.Agree.pj0 {m : ModelS α} {D : Dom} {s t : WS α} (h : Agree m D s t)
    (htree : TreeOrder m) (hJ : JacDom m D) (hX : XbDom m D) (id : Nat) (hid : IdOK m id)
    (p : V3 α) (G : MatN α) : pj0 m s id p G = pj0 m t id p G := by
  unfold L13CS.pj0
  rw [h.bodyToBase0 id p (hX.id hid)]
  exact h.jacFill htree hJ _ _ _ _ hid.1

theorem _root_.Rbdl.L13.Agree.pj60 {m : ModelS α} {D : Dom} {s t : WS α} (h : Agree m D s t)
    (htree : TreeOrder m) (hJ : JacDom m D) (hX : XbDom m D) (id : Nat) (hid : IdOK m id)
    (p : V3 α) (G : MatN α) : pj60 m s id p G = pj60 m t id p G := by
  unfold L13CS.pj60
  rw [h.bodyToBase0 id p (hX.id hid)]
  exact h.jacFill htree hJ _ _ _ _ hid.1

/-! ## position level, any two flags -/

section pos
variable (m : ModelS α) (st : QS α) (htree : TreeOrder m) (hok : AllJointOK m) (T : WS α)
  {u u' : Bool} {s s' : WS α} (hs : Rel m st T u s) (hs' : Rel m st T u' s')
include htree hok hs hs'

theorem pj_rel (id : Nat) (hid : IdOK m id) (p : V3 α) (G : MatN α) :
    (calcPointJacobian m s st id p G u).2 = (calcPointJacobian m s' st id p G u').2 := by
  rw [pj_pair, pj_pair]
  exact (rel_agree m st htree hok.jcalc T hs hs').pj0 htree (Dk_jac m hok) (Dk_xb m) id hid p G

theorem pj6_rel (id : Nat) (hid : IdOK m id) (p : V3 α) (G : MatN α) :
    (calcPointJacobian6D m s st id p G u).2 = (calcPointJacobian6D m s' st id p G u').2 := by
  rw [pj6_pair, pj6_pair]
  exact (rel_agree m st htree hok.jcalc T hs hs').pj60 htree (Dk_jac m hok) (Dk_xb m) id hid p G

theorem b2b_rel (id : Nat) (hid : IdOK m id) (p : V3 α) :
    bodyToBase0 m (updQ m s st u) id p = bodyToBase0 m (updQ m s' st u') id p :=
  (rel_agree m st htree hok.jcalc T hs hs').bodyToBase0 id p ((Dk_xb m).id hid)

theorem wo_rel (id : Nat) (hid : IdOK m id) :
    (worldOrientation0 m (updQ m s st u) id).2 = (worldOrientation0 m (updQ m s' st u') id).2 :=
  ((rel_agree m st htree hok.jcalc T hs hs').worldOrientation0 id ((Dk_xb m).id hid)).2

theorem rel_updQ : Rel m st T u (updQ m s st u) := hs.post (post_updQ m st u s hs.fix)

theorem loopFrame_rel (b : Nat) (hb : IdOK m b) (Xf : XT α) :
    (loopFrame m s st b Xf u).2 = (loopFrame m s' st b Xf u').2 ∧
    Post m u s (loopFrame m s st b Xf u).1 ∧ Post m u' s' (loopFrame m s' st b Xf u').1 := by
  have h1 := rel_updQ m st htree hok T hs hs'
  have h1' := rel_updQ m st htree hok T hs' hs
  have e1 := b2b_rel m st htree hok T hs hs' b hb Xf.r
  have e2 := wo_rel m st htree hok T h1 h1' b hb
  rw [loopFrame_pair, loopFrame_pair]
  dsimp only
  refine ⟨by rw [e1, e2], ?_, ?_⟩
  · exact ((post_updQ m st u s hs.fix).trans (post_updQ m st u _ h1.fix)).wo b
  · exact ((post_updQ m st u' s' hs'.fix).trans (post_updQ m st u' _ h1'.fix)).wo b

theorem jacobian_rel (c : Constr α) (hc : ConstrOK m c) (G : MatN α) :
    (c.jacobian m s st G u).2 = (c.jacobian m s' st G u').2 ∧
    Post m u s (c.jacobian m s st G u).1 ∧ Post m u' s' (c.jacobian m s' st G u').1 := by
  cases hct : c.ctype with
  | contact =>
    rw [jacobian_contact c hct, jacobian_contact c hct]
    dsimp only
    rw [pj_rel m st htree hok T hs hs' c.bodyP hc.1 c.XP.r _]
    exact ⟨rfl, post_updQ m st u s hs.fix, post_updQ m st u' s' hs'.fix⟩
  | loop =>
    have h1 := rel_updQ m st htree hok T hs hs'
    have h1' := rel_updQ m st htree hok T hs' hs
    have h2 := rel_updQ m st htree hok T h1 h1'
    have h2' := rel_updQ m st htree hok T h1' h1
    obtain ⟨eF, pF, pF'⟩ := loopFrame_rel m st htree hok T h2 h2' c.bodyP hc.1 c.XP
    rw [jacobian_loop c hct, jacobian_loop c hct]
    dsimp only
    rw [eF, pj6_rel m st htree hok T hs hs' c.bodyP hc.1 c.XP.r _,
      pj6_rel m st htree hok T h1 h1' c.bodyS (hc.2 hct) c.XS.r _]
    exact ⟨rfl, ((post_updQ m st u s hs.fix).trans (post_updQ m st u _ h1.fix)).trans pF,
      ((post_updQ m st u' s' hs'.fix).trans (post_updQ m st u' _ h1'.fix)).trans pF'⟩

theorem positionError_rel (c : Constr α) (hc : ConstrOK m c) (err : VecN α) :
    (c.positionError m s st err u).2 = (c.positionError m s' st err u').2 ∧
    Post m u s (c.positionError m s st err u).1 ∧
    Post m u' s' (c.positionError m s' st err u').1 := by
  cases hct : c.ctype with
  | contact =>
    rw [positionError_contact c hct, positionError_contact c hct]
    dsimp only
    rw [b2b_rel m st htree hok T hs hs' c.bodyP hc.1 c.XP.r]
    exact ⟨rfl, post_updQ m st u s hs.fix, post_updQ m st u' s' hs'.fix⟩
  | loop =>
    obtain ⟨eA, pA, pA'⟩ := loopFrame_rel m st htree hok T hs hs' c.bodyP hc.1 c.XP
    obtain ⟨eB, pB, pB'⟩ := loopFrame_rel m st htree hok T (hs.post pA) (hs'.post pA') c.bodyS
      (hc.2 hct) c.XS
    rw [positionError_loop c hct, positionError_loop c hct]
    dsimp only
    rw [eA, eB]
    exact ⟨rfl, pA.trans pB, pA'.trans pB'⟩

end pos

/-- a fold over the constraints from two admissible workspaces with equal accumulators -/
theorem foldl_rel {β : Type} (m : ModelS α) (u u' : Bool) (w w' : WS α)
    (f g : WS α × β → Constr α → WS α × β) (l : List (Constr α))
    (hstep : ∀ (a b : WS α × β) c, c ∈ l → Post m u w a.1 → Post m u' w' b.1 → a.2 = b.2 →
      (f a c).2 = (g b c).2 ∧ Post m u a.1 (f a c).1 ∧ Post m u' b.1 (g b c).1)
    (a b : WS α × β) (ha : Post m u w a.1) (hb : Post m u' w' b.1) (hab : a.2 = b.2) :
    (l.foldl f a).2 = (l.foldl g b).2 ∧ Post m u w (l.foldl f a).1 ∧ Post m u' w' (l.foldl g b).1 := by
  have := foldl_sim (fun (a b : WS α × β) => Post m u w a.1 ∧ Post m u' w' b.1 ∧ a.2 = b.2) f g l
    (fun a b c hc ⟨h1, h2, h3⟩ => by
      obtain ⟨e, p, p'⟩ := hstep a b c hc h1 h2 h3
      exact ⟨h1.trans p, h2.trans p', e⟩) a b ⟨ha, hb, hab⟩
  exact ⟨this.2.2, this.1, this.2.1⟩

section setpos
variable (m : ModelS α) (st : QS α) (htree : TreeOrder m) (hok : AllJointOK m) (C : CSet α)
  (hC : IdsOK m C) (T : WS α) {u u' : Bool} {w w' : WS α} (hs : Rel m st T u w)
  (hs' : Rel m st T u' w')
include htree hok hC hs hs'

/-- **`CalcConstraintsJacobian`** -/
theorem cj_rel (G : MatN α) :
    (calcConstraintsJacobian m w st C G u).2 = (calcConstraintsJacobian m w' st C G u').2 ∧
    Post m u w (calcConstraintsJacobian m w st C G u).1 ∧
    Post m u' w' (calcConstraintsJacobian m w' st C G u').1 := by
  unfold calcConstraintsJacobian
  exact foldl_rel m u u' w w' _ _ C.cs
    (fun a b c hc ha hb hab => by
      have := jacobian_rel m st htree hok T (hs.post ha) (hs'.post hb) c (hC c hc) a.2
      rw [← hab]
      exact this)
    _ _ (post_updQ m st u w hs.fix) (post_updQ m st u' w' hs'.fix) rfl

/-- **`CalcConstraintsPositionError`** -/
theorem cp_rel (err : VecN α) :
    (calcConstraintsPositionError m w st C err u).2
      = (calcConstraintsPositionError m w' st C err u').2 ∧
    Post m u w (calcConstraintsPositionError m w st C err u).1 ∧
    Post m u' w' (calcConstraintsPositionError m w' st C err u').1 := by
  unfold calcConstraintsPositionError
  exact foldl_rel m u u' w w' _ _ C.cs
    (fun a b c hc ha hb hab => by
      have := positionError_rel m st htree hok T (hs.post ha) (hs'.post hb) c (hC c hc) a.2
      rw [← hab]
      exact this)
    _ _ (post_updQ m st u w hs.fix) (post_updQ m st u' w' hs'.fix) rfl

end setpos

/-! ## velocity level -/

/-- the workspace `CalcPointVelocity6D` reads: `v[0] = 0`, then the optional update -/
def Vst (m : ModelS α) (st : QS α) (qd : VecN α) (u : Bool) (s : WS α) : WS α :=
  if u then updateKinematicsCustom m (zV s) (some st) (some qd) none else zV s

theorem Vst_true (m : ModelS α) (st : QS α) (qd : VecN α) (s : WS α) :
    Vst m st qd true s = updateKinematicsCustom m (zV s) (some st) (some qd) none := rfl
theorem Vst_false (m : ModelS α) (st : QS α) (qd : VecN α) (s : WS α) :
    Vst m st qd false s = zV s := rfl

theorem pv6_pair (m : ModelS α) (w : WS α) (st : QS α) (qd : VecN α) (id : Nat) (p : V3 α)
    (u : Bool) :
    calcPointVelocity6D m w st qd id p u =
      ((worldOrientation0 m (Vst m st qd u w) (refPoint m (Vst m st qd u w) id p).1).1,
        pvOut m (Vst m st qd u w) id p) := by
  cases u <;> rfl

theorem ukcqv_sim (m : ModelS α) (st : QS α) (qd : VecN α) (htree : TreeOrder m) (hjc : AllJcalc m)
    (a b : WS α) (ha : WSFixed m a) (hb : WSFixed m b) :
    Agree m (Dkv m) (updateKinematicsCustom m a (some st) (some qd) none)
      (updateKinematicsCustom m b (some st) (some qd) none) :=
  (ukc_qv_sim m st qd htree hjc (Dom.at [.X_base] 0) a b ((Agree.init ha hb).mono (by dom))).mono
    (by dom)

theorem goodRefV_ukc (m : ModelS α) (st : QS α) (qd : VecN α) (htree : TreeOrder m)
    (hjc : AllJcalc m) (w : WS α) (hw : WSFixed m w) :
    GoodRefV m st qd (updateKinematicsCustom m w (some st) (some qd) none) :=
  fun w' hw' => ukcqv_sim m st qd htree hjc w w' hw hw'

theorem agree_zV {m : ModelS α} {a b : WS α} (h : Agree m (Dkv m) a b) :
    Agree m (Dkv m ∪ Dom.at [.v] 0) (zV a) (zV b) :=
  h.set_v 0 rfl (by dom)

theorem relV_agree (m : ModelS α) (st : QS α) (qd : VecN α) (htree : TreeOrder m)
    (hjc : AllJcalc m) (T : WS α) {u u' : Bool} {s s' : WS α} (h : RelV m st qd T u s)
    (h' : RelV m st qd T u' s') :
    Agree m (Dkv m ∪ Dom.at [.v] 0) (Vst m st qd u s) (Vst m st qd u' s') := by
  cases u <;> cases u'
  · exact agree_zV ((h.2 rfl).trans' (h'.2 rfl).symm)
  · rw [Vst_true, Vst_false, ukc_qv_zV]
    exact agree_zV ((h.2 rfl).trans' ((h'.1 rfl).2 s' (h'.1 rfl).1))
  · rw [Vst_true, Vst_false, ukc_qv_zV]
    exact agree_zV ((((h.1 rfl).2 s (h.1 rfl).1).symm).trans' (h'.2 rfl).symm)
  · rw [Vst_true, Vst_true, ukc_qv_zV, ukc_qv_zV]
    exact agree_zV (ukcqv_sim m st qd htree hjc s s' (h.1 rfl).1 (h'.1 rfl).1)

theorem post_pv6 (m : ModelS α) (s : WS α) (st : QS α) (qd : VecN α) (id : Nat) (p : V3 α)
    (u : Bool) (hs : WSFixed m s) : Post m u s (calcPointVelocity6D m s st qd id p u).1 := by
  refine ⟨fun _ => wsfixed_calcPointVelocity6D m s st qd id p u hs, fun e => ?_⟩
  subst e
  rw [pv6_pair]
  exact (junk_wo m _ _).trans (junk_v0 m s SV.zero)

section vel
variable (m : ModelS α) (st : QS α) (qd : VecN α) (htree : TreeOrder m) (hok : AllJointOK m)
  (T : WS α) {u u' : Bool} {s s' : WS α} (hs : RelV m st qd T u s) (hs' : RelV m st qd T u' s')
include htree hok hs hs'

theorem pv6_rel (id : Nat) (hid : IdOK m id) (p : V3 α) :
    (calcPointVelocity6D m s st qd id p u).2 = (calcPointVelocity6D m s' st qd id p u').2 := by
  rw [pv6_pair, pv6_pair]
  have := hid.1
  exact (relV_agree m st qd htree hok.jcalc T hs hs').pvOut id p hid (by dom) (by dom)

theorem velocityError_rel (c : Constr α) (hc : ConstrOK m c) (G : MatN α) (errd : VecN α) :
    (c.velocityError m s st qd G errd u).2 = (c.velocityError m s' st qd G errd u').2 ∧
    Post m u s (c.velocityError m s st qd G errd u).1 ∧
    Post m u' s' (c.velocityError m s' st qd G errd u').1 := by
  cases hct : c.ctype with
  | contact =>
    rw [velocityError_contact c hct, velocityError_contact c hct]
    dsimp only
    have e : (calcPointVelocity m s st qd c.bodyP c.XP.r u).2
        = (calcPointVelocity m s' st qd c.bodyP c.XP.r u').2 :=
      congrArg SV.v (pv6_rel m st qd htree hok T hs hs' c.bodyP hc.1 c.XP.r)
    rw [e]
    exact ⟨rfl, post_pv6 m s st qd _ _ u hs.fix, post_pv6 m s' st qd _ _ u' hs'.fix⟩
  | loop =>
    rw [velocityError_loop c hct, velocityError_loop c hct]
    exact ⟨rfl, Post.rfl' m u s hs.fix, Post.rfl' m u' s' hs'.fix⟩

end vel

/-- **`CalcConstraintsVelocityError`** -/
theorem cv_rel (m : ModelS α) (st : QS α) (qd : VecN α) (htree : TreeOrder m) (hok : AllJointOK m)
    (C : CSet α) (hC : IdsOK m C) (T : WS α) {u u' : Bool} {w w' : WS α}
    (hs : RelV m st qd T u w) (hs' : RelV m st qd T u' w') (G : MatN α) (errd : VecN α) :
    (calcConstraintsVelocityError m w st qd C G errd u).2
      = (calcConstraintsVelocityError m w' st qd C G errd u').2 ∧
    Post m u w (calcConstraintsVelocityError m w st qd C G errd u).1 ∧
    Post m u' w' (calcConstraintsVelocityError m w' st qd C G errd u').1 := by
  obtain ⟨eG, pJ, pJ'⟩ := cj_rel m st htree hok C hC T hs.rel hs'.rel G
  rw [velocityError_pair, velocityError_pair]
  dsimp only
  rw [← eG]
  obtain ⟨e, p, p'⟩ := foldl_rel m u u' w w'
    (fun (a : WS α × VecN α) c =>
      c.velocityError m a.1 st qd (calcConstraintsJacobian m w st C G u).2 a.2 u)
    (fun (a : WS α × VecN α) c =>
      c.velocityError m a.1 st qd (calcConstraintsJacobian m w st C G u).2 a.2 u') C.cs
    (fun a b c hc ha hb hab => by
      have := velocityError_rel m st qd htree hok T (hs.post ha) (hs'.post hb) c (hC c hc)
        (calcConstraintsJacobian m w st C G u).2 a.2
      rw [← hab]
      exact this)
    ((calcConstraintsJacobian m w st C G u).1, errd)
    ((calcConstraintsJacobian m w' st C G u').1, errd) pJ pJ' rfl
  exact ⟨by rw [e], p, p'⟩

/-! ## admissible pairs used by the property theorems -/

/-- two reachable workspaces are admissible for `update = true` (reference: the update of the first) -/
theorem rel_tt (m : ModelS α) (htree : TreeOrder m) (hok : AllJointOK m) {w w' : WS α}
    (hw : WSFixed m w) (hw' : WSFixed m w') (st : QS α) :
    Rel m st (updQ m w st true) true w ∧ Rel m st (updQ m w st true) true w' :=
  ⟨⟨fun _ => ⟨hw, goodRef_updQ m st htree hok.jcalc w hw⟩, fun e => (by cases e)⟩,
    ⟨fun _ => ⟨hw', goodRef_updQ m st htree hok.jcalc w hw⟩, fun e => (by cases e)⟩⟩

theorem relV_tt (m : ModelS α) (htree : TreeOrder m) (hok : AllJointOK m) {w w' : WS α}
    (hw : WSFixed m w) (hw' : WSFixed m w') (st : QS α) (qd : VecN α) :
    RelV m st qd (updateKinematicsCustom m w (some st) (some qd) none) true w ∧
    RelV m st qd (updateKinematicsCustom m w (some st) (some qd) none) true w' :=
  ⟨⟨fun _ => ⟨hw, goodRefV_ukc m st qd htree hok.jcalc w hw⟩, fun e => (by cases e)⟩,
    ⟨fun _ => ⟨hw', goodRefV_ukc m st qd htree hok.jcalc w hw⟩, fun e => (by cases e)⟩⟩

/-- `W` holds the position-level entries of the update of a reachable workspace `w0`: admissible for
    `update = false`, together with any reachable `w` for `update = true` -/
theorem rel_ft (m : ModelS α) (htree : TreeOrder m) (hok : AllJointOK m) (st : QS α)
    {W w0 w : WS α} (hw0 : WSFixed m w0) (hw : WSFixed m w)
    (hW : Agree m (Dk m) W (updateKinematicsCustom m w0 (some st) none none)) :
    Rel m st (updQ m w0 st true) false W ∧ Rel m st (updQ m w0 st true) true w :=
  ⟨⟨fun e => (by cases e), fun _ => hW⟩,
    ⟨fun _ => ⟨hw, goodRef_updQ m st htree hok.jcalc w0 hw0⟩, fun e => (by cases e)⟩⟩

end
end Rbdl.L13CS
