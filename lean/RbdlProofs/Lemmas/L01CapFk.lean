import RbdlProofs.Lemmas.L01CapKin
/-
  C01 capstone, specification side (lists and folds of `Rbdl/Spec/Mech.lean`).

  * `fkTable_spec`       the table built by `Spec.fkTable` satisfies the forward-kinematics recursion
                         `T 0 = id`, `T i = T (parent i) ∘ frame_i ∘ joint_i` (parents precede children);
  * `coordJets_q_*`      which entries of the coordinate jets a spherical node rewrites;
  * `jointPose_congr`    a joint pose reads only its own coordinates;
  * `foldl_eq_lsum`      a left fold that adds one term per list element is a sum over the indices.
-/
namespace Rbdl.L01Cap
open Lean.Grind Rbdl Rbdl.Spec Rbdl.L06 Rbdl.L01 Rbdl.Loops
set_option linter.unusedSimpArgs false
set_option linter.unusedVariables false
set_option linter.unusedSectionVars false

/-! ### forward-kinematics table -/
section Fk
variable {α β : Type} [CommRing β]

/-- pose of a node's frame relative to its parent node -/
def relPose (lift : α → β) (cs : Coords β) (nd : SNode α) : Pose β :=
  (framePose lift nd.E nd.r).comp (jointPose lift nd.joint nd.qIdx nd.wIdx cs)

/-- the step of the fold in `Spec.fkTable` -/
def fkStep (lift : α → β) (cs : Coords β) (tab : List (Pose β)) (nd : SNode α) : List (Pose β) :=
  if tab.isEmpty then [Pose.id]
  else tab ++ [(tab.getD nd.parent Pose.id).comp (relPose lift cs nd)]

theorem fkTable_eq_foldl (lift : α → β) (M : SModel α) (cs : Coords β) :
    fkTable lift M cs = M.nodes.foldl (fkStep lift cs) [] := rfl

theorem fkStep_nonempty (lift : α → β) (cs : Coords β) (tab : List (Pose β)) (nd : SNode α)
    (ht : tab ≠ []) :
    fkStep lift cs tab nd = tab ++ [(tab.getD nd.parent Pose.id).comp (relPose lift cs nd)] := by
  unfold fkStep
  cases tab with
  | nil => exact absurd rfl ht
  | cons a t => rfl

theorem fk_fold (lift : α → β) (cs : Coords β) (nodes : List (SNode α)) :
    ∀ (tab : List (Pose β)), tab ≠ [] →
      (nodes.foldl (fkStep lift cs) tab).length = tab.length + nodes.length ∧
      (∀ i, i < tab.length → (nodes.foldl (fkStep lift cs) tab)[i]? = tab[i]?) ∧
      (∀ j nd, nodes[j]? = some nd → nd.parent < tab.length + j →
        (nodes.foldl (fkStep lift cs) tab)[tab.length + j]?
          = some (((nodes.foldl (fkStep lift cs) tab).getD nd.parent Pose.id).comp
              (relPose lift cs nd))) := by
  induction nodes with
  | nil =>
    intro tab ht
    refine ⟨rfl, fun i _ => rfl, fun j nd h => ?_⟩
    simp at h
  | cons n0 rest ih =>
    intro tab ht
    rw [List.foldl_cons, fkStep_nonempty lift cs tab n0 ht]
    have hne : tab ++ [(tab.getD n0.parent Pose.id).comp (relPose lift cs n0)] ≠ [] := by simp
    obtain ⟨h1, h2, h3⟩ := ih _ hne
    rw [List.length_append, List.length_singleton] at h1 h2 h3
    refine ⟨?_, ?_, ?_⟩
    · rw [h1, List.length_cons]; omega
    · intro i hi
      rw [h2 i (by omega), List.getElem?_append_left hi]
    · intro j nd hj hp
      cases j with
      | zero =>
        simp only [List.getElem?_cons_zero, Option.some.injEq] at hj
        subst hj
        rw [Nat.add_zero] at hp ⊢
        have hpar : (List.foldl (fkStep lift cs)
              (tab ++ [(tab.getD n0.parent Pose.id).comp (relPose lift cs n0)]) rest).getD
              n0.parent Pose.id = tab.getD n0.parent Pose.id := by
          rw [List.getD_eq_getElem?_getD, h2 n0.parent (by omega), List.getElem?_append_left hp,
            ← List.getD_eq_getElem?_getD]
        rw [h2 tab.length (by omega), List.getElem?_append_right (Nat.le_refl _), Nat.sub_self,
          List.getElem?_cons_zero, hpar]
      | succ j =>
        rw [List.getElem?_cons_succ] at hj
        have := h3 j nd hj (by omega)
        have e : tab.length + (j + 1) = tab.length + 1 + j := by omega
        rw [e]
        exact this

/-- **`Spec.fkTable` satisfies the forward-kinematics recursion** -/
theorem fkTable_spec (lift : α → β) (M : SModel α) (cs : Coords β) (hne : M.nodes ≠ []) :
    (fkTable lift M cs).length = M.nodes.length ∧
    (fkTable lift M cs).getD 0 Pose.id = Pose.id ∧
    (∀ i nd, 1 ≤ i → M.nodes[i]? = some nd → nd.parent < i →
      (fkTable lift M cs).getD i Pose.id
        = ((fkTable lift M cs).getD nd.parent Pose.id).comp (relPose lift cs nd)) := by
  rw [fkTable_eq_foldl]
  cases hM : M.nodes with
  | nil => exact absurd hM hne
  | cons n0 rest =>
    rw [List.foldl_cons]
    have e0 : fkStep lift cs [] n0 = [Pose.id] := rfl
    rw [e0]
    obtain ⟨h1, h2, h3⟩ := fk_fold lift cs rest [Pose.id] (by simp)
    rw [List.length_singleton] at h1 h2 h3
    refine ⟨?_, ?_, ?_⟩
    · rw [h1, List.length_cons]; omega
    · rw [List.getD_eq_getElem?_getD, h2 0 (by omega)]; rfl
    · intro i nd hi hnd hp
      obtain ⟨j, rfl⟩ : ∃ j, i = j + 1 := ⟨i - 1, by omega⟩
      rw [List.getElem?_cons_succ] at hnd
      have := h3 j nd hnd (by omega)
      have e : 1 + j = j + 1 := by omega
      rw [e] at this
      rw [List.getD_eq_getElem?_getD, this]
      rfl

end Fk

/-! ### coordinate jets -/
section Jets
variable {α : Type} [Field α]

theorem coordJets_eq_foldl (M : SModel α) (st : State α) :
    coordJets M st = M.nodes.foldl (jetStep st) (baseJets st) := rfl

/-- node `nd` rewrites entry `n` of the coordinate jets -/
def touches (nd : SNode α) (n : Nat) : Prop :=
  isQuatNode nd = true ∧ (n = nd.qIdx ∨ n = nd.qIdx + 1 ∨ n = nd.qIdx + 2 ∨ n = nd.wIdx)

theorem jetStep_c (st : State α) (cs : Coords (D2 α)) (nd : SNode α) :
    (jetStep st cs nd).c = cs.c := by
  unfold jetStep; split <;> rfl

theorem jetStep_s (st : State α) (cs : Coords (D2 α)) (nd : SNode α) :
    (jetStep st cs nd).s = cs.s := by
  unfold jetStep; split <;> rfl

theorem jetStep_q_untouched (st : State α) (cs : Coords (D2 α)) (nd : SNode α) (n : Nat)
    (h : ¬ touches nd n) : (jetStep st cs nd).q n = cs.q n := by
  unfold jetStep
  by_cases hq : isQuatNode nd = true
  · have hn : ¬ (n = nd.qIdx ∨ n = nd.qIdx + 1 ∨ n = nd.qIdx + 2 ∨ n = nd.wIdx) :=
      fun h' => h ⟨hq, h'⟩
    simp only [hq, if_true]
    rw [if_neg (fun e => hn (Or.inl e)), if_neg (fun e => hn (Or.inr (Or.inl e))),
      if_neg (fun e => hn (Or.inr (Or.inr (Or.inl e)))),
      if_neg (fun e => hn (Or.inr (Or.inr (Or.inr e))))]
  · simp only [hq, if_false, Bool.false_eq_true]

/-- on the entries it rewrites, the result does not depend on the incoming record, and it reads
    only the joint kind and the two indices of the node -/
theorem jetStep_q_touched (st : State α) (cs cs' : Coords (D2 α)) (nd nd' : SNode α) (n : Nat)
    (h : touches nd n) (hq : isQuatNode nd' = true) (hk : nd'.qIdx = nd.qIdx)
    (hw : nd'.wIdx = nd.wIdx) : (jetStep st cs nd).q n = (jetStep st cs' nd').q n := by
  unfold jetStep
  obtain ⟨hq0, hn⟩ := h
  simp only [hq0, hq, if_true, hk, hw]
  by_cases h0 : n = nd.qIdx
  · simp only [h0, if_true]
  · by_cases h1 : n = nd.qIdx + 1
    · simp only [h0, h1, if_true, if_false]
    · by_cases h2 : n = nd.qIdx + 2
      · simp only [h0, h1, h2, if_true, if_false]
      · have h3 : n = nd.wIdx := by
          rcases hn with e | e | e | e
          · exact absurd e h0
          · exact absurd e h1
          · exact absurd e h2
          · exact e
        simp only [h0, h1, h2, h3, if_true, if_false]

theorem foldJets_c (st : State α) (l : List (SNode α)) (cs : Coords (D2 α)) :
    (l.foldl (jetStep st) cs).c = cs.c := by
  induction l generalizing cs with
  | nil => rfl
  | cons a l ih => rw [List.foldl_cons, ih, jetStep_c]

theorem foldJets_s (st : State α) (l : List (SNode α)) (cs : Coords (D2 α)) :
    (l.foldl (jetStep st) cs).s = cs.s := by
  induction l generalizing cs with
  | nil => rfl
  | cons a l ih => rw [List.foldl_cons, ih, jetStep_s]

theorem foldJets_q_untouched (st : State α) (l : List (SNode α)) (cs : Coords (D2 α)) (n : Nat)
    (h : ∀ nd ∈ l, ¬ touches nd n) : (l.foldl (jetStep st) cs).q n = cs.q n := by
  induction l generalizing cs with
  | nil => rfl
  | cons a l ih =>
    rw [List.foldl_cons, ih _ (fun nd hnd => h nd (List.mem_cons_of_mem _ hnd)),
      jetStep_q_untouched st cs a n (h a (List.mem_cons_self ..))]

/-- the last node that rewrites entry `n` determines it -/
theorem foldJets_q_last (st : State α) (l1 l2 : List (SNode α)) (nd : SNode α)
    (cs cs' : Coords (D2 α)) (n : Nat) (h : touches nd n) (h2 : ∀ nd' ∈ l2, ¬ touches nd' n) :
    ((l1 ++ nd :: l2).foldl (jetStep st) cs).q n = (jetStep st cs' nd).q n := by
  rw [List.foldl_append, List.foldl_cons, foldJets_q_untouched st l2 _ n h2]
  exact jetStep_q_touched st _ cs' nd nd n h h.1 rfl rfl

/-- the entries of `q` a joint pose reads -/
def readsQ (j : SJoint α) (k wk n : Nat) : Prop :=
  match j with
  | .prismatic _ | .helical _ _ => n = k
  | .spherical => n = k ∨ n = k + 1 ∨ n = k + 2 ∨ n = wk
  | .translationXYZ => n = k ∨ n = k + 1 ∨ n = k + 2
  | .cylZ => n = k + 1
  | _ => False

theorem jointPose_congr {β : Type} [CommRing β] (lift : α → β) (j : SJoint α) (k wk : Nat)
    (cs cs' : Coords β) (hc : cs.c = cs'.c) (hs : cs.s = cs'.s)
    (hq : ∀ n, readsQ j k wk n → cs.q n = cs'.q n) :
    jointPose lift j k wk cs = jointPose lift j k wk cs' := by
  cases j with
  | euler o => cases o <;> simp only [jointPose, hc, hs]
  | fixed => rfl
  | revolute a => simp only [jointPose, hc, hs]
  | prismatic a => simp only [jointPose, hq k rfl]
  | helical a b => simp only [jointPose, hc, hs, hq k rfl]
  | spherical =>
    simp only [jointPose, hq k (Or.inl rfl), hq (k + 1) (Or.inr (Or.inl rfl)),
      hq (k + 2) (Or.inr (Or.inr (Or.inl rfl))), hq wk (Or.inr (Or.inr (Or.inr rfl)))]
  | translationXYZ =>
    simp only [jointPose, hq k (Or.inl rfl), hq (k + 1) (Or.inr (Or.inl rfl)),
      hq (k + 2) (Or.inr (Or.inr rfl))]
  | cylZ => simp only [jointPose, hc, hs, hq (k + 1) rfl]

/-- only a spherical joint reads the quaternion index -/
theorem jointPose_wk {β : Type} [CommRing β] (lift : α → β) (j : SJoint α) (k wk wk' : Nat)
    (cs : Coords β) (h : (match j with | .spherical => False | _ => True)) :
    jointPose lift j k wk cs = jointPose lift j k wk' cs := by
  cases j <;> first | rfl | exact absurd h id

end Jets

/-! ### folds that add one term per element -/
section Sums
variable {α : Type} [Field α] {γ : Type}

theorem foldl_eq_lsum_aux (t : γ → α) (g : α → γ → α) (hg : ∀ a x, g a x = a + t x) (d : γ)
    (L : List γ) : ∀ (s : Nat) (a : α),
      L.foldl g a = a + lsum 0 (fun i => t (L.getD (i - s) d)) (List.range' s L.length) := by
  induction L with
  | nil => intro s a; simp only [List.foldl_nil, List.length_nil, List.range'_zero, lsum]; grind
  | cons x L ih =>
    intro s a
    rw [List.foldl_cons, hg, ih (s + 1), List.length_cons, List.range'_succ, lsum, Nat.sub_self,
      List.getD_cons_zero]
    have e : lsum 0 (fun i => t ((x :: L).getD (i - s) d)) (List.range' (s + 1) L.length)
        = lsum 0 (fun i => t (L.getD (i - (s + 1)) d)) (List.range' (s + 1) L.length) := by
      refine lsum_congr _ _ _ (fun c hc => ?_)
      rw [List.mem_range'_1] at hc
      have : c - s = (c - (s + 1)) + 1 := by omega
      rw [this, List.getD_cons_succ]
    rw [e]
    grind

/-- a left fold adding `t x` for every element is the sum of `t` over the indices -/
theorem foldl_eq_lsum (t : γ → α) (g : α → γ → α) (hg : ∀ a x, g a x = a + t x) (d : γ)
    (L : List γ) (a : α) :
    L.foldl g a = a + lsum 0 (fun i => t (L.getD i d)) (List.range L.length) := by
  rw [List.range_eq_range', foldl_eq_lsum_aux t g hg d L 0 a]
  simp only [Nat.sub_zero]

theorem getD_zip {β δ : Type} (A : List β) (B : List δ) (i : Nat) (a : β) (b : δ)
    (hA : i < A.length) (hB : i < B.length) :
    (A.zip B).getD i (a, b) = (A.getD i a, B.getD i b) := by
  have hz : i < (A.zip B).length := by rw [List.length_zip]; omega
  rw [List.getD_eq_getElem?_getD, List.getD_eq_getElem?_getD, List.getD_eq_getElem?_getD,
    List.getElem?_eq_getElem hz, List.getElem?_eq_getElem hA, List.getElem?_eq_getElem hB,
    List.getElem_zip]
  rfl

theorem getD_map {β δ : Type} (f : β → δ) (A : List β) (i : Nat) (a : β) :
    (A.map f).getD i (f a) = f (A.getD i a) := by
  rw [List.getD_eq_getElem?_getD, List.getD_eq_getElem?_getD, List.getElem?_map]
  cases A[i]? <;> rfl

theorem lsum_sub (f g : Nat → α) (l : List Nat) :
    lsum 0 f l - lsum 0 g l = lsum 0 (fun i => f i - g i) l := by
  induction l with
  | nil => simp only [lsum]; grind
  | cons c l ih => simp only [lsum]; rw [← ih]; grind

theorem lsum_zero (l : List Nat) : lsum (0 : α) (fun _ => 0) l = 0 := by
  induction l with
  | nil => rfl
  | cons c l ih => simp only [lsum]; rw [ih]; grind

end Sums
end Rbdl.L01Cap
