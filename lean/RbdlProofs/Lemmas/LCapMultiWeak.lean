import RbdlProofs.Lemmas.LCapMultiSpec
import RbdlProofs.Lemmas.LCapMultiNorm
/-
  Multi-DoF capstone, part 7: the weaker refinement relations `RefinesW` / `RefinesFW` — `Refines` /
  `RefinesF` with the syntactic equality of the joint definitions (`NodeRefines.joint`, `NodeF.mjoint`)
  replaced by observational equality (`JointEqv`: equal number of degrees of freedom, equal use of the
  quaternion index, equal poses as functions of the coordinates over every commutative ring).  Exchanging
  the joint definitions of the specification model for those of the code (`mapJ (reJ m)`) turns the weak
  relation into the strong one and leaves every function of the specification unchanged
  (`LCapMultiSpec`), so every capstone proved from `Refines` / `RefinesF` holds for the weak relations.
-/
namespace Rbdl.LCapMulti
open Lean.Grind Rbdl Rbdl.Spec Rbdl.L06 Rbdl.L01 Rbdl.L01Cap Rbdl.Loops
set_option linter.unusedSimpArgs false
set_option linter.unusedVariables false
set_option linter.unusedSectionVars false

section
variable {α : Type} [Field α] [DecidableEq α]

/-! ### without fixed bodies -/

/-- `NodeRefines` with the joint definition up to observational equality -/
structure NodeRefinesW (m : ModelS α) (i : Nat) (nd : SNode α) : Prop where
  parent : nd.parent = m.lam i
  E : nd.E = (m.XT_ i).E
  r : nd.r = (m.XT_ i).r
  joint : JointEqv nd.joint (m.sjoint i)
  qIdx : nd.qIdx = (m.joint i).qIndex
  wIdx : (m.joint i).jt = .spherical → nd.wIdx = m.w3 i
  apiId : nd.apiId = i
  movableId : nd.movableId = i
  virt : nd.hasBody = !(m.body i).isVirtual
  rbi : nd.hasBody = true → m.rbi i = RBI.ofMassComInertiaC nd.mass nd.com nd.inertia
  symm : nd.hasBody = true → nd.inertia.transpose = nd.inertia

/-- **the weak refinement relation**: `Refines` with joint definitions compared by `JointEqv` -/
structure RefinesW (m : ModelS α) (M : SModel α) : Prop where
  len : M.nodes.length = m.nBodies
  gravity : M.gravity = m.gravity
  nv : M.nv = m.dofCount
  base : ∀ nd, M.nodes[0]? = some nd → nd.hasBody = false ∧ nd.apiId = 0 ∧ nd.joint = .fixed
  node : ∀ i nd, 1 ≤ i → M.nodes[i]? = some nd → NodeRefinesW m i nd

theorem refinesW_of_refines {m : ModelS α} {M : SModel α} (h : Refines m M) : RefinesW m M :=
  ⟨h.len, h.gravity, h.nv, h.base, fun i nd i1 hnd =>
    have hN := h.node i nd i1 hnd
    ⟨hN.parent, hN.E, hN.r, hN.joint ▸ JointEqv.refl _, hN.qIdx, hN.wIdx, hN.apiId, hN.movableId,
      hN.virt, hN.rbi, hN.symm⟩⟩

/-- the joint definition the code stores for the body node `nd` describes -/
def reJ (m : ModelS α) (nd : SNode α) : SJoint α :=
  if nd.apiId = nd.movableId ∧ nd.apiId ≠ 0 then m.sjoint nd.movableId else nd.joint

theorem mem_getElem? {β : Type} {l : List β} {x : β} (h : x ∈ l) : ∃ i : Nat, l[i]? = some x := by
  obtain ⟨i, hi, hx⟩ := List.getElem_of_mem h
  exact ⟨i, by rw [List.getElem?_eq_getElem hi, hx]⟩

theorem reJ_eqv {m : ModelS α} {M : SModel α} (h : RefinesW m M) :
    ∀ nd ∈ M.nodes, JointEqv (reJ m nd) nd.joint := by
  intro nd hnd
  obtain ⟨i, hi⟩ := mem_getElem? hnd
  unfold reJ
  by_cases h0 : i = 0
  · subst h0
    rw [if_neg (fun hc => hc.2 (h.base nd hi).2.1)]
    exact JointEqv.refl _
  · have hN := h.node i nd (by omega) hi
    rw [if_pos ⟨by rw [hN.apiId, hN.movableId], by rw [hN.apiId]; exact h0⟩, hN.movableId]
    exact hN.joint.symm

theorem mapJ_get (g : SNode α → SJoint α) (M : SModel α) (i : Nat) (nd' : SNode α)
    (h : (mapJ g M).nodes[i]? = some nd') : ∃ nd, M.nodes[i]? = some nd ∧ nd' = setJ g nd := by
  change (M.nodes.map (setJ g))[i]? = some nd' at h
  rw [List.getElem?_map] at h
  cases hn : M.nodes[i]? with
  | none => rw [hn] at h; cases h
  | some nd => rw [hn] at h; exact ⟨nd, rfl, (Option.some.inj h).symm⟩

/-- **the weak relation is the strong relation for the model with the code's joint definitions** -/
theorem RefinesW.strong {m : ModelS α} {M : SModel α} (h : RefinesW m M) :
    Refines m (mapJ (reJ m) M) := by
  refine ⟨?_, h.gravity, ?_, ?_, ?_⟩
  · show (M.nodes.map _).length = _
    rw [List.length_map]; exact h.len
  · rw [mapJ_nv _ M (reJ_eqv h)]; exact h.nv
  · intro nd' hnd'
    obtain ⟨nd, hnd, rfl⟩ := mapJ_get _ M 0 nd' hnd'
    obtain ⟨b1, b2, b3⟩ := h.base nd hnd
    refine ⟨b1, b2, ?_⟩
    show reJ m nd = _
    unfold reJ
    rw [if_neg (fun hc => hc.2 b2)]; exact b3
  · intro i nd' i1 hnd'
    obtain ⟨nd, hnd, rfl⟩ := mapJ_get _ M i nd' hnd'
    have hN := h.node i nd i1 hnd
    refine ⟨hN.parent, hN.E, hN.r, ?_, hN.qIdx, hN.wIdx, hN.apiId, hN.movableId, hN.virt, hN.rbi,
      hN.symm⟩
    show reJ m nd = _
    unfold reJ
    rw [if_pos ⟨by rw [hN.apiId, hN.movableId], by rw [hN.apiId]; omega⟩, hN.movableId]

/-- **C01 capstone for the weak relation** -/
theorem id_eq_spec_weak {m : ModelS α} {M : SModel α} (hm : ModelOK m) (hR : RefinesW m M)
    (h2 : (2 : α) ≠ 0) (w : WS α) (hw : WSFixed m w) (st : QS α) (hst : StateOK m st)
    (qd qdd tau : VecN α) (fext : Option (Nat → SV α)) (x : Nat) (hx : x < m.dofCount) :
    (inverseDynamics m w st qd qdd tau fext).2 x
      = (newtonEulerTau M (stateOf st qd qdd) (fextSpec fext)).getD x 0 := by
  rw [← mapJ_newtonEulerTau (reJ m) M (reJ_eqv hR)]
  exact id_eq_spec hm hR.strong h2 w hw st hst qd qdd tau fext x hx

/-! ### with fixed bodies -/

/-- `NodeF` with the joint definition of a movable node up to observational equality -/
structure NodeFW (m : ModelS α) (M : SModel α) (off : Nat → XT α) (n : Nat) (nd : SNode α) :
    Prop where
  par_lt : nd.parent < n
  body_lt : nd.movableId < m.nBodies
  offrot : (off n).E.IsRot
  symm : nd.hasBody = true → nd.inertia.transpose = nd.inertia
  fjoint : nd.apiId ≠ nd.movableId → nd.joint = .fixed
  fpar : nd.apiId ≠ nd.movableId → bodyOf M nd.parent = nd.movableId
  foff : nd.apiId ≠ nd.movableId → off n = ⟨nd.E, nd.r⟩ * off nd.parent
  mpos : nd.apiId = nd.movableId → 1 ≤ nd.movableId
  moff : nd.apiId = nd.movableId → off n = XT.id
  mpar : nd.apiId = nd.movableId → bodyOf M nd.parent = m.lam nd.movableId
  mframe : nd.apiId = nd.movableId → m.XT_ nd.movableId = ⟨nd.E, nd.r⟩ * off nd.parent
  mjoint : nd.apiId = nd.movableId → JointEqv nd.joint (m.sjoint nd.movableId)
  mqIdx : nd.apiId = nd.movableId → nd.qIdx = (m.joint nd.movableId).qIndex
  mwIdx : nd.apiId = nd.movableId → (m.joint nd.movableId).jt = .spherical →
    nd.wIdx = m.w3 nd.movableId

/-- **the weak refinement relation with fixed bodies** -/
structure RefinesFW (m : ModelS α) (M : SModel α) (off : Nat → XT α) (nodeOf : Nat → Nat) :
    Prop where
  gravity : M.gravity = m.gravity
  nv : M.nv = m.dofCount
  base : ∃ nd, M.nodes[0]? = some nd ∧ nd.hasBody = false ∧ nd.apiId = 0 ∧ nd.movableId = 0 ∧
    nd.joint = .fixed
  off0 : off 0 = XT.id
  nodeOf0 : nodeOf 0 = 0
  node : ∀ n nd, 1 ≤ n → M.nodes[n]? = some nd → NodeFW m M off n nd
  nodeOf_lt : ∀ i, 1 ≤ i → i < m.nBodies → 1 ≤ nodeOf i ∧ nodeOf i < M.nodes.length
  nodeOf_mov : ∀ i nd, 1 ≤ i → i < m.nBodies → M.nodes[nodeOf i]? = some nd →
    nd.apiId = nd.movableId ∧ nd.movableId = i
  nodeOf_inj : ∀ n nd, 1 ≤ n → M.nodes[n]? = some nd → nd.apiId = nd.movableId →
    nodeOf nd.movableId = n
  rbi : ∀ i, 1 ≤ i → i < m.nBodies →
    m.rbi i = lsum RBI.zero (nodeRBI M off i) (List.range M.nodes.length)
  virt : ∀ i, 1 ≤ i → i < m.nBodies → (m.body i).isVirtual = true → ∀ x : SV α,
    m.rbi i * x = SV.zero

theorem refinesFW_of_refinesF {m : ModelS α} {M : SModel α} {off : Nat → XT α} {nodeOf : Nat → Nat}
    (h : RefinesF m M off nodeOf) : RefinesFW m M off nodeOf :=
  ⟨h.gravity, h.nv, h.base, h.off0, h.nodeOf0, fun n nd n1 hnd =>
    have hN := h.node n nd n1 hnd
    ⟨hN.par_lt, hN.body_lt, hN.offrot, hN.symm, hN.fjoint, hN.fpar, hN.foff, hN.mpos, hN.moff,
      hN.mpar, hN.mframe, fun hm' => hN.mjoint hm' ▸ JointEqv.refl _, hN.mqIdx, hN.mwIdx⟩,
    h.nodeOf_lt, h.nodeOf_mov, h.nodeOf_inj, h.rbi, h.virt⟩

theorem reJ_eqvF {m : ModelS α} {M : SModel α} {off : Nat → XT α} {nodeOf : Nat → Nat}
    (h : RefinesFW m M off nodeOf) : ∀ nd ∈ M.nodes, JointEqv (reJ m nd) nd.joint := by
  intro nd hnd
  obtain ⟨i, hi⟩ := mem_getElem? hnd
  unfold reJ
  by_cases hc : nd.apiId = nd.movableId ∧ nd.apiId ≠ 0
  · rw [if_pos hc]
    have hi0 : i ≠ 0 := by
      intro e; subst e
      obtain ⟨b, hb, _, hb2, _⟩ := h.base
      rw [hb] at hi
      have : b = nd := Option.some.inj hi
      subst this
      exact hc.2 hb2
    exact ((h.node i nd (by omega) hi).mjoint hc.1).symm
  · rw [if_neg hc]; exact JointEqv.refl _

theorem setJ_nd0 (g : SNode α → SJoint α) (h : g nd0 = .fixed) : setJ g (nd0 : SNode α) = nd0 := by
  unfold setJ; rw [h]; rfl

theorem reJ_nd0 (m : ModelS α) : reJ m (nd0 : SNode α) = .fixed := by
  unfold reJ
  rw [if_neg (fun hc => hc.2 rfl)]
  rfl

theorem mapJ_getD (g : SNode α → SJoint α) (hg : g nd0 = .fixed) (M : SModel α) (n : Nat) :
    (mapJ g M).nodes.getD n nd0 = setJ g (M.nodes.getD n nd0) := by
  show (M.nodes.map (setJ g)).getD n nd0 = _
  rw [List.getD_eq_getElem?_getD, List.getD_eq_getElem?_getD, List.getElem?_map]
  cases M.nodes[n]? with
  | none => exact (setJ_nd0 g hg).symm
  | some x => rfl

theorem bodyOf_mapJ (g : SNode α → SJoint α) (hg : g nd0 = .fixed) (M : SModel α) (n : Nat) :
    bodyOf (mapJ g M) n = bodyOf M n := by
  unfold bodyOf
  rw [mapJ_getD g hg]
  rfl

theorem nodeRBI_mapJ (g : SNode α → SJoint α) (hg : g nd0 = .fixed) (M : SModel α)
    (off : Nat → XT α) (i n : Nat) : nodeRBI (mapJ g M) off i n = nodeRBI M off i n := by
  unfold nodeRBI
  rw [mapJ_getD g hg]
  rfl

/-- **the weak relation is the strong relation for the model with the code's joint definitions** -/
theorem RefinesFW.strong {m : ModelS α} {M : SModel α} {off : Nat → XT α} {nodeOf : Nat → Nat}
    (h : RefinesFW m M off nodeOf) : RefinesF m (mapJ (reJ m) M) off nodeOf := by
  have hlen : (mapJ (reJ m) M).nodes.length = M.nodes.length := by
    show (M.nodes.map _).length = _
    rw [List.length_map]
  have hb0 := reJ_nd0 m
  refine ⟨h.gravity, ?_, ?_, h.off0, h.nodeOf0, ?_, ?_, ?_, ?_, ?_, h.virt⟩
  · rw [mapJ_nv _ M (reJ_eqvF h)]; exact h.nv
  · obtain ⟨b, hb, b1, b2, b3, b4⟩ := h.base
    refine ⟨setJ (reJ m) b, ?_, b1, b2, b3, ?_⟩
    · show (M.nodes.map _)[0]? = _
      rw [List.getElem?_map, hb]; rfl
    · show reJ m b = _
      unfold reJ
      rw [if_neg (fun hc => hc.2 b2)]; exact b4
  · intro n nd' n1 hnd'
    obtain ⟨nd, hnd, rfl⟩ := mapJ_get _ M n nd' hnd'
    have hN := h.node n nd n1 hnd
    refine ⟨hN.par_lt, hN.body_lt, hN.offrot, hN.symm, ?_, ?_, hN.foff, hN.mpos, hN.moff, ?_,
      hN.mframe, ?_, hN.mqIdx, hN.mwIdx⟩
    · intro hne
      show reJ m nd = _
      unfold reJ
      rw [if_neg (fun hc => hne hc.1)]; exact hN.fjoint hne
    · intro hne
      show bodyOf (mapJ (reJ m) M) nd.parent = nd.movableId
      rw [bodyOf_mapJ _ hb0]; exact hN.fpar hne
    · intro he
      show bodyOf (mapJ (reJ m) M) nd.parent = m.lam nd.movableId
      rw [bodyOf_mapJ _ hb0]; exact hN.mpar he
    · intro he
      show reJ m nd = _
      unfold reJ
      have he' : nd.apiId = nd.movableId := he
      rw [if_pos ⟨he', by have := hN.mpos he'; omega⟩]
      rfl
  · intro i i1 i2
    rw [hlen]; exact h.nodeOf_lt i i1 i2
  · intro i nd' i1 i2 hnd'
    obtain ⟨nd, hnd, rfl⟩ := mapJ_get _ M _ nd' hnd'
    exact h.nodeOf_mov i nd i1 i2 hnd
  · intro n nd' n1 hnd' he
    obtain ⟨nd, hnd, rfl⟩ := mapJ_get _ M n nd' hnd'
    exact h.nodeOf_inj n nd n1 hnd he
  · intro i i1 i2
    rw [hlen, h.rbi i i1 i2]
    exact lsum_congr _ _ _ (fun n _ => (nodeRBI_mapJ _ hb0 M off i n).symm)

/-- **C01 capstone for the weak relation with fixed bodies** -/
theorem id_eq_specF_weak {m : ModelS α} {M : SModel α} {off : Nat → XT α} {nodeOf : Nat → Nat}
    (hm : ModelOK m) (hR : RefinesFW m M off nodeOf)
    (h2 : (2 : α) ≠ 0) (w : WS α) (hw : WSFixed m w) (st : QS α) (hst : StateOK m st)
    (qd qdd tau : VecN α) (fext : Option (Nat → SV α)) (x : Nat) (hx : x < m.dofCount) :
    (inverseDynamics m w st qd qdd tau fext).2 x
      = (newtonEulerTau M (stateOf st qd qdd) (fextSpec fext)).getD x 0 := by
  rw [← mapJ_newtonEulerTau (reJ m) M (reJ_eqvF hR)]
  exact id_eq_specF hm hR.strong h2 w hw st hst qd qdd tau fext x hx

/-! ### the normal form of a model that refines syntactically refines weakly -/

theorem normM_get (M : SModel α) (i : Nat) (nd' : SNode α) (h : (normM M).nodes[i]? = some nd') :
    ∃ nd, M.nodes[i]? = some nd ∧ nd' = normNode nd := mapJ_get _ M i nd' h

theorem normM_bodyOf (M : SModel α) (n : Nat) : bodyOf (normM M) n = bodyOf M n :=
  bodyOf_mapJ _ rfl M n

theorem normM_nodeRBI (M : SModel α) (off : Nat → XT α) (i n : Nat) :
    nodeRBI (normM M) off i n = nodeRBI M off i n := nodeRBI_mapJ _ rfl M off i n

theorem refinesFW_normM {m : ModelS α} {M : SModel α} {off : Nat → XT α} {nodeOf : Nat → Nat}
    (h : RefinesF m M off nodeOf) : RefinesFW m (normM M) off nodeOf := by
  refine ⟨h.gravity, by rw [normM_nv]; exact h.nv, ?_, h.off0, h.nodeOf0, ?_, ?_, ?_, ?_, ?_, h.virt⟩
  · obtain ⟨b, hb, b1, b2, b3, b4⟩ := h.base
    refine ⟨normNode b, ?_, b1, b2, b3, ?_⟩
    · show (M.nodes.map _)[0]? = _
      rw [List.getElem?_map, hb]; rfl
    · show normJ b.joint = _
      rw [b4]; rfl
  · intro n nd' n1 hnd'
    obtain ⟨nd, hnd, rfl⟩ := normM_get M n nd' hnd'
    have hN := h.node n nd n1 hnd
    refine ⟨hN.par_lt, hN.body_lt, hN.offrot, hN.symm, ?_, ?_, hN.foff, hN.mpos, hN.moff, ?_,
      hN.mframe, ?_, hN.mqIdx, hN.mwIdx⟩
    · intro hne
      show normJ nd.joint = _
      rw [hN.fjoint hne]; rfl
    · intro hne
      show bodyOf (normM M) nd.parent = nd.movableId
      rw [normM_bodyOf]; exact hN.fpar hne
    · intro he
      show bodyOf (normM M) nd.parent = m.lam nd.movableId
      rw [normM_bodyOf]; exact hN.mpar he
    · intro he
      show JointEqv (normJ nd.joint) (m.sjoint nd.movableId)
      rw [← hN.mjoint he]
      exact normJ_eqv _
  · intro i i1 i2
    rw [normM_length]; exact h.nodeOf_lt i i1 i2
  · intro i nd' i1 i2 hnd'
    obtain ⟨nd, hnd, rfl⟩ := normM_get M _ nd' hnd'
    exact h.nodeOf_mov i nd i1 i2 hnd
  · intro n nd' n1 hnd' he
    obtain ⟨nd, hnd, rfl⟩ := normM_get M n nd' hnd'
    exact h.nodeOf_inj n nd n1 hnd he
  · intro i i1 i2
    rw [normM_length, h.rbi i i1 i2]
    exact lsum_congr _ _ _ (fun n _ => (normM_nodeRBI M off i n).symm)

theorem refinesW_normM {m : ModelS α} {M : SModel α} (h : Refines m M) : RefinesW m (normM M) := by
  refine ⟨by rw [normM_length]; exact h.len, h.gravity, by rw [normM_nv]; exact h.nv, ?_, ?_⟩
  · intro nd' hnd'
    obtain ⟨nd, hnd, rfl⟩ := normM_get M 0 nd' hnd'
    obtain ⟨b1, b2, b3⟩ := h.base nd hnd
    refine ⟨b1, b2, ?_⟩
    show normJ nd.joint = _
    rw [b3]; rfl
  · intro i nd' i1 hnd'
    obtain ⟨nd, hnd, rfl⟩ := normM_get M i nd' hnd'
    have hN := h.node i nd i1 hnd
    refine ⟨hN.parent, hN.E, hN.r, ?_, hN.qIdx, hN.wIdx, hN.apiId, hN.movableId, hN.virt, hN.rbi,
      hN.symm⟩
    show JointEqv (normJ nd.joint) (m.sjoint i)
    rw [← hN.joint]
    exact normJ_eqv _

end
end Rbdl.LCapMulti
