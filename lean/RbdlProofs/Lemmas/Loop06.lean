import RbdlProofs.Lemmas.Step06
/-
  C06, loop level: after `UpdateKinematics` every `(v[i], a[i])` is the spatial velocity /
  acceleration of the world pose jet of body `i`.
-/
namespace Rbdl.L06
open Lean.Grind Rbdl Rbdl.Spec
set_option linter.unusedSimpArgs false
set_option linter.unusedVariables false
set_option linter.unusedSectionVars false

section
variable {α : Type} [Field α]

/-! ### `jcalc` on joint `i` touches only entry `i` of the per-body arrays -/

theorem jcalc_v_J_other (m : ModelS α) (w : WS α) (i : Nat) (st : QS α) (qd : VecN α) (j : Nat)
    (h : j ≠ i) : (jcalc m w i st qd).v_J j = w.v_J j := by
  unfold jcalc
  dsimp only
  cases hj : (m.joint i).jt <;> first | rfl | simp only [upd_other _ _ _ _ h]

theorem jcalc_c_J_other (m : ModelS α) (w : WS α) (i : Nat) (st : QS α) (qd : VecN α) (j : Nat)
    (h : j ≠ i) : (jcalc m w i st qd).c_J j = w.c_J j := by
  unfold jcalc
  dsimp only
  cases hj : (m.joint i).jt <;> first | rfl | simp only [upd_other _ _ _ _ h]

theorem jcalc_S_other (m : ModelS α) (w : WS α) (i : Nat) (st : QS α) (qd : VecN α) (j : Nat)
    (h : j ≠ i) : (jcalc m w i st qd).S j = w.S j := by
  unfold jcalc
  dsimp only
  cases hj : (m.joint i).jt <;> first | rfl | simp only [upd_other _ _ _ _ h]

theorem jcalc_S3_other (m : ModelS α) (w : WS α) (i : Nat) (st : QS α) (qd : VecN α) (j : Nat)
    (h : j ≠ i) : (jcalc m w i st qd).S3 j = w.S3 j := by
  unfold jcalc
  dsimp only
  cases hj : (m.joint i).jt <;> first | rfl | simp only [upd_other _ _ _ _ h]

/-! ### one iteration touches only entry `i` -/

theorem ukBody_v_other (m : ModelS α) (st : QS α) (qd qdd : VecN α) (i : Nat) (w : WS α)
    (j : Nat) (h : j ≠ i) : (ukBody m st qd qdd i w).v j = w.v j := by
  by_cases hl : m.lam i ≠ 0
  · simp only [ukBody, if_pos hl, upd_other _ _ _ _ h, jcalc_v]
  · simp only [ukBody, if_neg hl, upd_other _ _ _ _ h, jcalc_v]

theorem ukBody_a_other (m : ModelS α) (st : QS α) (qd qdd : VecN α) (i : Nat) (w : WS α)
    (j : Nat) (h : j ≠ i) : (ukBody m st qd qdd i w).a j = w.a j := by
  by_cases hl : m.lam i ≠ 0
  · simp only [ukBody, if_pos hl, upd_other _ _ _ _ h, jcalc_a]
  · simp only [ukBody, if_neg hl, upd_other _ _ _ _ h, jcalc_a]

theorem ukBody_v_J (m : ModelS α) (st : QS α) (qd qdd : VecN α) (i : Nat) (w : WS α) :
    (ukBody m st qd qdd i w).v_J = (jcalc m w i st qd).v_J := by
  by_cases hl : m.lam i ≠ 0
  · simp only [ukBody, if_pos hl]
  · simp only [ukBody, if_neg hl]

theorem ukBody_c_J (m : ModelS α) (st : QS α) (qd qdd : VecN α) (i : Nat) (w : WS α) :
    (ukBody m st qd qdd i w).c_J = (jcalc m w i st qd).c_J := by
  by_cases hl : m.lam i ≠ 0
  · simp only [ukBody, if_pos hl]
  · simp only [ukBody, if_neg hl]

theorem ukBody_S (m : ModelS α) (st : QS α) (qd qdd : VecN α) (i : Nat) (w : WS α) :
    (ukBody m st qd qdd i w).S = (jcalc m w i st qd).S := by
  by_cases hl : m.lam i ≠ 0
  · simp only [ukBody, if_pos hl]
  · simp only [ukBody, if_neg hl]

theorem ukBody_S3 (m : ModelS α) (st : QS α) (qd qdd : VecN α) (i : Nat) (w : WS α) :
    (ukBody m st qd qdd i w).S3 = (jcalc m w i st qd).S3 := by
  by_cases hl : m.lam i ≠ 0
  · simp only [ukBody, if_pos hl]
  · simp only [ukBody, if_neg hl]

theorem ukBody_v_J_other (m : ModelS α) (st : QS α) (qd qdd : VecN α) (i : Nat) (w : WS α)
    (j : Nat) (h : j ≠ i) : (ukBody m st qd qdd i w).v_J j = w.v_J j := by
  rw [ukBody_v_J, jcalc_v_J_other _ _ _ _ _ _ h]
theorem ukBody_c_J_other (m : ModelS α) (st : QS α) (qd qdd : VecN α) (i : Nat) (w : WS α)
    (j : Nat) (h : j ≠ i) : (ukBody m st qd qdd i w).c_J j = w.c_J j := by
  rw [ukBody_c_J, jcalc_c_J_other _ _ _ _ _ _ h]
theorem ukBody_S_other (m : ModelS α) (st : QS α) (qd qdd : VecN α) (i : Nat) (w : WS α)
    (j : Nat) (h : j ≠ i) : (ukBody m st qd qdd i w).S j = w.S j := by
  rw [ukBody_S, jcalc_S_other _ _ _ _ _ _ h]
theorem ukBody_S3_other (m : ModelS α) (st : QS α) (qd qdd : VecN α) (i : Nat) (w : WS α)
    (j : Nat) (h : j ≠ i) : (ukBody m st qd qdd i w).S3 j = w.S3 j := by
  rw [ukBody_S3, jcalc_S3_other _ _ _ _ _ _ h]

/-- `JointWS m w i` reads only `v_J[i]`, `S[i]`, `c_J[i]`, `multdof3_S[i]` -/
theorem JointWS_congr (m : ModelS α) (w w' : WS α) (i : Nat) (h1 : w'.v_J i = w.v_J i)
    (h2 : w'.S i = w.S i) (h3 : w'.c_J i = w.c_J i) (h4 : w'.S3 i = w.S3 i)
    (h : JointWS m w i) : JointWS m w' i := by
  unfold JointWS at h ⊢
  rw [h1, h2, h3, h4]
  exact h

theorem bf_poseId : BodyForm (NodeKin.ofPose (Pose.id : Pose (D2 α))) SV.zero SV.zero :=
  bodyForm_const (k := NodeKin.ofPose (Pose.id : Pose (D2 α)))
    (show (M3.one : M3 α).IsRot from M3.isRot_one) rfl rfl rfl rfl

/-- **the loop**: let `P` be a table of pose jets that satisfies the forward-kinematics recursion
    `P 0 = id`, `P i = P (λ i) ∘ frame_i ∘ joint_i`.  After `UpdateKinematics`, `(v[i], a[i])` are the
    body-form spatial velocity / acceleration of `P i`, for every body `i ≥ 1`. -/
theorem uk_bodyForm (m : ModelS α) (w : WS α) (st : QS α) (qd qdd : VecN α) (h2 : (2 : α) ≠ 0)
    (htree : ∀ i, 1 ≤ i → i < m.nBodies → m.lam i < i)
    (hjc : ∀ i, 1 ≤ i → i < m.nBodies → (m.joint i).jt.hasJcalc = true)
    (hframe : ∀ i, 1 ≤ i → i < m.nBodies → (m.XT_ i).E.IsRot)
    (hunit : ∀ i, 1 ≤ i → i < m.nBodies → m.jointUnit i st)
    (hws : ∀ i, 1 ≤ i → i < m.nBodies → JointWS m w i)
    (hw3 : ∀ i, 1 ≤ i → i < m.nBodies → (m.joint i).jt = .spherical →
      (m.joint i).qIndex + 2 < m.w3 i)
    (P : Nat → Pose (D2 α)) (hP0 : P 0 = Pose.id)
    (hP : ∀ i, 1 ≤ i → i < m.nBodies →
      P i = (P (m.lam i)).comp ((framePoseJet m i).comp (jointPoseJet m i st qd qdd))) :
    ∀ i, 1 ≤ i → i < m.nBodies →
      BodyForm (NodeKin.ofPose (P i)) ((updateKinematics m w st qd qdd).v i)
        ((updateKinematics m w st qd qdd).a i) := by
  intro i
  induction i using Nat.strongRecOn with
  | _ i ih =>
    intro h1 hi
    rw [uk_eq_forUp]
    have hbv := ukBody_v_other m st qd qdd
    have hba := ukBody_a_other m st qd qdd
    -- the state iteration `i` starts from
    have ev := forUp_get_inside (fun s => s.v) (ukBody m st qd qdd) hbv (m.nBodies - 1) 1
      { w with a := upd w.a 0 SV.zero } i h1 (by omega)
    have ea := forUp_get_inside (fun s => s.a) (ukBody m st qd qdd) hba (m.nBodies - 1) 1
      { w with a := upd w.a 0 SV.zero } i h1 (by omega)
    rw [ev, ea, hP i h1 hi]
    -- workspace invariant of joint `i` in that state
    have hJ : JointWS m (forUp (i - 1) 1 (ukBody m st qd qdd)
        { w with a := upd w.a 0 SV.zero }) i := by
      refine JointWS_congr m w _ i ?_ ?_ ?_ ?_ (hws i h1 hi)
      · exact forUp_get_outside (fun s => s.v_J) (ukBody m st qd qdd)
          (ukBody_v_J_other m st qd qdd) (i - 1) 1 _ i (by omega)
      · exact forUp_get_outside (fun s => s.S) (ukBody m st qd qdd)
          (ukBody_S_other m st qd qdd) (i - 1) 1 _ i (by omega)
      · exact forUp_get_outside (fun s => s.c_J) (ukBody m st qd qdd)
          (ukBody_c_J_other m st qd qdd) (i - 1) 1 _ i (by omega)
      · exact forUp_get_outside (fun s => s.S3) (ukBody m st qd qdd)
          (ukBody_S3_other m st qd qdd) (i - 1) 1 _ i (by omega)
    have hjm := jointMotion m _ i st qd qdd h2 (hjc i h1 hi) (hunit i h1 hi) hJ (hw3 i h1 hi)
    refine step_bodyForm m _ i st qd qdd (hjc i h1 hi) (hframe i h1 hi) hjm _ ?_
    by_cases hl : m.lam i ≠ 0
    · rw [if_pos hl]
      have hlt := htree i h1 hi
      have := ih (m.lam i) hlt (by omega) (by omega)
      rw [uk_eq_forUp] at this
      rw [forUp_get_prefix (fun s => s.v) (ukBody m st qd qdd) hbv _ _ _ i (m.lam i) h1
          (by omega) hlt,
        forUp_get_prefix (fun s => s.a) (ukBody m st qd qdd) hba _ _ _ i (m.lam i) h1
          (by omega) hlt] at this
      exact this
    · rw [if_neg hl]
      have hl0 : m.lam i = 0 := by omega
      rw [hl0, hP0]
      have e0 : (forUp (i - 1) 1 (ukBody m st qd qdd) { w with a := upd w.a 0 SV.zero }).a 0
          = SV.zero := by
        rw [forUp_get_outside (fun s => s.a) (ukBody m st qd qdd) hba (i - 1) 1 _ 0 (by omega)]
        show upd w.a 0 SV.zero 0 = SV.zero
        exact upd_same _ _ _
      rw [e0]
      exact bf_poseId


/-! ### the world pose jets of a `ModelS` satisfy the forward-kinematics recursion -/

theorem worldPoseJetAux_stable (m : ModelS α) (st : QS α) (qd qdd : VecN α)
    (htree : ∀ i, 1 ≤ i → i < m.nBodies → m.lam i < i) :
    ∀ i f1 f2, i ≤ f1 → i ≤ f2 → i < m.nBodies →
      worldPoseJetAux m st qd qdd f1 i = worldPoseJetAux m st qd qdd f2 i := by
  intro i
  induction i using Nat.strongRecOn with
  | _ i ih =>
    intro f1 f2 h1 h2 hi
    by_cases hz : i = 0
    · subst hz
      cases f1 <;> cases f2 <;> simp [worldPoseJetAux]
    · obtain ⟨a, rfl⟩ : ∃ a, f1 = a + 1 := ⟨f1 - 1, by omega⟩
      obtain ⟨b, rfl⟩ : ∃ b, f2 = b + 1 := ⟨f2 - 1, by omega⟩
      have hlt := htree i (by omega) hi
      simp only [worldPoseJetAux, if_neg hz]
      rw [ih (m.lam i) hlt a b (by omega) (by omega) (by omega)]

theorem bodyPoseJet_zero (m : ModelS α) (st : QS α) (qd qdd : VecN α) :
    bodyPoseJet m st qd qdd 0 = Pose.id := rfl

theorem bodyPoseJet_step (m : ModelS α) (st : QS α) (qd qdd : VecN α)
    (htree : ∀ i, 1 ≤ i → i < m.nBodies → m.lam i < i) (i : Nat) (h1 : 1 ≤ i)
    (hi : i < m.nBodies) :
    bodyPoseJet m st qd qdd i = (bodyPoseJet m st qd qdd (m.lam i)).comp
      ((framePoseJet m i).comp (jointPoseJet m i st qd qdd)) := by
  have hlt := htree i h1 hi
  obtain ⟨a, rfl⟩ : ∃ a, i = a + 1 := ⟨i - 1, by omega⟩
  unfold bodyPoseJet
  simp only [worldPoseJetAux, if_neg (by omega : ¬ a + 1 = 0)]
  rw [worldPoseJetAux_stable m st qd qdd htree (m.lam (a + 1)) a (m.lam (a + 1)) (by omega)
    (Nat.le_refl _) (by omega)]


/-! ### `X_base` after `UpdateKinematics` describes the value part of the world pose jet -/

theorem ukBody_X_base_other (m : ModelS α) (st : QS α) (qd qdd : VecN α) (i : Nat) (w : WS α)
    (j : Nat) (h : j ≠ i) : (ukBody m st qd qdd i w).X_base j = w.X_base j := by
  by_cases hl : m.lam i ≠ 0
  · simp only [ukBody, if_pos hl, upd_other _ _ _ _ h, jcalc_X_base]
  · simp only [ukBody, if_neg hl, upd_other _ _ _ _ h, jcalc_X_base]

theorem ukBody_X_base (m : ModelS α) (st : QS α) (qd qdd : VecN α) (i : Nat) (w : WS α) :
    (ukBody m st qd qdd i w).X_base i
      = if m.lam i ≠ 0 then (jcalc m w i st qd).X_lambda i * w.X_base (m.lam i)
        else (jcalc m w i st qd).X_lambda i := by
  by_cases hl : m.lam i ≠ 0
  · simp only [ukBody, if_pos hl, upd_same, jcalc_X_base]
  · simp only [ukBody, if_neg hl, upd_same, jcalc_X_base]

theorem xtOfKin_poseId : xtOfKin (NodeKin.ofPose (Pose.id : Pose (D2 α))) = XT.id := rfl

/-- `X_base[i] = SpatialTransform(Rᵀ, p)` of the value part `(R, p)` of `P i` (no rotation or unit
    hypotheses: a polynomial identity, as in C04) -/
theorem uk_X_base (m : ModelS α) (w : WS α) (st : QS α) (qd qdd : VecN α)
    (htree : ∀ i, 1 ≤ i → i < m.nBodies → m.lam i < i)
    (hjc : ∀ i, 1 ≤ i → i < m.nBodies → (m.joint i).jt.hasJcalc = true)
    (P : Nat → Pose (D2 α)) (hP0 : P 0 = Pose.id)
    (hP : ∀ i, 1 ≤ i → i < m.nBodies →
      P i = (P (m.lam i)).comp ((framePoseJet m i).comp (jointPoseJet m i st qd qdd))) :
    ∀ i, 1 ≤ i → i < m.nBodies →
      (updateKinematics m w st qd qdd).X_base i = xtOfKin (NodeKin.ofPose (P i)) := by
  intro i
  induction i using Nat.strongRecOn with
  | _ i ih =>
    intro h1 hi
    rw [uk_eq_forUp]
    have hbX := ukBody_X_base_other m st qd qdd
    rw [forUp_get_inside (fun s => s.X_base) (ukBody m st qd qdd) hbX (m.nBodies - 1) 1
      { w with a := upd w.a 0 SV.zero } i h1 (by omega)]
    rw [ukBody_X_base, hP i h1 hi, ofPose_comp, ofPose_comp, xtOfKin_compKin, xtOfKin_compKin,
      xtOfKin_frame, ← jcalc_X_lambda_joint m _ i st qd qd qdd (hjc i h1 hi)]
    by_cases hl : m.lam i ≠ 0
    · rw [if_pos hl]
      have hlt := htree i h1 hi
      have := ih (m.lam i) hlt (by omega) (by omega)
      rw [uk_eq_forUp, forUp_get_prefix (fun s => s.X_base) (ukBody m st qd qdd) hbX _ _ _ i
        (m.lam i) h1 (by omega) hlt] at this
      rw [this]
    · rw [if_neg hl]
      have hl0 : m.lam i = 0 := by omega
      rw [hl0, hP0, xtOfKin_poseId, C16.mul_id]

end
end Rbdl.L06
