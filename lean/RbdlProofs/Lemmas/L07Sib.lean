import RbdlProofs.Lemmas.L07All
/-
  C07 (H), construction level: two single-body siblings added in the two possible orders.
-/
namespace Rbdl.L07
open Lean.Grind Rbdl Rbdl.Loops Rbdl.L01 Rbdl.ModelS
set_option linter.unusedVariables false
set_option linter.unusedSimpArgs false
set_option linter.unusedSectionVars false
variable {α : Type} [Field α]

theorem getD_app2 {β : Type} (l : List β) (x y d : β) (i : Nat) :
    ((l ++ [x]) ++ [y]).getD i d =
      if i < l.length then l.getD i d else if i = l.length then x
      else if i = l.length + 1 then y else d := by
  simp only [List.getD_eq_getElem?_getD]
  by_cases h1 : i < l.length
  · rw [if_pos h1, List.getElem?_append_left (by simp; omega), List.getElem?_append_left h1]
  · rw [if_neg h1]
    by_cases h2 : i = l.length
    · subst h2
      rw [if_pos rfl, List.getElem?_append_left (by simp)]
      simp
    · rw [if_neg h2]
      by_cases h3 : i = l.length + 1
      · subst h3
        rw [if_pos rfl]
        simp
      · rw [if_neg h3, List.getElem?_eq_none (by simp; omega)]
        rfl

/-- exchange of the two bodies added last -/
def swap2 (n : Nat) : Nat → Nat := fun i => if i = n then n + 1 else if i = n + 1 then n else i

/-- the model after adding two single-body siblings `A`, `B` (in this order) to the parent `p` -/
def twoSiblings (m : ModelS α) (p : Nat) (XA : XT α) (jA : Joint α) (bA : Body α) (nA : String)
    (XB : XT α) (jB : Joint α) (bB : Body α) (nB : String) : ModelS α :=
  movableResult (movableResult m p XA jA bA nA) p XB jB bB nB

section
variable (m : ModelS α) (p : Nat) (XA : XT α) (jA : Joint α) (bA : Body α) (nA : String)
  (XB : XT α) (jB : Joint α) (bB : Body α) (nB : String)

theorem ts_nBodies : (twoSiblings m p XA jA bA nA XB jB bB nB).nBodies = m.bodies.length + 2 := by
  simp [twoSiblings, movableResult, nBodies]

theorem ts_lam (hl : m.lambda.length = m.bodies.length) (i : Nat) :
    (twoSiblings m p XA jA bA nA XB jB bB nB).lam i =
      if i < m.bodies.length then m.lam i else if i = m.bodies.length then m.mpOf p
      else if i = m.bodies.length + 1 then m.mpOf p else 0 := by
  unfold ModelS.lam twoSiblings movableResult
  simp only
  rw [getD_app2, hl]
  rfl

theorem ts_joint (hl : m.joints.length = m.bodies.length) (i : Nat) :
    (twoSiblings m p XA jA bA nA XB jB bB nB).joint i =
      if i < m.bodies.length then m.joint i else if i = m.bodies.length then m.newJoint jA
      else if i = m.bodies.length + 1 then
        { jB with qIndex := (m.newJoint jA).qIndex + jA.dof }
      else Joint.root := by
  unfold ModelS.joint twoSiblings movableResult
  simp only
  rw [getD_app2, hl]
  simp only [newJoint, List.getLastD_concat]

theorem ts_XT (hl : m.xT.length = m.bodies.length) (i : Nat) :
    (twoSiblings m p XA jA bA nA XB jB bB nB).XT_ i =
      if i < m.bodies.length then m.XT_ i else if i = m.bodies.length then XA * m.mpXOf p
      else if i = m.bodies.length + 1 then XB * m.mpXOf p else XT.id := by
  unfold ModelS.XT_ twoSiblings movableResult
  simp only
  rw [getD_app2, hl]
  rfl

theorem ts_rbi (hl : m.I.length = m.bodies.length) (i : Nat) :
    (twoSiblings m p XA jA bA nA XB jB bB nB).rbi i =
      if i < m.bodies.length then m.rbi i
      else if i = m.bodies.length then RBI.ofMassComInertiaC bA.mass bA.com bA.inertia
      else if i = m.bodies.length + 1 then RBI.ofMassComInertiaC bB.mass bB.com bB.inertia
      else RBI.zero := by
  unfold ModelS.rbi twoSiblings movableResult
  simp only
  rw [getD_app2, hl]

theorem ts_body (i : Nat) :
    (twoSiblings m p XA jA bA nA XB jB bB nB).body i =
      if i < m.bodies.length then m.body i else if i = m.bodies.length then bA
      else if i = m.bodies.length + 1 then bB else Body.null := by
  unfold ModelS.body twoSiblings movableResult
  simp only
  rw [getD_app2]

theorem ts_custom : (twoSiblings m p XA jA bA nA XB jB bB nB).custom = m.custom := rfl
theorem ts_gravity : (twoSiblings m p XA jA bA nA XB jB bB nB).gravity = m.gravity := rfl

theorem arity_of_joint (m1 m2 : ModelS α) (i j : Nat) (h1 : (m1.joint i).jt = (m2.joint j).jt)
    (h2 : (m1.joint i).dof = (m2.joint j).dof) : m1.arity i = m2.arity j := by
  unfold ModelS.arity; simp only [h1, h2]

/-- **H**, construction level: adding two single-body siblings in the two possible orders gives
    models related by the exchange of the last two body indices. -/
theorem siblings_relabel (hwf : m.WF) (hp : m.validId p)
    (hAB : (twoSiblings m p XA jA bA nA XB jB bB nB).WF)
    (hBA : (twoSiblings m p XB jB bB nB XA jA bA nA).WF)
    (har : ∀ i, 1 ≤ i → i < m.nBodies → m.arity i ≠ .other)
    (haA : jA.jt = .custom ∨ (jA.jt ≠ .custom ∧ (jA.dof = 1 ∨ jA.dof = 3)))
    (haB : jB.jt = .custom ∨ (jB.jt ≠ .custom ∧ (jB.dof = 1 ∨ jB.dof = 3))) :
    Relabel (twoSiblings m p XA jA bA nA XB jB bB nB) (twoSiblings m p XB jB bB nB XA jA bA nA)
      (swap2 m.bodies.length) (swap2 m.bodies.length) ∧
    (∀ i, 1 ≤ i → i < m.bodies.length + 2 →
      JointEq (twoSiblings m p XA jA bA nA XB jB bB nB) i
        (twoSiblings m p XB jB bB nB XA jA bA nA) (swap2 m.bodies.length i)) := by
  have hn := hwf.nb_pos
  have hmp := mpOf_lt m hwf p hp
  have hl1 := hwf.len_lambda
  have hl3 := hwf.len_joints
  have hl4 := hwf.len_xT
  have hl6 := hwf.len_I
  simp only [nBodies] at hn hmp hl1 hl3 hl4 hl6 har
  have sw : ∀ i, i < m.bodies.length → swap2 m.bodies.length i = i := by
    intro i hi; unfold swap2; rw [if_neg (by omega), if_neg (by omega)]
  have swn : swap2 m.bodies.length m.bodies.length = m.bodies.length + 1 := by
    unfold swap2; rw [if_pos rfl]
  have swn1 : swap2 m.bodies.length (m.bodies.length + 1) = m.bodies.length := by
    unfold swap2; rw [if_neg (by omega), if_pos rfl]
  have split3 : ∀ i, i < m.bodies.length + 2 →
      i < m.bodies.length ∨ i = m.bodies.length ∨ i = m.bodies.length + 1 := by
    intro i hi; omega
  have arA : ∀ (M : ModelS α) (k : Nat), (M.joint k).jt = jA.jt → (M.joint k).dof = jA.dof →
      M.arity k ≠ .other := by
    intro M k e1 e2
    unfold ModelS.arity; dsimp only; rw [e1, e2]
    rcases haA with h | ⟨h, h' | h'⟩
    · rw [if_pos h]; exact fun e => nomatch e
    · rw [if_neg h, if_pos h']; exact fun e => nomatch e
    · rw [if_neg h, if_neg (by omega), if_pos h']; exact fun e => nomatch e
  have arB : ∀ (M : ModelS α) (k : Nat), (M.joint k).jt = jB.jt → (M.joint k).dof = jB.dof →
      M.arity k ≠ .other := by
    intro M k e1 e2
    unfold ModelS.arity; dsimp only; rw [e1, e2]
    rcases haB with h | ⟨h, h' | h'⟩
    · rw [if_pos h]; exact fun e => nomatch e
    · rw [if_neg h, if_pos h']; exact fun e => nomatch e
    · rw [if_neg h, if_neg (by omega), if_pos h']; exact fun e => nomatch e
  have c1 : ¬ (m.bodies.length < m.bodies.length) := Nat.lt_irrefl _
  have c2 : ¬ (m.bodies.length + 1 < m.bodies.length) := by omega
  have c3 : m.bodies.length + 1 ≠ m.bodies.length := by omega
  refine ⟨?_, ?_⟩
  · constructor
    · rw [ts_nBodies, ts_nBodies]
    · exact sw 0 (by omega)
    · intro i h1 h2
      rw [ts_nBodies] at h2 ⊢
      rcases split3 i h2 with h | h | h
      · rw [sw i h]; omega
      · rw [h, swn]; omega
      · rw [h, swn1]; omega
    · intro i h1 h2
      rw [ts_nBodies] at h2 ⊢
      rcases split3 i h2 with h | h | h
      · rw [sw i h]; omega
      · rw [h, swn]; omega
      · rw [h, swn1]; omega
    · intro i h2
      rw [ts_nBodies] at h2
      rcases split3 i h2 with h | h | h
      · rw [sw i h, sw i h]
      · rw [h, swn, swn1]
      · rw [h, swn1, swn]
    · intro i h2
      rw [ts_nBodies] at h2
      rcases split3 i h2 with h | h | h
      · rw [sw i h, sw i h]
      · rw [h, swn, swn1]
      · rw [h, swn1, swn]
    · exact hAB.lam_lt
    · intro i h1 h2
      exact hBA.lam_lt i h1 (by rw [ts_nBodies] at h2 ⊢; exact h2)
    · intro i h1 h2
      rw [ts_nBodies] at h2
      rw [ts_lam _ _ _ _ _ _ _ _ _ _ hl1, ts_lam _ _ _ _ _ _ _ _ _ _ hl1]
      rcases split3 i h2 with h | h | h
      · have hlt := hwf.lam_lt i h1 h
        simp only [sw i h, h, if_true]
        exact (sw _ (by omega)).symm
      · subst h
        simp only [swn, c1, c2, c3, if_false, if_true, ite_true, ite_false, reduceIte]
        exact (sw _ hmp).symm
      · subst h
        simp only [swn1, c1, c2, c3, if_false, if_true, ite_true, ite_false, reduceIte]
        exact (sw _ hmp).symm
    · intro i h1 h2
      rw [ts_nBodies] at h2
      rw [ts_rbi _ _ _ _ _ _ _ _ _ _ hl6, ts_rbi _ _ _ _ _ _ _ _ _ _ hl6]
      rcases split3 i h2 with h | h | h
      · simp only [sw i h, h, if_true]
      · subst h
        simp only [swn, c1, c2, c3, if_false, if_true, ite_true, ite_false, reduceIte]
      · subst h
        simp only [swn1, c1, c2, c3, if_false, if_true, ite_true, ite_false, reduceIte]
    · intro i h1 h2
      rw [ts_nBodies] at h2
      rw [ts_body, ts_body]
      rcases split3 i h2 with h | h | h
      · simp only [sw i h, h, if_true]
      · subst h
        simp only [swn, c1, c2, c3, if_false, if_true, ite_true, ite_false, reduceIte]
      · subst h
        simp only [swn1, c1, c2, c3, if_false, if_true, ite_true, ite_false, reduceIte]
    · intro i h1 h2
      rw [ts_nBodies] at h2
      apply arity_of_joint
      all_goals
        rw [ts_joint _ _ _ _ _ _ _ _ _ _ hl3, ts_joint _ _ _ _ _ _ _ _ _ _ hl3]
        rcases split3 i h2 with h | h | h
        · simp only [sw i h, h, if_true]
        · subst h
          simp only [swn, c1, c2, c3, if_false, if_true, ite_true, ite_false, reduceIte, newJoint]
        · subst h
          simp only [swn1, c1, c2, c3, if_false, if_true, ite_true, ite_false, reduceIte, newJoint]
    · intro i h1 h2
      rw [ts_nBodies] at h2
      rcases split3 i h2 with h | h | h
      · rw [arity_of_joint _ m i i
          (by rw [ts_joint _ _ _ _ _ _ _ _ _ _ hl3]; simp only [h, if_true])
          (by rw [ts_joint _ _ _ _ _ _ _ _ _ _ hl3]; simp only [h, if_true])]
        exact har i h1 h
      · subst h
        exact arA _ _
          (by rw [ts_joint _ _ _ _ _ _ _ _ _ _ hl3]
              simp only [c1, if_false, if_true, ite_true, ite_false, reduceIte, newJoint])
          (by rw [ts_joint _ _ _ _ _ _ _ _ _ _ hl3]
              simp only [c1, if_false, if_true, ite_true, ite_false, reduceIte, newJoint])
      · subst h
        exact arB _ _
          (by rw [ts_joint _ _ _ _ _ _ _ _ _ _ hl3]
              simp only [c2, c3, if_false, if_true, ite_true, ite_false, reduceIte])
          (by rw [ts_joint _ _ _ _ _ _ _ _ _ _ hl3]
              simp only [c2, c3, if_false, if_true, ite_true, ite_false, reduceIte])
    · rfl
  · intro i h1 h2
    have hj : (twoSiblings m p XB jB bB nB XA jA bA nA).joint (swap2 m.bodies.length i)
        = { (twoSiblings m p XA jA bA nA XB jB bB nB).joint i with
            qIndex := ((twoSiblings m p XB jB bB nB XA jA bA nA).joint
              (swap2 m.bodies.length i)).qIndex } := by
      rw [ts_joint _ _ _ _ _ _ _ _ _ _ hl3, ts_joint _ _ _ _ _ _ _ _ _ _ hl3]
      rcases split3 i h2 with h | h | h
      · simp only [sw i h, h, if_true]
      · subst h
        simp only [swn, c1, c2, c3, if_false, if_true, ite_true, ite_false, reduceIte, newJoint]
      · subst h
        simp only [swn1, c1, c2, c3, if_false, if_true, ite_true, ite_false, reduceIte, newJoint]
    refine ⟨by rw [hj], by rw [hj], by rw [hj], ?_, fun _ => by rw [hj]; rfl⟩
    rw [ts_XT _ _ _ _ _ _ _ _ _ _ hl4, ts_XT _ _ _ _ _ _ _ _ _ _ hl4]
    rcases split3 i h2 with h | h | h
    · simp only [sw i h, h, if_true]
    · subst h
      simp only [swn, c1, c2, c3, if_false, if_true, ite_true, ite_false, reduceIte]
    · subst h
      simp only [swn1, c1, c2, c3, if_false, if_true, ite_true, ite_false, reduceIte]

/-- the coordinates of the two new joints: the first starts at `dofCount`, the second after it -/
theorem siblings_qIndex (hwf : m.WF) :
    ((twoSiblings m p XA jA bA nA XB jB bB nB).joint m.bodies.length).qIndex = m.dofCount ∧
    ((twoSiblings m p XA jA bA nA XB jB bB nB).joint (m.bodies.length + 1)).qIndex
      = m.dofCount + jA.dof := by
  have hn := hwf.nb_pos
  have hl3 := hwf.len_joints
  simp only [nBodies] at hn hl3
  have hlast : (m.newJoint jA).qIndex = m.dofCount := by
    simp only [newJoint]
    rw [getLastD_eq_getD, hl3]
    exact hwf.q_last
  rw [ts_joint _ _ _ _ _ _ _ _ _ _ hl3, ts_joint _ _ _ _ _ _ _ _ _ _ hl3]
  have c1 : ¬ (m.bodies.length < m.bodies.length) := Nat.lt_irrefl _
  have c2 : ¬ (m.bodies.length + 1 < m.bodies.length) := by omega
  have c3 : m.bodies.length + 1 ≠ m.bodies.length := by omega
  simp only [c1, c2, c3, if_false, if_true, ite_true, ite_false, reduceIte, hlast, and_self]
end

section
variable {α : Type} [Field α] [DecidableEq α]

/-- `twoSiblings` is what two successful `AddBody` calls with single-body joints produce -/
theorem twoSiblings_of_addBody (m : ModelS α) (p : Nat) (XA : XT α) (jA : Joint α) (bA : Body α)
    (nA : String) (XB : XT α) (jB : Joint α) (bB : Body α) (nB : String) (m1 m2 : ModelS α)
    (n1 n2 : Nat) (hkA : jA.jt.kind = .single) (hkB : jB.jt.kind = .single)
    (h1 : m.addBody p XA jA bA nA = (m1, .ok n1)) (h2 : m1.addBody p XB jB bB nB = (m2, .ok n2)) :
    m2 = twoSiblings m p XA jA bA nA XB jB bB nB ∧ n1 = m.bodies.length ∧
      n2 = m.bodies.length + 1 := by
  rw [addBody_single _ _ _ _ _ _ hkA, addBodyMovable_eq] at h1
  split at h1
  · cases h1
  simp only [Prod.mk.injEq, Except.ok.injEq] at h1
  obtain ⟨e1, e2⟩ := h1
  subst e1 e2
  rw [addBody_single _ _ _ _ _ _ hkB, addBodyMovable_eq] at h2
  split at h2
  · cases h2
  simp only [Prod.mk.injEq, Except.ok.injEq] at h2
  obtain ⟨e1, e2⟩ := h2
  subst e1 e2
  refine ⟨rfl, rfl, ?_⟩
  simp [movableResult]
end
end Rbdl.L07
