import RbdlProofs.Lemmas.AbaLoops
/-
  C02, part 2 (phase 1): the first loop of `forwardDynamics` and the forward loops of
  `inverseDynamics` compute the same kinematics; the forces of `inverseDynamics` are
  `f_i = I_i a_i + pA_i` with the `IA[i] = I_i`, `pA[i]` that `forwardDynamics` starts from.
-/
namespace Rbdl.L02
open Lean.Grind Rbdl
set_option linter.unusedSectionVars false

section
variable {α : Type} [Field α] [DecidableEq α]

/-- body force in matrix form; a virtual body has to carry the zero inertia -/
theorem bodyForce_eq (m : ModelS α) (w : WS α) (i : Nat)
    (hvirt : (m.body i).isVirtual = true → m.rbi i = RBI.zero) :
    bodyForce m w i = (m.rbi i).toMatrix * w.a i + crossf (w.v i) (m.rbi i * w.v i) := by
  unfold bodyForce
  split
  · next h => rw [hvirt h]; alg_ext
  · rw [C16.rbi_mulVec_eq]

/-- lockstep relation of the two forward loops; `i` = first body not yet processed, `s` = state
    of `forwardDynamics` (started on `w`), `r` = state of `inverseDynamics` (started on `w2`) -/
structure R1 (m : ModelS α) (qdd : VecN α) (fext : Option (Nat → SV α)) (w w2 : WS α)
    (i : Nat) (s r : WS α) : Prop where
  v_eq : ∀ j, j < i → r.v j = s.v j
  xl : ∀ j, 1 ≤ j → j < i → r.X_lambda j = s.X_lambda j
  sS : ∀ j, 1 ≤ j → j < i → r.S j = s.S j
  sS3 : ∀ j, 1 ≤ j → j < i → r.S3 j = s.S3 j
  cc : ∀ j, 1 ≤ j → j < i → r.c j = s.c j
  pend_s : ∀ j, i ≤ j → jd s j = jd w j
  pend_r : ∀ j, i ≤ j → jd r j = jd w2 j
  a0 : r.a 0 = spatialGravityNeg m
  acc : ∀ j, 1 ≤ j → j < i →
    r.a j = (s.X_lambda j).apply (r.a (m.lam j)) + s.c j + s.Sqdd m j qdd
  frc : ∀ j, 1 ≤ j → j < i → r.f j = s.IA j * r.a j + s.pA j + fextTerm fext (s.X_base j) j
  ia : ∀ j, 1 ≤ j → j < i → s.IA j = (m.rbi j).toMatrix
  xb : ∀ j, 1 ≤ j → j < i →
    s.X_base j = if m.lam j ≠ 0 then s.X_lambda j * s.X_base (m.lam j) else s.X_lambda j
  xb_r : r.X_base = w2.X_base

theorem R1_init (m : ModelS α) (qdd : VecN α) (fext : Option (Nat → SV α)) (w w2 : WS α) :
    R1 m qdd fext w w2 1 { w with v := upd w.v 0 SV.zero }
      { w2 with v := upd w2.v 0 SV.zero, a := upd w2.a 0 (spatialGravityNeg m) } := by
  constructor
  · intro j hj
    have : j = 0 := by omega
    subst this; simp only [upd_same]
  all_goals first
    | (intro j h1 h2; omega)
    | (intro j _; rfl)
    | rfl
    | simp only [upd_same]

theorem R1_step (m : ModelS α) (st : QS α) (qd qdd : VecN α) (fext : Option (Nat → SV α))
    (w w2 : WS α) (i : Nat) (s r : WS α)
    (h1 : 1 ≤ i) (hlams : ∀ j, 1 ≤ j → j ≤ i → m.lam j < j)
    (hars : ∀ j, 1 ≤ j → j ≤ i → m.arity j = .one ∨ m.arity j = .three)
    (hJ : jd (jcalc m w2 i st qd) i = jd (jcalc m w i st qd) i)
    (hvirt : (m.body i).isVirtual = true → m.rbi i = RBI.zero)
    (h : R1 m qdd fext w w2 i s r) :
    R1 m qdd fext w w2 (i + 1) (fdB1 m st qd fext i s) (idB1 m st qd qdd i r) := by
  have hlam : m.lam i < i := hlams i h1 (Nat.le_refl _)
  have hlami : m.lam i ≠ i := by omega
  have hno : m.arity i ≠ .other := by
    rcases hars i h1 (Nat.le_refl _) with h | h <;> rw [h] <;> decide
  have hnc : ∀ j, 1 ≤ j → j ≤ i → m.arity j ≠ .custom := by
    intro j hj1 hj2
    rcases hars j hj1 hj2 with h | h <;> rw [h] <;> decide
  have hjd : jd (jcalc m r i st qd) i = jd (jcalc m s i st qd) i := by
    rw [jcalc_jd_congr m r w2 i st qd (h.pend_r i (Nat.le_refl _)), hJ,
      jcalc_jd_congr m s w i st qd (h.pend_s i (Nat.le_refl _))]
  have hjs : jd (fdB1 m st qd fext i s) i = jd (jcalc m s i st qd) i := fdB1_jd m st qd fext i s i
  have hjr : jd (idB1 m st qd qdd i r) i = jd (jcalc m s i st qd) i := by rw [idB1_jd, hjd]
  have hos : ∀ j, j ≠ i → jd (fdB1 m st qd fext i s) j = jd s j :=
    fun j hj => fdB1_jd_other m st qd fext i s j hj
  have hor : ∀ j, j ≠ i → jd (idB1 m st qd qdd i r) j = jd r j :=
    fun j hj => idB1_jd_other m st qd qdd i r j hj
  have hvs : (fdB1 m st qd fext i s).v i
      = ((jcalc m s i st qd).X_lambda i).apply (s.v (m.lam i)) + (jcalc m s i st qd).v_J i := by
    rw [fdB1_v, upd_same]
  have hvr : (idB1 m st qd qdd i r).v i = (fdB1 m st qd fext i s).v i := by
    rw [hvs, idB1_v, upd_same, jd_X hjd, jd_vJ hjd, h.v_eq _ hlam]
  have hcs : (fdB1 m st qd fext i s).c i = (jcalc m s i st qd).c_J i
      + crossm ((fdB1 m st qd fext i s).v i) ((jcalc m s i st qd).v_J i) := by
    rw [fdB1_c, upd_same]
  have hcr : (idB1 m st qd qdd i r).c i = (fdB1 m st qd fext i s).c i := by
    rw [hcs, idB1_c, upd_same, hvr, jd_cJ hjd, jd_vJ hjd]
  have har : (idB1 m st qd qdd i r).a i
      = ((fdB1 m st qd fext i s).X_lambda i).apply (r.a (m.lam i)) + (fdB1 m st qd fext i s).c i
        + (fdB1 m st qd fext i s).Sqdd m i qdd := by
    rw [idB1_a m st qd qdd i r hno, upd_same, hcr, jd_X hjd, jd_X hjs]
    rw [Sqdd_congr m (jcalc m r i st qd) (fdB1 m st qd fext i s) i qdd
      ((jd_S hjd).trans (jd_S hjs).symm) ((jd_S3 hjd).trans (jd_S3 hjs).symm)
      (hnc i h1 (Nat.le_refl _))]
  have hao : ∀ j, j ≠ i → (idB1 m st qd qdd i r).a j = r.a j := by
    intro j hj; rw [idB1_a m st qd qdd i r hno, upd_other _ _ _ _ hj]
  constructor
  · -- v_eq
    intro j hj
    by_cases hji : j = i
    · rw [hji]; exact hvr
    · rw [idB1_v, fdB1_v, upd_other _ _ _ _ hji, upd_other _ _ _ _ hji]
      exact h.v_eq j (by omega)
  · -- xl
    intro j hj1 hj
    by_cases hji : j = i
    · rw [hji, jd_X hjr, jd_X hjs]
    · rw [jd_X (hor j hji), jd_X (hos j hji)]; exact h.xl j hj1 (by omega)
  · -- sS
    intro j hj1 hj
    by_cases hji : j = i
    · rw [hji, jd_S hjr, jd_S hjs]
    · rw [jd_S (hor j hji), jd_S (hos j hji)]; exact h.sS j hj1 (by omega)
  · -- sS3
    intro j hj1 hj
    by_cases hji : j = i
    · rw [hji, jd_S3 hjr, jd_S3 hjs]
    · rw [jd_S3 (hor j hji), jd_S3 (hos j hji)]; exact h.sS3 j hj1 (by omega)
  · -- cc
    intro j hj1 hj
    by_cases hji : j = i
    · rw [hji]; exact hcr
    · rw [idB1_c, fdB1_c, upd_other _ _ _ _ hji, upd_other _ _ _ _ hji]
      exact h.cc j hj1 (by omega)
  · -- pend_s
    intro j hj
    rw [hos j (by omega)]; exact h.pend_s j (by omega)
  · -- pend_r
    intro j hj
    rw [hor j (by omega)]; exact h.pend_r j (by omega)
  · -- a0
    rw [hao 0 (by omega)]; exact h.a0
  · -- acc
    intro j hj1 hj
    by_cases hji : j = i
    · rw [hji, har, hao _ hlami]
    · have hj' : j < i := by omega
      have hlj : m.lam j ≠ i := by have := hlams j hj1 (by omega); omega
      rw [hao j hji, hao _ hlj, jd_X (hos j hji), fdB1_c, upd_other _ _ _ _ hji,
        Sqdd_congr m (fdB1 m st qd fext i s) s j qdd (jd_S (hos j hji)) (jd_S3 (hos j hji))
          (hnc j hj1 (by omega))]
      exact h.acc j hj1 hj'
  · -- frc
    intro j hj1 hj
    by_cases hji : j = i
    · rw [hji, idB1_f, upd_same, bodyForce_eq m _ i hvirt, fdB1_IA, upd_same, hvr]
      conv => rhs; rw [fdB1_pA, upd_same, sv_add_assoc, fdP1_add_fextTerm]
    · have hj' : j < i := by omega
      rw [idB1_f, upd_other _ _ _ _ hji, hao j hji, fdB1_IA, upd_other _ _ _ _ hji, fdB1_pA,
        upd_other _ _ _ _ hji, fdB1_X_base, upd_other _ _ _ _ hji]
      exact h.frc j hj1 hj'
  · -- ia
    intro j hj1 hj
    by_cases hji : j = i
    · rw [hji, fdB1_IA, upd_same]
    · rw [fdB1_IA, upd_other _ _ _ _ hji]; exact h.ia j hj1 (by omega)
  · -- xb
    intro j hj1 hj
    by_cases hji : j = i
    · rw [hji, jd_X hjs, fdB1_X_base, upd_same, upd_other _ _ _ _ hlami]
    · have hlj : m.lam j ≠ i := by have := hlams j hj1 (by omega); omega
      rw [jd_X (hos j hji), fdB1_X_base, upd_other _ _ _ _ hji, upd_other _ _ _ _ hlj]
      exact h.xb j hj1 (by omega)
  · -- xb_r
    rw [idB1_X_base]; exact h.xb_r

/-- Hypotheses of the tree theorem on the model, the state and the two workspaces (`w` is given to
    `forwardDynamics`, `w2` to `inverseDynamics`). -/
structure Hyp (m : ModelS α) (st : QS α) (qd : VecN α) (fext : Option (Nat → SV α))
    (w w2 : WS α) : Prop where
  /-- parents precede children -/
  tree : ∀ j, 1 ≤ j → j < m.nBodies → m.lam j < j
  /-- every joint is a 1-DoF or a 3-DoF joint (no custom joints) -/
  ar : ∀ j, 1 ≤ j → j < m.nBodies → m.arity j = .one ∨ m.arity j = .three
  /-- `jcalc` leaves the same joint data (`X_lambda`, `S`, `multdof3_S`, `v_J`, `c_J`) in both
      workspaces; this is where the entries `jcalc` does not write (`S[i]` of fixed-axis joints,
      ...) enter -/
  agree : ∀ j, 1 ≤ j → j < m.nBodies → jd (jcalc m w2 j st qd) j = jd (jcalc m w j st qd) j
  /-- virtual bodies carry the zero inertia (`inverseDynamics` skips them, `forwardDynamics`
      does not) -/
  virt : ∀ j, 1 ≤ j → j < m.nBodies → (m.body j).isVirtual = true → m.rbi j = RBI.zero
  /-- coordinates of different joints do not overlap -/
  qidx : ∀ i j, 1 ≤ i → i < j → j < m.nBodies →
    (m.joint i).qIndex + (m.joint i).dof ≤ (m.joint j).qIndex
  /-- with external forces `inverseDynamics` reads `X_base[0]` -/
  xb0 : fext = none ∨ w2.X_base 0 = XT.id

theorem R1_loop (m : ModelS α) (st : QS α) (qd qdd : VecN α) (fext : Option (Nat → SV α))
    (w w2 : WS α) (H : Hyp m st qd fext w w2) :
    R1 m qdd fext w w2 (1 + (m.nBodies - 1))
      (forUp (m.nBodies - 1) 1 (fdB1 m st qd fext) { w with v := upd w.v 0 SV.zero })
      (forUp (m.nBodies - 1) 1 (idB1 m st qd qdd)
        { w2 with v := upd w2.v 0 SV.zero, a := upd w2.a 0 (spatialGravityNeg m) }) := by
  apply forUp_rel (R1 m qdd fext w w2) _ _ (m.nBodies - 1) 1 _ _ (R1_init m qdd fext w w2)
  intro i s r hi1 hi2 h
  exact R1_step m st qd qdd fext w w2 i s r hi1 (fun j a b => H.tree j a (by omega))
    (fun j a b => H.ar j a (by omega)) (H.agree i hi1 (by omega)) (H.virt i hi1 (by omega)) h

/-! ### the external-force loop of `inverseDynamics` -/

theorem sv_add_sub_cancel_right (x y : SV α) : x + y - y = x := by alg_ext

/-- invariant of the external-force loop (`w1`, `r1` = states after the first loops) -/
structure Q1 (m : ModelS α) (w1 r1 : WS α) (i : Nat) (r : WS α) : Prop where
  fr_X : r.X_lambda = r1.X_lambda
  fr_S : r.S = r1.S
  fr_S3 : r.S3 = r1.S3
  fr_a : r.a = r1.a
  xb0 : r.X_base 0 = XT.id
  done : ∀ j, 1 ≤ j → j < i →
    r.X_base j = w1.X_base j ∧ r.f j = w1.IA j * r1.a j + w1.pA j
  todo : ∀ j, i ≤ j → r.f j = r1.f j

theorem Q1_step (m : ModelS α) (qdd : VecN α) (fe : Nat → SV α) (w w2 w1 r1 : WS α) (N i : Nat)
    (r : WS α) (h1 : 1 ≤ i) (hiN : i < N) (hlam : m.lam i < i)
    (hR : R1 m qdd (some fe) w w2 N w1 r1) (h : Q1 m w1 r1 i r) :
    Q1 m w1 r1 (i + 1) (idBF m fe i r) := by
  have hxb : (idBF m fe i r).X_base i = w1.X_base i := by
    show upd r.X_base i (r.X_lambda i * r.X_base (m.lam i)) i = _
    rw [upd_same, h.fr_X, hR.xl i h1 hiN, hR.xb i h1 hiN]
    by_cases hl : m.lam i = 0
    · rw [hl, h.xb0, C16.mul_id]; simp
    · rw [(h.done (m.lam i) (by omega) hlam).1]; simp [hl]
  constructor
  · exact h.fr_X
  · exact h.fr_S
  · exact h.fr_S3
  · exact h.fr_a
  · show upd r.X_base i _ 0 = _
    rw [upd_other _ _ _ _ (by omega)]; exact h.xb0
  · intro j hj1 hj
    by_cases hji : j = i
    · rw [hji]
      refine ⟨hxb, ?_⟩
      show upd r.f i (r.f i - ((idBF m fe i r).X_base i).applyAdjoint (fe i)) i = _
      rw [upd_same, hxb, h.todo i (Nat.le_refl _), hR.frc i h1 hiN]
      exact sv_add_sub_cancel_right _ _
    · have := h.done j hj1 (by omega)
      refine ⟨?_, ?_⟩
      · show upd r.X_base i _ j = _
        rw [upd_other _ _ _ _ hji]; exact this.1
      · show upd r.f i _ j = _
        rw [upd_other _ _ _ _ hji]; exact this.2
  · intro j hj
    show upd r.f i _ j = _
    rw [upd_other _ _ _ _ (by omega)]; exact h.todo j (by omega)

/-- what the later phases need from the forward loops: `w1` = state of `forwardDynamics` after
    its first loop, `r1` = state of `inverseDynamics` before `rneaBackward` -/
structure P1 (m : ModelS α) (qdd : VecN α) (w1 r1 : WS α) : Prop where
  xl : ∀ j, 1 ≤ j → j < m.nBodies → r1.X_lambda j = w1.X_lambda j
  sS : ∀ j, 1 ≤ j → j < m.nBodies → r1.S j = w1.S j
  sS3 : ∀ j, 1 ≤ j → j < m.nBodies → r1.S3 j = w1.S3 j
  a0 : r1.a 0 = spatialGravityNeg m
  acc : ∀ j, 1 ≤ j → j < m.nBodies →
    r1.a j = (w1.X_lambda j).apply (r1.a (m.lam j)) + w1.c j + w1.Sqdd m j qdd
  frc : ∀ j, 1 ≤ j → j < m.nBodies → r1.f j = w1.IA j * r1.a j + w1.pA j
  sym : ∀ j, 1 ≤ j → j < m.nBodies → SymSM (w1.IA j)

theorem phase1 (m : ModelS α) (st : QS α) (qd qdd : VecN α) (fext : Option (Nat → SV α))
    (w w2 : WS α) (H : Hyp m st qd fext w w2) :
    P1 m qdd (fdW1 m st qd fext w) (idR1 m st qd qdd fext w2) := by
  have hR : R1 m qdd fext w w2 (1 + (m.nBodies - 1)) (fdW1 m st qd fext w)
      (idR0 m st qd qdd w2) := R1_loop m st qd qdd fext w w2 H
  generalize fdW1 m st qd fext w = w1 at hR ⊢
  have hsym : ∀ j, 1 ≤ j → j < m.nBodies → SymSM (w1.IA j) := by
    intro j hj1 hj2
    rw [hR.ia j hj1 (by omega)]; exact symSM_rbi _
  have hx0 := H.xb0
  have htree := H.tree
  clear H
  cases fext with
  | none =>
    show P1 m qdd w1 (idR0 m st qd qdd w2)
    exact {
      xl := fun j a b => hR.xl j a (by omega)
      sS := fun j a b => hR.sS j a (by omega)
      sS3 := fun j a b => hR.sS3 j a (by omega)
      a0 := hR.a0
      acc := fun j a b => hR.acc j a (by omega)
      frc := fun j a b => by
        have := hR.frc j a (by omega)
        rw [this]; exact sv_add_zero _
      sym := hsym }
  | some fe =>
    show P1 m qdd w1 (forUp (m.nBodies - 1) 1 (idBF m fe) (idR0 m st qd qdd w2))
    generalize idR0 m st qd qdd w2 = r1 at hR ⊢
    have hx0' : r1.X_base 0 = XT.id := by
      rw [hR.xb_r]
      rcases hx0 with h | h
      · cases h
      · exact h
    have hQ : Q1 m w1 r1 (1 + (m.nBodies - 1)) (forUp (m.nBodies - 1) 1 (idBF m fe) r1) := by
      apply forUp_inv (Q1 m w1 r1) (idBF m fe) (m.nBodies - 1) 1 r1
      · exact ⟨rfl, rfl, rfl, rfl, hx0', fun j a b => by omega, fun j _ => rfl⟩
      · intro i r hi1 hi2 h
        exact Q1_step m qdd fe w w2 w1 r1 (1 + (m.nBodies - 1)) i r hi1 hi2
          (htree i hi1 (by omega)) hR h
    exact {
      xl := fun j a b => by rw [hQ.fr_X]; exact hR.xl j a (by omega)
      sS := fun j a b => by rw [hQ.fr_S]; exact hR.sS j a (by omega)
      sS3 := fun j a b => by rw [hQ.fr_S3]; exact hR.sS3 j a (by omega)
      a0 := by rw [hQ.fr_a]; exact hR.a0
      acc := fun j a b => by rw [hQ.fr_a]; exact hR.acc j a (by omega)
      frc := fun j a b => by rw [hQ.fr_a]; exact (hQ.done j a (by omega)).2
      sym := hsym }

end
end Rbdl.L02
