import RbdlProofs.Lemmas.Alg16
/-
  Helper lemmas for the C15 properties (`Body.join`, `Body.separate`, the setters):
  closed forms of `TransformInertiaToBodyFrame`, `Join`, `Separate`; the algebraic cores
  (parallel-axis bookkeeping); list lemmas for the model-level setter theorems; concrete
  instances over `Rat`.
-/
namespace Rbdl
open Lean.Grind

attribute [ext] Body

/-- the symmetric matrix that `SpatialRigidBodyInertia(m, h, I)` keeps of `I`: its lower triangle,
    mirrored (`RBI.ofMat … |>.Imat`) -/
def M3.lowSym {α : Type} (I : M3 α) : M3 α :=
  ⟨I.m00, I.m10, I.m20, I.m10, I.m11, I.m21, I.m20, I.m21, I.m22⟩
attribute [alg] M3.lowSym

theorem M3.lowSym_of_symm {α : Type} {I : M3 α} (h : I.transpose = I) : I.lowSym = I := by
  have h' := congrArg (fun (A : M3 α) => (A.m01, A.m02, A.m12)) h
  simp only [M3.transpose, Prod.mk.injEq] at h'
  obtain ⟨h1, h2, h3⟩ := h'
  ext <;> simp only [alg] <;> grind

section ring
variable {α : Type} [CommRing α]

/-- `v̂ v̂ᵀ = |v|² 1 − v vᵀ`, the matrix of the parallel-axis theorem -/
def V3.pax (v : V3 α) : M3 α := M3.skew v * (M3.skew v).transpose
attribute [alg] V3.pax

/-- the inertia about the frame origin stored by `createFromMassComInertiaC` -/
theorem ofMassComInertiaC_Imat (m : α) (c : V3 α) (I : M3 α) :
    (RBI.ofMassComInertiaC m c I).Imat = I.lowSym + m * c.pax := by alg_ext

end ring

section field
variable {α : Type} [Field α]

/-- the inertial parameters without the `is_virtual` flag -/
def Body.params (b : Body α) : α × V3 α × M3 α := (b.mass, b.com, b.inertia)
/-- where `b`'s centre of mass lies in the parent frame when `b` is placed by `X` -/
def Body.comIn (X : XT α) (b : Body α) : V3 α := X.E.tmulVec b.com + X.r
/-- centre of mass computed by `Join` -/
def Body.joinCom (a : Body α) (X : XT α) (b : Body α) : V3 α :=
  (1 / (a.mass + b.mass)) * (a.mass * a.com + b.mass * Body.comIn X b)
/-- centre of mass computed by `Separate` -/
def Body.sepCom (a : Body α) (X : XT α) (b : Body α) : V3 α :=
  (1 / (a.mass - b.mass)) * (a.mass * a.com - b.mass * Body.comIn X b)
/-- inertia about the frame origin, as `Join`/`Separate` read it -/
def Body.originInertia (a : Body α) : M3 α := a.inertia.lowSym + a.mass * a.com.pax

/-- `TransformInertiaToBodyFrame` in closed form (no hypothesis on `X`) -/
theorem Body.transformInertiaToBodyFrame_eq (X : XT α) (b : Body α) :
    Body.transformInertiaToBodyFrame X b
      = X.E.transpose * b.inertia.lowSym * X.E + b.mass * (X.E.tmulVec b.com + X.r).pax := by
  simp only [Body.transformInertiaToBodyFrame, Body.parallelAxis]
  alg_ext

theorem Body.toRBI_eq (b : Body α) :
    b.toRBI = RBI.ofMat b.mass (b.mass * b.com) (b.inertia + b.mass * b.com.pax) := rfl

/-- `Xᵀ I_b X` of a body's spatial inertia is the spatial inertia built from
    `TransformInertiaToBodyFrame` (rotation needed: `Eᵀ ĉ ĉᵀ E = (Eᵀc)^ (Eᵀc)^ᵀ`) -/
theorem Body.applyTransposeRBI_toRBI (X : XT α) (h : X.E.IsRot) (b : Body α) :
    X.applyTransposeRBI b.toRBI
      = RBI.ofMat b.mass (b.mass * Body.comIn X b) (Body.transformInertiaToBodyFrame X b) := by
  simp only [Body.transformInertiaToBodyFrame_eq, Body.toRBI, Body.comIn]
  rot_ext h

theorem Body.joinCom_spec {a : Body α} {X : XT α} {b : Body α} (hM : a.mass + b.mass ≠ 0) :
    (a.mass + b.mass) * a.joinCom X b = a.mass * a.com + b.mass * Body.comIn X b := by
  ext <;> simp only [Body.joinCom, alg] <;> grind

theorem Body.sepCom_spec {a : Body α} {X : XT α} {b : Body α} (hM : a.mass - b.mass ≠ 0) :
    (a.mass - b.mass) * a.sepCom X b = a.mass * a.com - b.mass * Body.comIn X b := by
  ext <;> simp only [Body.sepCom, alg] <;> grind

/-- the definition-level rigid union, with the centre of mass written as `Join` computes it -/
theorem Spec.rigidUnion_eq (a : Body α) (X : XT α) (b : Body α) :
    Spec.rigidUnion a.mass a.com a.inertia X.E X.r b.mass b.com b.inertia
      = (a.mass + b.mass, a.joinCom X b,
          Spec.shiftInertia a.inertia a.mass a.com (a.joinCom X b)
          + Spec.shiftInertia (X.E.transpose * b.inertia * X.E) b.mass (Body.comIn X b)
              (a.joinCom X b)) := by
  have h1 : X.r + X.E.transpose * b.com = Body.comIn X b := by
    simp only [Body.comIn]; alg_ext
  simp only [Spec.rigidUnion, h1]
  rfl

/-- parallel-axis bookkeeping: inertias about the origin minus the total mass at the common centre
    of mass = the two inertias shifted to the common centre of mass -/
theorem Spec.shiftInertia_core (ma mb : α) (ca c' C : V3 α)
    (hC : (ma + mb) * C = ma * ca + mb * c') (A B : M3 α) :
    A + ma * ca.pax + (B + mb * c'.pax) - (ma + mb) * C.pax
      = Spec.shiftInertia A ma ca C + Spec.shiftInertia B mb c' C := by
  have hx := congrArg V3.x hC
  have hy := congrArg V3.y hC
  have hz := congrArg V3.z hC
  simp only [alg] at hx hy hz
  ext <;> simp only [alg, Spec.shiftInertia] <;> grind

/-- the inertia about the origin that `Join` stores is the sum of the two inertias about the origin
    (whatever mass / centre of mass is stored with it; no symmetry needed: both summands are
    symmetric by construction) -/
theorem Body.originInertia_join (a : Body α) (X : XT α) (b : Body α) (m : α) (C : V3 α) (v : Bool) :
    (Body.mk m C (a.originInertia + Body.transformInertiaToBodyFrame X b - m * C.pax) v).originInertia
      = a.originInertia + Body.transformInertiaToBodyFrame X b := by
  simp only [Body.originInertia, Body.transformInertiaToBodyFrame_eq]
  alg_ext

/-! ### `Join` / `Separate` in closed form -/
section closed
variable [DecidableEq α]

theorem Body.join_null {a : Body α} {X : XT α} {b : Body α}
    (hb : b.mass = 0 ∧ b.inertia = M3.zero) : a.join X b = some a := by
  simp only [Body.join, hb, and_self, if_true]

theorem Body.join_zeroMass {a : Body α} {X : XT α} {b : Body α}
    (hb : ¬(b.mass = 0 ∧ b.inertia = M3.zero)) (hM : a.mass + b.mass = 0) : a.join X b = none := by
  simp only [Body.join, hb, hM, if_false, if_true]

theorem Body.join_eq {a : Body α} {X : XT α} {b : Body α}
    (hb : ¬(b.mass = 0 ∧ b.inertia = M3.zero)) (hM : a.mass + b.mass ≠ 0) :
    a.join X b = some ⟨a.mass + b.mass, a.joinCom X b,
      a.originInertia + Body.transformInertiaToBodyFrame X b
        - (a.mass + b.mass) * (a.joinCom X b).pax, false⟩ := by
  simp only [Body.join, hb, hM, if_false, ofMassComInertiaC_Imat]
  rfl

theorem Body.separate_null {a : Body α} {X : XT α} {b : Body α}
    (hb : b.mass = 0 ∧ b.inertia = M3.zero) : a.separate X b = some a := by
  simp only [Body.separate, hb, and_self, if_true]

theorem Body.separate_massless {a : Body α} {X : XT α} {b : Body α}
    (hb : ¬(b.mass = 0 ∧ b.inertia = M3.zero)) (hM : a.mass - b.mass = 0) :
    a.separate X b = some ⟨0, V3.zero,
      a.originInertia - Body.transformInertiaToBodyFrame X b, false⟩ := by
  simp only [Body.separate, hb, hM, if_false, if_true, ofMassComInertiaC_Imat]
  rfl

theorem Body.separate_eq {a : Body α} {X : XT α} {b : Body α}
    (hb : ¬(b.mass = 0 ∧ b.inertia = M3.zero)) (hM : a.mass - b.mass ≠ 0) :
    a.separate X b = some ⟨a.mass - b.mass, a.sepCom X b,
      a.originInertia - Body.transformInertiaToBodyFrame X b
        - (a.mass - b.mass) * (a.sepCom X b).pax, false⟩ := by
  simp only [Body.separate, hb, hM, if_false, ofMassComInertiaC_Imat]
  rfl

/-- `Join` reads only mass, centre of mass and inertia of the receiver -/
theorem Body.join_params_congr {a a' : Body α} (h : a.params = a'.params) (X : XT α) (b : Body α) :
    (a.join X b).map Body.params = (a'.join X b).map Body.params := by
  obtain ⟨m, c, I, v⟩ := a
  obtain ⟨m', c', I', v'⟩ := a'
  simp only [Body.params, Prod.mk.injEq] at h
  obtain ⟨rfl, rfl, rfl⟩ := h
  by_cases hb : b.mass = 0 ∧ b.inertia = M3.zero
  · rw [Body.join_null hb, Body.join_null hb]; rfl
  · by_cases hM : m + b.mass = 0
    · rw [Body.join_zeroMass hb hM, Body.join_zeroMass hb hM]
    · rw [Body.join_eq hb hM, Body.join_eq hb hM]; rfl

/-- `Join` reads only mass, centre of mass and inertia of the argument -/
theorem Body.join_congr_right {b b' : Body α} (h : b.params = b'.params) (a : Body α) (X : XT α) :
    a.join X b = a.join X b' := by
  obtain ⟨m, c, I, v⟩ := b
  obtain ⟨m', c', I', v'⟩ := b'
  simp only [Body.params, Prod.mk.injEq] at h
  obtain ⟨rfl, rfl, rfl⟩ := h
  rfl

/-- `Separate` reads only mass, centre of mass and inertia of the argument -/
theorem Body.separate_congr_right {b b' : Body α} (h : b.params = b'.params) (a : Body α)
    (X : XT α) : a.separate X b = a.separate X b' := by
  obtain ⟨m, c, I, v⟩ := b
  obtain ⟨m', c', I', v'⟩ := b'
  simp only [Body.params, Prod.mk.injEq] at h
  obtain ⟨rfl, rfl, rfl⟩ := h
  rfl

/-- `Separate ∘ Join` in the generic branch, without any symmetry hypothesis: the lower triangle of
    the inertia comes back -/
theorem Body.separate_join_lowSym {a b : Body α} {X : XT α}
    (hb : ¬(b.mass = 0 ∧ b.inertia = M3.zero)) (hm : a.mass ≠ 0) (hM : a.mass + b.mass ≠ 0) :
    (a.join X b).bind (fun u => u.separate X b)
      = some ⟨a.mass, a.com, a.inertia.lowSym, false⟩ := by
  rw [Body.join_eq hb hM, Option.bind_some]
  have hm' : a.mass + b.mass - b.mass ≠ 0 := by grind
  rw [Body.separate_eq hb hm', Body.originInertia_join]
  have hS : Body.sepCom ⟨a.mass + b.mass, a.joinCom X b,
      a.originInertia + Body.transformInertiaToBodyFrame X b
        - (a.mass + b.mass) * (a.joinCom X b).pax, false⟩ X b = a.com := by
    ext <;> simp only [Body.sepCom, Body.joinCom, alg] <;> grind
  rw [hS]
  simp only [Body.originInertia]
  generalize Body.transformInertiaToBodyFrame X b = T
  simp only [Option.some.injEq, Body.mk.injEq, and_true]
  refine ⟨by grind, trivial, ?_⟩
  ext <;> simp only [alg] <;> grind

end closed
end field

/-! ### concrete non-trivial instances over `Rat` -/
namespace C15.Ex
open C16.Ex

/-- the rotation + translation of the C16 examples -/
abbrev X : XT Rat := C16.Ex.X
theorem X_isRot : X.E.IsRot := C16.Ex.X_isRot
/-- a second symmetric, non-diagonal inertia -/
def Ic2 : M3 Rat := ⟨5, -1, 2,  -1, 6, 0,  2, 0, 7⟩
def A : Body Rat := ⟨2, ⟨1, 0, -1⟩, Ic, false⟩
def B : Body Rat := ⟨3, ⟨0, 1, 2⟩, Ic2, false⟩
def B' : Body Rat := ⟨5, ⟨1, 1, 0⟩, Ic, false⟩
/-- a massless dummy link with a (symmetric) inertia left over -/
def Z : Body Rat := ⟨0, ⟨3, 1, 4⟩, Ic2, true⟩
/-- the massless dummy link of the multi-DoF emulation -/
def Z0 : Body Rat := ⟨0, V3.zero, M3.zero, true⟩
attribute [alg] Ic2 A B B' Z Z0

theorem Ic2_symm : Ic2.transpose = Ic2 := rfl
theorem A_symm : A.inertia.transpose = A.inertia := rfl
theorem B_symm : B.inertia.transpose = B.inertia := rfl
theorem Z_symm : Z.inertia.transpose = Z.inertia := rfl
theorem A_mass : A.mass ≠ 0 := by simp only [alg]; grind
theorem B_mass : B.mass ≠ 0 := by simp only [alg]; grind
theorem AB_mass : A.mass + B.mass ≠ 0 := by simp only [alg]; grind
theorem AB'_mass : A.mass + B'.mass ≠ 0 := by simp only [alg]; grind

end C15.Ex
end Rbdl
