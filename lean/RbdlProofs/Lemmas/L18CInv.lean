import RbdlProofs.Lemmas.L18CCurveMono
/-
  C18 at curve level, part 10: `calcInverseValue` returns a pre-image.
-/
set_option linter.unusedSectionVars false
namespace Rbdl.L18C
open Lean.Grind Std Rbdl.Geom Rbdl.L18

section curve
variable {α : Type} [Field α] [Inhabited α] [LE α] [LT α] [LawfulOrderLT α] [IsLinearOrder α]
  [OrderedRing α] [DecidableLT α] [DecidableLE α] [DecidableEq α]

theorem strictIncr_mono (p : P6 α) (h : p.StrictIncr) : p.Mono := by
  obtain ⟨a0, a1, a2, a3, a4⟩ := h
  exact ⟨by grind, by grind, by grind, by grind, by grind⟩

theorem knot_bounds (c : Curve α) (h : c.WF) (i : Nat) (hi : i < c.nseg) :
    c.x0 ≤ (c.segX i).p0 ∧ (c.segX i).p5 ≤ c.x1 := by
  have hp := h.pos
  constructor
  · rw [h.hx0]
    by_cases e : i = 0
    · subst e; exact Std.le_refl _
    · have := p5_le_p0 c h 0 i (by omega) hi
      have := p0_lt_p5 c h 0 hp
      grind
  · rw [h.hx1]
    by_cases e : i = c.nseg - 1
    · subst e; exact Std.le_refl _
    · have := p5_le_p0 c h i (c.nseg - 1) (by omega) (by omega)
      have := p0_lt_p5 c h (c.nseg - 1) (by omega)
      grind

theorem ite_fst_some {β γ : Type} (b : Bool) (A B : Option β × γ) (k : β)
    (h : (if b = true then A else B).1 = some k) : (b = true ∧ A.1 = some k) ∨ B.1 = some k := by
  cases b
  · right; simpa using h
  · left; exact ⟨rfl, by simpa using h⟩

/-- the section selected by `calcInverseValue` exists and its y interval contains `y` -/
theorem invSection_spec (c : Curve α) (y g : α) (i : Nat) (h : c.invSection y g = some i) :
    i < c.nseg ∧ 0 ≤ (y - (c.segY i).p0) * ((c.segY i).p5 - y) := by
  simp only [Curve.invSection] at h
  generalize hstep : (fun (st : Option Nat × Option α) (i : Nat) =>
      if (decide ((y - (c.segY i).p0) * ((c.segY i).p5 - y) ≥ 0) &&
          match st.2 with
          | none => true
          | some b => decide (absα (g - (c.segX i).p0) + absα ((c.segX i).p5 - g) < b)) = true
      then (some i, some (absα (g - (c.segX i).p0) + absα ((c.segX i).p5 - g))) else st) = step at h
  have key : ∀ (l : List Nat) (st : Option Nat × Option α), (∀ j, j ∈ l → j < c.nseg) →
      (∀ i, st.1 = some i → i < c.nseg ∧ 0 ≤ (y - (c.segY i).p0) * ((c.segY i).p5 - y)) →
      ∀ i, (l.foldl step st).1 = some i → i < c.nseg ∧ 0 ≤ (y - (c.segY i).p0) * ((c.segY i).p5 - y) := by
    intro l
    induction l with
    | nil => intro st _ hst i hi; exact hst i hi
    | cons a t ih =>
      intro st hl hst i hi
      rw [List.foldl_cons] at hi
      apply ih (step st a) (fun j hj => hl j (by simp [hj])) ?_ i hi
      intro k hk
      rw [← hstep] at hk
      rcases ite_fst_some _ _ _ _ hk with ⟨hb, hA⟩ | hB
      · simp only [Bool.and_eq_true, decide_eq_true_eq] at hb
        simp only [Option.some.injEq] at hA
        subst hA
        exact ⟨hl a (by simp), hb.1⟩
      · exact hst k hB
  exact key (List.range c.nseg) (none, none) (fun j hj => by simpa using hj) (fun i hi => by cases hi) i h

/-- any point `(x(u), y(u))` of any section is on the graph of `calcValue`: whatever root `u'` the
    evaluation uses at `x(u)` (possibly in the neighbouring section when `x(u)` is a knot) -/
theorem preimage_section (c : Curve α) (h : c.WF) (i : Nat) (hi : i < c.nseg) (u u' : α)
    (h0 : 0 ≤ u) (h1 : u ≤ 1) (hr : c.IsRoot (bezVal u (c.segX i)) u') :
    c.eval (bezVal u (c.segX i)) u' = some (bezVal u (c.segY i)) := by
  have hp := h.pos
  have hI := h.incr i hi
  obtain ⟨b0, b5⟩ := sec_bounds (c.segX i) u (strictIncr_mono _ hI) h0 h1
  obtain ⟨k0, k5⟩ := knot_bounds c h i hi
  have hm : c.region (bezVal u (c.segX i)) = .mid := region_mid c _ (by grind) (by grind)
  by_cases e : bezVal u (c.segX i) < (c.segX i).p5 ∨ i = c.nseg - 1
  · have hc : c.calcIndex (bezVal u (c.segX i)) = some i := by
      rw [calcIndex_iff c h]
      refine ⟨hi, b0, ?_⟩
      rcases e with e | e
      · exact Or.inl e
      · by_cases e2 : bezVal u (c.segX i) < (c.segX i).p5
        · exact Or.inl e2
        · exact Or.inr ⟨e, by grind⟩
    obtain ⟨v0, v1, vx⟩ := hr hm i hc
    have : u' = u := bezVal_inj u' u _ v0 v1 h0 h1 hI vx
    rw [eval_mid c _ u' i hm hc, this]
  · have e1 : bezVal u (c.segX i) = (c.segX i).p5 := by grind
    have e2 : i + 1 < c.nseg := by omega
    have hu : u = 1 := bezVal_inj u 1 _ h0 h1 (by grind) (Std.le_refl _) hI (by rw [e1, bezVal_one])
    have jX := h.joinX i e2
    have jY := h.joinY i e2
    have l := p0_lt_p5 c h (i+1) e2
    have hc : c.calcIndex (bezVal u (c.segX i)) = some (i+1) := by
      rw [calcIndex_iff c h]
      exact ⟨e2, by grind, Or.inl (by grind)⟩
    obtain ⟨v0, v1, vx⟩ := hr hm (i+1) hc
    have : u' = 0 := bezVal_inj u' 0 _ v0 v1 (Std.le_refl _) (by grind) (h.incr (i+1) e2)
      (by rw [vx, bezVal_zero, e1, jX])
    rw [eval_mid c _ u' (i+1) hm hc, this, hu, bezVal_zero, bezVal_one, jY]

theorem abs_pos_ne (d e : α) (he : 0 ≤ e) (h : absα d > e) : d ≠ 0 := by
  intro h0; subst h0
  simp only [absα] at h
  split at h <;> grind

theorem div_sign (a d : α) (hd : d ≠ 0) : (a / d) * d = a ∧ (0 ≤ a * d → 0 ≤ a / d) := by
  have e : (a / d) * d = a := by grind
  refine ⟨e, ?_⟩
  intro hs
  by_cases hq : 0 ≤ a / d
  · exact hq
  · exfalso
    have hq' : a / d < 0 := by grind
    have d2 : 0 < d * d := by
      rcases LinearOrder.trichotomy d 0 with h | h | h
      · exact OrderedRing.mul_pos_of_neg_of_neg h h
      · exact absurd h hd
      · exact OrderedRing.mul_pos h h
    have := OrderedRing.mul_neg_of_neg_of_pos hq' d2
    have : a / d * (d * d) = a * d := by rw [← e]; grind
    grind

/-- the linear branches of `calcInverseValue` return a pre-image -/
theorem preimage_linear (c : Curve α) (h : c.WF) (y x u' : α) (hl : c.invLinear y = some x)
    (hr : c.IsRoot x u') : c.eval x u' = some y := by
  have hp := h.pos
  have hxx := x0_lt_x1 c h
  have heps : (0:α) ≤ 1 / 4503599627370496 := by grind
  simp only [Curve.invLinear] at hl
  split at hl
  · next hc =>
    obtain ⟨s, a⟩ := hc
    have hd := abs_pos_ne _ _ heps a
    obtain ⟨q1, q2⟩ := div_sign (y - c.y1) c.dydx1 hd
    have q3 := q2 s
    cases hl
    by_cases e : 0 < (y - c.y1) / c.dydx1
    · have hm : c.region ((y - c.y1) / c.dydx1 + c.x1) = .right := by
        rcases region_cases c ((y - c.y1) / c.dydx1 + c.x1) with ⟨_, _, r2⟩ | ⟨_, r⟩ | ⟨r, _⟩
        · grind
        · grind
        · exact r
      rw [eval_right c _ u' hm]; congr 1; grind
    · have e0 : (y - c.y1) / c.dydx1 = 0 := by grind
      have ey : y = c.y1 := by rw [e0] at q1; grind
      rw [e0] at hr ⊢
      have hx : (0:α) + c.x1 = bezVal 1 (c.segX (c.nseg - 1)) := by rw [bezVal_one, ← h.hx1]; grind
      rw [hx] at hr ⊢
      rw [preimage_section c h (c.nseg - 1) (by omega) 1 u' (by grind) (Std.le_refl _) hr, bezVal_one,
          ← h.hy1, ey]
  · split at hl
    · next hc =>
      obtain ⟨s, a⟩ := hc
      have hd := abs_pos_ne _ _ heps a
      obtain ⟨q1, q2⟩ := div_sign (c.y0 - y) c.dydx0 hd
      have q3 := q2 s
      have q4 : (y - c.y0) / c.dydx0 = - ((c.y0 - y) / c.dydx0) := by grind
      cases hl
      by_cases e : (y - c.y0) / c.dydx0 < 0
      · have hm : c.region ((y - c.y0) / c.dydx0 + c.x0) = .left := by
          rcases region_cases c ((y - c.y0) / c.dydx0 + c.x0) with ⟨_, r1, _⟩ | ⟨r, _⟩ | ⟨_, _, r⟩
          · grind
          · exact r
          · grind
        rw [eval_left c _ u' hm]; congr 1; grind
      · have e0 : (y - c.y0) / c.dydx0 = 0 := by grind
        have ey : y = c.y0 := by rw [q4] at e0; grind
        rw [e0] at hr ⊢
        have hx : (0:α) + c.x0 = bezVal 0 (c.segX 0) := by rw [bezVal_zero, ← h.hx0]; grind
        rw [hx] at hr ⊢
        rw [preimage_section c h 0 hp 0 u' (Std.le_refl _) (by grind) hr, bezVal_zero, ← h.hy0, ey]
    · cases hl

/-- `calcInverseValue` returns a pre-image -/
theorem inverse_preimage_raw (c : Curve α) (h : c.WF) (y g u x u' : α)
    (hi : c.inverse y g u = some x)
    (hu : ∀ i, c.invSection y g = some i → 0 ≤ u ∧ u ≤ 1 ∧ bezVal u (c.segY i) = y)
    (hr : c.IsRoot x u') : c.eval x u' = some y := by
  simp only [Curve.inverse] at hi
  split at hi
  · next i hs =>
    cases hi
    obtain ⟨u0, u1, uy⟩ := hu i hs
    rw [preimage_section c h i (invSection_spec c y g i hs).1 u u' u0 u1 hr, uy]
  · exact preimage_linear c h y x u' hi hr
end curve
end Rbdl.L18C
