import RbdlProofs.Lemmas.LCapMultiSim
import RbdlProofs.Lemmas.LKinCapBuild
/-
  Multi-DoF capstone, part 6: the extended class of construction sequences `goodRunMF` (everything
  `goodRunF` accepts, plus `AddBody` / `AppendBody` with an emulated multi-DoF joint), the specification
  model `specOfM ops` built in parallel by `Spec.SB.add` (multi-DoF joints as `JDesc.axes`, as the test
  harness passes them), the shadow builder, and the run.
-/
namespace Rbdl.LCapMulti
open Lean.Grind Rbdl Rbdl.Spec Rbdl.L06 Rbdl.L01 Rbdl.L01Cap Rbdl.Loops
set_option linter.unusedSimpArgs false
set_option linter.unusedVariables false
set_option linter.unusedSectionVars false

section
variable {α : Type} [Field α] [DecidableEq α]

/-! ### the specification side -/

/-- the joint description the caller passes: a multi-DoF joint is described by its list of axes -/
def descOfM (j : Joint α) : JDesc α :=
  match j.jt.kind with
  | .chain => .axes j.axes
  | _ => descOf j

def stepM (p : PB α) : Op α → PB α
  | .addBody parent frame j b _ => p.add parent frame (descOfM j) b
  | .appendBody frame j b _ => p.add p.prev frame (descOfM j) b
  | .addBodyCustomJoint parent frame k b _ => p.add parent frame (.custom k) b

def runM (p : PB α) : List (Op α) → PB α
  | [] => p
  | op :: ops => runM (stepM p op) ops

/-- **the specification model of a construction sequence with multi-DoF joints**
    (`Spec.SB.add` per call, then `SModel.finalize`) -/
def specOfM (ops : List (Op α)) : SModel α := (runM (PB.init : PB α) ops).sb.M.finalize

/-! ### the shadow builder (joint definitions as the code stores them) -/

def addS (p : PB α) (parent : Nat) (frame : XT α) (j : Joint α) (b : Body α) : PB α :=
  match j.jt.kind with
  | .chain =>
    ⟨chainGo j.axes.length frame.E frame.r b.mass b.com b.inertia p.sb.M.nodes.length
        (j.axes.map codeJoint) 0 p.sb (p.sb.nodeOf parent), p.sb.nMovable + j.axes.length - 1⟩
  | _ => p.add parent frame (descOf j) b

def stepS (p : PB α) : Op α → PB α
  | .addBody parent frame j b _ => addS p parent frame j b
  | .appendBody frame j b _ => addS p p.prev frame j b
  | .addBodyCustomJoint parent frame k b _ => p.add parent frame (.custom k) b

def runS (p : PB α) : List (Op α) → PB α
  | [] => p
  | op :: ops => runS (stepS p op) ops

/-- the shadow specification model (used in the proofs only) -/
def shadowOf (ops : List (Op α)) : SModel α := (runS (PB.init : PB α) ops).sb.M.finalize

/-! ### supported operations -/

/-- `AddBody` arguments with an emulated multi-DoF joint: a proper rotation as joint frame, a joint of
    one of the types `JointTypeNDoF` with a non-empty list of axes (ANY axes: pure rotations, pure
    translations, helical), a real body with symmetric inertia -/
def chainOK (frame : XT α) (j : Joint α) (b : Body α) : Prop :=
  frame.E.IsRot ∧ b.inertia.transpose = b.inertia ∧ b.isVirtual = false ∧ j.jt.kind = .chain ∧
    j.axes ≠ []

def Op.multi : Op α → Prop
  | .addBody _ frame j b _ => chainOK frame j b
  | .appendBody frame j b _ => chainOK frame j b
  | .addBodyCustomJoint _ _ _ _ _ => False

/-- every operation is valid, supported (`goodRunF`'s operations or a multi-DoF joint), succeeds, and the
    ids stay below the fixed-body discriminator -/
def goodRunMF (m : ModelS α) : List (Op α) → Prop
  | [] => True
  | op :: ops =>
    op.valid m ∧ (Op.simpleF op ∨ Op.multi op) ∧ (∃ id, (m.step op).2 = .ok id) ∧
      m.nBodies + 2 ≤ fixedDisc ∧ m.nBodies + op.newBodies ≤ fixedDisc ∧ goodRunMF (m.step op).1 ops

/-! ### the extended class contains the old one, with the same specification -/

theorem addOK_kind {frame : XT α} {j : Joint α} {b : Body α} (h : addOK frame j b) :
    j.jt.kind = .single ∨ j.jt.kind = .fixed ∨ j.jt.kind = .floating := by
  rcases h.2.2 with ⟨hj, _⟩ | hf | ⟨hf, _⟩
  · exact Or.inl (hasJcalc_single _ hj.1)
  · right; left; rw [hf]; rfl
  · right; right; rw [hf]; rfl

theorem descOfM_of_not_chain (j : Joint α) (h : j.jt.kind ≠ .chain) : descOfM j = descOf j := by
  unfold descOfM
  split
  · rename_i hk; exact absurd hk h
  · rfl

theorem addS_of_not_chain (p : PB α) (parent : Nat) (frame : XT α) (j : Joint α) (b : Body α)
    (h : j.jt.kind ≠ .chain) : addS p parent frame j b = p.add parent frame (descOf j) b := by
  unfold addS
  split
  · rename_i hk; exact absurd hk h
  · rfl

theorem kind_ne_chain_of_addOK {frame : XT α} {j : Joint α} {b : Body α} (h : addOK frame j b) :
    j.jt.kind ≠ .chain := by
  rcases addOK_kind h with h | h | h <;> rw [h] <;> exact fun e => nomatch e

theorem stepS_simpleF (p : PB α) (op : Op α) (hs : Op.simpleF op) : stepS p op = p.step op := by
  cases op with
  | addBody parent frame j b name => exact addS_of_not_chain p parent frame j b (kind_ne_chain_of_addOK hs)
  | appendBody frame j b name => exact addS_of_not_chain p p.prev frame j b (kind_ne_chain_of_addOK hs)
  | addBodyCustomJoint parent frame k b name => rfl

theorem stepM_simpleF (p : PB α) (op : Op α) (hs : Op.simpleF op) : stepM p op = p.step op := by
  cases op with
  | addBody parent frame j b name =>
    show p.add parent frame (descOfM j) b = p.add parent frame (descOf j) b
    rw [descOfM_of_not_chain j (kind_ne_chain_of_addOK hs)]
  | appendBody frame j b name =>
    show p.add p.prev frame (descOfM j) b = p.add p.prev frame (descOf j) b
    rw [descOfM_of_not_chain j (kind_ne_chain_of_addOK hs)]
  | addBodyCustomJoint parent frame k b name => rfl

theorem newBodies_simpleF (op : Op α) (hs : Op.simpleF op) : op.newBodies ≤ 2 := by
  cases op with
  | addBody parent frame j b name =>
    show j.newBodies ≤ 2
    unfold Joint.newBodies
    rcases addOK_kind hs with h | h | h <;> rw [h] <;> simp
  | appendBody frame j b name =>
    show j.newBodies ≤ 2
    unfold Joint.newBodies
    rcases addOK_kind hs with h | h | h <;> rw [h] <;> simp
  | addBodyCustomJoint parent frame k b name => show 1 ≤ 2; decide

/-- `goodRunF ⊆ goodRunMF` -/
theorem goodRunMF_of_goodRunF (ops : List (Op α)) : ∀ (m : ModelS α), goodRunF m ops →
    goodRunMF m ops := by
  induction ops with
  | nil => intro _ _; trivial
  | cons op ops ih =>
    intro m hg
    obtain ⟨hv, hs, hok, hcap, hrest⟩ := hg
    exact ⟨hv, Or.inl hs, hok, hcap, by have := newBodies_simpleF op hs; omega, ih _ hrest⟩

/-- on `goodRunF` sequences the two specification builders agree -/
theorem runM_eq_run (ops : List (Op α)) : ∀ (m : ModelS α) (p : PB α), goodRunF m ops →
    runM p ops = p.run ops := by
  induction ops with
  | nil => intro _ _ _; rfl
  | cons op ops ih =>
    intro m p hg
    obtain ⟨hv, hs, hok, hcap, hrest⟩ := hg
    show runM (stepM p op) ops = PB.run (p.step op) ops
    rw [stepM_simpleF p op hs]
    exact ih _ _ hrest

theorem specOfM_eq_specOf (ops : List (Op α)) (hg : goodRunF (ModelS.init : ModelS α) ops) :
    specOfM ops = specOf ops := by
  unfold specOfM specOf
  rw [runM_eq_run ops _ _ hg]

/-! ### the true builder is the normalisation of the shadow builder -/

theorem normPB_add (p : PB α) (parent : Nat) (frame : XT α) (d : JDesc α) (b : Body α) :
    normPB (p.add parent frame d b) = (normPB p).add parent frame d b := by
  unfold PB.add normPB
  show PB.mk _ _ = PB.mk _ _
  rw [normSB_add]

theorem normPB_addS (p : PB α) (parent : Nat) (frame : XT α) (j : Joint α) (b : Body α)
    (h : j.jt.kind = .chain → j.axes ≠ []) :
    normPB (addS p parent frame j b) = (normPB p).add parent frame (descOfM j) b := by
  by_cases hk : j.jt.kind = .chain
  · have hax := h hk
    have hd : descOfM j = .axes j.axes := by unfold descOfM; rw [hk]
    have hS : addS p parent frame j b
        = ⟨chainGo j.axes.length frame.E frame.r b.mass b.com b.inertia p.sb.M.nodes.length
            (j.axes.map codeJoint) 0 p.sb (p.sb.nodeOf parent),
          p.sb.nMovable + j.axes.length - 1⟩ := by unfold addS; rw [hk]
    have he : expand (JDesc.axes j.axes : JDesc α) = some (j.axes.map axisJoint) := by
      unfold expand
      cases hl : j.axes with
      | nil => exact absurd hl hax
      | cons a l => rfl
    rw [hd, hS]
    unfold PB.add
    rw [add_chain _ parent frame.E frame.r _ _ b.mass b.com b.inertia he (fun j hj => by
      obtain ⟨a, _, rfl⟩ := List.mem_map.1 hj
      exact notFixed_axisJoint a)]
    unfold normPB
    show PB.mk _ _ = PB.mk _ _
    rw [normSB_chainGo, List.map_map, List.length_map]
    have hm : j.axes.map (normJ ∘ codeJoint) = j.axes.map axisJoint :=
      List.map_congr_left (fun a _ => normJ_codeJoint a)
    rw [hm, normSB_nodeOf, show (normSB p.sb).M.nodes.length = p.sb.M.nodes.length from
      normM_length p.sb.M]
    rfl
  · rw [addS_of_not_chain p parent frame j b hk, descOfM_of_not_chain j hk]
    exact normPB_add p parent frame (descOf j) b

theorem chain_axes_of_ok {op : Op α} (h : Op.simpleF op ∨ Op.multi op) :
    match op with
    | .addBody _ _ j _ _ => j.jt.kind = .chain → j.axes ≠ []
    | .appendBody _ j _ _ => j.jt.kind = .chain → j.axes ≠ []
    | .addBodyCustomJoint _ _ _ _ _ => True := by
  cases op with
  | addBody parent frame j b name =>
    rcases h with h | h
    · exact fun hk => absurd hk (kind_ne_chain_of_addOK h)
    · exact fun _ => h.2.2.2.2
  | appendBody frame j b name =>
    rcases h with h | h
    · exact fun hk => absurd hk (kind_ne_chain_of_addOK h)
    · exact fun _ => h.2.2.2.2
  | addBodyCustomJoint parent frame k b name => trivial

theorem normPB_stepS (p : PB α) (op : Op α) (h : Op.simpleF op ∨ Op.multi op) :
    normPB (stepS p op) = stepM (normPB p) op := by
  have hax := chain_axes_of_ok h
  cases op with
  | addBody parent frame j b name => exact normPB_addS p parent frame j b hax
  | appendBody frame j b name => exact normPB_addS p p.prev frame j b hax
  | addBodyCustomJoint parent frame k b name => exact normPB_add p parent frame (.custom k) b

/-! ### the run -/

/-- `AddBody` with an emulated multi-DoF joint keeps the invariant (against the shadow builder) -/
theorem simFW_addChain (m : ModelS α) (p : PB α) (hS : SimF m p) (hW : SimW m p) (parent : Nat)
    (frame : XT α) (j : Joint α) (b : Body α) (name : String) (hp : m.validId parent)
    (ha : chainOK frame j b) (hcap : m.nBodies + j.newBodies ≤ fixedDisc) (id : Nat)
    (hok : (m.addBody parent frame j b name).2 = .ok id) :
    SimF (m.addBody parent frame j b name).1 (addS p parent frame j b) ∧
    SimW (m.addBody parent frame j b name).1 (addS p parent frame j b) := by
  obtain ⟨hE, hsym, hbv, hk, hax⟩ := ha
  have hnew : j.newBodies = j.axes.length := by unfold Joint.newBodies; rw [hk]
  rw [hnew] at hcap
  rw [ModelS.addBody_eq] at hok ⊢
  by_cases hd : name ≠ "" ∧ m.hasName name
  · rw [if_pos hd] at hok; cases hok
  · rw [if_neg hd, hk]
    have hS' : addS p parent frame j b
        = ⟨chainGo j.axes.length frame.E frame.r b.mass b.com b.inertia p.sb.M.nodes.length
            (j.axes.map codeJoint) 0 p.sb (lookupNode p.sb.idMap parent),
          m.nBodies + j.axes.length - 1⟩ := by
      unfold addS; rw [hk, hS.nmov]; rfl
    rw [hS']
    obtain ⟨_, h1, h2⟩ := simFW_chain b name hbv hsym j.axes.length frame.E frame.r
      p.sb.M.nodes.length j.axes m p parent frame 0 hS hW hp hE hd hcap hax (Nat.zero_add _)
      (if_pos rfl) (if_pos rfl)
    exact ⟨h1, h2⟩

theorem simFW_stepS (m : ModelS α) (p : PB α) (hS : SimF m p) (hW : SimW m p) (op : Op α)
    (hv : op.valid m) (hs : Op.simpleF op ∨ Op.multi op) (hcap : m.nBodies + 2 ≤ fixedDisc)
    (hcap' : m.nBodies + op.newBodies ≤ fixedDisc) (id : Nat) (hok : (m.step op).2 = .ok id) :
    SimF (m.step op).1 (stepS p op) ∧ SimW (m.step op).1 (stepS p op) := by
  rcases hs with hs | hs
  · rw [stepS_simpleF p op hs]
    exact simFW_step m p hS hW op hv hs hcap id hok
  · cases op with
    | addBody parent frame j b name =>
      exact simFW_addChain m p hS hW parent frame j b name hv.1 hs hcap' id hok
    | appendBody frame j b name =>
      show SimF (m.addBody m.prevBodyId frame j b name).1 (addS p p.prev frame j b) ∧
        SimW (m.addBody m.prevBodyId frame j b name).1 (addS p p.prev frame j b)
      rw [hS.prev]
      exact simFW_addChain m p hS hW _ frame j b name hS.ok.wf.prev_ok hs hcap' id hok
    | addBodyCustomJoint parent frame k b name => exact hs.elim

theorem simFW_runS (ops : List (Op α)) : ∀ (m : ModelS α) (p : PB α), SimF m p → SimW m p →
    goodRunMF m ops →
    SimF (m.run ops) (runS p ops) ∧ SimW (m.run ops) (runS p ops) ∧
      normPB (runS p ops) = runM (normPB p) ops := by
  induction ops with
  | nil => intro m p h w _; exact ⟨h, w, rfl⟩
  | cons op ops ih =>
    intro m p hS hW hg
    obtain ⟨hv, hs, ⟨id, hok⟩, hcap, hcap', hrest⟩ := hg
    obtain ⟨h1, w1⟩ := simFW_stepS m p hS hW op hv hs hcap hcap' id hok
    obtain ⟨a, b, c⟩ := ih _ _ h1 w1 hrest
    refine ⟨a, b, ?_⟩
    show normPB (runS (stepS p op) ops) = runM (stepM (normPB p) op) ops
    rw [c, normPB_stepS p op hs]

theorem normPB_init : normPB (PB.init : PB α) = PB.init := rfl

/-- **the specification model is the normal form of the shadow model** -/
theorem specOfM_eq_norm (ops : List (Op α)) (hg : goodRunMF (ModelS.init : ModelS α) ops) :
    specOfM ops = normM (shadowOf ops) := by
  obtain ⟨_, _, h⟩ := simFW_runS ops _ _ simF_init simW_init hg
  unfold specOfM shadowOf
  rw [← normM_finalize, ← normPB_init, ← h]
  rfl

/-- **Stages D + E for the extended class**: the model built by the construction code satisfies
    `ModelOK` and refines (syntactically, `RefinesF`) the shadow model, whose normal form is the
    specification model -/
theorem shadow_by_construction (ops : List (Op α))
    (hg : goodRunMF (ModelS.init : ModelS α) ops) :
    ModelOK ((ModelS.init : ModelS α).run ops) ∧
    RefinesF ((ModelS.init : ModelS α).run ops) (shadowOf ops)
      (offOf ((ModelS.init : ModelS α).run ops) (runS (PB.init : PB α) ops).sb.M)
      (lookupNode (runS (PB.init : PB α) ops).sb.idMap) ∧
    LKinCap.FixedIds ((ModelS.init : ModelS α).run ops) (shadowOf ops)
      (offOf ((ModelS.init : ModelS α).run ops) (runS (PB.init : PB α) ops).sb.M) ∧
    ((ModelS.init : ModelS α).run ops).nBodies ≤ fixedDisc ∧
    specOfM ops = normM (shadowOf ops) := by
  obtain ⟨hS, hW, _⟩ := simFW_runS ops _ _ simF_init simW_init hg
  exact ⟨hS.ok, refinesF_of_sim hS hW, LKinCap.fixedIds_of_sim hS, hS.cap, specOfM_eq_norm ops hg⟩

end
end Rbdl.LCapMulti
