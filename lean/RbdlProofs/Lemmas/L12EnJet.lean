import Rbdl.Spec.Energy
import RbdlProofs.Lemmas.L01CapThm
/-
  C12 (energy balance), part 4: **`Spec.kineticEnergyRate` / `Spec.potentialEnergyRate` ARE the time
  derivatives of `Spec.kineticEnergy` / `Spec.potentialEnergy`.**

  The energies are evaluated over the jet ring: the world poses of `Spec.fkTable` are second-order jets
  `(x, ẋ, ẍ)`; the velocity of a point is the *shifted* jet `(ẋ, ẍ)` of its position, the angular velocity
  the `vee` of `(Ṙ, R̈) · (R, Ṙ)ᵀ` — first-order jets, carried in `D2 α` with the second-order slot unused
  (value and first-order part of a product depend on the values and first-order parts of the factors only).
  `kineticEnergyJet` is `Σ ½ m ċ·ċ + ½ ω·(R I Rᵀ ω)` evaluated on these jets, `potentialEnergyJet` is
  `−g·Σ m c`:

      (kineticEnergyJet M st).x  = Spec.kineticEnergy M st          (kineticEnergyJet_x)
      (kineticEnergyJet M st).d1 = Spec.kineticEnergyRate M st      (kineticEnergyJet_d1,  2 ≠ 0)
      (potentialEnergyJet M st).x  = Spec.potentialEnergy M st      (potentialEnergyJet_x, total mass ≠ 0)
      (potentialEnergyJet M st).d1 = Spec.potentialEnergyRate M st  (potentialEnergyJet_d1)
-/
namespace Rbdl.L12En
open Lean.Grind Rbdl Rbdl.Spec Rbdl.L06 Rbdl.L01Cap
set_option linter.unusedSimpArgs false
set_option linter.unusedVariables false
set_option linter.unusedSectionVars false

section
variable {α : Type} [Field α]

/-- first-order truncation `(x, ẋ)` of a jet -/
def trunc (a : D2 α) : D2 α := ⟨a.x, a.d1, 0⟩
/-- first-order jet `(ẋ, ẍ)` of the time derivative -/
def shift (a : D2 α) : D2 α := ⟨a.d1, a.d2, 0⟩

def mapM (f : D2 α → D2 α) (A : M3 (D2 α)) : M3 (D2 α) :=
  ⟨f A.m00, f A.m01, f A.m02, f A.m10, f A.m11, f A.m12, f A.m20, f A.m21, f A.m22⟩
def mapV (f : D2 α → D2 α) (v : V3 (D2 α)) : V3 (D2 α) := ⟨f v.x, f v.y, f v.z⟩
def constM (A : M3 α) : M3 (D2 α) :=
  ⟨D2.const A.m00, D2.const A.m01, D2.const A.m02, D2.const A.m10, D2.const A.m11, D2.const A.m12,
   D2.const A.m20, D2.const A.m21, D2.const A.m22⟩
def veeJ (A : M3 (D2 α)) : V3 (D2 α) := ⟨A.m21, A.m02, A.m10⟩

/-- value / first-order part of vectors and matrices of jets -/
abbrev vx (v : V3 (D2 α)) : V3 α := V3.mapD2 (·.x) v
abbrev vd (v : V3 (D2 α)) : V3 α := V3.mapD2 (·.d1) v
abbrev mx (A : M3 (D2 α)) : M3 α := M3.mapD2 (·.x) A
abbrev md (A : M3 (D2 α)) : M3 α := M3.mapD2 (·.d1) A

/-! ### Leibniz rules for the vector / matrix operations -/

theorem dot_x (v w : V3 (D2 α)) : (v.dot w).x = (vx v).dot (vx w) := by jet06_simp
theorem dot_d1 (v w : V3 (D2 α)) : (v.dot w).d1 = (vd v).dot (vx w) + (vx v).dot (vd w) := by
  jet06_simp; grind
theorem mulVec_x (A : M3 (D2 α)) (v : V3 (D2 α)) : vx (A * v) = mx A * vx v := by
  ext <;> jet06_simp
theorem mulVec_d1 (A : M3 (D2 α)) (v : V3 (D2 α)) : vd (A * v) = md A * vx v + mx A * vd v := by
  ext <;> jet06_simp <;> grind
theorem mul_mx (A B : M3 (D2 α)) : mx (A * B) = mx A * mx B := by ext <;> jet06_simp
theorem mul_md (A B : M3 (D2 α)) : md (A * B) = md A * mx B + mx A * md B := by
  ext <;> jet06_simp <;> grind
theorem transpose_mx (A : M3 (D2 α)) : mx A.transpose = (mx A).transpose := rfl
theorem transpose_md (A : M3 (D2 α)) : md A.transpose = (md A).transpose := rfl
theorem add_vx (v w : V3 (D2 α)) : vx (v + w) = vx v + vx w := rfl
theorem add_vd (v w : V3 (D2 α)) : vd (v + w) = vd v + vd w := rfl
theorem veeJ_x (A : M3 (D2 α)) : vx (veeJ A) = vee (mx A) := rfl
theorem veeJ_d1 (A : M3 (D2 α)) : vd (veeJ A) = vee (md A) := rfl
theorem constM_mx (A : M3 α) : mx (constM A) = A := rfl
theorem constM_md (A : M3 α) : md (constM A) = M3.zero := rfl
theorem constV_vx (v : V3 α) : vx (constV v) = v := rfl
theorem constV_vd (v : V3 α) : vd (constV v) = V3.zero := rfl
theorem const_mul_x (c : α) (a : D2 α) : (D2.const c * a).x = c * a.x := rfl
theorem const_mul_d1 (c : α) (a : D2 α) : (D2.const c * a).d1 = c * a.d1 := by
  show (0 : α) * a.x + c * a.d1 = c * a.d1; grind

theorem m3_mul_zero (A : M3 α) : A * (M3.zero : M3 α) = M3.zero := by alg_ext
theorem m3_add_zero (A : M3 α) : A + (M3.zero : M3 α) = A := by alg_ext
theorem m3_mulVec_zero' (A : M3 α) : A * (V3.zero : V3 α) = V3.zero := by alg_ext
theorem v3_add_zero (v : V3 α) : v + (V3.zero : V3 α) = v := by alg_ext
theorem v3_dot_add' (g a b : V3 α) : g.dot (a + b) = g.dot a + g.dot b := by simp only [alg]; grind
theorem v3_dot_comm' (a b : V3 α) : a.dot b = b.dot a := by simp only [alg]; grind

/-! ### one body -/

/-- jets of the kinematic quantities of a body with pose jet `P` -/
def comJet (c : V3 α) (P : Pose (D2 α)) : V3 (D2 α) := P.p + P.R * constV c
def comVelJet (c : V3 α) (P : Pose (D2 α)) : V3 (D2 α) := mapV shift (comJet c P)
def omegaJet (P : Pose (D2 α)) : V3 (D2 α) :=
  veeJ (mapM shift P.R * (mapM trunc P.R).transpose)
def inertiaJet (I : M3 α) (P : Pose (D2 α)) : M3 (D2 α) :=
  mapM trunc P.R * constM I * (mapM trunc P.R).transpose

/-- `½ m ċ·ċ + ½ ω·(R I Rᵀ ω)` on the jets -/
def keJetTerm (mass : α) (c : V3 α) (I : M3 α) (P : Pose (D2 α)) : D2 α :=
  D2.const (1 / 2) * (D2.const mass * (comVelJet c P).dot (comVelJet c P)
    + (omegaJet P).dot (inertiaJet I P * omegaJet P))

theorem trunc_mx (A : M3 (D2 α)) : mx (mapM trunc A) = mx A := rfl
theorem trunc_md (A : M3 (D2 α)) : md (mapM trunc A) = md A := rfl
theorem shift_mx (A : M3 (D2 α)) : mx (mapM shift A) = md A := rfl
theorem shift_md (A : M3 (D2 α)) : md (mapM shift A) = M3.mapD2 (·.d2) A := rfl

theorem comVel_vx (c : V3 α) (P : Pose (D2 α)) :
    vx (comVelJet c P) = (NodeKin.ofPose P).ptd c := by
  ext <;> simp only [comVelJet, comJet, mapV, shift, NodeKin.ptd] <;> jet06_simp <;> grind
theorem comVel_vd (c : V3 α) (P : Pose (D2 α)) :
    vd (comVelJet c P) = (NodeKin.ofPose P).ptdd c := by
  ext <;> simp only [comVelJet, comJet, mapV, shift, NodeKin.ptdd] <;> jet06_simp <;> grind

theorem omega_vx (P : Pose (D2 α)) : vx (omegaJet P) = (NodeKin.ofPose P).omega := by
  unfold omegaJet NodeKin.omega
  rw [veeJ_x, mul_mx, transpose_mx, trunc_mx, shift_mx]
  rfl
theorem omega_vd (P : Pose (D2 α)) : vd (omegaJet P) = (NodeKin.ofPose P).omegaDot := by
  unfold omegaJet NodeKin.omegaDot
  rw [veeJ_d1, mul_md, transpose_mx, transpose_md, trunc_mx, trunc_md, shift_mx, shift_md]
  rfl
theorem inertia_mx (I : M3 α) (P : Pose (D2 α)) :
    mx (inertiaJet I P)
      = (NodeKin.ofPose P).R * I * (NodeKin.ofPose P).R.transpose := by
  unfold inertiaJet
  rw [mul_mx, mul_mx, transpose_mx, trunc_mx, constM_mx]
  rfl
theorem inertia_md (I : M3 α) (P : Pose (D2 α)) :
    md (inertiaJet I P)
      = (NodeKin.ofPose P).Rd * I * (NodeKin.ofPose P).R.transpose
        + (NodeKin.ofPose P).R * I * (NodeKin.ofPose P).Rd.transpose := by
  unfold inertiaJet
  rw [mul_md, mul_md, mul_mx, transpose_mx, transpose_md, trunc_mx, trunc_md, constM_mx, constM_md,
    m3_mul_zero, m3_add_zero]
  rfl

/-- value of the energy jet of one body: the term of `Spec.kineticEnergy` -/
theorem keJetTerm_x (mass : α) (c : V3 α) (I : M3 α) (P : Pose (D2 α)) :
    (keJetTerm mass c I P).x
      = (mass * ((NodeKin.ofPose P).ptd c).dot ((NodeKin.ofPose P).ptd c)
          + (NodeKin.ofPose P).omega.dot (((NodeKin.ofPose P).R * I
              * (NodeKin.ofPose P).R.transpose) * (NodeKin.ofPose P).omega)) / 2 := by
  unfold keJetTerm
  rw [const_mul_x, add_x, const_mul_x, dot_x, dot_x, mulVec_x, comVel_vx, omega_vx, inertia_mx]
  grind

/-- first-order part: the term of `Spec.kineticEnergyRate` -/
theorem keJetTerm_d1 (h2 : (2 : α) ≠ 0) (mass : α) (c : V3 α) (I : M3 α) (P : Pose (D2 α)) :
    (keJetTerm mass c I P).d1
      = mass * ((NodeKin.ofPose P).ptd c).dot ((NodeKin.ofPose P).ptdd c)
        + ((NodeKin.ofPose P).omegaDot.dot (((NodeKin.ofPose P).R * I
              * (NodeKin.ofPose P).R.transpose) * (NodeKin.ofPose P).omega)
          + (NodeKin.ofPose P).omega.dot ((((NodeKin.ofPose P).Rd * I
              * (NodeKin.ofPose P).R.transpose + (NodeKin.ofPose P).R * I
              * (NodeKin.ofPose P).Rd.transpose)) * (NodeKin.ofPose P).omega)
          + (NodeKin.ofPose P).omega.dot (((NodeKin.ofPose P).R * I
              * (NodeKin.ofPose P).R.transpose) * (NodeKin.ofPose P).omegaDot)) / 2 := by
  unfold keJetTerm
  rw [const_mul_d1, add_d1, const_mul_d1, dot_d1, dot_d1, mulVec_x, mulVec_d1, comVel_vx, comVel_vd,
    omega_vx, omega_vd, inertia_mx, inertia_md, v3_dot_add',
    v3_dot_comm' ((NodeKin.ofPose P).ptdd c)]
  grind

/-! ### the whole model -/

theorem foldl_proj {β γ δ : Type} (π : β → δ) (sJ : β → γ → β) (s : δ → γ → δ)
    (h : ∀ a x, π (sJ a x) = s (π a) x) (L : List γ) : ∀ a, π (L.foldl sJ a) = L.foldl s (π a) := by
  induction L with
  | nil => intro a; rfl
  | cons x L ih => intro a; rw [List.foldl_cons, List.foldl_cons, ih, h]

theorem zip_kinTable (M : SModel α) (st : State α) :
    M.nodes.zip (kinTable M st)
      = (M.nodes.zip (fkTable D2.const M (coordJets M st))).map
          (fun p => (p.1, NodeKin.ofPose p.2)) := by
  unfold kinTable
  rw [List.zip_map_right]
  rfl

variable [DecidableEq α]

/-- **kinetic energy on the jets**: `Σ_bodies ½ m ċ·ċ + ½ ω·(R I Rᵀ ω)` with `ċ`, `ω`, `R` first-order jets -/
def kineticEnergyJet (M : SModel α) (st : State α) : D2 α :=
  (M.nodes.zip (fkTable D2.const M (coordJets M st))).foldl (fun acc p =>
    if p.1.hasBody then acc + keJetTerm p.1.mass p.1.com p.1.inertia p.2 else acc) 0

theorem kineticEnergyJet_x (M : SModel α) (st : State α) :
    (kineticEnergyJet M st).x = kineticEnergy M st := by
  unfold kineticEnergyJet kineticEnergy
  dsimp only
  rw [zip_kinTable, List.foldl_map, foldl_proj (fun a : D2 α => a.x)]
  · rfl
  · intro a p
    cases hb : p.1.hasBody
    · simp only [Bool.false_eq_true, if_false, Bool.not_false, if_true]
    · simp only [if_true, Bool.not_true, Bool.false_eq_true, if_false]
      rw [add_x, keJetTerm_x]

/-- **`Spec.kineticEnergyRate` is the time derivative of `Spec.kineticEnergy`** -/
theorem kineticEnergyJet_d1 (h2 : (2 : α) ≠ 0) (M : SModel α) (st : State α) :
    (kineticEnergyJet M st).d1 = kineticEnergyRate M st := by
  unfold kineticEnergyJet kineticEnergyRate
  dsimp only
  rw [zip_kinTable, List.foldl_map, foldl_proj (fun a : D2 α => a.d1)]
  · rfl
  · intro a p
    cases hb : p.1.hasBody
    · simp only [Bool.false_eq_true, if_false, Bool.not_false, if_true]
    · simp only [if_true, Bool.not_true, Bool.false_eq_true, if_false]
      rw [add_d1, keJetTerm_d1 h2]

/-- `Σ m c` over the bodies that count, on the jets -/
def massSumJet (M : SModel α) (st : State α) : V3 (D2 α) :=
  (M.nodes.zip (fkTable D2.const M (coordJets M st))).foldl (fun acc p =>
    if p.1.counts then acc + D2.const p.1.mass * comJet p.1.com p.2 else acc) V3.zero

/-- **potential energy on the jets**: `−g·Σ m c` -/
def potentialEnergyJet (M : SModel α) (st : State α) : D2 α :=
  -((constV M.gravity).dot (massSumJet M st))

theorem com_vx (c : V3 α) (P : Pose (D2 α)) : vx (comJet c P) = (NodeKin.ofPose P).pt c := by
  ext <;> simp only [comJet, NodeKin.pt] <;> jet06_simp <;> grind
theorem com_vd (c : V3 α) (P : Pose (D2 α)) : vd (comJet c P) = (NodeKin.ofPose P).ptd c := by
  ext <;> simp only [comJet, NodeKin.ptd] <;> jet06_simp <;> grind
theorem smul_vx (c : α) (v : V3 (D2 α)) : vx (D2.const c * v) = c * vx v := by
  ext <;> jet06_simp
theorem smul_vd (c : α) (v : V3 (D2 α)) : vd (D2.const c * v) = c * vd v := by
  ext <;> jet06_simp <;> grind

theorem massSumJet_x (M : SModel α) (st : State α) :
    vx (massSumJet M st) = massSum M st (fun nd k => k.pt nd.com) := by
  unfold massSumJet massSum
  dsimp only
  rw [zip_kinTable, List.foldl_map, foldl_proj (fun v : V3 (D2 α) => vx v)]
  · rfl
  · intro a p
    cases hb : p.1.counts
    · simp only [Bool.false_eq_true, if_false]
    · simp only [if_true]
      rw [add_vx, smul_vx, com_vx]

theorem massSumJet_d1 (M : SModel α) (st : State α) :
    vd (massSumJet M st) = massSum M st (fun nd k => k.ptd nd.com) := by
  unfold massSumJet massSum
  dsimp only
  rw [zip_kinTable, List.foldl_map, foldl_proj (fun v : V3 (D2 α) => vd v)]
  · rfl
  · intro a p
    cases hb : p.1.counts
    · simp only [Bool.false_eq_true, if_false]
    · simp only [if_true]
      rw [add_vd, smul_vd, com_vd]

/-- **`Spec.potentialEnergyRate` is the time derivative of `−g·Σ m c`** … -/
theorem potentialEnergyJet_d1 (M : SModel α) (st : State α) :
    (potentialEnergyJet M st).d1 = potentialEnergyRate M st := by
  unfold potentialEnergyJet potentialEnergyRate
  rw [neg_d1, dot_d1, constV_vd, constV_vx, massSumJet_d1]
  simp only [alg]; grind

/-- … which is `Spec.potentialEnergy` (`= −M g·C`, `C = Σ m c / M`) whenever the total mass is not zero -/
theorem potentialEnergyJet_x (M : SModel α) (st : State α) (hM : totalMass M ≠ 0) :
    (potentialEnergyJet M st).x = potentialEnergy M st := by
  unfold potentialEnergyJet potentialEnergy com
  rw [neg_x, dot_x, constV_vx, massSumJet_x]
  generalize massSum M st (fun nd k => k.pt nd.com) = v
  generalize totalMass M = T at hM
  simp only [alg]
  grind

end
end Rbdl.L12En
