import Rbdl
/-
  Rotation predicate in cofactor form and the basic rotation lemmas.
-/
namespace Rbdl
open Lean.Grind
variable {α : Type} [CommRing α]

/-- `E` is a proper rotation: orthonormal rows (`E Eᵀ = 1`) and each row is the cross product of the
    other two (cofactor form; gives `det E = 1` and makes rotation identities ideal-membership
    problems of low degree). -/
structure M3.IsRot (E : M3 α) : Prop where
  n0 : E.m00*E.m00 + E.m01*E.m01 + E.m02*E.m02 = 1
  n1 : E.m10*E.m10 + E.m11*E.m11 + E.m12*E.m12 = 1
  n2 : E.m20*E.m20 + E.m21*E.m21 + E.m22*E.m22 = 1
  o01 : E.m00*E.m10 + E.m01*E.m11 + E.m02*E.m12 = 0
  o02 : E.m00*E.m20 + E.m01*E.m21 + E.m02*E.m22 = 0
  o12 : E.m10*E.m20 + E.m11*E.m21 + E.m12*E.m22 = 0
  c00 : E.m11*E.m22 - E.m12*E.m21 = E.m00
  c01 : E.m12*E.m20 - E.m10*E.m22 = E.m01
  c02 : E.m10*E.m21 - E.m11*E.m20 = E.m02
  c10 : E.m21*E.m02 - E.m22*E.m01 = E.m10
  c11 : E.m22*E.m00 - E.m20*E.m02 = E.m11
  c12 : E.m20*E.m01 - E.m21*E.m00 = E.m12
  c20 : E.m01*E.m12 - E.m02*E.m11 = E.m20
  c21 : E.m02*E.m10 - E.m00*E.m12 = E.m21
  c22 : E.m00*E.m11 - E.m01*E.m10 = E.m22

theorem M3.isRot_one : (M3.one : M3 α).IsRot := by
  constructor <;> simp only [M3.one] <;> grind

/-- columns are orthonormal too (`EᵀE = 1`) -/
theorem M3.IsRot.transpose {E : M3 α} (h : E.IsRot) : E.transpose.IsRot := by
  obtain ⟨n0,n1,n2,o01,o02,o12,c00,c01,c02,c10,c11,c12,c20,c21,c22⟩ := h
  constructor <;> simp only [M3.transpose] <;> grind

theorem M3.IsRot.mul {A B : M3 α} (ha : A.IsRot) (hb : B.IsRot) : (A * B).IsRot := by
  obtain ⟨a0,a1,a2,a3,a4,a5,a6,a7,a8,a9,a10,a11,a12,a13,a14⟩ := ha
  obtain ⟨b0,b1,b2,b3,b4,b5,b6,b7,b8,b9,b10,b11,b12,b13,b14⟩ := hb
  constructor <;> simp only [M3.mul_def, M3.mul] <;> grind

theorem M3.IsRot.det {E : M3 α} (h : E.IsRot) : E.det = 1 := by
  obtain ⟨n0,n1,n2,o01,o02,o12,c00,c01,c02,c10,c11,c12,c20,c21,c22⟩ := h
  simp only [M3.det]; grind

end Rbdl
