import RbdlProofs.Lemmas.L18CFac2
/-
  C18 at curve level, part 14: the toe-region curves (`createTendonForceLengthCurve`,
  `createTendonTorqueAngleCurve`).
-/
set_option linter.unusedSectionVars false
namespace Rbdl.L18C
open Lean.Grind Std Rbdl.Geom Rbdl.L18

section order
variable {α : Type} [Field α] [Inhabited α] [LE α] [LT α] [LawfulOrderLT α] [IsLinearOrder α]
  [OrderedRing α] [DecidableLT α] [DecidableLE α] [DecidableEq α]

/-- arithmetic of the toe region (names as in the code): `T` end of the toe, `F` its foot, `M` its
    middle, `m` the slope there, `(xc, yc)` the knot between the two sections -/
theorem toe_arith (xs e k y T F M m xc yc : α) (hk : k * e > 1) (he : 0 < e) (hy0 : 0 < y) (hy1 : y < 1)
    (hH : 2 * e * rootEPS < y)
    (hT : (y - 1)/k + (xs + e) = T) (hF : xs + (T - xs)/10 = F) (hM : (y * (1/2) - 1)/k + (xs + e) = M)
    (hm : (y * (1/2) - 0)/(M - F) = m) (hxc : F + 1/2 * (M - F) = xc) (hyc : 0 + m * (xc - F) = yc) :
    0 < k ∧ xs < F ∧ F < xc ∧ xc < M ∧ M < T ∧ (F - xc) * m + yc = 0 + 0 * (F - xs) ∧
    (M - T) * k + y = yc + m * (M - xc) ∧ rootEPS < m := by
  have hr := rootEPS_pos (α := α)
  have hk0 : 0 < k := by
    by_cases c : 0 < k
    · exact c
    · have := OrderedRing.mul_nonpos_of_nonpos_of_nonneg (show k ≤ 0 by grind) (show 0 ≤ e by grind)
      grind
  have hik := one_div_pos k hk0
  have eik : k * (1/k) = 1 := by grind
  have eT : T = xs + e - (1 - y) * (1/k) := by grind
  have eM : M = xs + e - (1 - y) * (1/k) - (y/2) * (1/k) := by grind
  generalize 1/k = ik at hik eik eT eM
  clear hT hM
  have p1 := OrderedRing.mul_pos hy0 hik
  have p2 : ik < e := by
    have a := OrderedRing.mul_lt_mul_of_pos_right hk hik
    have b : k * e * ik = e := by grind
    grind
  have p3 := OrderedRing.mul_pos (show 0 < 1 - y by grind) hik
  have hW0 : 0 < T - xs := by grind
  have hWe : T - xs < e := by grind
  have hMF : 0 < M - F := by
    have a1 := OrderedRing.mul_pos (show 0 < k * e - 1 by grind) hik
    have b : (k * e - 1) * ik = e - ik := by grind
    grind
  have hDe : M - F < e := by grind
  have hm' : m * (M - F) = y / 2 := by rw [← hm]; grind
  have hm0 : rootEPS < m := by
    by_cases c : rootEPS < m
    · exact c
    · exfalso
      have a1 := OrderedRing.mul_le_mul_of_nonneg_right (show m ≤ rootEPS by grind) (show 0 ≤ M - F by grind)
      have a2 := OrderedRing.mul_lt_mul_of_pos_left hDe hr
      grind
  have ek : (y/2) * ik * k = y/2 := by grind
  refine ⟨hk0, by grind, by grind, by grind, by grind, by grind, ?_, hm0⟩
  have : M - T = -((y/2) * ik) := by grind
  rw [this, ← hyc, ← hxc]; grind

/-- the two toe sections: `xs` start, `xs + e` the abscissa of unit force, `k` the stiffness there,
    `y` the force at the end of the toe, foot of the toe at one tenth of the toe width.  The first
    corner is non-degenerate when `y > 2 e sqrt(eps)`. -/
theorem toeSections_spec (xs xIso e k y cu : α) (foot : α → α) (r : List (P6 α × P6 α) × α)
    (hI : xIso = xs + e) (hfoot : ∀ t, foot t = xs + (t - xs)/10) (hk : k * e > 1) (he : 0 < e)
    (hy0 : 0 < y) (hy1 : y < 1) (h0 : 0 ≤ cu) (h1 : cu ≤ 1) (hH : 2 * e * rootEPS < y)
    (h : Factory.toeSections xs xIso k y (scaleCurviness cu) foot = some r) :
    (Curve.ofSections r.1 xs r.2 0 y 0 k).WF ∧
    (absα (derivDYDX 1 ((Curve.ofSections r.1 xs r.2 0 y 0 k).segX 0)
        ((Curve.ofSections r.1 xs r.2 0 y 0 k).segY 0) 1 - k) > rootEPS →
      ∃ kx ky km, (Curve.ofSections r.1 xs r.2 0 y 0 k).CornerBuilt kx ky km) := by
  subst hI
  simp only [Factory.toeSections, hfoot] at h
  generalize hT : (y - 1)/k + (xs + e) = T at h
  generalize hF : xs + (T - xs)/10 = F at h
  generalize hM : (y * (1/2) - 1)/k + (xs + e) = M at h
  generalize hm : (y * (1/2) - 0)/(M - F) = m at h
  generalize hxc : F + 1/2 * (M - F) = xc at h
  generalize hyc : 0 + m * (xc - F) = yc at h
  obtain ⟨hk0, f1, f2, f3, f4, f5, f6, f7⟩ := toe_arith xs e k y T F M m xc yc hk he hy0 hy1 hH hT hF hM hm hxc hyc
  obtain ⟨p0, hp0, h⟩ := bind_some _ _ _ h
  obtain ⟨p1', hp1, hc⟩ := bind_some _ _ _ h
  simp only [pure, Option.some.injEq] at hc
  clear h hT hF hM hm hxc hyc
  have hnd : absα (0 - m) > rootEPS := by
    have hr := rootEPS_pos (α := α)
    rcases absα_cases (0 - m) with ⟨_, b⟩ | ⟨_, b⟩ <;> grind
  -- first section: corner at the foot of the toe
  obtain ⟨a1, a2, a3, a4, a5, a6, a7⟩ := corner_sec_pt xs 0 0 xc yc m cu p0 (by grind) h0 h1 hp0
    (fun _ => ⟨F, f1, f2, f5⟩)
  have s0 := a7 (Or.inl hnd)
  -- second section: corner at the middle of the toe
  obtain ⟨b1, b2, b3, b4, b5, b6, _⟩ := corner_sec_pt xc yc m T y k cu p1' (by grind) h0 h1 hp1
    (fun _ => ⟨M, f3, f4, f6⟩)
  rw [← hc]
  refine ⟨WF_two p0 p1' _ _ _ _ _ _ a1 b1 a2 b3 a4 b5 (by rw [a3, b2]) (by rw [a5, b4]) s0 b6, fun hq => ?_⟩
  have hq' : absα (m - k) > rootEPS := by rw [← a6]; exact hq
  exact ⟨_, _, _, cornerBuilt_two p0 p1' _ _ _ _ _ _ _ _ _ _ hp0 hp1 a1 b1 (Or.inl hnd) (Or.inl hq')⟩

/-- `createTendonForceLengthCurve`: well-formed provided the first corner is non-degenerate
    (`fToe > 2 eIso sqrt(eps)`) -/
theorem tendonForceLength_spec (eIso kIso fToe cu : α) (c : Curve α)
    (h : Factory.tendonForceLength eIso kIso fToe cu = some c) (hH : 2 * eIso * rootEPS < fToe) :
    c.WF ∧ (absα (derivDYDX 1 (c.segX 0) (c.segY 0) 1 - kIso) > rootEPS →
      ∃ kx ky km, c.CornerBuilt kx ky km) := by
  simp only [Factory.tendonForceLength] at h
  obtain ⟨g1, h⟩ := guard_none _ _ _ h
  obtain ⟨g2, h⟩ := guard_none _ _ _ h
  obtain ⟨g3, h⟩ := guard_none _ _ _ h
  obtain ⟨g4, h⟩ := guard_none _ _ _ h
  obtain ⟨r, hr, hc⟩ := bind_some _ _ _ h
  simp only [pure, Option.some.injEq] at hc
  have q := ((inv_mul_lt eIso kIso g1).2).mp g3
  rw [← hc]
  exact toeSections_spec 1 (1 + eIso) eIso kIso fToe cu _ r rfl (fun _ => rfl) q g1 g2.1 g2.2 g4.1 g4.2 hH hr

/-- `createTendonTorqueAngleCurve`: well-formed provided the first corner is non-degenerate -/
theorem tendonTorqueAngle_spec (a k y cu : α) (c : Curve α)
    (h : Factory.tendonTorqueAngle a k y cu = some c) (hH : 2 * a * rootEPS < y) :
    c.WF ∧ (absα (derivDYDX 1 (c.segX 0) (c.segY 0) 1 - k) > rootEPS →
      ∃ kx ky km, c.CornerBuilt kx ky km) := by
  simp only [Factory.tendonTorqueAngle] at h
  obtain ⟨g1, h⟩ := guard_none' _ _ _ h
  obtain ⟨g2, h⟩ := guard_none' _ _ _ h
  obtain ⟨g3, h⟩ := guard_none' _ _ _ h
  obtain ⟨g4, h⟩ := guard_none' _ _ _ h
  obtain ⟨r, hr, hc⟩ := bind_some _ _ _ h
  simp only [pure, Option.some.injEq] at hc
  have hr0 := rootEPS_pos (α := α)
  have ha : 0 < a := by grind
  have q : k * a > 1 := by
    have e : (11/10)/a * a = 11/10 := by grind
    have := OrderedRing.mul_le_mul_of_nonneg_right (show (11/10)/a ≤ k by grind) (show 0 ≤ a by grind)
    grind
  rw [← hc]
  exact toeSections_spec 0 a a k y cu _ r (by grind) (fun t => by grind) q ha (by grind) (by grind)
    (by grind) (by grind) hH hr
end order
end Rbdl.L18C
