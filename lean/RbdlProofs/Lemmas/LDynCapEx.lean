import RbdlProofs.Lemmas.LDynCap
import RbdlProofs.Lemmas.L01CapEx
import RbdlProofs.Lemmas.L01CapFixEx
/-
  Concrete data for the non-vacuity examples of the dynamics capstones (models of
  `L01CapEx.lean` / `L01CapFixEx.lean`).
-/
namespace Rbdl.LDynCap
open Lean.Grind Rbdl Rbdl.Spec Rbdl.L01Cap

theorem ex_order : OrderOK Ex.m := by unfold OrderOK; decide +kernel
theorem exF_order : OrderOK ExF.m := by unfold OrderOK; decide +kernel

end Rbdl.LDynCap
