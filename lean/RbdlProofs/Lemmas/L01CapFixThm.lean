import RbdlProofs.Lemmas.L01CapFix
/-
  C01 capstone, Stage D: `inverseDynamics` equals `Spec.newtonEulerTau` for models with fixed bodies.
-/
namespace Rbdl.L01Cap
open Lean.Grind Rbdl Rbdl.Spec Rbdl.L06 Rbdl.L01 Rbdl.Loops
set_option linter.unusedSimpArgs false
set_option linter.unusedVariables false
set_option linter.unusedSectionVars false

section
variable {α : Type} [Field α] [DecidableEq α]

/-- `J ↦ Vx · (J a + v ×* J v)` -/
def phiF (Vx a v : SV α) (J : RBI α) : α := Vx.dot (J * a + crossf v (J * v))

theorem phiF_add (Vx a v : SV α) (A B : RBI α) :
    phiF Vx a v (A + B) = phiF Vx a v A + phiF Vx a v B := by
  unfold phiF
  rw [rbiForce_add, sv_dot_add]

theorem phiF_zero (Vx a v : SV α) : phiF Vx a v (RBI.zero : RBI α) = 0 := by
  unfold phiF
  rw [rbiForce_zero, sv_dot_zero]

/-- **one node of the sum** (body part): the contribution of a node that moves with body `i` at the
    constant offset `X` is that of the inertia `Xᵀ I X` in the frame of body `i` -/
theorem body_termF (nd : SNode α) (hs : nd.hasBody = true → nd.inertia.transpose = nd.inertia)
    (g : V3 α) (X : XT α) (hX : X.E.IsRot) (K Kx : NodeKin α) (V a Vx Ax : SV α)
    (hB : BodyForm K V (a - gAt K g)) (hBx : BodyForm Kx Vx Ax) (hRk : Kx.R = K.R) :
    bodyTerm g ((nd, compKin K (NodeKin.ofPose (constPose X))),
        compKin Kx (NodeKin.ofPose (constPose X)))
      = phiF Vx a V (if nd.hasBody = true then
          X.applyTransposeRBI (RBI.ofMassComInertiaC nd.mass nd.com nd.inertia) else RBI.zero) := by
  unfold bodyTerm
  dsimp only
  cases hb : nd.hasBody
  · rw [if_neg (by simp), if_neg (by simp), phiF_zero]
  · rw [if_pos rfl, if_pos rfl]
    have hBn := bf_attached hB X hX
    have hBxn := bf_attached hBx X hX
    have hR' : (compKin Kx (NodeKin.ofPose (constPose X))).R
        = (compKin K (NodeKin.ofPose (constPose X))).R := by
      show Kx.R * _ = K.R * _
      rw [hRk]
    rw [ne_term hBn hBxn hR' nd.mass nd.com nd.inertia (hs hb) g, gAt_comp, xtOfKin_constPose,
      apply_sub, sv_sub_add_cancel]
    exact force_transport X hX _ _ _ _

end

section
variable {α : Type} [Field α] [DecidableEq α]

theorem rbi_lsum_phi (Vx a v : SV α) (f : Nat → RBI α) (l : List Nat) :
    phiF Vx a v (lsum RBI.zero f l) = lsum 0 (fun n => phiF Vx a v (f n)) l :=
  lsum_map RBI.zero 0 (phiF Vx a v) (phiF_zero Vx a v) (phiF_add Vx a v) f l

/-- **the specification as a sum over the movable bodies** (with fixed bodies) -/
theorem spec_sumF {m : ModelS α} {M : SModel α} {off : Nat → XT α} {nodeOf : Nat → Nat}
    (hm : ModelOK m) (hR : RefinesF m M off nodeOf)
    (h2 : (2 : α) ≠ 0) (w W Wx : WS α) (hw : WSFixed m w) (st : QS α) (hst : StateOK m st)
    (qd qdd qddx : VecN α) (fext : Option (Nat → SV α)) (x : Nat) (hx : x < m.dofCount)
    (hF : FwdClosed m st qd qdd w W) (hFc : ForceClosed m fext w W)
    (hFx : FwdClosed m st (unitV x) qddx w Wx) (hqddx : qddx = fun _ => 0) :
    (newtonEulerTau M (stateOf st qd qdd) (fextSpec fext)).getD x 0
      = lsum 0 (fun k => (Wx.v k).dot (netForce m fext W k)) (List.range' 1 (m.nBodies - 1)) := by
  subst hqddx
  have htree := hm.wf.lam_lt
  have hws := hm.jointWS hw
  have hnb := hm.wf.nb_pos
  obtain ⟨b, hb, hb1, hb2, hb3, hb4⟩ := hR.base
  have hne : M.nodes ≠ [] := by intro h; rw [h] at hb; cases hb
  -- pose jets of the movable bodies for the two motions
  obtain ⟨hP0, hP⟩ := specPoseF_rec hm hR st qd qdd
  obtain ⟨hPx0, hPx⟩ := specPoseF_rec hm hR st (unitV x) (fun _ => 0)
  have hB := fwd_bodyForm m w W st qd qdd h2 htree hm.jc hm.frame hst hws hm.w3 hm.arity hF
    (fun i => specPose M (stateOf st qd qdd) (nodeOf i)) hP0 hP
  have hBx := fwd_bodyForm m w Wx st (unitV x) (fun _ => 0) h2 htree hm.jc hm.frame hst hws hm.w3
    hm.arity hFx (fun i => specPose M (stateOf st (unitV x) (fun _ => 0)) (nodeOf i)) hPx0 hPx
  have hXi := xtOfKin_indep m htree hm.jc w st (unitV x) (fun _ => 0) qd qdd _ _ hPx0 hP0 hPx hP
  have hRi : ∀ i, i < m.nBodies →
      (NodeKin.ofPose (specPose M (stateOf st (unitV x) (fun _ => 0)) (nodeOf i))).R
        = (NodeKin.ofPose (specPose M (stateOf st qd qdd) (nodeOf i))).R :=
    fun i hi => congrArg (fun X : XT α => X.E.transpose) (hXi i hi)
  have hXb : fext.isSome → ∀ k, k < m.nBodies →
      W.X_base k = xtOfKin (NodeKin.ofPose (specPose M (stateOf st qd qdd) (nodeOf k))) := by
    intro hs
    exact xbase_eq m htree hm.jc w W st qd qdd hF (hFc.xb hs) (by rw [hFc.xb0, hw.1])
      (fun i => specPose M (stateOf st qd qdd) (nodeOf i)) hP0 hP
  -- the two folds as sums over the node indices
  rw [newtonEulerTau_getD M _ _ x (by rw [hR.nv]; exact hx), unitVel_stateOf]
  have hl1 := kinTable_length M (stateOf st qd qdd) hne
  have hl2 := kinTable_length M (stateOf st (unitV x) (fun _ => 0)) hne
  have hL : ((M.nodes.zip (kinTable M (stateOf st qd qdd))).zip
      (kinTable M (stateOf st (unitV x) (fun _ => 0)))).length = M.nodes.length := by
    rw [List.length_zip, List.length_zip, hl1, hl2]; omega
  rw [foldl_eq_lsum (bodyTerm M.gravity) (bodyStep M.gravity) (bodyStep_eq M.gravity)
      ((nd0, NodeKin.ofPose Pose.id), NodeKin.ofPose Pose.id),
    foldl_eq_lsum (extTerm (fextSpec fext)) (extStep (fextSpec fext)) (extStep_eq (fextSpec fext))
      ((nd0, NodeKin.ofPose Pose.id), NodeKin.ofPose Pose.id), hL]
  have e0 : ∀ a b : α, 0 + a - (0 + b) = a - b := by intro a b; grind
  rw [e0]
  have hget : ∀ k, k < M.nodes.length →
      ((M.nodes.zip (kinTable M (stateOf st qd qdd))).zip
        (kinTable M (stateOf st (unitV x) (fun _ => 0)))).getD k
          ((nd0, NodeKin.ofPose Pose.id), NodeKin.ofPose Pose.id)
        = ((M.nodes.getD k nd0, specKin M (stateOf st qd qdd) k),
            specKin M (stateOf st (unitV x) (fun _ => 0)) k) := by
    intro k hk
    rw [getD_zip _ _ _ _ _ (by rw [List.length_zip, hl1]; omega) (by rw [hl2]; exact hk),
      getD_zip _ _ _ _ _ hk (by rw [hl1]; exact hk), kinTable_getD, kinTable_getD]
  -- facts about the nodes
  have hnode : ∀ n, n < M.nodes.length → M.nodes[n]? = some (M.nodes.getD n nd0) := by
    intro n hn
    rw [List.getD_eq_getElem?_getD, List.getElem?_eq_getElem hn]; rfl
  have hb0 : M.nodes.getD 0 nd0 = b := getD_of_some hb
  have hbody_lt : ∀ n, n < M.nodes.length → bodyOf M n < m.nBodies := by
    intro n hn
    by_cases h0 : n = 0
    · subst h0; unfold bodyOf; rw [hb0, hb3]; omega
    · exact (hR.node n _ (by omega) (hnode n hn)).body_lt
  have hoffrot : ∀ n, n < M.nodes.length → (off n).E.IsRot := by
    intro n hn
    by_cases h0 : n = 0
    · subst h0; rw [hR.off0]; exact M3.isRot_one
    · exact (hR.node n _ (by omega) (hnode n hn)).offrot
  -- the pose jet of node `n` is attached to that of its movable body
  have hkin : ∀ (st' : QS α) (qd' qdd' : VecN α) n, n < M.nodes.length →
      specKin M (stateOf st' qd' qdd') n
        = compKin (NodeKin.ofPose (specPose M (stateOf st' qd' qdd') (nodeOf (bodyOf M n))))
            (NodeKin.ofPose (constPose (off n))) := by
    intro st' qd' qdd' n hn
    unfold specKin
    rw [specPose_off hR _ n _ (hnode n hn), ofPose_comp]
    rfl
  -- body part
  have hS1 : lsum 0 (fun i =>
        bodyTerm M.gravity (((M.nodes.zip (kinTable M (stateOf st qd qdd))).zip
          (kinTable M (stateOf st (unitV x) (fun _ => 0)))).getD i
            ((nd0, NodeKin.ofPose Pose.id), NodeKin.ofPose Pose.id))) (List.range M.nodes.length)
      = lsum 0 (fun i => if i = 0 then 0 else (Wx.v i).dot (bodyForce m W i))
          (List.range m.nBodies) := by
    rw [lsum_fiber _ (bodyOf M) m.nBodies _ (fun n hn => hbody_lt n (List.mem_range.1 hn))]
    refine lsum_congr _ _ _ (fun i hi => ?_)
    rw [List.mem_range] at hi
    -- every node of the fibre contributes `phiF … (nodeRBI i n)`
    have hterm : ∀ n ∈ List.range M.nodes.length,
        (if bodyOf M n = i then
          bodyTerm M.gravity (((M.nodes.zip (kinTable M (stateOf st qd qdd))).zip
            (kinTable M (stateOf st (unitV x) (fun _ => 0)))).getD n
              ((nd0, NodeKin.ofPose Pose.id), NodeKin.ofPose Pose.id)) else 0)
          = phiF (Wx.v i) (W.a i) (W.v i) (nodeRBI M off i n) := by
      intro n hn
      rw [List.mem_range] at hn
      unfold nodeRBI
      by_cases hbi : bodyOf M n = i
      · have hbi' : (M.nodes.getD n nd0).movableId = i := hbi
        rw [if_pos hbi, hget n hn, hkin st qd qdd n hn, hkin st (unitV x) (fun _ => 0) n hn, hbi,
          hR.gravity]
        have hsym : (M.nodes.getD n nd0).hasBody = true →
            (M.nodes.getD n nd0).inertia.transpose = (M.nodes.getD n nd0).inertia := by
          intro hh
          by_cases h0 : n = 0
          · subst h0; rw [hb0, hb1] at hh; cases hh
          · exact (hR.node n _ (by omega) (hnode n hn)).symm hh
        rw [body_termF (M.nodes.getD n nd0) hsym m.gravity (off n) (hoffrot n hn) _ _ _ _ _ _
          (hB i hi) (hBx i hi) (hRi i hi)]
        congr 1
        by_cases hh : (M.nodes.getD n nd0).hasBody = true
        · rw [if_pos hh, if_pos ⟨hbi', hh⟩]
        · rw [if_neg hh, if_neg (fun h => hh h.2)]
      · have hbi' : ¬ (M.nodes.getD n nd0).movableId = i := hbi
        rw [if_neg hbi, if_neg (fun h => hbi' h.1), phiF_zero]
    rw [lsum_congr _ _ _ hterm, ← rbi_lsum_phi]
    by_cases hi0 : i = 0
    · subst hi0
      rw [if_pos rfl]
      unfold phiF
      rw [hFx.v0, sv_zero_dot]
    · rw [if_neg hi0, ← hR.rbi i (by omega) hi]
      unfold phiF bodyForce
      by_cases hv : (m.body i).isVirtual = true
      · rw [if_pos hv, hR.virt i (by omega) hi hv, hR.virt i (by omega) hi hv, crossf_zero,
          L05.sv_add_zero]
      · rw [if_neg hv]
  -- external-force part
  have hS2 : lsum 0 (fun i =>
        extTerm (fextSpec fext) (((M.nodes.zip (kinTable M (stateOf st qd qdd))).zip
          (kinTable M (stateOf st (unitV x) (fun _ => 0)))).getD i
            ((nd0, NodeKin.ofPose Pose.id), NodeKin.ofPose Pose.id))) (List.range M.nodes.length)
      = lsum 0 (fun i => if i = 0 then 0 else
          (Wx.v i).dot ((xtOfKin (NodeKin.ofPose (specPose M (stateOf st qd qdd) (nodeOf i)))).applyAdjoint
            (fextSpec fext i))) (List.range m.nBodies) := by
    rw [lsum_fiber _ (bodyOf M) m.nBodies _ (fun n hn => hbody_lt n (List.mem_range.1 hn))]
    refine lsum_congr _ _ _ (fun i hi => ?_)
    rw [List.mem_range] at hi
    by_cases hi0 : i = 0
    · subst hi0
      rw [if_pos rfl]
      have hz : ∀ n ∈ List.range M.nodes.length,
          (if bodyOf M n = 0 then
            extTerm (fextSpec fext) (((M.nodes.zip (kinTable M (stateOf st qd qdd))).zip
              (kinTable M (stateOf st (unitV x) (fun _ => 0)))).getD n
                ((nd0, NodeKin.ofPose Pose.id), NodeKin.ofPose Pose.id)) else 0) = (0 : α) := by
        intro n hn
        rw [List.mem_range] at hn
        by_cases hbi : bodyOf M n = 0
        · rw [if_pos hbi, hget n hn]
          unfold extTerm
          dsimp only
          have hbi' : (M.nodes.getD n nd0).movableId = 0 := hbi
          by_cases hmov : (M.nodes.getD n nd0).apiId = (M.nodes.getD n nd0).movableId
          · rw [if_pos (Or.inr (by rw [hmov, hbi']))]
          · rw [if_pos (Or.inl hmov)]
        · rw [if_neg hbi]
      rw [lsum_congr _ _ _ hz, lsum_zero]
    · rw [if_neg hi0]
      have i1 : 1 ≤ i := by omega
      obtain ⟨n1, nlt⟩ := hR.nodeOf_lt i i1 hi
      obtain ⟨hmovi, hbi⟩ := hR.nodeOf_mov i _ i1 hi (hnode (nodeOf i) nlt)
      have hz : ∀ n ∈ List.range M.nodes.length,
          (if bodyOf M n = i then
            extTerm (fextSpec fext) (((M.nodes.zip (kinTable M (stateOf st qd qdd))).zip
              (kinTable M (stateOf st (unitV x) (fun _ => 0)))).getD n
                ((nd0, NodeKin.ofPose Pose.id), NodeKin.ofPose Pose.id)) else 0)
            = (if n = nodeOf i then
                (Wx.v i).dot ((xtOfKin (NodeKin.ofPose (specPose M (stateOf st qd qdd)
                  (nodeOf i)))).applyAdjoint (fextSpec fext i)) else 0) := by
        intro n hn
        rw [List.mem_range] at hn
        by_cases hni : n = nodeOf i
        · subst hni
          have hbo : bodyOf M (nodeOf i) = i := hbi
          rw [if_pos hbo, if_pos rfl, hget _ hn]
          unfold extTerm
          dsimp only
          rw [if_neg (by rw [hmovi, hbi]; omega), hbi]
          unfold specKin
          exact fext_term (hBx i hi) (hRi i hi) _
        · rw [if_neg hni]
          by_cases hbo : bodyOf M n = i
          · rw [if_pos hbo, hget n hn]
            unfold extTerm
            dsimp only
            have hbo' : (M.nodes.getD n nd0).movableId = i := hbo
            by_cases hmov : (M.nodes.getD n nd0).apiId = (M.nodes.getD n nd0).movableId
            · exfalso
              have hn0 : n ≠ 0 := by
                intro e; subst e
                rw [hb0, hb3] at hbo'; omega
              have := hR.nodeOf_inj n _ (by omega) (hnode n hn) hmov
              rw [hbo'] at this
              exact hni this.symm
            · rw [if_pos (Or.inl hmov)]
          · rw [if_neg hbo]
      rw [lsum_congr _ _ _ hz]
      exact lsum_single _ _ _ List.nodup_range (List.mem_range.2 nlt)
  rw [hS1, hS2, lsum_sub]
  -- the base contributes nothing
  obtain ⟨n, hn⟩ : ∃ n, m.nBodies = n + 1 := ⟨m.nBodies - 1, by omega⟩
  rw [hn, List.range_eq_range', List.range'_succ, lsum, Nat.add_sub_cancel, if_pos rfl, if_pos rfl]
  have ez : ∀ a : α, 0 - 0 + a = a := by intro a; grind
  rw [ez]
  refine lsum_congr _ _ _ (fun k hk => ?_)
  rw [List.mem_range'_1] at hk
  have k2 : k < m.nBodies := by omega
  rw [if_neg (by omega), if_neg (by omega)]
  cases fext with
  | none =>
    simp only [fextSpec, netForce]
    rw [applyAdjoint_zero, sv_dot_zero]
    grind
  | some fe =>
    simp only [fextSpec, netForce]
    rw [sv_dot_sub, hXb rfl k k2]

/-- **Stage D** (lemma form): trees with fixed bodies -/
theorem id_eq_specF {m : ModelS α} {M : SModel α} {off : Nat → XT α} {nodeOf : Nat → Nat}
    (hm : ModelOK m) (hR : RefinesF m M off nodeOf)
    (h2 : (2 : α) ≠ 0) (w : WS α) (hw : WSFixed m w) (st : QS α) (hst : StateOK m st)
    (qd qdd tau : VecN α) (fext : Option (Nat → SV α)) (x : Nat) (hx : x < m.dofCount) :
    (inverseDynamics m w st qd qdd tau fext).2 x
      = (newtonEulerTau M (stateOf st qd qdd) (fextSpec fext)).getD x 0 := by
  have htree := hm.wf.lam_lt
  obtain ⟨hF, hFc, _⟩ := idForward_closed m hm.cinj htree w st qd qdd fext
  obtain ⟨hFx, _, _⟩ := idForward_closed m hm.cinj htree w st (unitV x) (fun _ => 0) none
  have hlen := scols_length_closed m hm.wf st qd qdd w _ hF hm.arity
  have hdisj := owns_disjoint_of_WF m _ hm.wf hlen
  obtain ⟨i, h1, h2', ho⟩ := owns_cover_of_WF m _ hm.wf hlen x hx
  rw [C01.inverse_dynamics_dalembert m hm.wf hm.cinj hm.arity w st qd qdd tau fext (m.nBodies - 1)
      (Nat.le_refl _) i x h1 h2' ho,
    spec_sumF hm hR h2 w _ _ hw st hst qd qdd _ fext x hx hF hFc hFx rfl]
  refine lsum_congr _ _ _ (fun k hk => ?_)
  rw [List.mem_range'_1] at hk
  rw [unit_velocity_downTo m w _ _ st qd qdd _ x htree hm.jc (hm.jointWS hw) hF hFx hdisj i h1 h2'
    ho (m.nBodies - 1) k (by omega) (by omega)]

end
end Rbdl.L01Cap
