import RbdlProofs.Lemmas.LCapMultiNorm
/-
  Multi-DoF capstone, part 5: the emulated multi-DoF joints (`Joint(axis_0, …, axis_{k-1})`,
  `ModelS.addChain`: a chain of 1-DoF joints through massless virtual bodies) keep the simulation
  invariant `SimF ∧ SimW` of the C01 capstone — against a *shadow* specification builder that appends,
  for every axis, the node carrying the joint definition the code stores (`codeJoint a`).  The true
  specification builder (`Spec.SB.add` with `JDesc.axes`) is the normalisation of the shadow
  (`normPB`), node by node.
-/
namespace Rbdl.LCapMulti
open Lean.Grind Rbdl Rbdl.Spec Rbdl.L06 Rbdl.L01 Rbdl.L01Cap Rbdl.Loops
set_option linter.unusedSimpArgs false
set_option linter.unusedVariables false
set_option linter.unusedSectionVars false

section
variable {α : Type} [Field α] [DecidableEq α]

/-! ### the joint `Joint(axis)` of one link of the chain -/

theorem ofAxis_hasJcalc (a : SV α) : (Joint.ofAxis a).jt.hasJcalc = true := by
  rcases ofAxis_cases a with ⟨_, hj⟩ | ⟨_, hj⟩ | ⟨_, hj⟩ | ⟨_, hj⟩ | ⟨_, hj⟩ <;> rw [hj] <;> rfl

theorem ofAxis_not_custom (a : SV α) : (Joint.ofAxis a).jt ≠ .custom := by
  rcases ofAxis_cases a with ⟨_, hj⟩ | ⟨_, hj⟩ | ⟨_, hj⟩ | ⟨_, hj⟩ | ⟨_, hj⟩ <;> rw [hj] <;>
    exact fun h => nomatch h

theorem ofAxis_decl (a : SV α) : JointDecl (Joint.ofAxis a) := by
  unfold JointDecl
  rcases ofAxis_cases a with ⟨h, hj⟩ | ⟨h, hj⟩ | ⟨h, hj⟩ | ⟨h, hj⟩ | ⟨h, hj⟩ <;>
    simp only [hj, ofAxis_axes, ofAxis_dof, List.headD_cons, true_and] <;> first | exact h | trivial

theorem codeJoint_dof (a : SV α) : (codeJoint a).dof = 1 := by
  rcases codeJoint_cases a with ⟨_, hj⟩ | ⟨_, hj⟩ | ⟨_, hj⟩ | ⟨_, hj⟩ | ⟨_, hj⟩ <;> rw [hj] <;> rfl

theorem mr_sjoint_ofAxis (m : ModelS α) (hwf : m.WF) (parent : Nat) (frame : XT α) (a : SV α)
    (b : Body α) (name : String) :
    (m.movableResult parent frame (Joint.ofAxis a) b name).sjoint m.nBodies = codeJoint a := by
  rw [sjoint_eq_sj _ _ (by rw [mr_joint_new m parent frame _ b name hwf]; exact ofAxis_not_custom a),
    mr_joint_new m parent frame _ b name hwf]
  rfl

/-! ### one emulated joint on both sides -/

/-- **the chain of 1-DoF joints keeps the invariant** (`k` links of the `n` are already in place) -/
theorem simFW_chain (b : Body α) (name : String) (hbv : b.isVirtual = false)
    (hsym : b.inertia.transpose = b.inertia) (n : Nat) (E : M3 α) (r : V3 α) (first : Nat) :
    ∀ (axes : List (SV α)) (m : ModelS α) (p : PB α) (par : Nat) (fr : XT α) (k : Nat),
    SimF m p → SimW m p → m.validId par → fr.E.IsRot → ¬(name ≠ "" ∧ m.hasName name) →
    m.nBodies + axes.length ≤ fixedDisc → axes ≠ [] → k + axes.length = n →
    (if k = 0 then E else M3.one) = fr.E → (if k = 0 then r else V3.zero) = fr.r →
    (m.addChain par fr axes b name).2 = .ok (m.nBodies + axes.length - 1) ∧
    SimF (m.addChain par fr axes b name).1
      ⟨chainGo n E r b.mass b.com b.inertia first (axes.map codeJoint) k p.sb
        (lookupNode p.sb.idMap par), m.nBodies + axes.length - 1⟩ ∧
    SimW (m.addChain par fr axes b name).1
      ⟨chainGo n E r b.mass b.com b.inertia first (axes.map codeJoint) k p.sb
        (lookupNode p.sb.idMap par), m.nBodies + axes.length - 1⟩ := by
  intro axes
  induction axes with
  | nil => intro m p par fr k _ _ _ _ _ _ h; exact absurd rfl h
  | cons a rest ih =>
    intro m p par fr k hS hW hp hE hd hcap _ hkn hfE hfr
    have hwf := hS.ok.wf
    cases rest with
    | nil =>
      -- the last link carries the body
      have hk1 : k + 1 = n := hkn
      have hadd : m.addChain par fr [a] b name
          = (m.movableResult par fr (Joint.ofAxis a) b name, .ok m.nBodies) := by
        simp only [ModelS.addChain]
        rw [ModelS.addBodyMovable_eq, if_neg hd]; rfl
      rw [hadd]
      have hlen : m.nBodies + [a].length - 1 = m.nBodies := by simp
      rw [hlen]
      refine ⟨rfl, ?_, ?_⟩
      · show SimF _ ⟨pushMov p.sb (chainNode n k E r b.mass b.com b.inertia p.sb
          (lookupNode p.sb.idMap par) (codeJoint a)) first, m.nBodies⟩
        refine simF_movable m p hS par fr (Joint.ofAxis a) b name (codeJoint a) _ first hp hE hd
          (by simp at hcap; omega) (ofAxis_hasJcalc a) (ofAxis_decl a) (ModelS.jointOk_ofAxis m a)
          (fun hc => absurd hc (ofAxis_not_custom a)) (mr_sjoint_ofAxis m hwf par fr a b name)
          (codeJoint_dof a) (fun hv => by rw [hbv] at hv; cases hv) rfl hfE hfr rfl rfl rfl rfl ?_ ?_
        · show decide (k + 1 = n) = !b.isVirtual
          rw [hbv]; simp [hk1]
        · intro _
          show (if k + 1 = n then b.mass else 0) = b.mass ∧ (if k + 1 = n then b.com else V3.zero) = b.com ∧
            (if k + 1 = n then b.inertia else M3.zero) = b.inertia ∧ _
          rw [if_pos hk1, if_pos hk1, if_pos hk1]
          exact ⟨rfl, rfl, rfl, hsym⟩
      · exact simW_movable m p hS hW par fr (Joint.ofAxis a) b name _ first m.nBodies
          (isQuat_jointSj (Joint.ofAxis a) _ rfl) hS.nmov
    | cons a2 rest2 =>
      -- a massless intermediate link
      have hk1 : k + 1 ≠ n := by simp at hkn; omega
      have hadd : m.addChain par fr (a :: a2 :: rest2) b name
          = (m.movableResult par fr (Joint.ofAxis a) ModelS.nullBody "").addChain m.nBodies XT.id
              (a2 :: rest2) b name := by
        simp only [ModelS.addChain]
        rw [ModelS.addBodyMovable_unnamed]
        rfl
      have h1 : SimF (m.movableResult par fr (Joint.ofAxis a) ModelS.nullBody "")
          ⟨pushMov p.sb (chainNode n k E r b.mass b.com b.inertia p.sb
            (lookupNode p.sb.idMap par) (codeJoint a)) first, m.nBodies⟩ := by
        refine simF_movable m p hS par fr (Joint.ofAxis a) ModelS.nullBody "" (codeJoint a) _ first
          hp hE (ModelS.not_dup_empty m) (by simp at hcap; omega) (ofAxis_hasJcalc a) (ofAxis_decl a)
          (ModelS.jointOk_ofAxis m a) (fun hc => absurd hc (ofAxis_not_custom a))
          (mr_sjoint_ofAxis m hwf par fr a _ _) (codeJoint_dof a) (fun _ => ⟨rfl, rfl⟩) rfl hfE hfr
          rfl rfl rfl rfl ?_ ?_
        · show decide (k + 1 = n) = !ModelS.nullBody.isVirtual
          simp [hk1, ModelS.nullBody]
        · intro hh
          have : decide (k + 1 = n) = true := hh
          simp [hk1] at this
      have w1 : SimW (m.movableResult par fr (Joint.ofAxis a) ModelS.nullBody "")
          ⟨pushMov p.sb (chainNode n k E r b.mass b.com b.inertia p.sb
            (lookupNode p.sb.idMap par) (codeJoint a)) first, m.nBodies⟩ :=
        simW_movable m p hS hW par fr (Joint.ofAxis a) ModelS.nullBody "" _ first m.nBodies
          (isQuat_jointSj (Joint.ofAxis a) _ rfl) hS.nmov
      have hnb1 := mr_nBodies m par fr (Joint.ofAxis a) ModelS.nullBody ""
      have hd1 : ¬(name ≠ "" ∧
          (m.movableResult par fr (Joint.ofAxis a) ModelS.nullBody "").hasName name) := by
        rw [ModelS.hasName_congr (ModelS.movableResult_names_unnamed ..)]; exact hd
      have hlk : lookupNode (pushMov p.sb (chainNode n k E r b.mass b.com b.inertia p.sb
          (lookupNode p.sb.idMap par) (codeJoint a)) first).idMap m.nBodies = p.sb.M.nodes.length := by
        have := h1.idnode p.sb.M.nodes.length _
          (by obtain ⟨bs, hbs, _⟩ := hS.base; exact lt_of_get hbs) (pushNode_get_new _ _)
        rw [show (chainNode n k E r b.mass b.com b.inertia p.sb (lookupNode p.sb.idMap par)
          (codeJoint a)).apiId = m.nBodies from hS.nmov] at this
        exact this
      obtain ⟨i1, i2, i3⟩ := ih (m.movableResult par fr (Joint.ofAxis a) ModelS.nullBody "")
        ⟨pushMov p.sb (chainNode n k E r b.mass b.com b.inertia p.sb
          (lookupNode p.sb.idMap par) (codeJoint a)) first, m.nBodies⟩ m.nBodies XT.id (k + 1)
        h1 w1 (Or.inl (by rw [hnb1]; omega)) M3.isRot_one hd1
        (by rw [hnb1]; simp at hcap ⊢; omega) (by simp) (by simp at hkn ⊢; omega)
        (by rw [if_neg (by omega)]; rfl) (by rw [if_neg (by omega)]; rfl)
      have e : (m.movableResult par fr (Joint.ofAxis a) ModelS.nullBody "").nBodies
          + (a2 :: rest2).length - 1 = m.nBodies + (a :: a2 :: rest2).length - 1 := by
        rw [hnb1]; simp; omega
      rw [hlk, e] at i2 i3
      rw [e] at i1
      rw [hadd]
      exact ⟨i1, i2, i3⟩

end
end Rbdl.LCapMulti
