import RbdlProofs.Lemmas.L13CSCsv
import RbdlProofs.Lemmas.L13CSG
import RbdlProofs.Lemmas.L13CSTree
import RbdlProofs.Lemmas.L13CSVel
import RbdlProofs.Lemmas.L13Ex
import RbdlProofs.Lemmas.L09Ex
/-
  Concrete instances over `Rat` for the examples of `Props/C13CS.lean`:
  * the branched model `L13.Ex.m` / `L13.Ex.mU` (revoluteZ, general revolute, spherical, custom
    cylindrical joint, one fixed body) with the constraint set of `L09.Ex.ops` (two contact normals on
    body 3, a stabilised loop base → body 1 with two axes, a loop body 2 → body 3) extended by a contact
    on the fixed body and a loop fixed body → body 4; pristine and poisoned workspaces;
  * the small models of `L13.Ex` with one contact, for the counterexamples.
-/
namespace Rbdl.L13CS.CEx
open Lean.Grind Rbdl Rbdl.L13 Rbdl.L13CS Rbdl.L09

abbrev m : ModelS Rat := L13.Ex.m
abbrev mU : ModelS Rat := L13.Ex.mU
abbrev st : QS Rat := L13.Ex.st
abbrev qd : VecN Rat := L13.Ex.qd
/-- workspace after construction / poisoned -/
abbrev w : WS Rat := L13.Ex.w
abbrev w' : WS Rat := L13.Ex.w'
abbrev wU : WS Rat := L13.Ex.wU
abbrev wU' : WS Rat := L13.Ex.wU'

/-- the calls of `L09.Ex.ops`, then a contact on the fixed body and a loop fixed body → body 4 -/
def ops : List (L09.Op Rat) :=
  L09.Ex.ops ++ [.contact fixedDisc ⟨1, 2, 3⟩ ⟨1, 0, 0⟩ noUserId,
    .loop fixedDisc 4 ⟨M3.one, ⟨0, 0, 1⟩⟩ ⟨M3.one, ⟨0, 1, 0⟩⟩ ⟨⟨0, 1, 0⟩, ⟨1, 0, 0⟩⟩ false 0 3]

def C : CSet Rat := run ops

theorem C_shape : C.cs.map (fun c => (c.ctype, c.row, c.T.length, c.bodyP, c.bodyS)) =
    [(.contact, 0, 2, 3, 0), (.loop, 2, 2, 0, 1), (.loop, 4, 1, 2, 3),
     (.contact, 5, 1, fixedDisc, 0), (.loop, 6, 1, fixedDisc, 4)] ∧ C.size = 7 ∧ m.qdotSize = 7 := by
  decide +kernel

theorem id_ok (id : Nat) (h : id = 0 ∨ id = 1 ∨ id = 2 ∨ id = 3 ∨ id = 4 ∨ id = fixedDisc) :
    IdOK m id ∧ IdOK mU id := by
  rcases h with rfl | rfl | rfl | rfl | rfl | rfl <;>
    exact ⟨⟨by decide, by decide⟩, ⟨by decide, by decide⟩⟩

theorem ops_ok : (∀ op ∈ ops, OpOK m op) ∧ (∀ op ∈ ops, OpOK mU op) := by
  have key : ∀ op ∈ ops, OpOK m op ∧ OpOK mU op := by
    intro op hop
    simp only [ops, L09.Ex.ops, List.cons_append, List.nil_append, List.mem_cons, List.mem_nil_iff,
      or_false] at hop
    rcases hop with rfl | rfl | rfl | rfl | rfl | rfl | rfl
    · exact id_ok 3 (by decide)
    · exact id_ok 3 (by decide)
    · exact ⟨⟨(id_ok 0 (by decide)).1, (id_ok 1 (by decide)).1⟩,
        ⟨(id_ok 0 (by decide)).2, (id_ok 1 (by decide)).2⟩⟩
    · exact ⟨⟨(id_ok 0 (by decide)).1, (id_ok 1 (by decide)).1⟩,
        ⟨(id_ok 0 (by decide)).2, (id_ok 1 (by decide)).2⟩⟩
    · exact ⟨⟨(id_ok 2 (by decide)).1, (id_ok 3 (by decide)).1⟩,
        ⟨(id_ok 2 (by decide)).2, (id_ok 3 (by decide)).2⟩⟩
    · exact id_ok fixedDisc (by decide)
    · exact ⟨⟨(id_ok fixedDisc (by decide)).1, (id_ok 4 (by decide)).1⟩,
        ⟨(id_ok fixedDisc (by decide)).2, (id_ok 4 (by decide)).2⟩⟩
  exact ⟨fun op h => (key op h).1, fun op h => (key op h).2⟩

/-- the loop constraint base → body 1 of `L09.Ex` -/
theorem cL_ok : ConstrOK m L09.Ex.cL ∧ ConstrOK mU L09.Ex.cL := by
  have e1 : L09.Ex.cL.bodyP = 0 := by decide +kernel
  have e2 : L09.Ex.cL.bodyS = 1 := by decide +kernel
  unfold ConstrOK
  rw [e1, e2]
  exact ⟨⟨(id_ok 0 (by decide)).1, fun _ => (id_ok 1 (by decide)).1⟩,
    ⟨(id_ok 0 (by decide)).2, fun _ => (id_ok 1 (by decide)).2⟩⟩

theorem C_ids : IdsOK m (run ops) := idsOK_run ops ops_ok.1
theorem CU_ids : IdsOK mU (run ops) := idsOK_run ops ops_ok.2
theorem C_inv : Inv (run ops) := inv_foldl ops _ inv_empty
theorem C_contig : Contig (run ops) := contig_foldl ops _ inv_empty contig_empty

/-- a workspace in which the entries of `WSFixed` are overwritten as well -/
def wG : WS Rat :=
  { L13.Ex.w' with
    S := fun i => ⟨⟨1, (i : Rat), 2⟩, ⟨3, 1, (i : Rat)⟩⟩
    v_J := fun i => ⟨⟨2, 1, (i : Rat)⟩, ⟨(i : Rat), 1, 5⟩⟩
    c_J := fun i => ⟨⟨1, 1, (i : Rat)⟩, ⟨(i : Rat), 2, 1⟩⟩
    S3 := fun i => ⟨⟨⟨1, (i : Rat), 2⟩, ⟨3, 1, 4⟩⟩, ⟨⟨1, 5, 2⟩, ⟨3, (i : Rat), 4⟩⟩,
      ⟨⟨7, 1, 2⟩, ⟨3, 1, (i : Rat)⟩⟩⟩
    X_base := fun i => ⟨⟨1, 2, (i : Rat), 4, 5, 6, 7, 8, 9⟩, ⟨1, (i : Rat), 3⟩⟩ }

/-- a caller's matrix / vector with no zero entry -/
def G7 : MatN Rat := fun r c => (r : Rat) + 7 * c + 1
def e7 : VecN Rat := fun r => (r : Rat) + 1

/-! ### one contact on the small models -/

/-- one contact on body 1 -/
def C1 : CSet Rat := run [.contact 1 ⟨1, 0, 0⟩ ⟨0, 1, 0⟩ noUserId]
/-- one contact on the (non-existent) body 5 -/
def C5 : CSet Rat := run [.contact 5 ⟨1, 0, 0⟩ ⟨0, 1, 0⟩ noUserId]

/-- one contact on body 1, point on the y axis, normal z -/
def C1z : CSet Rat := run [.contact 1 ⟨0, 1, 0⟩ ⟨0, 0, 1⟩ noUserId]
theorem C1z_ids (mm : ModelS Rat) (h : IdOK mm 1) : IdsOK mm C1z :=
  idsOK_run _ (fun op hop => by
    simp only [List.mem_cons, List.mem_nil_iff, or_false] at hop
    subst hop; exact h)

/-- `L13.Ex.w2` with another velocity stored beyond the bodies of the model -/
def w2v : WS Rat :=
  { L13.Ex.w2 with v := fun i => if i = 5 then ⟨⟨0, 0, 0⟩, ⟨0, 1, 0⟩⟩ else SV.zero }
theorem w2v_fixed : WSFixed L13.Ex.m2 w2v := wsfixed_congr _ L13.Ex.w2_fixed rfl rfl rfl rfl rfl

theorem C1_ids (mm : ModelS Rat) (h : IdOK mm 1) : IdsOK mm C1 :=
  idsOK_run _ (fun op hop => by
    simp only [List.mem_cons, List.mem_nil_iff, or_false] at hop
    subst hop; exact h)

/-- two bodies on revolute joints, body 1 attached to body 2: not in tree order -/
def mOrd : ModelS Rat := { L13.Ex.m2 with lambda := [0, 2, 0] }
def wOrd' : WS Rat := poison mOrd (initWS mOrd) 3
theorem mOrd_n : mOrd.nBodies = 3 := rfl
theorem mOrd_ok : AllJointOK mOrd := by
  intro i h1 h2; rw [mOrd_n] at h2; obtain rfl | rfl : i = 1 ∨ i = 2 := by omega
  all_goals exact ⟨rfl, rfl⟩
theorem mOrd_axes : AxesOK mOrd := by
  intro i h1 h2; rw [mOrd_n] at h2; obtain rfl | rfl : i = 1 ∨ i = 2 := by omega
  all_goals refine ⟨?_, ?_, ?_⟩ <;> intro h <;> exact absurd h (by decide)
theorem wOrd'_fixed : WSFixed mOrd wOrd' :=
  wsfixed_poison mOrd _ 3 (wsfixed_initWS mOrd mOrd_axes)
theorem mOrd_not_tree : ¬ TreeOrder mOrd := fun h => absurd (h 1 (by decide) (by decide)) (by decide)

/-- three bodies in a chain numbered from the tip: body 1 on body 2 on body 3 on the base -/
def mOrd3 : ModelS Rat :=
  { (ModelS.init : ModelS Rat) with
    lambda := [0, 2, 3, 0]
    joints := [Joint.root, ⟨.revolute, [sv6 0 0 1 0 0 0], 1, 0, noCustom⟩,
      ⟨.revolute, [sv6 1 0 0 0 0 0], 1, 1, noCustom⟩, ⟨.revolute, [sv6 0 0 1 0 0 0], 1, 2, noCustom⟩]
    xT := [XT.id, ⟨M3.one, ⟨0, 1, 0⟩⟩, ⟨M3.one, ⟨1, 0, 0⟩⟩, XT.id]
    w3Index := [0, 0, 0, 0]
    bodies := [L13.Ex.b1, L13.Ex.b1, L13.Ex.b1, L13.Ex.b1]
    I := [RBI.zero, RBI.ofMassComInertiaC 1 ⟨1, 0, 0⟩ M3.one,
      RBI.ofMassComInertiaC 2 ⟨0, 1, 1⟩ M3.one, RBI.ofMassComInertiaC 1 ⟨0, 0, 1⟩ M3.one]
    dofCount := 3, qSize := 3, qdotSize := 3 }
def wOrd3 : WS Rat := initWS mOrd3
def wOrd3' : WS Rat := poison mOrd3 (initWS mOrd3) 3
theorem mOrd3_n : mOrd3.nBodies = 4 := rfl
theorem mOrd3_ok : AllJointOK mOrd3 := by
  intro i h1 h2; rw [mOrd3_n] at h2; obtain rfl | rfl | rfl : i = 1 ∨ i = 2 ∨ i = 3 := by omega
  all_goals exact ⟨rfl, rfl⟩
theorem mOrd3_axes : AxesOK mOrd3 := by
  intro i h1 h2; rw [mOrd3_n] at h2; obtain rfl | rfl | rfl : i = 1 ∨ i = 2 ∨ i = 3 := by omega
  all_goals refine ⟨?_, ?_, ?_⟩ <;> intro h <;> exact absurd h (by decide)
theorem wOrd3_fixed : WSFixed mOrd3 wOrd3 := wsfixed_initWS mOrd3 mOrd3_axes
theorem wOrd3'_fixed : WSFixed mOrd3 wOrd3' := wsfixed_poison mOrd3 _ 3 wOrd3_fixed
theorem mOrd3_not_tree : ¬ TreeOrder mOrd3 :=
  fun h => absurd (h 1 (by decide) (by decide)) (by decide)
/-- a state with all angles at (cos, sin) = (3/5, 4/5) -/
def stOrd : QS Rat := ⟨fun _ => 1, fun _ => 3/5, fun _ => 4/5⟩

/-- another state of the one-joint model: `q = π/2` -/
def st1' : QS Rat := ⟨fun _ => 0, fun _ => 0, fun _ => 1⟩

end Rbdl.L13CS.CEx
