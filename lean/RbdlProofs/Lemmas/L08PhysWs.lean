import RbdlProofs.Lemmas.L01
import RbdlProofs.Lemmas.L03Unit
import RbdlProofs.Lemmas.L09Whole
import RbdlProofs.Lemmas.L08Phys
/-
  C08 / C10 / C11, physical reading (part 2): the workspace `csvWS` in which
  `CalcConstrainedSystemVariables` evaluates the constraint routines (after the position update,
  `NonlinearEffects` and the composite-rigid-body algorithm) satisfies the kinematic hypotheses of
  C05 / C09 (`JacHyp`), and after `UpdateKinematicsCustom (NULL, NULL, q̈)` its bodies carry the pose
  jets of the motion `(q, q̇, q̈)` (`BodyJet`).
-/
set_option linter.unusedSectionVars false
namespace Rbdl.L08Phys
open Lean.Grind Rbdl Rbdl.Loops Rbdl.L05 Rbdl.L06 Rbdl.L09 Rbdl.Spec

section
variable {α : Type} [Field α] [DecidableEq α]

/-- `rneaBackward` writes only `f` -/
theorem rneaBackward_keep {τ : Type} (view : WS α → τ)
    (hv : ∀ (w : WS α) f, view { w with f := f } = view w) (m : ModelS α) (w : WS α)
    (tau : VecN α) : view (rneaBackward m w tau).1 = view w :=
  forDown_keep (fun (s : WS α × VecN α) => view s.1) _ _ _
    (fun i s _ _ => by
      obtain ⟨w, tau⟩ := s
      dsimp only
      split
      · exact hv _ _
      · rfl) (w, tau)

/-- the fields of `csvWS` other than `f`, `Ic` are those of the forward pass of `NonlinearEffects` -/
theorem csvWS_keep {τ : Type} (view : WS α → τ)
    (hIc : ∀ (w : WS α) Ic, view { w with Ic := Ic } = view w)
    (hf : ∀ (w : WS α) f, view { w with f := f } = view w)
    (m : ModelS α) (w : WS α) (st : QS α) (qd : VecN α) (update : Bool)
    (fext : Option (Nat → SV α)) :
    view (csvWS m w st qd update fext)
      = view (L01.neForward m (updQ m w st update) st qd fext) := by
  unfold csvWS
  rw [L03.crba_eq, L03.crbaLoop_keep view hIc, L03.crbaInit_false_keep view hIc,
    L01.nonlinearEffects_eq, rneaBackward_keep view hf]

/-- hypotheses of the workspace analysis: the set-up of C05 / C06 / C09 for the construction-time
    content of the workspace, and what `NonlinearEffects` needs: `mJointUpdateOrder` (without its
    leading 0) lists exactly the movable bodies, distinct custom joints use distinct slots -/
structure WsHyp (m : ModelS α) (w : WS α) (st : QS α) : Prop where
  setup : Setup m w st
  perm : (m.updateOrder.drop 1).Perm (List.range' 1 (m.nBodies - 1))
  inj : L01.CustomInj m

/-- without external forces the forward pass of `NonlinearEffects` does not write `X_base` -/
theorem neForward_X_base_none (m : ModelS α) (e : WS α) (st : QS α) (qd : VecN α) :
    (L01.neForward m e st qd none).X_base = e.X_base := by
  unfold L01.neForward
  have e1 := forUp_keep (fun s : WS α => s.X_base) (L01.neBody m none) (m.nBodies - 1) 1
    (fun i s _ _ => by
      show (L01.neF m none i (L01.neXb m none i (L01.neKin m i s))).X_base = s.X_base
      unfold L01.neF L01.neXb
      exact L01.neKin_keep (fun w => w.X_base) (fun _ _ _ _ => rfl) m i s)
    (L01.neJ m e st qd)
  have e2 := foldl_keep (fun s i => jcalc m s i st qd) (fun s : WS α => s.X_base)
    (m.updateOrder.drop 1) (fun s i _ => jcalc_X_base m s i st qd) (L01.idInit m e)
  exact e1.trans e2

/-- **the forward pass of `NonlinearEffects` after the position update leaves a workspace that
    satisfies the kinematic recursions** -/
theorem kinWS_neForward (m : ModelS α) (w : WS α) (st : QS α) (qd : VecN α)
    (fext : Option (Nat → SV α)) (h : WsHyp m w st) :
    KinWS m (L01.neForward m (updateKinematicsCustom m w (some st) none none) st qd fext) qd ∧
    CustomCols m (L01.neForward m (updateKinematicsCustom m w (some st) none none) st qd fext) := by
  have hK := h.setup.kin
  have he0 : (updateKinematicsCustom m w (some st) none none).X_base 0 = XT.id := by
    rw [ukc_X_base_outside m w st 0 (Or.inl rfl)]; exact h.setup.x0
  obtain ⟨hF, hFc⟩ := L01.neForward_closed m h.inj hK.tree h.perm
    (updateKinematicsCustom m w (some st) none none) st qd fext (fun _ => he0)
  have hJW := ukc_JointWS m w st hK.ws
  have hSc : ∀ i, 1 ≤ i → i < m.nBodies →
      (L01.neForward m (updateKinematicsCustom m w (some st) none none) st qd fext).Scols m i
        = (jcalc m (updateKinematicsCustom m w (some st) none none) i st qd).Scols m i :=
    fun i h1 hi => L05.Scols_congr m _ _ i (hF.jS i h1 hi) (hF.jS3 i h1 hi) (hF.jcS i h1 hi)
  have hXl : ∀ i, 1 ≤ i → i < m.nBodies →
      (L01.neForward m (updateKinematicsCustom m w (some st) none none) st qd fext).X_lambda i
        = jcalcX m i st (w.X_lambda i) := fun i h1 hi => by
    rw [hF.jX i h1 hi, jcalc_X_lambda, upd_same, ukc_X_lambda m w st i h1 hi, jcalcX_idem]
  have hXle : ∀ i, 1 ≤ i → i < m.nBodies →
      (L01.neForward m (updateKinematicsCustom m w (some st) none none) st qd fext).X_lambda i
        = (updateKinematicsCustom m w (some st) none none).X_lambda i := fun i h1 hi => by
    rw [hXl i h1 hi, ukc_X_lambda m w st i h1 hi]
  refine ⟨kinWS_of_parts hK.jc hK.frame hK.unit (fun i h1 hi => ⟨⟨?_, ?_, fun hc => ?_⟩, hXl i h1 hi⟩)
    (fun i h1 hi => ?_), fun i h1 hi hc => ?_⟩
  · rw [hF.v i h1 hi]
    by_cases hl : m.lam i ≠ 0
    · rw [if_pos hl]
    · have hl0 : m.lam i = 0 := by omega
      rw [if_neg hl, hl0, hF.v0, L01.apply_zero, L01.sv_zero_add]
  · rw [hF.jvJ i h1 hi, hSc i h1 hi]
    exact jcalc_v_J_cols m _ i st qd (hK.jc i h1 hi) (hJW i h1 hi)
  · rw [hF.jcS i h1 hi hc]; exact jcalc_cS_length m _ i st qd hc
  · unfold XBaseAt
    cases fext with
    | none =>
      rw [neForward_X_base_none, hXle i h1 hi]
      exact ukc_X_base m w st hK.tree i h1 hi
    | some fe =>
      rw [hFc.xb rfl i h1 hi]
      by_cases hl : m.lam i ≠ 0
      · rw [if_pos hl]
      · have hl0 : m.lam i = 0 := by omega
        rw [if_neg hl, hl0, hFc.xb0, he0, C16.mul_id]
  · rw [hF.jcS i h1 hi hc]; exact jcalc_cS_length m _ i st qd hc

/-- **`csvWS` satisfies the hypotheses of C05 / C09** (`update_kinematics = true`) -/
theorem csvWS_jacHyp (m : ModelS α) (w : WS α) (st : QS α) (qd : VecN α)
    (fext : Option (Nat → SV α)) (h : WsHyp m w st) :
    JacHyp m (csvWS m w st qd true fext) qd := by
  obtain ⟨hK, hC⟩ := kinWS_neForward m w st qd fext h
  have k := fun {τ : Type} (view : WS α → τ) hIc hf =>
    csvWS_keep view hIc hf m w st qd true fext
  have eX := k (fun w => w.X_lambda) (fun _ _ => rfl) (fun _ _ => rfl)
  have eB := k (fun w => w.X_base) (fun _ _ => rfl) (fun _ _ => rfl)
  have eV := k (fun w => w.v) (fun _ _ => rfl) (fun _ _ => rfl)
  have eVJ := k (fun w => w.v_J) (fun _ _ => rfl) (fun _ _ => rfl)
  have eS := k (fun w => w.S) (fun _ _ => rfl) (fun _ _ => rfl)
  have eS3 := k (fun w => w.S3) (fun _ _ => rfl) (fun _ _ => rfl)
  have eC := k (fun w => w.cS) (fun _ _ => rfl) (fun _ _ => rfl)
  have hu : updQ m w st true = updateKinematicsCustom m w (some st) none none := rfl
  rw [hu] at eX eB eV eVJ eS eS3 eC
  have eSc : ∀ i, (csvWS m w st qd true fext).Scols m i
      = (L01.neForward m (updateKinematicsCustom m w (some st) none none) st qd fext).Scols m i :=
    fun i => L05.Scols_congr m _ _ i (by rw [eS]) (by rw [eS3]) (fun _ => by rw [eC])
  refine ⟨h.setup.layout, colsOk_of_customCols (fun i h1 hi hc => ?_) h.setup.cdof,
    fun i h1 hi => (hK i h1 hi).congr (by rw [eX]) (by rw [eB]) (by rw [eB]) (by rw [eV])
      (by rw [eV]) (by rw [eVJ]) (eSc i)⟩
  rw [eC]; exact hC i h1 hi hc

/-- the rows of `csvWS` (`update_kinematics = true`): what `jcalc` computes from the workspace after
    the position update, and the velocity recursions -/
theorem csvWS_rows (m : ModelS α) (w : WS α) (st : QS α) (qd : VecN α)
    (fext : Option (Nat → SV α)) (h : WsHyp m w st) :
    (csvWS m w st qd true fext).v 0 = SV.zero ∧
    (csvWS m w st qd true fext).X_base 0 = XT.id ∧
    ∀ i, 1 ≤ i → i < m.nBodies →
      (csvWS m w st qd true fext).X_lambda i
        = (jcalc m (updateKinematicsCustom m w (some st) none none) i st qd).X_lambda i ∧
      (csvWS m w st qd true fext).v_J i
        = (jcalc m (updateKinematicsCustom m w (some st) none none) i st qd).v_J i ∧
      (csvWS m w st qd true fext).c_J i
        = (jcalc m (updateKinematicsCustom m w (some st) none none) i st qd).c_J i ∧
      (csvWS m w st qd true fext).S i
        = (jcalc m (updateKinematicsCustom m w (some st) none none) i st qd).S i ∧
      (csvWS m w st qd true fext).S3 i
        = (jcalc m (updateKinematicsCustom m w (some st) none none) i st qd).S3 i ∧
      ((m.joint i).jt = .custom →
        (csvWS m w st qd true fext).cS (m.joint i).customIdx
          = (jcalc m (updateKinematicsCustom m w (some st) none none) i st qd).cS
              (m.joint i).customIdx) ∧
      (csvWS m w st qd true fext).v i
        = ((csvWS m w st qd true fext).X_lambda i).apply
            ((csvWS m w st qd true fext).v (m.lam i)) + (csvWS m w st qd true fext).v_J i ∧
      (csvWS m w st qd true fext).c i
        = (csvWS m w st qd true fext).c_J i
          + crossm ((csvWS m w st qd true fext).v i) ((csvWS m w st qd true fext).v_J i) := by
  have he0 : (updateKinematicsCustom m w (some st) none none).X_base 0 = XT.id := by
    rw [ukc_X_base_outside m w st 0 (Or.inl rfl)]; exact h.setup.x0
  obtain ⟨hF, hFc⟩ := L01.neForward_closed m h.inj h.setup.kin.tree h.perm
    (updateKinematicsCustom m w (some st) none none) st qd fext (fun _ => he0)
  have k := fun {τ : Type} (view : WS α → τ) hIc hf =>
    csvWS_keep view hIc hf m w st qd true fext
  have hu : updQ m w st true = updateKinematicsCustom m w (some st) none none := rfl
  have eX := k (fun w => w.X_lambda) (fun _ _ => rfl) (fun _ _ => rfl)
  have eB := k (fun w => w.X_base) (fun _ _ => rfl) (fun _ _ => rfl)
  have eV := k (fun w => w.v) (fun _ _ => rfl) (fun _ _ => rfl)
  have eVJ := k (fun w => w.v_J) (fun _ _ => rfl) (fun _ _ => rfl)
  have eCJ := k (fun w => w.c_J) (fun _ _ => rfl) (fun _ _ => rfl)
  have eCc := k (fun w => w.c) (fun _ _ => rfl) (fun _ _ => rfl)
  have eS := k (fun w => w.S) (fun _ _ => rfl) (fun _ _ => rfl)
  have eS3 := k (fun w => w.S3) (fun _ _ => rfl) (fun _ _ => rfl)
  have eC := k (fun w => w.cS) (fun _ _ => rfl) (fun _ _ => rfl)
  rw [hu] at eX eB eV eVJ eCJ eCc eS eS3 eC
  refine ⟨by rw [eV]; exact hF.v0, by rw [eB, hFc.xb0]; exact he0, fun i h1 hi => ?_⟩
  rw [eX, eV, eVJ, eCJ, eCc, eS, eS3, eC]
  exact ⟨hF.jX i h1 hi, hF.jvJ i h1 hi, hF.jcJ i h1 hi, hF.jS i h1 hi, hF.jS3 i h1 hi,
    hF.jcS i h1 hi, hF.v i h1 hi, hF.c i h1 hi⟩

theorem sqdd_other (W : WS α) (m : ModelS α) (i : Nat) (qdd : VecN α) (h : m.arity i = .other) :
    W.Sqdd m i qdd = SV.zero := by
  unfold WS.Sqdd; rw [h]

/-- after `UpdateKinematicsCustom (NULL, NULL, q̈)` on `csvWS`, `(v[i], a[i])` are the body-form
    spatial velocity / acceleration of the world pose jet of body `i` along `(q, q̇, q̈)` -/
theorem csvWS_bodyForm (m : ModelS α) (w : WS α) (st : QS α) (qd qdd : VecN α)
    (fext : Option (Nat → SV α)) (h2 : (2 : α) ≠ 0) (h : WsHyp m w st) :
    ∀ i, 1 ≤ i → i < m.nBodies →
      BodyForm (NodeKin.ofPose (bodyPoseJet m st qd qdd i))
        ((updateKinematicsCustom m (csvWS m w st qd true fext) none none (some qdd)).v i)
        ((updateKinematicsCustom m (csvWS m w st qd true fext) none none (some qdd)).a i) := by
  have hK := h.setup.kin
  obtain ⟨hv0, _, hrows⟩ := csvWS_rows m w st qd fext h
  have hJW := ukc_JointWS m w st hK.ws
  have eV : (updateKinematicsCustom m (csvWS m w st qd true fext) none none (some qdd)).v
      = (csvWS m w st qd true fext).v := by rw [ukcAcc_eq]
  intro i
  induction i using Nat.strongRecOn with
  | _ i ih =>
    intro h1 hi
    generalize hW : csvWS m w st qd true fext = W at *
    generalize he : updateKinematicsCustom m w (some st) none none = e at *
    obtain ⟨rX, rvJ, rcJ, rS, rS3, rcS, rv, rc⟩ := hrows i h1 hi
    -- the state handed to one iteration of the `UpdateKinematics` loop
    let A0 : Nat → SV α := upd (updateKinematicsCustom m W none none (some qdd)).a 0 SV.zero
    let s : WS α := { e with v := W.v, a := A0 }
    obtain ⟨jX, jvJ, jcJ, jS, jS3⟩ := L01.jcalc_congr m s e i st qd rfl rfl rfl rfl rfl
    have hjm := jointMotion m s i st qd qdd h2 (hK.jc i h1 hi) (hK.unit i h1 hi)
      (L06.JointWS_congr m e s i rfl rfl rfl rfl (hJW i h1 hi)) (h.setup.w3 i h1 hi)
    have hlt := hK.tree i h1 hi
    have hP : BodyForm (NodeKin.ofPose (bodyPoseJet m st qd qdd (m.lam i)))
        (if m.lam i ≠ 0 then s.v (m.lam i) else SV.zero) (s.a (m.lam i)) := by
      by_cases hl : m.lam i ≠ 0
      · rw [if_pos hl]
        have := ih (m.lam i) hlt (by omega) (by omega)
        rw [eV] at this
        show BodyForm _ (W.v (m.lam i))
          (upd (updateKinematicsCustom m W none none (some qdd)).a 0 SV.zero (m.lam i))
        rw [upd_other _ _ _ _ hl]
        exact this
      · have hl0 : m.lam i = 0 := by omega
        rw [if_neg hl, hl0]
        show BodyForm _ SV.zero
          (upd (updateKinematicsCustom m W none none (some qdd)).a 0 SV.zero 0)
        rw [upd_same]
        exact bf_poseId
    have hstep := step_bodyForm m s i st qd qdd (hK.jc i h1 hi) (hK.frame i h1 hi) hjm _ hP
    rw [← bodyPoseJet_step m st qd qdd hK.tree i h1 hi] at hstep
    obtain ⟨ev, ea⟩ := ukBody_va m st qd qdd i s
    have hV : (ukBody m st qd qdd i s).v i = W.v i := by
      rw [ev, jX, jvJ, ← rX, ← rvJ, rv]
      by_cases hl : m.lam i ≠ 0
      · rw [if_pos hl]
      · have hl0 : m.lam i = 0 := by omega
        rw [if_neg hl, hl0, hv0, L01.apply_zero, L01.sv_zero_add]
    refine hstep.congr (by rw [hV, eV]) ?_
    have hSq : WS.Sqdd (jcalc m s i st qd) m i qdd = W.Sqdd m i qdd :=
      L01.Sqdd_congr m _ _ i qdd (fun _ => by rw [jS, rS]) (fun _ => by rw [jS3, rS3])
        (fun hc => by
          rw [rcS hc, L01.jcalc_cS, L01.jcalc_cS, if_pos hc])
    rw [ea, ← ev, hV, jX, jcJ, jvJ, ← rX, ← rcJ, ← rvJ, ← rc, hSq,
      ukcAcc_rec m W qdd hK.tree i h1 hi]
    unfold accF
    dsimp only
    have hA : s.a (m.lam i) = A0 (m.lam i) := rfl
    rw [hA]
    by_cases hl : m.lam i ≠ 0
    · rw [if_pos hl, show A0 (m.lam i) = _ from upd_other _ _ _ _ hl]
      cases ha : m.arity i <;> dsimp only
      rw [sqdd_other W m i qdd ha, L06.sv_add_zero]
    · have hl0 : m.lam i = 0 := by omega
      rw [if_neg hl, hl0, show A0 0 = _ from upd_same _ _ _, L01.apply_zero, L01.sv_zero_add]
      cases ha : m.arity i <;> dsimp only
      rw [sqdd_other W m i qdd ha, L06.sv_add_zero]

/-- `X_base[i]` of `csvWS` is the value part of the world pose jet -/
theorem csvWS_X_base (m : ModelS α) (w : WS α) (st : QS α) (qd qdd : VecN α)
    (fext : Option (Nat → SV α)) (h : WsHyp m w st) :
    ∀ i, 1 ≤ i → i < m.nBodies →
      (csvWS m w st qd true fext).X_base i
        = xtOfKin (NodeKin.ofPose (bodyPoseJet m st qd qdd i)) := by
  have hK := h.setup.kin
  have hJ := csvWS_jacHyp m w st qd fext h
  obtain ⟨_, _, hrows⟩ := csvWS_rows m w st qd fext h
  intro i
  induction i using Nat.strongRecOn with
  | _ i ih =>
    intro h1 hi
    rw [(hJ.kin i h1 hi).X_base, (hrows i h1 hi).1, bodyPoseJet_step m st qd qdd hK.tree i h1 hi,
      ofPose_comp, ofPose_comp, xtOfKin_compKin, xtOfKin_compKin, xtOfKin_frame,
      ← jcalc_X_lambda_joint m _ i st qd qd qdd (hK.jc i h1 hi)]
    by_cases hl : m.lam i ≠ 0
    · have hlt := hK.tree i h1 hi
      rw [if_pos hl, ih (m.lam i) hlt (by omega) (by omega)]
    · have hl0 : m.lam i = 0 := by omega
      rw [if_neg hl, hl0, bodyPoseJet_zero, xtOfKin_poseId, C16.mul_id]

/-- **after `UpdateKinematicsCustom (NULL, NULL, q̈)` on `csvWS` the base body and every movable
    body carry the pose jet of the motion `(q, q̇, q̈)`** -/
theorem csvWS_bodyJet (m : ModelS α) (w : WS α) (st : QS α) (qd qdd : VecN α)
    (fext : Option (Nat → SV α)) (h2 : (2 : α) ≠ 0) (h : WsHyp m w st) (id : Nat)
    (hid : BodyOK m id) :
    BodyJet (updateKinematicsCustom m (csvWS m w st qd true fext) none none (some qdd)) id
      (NodeKin.ofPose (bodyPoseJet m st qd qdd id)) := by
  have eX : (updateKinematicsCustom m (csvWS m w st qd true fext) none none (some qdd)).X_base
      = (csvWS m w st qd true fext).X_base := by rw [ukcAcc_eq]
  rcases hid with rfl | ⟨h1, hi, _⟩
  · rw [bodyPoseJet_zero]
    exact bodyJet_base _ (by rw [eX]; exact (csvWS_rows m w st qd fext h).2.1)
  · obtain ⟨ev, ea, hk⟩ := (csvWS_bodyForm m w st qd qdd fext h2 h id h1 hi).spec
    exact ⟨hk, by rw [eX]; exact csvWS_X_base m w st qd qdd fext h id h1 hi,
      by rw [upd_other _ _ _ _ (by omega)]; exact ev,
      by rw [upd_other _ _ _ _ (by omega)]; exact ea⟩

end
end Rbdl.L08Phys
