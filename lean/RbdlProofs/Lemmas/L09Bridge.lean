import RbdlProofs.Lemmas.L09Alg
/-
  C09, part 6: from the workspace to pose jets.  `BodyJet w id k`: the workspace entries of body `id`
  (`X_base`, `v`, `a`) are those of the pose jet `k` — what C06 proves for the workspace left by
  `UpdateKinematics`; the base body carries the constant identity jet.
-/
set_option linter.unusedSectionVars false
namespace Rbdl.L09
open Lean.Grind Rbdl Rbdl.L05 Rbdl.L06 Rbdl.Spec

section
variable {α : Type} [Field α] [DecidableEq α]

/-- the workspace entries of body `id` describe the pose jet `k` (`v[0]`, `a[0]` count as zero, as
    the point routines set them) -/
structure BodyJet (w : WS α) (id : Nat) (k : NodeKin α) : Prop where
  ok : KinOk k
  xb : w.X_base id = ⟨k.R.transpose, k.p⟩
  v : upd w.v 0 SV.zero id = svOfKin k
  a : upd w.a 0 SV.zero id = saOfKin k

theorem tmulVec_transpose (R : M3 α) (x : V3 α) : R.transpose.tmulVec x = R * x := by alg_ext

theorem BodyJet.frameOf {w : WS α} {id : Nat} {P : Pose (D2 α)}
    (h : BodyJet w id (NodeKin.ofPose P)) (Xf : XT α) :
    frameOf w id Xf = ⟨(NodeKin.ofPose (framePlacement P Xf)).R,
                       (NodeKin.ofPose (framePlacement P Xf)).p⟩ := by
  rw [ofPose_framePlacement]
  simp only [L09.frameOf, h.xb, tmulVec_transpose, NodeKin.pt]
  rfl

theorem BodyJet.vel6 (h2 : (2 : α) ≠ 0) {w : WS α} {id : Nat} {k : NodeKin α}
    (h : BodyJet w id k) (x : V3 α) : vel6 w id x = ⟨k.omega, k.ptd x⟩ := by
  unfold L09.vel6
  rw [h.v]
  exact C06.point_velocity h2 k h.ok _ (by rw [h.xb]) x

theorem BodyJet.acc6 (h2 : (2 : α) ≠ 0) {w : WS α} {id : Nat} {k : NodeKin α}
    (h : BodyJet w id k) (x : V3 α) : acc6 w id x = ⟨k.omegaDot, k.ptdd x⟩ := by
  unfold L09.acc6 L09.vel6
  rw [h.v, h.a]
  exact C06.point_acceleration h2 k h.ok _ (by rw [h.xb]) x

/-- the frame carried by the body rotates with the body -/
theorem BodyJet.frameJet (h2 : (2 : α) ≠ 0) {w : WS α} {id : Nat} {P : Pose (D2 α)}
    (h : BodyJet w id (NodeKin.ofPose P)) (Xf : XT α) :
    FrameJet (NodeKin.ofPose (framePlacement P Xf)) (NodeKin.ofPose P).omega
      (NodeKin.ofPose P).omegaDot := by
  obtain ⟨_, hrd, hrdd⟩ := kinOk_world h2 h.ok
  rw [ofPose_framePlacement]
  constructor
  · show (NodeKin.ofPose P).Rd * Xf.E = _ * ((NodeKin.ofPose P).R * Xf.E)
    rw [← m3_mul_assoc, ← hrd]
  · show (NodeKin.ofPose P).Rdd * Xf.E = _ * ((NodeKin.ofPose P).R * Xf.E)
    rw [← m3_mul_assoc, ← hrdd]

theorem framePlacement_pd (P : Pose (D2 α)) (Xf : XT α) :
    (NodeKin.ofPose (framePlacement P Xf)).pd = (NodeKin.ofPose P).ptd Xf.r ∧
    (NodeKin.ofPose (framePlacement P Xf)).pdd = (NodeKin.ofPose P).ptdd Xf.r := by
  rw [ofPose_framePlacement]; exact ⟨rfl, rfl⟩

/-- the base body carries the constant identity jet (when `X_base[0]` is the identity, as after
    construction) -/
theorem bodyJet_base (w : WS α) (h0 : w.X_base 0 = XT.id) :
    BodyJet w 0 (NodeKin.ofPose (Pose.id : Pose (D2 α))) := by
  refine ⟨bf_poseId.kinOk, ?_, ?_, ?_⟩
  · rw [h0]; rfl
  · rw [upd_same]; exact bf_poseId.sv.symm
  · rw [upd_same]; exact bf_poseId.sa.symm

/-- C06: after `UpdateKinematics` every movable body carries the jet of its world pose -/
theorem bodyJet_uk (m : ModelS α) (w : WS α) (st : QS α) (qd qdd : VecN α) (h2 : (2 : α) ≠ 0)
    (hK : KinHyp m w st)
    (hw3 : ∀ i, 1 ≤ i → i < m.nBodies → (m.joint i).jt = .spherical →
      (m.joint i).qIndex + 2 < m.w3 i)
    (P : Nat → Pose (D2 α)) (hP0 : P 0 = Pose.id)
    (hP : ∀ i, 1 ≤ i → i < m.nBodies →
      P i = (P (m.lam i)).comp ((framePoseJet m i).comp (jointPoseJet m i st qd qdd)))
    (id : Nat) (h1 : 1 ≤ id) (hi : id < m.nBodies) :
    BodyJet (updateKinematics m w st qd qdd) id (NodeKin.ofPose (P id)) := by
  obtain ⟨hv, ha, hk⟩ := C06.updateKinematics_velocity_acceleration m w st qd qdd h2 hK.tree hK.jc
    hK.frame hK.unit hK.ws hw3 P hP0 hP id h1 hi
  have hX := C06.updateKinematics_X_base m w st qd qdd hK.tree hK.jc P hP0 hP id h1 hi
  exact ⟨hk, hX, by rw [upd_other _ _ _ _ (by omega)]; exact hv,
    by rw [upd_other _ _ _ _ (by omega)]; exact ha⟩

/-- `UpdateKinematics` does not write `X_base[0]` -/
theorem uk_X_base_zero (m : ModelS α) (w : WS α) (st : QS α) (qd qdd : VecN α) :
    (updateKinematics m w st qd qdd).X_base 0 = w.X_base 0 := by
  rw [uk_eq_forUp]
  exact Loops.forUp_inv (fun s : WS α => s.X_base 0 = w.X_base 0) _ _ _
    (fun i s h1 _ hs => by
      show (ukBody m st qd qdd i s).X_base 0 = _
      rw [ukBody_X_base_other m st qd qdd i s 0 (by omega)]; exact hs) _ rfl

/-- base body or movable body after `UpdateKinematics`, with the table `P` (`P 0 = id`) -/
theorem bodyJet_uk_ok (m : ModelS α) (w : WS α) (st : QS α) (qd qdd : VecN α) (h2 : (2 : α) ≠ 0)
    (hK : KinHyp m w st) (h0 : w.X_base 0 = XT.id)
    (hw3 : ∀ i, 1 ≤ i → i < m.nBodies → (m.joint i).jt = .spherical →
      (m.joint i).qIndex + 2 < m.w3 i)
    (P : Nat → Pose (D2 α)) (hP0 : P 0 = Pose.id)
    (hP : ∀ i, 1 ≤ i → i < m.nBodies →
      P i = (P (m.lam i)).comp ((framePoseJet m i).comp (jointPoseJet m i st qd qdd)))
    (id : Nat) (hid : BodyOK m id) :
    BodyJet (updateKinematics m w st qd qdd) id (NodeKin.ofPose (P id)) := by
  rcases hid with rfl | ⟨h1, hi, _⟩
  · rw [hP0]
    exact bodyJet_base _ (by rw [uk_X_base_zero]; exact h0)
  · exact bodyJet_uk m w st qd qdd h2 hK hw3 P hP0 hP id h1 hi

theorem BodyOK.notFixed {m : ModelS α} {id : Nat} (h : BodyOK m id) : ¬ fixedDisc ≤ id := by
  rcases h with rfl | ⟨_, _, h⟩
  · simp [fixedDisc]
  · exact h

/-! ### loop rows in terms of jets -/

/-- the code's `G q̇` for a loop row is `codeVel` of the two frame jets -/
theorem loop_row_codeVel (h2 : (2 : α) ≠ 0) (c : Constr α) (hc : c.ctype = .loop) (m : ModelS α)
    (w : WS α) (st : QS α) (qd : VecN α) (G : MatN α) (hJ : JacHyp m w qd)
    (hP : BodyOK m c.bodyP) (hS : BodyOK m c.bodyS) (PA PB : Pose (D2 α))
    (jA : BodyJet w c.bodyP (NodeKin.ofPose PA)) (jB : BodyJet w c.bodyS (NodeKin.ofPose PB))
    (r : Nat) (hr : hasRow c r) :
    rowDot (c.jacobian m w st G false).2 m.qdotSize r qd
      = codeVel (NodeKin.ofPose (framePlacement PA c.XP)) (NodeKin.ofPose (framePlacement PB c.XS))
          (NodeKin.ofPose PA).omega (NodeKin.ofPose PB).omega (axisAt c r) := by
  rw [loop_row_dot c hc m w st G hP.notFixed r hr qd]
  unfold loopJs loopJp
  rw [pointJacobian6D_mul_ok m w st qd c.bodyS c.XS.r hJ hS,
    pointJacobian6D_mul_ok m w st qd c.bodyP c.XP.r hJ hP,
    pointVelocity6D_eq m w st qd c.bodyS c.XS.r hS.notFixed,
    pointVelocity6D_eq m w st qd c.bodyP c.XP.r hP.notFixed]
  dsimp only
  rw [jA.vel6 h2, jB.vel6 h2, jA.frameOf]
  unfold codeVel
  rw [(framePlacement_pd PA c.XP).1, (framePlacement_pd PB c.XS).1]

/-- the code's `γ` for a loop row is `−codeAcc` of the two frame jets (the accelerations being
    those in the workspace) -/
theorem loop_gamma_codeAcc (h2 : (2 : α) ≠ 0) (c : Constr α) (hc : c.ctype = .loop) (m : ModelS α)
    (w : WS α) (st : QS α) (qd : VecN α) (gam : VecN α)
    (hP : BodyOK m c.bodyP) (hS : BodyOK m c.bodyS) (PA PB : Pose (D2 α))
    (jA : BodyJet w c.bodyP (NodeKin.ofPose PA)) (jB : BodyJet w c.bodyS (NodeKin.ofPose PB))
    (r : Nat) (hr : hasRow c r) :
    (c.gamma m w st qd gam).2 r
      = -codeAcc (NodeKin.ofPose (framePlacement PA c.XP)) (NodeKin.ofPose (framePlacement PB c.XS))
          (NodeKin.ofPose PA).omega (NodeKin.ofPose PA).omegaDot
          (NodeKin.ofPose PB).omega (NodeKin.ofPose PB).omegaDot (axisAt c r) := by
  rw [loop_gamma_get c hc m w st qd gam hP.notFixed hS.notFixed r, if_pos hr,
    jA.vel6 h2, jB.vel6 h2, jA.acc6 h2, jB.acc6 h2, jA.frameOf]
  unfold codeAcc
  rw [(framePlacement_pd PA c.XP).1, (framePlacement_pd PB c.XS).1,
    (framePlacement_pd PA c.XP).2, (framePlacement_pd PB c.XS).2]
  grind

/-- the code's position error for a loop row is the value of `φ` -/
theorem loop_positionError_phi (c : Constr α) (hc : c.ctype = .loop) (hs : Shape c) (m : ModelS α)
    (w : WS α) (st : QS α) (err : VecN α)
    (hP : BodyOK m c.bodyP) (hS : BodyOK m c.bodyS) (PA PB : Pose (D2 α))
    (jA : BodyJet w c.bodyP (NodeKin.ofPose PA)) (jB : BodyJet w c.bodyS (NodeKin.ofPose PB))
    (r : Nat) (hr : hasRow c r) :
    (c.positionError m w st err false).2 r
      = (loopPhi (framePlacement PA c.XP) (framePlacement PB c.XS) (axisAt c r)).x := by
  rw [loop_positionError_get c hc m w st err hP.notFixed hS.notFixed r, if_pos hr,
    hs.posC_getD (r - c.row) (by have := hr.1; have := hr.2; omega), hc, loopPhi_x,
    jA.frameOf, jB.frameOf]
  rfl

end
end Rbdl.L09

namespace Rbdl.L09
open Lean.Grind Rbdl Rbdl.L05 Rbdl.L06 Rbdl.Spec

section
variable {α : Type} [Field α] [DecidableEq α]

/-- hypotheses on model, state and construction-time workspace under which C05 / C06 apply
    (`KinHyp`, coordinate layout, custom joints declare the DoF of their kind, quaternion slots,
    `X_base[0] = 1`) -/
structure Setup (m : ModelS α) (w : WS α) (st : QS α) : Prop where
  kin : KinHyp m w st
  layout : Layout m
  cdof : ∀ i, 1 ≤ i → i < m.nBodies → (m.joint i).jt = .custom →
      (m.joint i).dof = (m.custom (m.joint i).customIdx).dof
  w3 : ∀ i, 1 ≤ i → i < m.nBodies → (m.joint i).jt = .spherical →
      (m.joint i).qIndex + 2 < m.w3 i
  x0 : w.X_base 0 = XT.id

theorem Setup.jacHyp {m : ModelS α} {w : WS α} {st : QS α} (h : Setup m w st) (qd qdd : VecN α) :
    JacHyp m (updateKinematics m w st qd qdd) qd :=
  have hk := kinWS_updateKinematics m w st qd qdd h.kin
  ⟨h.layout, colsOk_of_customCols hk.2 h.cdof, hk.1⟩

theorem Setup.bodyJet {m : ModelS α} {w : WS α} {st : QS α} (h : Setup m w st) (h2 : (2 : α) ≠ 0)
    (qd qdd : VecN α) (id : Nat) (hid : BodyOK m id) :
    BodyJet (updateKinematics m w st qd qdd) id (NodeKin.ofPose (bodyPoseJet m st qd qdd id)) :=
  bodyJet_uk_ok m w st qd qdd h2 h.kin h.x0 h.w3 (bodyPoseJet m st qd qdd) rfl
    (bodyPoseJet_step m st qd qdd h.kin.tree) id hid

/-! ### `G q̈ − γ` at the level of the code's own quantities -/

theorem ukc_frameOf (m : ModelS α) (w : WS α) (q : VecN α) (id : Nat) (Xf : XT α) :
    frameOf (updateKinematicsCustom m w none none (some q)) id Xf = frameOf w id Xf := by
  rw [ukcAcc_eq]; rfl

theorem ukc_vel6 (m : ModelS α) (w : WS α) (q : VecN α) (id : Nat) (p : V3 α) :
    vel6 (updateKinematicsCustom m w none none (some q)) id p = vel6 w id p := by
  rw [ukcAcc_eq]; rfl

theorem acc6_affine (m : ModelS α) (w : WS α) (st : QS α) (qd qdd : VecN α) (id : Nat) (p : V3 α)
    (h : JacHyp m w qd) (hid : BodyOK m id) :
    acc6 (updateKinematicsCustom m w none none (some qdd)) id p
      = acc6 (updateKinematicsCustom m w none none (some zeroVec)) id p
        + mulVecSV (calcPointJacobian6D m w st id p zeroMat false).2 m.qdotSize qdd := by
  have := pointAcceleration6D_affine_ok m w st qd qdd id p h hid
  rw [pointAcceleration6D_eq _ _ _ _ _ _ _ hid.notFixed,
    pointAcceleration6D_eq _ _ _ _ _ _ _ hid.notFixed] at this
  exact this

theorem sv_dot_alg (e f a1S a0S a1P a0P JS JP dV : SV α) (hS : a1S = a0S + JS) (hP : a1P = a0P + JP) :
    e.dot (JS - JP) - (-(e.dot (a0S - a0P)) - f.dot dV) = e.dot (a1S - a1P) + f.dot dV := by
  subst hS hP
  simp only [alg]; grind

/-- loops: `G q̈ − γ(q, q̇)` is the code's acceleration-level constraint expression evaluated with
    the accelerations for `q̈` -/
theorem loop_Gqdd_minus_gamma (c : Constr α) (hc : c.ctype = .loop) (m : ModelS α) (w : WS α)
    (st : QS α) (qd qdd : VecN α) (G : MatN α) (gam : VecN α) (hJ : JacHyp m w qd)
    (hP : BodyOK m c.bodyP) (hS : BodyOK m c.bodyS) (r : Nat) (hr : hasRow c r) :
    rowDot (c.jacobian m w st G false).2 m.qdotSize r qdd
        - (c.gamma m (updateKinematicsCustom m w none none (some zeroVec)) st qd gam).2 r
      = (loopAxis (frameOf w c.bodyP c.XP) (axisAt c r)).dot
          (acc6 (updateKinematicsCustom m w none none (some qdd)) c.bodyS c.XS.r
            - acc6 (updateKinematicsCustom m w none none (some qdd)) c.bodyP c.XP.r)
        + (crossm (vel6 w c.bodyP c.XP.r) (loopAxis (frameOf w c.bodyP c.XP) (axisAt c r))).dot
            (vel6 w c.bodyS c.XS.r - vel6 w c.bodyP c.XP.r) := by
  rw [loop_row_dot c hc m w st G hP.notFixed r hr qdd,
    loop_gamma_get c hc m _ st qd gam hP.notFixed hS.notFixed r, if_pos hr,
    ukc_frameOf, ukc_vel6, ukc_vel6]
  exact sv_dot_alg _ _ _ _ _ _ _ _ _ (acc6_affine m w st qd qdd c.bodyS c.XS.r hJ hS)
    (acc6_affine m w st qd qdd c.bodyP c.XP.r hJ hP)

theorem v3_dot_alg (n a1 a0 J : V3 α) (h : a1 = a0 + J) : n.dot J - -(n.dot a0) = n.dot a1 := by
  subst h; simp only [alg]; grind

/-- contacts: `G q̈ − γ(q, q̇) = n · a_P(q, q̇, q̈)` -/
theorem contact_Gqdd_minus_gamma (c : Constr α) (hc : c.ctype = .contact) (m : ModelS α) (w : WS α)
    (st : QS α) (qd qdd : VecN α) (G : MatN α) (gam : VecN α) (hJ : JacHyp m w qd)
    (hP : BodyOK m c.bodyP) (r : Nat) (hr : hasRow c r) :
    rowDot (c.jacobian m w st G false).2 m.qdotSize r qdd
        - (c.gamma m (updateKinematicsCustom m w none none (some zeroVec)) st qd gam).2 r
      = (axisAt c r).v.dot
          (calcPointAcceleration m (updateKinematicsCustom m w none none (some qdd)) st qd qdd
            c.bodyP c.XP.r false).2 := by
  rw [contact_row_dot c hc m w st G false r hr qdd, contact_gamma_get c hc, if_pos hr]
  refine v3_dot_alg _ _ _ _ ?_
  have h6 := pointAcceleration6D_affine_ok m w st qd qdd c.bodyP c.XP.r hJ hP
  have hv : mulVecV3 (contactJ c m w st false) m.qdotSize qdd
      = (mulVecSV (calcPointJacobian6D m w st c.bodyP c.XP.r zeroMat false).2 m.qdotSize qdd).v :=
    mulVecSV_v _ _ _ _ (pointJacobian_rows m w st c.bodyP c.XP.r zeroMat zeroMat false
      (fun _ _ _ => rfl))
  rw [hv]
  show (calcPointAcceleration6D m _ st qd qdd c.bodyP c.XP.r false).2.v
    = (calcPointAcceleration6D m _ st qd zeroVec c.bodyP c.XP.r false).2.v + _
  rw [h6]
  rfl

end
end Rbdl.L09

namespace Rbdl.L09
open Lean.Grind Rbdl Rbdl.L05 Rbdl.L06 Rbdl.Spec

section
variable {α : Type} [Field α] [DecidableEq α]

theorem FrameJet.rdd_zero {F : NodeKin α} {om omd : V3 α} (h : FrameJet F om omd)
    (h1 : om = V3.zero) (h2 : omd = V3.zero) : F.Rdd = M3.zero := by
  rw [h.rdd, h1, h2]; alg_ext

/-- **loop rows, velocity level, exact**: `G q̇ = φ̇ + velGap` -/
theorem loop_velocity_exact (h2 : (2 : α) ≠ 0) (c : Constr α) (hc : c.ctype = .loop) (m : ModelS α)
    (w : WS α) (st : QS α) (qd : VecN α) (G : MatN α) (hJ : JacHyp m w qd)
    (hP : BodyOK m c.bodyP) (hS : BodyOK m c.bodyS) (PA PB : Pose (D2 α))
    (jA : BodyJet w c.bodyP (NodeKin.ofPose PA)) (jB : BodyJet w c.bodyS (NodeKin.ofPose PB))
    (r : Nat) (hr : hasRow c r) :
    rowDot (c.jacobian m w st G false).2 m.qdotSize r qd
      = (loopPhi (framePlacement PA c.XP) (framePlacement PB c.XS) (axisAt c r)).d1
        + velGap (NodeKin.ofPose (framePlacement PA c.XP)) (NodeKin.ofPose (framePlacement PB c.XS))
            (NodeKin.ofPose PA).omega (NodeKin.ofPose PB).omega (axisAt c r) := by
  rw [loop_row_codeVel h2 c hc m w st qd G hJ hP hS PA PB jA jB r hr]
  exact loop_velGap _ _ _ _ _ _ _ (jA.frameJet h2 c.XP) (jB.frameJet h2 c.XS)

/-- **loop rows, acceleration level, exact**: `γ = −(φ̈ + accGap)` for the accelerations in the
    workspace (purely translational axis or aligned frames) -/
theorem loop_gamma_exact (h2 : (2 : α) ≠ 0) (c : Constr α) (hc : c.ctype = .loop) (m : ModelS α)
    (w : WS α) (st : QS α) (qd : VecN α) (gam : VecN α)
    (hP : BodyOK m c.bodyP) (hS : BodyOK m c.bodyS) (PA PB : Pose (D2 α))
    (jA : BodyJet w c.bodyP (NodeKin.ofPose PA)) (jB : BodyJet w c.bodyS (NodeKin.ofPose PB))
    (r : Nat) (hr : hasRow c r)
    (hrot : (axisAt c r).w = V3.zero ∨
      ((NodeKin.ofPose (framePlacement PB c.XS)).R = (NodeKin.ofPose (framePlacement PA c.XP)).R ∧
        (NodeKin.ofPose (framePlacement PA c.XP)).R.IsRot)) :
    (c.gamma m w st qd gam).2 r
      = -((loopPhi (framePlacement PA c.XP) (framePlacement PB c.XS) (axisAt c r)).d2
          + accGap (NodeKin.ofPose (framePlacement PA c.XP))
              (NodeKin.ofPose (framePlacement PB c.XS)) (NodeKin.ofPose PA).omega (axisAt c r)) := by
  rw [loop_gamma_codeAcc h2 c hc m w st qd gam hP hS PA PB jA jB r hr,
    loop_accGap h2 _ _ _ _ _ _ _ (jA.frameJet h2 c.XP) (jB.frameJet h2 c.XS) hrot]

/-- reading the jets off the workspace -/
theorem BodyJet.read (h2 : (2 : α) ≠ 0) {w : WS α} {id : Nat} {P : Pose (D2 α)}
    (h : BodyJet w id (NodeKin.ofPose P)) (Xf : XT α) :
    (NodeKin.ofPose (framePlacement P Xf)).R = (L09.frameOf w id Xf).E ∧
    (NodeKin.ofPose (framePlacement P Xf)).p = (L09.frameOf w id Xf).r ∧
    (NodeKin.ofPose P).omega = (L09.vel6 w id Xf.r).w ∧
    (NodeKin.ofPose (framePlacement P Xf)).pd = (L09.vel6 w id Xf.r).v ∧
    (NodeKin.ofPose P).omegaDot = (L09.acc6 w id Xf.r).w ∧
    (NodeKin.ofPose (framePlacement P Xf)).pdd = (L09.acc6 w id Xf.r).v := by
  rw [h.frameOf Xf, h.vel6 h2, h.acc6 h2, (framePlacement_pd P Xf).1, (framePlacement_pd P Xf).2]
  exact ⟨rfl, rfl, rfl, rfl, rfl, rfl⟩

end
end Rbdl.L09
