import RbdlProofs.Lemmas.L19
/-
  L19Names — ids and names after a successful load: the recorded `(name, id)` pairs, name lookup,
  the closed form of the ids assigned by the counting translator.
-/
namespace Rbdl.L19
open Lean.Grind Rbdl Rbdl.ModelS Rbdl.LuaLoad

section
variable {α : Type} [Field α] [DecidableEq α]

theorem loadFrame_names_prefix (s : LState α) (f : FrameEntry α) :
    s.m.names <+: (loadFrame s f).1.m.names := by
  cases hp : f.parent with
  | none => simp only [loadFrame, hp]; exact List.prefix_refl _
  | some pn =>
    cases hj : jointOf f.joint with
    | error e => simp only [loadFrame, hp, hj]; exact List.prefix_refl _
    | ok j =>
      cases hb : bodyOf f.body with
      | error e => simp only [loadFrame, hp, hj, hb]; exact List.prefix_refl _
      | ok b =>
        have h := addBody_names_prefix s.m (mapGet s.map pn) (frameOf f.jointFrame) j b f.name
        cases hr : s.m.addBody (mapGet s.map pn) (frameOf f.jointFrame) j b f.name with
        | mk m' res =>
          rw [hr] at h
          cases res <;> (simp only [loadFrame, hp, hj, hb, hr]; exact h)

theorem loadFrames_names_prefix (fs : List (FrameEntry α)) : ∀ s : LState α,
    s.m.names <+: (loadFrames s fs).1.m.names := by
  induction fs with
  | nil => intro s; exact List.prefix_refl _
  | cons f fs ih =>
    intro s
    have h1 := loadFrame_names_prefix s f
    simp only [loadFrames]
    split
    · rename_i s' _ hr
      rw [hr] at h1
      exact h1.trans (ih s')
    · rename_i r hne
      generalize loadFrame s f = r at h1 hne
      exact h1

/-- a successful iteration appends exactly one id and records a non-empty name with it -/
theorem loadFrame_ok (s s' : LState α) (f : FrameEntry α) (h : loadFrame s f = (s', .ok ())) :
    ∃ id, s'.ids = s.ids ++ [id] ∧ (f.name ≠ "" → (f.name, id) ∈ s'.m.names) := by
  cases hp : f.parent with
  | none => simp only [loadFrame, hp] at h; cases h
  | some pn =>
    cases hj : jointOf f.joint with
    | error e => simp only [loadFrame, hp, hj] at h; cases h
    | ok j =>
      cases hb : bodyOf f.body with
      | error e => simp only [loadFrame, hp, hj, hb] at h; cases h
      | ok b =>
        cases hr : s.m.addBody (mapGet s.map pn) (frameOf f.jointFrame) j b f.name with
        | mk m' res =>
          cases res with
          | error e => simp only [loadFrame, hp, hj, hb, hr] at h; cases h
          | ok id =>
            simp only [loadFrame, hp, hj, hb, hr] at h
            cases h
            exact ⟨id, rfl, fun hn => addBody_ok_name s.m m' _ _ j b f.name id hr hn⟩

/-- on success one id per frame was appended, and the name of every named frame is recorded
    with its id in the final model -/
theorem loadFrames_recorded (fs : List (FrameEntry α)) : ∀ s : LState α,
    (loadFrames s fs).2 = .ok () →
    ∃ l : List Nat, (loadFrames s fs).1.ids = s.ids ++ l ∧ l.length = fs.length ∧
      ∀ (k : Nat) (f : FrameEntry α) (id : Nat), fs[k]? = some f → l[k]? = some id → f.name ≠ "" →
        (f.name, id) ∈ (loadFrames s fs).1.m.names := by
  induction fs with
  | nil =>
    intro s _
    exact ⟨[], by simp [loadFrames], rfl, fun k f id hf => by simp at hf⟩
  | cons f fs ih =>
    intro s hok
    cases hr : loadFrame s f with
    | mk s' res =>
      cases res with
      | error e => simp only [loadFrames, hr] at hok; cases hok
      | ok u =>
        cases u
        simp only [loadFrames, hr] at hok ⊢
        obtain ⟨id, hids, hname⟩ := loadFrame_ok s s' f hr
        obtain ⟨l, hl, hlen, hrec⟩ := ih s' hok
        refine ⟨id :: l, ?_, by simp [hlen], ?_⟩
        · rw [hl, hids]; simp
        · intro k f' id' hf hid hn
          cases k with
          | zero =>
            simp only [List.getElem?_cons_zero, Option.some.injEq] at hf hid
            subst hf; subst hid
            exact (loadFrames_names_prefix fs s').subset (hname hn)
          | succ k =>
            simp only [List.getElem?_cons_succ] at hf hid
            exact hrec k f' id' hf hid hn

/-! ### closed form of the predicted ids -/

/-- the joints of the frames (parse errors skipped) -/
def jointsOf (fs : List (FrameEntry α)) : List (Joint α) :=
  fs.filterMap (fun f => match jointOf f.joint with | .ok j => some j | .error _ => none)

/-- number of fixed joints in a list -/
def nFixed (js : List (Joint α)) : Nat := js.countP (fun j => j.jt == .fixed)
/-- number of movable bodies the non-fixed joints of a list create -/
def nMovable (js : List (Joint α)) : Nat :=
  ((js.filter (fun j => !(j.jt == .fixed))).map Joint.newBodies).sum

/-- ids by counting over the joints alone -/
def idsFrom (nb nf : Nat) : List (Joint α) → List Nat
  | [] => []
  | j :: js =>
    if j.jt = .fixed then (fixedDisc + nf) :: idsFrom nb (nf + 1) js
    else (nb + j.newBodies - 1) :: idsFrom (nb + j.newBodies) nf js

/-- the ids predicted by `frameCalls` depend on the joints only -/
theorem frameCalls_ids (fs : List (FrameEntry α)) : ∀ t : TState,
    (frameCalls t fs).2.2 = none →
    (frameCalls t fs).2.1 = idsFrom t.nb t.nf (jointsOf fs) ∧ (jointsOf fs).length = fs.length := by
  induction fs with
  | nil => intro t _; exact ⟨rfl, rfl⟩
  | cons f fs ih =>
    intro t h
    cases hp : f.parent with
    | none => simp only [frameCalls, hp] at h; cases h
    | some pn =>
      cases hj : jointOf f.joint with
      | error e => simp only [frameCalls, hp, hj] at h; cases h
      | ok j =>
        cases hb : bodyOf f.body with
        | error e => simp only [frameCalls, hp, hj, hb] at h; cases h
        | ok b =>
          simp only [frameCalls, hp, hj, hb] at h ⊢
          obtain ⟨ih1, ih2⟩ := ih (t.after j f.name) h
          have hjs : jointsOf (f :: fs) = j :: jointsOf fs := by
            simp [jointsOf, hj]
          rw [hjs, ih1]
          refine ⟨?_, by simp [ih2]⟩
          by_cases hf : j.jt = .fixed
          · simp [idsFrom, TState.idFor, TState.after, hf]
          · simp [idsFrom, TState.idFor, TState.after, hf]

omit [Field α] [DecidableEq α] in
/-- closed form: the `k`-th joint, if fixed, gets `fixedDisc + nf + (fixed joints before it)`;
    otherwise `nb - 1 + (movable bodies created up to and including it)` -/
theorem idsFrom_closed (js : List (Joint α)) : ∀ (nb nf k : Nat) (j : Joint α),
    js[k]? = some j →
    (idsFrom nb nf js)[k]? = some
      (if j.jt = .fixed then fixedDisc + nf + nFixed (js.take k)
       else nb + nMovable (js.take (k + 1)) - 1) := by
  induction js with
  | nil => intro nb nf k j h; simp at h
  | cons j0 js ih =>
    intro nb nf k j h
    cases k with
    | zero =>
      simp only [List.getElem?_cons_zero, Option.some.injEq] at h
      subst h
      by_cases hf : j0.jt = .fixed
      · simp [idsFrom, hf, nFixed]
      · have hb : (j0.jt == JT.fixed) = false := by simpa using hf
        simp [idsFrom, hf, nMovable, hb]
    | succ k =>
      simp only [List.getElem?_cons_succ] at h
      by_cases hf0 : j0.jt = .fixed
      · have hb : (j0.jt == JT.fixed) = true := by simpa using hf0
        simp only [idsFrom, if_pos hf0, List.getElem?_cons_succ]
        rw [ih nb (nf + 1) k j h]
        by_cases hf : j.jt = .fixed
        · simp only [if_pos hf, List.take_succ_cons, nFixed, List.countP_cons, hb, if_true]
          congr 1; omega
        · simp only [if_neg hf, List.take_succ_cons, nMovable, List.filter_cons, hb,
            Bool.not_true, Bool.false_eq_true, if_false]
      · have hb : (j0.jt == JT.fixed) = false := by simpa using hf0
        simp only [idsFrom, if_neg hf0, List.getElem?_cons_succ]
        rw [ih (nb + j0.newBodies) nf k j h]
        by_cases hf : j.jt = .fixed
        · simp only [if_pos hf, List.take_succ_cons, nFixed, List.countP_cons, hb]
          simp
        · simp only [if_neg hf, List.take_succ_cons, nMovable, List.filter_cons, hb,
            Bool.not_false, if_true, List.map_cons, List.sum_cons]
          congr 1; omega

end
end Rbdl.L19
