import RbdlProofs.Lemmas.L01CapMain
import RbdlProofs.Lemmas.L05Jac
import RbdlProofs.Lemmas.L13Flag
/-
  Kinematics capstones (C04 / C05 / C06), workspace side.

  `P` is any table of world pose jets that satisfies the forward-kinematics recursion of the model
  (`P 0 = id`, `P i = P (λ i) ∘ frame_i ∘ joint_i`).  After the three kinematics updates the public
  routines perform,

  * `UpdateKinematicsCustom (Q)`            `X_base[i]` is the value part of `P i`            (`PosOK`)
  * `UpdateKinematicsCustom (Q, QDot)`      … and `v[i]` its body-frame spatial velocity         (`VelOK`)
  * `UpdateKinematics (Q, QDot, QDDot)`     … and `a[i]` its body-frame spatial acceleration     (`AccOK`)

  for every body `i < nBodies` **including the base** (`X_base[0] = 1` is part of `WSFixed`, `v[0]`,
  `a[0]` are cleared by the routines on entry).  Also: the motion-subspace columns and `X_base` left by
  `UpdateKinematicsCustom (Q)` and by `UpdateKinematicsCustom (Q, QDot)` coincide (the Jacobian routines
  read the former, the velocity routines the latter).
-/
namespace Rbdl.LKinCap
open Lean.Grind Rbdl Rbdl.Spec Rbdl.L06 Rbdl.L05 Rbdl.L01Cap Rbdl.Loops
set_option linter.unusedSimpArgs false
set_option linter.unusedVariables false
set_option linter.unusedSectionVars false

section
variable {α : Type} [Field α]

/-- `P` satisfies the forward-kinematics recursion of `m` for the motion `(st, qd, qdd)` -/
structure PoseRec (m : ModelS α) [DecidableEq α] (st : QS α) (qd qdd : VecN α)
    (P : Nat → Pose (D2 α)) : Prop where
  zero : P 0 = Pose.id
  step : ∀ i, 1 ≤ i → i < m.nBodies →
    P i = (P (m.lam i)).comp ((framePoseJet m i).comp (jointPoseJet m i st qd qdd))

end

section
variable {α : Type} [Field α] [DecidableEq α]

/-- `X_base[i]` is the value part of the world pose jet `P i`, for every body incl. the base -/
def PosOK (m : ModelS α) (P : Nat → Pose (D2 α)) (W : WS α) : Prop :=
  ∀ i, i < m.nBodies → W.X_base i = xtOfKin (NodeKin.ofPose (P i))

/-- `v[i]` is the body-frame spatial velocity of `P i` -/
def VelOK (m : ModelS α) (P : Nat → Pose (D2 α)) (W : WS α) : Prop :=
  ∀ i, i < m.nBodies →
    BodyForm (NodeKin.ofPose (P i)) (W.v i) (saOfKin (NodeKin.ofPose (P i)))

/-- `v[i]`, `a[i]` are the body-frame spatial velocity / acceleration of `P i` -/
def AccOK (m : ModelS α) (P : Nat → Pose (D2 α)) (W : WS α) : Prop :=
  ∀ i, i < m.nBodies → BodyForm (NodeKin.ofPose (P i)) (W.v i) (W.a i)

/-! ### `UpdateKinematicsCustom (Q)` -/

theorem ukc_posOK (m : ModelS α) (w : WS α) (st : QS α) (qd qdd : VecN α)
    (htree : ∀ i, 1 ≤ i → i < m.nBodies → m.lam i < i)
    (hjc : ∀ i, 1 ≤ i → i < m.nBodies → (m.joint i).jt.hasJcalc = true)
    (hx0 : w.X_base 0 = XT.id) (P : Nat → Pose (D2 α)) (hP : PoseRec m st qd qdd P) :
    PosOK m P (updateKinematicsCustom m w (some st) none none) := by
  intro i
  induction i using Nat.strongRecOn with
  | _ i ih =>
    intro hi
    by_cases hz : i = 0
    · subst hz
      rw [ukc_X_base_outside m w st 0 (Or.inl rfl), hx0, hP.zero]
      rfl
    · have h1 : 1 ≤ i := by omega
      have hlt := htree i h1 hi
      have hb := ukc_X_base m w st htree i h1 hi
      have hl : (updateKinematicsCustom m w (some st) none none).X_lambda i
          = xtOfKin (NodeKin.ofPose (jointPoseJet m i st qd qdd)) * m.XT_ i := by
        rw [ukc_X_lambda m w st i h1 hi, ← jcalc_X_lambda_joint m w i st zeroVec qd qdd (hjc i h1 hi),
          jcalc_X_lambda, upd_same]
      rw [show (updateKinematicsCustom m w (some st) none none).X_base i = _ from hb, hl,
        hP.step i h1 hi, ofPose_comp, ofPose_comp, xtOfKin_compKin, xtOfKin_compKin, xtOfKin_frame]
      by_cases hl0 : m.lam i ≠ 0
      · rw [if_pos hl0, ih (m.lam i) hlt (by omega)]
      · rw [if_neg hl0]
        have e : m.lam i = 0 := by omega
        rw [e, hP.zero, xtOfKin_poseId, C16.mul_id]

/-! ### `UpdateKinematicsCustom (Q, QDot)` -/

theorem ukcVBody_v_other (m : ModelS α) (st : QS α) (qd : VecN α) (i : Nat) (w : WS α) (j : Nat)
    (h : j ≠ i) : (ukcVBody m st qd i w).v j = w.v j := by
  rw [(velBody_ukcVBody m st qd).v, upd_other _ _ _ _ h]

theorem ukcVBody_v_J_other (m : ModelS α) (st : QS α) (qd : VecN α) (i : Nat) (w : WS α) (j : Nat)
    (h : j ≠ i) : (ukcVBody m st qd i w).v_J j = w.v_J j := by
  rw [(velBody_ukcVBody m st qd).v_J, jcalc_v_J_other _ _ _ _ _ _ h]

theorem ukcVBody_c_J_other (m : ModelS α) (st : QS α) (qd : VecN α) (i : Nat) (w : WS α) (j : Nat)
    (h : j ≠ i) : (ukcVBody m st qd i w).c_J j = w.c_J j := by
  rw [(velBody_ukcVBody m st qd).c_J, jcalc_c_J_other _ _ _ _ _ _ h]

theorem ukcVBody_S_other (m : ModelS α) (st : QS α) (qd : VecN α) (i : Nat) (w : WS α) (j : Nat)
    (h : j ≠ i) : (ukcVBody m st qd i w).S j = w.S j := by
  rw [(velBody_ukcVBody m st qd).S, jcalc_S_other _ _ _ _ _ _ h]

theorem ukcVBody_S3_other (m : ModelS α) (st : QS α) (qd : VecN α) (i : Nat) (w : WS α) (j : Nat)
    (h : j ≠ i) : (ukcVBody m st qd i w).S3 j = w.S3 j := by
  rw [(velBody_ukcVBody m st qd).S3, jcalc_S3_other _ _ _ _ _ _ h]

theorem sv_step_v' (X XJ : XT α) (Vl vJ : SV α) :
    X.apply Vl + (XJ.apply SV.zero + vJ) = X.apply Vl + vJ := by alg_ext
theorem sv_step_v0' (X XJ : XT α) (vJ : SV α) :
    X.apply SV.zero + (XJ.apply SV.zero + vJ) = vJ := by alg_ext

/-- the velocity loop of `UpdateKinematicsCustom (Q, QDot)`: `v[i]` is the body-frame spatial velocity of
    the world pose jet `P i`, for every movable body -/
theorem ukc2_bodyForm (m : ModelS α) (w : WS α) (st : QS α) (qd qdd : VecN α) (h2 : (2 : α) ≠ 0)
    (htree : ∀ i, 1 ≤ i → i < m.nBodies → m.lam i < i)
    (hjc : ∀ i, 1 ≤ i → i < m.nBodies → (m.joint i).jt.hasJcalc = true)
    (hframe : ∀ i, 1 ≤ i → i < m.nBodies → (m.XT_ i).E.IsRot)
    (hunit : ∀ i, 1 ≤ i → i < m.nBodies → m.jointUnit i st)
    (hws : ∀ i, 1 ≤ i → i < m.nBodies → JointWS m w i)
    (hw3 : ∀ i, 1 ≤ i → i < m.nBodies → (m.joint i).jt = .spherical →
      (m.joint i).qIndex + 2 < m.w3 i)
    (P : Nat → Pose (D2 α)) (hP : PoseRec m st qd qdd P) :
    ∀ i, 1 ≤ i → i < m.nBodies →
      BodyForm (NodeKin.ofPose (P i))
        ((updateKinematicsCustom m w (some st) (some qd) none).v i)
        (saOfKin (NodeKin.ofPose (P i))) := by
  intro i
  induction i using Nat.strongRecOn with
  | _ i ih =>
    intro h1 hi
    rw [ukc2_eq_forUp]
    have hbv := ukcVBody_v_other m st qd
    have ev := forUp_get_inside (fun s => s.v) (ukcVBody m st qd) hbv (m.nBodies - 1) 1
      (updateKinematicsCustom m w (some st) none none) i h1 (by omega)
    rw [ev, hP.step i h1 hi]
    -- the state iteration `i` starts from
    have hW1 := ukc_JointWS m w st hws
    have hJ : JointWS m (forUp (i - 1) 1 (ukcVBody m st qd)
        (updateKinematicsCustom m w (some st) none none)) i := by
      refine JointWS_congr m (updateKinematicsCustom m w (some st) none none) _ i ?_ ?_ ?_ ?_
        (hW1 i h1 hi)
      · exact forUp_get_outside (fun s => s.v_J) (ukcVBody m st qd)
          (ukcVBody_v_J_other m st qd) (i - 1) 1 _ i (by omega)
      · exact forUp_get_outside (fun s => s.S) (ukcVBody m st qd)
          (ukcVBody_S_other m st qd) (i - 1) 1 _ i (by omega)
      · exact forUp_get_outside (fun s => s.c_J) (ukcVBody m st qd)
          (ukcVBody_c_J_other m st qd) (i - 1) 1 _ i (by omega)
      · exact forUp_get_outside (fun s => s.S3) (ukcVBody m st qd)
          (ukcVBody_S3_other m st qd) (i - 1) 1 _ i (by omega)
    generalize hs : forUp (i - 1) 1 (ukcVBody m st qd)
      (updateKinematicsCustom m w (some st) none none) = s at hJ ⊢
    have hjm := jointMotion m s i st qd qdd h2 (hjc i h1 hi) (hunit i h1 hi) hJ (hw3 i h1 hi)
    have hX : xtOfKin (compKin (NodeKin.ofPose (framePoseJet m i))
          (NodeKin.ofPose (jointPoseJet m i st qd qdd))) = (jcalc m s i st qd).X_lambda i := by
      rw [xtOfKin_compKin, xtOfKin_frame, ← jcalc_X_lambda_joint m s i st qd qd qdd (hjc i h1 hi)]
    have hvi : (ukcVBody m st qd i s).v i
        = if m.lam i ≠ 0 then
            ((jcalc m s i st qd).X_lambda i).apply (s.v (m.lam i)) + (jcalc m s i st qd).v_J i
          else (jcalc m s i st qd).v_J i := by
      rw [(velBody_ukcVBody m st qd).v, upd_same]
    -- the parent
    have hpar : BodyForm (NodeKin.ofPose (P (m.lam i)))
        (if m.lam i ≠ 0 then s.v (m.lam i) else SV.zero)
        (saOfKin (NodeKin.ofPose (P (m.lam i)))) := by
      by_cases hl : m.lam i ≠ 0
      · rw [if_pos hl]
        have hlt := htree i h1 hi
        have := ih (m.lam i) hlt (by omega) (by omega)
        rw [ukc2_eq_forUp, forUp_get_prefix (fun s => s.v) (ukcVBody m st qd) hbv _ _ _ i
          (m.lam i) h1 (by omega) hlt, hs] at this
        exact this
      · rw [if_neg hl]
        have hl0 : m.lam i = 0 := by omega
        rw [hl0, hP.zero]
        exact bf_poseId.congr rfl bf_poseId.sa.symm
    have hall := hpar.comp ((bf_frame m i (hframe i h1 hi)).comp hjm)
    rw [ofPose_comp, ofPose_comp]
    have hV : (xtOfKin (compKin (NodeKin.ofPose (framePoseJet m i))
          (NodeKin.ofPose (jointPoseJet m i st qd qdd)))).apply
            (if m.lam i ≠ 0 then s.v (m.lam i) else SV.zero)
          + ((xtOfKin (NodeKin.ofPose (jointPoseJet m i st qd qdd))).apply SV.zero
              + (jcalc m s i st qd).v_J i)
        = (ukcVBody m st qd i s).v i := by
      rw [hvi, hX]
      by_cases hl : m.lam i ≠ 0
      · simp only [if_pos hl]; exact sv_step_v' _ _ _ _
      · simp only [if_neg hl]; exact sv_step_v0' _ _ _
    have h3 := hall.congr hV rfl
    exact h3.congr rfl h3.sa.symm

theorem ukc2_X_base (m : ModelS α) (w : WS α) (st : QS α) (qd : VecN α) :
    (updateKinematicsCustom m w (some st) (some qd) none).X_base
      = (updateKinematicsCustom m w (some st) none none).X_base := by
  rw [ukc2_eq_forUp]
  exact forUp_keep (fun s => s.X_base) (ukcVBody m st qd) _ _
    (fun i s _ _ => ukcVBody_X_base m st qd i s) _

theorem ukc_v_keep (m : ModelS α) (w : WS α) (st : QS α) :
    (updateKinematicsCustom m w (some st) none none).v = w.v := by
  rw [ukc_eq_forUp]
  refine forUp_keep (fun s => s.v) (ukcBody m st) _ _ (fun i s _ _ => ?_) _
  unfold ukcBody
  dsimp only
  split <;> exact jcalc_v m s i st zeroVec

theorem ukc2_v0 (m : ModelS α) (w : WS α) (st : QS α) (qd : VecN α) :
    (updateKinematicsCustom m w (some st) (some qd) none).v 0 = w.v 0 := by
  rw [ukc2_eq_forUp, forUp_get_outside (fun s => s.v) (ukcVBody m st qd) (ukcVBody_v_other m st qd)
    (m.nBodies - 1) 1 _ 0 (by omega), ukc_v_keep]

/-- after `UpdateKinematicsCustom (Q, QDot)` on a workspace with `X_base[0] = 1`, `v[0] = 0` -/
theorem ukc2_ok (m : ModelS α) (w : WS α) (st : QS α) (qd qdd : VecN α) (h2 : (2 : α) ≠ 0)
    (htree : ∀ i, 1 ≤ i → i < m.nBodies → m.lam i < i)
    (hjc : ∀ i, 1 ≤ i → i < m.nBodies → (m.joint i).jt.hasJcalc = true)
    (hframe : ∀ i, 1 ≤ i → i < m.nBodies → (m.XT_ i).E.IsRot)
    (hunit : ∀ i, 1 ≤ i → i < m.nBodies → m.jointUnit i st)
    (hws : ∀ i, 1 ≤ i → i < m.nBodies → JointWS m w i)
    (hw3 : ∀ i, 1 ≤ i → i < m.nBodies → (m.joint i).jt = .spherical →
      (m.joint i).qIndex + 2 < m.w3 i)
    (hx0 : w.X_base 0 = XT.id) (hv0 : w.v 0 = SV.zero)
    (P : Nat → Pose (D2 α)) (hP : PoseRec m st qd qdd P) :
    PosOK m P (updateKinematicsCustom m w (some st) (some qd) none) ∧
    VelOK m P (updateKinematicsCustom m w (some st) (some qd) none) := by
  refine ⟨?_, fun i hi => ?_⟩
  · intro i hi
    rw [ukc2_X_base]
    exact ukc_posOK m w st qd qdd htree hjc hx0 P hP i hi
  · by_cases hz : i = 0
    · subst hz
      rw [ukc2_v0, hv0, hP.zero]
      exact bf_poseId.congr rfl bf_poseId.sa.symm
    · exact ukc2_bodyForm m w st qd qdd h2 htree hjc hframe hunit hws hw3 P hP i (by omega) hi

/-! ### `UpdateKinematics (Q, QDot, QDDot)` -/

theorem uk_X_base0 (m : ModelS α) (w : WS α) (st : QS α) (qd qdd : VecN α) :
    (updateKinematics m w st qd qdd).X_base 0 = w.X_base 0 := by
  rw [uk_eq_forUp]
  exact forUp_get_outside (fun s => s.X_base) (ukBody m st qd qdd) (ukBody_X_base_other m st qd qdd)
    (m.nBodies - 1) 1 _ 0 (by omega)

theorem uk_v0 (m : ModelS α) (w : WS α) (st : QS α) (qd qdd : VecN α) :
    (updateKinematics m w st qd qdd).v 0 = w.v 0 := by
  rw [uk_eq_forUp]
  exact forUp_get_outside (fun s => s.v) (ukBody m st qd qdd) (ukBody_v_other m st qd qdd)
    (m.nBodies - 1) 1 _ 0 (by omega)

theorem uk_a0' (m : ModelS α) (w : WS α) (st : QS α) (qd qdd : VecN α) :
    (updateKinematics m w st qd qdd).a 0 = SV.zero := by
  rw [uk_eq_forUp, forUp_get_outside (fun s => s.a) (ukBody m st qd qdd)
    (ukBody_a_other m st qd qdd) (m.nBodies - 1) 1 _ 0 (by omega)]
  show upd w.a 0 SV.zero 0 = SV.zero
  exact upd_same _ _ _

/-- after `UpdateKinematics` on a workspace with `X_base[0] = 1`, `v[0] = 0` -/
theorem uk_ok (m : ModelS α) (w : WS α) (st : QS α) (qd qdd : VecN α) (h2 : (2 : α) ≠ 0)
    (htree : ∀ i, 1 ≤ i → i < m.nBodies → m.lam i < i)
    (hjc : ∀ i, 1 ≤ i → i < m.nBodies → (m.joint i).jt.hasJcalc = true)
    (hframe : ∀ i, 1 ≤ i → i < m.nBodies → (m.XT_ i).E.IsRot)
    (hunit : ∀ i, 1 ≤ i → i < m.nBodies → m.jointUnit i st)
    (hws : ∀ i, 1 ≤ i → i < m.nBodies → JointWS m w i)
    (hw3 : ∀ i, 1 ≤ i → i < m.nBodies → (m.joint i).jt = .spherical →
      (m.joint i).qIndex + 2 < m.w3 i)
    (hx0 : w.X_base 0 = XT.id) (hv0 : w.v 0 = SV.zero)
    (P : Nat → Pose (D2 α)) (hP : PoseRec m st qd qdd P) :
    PosOK m P (updateKinematics m w st qd qdd) ∧ AccOK m P (updateKinematics m w st qd qdd) := by
  refine ⟨fun i hi => ?_, fun i hi => ?_⟩
  · by_cases hz : i = 0
    · subst hz
      rw [uk_X_base0, hx0, hP.zero]; rfl
    · exact uk_X_base m w st qd qdd htree hjc P hP.zero hP.step i (by omega) hi
  · by_cases hz : i = 0
    · subst hz
      rw [uk_v0, hv0, uk_a0', hP.zero]
      exact bf_poseId
    · exact uk_bodyForm m w st qd qdd h2 htree hjc hframe hunit hws hw3 P hP.zero hP.step i
        (by omega) hi

/-! ### the motion-subspace columns left by the two `UpdateKinematicsCustom` variants -/

/-- what a loop body does to the motion-subspace entries: exactly what `jcalc` does -/
structure SBody (m : ModelS α) (st : QS α) (body : Nat → WS α → WS α) : Prop where
  S : ∀ i w, (body i w).S = upd w.S i (L13.jcalcS m i st (w.S i))
  S3 : ∀ i w, (body i w).S3 = upd w.S3 i (L13.jcalcS3 m i st (w.S3 i))
  cS : ∀ i w, (body i w).cS = L13.jcalcCS m i st w.cS

theorem jcalc_S_eq (m : ModelS α) (w : WS α) (i : Nat) (st : QS α) (qd : VecN α) :
    (jcalc m w i st qd).S = upd w.S i (L13.jcalcS m i st (w.S i)) := by rw [L13.jcalc_eq]
theorem jcalc_S3_eq (m : ModelS α) (w : WS α) (i : Nat) (st : QS α) (qd : VecN α) :
    (jcalc m w i st qd).S3 = upd w.S3 i (L13.jcalcS3 m i st (w.S3 i)) := by rw [L13.jcalc_eq]
theorem jcalc_cS_eq (m : ModelS α) (w : WS α) (i : Nat) (st : QS α) (qd : VecN α) :
    (jcalc m w i st qd).cS = L13.jcalcCS m i st w.cS := by rw [L13.jcalc_eq]

theorem sBody_ukcBody (m : ModelS α) (st : QS α) : SBody m st (ukcBody m st) := by
  refine ⟨fun i w => ?_, fun i w => ?_, fun i w => ?_⟩
  · rw [← jcalc_S_eq m w i st zeroVec]; unfold ukcBody; dsimp only; split <;> rfl
  · rw [← jcalc_S3_eq m w i st zeroVec]; unfold ukcBody; dsimp only; split <;> rfl
  · rw [← jcalc_cS_eq m w i st zeroVec]; unfold ukcBody; dsimp only; split <;> rfl

theorem sBody_ukcVBody (m : ModelS α) (st : QS α) (qd : VecN α) : SBody m st (ukcVBody m st qd) :=
  ⟨fun i w => by rw [(velBody_ukcVBody m st qd).S, jcalc_S_eq],
   fun i w => by rw [(velBody_ukcVBody m st qd).S3, jcalc_S3_eq],
   fun i w => by rw [(velBody_ukcVBody m st qd).cS, jcalc_cS_eq]⟩

theorem jcalcS_idem (m : ModelS α) (i : Nat) (st : QS α) (x : SV α) :
    L13.jcalcS m i st (L13.jcalcS m i st x) = L13.jcalcS m i st x := by
  unfold L13.jcalcS
  cases (m.joint i).jt <;> rfl

theorem jcalcS3_idem (m : ModelS α) (i : Nat) (st : QS α) (x : M63 α) :
    L13.jcalcS3 m i st (L13.jcalcS3 m i st x) = L13.jcalcS3 m i st x := by
  unfold L13.jcalcS3
  dsimp only
  cases (m.joint i).jt <;> rfl

/-- the value every custom joint leaves in its slot of the custom-joint column array -/
def customCols (m : ModelS α) (st : QS α) (j : Nat) : List (SV α) :=
  (customCalc (m.custom (m.joint j).customIdx) (m.joint j).qIndex st zeroVec).2.1

theorem jcalcCS_at (m : ModelS α) (i : Nat) (st : QS α) (a : Nat → List (SV α))
    (h : (m.joint i).jt = .custom) :
    L13.jcalcCS m i st a (m.joint i).customIdx = customCols m st i := by
  unfold L13.jcalcCS customCols
  simp only [h, upd_same]

theorem jcalcCS_other (m : ModelS α) (i : Nat) (st : QS α) (a : Nat → List (SV α)) (k : Nat)
    (h : (m.joint i).jt ≠ .custom ∨ (m.joint i).customIdx ≠ k) :
    L13.jcalcCS m i st a k = a k := by
  unfold L13.jcalcCS
  cases hj : (m.joint i).jt <;> first
    | rfl
    | (rcases h with h | h
       · exact absurd hj h
       · exact upd_other _ _ _ _ (Ne.symm h))

/-- after a loop over all movable bodies whose body acts on the motion-subspace entries as `jcalc`
    does, these entries are `jcalc`'s function of the entry values -/
theorem sBody_loop (m : ModelS α) (st : QS α) (body : Nat → WS α → WS α) (hb : SBody m st body)
    (hinj : L01.CustomInj m) (w0 : WS α) :
    ∀ j, 1 ≤ j → j < m.nBodies →
      (forUp (m.nBodies - 1) 1 body w0).S j = L13.jcalcS m j st (w0.S j) ∧
      (forUp (m.nBodies - 1) 1 body w0).S3 j = L13.jcalcS3 m j st (w0.S3 j) ∧
      ((m.joint j).jt = .custom →
        (forUp (m.nBodies - 1) 1 body w0).cS (m.joint j).customIdx = customCols m st j) := by
  intro j j1 j2
  have hS : ∀ i s k, k ≠ i → (body i s).S k = s.S k := fun i s k hk => by
    rw [hb.S, upd_other _ _ _ _ hk]
  have hS3 : ∀ i s k, k ≠ i → (body i s).S3 k = s.S3 k := fun i s k hk => by
    rw [hb.S3, upd_other _ _ _ _ hk]
  refine ⟨?_, ?_, fun hcj => ?_⟩
  · rw [forUp_get_inside (fun s => s.S) body hS _ _ _ j j1 (by omega), hb.S, upd_same,
      forUp_get_outside (fun s => s.S) body hS _ _ _ j (by omega)]
  · rw [forUp_get_inside (fun s => s.S3) body hS3 _ _ _ j j1 (by omega), hb.S3, upd_same,
      forUp_get_outside (fun s => s.S3) body hS3 _ _ _ j (by omega)]
  · have key := forUp_inv_idx
      (fun k s => j < k → s.cS (m.joint j).customIdx = customCols m st j)
      body (m.nBodies - 1) 1 ?_ w0 (fun h => by omega)
    · exact key (by omega)
    · intro k s k1 k2 ih hjk
      rw [hb.cS]
      by_cases e : j = k
      · subst e
        exact jcalcCS_at m j st _ hcj
      · rw [jcalcCS_other m k st _ _ ?_]
        · exact ih (by omega)
        · by_cases hck : (m.joint k).jt = .custom
          · exact Or.inr (fun e' => e (hinj k j hck hcj e').symm)
          · exact Or.inl hck

/-- **the Jacobian routines and the velocity routines see the same motion subspaces**: the columns
    `Scols m j` left by `UpdateKinematicsCustom (Q, QDot)` are those left by
    `UpdateKinematicsCustom (Q)` -/
theorem ukc2_Scols (m : ModelS α) (w : WS α) (st : QS α) (qd : VecN α) (hinj : L01.CustomInj m)
    (j : Nat) (j1 : 1 ≤ j) (j2 : j < m.nBodies) :
    (updateKinematicsCustom m w (some st) (some qd) none).Scols m j
      = (updateKinematicsCustom m w (some st) none none).Scols m j := by
  obtain ⟨a1, a2, a3⟩ := sBody_loop m st _ (sBody_ukcBody m st) hinj w j j1 j2
  obtain ⟨b1, b2, b3⟩ := sBody_loop m st _ (sBody_ukcVBody m st qd) hinj
    (updateKinematicsCustom m w (some st) none none) j j1 j2
  rw [ukc2_eq_forUp]
  rw [← ukc_eq_forUp] at a1 a2 a3
  refine L05.Scols_congr m _ _ j ?_ ?_ (fun hc => ?_)
  · rw [b1, a1, jcalcS_idem]
  · rw [b2, a2, jcalcS3_idem]
  · rw [b3 hc, a3 hc]

end
end Rbdl.LKinCap
