import RbdlProofs.Lemmas.LDynCapCom
/-
  Capstones for the whole-body routines: the totals of the backward loops of `CalcCenterOfMass` /
  `CalcZeroMomentPoint` as sums over the nodes of the specification.

  * `ukc_link`        after `UpdateKinematicsCustom (Q, QDot, QDDot)`: `(v[i], a[i])` = body-frame velocity
                      / acceleration of the specification's pose jet of movable body `i`, `X_base[i]` its
                      value part;
  * `counts_sum`      `node_sum` for quantities that skip the bodies attached to the base;
  * `inertia_total`, `momentum_total`, `momentum_rate_total`.
-/
namespace Rbdl.LDynCap
open Lean.Grind Rbdl Rbdl.Spec Rbdl.L06 Rbdl.L01 Rbdl.Loops Rbdl.L01Cap
set_option linter.unusedSimpArgs false
set_option linter.unusedVariables false
set_option linter.unusedSectionVars false

section
variable {α : Type} [Field α] [DecidableEq α]

theorem ukc_link {m : ModelS α} {M : SModel α} {off : Nat → XT α} {nodeOf : Nat → Nat}
    (hm : ModelOK m) (hL : Link m M off nodeOf) (h2 : (2 : α) ≠ 0) (w : WS α) (hw : WSFixed m w)
    (st : QS α) (hst : StateOK m st) (qd qdd : VecN α) (i : Nat) (i1 : 1 ≤ i) (i2 : i < m.nBodies) :
    BodyForm (NodeKin.ofPose (specPose M (stateOf st qd qdd) (nodeOf i)))
      ((updateKinematicsCustom m w (some st) (some qd) (some qdd)).v i)
      ((updateKinematicsCustom m w (some st) (some qd) (some qdd)).a i) ∧
    (updateKinematicsCustom m w (some st) (some qd) (some qdd)).X_base i
      = xtOfKin (NodeKin.ofPose (specPose M (stateOf st qd qdd) (nodeOf i))) := by
  obtain ⟨ω, hK⟩ := ukc_closed hm w hw st qd qdd
  obtain ⟨hP0, hP⟩ := hL.fk st qd qdd
  exact ⟨kin_bodyForm m _ ω st qd qdd h2 hm.wf.lam_lt hm.jc hm.frame hst hm.w3 hm.arity hK
      (fun i => specPose M (stateOf st qd qdd) (nodeOf i)) hP0 hP i i1 i2,
    kin_xbase m _ ω st qd qdd hm.wf.lam_lt hm.jc hK
      (fun i => specPose M (stateOf st qd qdd) (nodeOf i)) hP0 hP i i1 i2⟩

/-- a node that takes part in the whole-body quantities -/
def cnt (M : SModel α) (n : Nat) : Bool := (M.nodes.getD n nd0).counts

theorem cnt_iff (M : SModel α) (n : Nat) :
    cnt M n = true ↔ (M.nodes.getD n nd0).hasBody = true ∧ bodyOf M n ≠ 0 := by
  unfold cnt SNode.counts bodyOf
  simp

/-- `node_sum` for quantities that skip the bodies attached to the base -/
theorem counts_sum {β : Type} [Add β] {z : β} (L : AddLaws z) {m : ModelS α} {M : SModel α}
    {off : Nat → XT α} {nodeOf : Nat → Nat} (hL : Link m M off nodeOf) (hnb : 1 ≤ m.nBodies)
    (F : Nat → β) (Ψ : Nat → RBI α → β) (hΨ0 : ∀ i, Ψ i RBI.zero = z)
    (hΨadd : ∀ i A B, Ψ i (A + B) = Ψ i A + Ψ i B)
    (hF : ∀ n, n < M.nodes.length → cnt M n = true →
      F n = Ψ (bodyOf M n) (nodeRBI M off (bodyOf M n) n))
    (hF0 : ∀ n, n < M.nodes.length → ¬ cnt M n = true → F n = z) :
    lsum z F (List.range M.nodes.length)
      = lsum z (fun i => Ψ i (m.rbi i)) (List.range' 1 (m.nBodies - 1)) := by
  rw [node_sum L hL hnb F (fun i J => if i = 0 then z else Ψ i J)
    (fun i => by by_cases h : i = 0 <;> simp only [h, if_true, if_false, hΨ0])
    (fun i A B => by
      by_cases h : i = 0
      · simp only [h, if_true]; exact (L.add_zero z).symm
      · simp only [h, if_false]; exact hΨadd i A B)
    (fun J => if_pos rfl)
    (fun n hn => by
      by_cases hh : (M.nodes.getD n nd0).hasBody = true
      · have hcl : cls M n = bodyOf M n := by unfold cls; rw [if_pos hh]
        rw [hcl]
        by_cases h0 : bodyOf M n = 0
        · rw [if_pos h0]
          exact hF0 n hn (fun hc => ((cnt_iff M n).1 hc).2 h0)
        · rw [if_neg h0]
          exact hF n hn ((cnt_iff M n).2 ⟨hh, h0⟩)
      · have hcl : cls M n = 0 := by unfold cls; rw [if_neg hh]
        rw [hcl, if_pos rfl]
        exact hF0 n hn (fun hc => hh ((cnt_iff M n).1 hc).1))]
  refine lsum_congr _ _ _ (fun i hi => ?_)
  rw [List.mem_range'_1] at hi
  rw [if_neg (by omega)]

/-- kinematics of a counted node in terms of the workspace after the kinematics update -/
theorem node_facts {m : ModelS α} {M : SModel α} {off : Nat → XT α} {nodeOf : Nat → Nat}
    (hm : ModelOK m) (hL : Link m M off nodeOf) (h2 : (2 : α) ≠ 0) (w : WS α) (hw : WSFixed m w)
    (st : QS α) (hst : StateOK m st) (qd qdd : VecN α) (n : Nat) (hn : n < M.nodes.length)
    (hc : cnt M n = true) :
    BodyForm (specKin M (stateOf st qd qdd) n)
      ((off n).apply ((updateKinematicsCustom m w (some st) (some qd) (some qdd)).v (bodyOf M n)))
      ((off n).apply ((updateKinematicsCustom m w (some st) (some qd) (some qdd)).a (bodyOf M n))) ∧
    xtOfKin (specKin M (stateOf st qd qdd) n)
      = off n * (updateKinematicsCustom m w (some st) (some qd) (some qdd)).X_base (bodyOf M n) ∧
    ((updateKinematicsCustom m w (some st) (some qd) (some qdd)).X_base (bodyOf M n)).E.IsRot ∧
    (off n).E.IsRot ∧
    (M.nodes.getD n nd0).inertia.transpose = (M.nodes.getD n nd0).inertia ∧
    nodeRBI M off (bodyOf M n) n = (off n).applyTransposeRBI (RBI.ofMassComInertiaC
      (M.nodes.getD n nd0).mass (M.nodes.getD n nd0).com (M.nodes.getD n nd0).inertia) := by
  obtain ⟨hh, h0⟩ := (cnt_iff M n).1 hc
  have hi := hL.body_lt n hn hh
  have hX := hL.offrot n hn hh
  obtain ⟨hB, hXb⟩ := ukc_link hm hL h2 w hw st hst qd qdd (bodyOf M n) (by omega) hi
  refine ⟨?_, ?_, ?_, hX, hL.symm n hn hh, ?_⟩
  · rw [link_nodeKin hL _ n hn hh]
    exact bf_attached hB (off n) hX
  · rw [link_nodeKin hL _ n hn hh, xtOfKin_compKin, xtOfKin_constPose, hXb]
  · rw [hXb]; exact hB.rot.transpose
  · unfold nodeRBI; rw [if_pos ⟨rfl, hh⟩]

theorem aTR_zero (X : XT α) : X.applyTransposeRBI (RBI.zero : RBI α) = RBI.zero := by alg_ext
theorem applyTranspose_zero' (X : XT α) : X.applyTranspose (SV.zero : SV α) = SV.zero := by
  alg_ext

/-- node quantities of the specification -/
def nodeI (M : SModel α) (S : State α) (n : Nat) : RBI α :=
  (xtOfKin (specKin M S n)).applyTransposeRBI (RBI.ofMassComInertiaC (M.nodes.getD n nd0).mass
    (M.nodes.getD n nd0).com (M.nodes.getD n nd0).inertia)

/-- (angular momentum about the base origin, linear momentum) of node `n` -/
def nodeH (M : SModel α) (S : State α) (n : Nat) : SV α :=
  let nd := M.nodes.getD n nd0
  let k := specKin M S n
  ⟨(k.pt nd.com).cross (nd.mass * k.ptd nd.com) + (k.R * nd.inertia * k.R.transpose) * k.omega,
   nd.mass * k.ptd nd.com⟩

/-- their time derivatives -/
def nodeHd (M : SModel α) (S : State α) (n : Nat) : SV α :=
  let nd := M.nodes.getD n nd0
  let k := specKin M S n
  ⟨(k.pt nd.com).cross (nd.mass * k.ptdd nd.com)
      + ((k.Rd * nd.inertia * k.R.transpose + k.R * nd.inertia * k.Rd.transpose) * k.omega
        + (k.R * nd.inertia * k.R.transpose) * k.omegaDot),
   nd.mass * k.ptdd nd.com⟩

variable {m : ModelS α} {M : SModel α} {off : Nat → XT α} {nodeOf : Nat → Nat}

/-- **`Itot`**: the sum of the base-frame inertias of the movable bodies of the model is the sum over
    the counted nodes of the specification -/
theorem inertia_total (hm : ModelOK m) (hL : Link m M off nodeOf) (h2 : (2 : α) ≠ 0) (w : WS α)
    (hw : WSFixed m w) (st : QS α) (hst : StateOK m st) (qd qdd : VecN α) :
    lsum RBI.zero (fun n => if cnt M n = true then nodeI M (stateOf st qd qdd) n else RBI.zero)
        (List.range M.nodes.length)
      = lsum RBI.zero (fun i =>
          ((updateKinematicsCustom m w (some st) (some qd) (some qdd)).X_base i).applyTransposeRBI
            (m.rbi i)) (List.range' 1 (m.nBodies - 1)) := by
  refine counts_sum L12.rbi_addLaws hL hm.wf.nb_pos _
    (fun i J => ((updateKinematicsCustom m w (some st) (some qd) (some qdd)).X_base
      i).applyTransposeRBI J) (fun i => aTR_zero _) (fun i A B => L12.applyTransposeRBI_add _ A B)
    ?_ (fun n hn hc => if_neg hc)
  intro n hn hc
  obtain ⟨hB, hX, hXr, hOr, hs, hN⟩ := node_facts hm hL h2 w hw st hst qd qdd n hn hc
  rw [if_pos hc, hN]
  unfold nodeI
  rw [hX, L12.mul_applyTransposeRBI _ _ hXr]

/-- **`htot`** -/
theorem momentum_total (hm : ModelOK m) (hL : Link m M off nodeOf) (h2 : (2 : α) ≠ 0) (w : WS α)
    (hw : WSFixed m w) (st : QS α) (hst : StateOK m st) (qd qdd : VecN α) :
    lsum SV.zero (fun n => if cnt M n = true then nodeH M (stateOf st qd qdd) n else SV.zero)
        (List.range M.nodes.length)
      = lsum SV.zero (fun i =>
          ((updateKinematicsCustom m w (some st) (some qd) (some qdd)).X_base i).applyTranspose
            (m.rbi i * (updateKinematicsCustom m w (some st) (some qd) (some qdd)).v i))
          (List.range' 1 (m.nBodies - 1)) := by
  refine counts_sum L12.sv_addLaws hL hm.wf.nb_pos _
    (fun i J => ((updateKinematicsCustom m w (some st) (some qd) (some qdd)).X_base
      i).applyTranspose (J * (updateKinematicsCustom m w (some st) (some qd) (some qdd)).v i))
    (fun i => by
      show XT.applyTranspose _ ((RBI.zero : RBI α) * _) = SV.zero
      rw [L03.Core.rbi_zero_mul, applyTranspose_zero'])
    (fun i A B => by
      show XT.applyTranspose _ ((A + B) * _) = _
      rw [L03.Core.rbi_add_mul, L12.applyTranspose_add])
    ?_ (fun n hn hc => if_neg hc)
  intro n hn hc
  obtain ⟨hB, hX, hXr, hOr, hs, hN⟩ := node_facts hm hL h2 w hw st hst qd qdd n hn hc
  rw [if_pos hc, hN]
  show nodeH M _ n = XT.applyTranspose _ (_ * _)
  unfold nodeH
  dsimp only
  rw [← node_momentum hB _ _ _ hs, hX, L12.mul_applyTranspose _ _ hXr, L03.Core.aTR_mul _ hOr]

/-- **`hdtot`** -/
theorem momentum_rate_total (hm : ModelOK m) (hL : Link m M off nodeOf) (h2 : (2 : α) ≠ 0)
    (w : WS α) (hw : WSFixed m w) (st : QS α) (hst : StateOK m st) (qd qdd : VecN α) :
    lsum SV.zero (fun n => if cnt M n = true then nodeHd M (stateOf st qd qdd) n else SV.zero)
        (List.range M.nodes.length)
      = lsum SV.zero (fun i =>
          ((updateKinematicsCustom m w (some st) (some qd) (some qdd)).X_base i).applyTranspose
            (m.rbi i * (updateKinematicsCustom m w (some st) (some qd) (some qdd)).a i
              + crossf ((updateKinematicsCustom m w (some st) (some qd) (some qdd)).v i)
                (m.rbi i * (updateKinematicsCustom m w (some st) (some qd) (some qdd)).v i)))
          (List.range' 1 (m.nBodies - 1)) := by
  refine counts_sum L12.sv_addLaws hL hm.wf.nb_pos _
    (fun i J => ((updateKinematicsCustom m w (some st) (some qd) (some qdd)).X_base
      i).applyTranspose
        (J * (updateKinematicsCustom m w (some st) (some qd) (some qdd)).a i
          + crossf ((updateKinematicsCustom m w (some st) (some qd) (some qdd)).v i)
            (J * (updateKinematicsCustom m w (some st) (some qd) (some qdd)).v i)))
    (fun i => by
      show XT.applyTranspose _ ((RBI.zero : RBI α) * _ + crossf _ ((RBI.zero : RBI α) * _))
        = SV.zero
      rw [rbiForce_zero, applyTranspose_zero'])
    (fun i A B => by
      show XT.applyTranspose _ ((A + B) * _ + crossf _ ((A + B) * _)) = _
      rw [rbiForce_add, L12.applyTranspose_add])
    ?_ (fun n hn hc => if_neg hc)
  intro n hn hc
  obtain ⟨hB, hX, hXr, hOr, hs, hN⟩ := node_facts hm hL h2 w hw st hst qd qdd n hn hc
  rw [if_pos hc, hN]
  show nodeHd M _ n = XT.applyTranspose _ (_ * _ + crossf _ (_ * _))
  unfold nodeHd
  dsimp only
  rw [← node_momentum_rate hB _ _ _ hs, hX, L12.mul_applyTranspose _ _ hXr, applyTranspose_add',
    applyTranspose_crossf _ hOr, L03.Core.aTR_mul _ hOr, L03.Core.aTR_mul _ hOr]

end
end Rbdl.LDynCap
