import RbdlProofs.Lemmas.L08F
/-
  C08, last clause, part 2: `Constr.forces` (`calcConstraintForces`) in closed form, for contact and for
  loop constraints (loops: `update_kinematics = false`, ids below `fixedDisc`, as in C09 section 3).
-/
set_option linter.unusedSectionVars false
namespace Rbdl.L08F
open Lean.Grind Rbdl Rbdl.L05 Rbdl.L09

section
variable {α : Type} [Field α] [DecidableEq α]

/-- the contact point in base coordinates, as `calcConstraintForces` computes it -/
def contactP (c : Constr α) (m : ModelS α) (w : WS α) (st : QS α) (update : Bool) : V3 α :=
  (calcBodyToBaseCoordinates m w st c.bodyP c.XP.r update).2

/-- the orientation of the contact body (base → body) as `calcConstraintForces` computes it: after the
    point was computed, without a further update -/
def contactE (c : Constr α) (m : ModelS α) (w : WS α) (st : QS α) (update : Bool) : M3 α :=
  (calcBodyWorldOrientation m (calcBodyToBaseCoordinates m w st c.bodyP c.XP.r update).1 st c.bodyP
    false).2

theorem contact_forces_root (c : Constr α) (hc : c.ctype = .contact) (m : ModelS α) (w : WS α)
    (st : QS α) (lam : VecN α) (update : Bool) (prev : List (XT α)) :
    (c.forces m w st lam true update prev).2
      = [(c.bodyS, ⟨c.XS.E, contactP c m w st update⟩, ⟨V3.zero, c.contactForce lam⟩),
         (c.bodyS, c.XS, ⟨V3.zero, -(c.contactForce lam)⟩)] := by
  unfold Constr.forces
  simp only [hc]
  rfl

theorem contact_forces_local (c : Constr α) (hc : c.ctype = .contact) (m : ModelS α) (w : WS α)
    (st : QS α) (lam : VecN α) (update : Bool) (prev : List (XT α)) :
    (c.forces m w st lam false update prev).2
      = [(c.bodyP, c.XP, ⟨V3.zero, contactE c m w st update * c.contactForce lam⟩),
         (c.bodyS, c.XS, ⟨V3.zero, -(c.contactForce lam)⟩)] := by
  unfold Constr.forces
  simp only [hc]
  rfl

theorem loop_forces_root (c : Constr α) (hc : c.ctype = .loop) (m : ModelS α) (w : WS α)
    (st : QS α) (lam : VecN α) (prev : List (XT α)) (hP : ¬ fixedDisc ≤ c.bodyP)
    (hS : ¬ fixedDisc ≤ c.bodyS) :
    c.forces m w st lam true false prev
      = (w, [(0, ⟨(prev.getD 0 XT.id).E, (frameOf w c.bodyP c.XP).r⟩,
                -(c.loopForce (frameOf w c.bodyP c.XP) lam)),
             (0, ⟨(prev.getD 1 XT.id).E, (frameOf w c.bodyS c.XS).r⟩,
                c.loopForce (frameOf w c.bodyP c.XP) lam)]) := by
  unfold Constr.forces
  simp only [hc]
  rw [loopFrame_eq m w st c.bodyP c.XP hP]
  dsimp only
  rw [loopFrame_eq m w st c.bodyS c.XS hS]
  rfl

theorem loop_forces_local (c : Constr α) (hc : c.ctype = .loop) (m : ModelS α) (w : WS α)
    (st : QS α) (lam : VecN α) (prev : List (XT α)) (hP : ¬ fixedDisc ≤ c.bodyP)
    (hS : ¬ fixedDisc ≤ c.bodyS) :
    c.forces m w st lam false false prev
      = (w, [(c.bodyP, c.XP,
                ⟨-((frameOf w c.bodyP c.XP).E.tmulVec (c.loopForce (frameOf w c.bodyP c.XP) lam).w),
                 -((frameOf w c.bodyP c.XP).E.tmulVec (c.loopForce (frameOf w c.bodyP c.XP) lam).v)⟩),
             (c.bodyS, c.XS,
                ⟨(frameOf w c.bodyS c.XS).E.tmulVec (c.loopForce (frameOf w c.bodyP c.XP) lam).w,
                 (frameOf w c.bodyS c.XS).E.tmulVec (c.loopForce (frameOf w c.bodyP c.XP) lam).v⟩)]) := by
  unfold Constr.forces
  simp only [hc]
  rw [loopFrame_eq m w st c.bodyP c.XP hP]
  dsimp only
  rw [loopFrame_eq m w st c.bodyS c.XS hS]
  rfl

/-- rows 3..5 of the 6-D point Jacobian are the rows of the point Jacobian (zero-initialised) -/
theorem J3_eq_J6 (m : ModelS α) (w : WS α) (st : QS α) (id : Nat) (p : V3 α) (update : Bool)
    (r k : Nat) (hr : r < 3) :
    (calcPointJacobian m w st id p zeroMat update).2 r k
      = (calcPointJacobian6D m w st id p zeroMat update).2 (r + 3) k :=
  pointJacobian_rows m w st id p zeroMat zeroMat update (fun _ _ _ => rfl) r k hr

/-- `Jᵀ (0, f)` for the contact force `f = Σ_k λ_k n_k` is `Σ_k λ_k (row k of G)` -/
theorem contact_map (c : Constr α) (hc : c.ctype = .contact) (m : ModelS α) (w : WS α) (st : QS α)
    (lam : VecN α) (G0 : MatN α) (update : Bool) (col : Nat) (hcol : col < m.qdotSize) :
    dot6 (⟨V3.zero, c.contactForce lam⟩ : SV α)
        (fun q => (calcPointJacobian6D m w st c.bodyP c.XP.r zeroMat update).2 q col)
      = sumTo c.T.length (fun k => lam (c.row + k) * (c.jacobian m w st G0 update).2 (c.row + k) col) := by
  have hrow : ∀ k, k < c.T.length →
      lam (c.row + k) * (c.jacobian m w st G0 update).2 (c.row + k) col
        = (lam (c.row + k) * (axisK c k).v.x) * (calcPointJacobian6D m w st c.bodyP c.XP.r zeroMat update).2 3 col
          + (lam (c.row + k) * (axisK c k).v.y) * (calcPointJacobian6D m w st c.bodyP c.XP.r zeroMat update).2 4 col
          + (lam (c.row + k) * (axisK c k).v.z) * (calcPointJacobian6D m w st c.bodyP c.XP.r zeroMat update).2 5 col := by
    intro k hk
    rw [contact_jacobian_get c hc m w st G0 update (c.row + k) col,
      if_pos ⟨⟨by omega, by omega⟩, hcol⟩, ← axisK_eq]
    unfold contactJ
    rw [J3_eq_J6 m w st c.bodyP c.XP.r update 0 col (by omega),
      J3_eq_J6 m w st c.bodyP c.XP.r update 1 col (by omega),
      J3_eq_J6 m w st c.bodyP c.XP.r update 2 col (by omega)]
    grind
  rw [sumTo_congr _ _ _ hrow, sumTo_add, sumTo_add]
  have hs : ∀ (g : Nat → α) (a : α), sumTo c.T.length (fun k => g k * a) = sumTo c.T.length g * a := by
    intro g a
    have : (fun k => g k * a) = (fun k => a * g k) := by funext k; grind
    rw [this, sumTo_smul]; grind
  rw [hs, hs, hs, ← contactForce_x, ← contactForce_y, ← contactForce_z]
  simp only [dot6, V3.zero]
  grind

/-- `(J_s − J_p)ᵀ F` for the loop force `F = Σ_k λ_k loopAxis(A, T_k)` is `Σ_k λ_k (row k of G)` -/
theorem loop_map (c : Constr α) (hc : c.ctype = .loop) (m : ModelS α) (w : WS α) (st : QS α)
    (lam : VecN α) (G0 : MatN α) (hP : ¬ fixedDisc ≤ c.bodyP) (col : Nat) (hcol : col < m.qdotSize) :
    dot6 (-(c.loopForce (frameOf w c.bodyP c.XP) lam))
        (fun q => (calcPointJacobian6D m w st c.bodyP c.XP.r zeroMat false).2 q col)
      + dot6 (c.loopForce (frameOf w c.bodyP c.XP) lam)
        (fun q => (calcPointJacobian6D m w st c.bodyS c.XS.r zeroMat false).2 q col)
      = sumTo c.T.length (fun k => lam (c.row + k) * (c.jacobian m w st G0 false).2 (c.row + k) col) := by
  have hrow : ∀ k, k < c.T.length →
      lam (c.row + k) * (c.jacobian m w st G0 false).2 (c.row + k) col
        = lam (c.row + k) * dot6 (loopAxis (frameOf w c.bodyP c.XP) (axisK c k))
            (fun q => (calcPointJacobian6D m w st c.bodyS c.XS.r zeroMat false).2 q col)
          - lam (c.row + k) * dot6 (loopAxis (frameOf w c.bodyP c.XP) (axisK c k))
            (fun q => (calcPointJacobian6D m w st c.bodyP c.XP.r zeroMat false).2 q col) := by
    intro k hk
    rw [loop_jacobian_get c hc m w st G0 hP (c.row + k) col,
      if_pos ⟨⟨by omega, by omega⟩, hcol⟩, ← axisK_eq]
    unfold loopJs loopJp
    simp only [dot6]
    grind
  rw [sumTo_congr _ _ _ hrow, sumTo_sub, dot6_neg, loopForce_dot6, loopForce_dot6]
  grind

end
end Rbdl.L08F
