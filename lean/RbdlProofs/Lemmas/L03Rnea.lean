import RbdlProofs.Lemmas.L03
/-
  Helper lemmas for C03, part 2: `InverseDynamics` as named loops, the four-run linear relation
  (affinity in the acceleration).
-/
namespace Rbdl.L03
open Lean.Grind Rbdl Rbdl.Loops
set_option linter.unusedSectionVars false
set_option linter.unusedSimpArgs false

/-! ## `InverseDynamics` -/
section Rnea
variable {α : Type} [Field α]

/-- body of the forward loop of `inverseDynamics` -/
def idBody (m : ModelS α) (st : QS α) (qd qdd : VecN α) (i : Nat) (w : WS α) : WS α :=
  let lam := m.lam i
  let w := jcalc m w i st qd
  let w := { w with v := upd w.v i ((w.X_lambda i).apply (w.v lam) + w.v_J i) }
  let w := { w with c := upd w.c i (w.c_J i + crossm (w.v i) (w.v_J i)) }
  let w := match m.arity i with
    | .other => w
    | _ => { w with a := upd w.a i ((w.X_lambda i).apply (w.a lam) + w.c i + w.Sqdd m i qdd) }
  { w with f := upd w.f i (bodyForce m w i) }

/-- body of the external-force loop -/
def idFextBody (m : ModelS α) (fe : Nat → SV α) (i : Nat) (w : WS α) : WS α :=
  let w := { w with X_base := upd w.X_base i (w.X_lambda i * w.X_base (m.lam i)) }
  { w with f := upd w.f i (w.f i - (w.X_base i).applyAdjoint (fe i)) }

def idInit (m : ModelS α) (w : WS α) : WS α :=
  { w with v := upd w.v 0 SV.zero, a := upd w.a 0 (spatialGravityNeg m) }

def idFext (m : ModelS α) (fext : Option (Nat → SV α)) (w : WS α) : WS α :=
  match fext with
  | none => w
  | some fe => forUp (m.nBodies - 1) 1 (idFextBody m fe) w

/-- the workspace the backward pass of `inverseDynamics` starts from -/
def idFwd (m : ModelS α) (w : WS α) (st : QS α) (qd qdd : VecN α)
    (fext : Option (Nat → SV α)) : WS α :=
  idFext m fext (forUp (m.nBodies - 1) 1 (idBody m st qd qdd) (idInit m w))

/-- body of `rneaBackward` -/
def rneaBody (m : ModelS α) (i : Nat) (s : WS α × VecN α) : WS α × VecN α :=
  let tau := s.1.tauWrite m i (s.1.f i) s.2
  if m.lam i ≠ 0 then
    ({ s.1 with f := upd s.1.f (m.lam i) (s.1.f (m.lam i) + (s.1.X_lambda i).applyTranspose (s.1.f i)) }, tau)
  else (s.1, tau)

theorem rneaBackward_eq (m : ModelS α) (w : WS α) (tau : VecN α) :
    rneaBackward m w tau = forDown (m.nBodies - 1) (m.nBodies - 1) (rneaBody m) (w, tau) := rfl

theorem inverseDynamics_eq (m : ModelS α) (w : WS α) (st : QS α) (qd qdd tau : VecN α)
    (fext : Option (Nat → SV α)) :
    inverseDynamics m w st qd qdd tau fext
      = forDown (m.nBodies - 1) (m.nBodies - 1) (rneaBody m) (idFwd m w st qd qdd fext, tau) := by
  cases fext <;> rfl


/-! ### the linear four-point relation `x₁ - x₂ = s (x₃ - x₄)` -/

/-- `x₁ - x₂ = s (x₃ - x₄)` on spatial vectors -/
def Lin4 (s : α) (x1 x2 x3 x4 : SV α) : Prop := x1 - x2 = s * (x3 - x4)

macro "lin4_tac " h:ident : tactic =>
  `(tactic| (simp only [Lin4, alg, SV.ext_iff, V3.ext_iff, SV.mk.injEq, V3.mk.injEq] at $h:ident ⊢
             obtain ⟨⟨h1, h2, h3⟩, ⟨h4, h5, h6⟩⟩ := $h
             refine ⟨⟨?_, ?_, ?_⟩, ⟨?_, ?_, ?_⟩⟩ <;> grind))

theorem Lin4.refl0 (s : α) (x : SV α) : Lin4 s x x x x := by
  simp only [Lin4, alg, SV.mk.injEq, V3.mk.injEq]
  refine ⟨⟨?_, ?_, ?_⟩, ⟨?_, ?_, ?_⟩⟩ <;> grind

theorem Lin4.apply {s : α} {x1 x2 x3 x4 : SV α} (h : Lin4 s x1 x2 x3 x4) (X : XT α) :
    Lin4 s (X.apply x1) (X.apply x2) (X.apply x3) (X.apply x4) := by lin4_tac h

theorem Lin4.applyTranspose {s : α} {x1 x2 x3 x4 : SV α} (h : Lin4 s x1 x2 x3 x4) (X : XT α) :
    Lin4 s (X.applyTranspose x1) (X.applyTranspose x2) (X.applyTranspose x3)
      (X.applyTranspose x4) := by lin4_tac h

theorem Lin4.rbi {s : α} {x1 x2 x3 x4 : SV α} (h : Lin4 s x1 x2 x3 x4) (I : RBI α) :
    Lin4 s (I * x1) (I * x2) (I * x3) (I * x4) := by lin4_tac h

theorem Lin4.add_const {s : α} {x1 x2 x3 x4 : SV α} (h : Lin4 s x1 x2 x3 x4) (c : SV α) :
    Lin4 s (x1 + c) (x2 + c) (x3 + c) (x4 + c) := by lin4_tac h

theorem Lin4.sub_const {s : α} {x1 x2 x3 x4 : SV α} (h : Lin4 s x1 x2 x3 x4) (c : SV α) :
    Lin4 s (x1 - c) (x2 - c) (x3 - c) (x4 - c) := by lin4_tac h

theorem Lin4.add {s : α} {x1 x2 x3 x4 y1 y2 y3 y4 : SV α} (h : Lin4 s x1 x2 x3 x4)
    (h' : Lin4 s y1 y2 y3 y4) : Lin4 s (x1 + y1) (x2 + y2) (x3 + y3) (x4 + y4) := by
  simp only [Lin4, alg, SV.ext_iff, V3.ext_iff, SV.mk.injEq, V3.mk.injEq] at h h' ⊢
  obtain ⟨⟨h1, h2, h3⟩, ⟨h4, h5, h6⟩⟩ := h
  obtain ⟨⟨g1, g2, g3⟩, ⟨g4, g5, g6⟩⟩ := h'
  refine ⟨⟨?_, ?_, ?_⟩, ⟨?_, ?_, ?_⟩⟩ <;> grind

theorem Lin4.dot {s : α} {x1 x2 x3 x4 : SV α} (h : Lin4 s x1 x2 x3 x4) (y : SV α) :
    y.dot x1 - y.dot x2 = s * (y.dot x3 - y.dot x4) := by
  simp only [Lin4, alg, SV.ext_iff, V3.ext_iff, SV.mk.injEq, V3.mk.injEq] at h ⊢
  obtain ⟨⟨h1, h2, h3⟩, ⟨h4, h5, h6⟩⟩ := h
  grind

/-- `t₁ x - t₂ x = s (t₃ x - t₄ x)` for a fixed vector and scalars in the relation -/
theorem Lin4.smul {s t1 t2 t3 t4 : α} (h : t1 - t2 = s * (t3 - t4)) (x : SV α) :
    Lin4 s (t1 * x) (t2 * x) (t3 * x) (t4 * x) := by
  simp only [Lin4, alg, SV.mk.injEq, V3.mk.injEq]
  refine ⟨⟨?_, ?_, ?_⟩, ⟨?_, ?_, ?_⟩⟩ <;> grind


/-- scalar version -/
def Lin4s (s t1 t2 t3 t4 : α) : Prop := t1 - t2 = s * (t3 - t4)

theorem lin4s_upd {s : α} {t1 t2 t3 t4 : VecN α} (h : ∀ k, Lin4s s (t1 k) (t2 k) (t3 k) (t4 k))
    (j : Nat) {x1 x2 x3 x4 : α} (hx : Lin4s s x1 x2 x3 x4) (k : Nat) :
    Lin4s s (upd t1 j x1 k) (upd t2 j x2 k) (upd t3 j x3 k) (upd t4 j x4 k) := by
  unfold upd; split
  · exact hx
  · exact h k

/-! ### the fields `jcalc` reads and writes -/

/-- two workspaces agree on everything `jcalc` and the position-dependent part of the dynamics
    algorithms read: motion subspaces, joint velocity / bias terms, the transforms -/
structure SA (w w' : WS α) : Prop where
  S : w.S = w'.S
  S3 : w.S3 = w'.S3
  cS : w.cS = w'.cS
  v_J : w.v_J = w'.v_J
  c_J : w.c_J = w'.c_J
  X_lambda : w.X_lambda = w'.X_lambda
  X_base : w.X_base = w'.X_base

theorem SA.rfl' (w : WS α) : SA w w := ⟨rfl, rfl, rfl, rfl, rfl, rfl, rfl⟩
theorem SA.symm {w w' : WS α} (h : SA w w') : SA w' w :=
  ⟨h.1.symm, h.2.symm, h.3.symm, h.4.symm, h.5.symm, h.6.symm, h.7.symm⟩
theorem SA.trans {w w' w'' : WS α} (h : SA w w') (h' : SA w' w'') : SA w w'' :=
  ⟨h.1.trans h'.1, h.2.trans h'.2, h.3.trans h'.3, h.4.trans h'.4, h.5.trans h'.5,
    h.6.trans h'.6, h.7.trans h'.7⟩

theorem jcalc_SA (m : ModelS α) (w w' : WS α) (i : Nat) (st : QS α) (qd : VecN α)
    (h : SA w w') : SA (jcalc m w i st qd) (jcalc m w' i st qd) := by
  obtain ⟨h1, h2, h3, h4, h5, h6, h7⟩ := h
  unfold jcalc
  dsimp only
  cases hjt : (m.joint i).jt <;> (constructor <;> simp only [h1, h2, h3, h4, h5, h6, h7])

theorem jcalc_v (m : ModelS α) (w : WS α) (i : Nat) (st : QS α) (qd : VecN α) :
    (jcalc m w i st qd).v = w.v := by
  unfold jcalc; dsimp only; cases h : (m.joint i).jt <;> rfl
theorem jcalc_a (m : ModelS α) (w : WS α) (i : Nat) (st : QS α) (qd : VecN α) :
    (jcalc m w i st qd).a = w.a := by
  unfold jcalc; dsimp only; cases h : (m.joint i).jt <;> rfl
theorem jcalc_c (m : ModelS α) (w : WS α) (i : Nat) (st : QS α) (qd : VecN α) :
    (jcalc m w i st qd).c = w.c := by
  unfold jcalc; dsimp only; cases h : (m.joint i).jt <;> rfl
theorem jcalc_f (m : ModelS α) (w : WS α) (i : Nat) (st : QS α) (qd : VecN α) :
    (jcalc m w i st qd).f = w.f := by
  unfold jcalc; dsimp only; cases h : (m.joint i).jt <;> rfl


/-! ### what one forward iteration writes -/

def idVi (m : ModelS α) (w' : WS α) (v : Nat → SV α) (i : Nat) : SV α :=
  (w'.X_lambda i).apply (v (m.lam i)) + w'.v_J i
def idCi (m : ModelS α) (w' : WS α) (v : Nat → SV α) (i : Nat) : SV α :=
  w'.c_J i + crossm (idVi m w' v i) (w'.v_J i)
def idAi (m : ModelS α) (w' : WS α) (v a : Nat → SV α) (qdd : VecN α) (i : Nat) : SV α :=
  (w'.X_lambda i).apply (a (m.lam i)) + idCi m w' v i + w'.Sqdd m i qdd
def idFi (m : ModelS α) (vi ai : SV α) (i : Nat) : SV α :=
  if (m.body i).isVirtual then SV.zero else m.rbi i * ai + crossf vi (m.rbi i * vi)

theorem idBody_fields (m : ModelS α) (st : QS α) (qd qdd : VecN α) (i : Nat) (w : WS α)
    (har : m.arity i ≠ .other) :
    SA (idBody m st qd qdd i w) (jcalc m w i st qd) ∧
    (idBody m st qd qdd i w).v = upd w.v i (idVi m (jcalc m w i st qd) w.v i) ∧
    (idBody m st qd qdd i w).a = upd w.a i (idAi m (jcalc m w i st qd) w.v w.a qdd i) ∧
    (idBody m st qd qdd i w).f = upd w.f i
      (idFi m (idVi m (jcalc m w i st qd) w.v i) (idAi m (jcalc m w i st qd) w.v w.a qdd i) i) := by
  unfold idBody
  cases h : m.arity i
  case other => exact absurd h har
  all_goals
    refine ⟨⟨rfl, rfl, rfl, rfl, rfl, rfl, rfl⟩, ?_, ?_, ?_⟩ <;>
    simp only [bodyForce, idFi, idAi, idCi, idVi, upd_same, jcalc_v, jcalc_a, jcalc_f, jcalc_c,
      WS.Sqdd, h]


/-! ### linearity of `S qdd` and of the `tau` writes -/

theorem Sqdd_congr (m : ModelS α) (w w' : WS α) (h : SA w w') (i : Nat) (qdd : VecN α) :
    w.Sqdd m i qdd = w'.Sqdd m i qdd := by
  unfold WS.Sqdd; rw [h.S, h.S3, h.cS]

theorem tauWrite_congr (m : ModelS α) (w w' : WS α) (h : SA w w') (i : Nat) (f : SV α)
    (tau : VecN α) : w.tauWrite m i f tau = w'.tauWrite m i f tau := by
  unfold WS.tauWrite; rw [h.S, h.S3, h.cS]

theorem colsFold_lin4 {s : α} {q1 q2 q3 q4 : VecN α}
    (hq : ∀ k, Lin4s s (q1 k) (q2 k) (q3 k) (q4 k)) (l : List (SV α × Nat))
    (a1 a2 a3 a4 : SV α) (ha : Lin4 s a1 a2 a3 a4) :
    Lin4 s (l.foldl (fun acc p => acc + q1 p.2 * p.1) a1)
      (l.foldl (fun acc p => acc + q2 p.2 * p.1) a2)
      (l.foldl (fun acc p => acc + q3 p.2 * p.1) a3)
      (l.foldl (fun acc p => acc + q4 p.2 * p.1) a4) := by
  induction l generalizing a1 a2 a3 a4 with
  | nil => exact ha
  | cons p l ih => exact ih _ _ _ _ (ha.add (Lin4.smul (hq p.2) p.1))

theorem Sqdd_lin4 (m : ModelS α) (w : WS α) (i : Nat) {s : α} {q1 q2 q3 q4 : VecN α}
    (hq : ∀ k, Lin4s s (q1 k) (q2 k) (q3 k) (q4 k)) :
    Lin4 s (w.Sqdd m i q1) (w.Sqdd m i q2) (w.Sqdd m i q3) (w.Sqdd m i q4) := by
  unfold WS.Sqdd
  cases m.arity i
  · exact Lin4.smul (hq _) _
  · exact ((Lin4.smul (hq _) _).add (Lin4.smul (hq _) _)).add (Lin4.smul (hq _) _)
  · exact colsFold_lin4 (fun k => hq _) _ _ _ _ _ (Lin4.refl0 s _)
  · exact Lin4.refl0 s _

theorem tauFold_lin4 {s : α} {f1 f2 f3 f4 : SV α} (hf : Lin4 s f1 f2 f3 f4) (k0 : Nat)
    (l : List (SV α × Nat)) (t1 t2 t3 t4 : VecN α)
    (ht : ∀ k, Lin4s s (t1 k) (t2 k) (t3 k) (t4 k)) (k : Nat) :
    Lin4s s (l.foldl (fun t p => upd t (k0 + p.2) (p.1.dot f1)) t1 k)
      (l.foldl (fun t p => upd t (k0 + p.2) (p.1.dot f2)) t2 k)
      (l.foldl (fun t p => upd t (k0 + p.2) (p.1.dot f3)) t3 k)
      (l.foldl (fun t p => upd t (k0 + p.2) (p.1.dot f4)) t4 k) := by
  induction l generalizing t1 t2 t3 t4 with
  | nil => exact ht k
  | cons p l ih => exact ih _ _ _ _ (fun k => lin4s_upd ht _ (hf.dot p.1) k)

theorem tauWrite_lin4 (m : ModelS α) (w : WS α) (i : Nat) {s : α} {f1 f2 f3 f4 : SV α}
    (hf : Lin4 s f1 f2 f3 f4) (t1 t2 t3 t4 : VecN α)
    (ht : ∀ k, Lin4s s (t1 k) (t2 k) (t3 k) (t4 k)) (k : Nat) :
    Lin4s s (w.tauWrite m i f1 t1 k) (w.tauWrite m i f2 t2 k) (w.tauWrite m i f3 t3 k)
      (w.tauWrite m i f4 t4 k) := by
  unfold WS.tauWrite
  cases m.arity i
  · exact lin4s_upd ht _ (hf.dot _) k
  · exact lin4s_upd (fun k => lin4s_upd (fun k => lin4s_upd ht _ (hf.dot _) k) _ (hf.dot _) k) _
      (hf.dot _) k
  · exact tauFold_lin4 hf _ _ _ _ _ _ ht k
  · exact ht k


/-! ### four runs in parallel -/

theorem forUp_inv4 {σ : Type} (R : Nat → σ → σ → σ → σ → Prop) (b1 b2 b3 b4 : Nat → σ → σ)
    (n lo : Nat)
    (h : ∀ i s1 s2 s3 s4, lo ≤ i → i < lo + n → R i s1 s2 s3 s4 →
      R (i + 1) (b1 i s1) (b2 i s2) (b3 i s3) (b4 i s4))
    (s1 s2 s3 s4 : σ) (h0 : R lo s1 s2 s3 s4) :
    R (lo + n) (forUp n lo b1 s1) (forUp n lo b2 s2) (forUp n lo b3 s3) (forUp n lo b4 s4) := by
  induction n generalizing lo s1 s2 s3 s4 with
  | zero => exact h0
  | succ k ih =>
    rw [forUp, forUp, forUp, forUp]
    have := ih (lo + 1) (fun i s1 s2 s3 s4 h1 h2 => h i s1 s2 s3 s4 (by omega) (by omega)) _ _ _ _
      (h lo s1 s2 s3 s4 (Nat.le_refl _) (by omega) h0)
    have e : lo + (k + 1) = lo + 1 + k := by omega
    rw [e]; exact this

theorem forDown_inv4 {σ : Type} (R : σ → σ → σ → σ → Prop) (b1 b2 b3 b4 : Nat → σ → σ)
    (cnt hi : Nat)
    (h : ∀ i s1 s2 s3 s4, i ≤ hi → hi < i + cnt → R s1 s2 s3 s4 →
      R (b1 i s1) (b2 i s2) (b3 i s3) (b4 i s4))
    (s1 s2 s3 s4 : σ) (h0 : R s1 s2 s3 s4) :
    R (forDown cnt hi b1 s1) (forDown cnt hi b2 s2) (forDown cnt hi b3 s3)
      (forDown cnt hi b4 s4) := by
  induction cnt generalizing hi s1 s2 s3 s4 with
  | zero => exact h0
  | succ k ih =>
    rw [forDown, forDown, forDown, forDown]
    exact ih (hi - 1) (fun i s1 s2 s3 s4 h1 h2 => h i s1 s2 s3 s4 (by omega) (by omega)) _ _ _ _
      (h hi s1 s2 s3 s4 (Nat.le_refl _) (by omega) h0)

/-- invariant of the forward loops of four runs of `inverseDynamics` whose accelerations satisfy
    `q̈₁ - q̈₂ = s (q̈₃ - q̈₄)`; `i` = loop counter (bodies `< i` are done) -/
def FwdInv (s : α) (i : Nat) (w1 w2 w3 w4 : WS α) : Prop :=
  SA w1 w2 ∧ SA w1 w3 ∧ SA w1 w4 ∧
  (∀ j, j < i → w2.v j = w1.v j ∧ w3.v j = w1.v j ∧ w4.v j = w1.v j) ∧
  (∀ j, j < i → Lin4 s (w1.a j) (w2.a j) (w3.a j) (w4.a j)) ∧
  (∀ j, 1 ≤ j → j < i → Lin4 s (w1.f j) (w2.f j) (w3.f j) (w4.f j))

theorem idVi_congr (m : ModelS α) (w w' : WS α) (h : SA w w') (v v' : Nat → SV α) (i : Nat)
    (hv : v' (m.lam i) = v (m.lam i)) : idVi m w' v' i = idVi m w v i := by
  unfold idVi; rw [h.X_lambda, h.v_J, hv]

theorem idCi_congr (m : ModelS α) (w w' : WS α) (h : SA w w') (v v' : Nat → SV α) (i : Nat)
    (hv : v' (m.lam i) = v (m.lam i)) : idCi m w' v' i = idCi m w v i := by
  unfold idCi; rw [idVi_congr m w w' h v v' i hv, h.c_J, h.v_J]

theorem idAi_lin4 (m : ModelS α) (w1 w2 w3 w4 : WS α) (h2 : SA w1 w2) (h3 : SA w1 w3)
    (h4 : SA w1 w4) (v1 v2 v3 v4 a1 a2 a3 a4 : Nat → SV α) (i : Nat)
    (hv2 : v2 (m.lam i) = v1 (m.lam i)) (hv3 : v3 (m.lam i) = v1 (m.lam i))
    (hv4 : v4 (m.lam i) = v1 (m.lam i)) {s : α}
    (ha : Lin4 s (a1 (m.lam i)) (a2 (m.lam i)) (a3 (m.lam i)) (a4 (m.lam i)))
    {q1 q2 q3 q4 : VecN α} (hq : ∀ k, Lin4s s (q1 k) (q2 k) (q3 k) (q4 k)) :
    Lin4 s (idAi m w1 v1 a1 q1 i) (idAi m w2 v2 a2 q2 i) (idAi m w3 v3 a3 q3 i)
      (idAi m w4 v4 a4 q4 i) := by
  unfold idAi
  rw [idCi_congr m w1 w2 h2 v1 v2 i hv2, idCi_congr m w1 w3 h3 v1 v3 i hv3,
    idCi_congr m w1 w4 h4 v1 v4 i hv4, ← h2.X_lambda, ← h3.X_lambda, ← h4.X_lambda,
    ← Sqdd_congr m w1 w2 h2, ← Sqdd_congr m w1 w3 h3, ← Sqdd_congr m w1 w4 h4]
  exact ((ha.apply _).add_const _).add (Sqdd_lin4 m w1 i hq)

theorem idFi_lin4 (m : ModelS α) (v : SV α) (i : Nat) {s : α} {a1 a2 a3 a4 : SV α}
    (ha : Lin4 s a1 a2 a3 a4) :
    Lin4 s (idFi m v a1 i) (idFi m v a2 i) (idFi m v a3 i) (idFi m v a4 i) := by
  unfold idFi
  split
  · exact Lin4.refl0 s _
  · exact (ha.rbi _).add_const _

theorem idBody_inv (m : ModelS α) (st : QS α) (qd : VecN α) {s : α} {q1 q2 q3 q4 : VecN α}
    (hq : ∀ k, Lin4s s (q1 k) (q2 k) (q3 k) (q4 k)) (i : Nat) (hl : m.lam i < i)
    (har : m.arity i ≠ .other) (hi : 1 ≤ i) (w1 w2 w3 w4 : WS α) (h : FwdInv s i w1 w2 w3 w4) :
    FwdInv s (i + 1) (idBody m st qd q1 i w1) (idBody m st qd q2 i w2) (idBody m st qd q3 i w3)
      (idBody m st qd q4 i w4) := by
  obtain ⟨s2, s3, s4, hv, ha, hf⟩ := h
  obtain ⟨sa1, ev1, ea1, ef1⟩ := idBody_fields m st qd q1 i w1 har
  obtain ⟨sa2, ev2, ea2, ef2⟩ := idBody_fields m st qd q2 i w2 har
  obtain ⟨sa3, ev3, ea3, ef3⟩ := idBody_fields m st qd q3 i w3 har
  obtain ⟨sa4, ev4, ea4, ef4⟩ := idBody_fields m st qd q4 i w4 har
  have j2 := jcalc_SA m w1 w2 i st qd s2
  have j3 := jcalc_SA m w1 w3 i st qd s3
  have j4 := jcalc_SA m w1 w4 i st qd s4
  obtain ⟨hv2, hv3, hv4⟩ := hv (m.lam i) hl
  have eV2 := idVi_congr m _ _ j2 w1.v w2.v i hv2
  have eV3 := idVi_congr m _ _ j3 w1.v w3.v i hv3
  have eV4 := idVi_congr m _ _ j4 w1.v w4.v i hv4
  refine ⟨sa1.trans (j2.trans sa2.symm), sa1.trans (j3.trans sa3.symm),
    sa1.trans (j4.trans sa4.symm), ?_, ?_, ?_⟩
  · intro j hj
    rw [ev1, ev2, ev3, ev4]
    by_cases e : j = i
    · subst e; simp only [upd_same]; exact ⟨eV2, eV3, eV4⟩
    · simp only [upd_other _ _ _ _ e]; exact hv j (by omega)
  · intro j hj
    rw [ea1, ea2, ea3, ea4]
    by_cases e : j = i
    · subst e; simp only [upd_same]
      exact idAi_lin4 m _ _ _ _ j2 j3 j4 _ _ _ _ _ _ _ _ j hv2 hv3 hv4 (ha _ hl) hq
    · simp only [upd_other _ _ _ _ e]; exact ha j (by omega)
  · intro j hj1 hj
    rw [ef1, ef2, ef3, ef4]
    by_cases e : j = i
    · subst e; simp only [upd_same]
      rw [eV2, eV3, eV4]
      exact idFi_lin4 m _ j
        (idAi_lin4 m _ _ _ _ j2 j3 j4 _ _ _ _ _ _ _ _ j hv2 hv3 hv4 (ha _ hl) hq)
    · simp only [upd_other _ _ _ _ e]; exact hf j hj1 (by omega)


/-- invariant of the external-force loop and of the backward pass -/
def BwdInv (s : α) (n : Nat) (w1 w2 w3 w4 : WS α) : Prop :=
  SA w1 w2 ∧ SA w1 w3 ∧ SA w1 w4 ∧
  (∀ j, 1 ≤ j → j ≤ n → Lin4 s (w1.f j) (w2.f j) (w3.f j) (w4.f j))

theorem idFextBody_inv (m : ModelS α) (fe : Nat → SV α) {s : α} (n i : Nat) (w1 w2 w3 w4 : WS α)
    (h : BwdInv s n w1 w2 w3 w4) :
    BwdInv s n (idFextBody m fe i w1) (idFextBody m fe i w2) (idFextBody m fe i w3)
      (idFextBody m fe i w4) := by
  obtain ⟨s2, s3, s4, hf⟩ := h
  unfold idFextBody
  refine ⟨⟨s2.1, s2.2, s2.3, s2.4, s2.5, s2.6, ?_⟩, ⟨s3.1, s3.2, s3.3, s3.4, s3.5, s3.6, ?_⟩,
    ⟨s4.1, s4.2, s4.3, s4.4, s4.5, s4.6, ?_⟩, ?_⟩
  · simp only [s2.X_lambda, s2.X_base]
  · simp only [s3.X_lambda, s3.X_base]
  · simp only [s4.X_lambda, s4.X_base]
  · intro j h1 h2
    simp only [upd_same, ← s2.X_lambda, ← s2.X_base, ← s3.X_lambda, ← s3.X_base, ← s4.X_lambda,
      ← s4.X_base]
    by_cases e : j = i
    · subst e; simp only [upd_same]; exact (hf j h1 h2).sub_const _
    · simp only [upd_other _ _ _ _ e]; exact hf j h1 h2

theorem idFext_inv (m : ModelS α) (fext : Option (Nat → SV α)) {s : α} (n : Nat)
    (w1 w2 w3 w4 : WS α) (h : BwdInv s n w1 w2 w3 w4) :
    BwdInv s n (idFext m fext w1) (idFext m fext w2) (idFext m fext w3) (idFext m fext w4) := by
  cases fext with
  | none => exact h
  | some fe =>
    exact forUp_inv4 (fun _ => BwdInv s n) _ _ _ _ _ _
      (fun i s1 s2 s3 s4 _ _ hs => idFextBody_inv m fe n i s1 s2 s3 s4 hs) _ _ _ _ h

theorem rneaBody_inv (m : ModelS α) {s : α} (n i : Nat) (h1 : 1 ≤ i) (h2 : i ≤ n)
    (s1 s2 s3 s4 : WS α × VecN α)
    (h : BwdInv s n s1.1 s2.1 s3.1 s4.1 ∧ ∀ k, Lin4s s (s1.2 k) (s2.2 k) (s3.2 k) (s4.2 k)) :
    BwdInv s n (rneaBody m i s1).1 (rneaBody m i s2).1 (rneaBody m i s3).1 (rneaBody m i s4).1 ∧
    ∀ k, Lin4s s ((rneaBody m i s1).2 k) ((rneaBody m i s2).2 k) ((rneaBody m i s3).2 k)
      ((rneaBody m i s4).2 k) := by
  obtain ⟨⟨a2, a3, a4, hf⟩, ht⟩ := h
  have htau : ∀ k, Lin4s s (s1.1.tauWrite m i (s1.1.f i) s1.2 k)
      (s2.1.tauWrite m i (s2.1.f i) s2.2 k) (s3.1.tauWrite m i (s3.1.f i) s3.2 k)
      (s4.1.tauWrite m i (s4.1.f i) s4.2 k) := by
    intro k
    rw [← tauWrite_congr m _ _ a2, ← tauWrite_congr m _ _ a3, ← tauWrite_congr m _ _ a4]
    exact tauWrite_lin4 m _ i (hf i h1 h2) _ _ _ _ ht k
  unfold rneaBody
  by_cases h0 : m.lam i = 0
  · simp only [h0, ne_eq, not_true_eq_false, if_false]
    exact ⟨⟨a2, a3, a4, hf⟩, htau⟩
  · simp only [h0, ne_eq, not_false_eq_true, if_true]
    refine ⟨⟨⟨a2.1, a2.2, a2.3, a2.4, a2.5, a2.6, a2.7⟩, ⟨a3.1, a3.2, a3.3, a3.4, a3.5, a3.6, a3.7⟩,
      ⟨a4.1, a4.2, a4.3, a4.4, a4.5, a4.6, a4.7⟩, ?_⟩, htau⟩
    intro j hj1 hj2
    simp only [← a2.X_lambda, ← a3.X_lambda, ← a4.X_lambda]
    by_cases e : j = m.lam i
    · subst e; simp only [upd_same]
      exact (hf _ hj1 hj2).add ((hf i h1 h2).applyTranspose _)
    · simp only [upd_other _ _ _ _ e]; exact hf j hj1 hj2

/-- four runs of `inverseDynamics` from workspaces that agree on the fields `jcalc` reads, with
    accelerations and `Tau` in/out arguments in the relation `x₁ - x₂ = s (x₃ - x₄)`: the results are
    in the same relation -/
theorem id_lin4 (m : ModelS α) (st : QS α) (qd : VecN α) (fext : Option (Nat → SV α))
    (htree : ∀ i, 1 ≤ i → i ≤ m.nBodies - 1 → m.lam i < i)
    (har : ∀ i, 1 ≤ i → i ≤ m.nBodies - 1 → m.arity i ≠ .other)
    (w1 w2 w3 w4 : WS α) (h2 : SA w1 w2) (h3 : SA w1 w3) (h4 : SA w1 w4) {s : α}
    {q1 q2 q3 q4 t1 t2 t3 t4 : VecN α} (hq : ∀ k, Lin4s s (q1 k) (q2 k) (q3 k) (q4 k))
    (ht : ∀ k, Lin4s s (t1 k) (t2 k) (t3 k) (t4 k)) (k : Nat) :
    Lin4s s ((inverseDynamics m w1 st qd q1 t1 fext).2 k)
      ((inverseDynamics m w2 st qd q2 t2 fext).2 k)
      ((inverseDynamics m w3 st qd q3 t3 fext).2 k)
      ((inverseDynamics m w4 st qd q4 t4 fext).2 k) := by
  simp only [inverseDynamics_eq]
  have hfwd := forUp_inv4 (FwdInv s) (idBody m st qd q1) (idBody m st qd q2) (idBody m st qd q3)
    (idBody m st qd q4) (m.nBodies - 1) 1
    (fun i s1 s2 s3 s4 hi1 hi2 hs => idBody_inv m st qd hq i (htree i hi1 (by omega))
      (har i hi1 (by omega)) hi1 s1 s2 s3 s4 hs)
    (idInit m w1) (idInit m w2) (idInit m w3) (idInit m w4)
    ⟨⟨h2.1, h2.2, h2.3, h2.4, h2.5, h2.6, h2.7⟩, ⟨h3.1, h3.2, h3.3, h3.4, h3.5, h3.6, h3.7⟩,
      ⟨h4.1, h4.2, h4.3, h4.4, h4.5, h4.6, h4.7⟩,
      fun j hj => by
        have : j = 0 := by omega
        subst this; simp only [idInit, upd_same, and_self],
      fun j hj => by
        have : j = 0 := by omega
        subst this; simp only [idInit, upd_same]; exact Lin4.refl0 s _,
      fun j hj1 hj => by omega⟩
  obtain ⟨b2, b3, b4, _, _, hf⟩ := hfwd
  have hb : BwdInv s (m.nBodies - 1) _ _ _ _ :=
    idFext_inv m fext (m.nBodies - 1) _ _ _ _ ⟨b2, b3, b4, fun j hj1 hj2 => hf j hj1 (by omega)⟩
  exact (forDown_inv4
    (fun (s1 s2 s3 s4 : WS α × VecN α) => BwdInv s (m.nBodies - 1) s1.1 s2.1 s3.1 s4.1 ∧
      ∀ k, Lin4s s (s1.2 k) (s2.2 k) (s3.2 k) (s4.2 k))
    (rneaBody m) (rneaBody m) (rneaBody m) (rneaBody m) (m.nBodies - 1) (m.nBodies - 1)
    (fun i s1 s2 s3 s4 hi1 hi2 hs => rneaBody_inv m (m.nBodies - 1) i (by omega) hi1 s1 s2 s3 s4 hs)
    (idFwd m w1 st qd q1 fext, t1) (idFwd m w2 st qd q2 fext, t2) (idFwd m w3 st qd q3 fext, t3)
    (idFwd m w4 st qd q4 fext, t4) ⟨hb, ht⟩).2 k

end Rnea
end Rbdl.L03
