import RbdlProofs.Lemmas.LDynCapLin
import RbdlProofs.Lemmas.AbaCMT
import RbdlProofs.Lemmas.L13MInv
/-
  Capstone for `CalcMInvTimesTau`: `H · x = τ` for the returned `x` and the matrix of
  `CompositeRigidBodyAlgorithm`.
-/
namespace Rbdl.LDynCap
open Lean.Grind Rbdl Rbdl.Spec Rbdl.L06 Rbdl.L01 Rbdl.Loops Rbdl.L01Cap Rbdl.L05 Rbdl.L02
set_option linter.unusedSimpArgs false
set_option linter.unusedVariables false
set_option linter.unusedSectionVars false

section
variable {α : Type} [Field α] [DecidableEq α]

theorem xlsS_idem (m : ModelS α) (i : Nat) (st : QS α) (old : SV α) :
    L13.xlsS m i st (L13.xlsS m i st old) = L13.xlsS m i st old := by
  unfold L13.xlsS
  cases (m.joint i).jt <;> rfl

theorem jcalcS3_idem (m : ModelS α) (i : Nat) (st : QS α) (old : M63 α) :
    L13.jcalcS3 m i st (L13.jcalcS3 m i st old) = L13.jcalcS3 m i st old := by
  unfold L13.jcalcS3
  cases (m.joint i).jt <;> rfl

theorem abaAccel_frame (m : ModelS α) (w : WS α) (i : Nat) (qdd : VecN α) :
    (abaAccel m w i qdd).1.X_lambda = w.X_lambda ∧ (abaAccel m w i qdd).1.S = w.S ∧
    (abaAccel m w i qdd).1.S3 = w.S3 := by
  unfold abaAccel
  cases m.arity i <;> exact ⟨rfl, rfl, rfl⟩

/-- body `j` was visited by the first loop of `calcMInvTimesTau` before position `k` -/
def vis (m : ModelS α) (k j : Nat) : Prop := ∃ i, 1 ≤ i ∧ i < k ∧ m.updateOrder.getD i 0 = j

theorem cmB1_fields (m : ModelS α) (st : QS α) (i : Nat) (s : WS α) :
    (cmB1 m st i s).X_lambda = upd s.X_lambda (m.updateOrder.getD i 0)
      (jcalcX m (m.updateOrder.getD i 0) st (s.X_lambda (m.updateOrder.getD i 0))) ∧
    (cmB1 m st i s).S = upd s.S (m.updateOrder.getD i 0)
      (L13.xlsS m (m.updateOrder.getD i 0) st (s.S (m.updateOrder.getD i 0))) ∧
    (cmB1 m st i s).S3 = upd s.S3 (m.updateOrder.getD i 0)
      (L13.jcalcS3 m (m.updateOrder.getD i 0) st (s.S3 (m.updateOrder.getD i 0))) := by
  unfold cmB1
  dsimp only
  rw [L13.jcalcXlambdaS_eq]
  exact ⟨rfl, rfl, rfl⟩

/-- invariant of the first loop: visited bodies hold the values `jcalc_X_lambda_S` computes from
    the entry workspace, the others their entry values -/
def C1fields (m : ModelS α) (st : QS α) (w : WS α) (k : Nat) (s : WS α) : Prop :=
  ∀ j, (vis m k j →
      s.X_lambda j = jcalcX m j st (w.X_lambda j) ∧ s.S j = L13.xlsS m j st (w.S j) ∧
      s.S3 j = L13.jcalcS3 m j st (w.S3 j)) ∧
    (¬ vis m k j → s.X_lambda j = w.X_lambda j ∧ s.S j = w.S j ∧ s.S3 j = w.S3 j)

theorem cmB1_inv (m : ModelS α) (st : QS α) (w : WS α) (i : Nat) (s : WS α) (hi : 1 ≤ i)
    (h : C1fields m st w i s) : C1fields m st w (i + 1) (cmB1 m st i s) := by
  obtain ⟨eX, eS, eS3⟩ := cmB1_fields m st i s
  intro j
  by_cases hj : j = m.updateOrder.getD i 0
  · have hv : vis m (i + 1) j := ⟨i, hi, by omega, hj.symm⟩
    refine ⟨fun _ => ?_, fun hn => absurd hv hn⟩
    rw [eX, eS, eS3, hj, upd_same, upd_same, upd_same, ← hj]
    by_cases hvo : vis m i j
    · obtain ⟨a, b, c⟩ := (h j).1 hvo
      rw [a, b, c, L05.jcalcX_idem, xlsS_idem, jcalcS3_idem]
      exact ⟨rfl, rfl, rfl⟩
    · obtain ⟨a, b, c⟩ := (h j).2 hvo
      rw [a, b, c]
      exact ⟨rfl, rfl, rfl⟩
  · have hiff : vis m (i + 1) j ↔ vis m i j := by
      constructor
      · intro ⟨i', h1, h2, h3⟩
        by_cases e : i' = i
        · subst e; exact absurd h3.symm hj
        · exact ⟨i', h1, by omega, h3⟩
      · intro ⟨i', h1, h2, h3⟩
        exact ⟨i', h1, by omega, h3⟩
    rw [eX, eS, eS3, upd_other _ _ _ _ hj, upd_other _ _ _ _ hj, upd_other _ _ _ _ hj]
    exact ⟨fun hv => (h j).1 (hiff.1 hv), fun hn => (h j).2 (fun hv => hn (hiff.2 hv))⟩

/-- **the transforms and motion subspaces `calcMInvTimesTau` (with update) leaves** -/
theorem cmt_fields {m : ModelS α} (huo : L13.UOrderPerm m) (w : WS α) (st : QS α)
    (tau q0 : VecN α) (j : Nat) (j1 : 1 ≤ j) (j2 : j < m.nBodies) :
    (calcMInvTimesTau m w st tau q0 true).1.X_lambda j = jcalcX m j st (w.X_lambda j) ∧
    (calcMInvTimesTau m w st tau q0 true).1.S j = L13.xlsS m j st (w.S j) ∧
    (calcMInvTimesTau m w st tau q0 true).1.S3 j = L13.jcalcS3 m j st (w.S3 j) := by
  rw [calcMInvTimesTau_stages]
  have k3 : ∀ (s : WS α × VecN α),
      (forUp (m.nBodies - 1) 1 (fdB3 m) s).1.X_lambda = s.1.X_lambda ∧
      (forUp (m.nBodies - 1) 1 (fdB3 m) s).1.S = s.1.S ∧
      (forUp (m.nBodies - 1) 1 (fdB3 m) s).1.S3 = s.1.S3 := fun s =>
    ⟨forUp_keep (fun s : WS α × VecN α => s.1.X_lambda) (fdB3 m) _ _
        (fun i s _ _ => (abaAccel_frame m s.1 i s.2).1) s,
     forUp_keep (fun s : WS α × VecN α => s.1.S) (fdB3 m) _ _
        (fun i s _ _ => (abaAccel_frame m s.1 i s.2).2.1) s,
     forUp_keep (fun s : WS α × VecN α => s.1.S3) (fdB3 m) _ _
        (fun i s _ _ => (abaAccel_frame m s.1 i s.2).2.2) s⟩
  obtain ⟨a1, a2, a3⟩ := k3 (cmC4 m tau (cmC3 m (cmC2 m st w)), q0)
  obtain ⟨_, b1, b2, b3, _⟩ := cmC4_frame m tau (cmC3 m (cmC2 m st w))
  obtain ⟨_, _, c1, c2, c3⟩ := cmC3_frame m (cmC2 m st w)
  rw [a1, a2, a3]
  dsimp only
  rw [b1, b2, b3, c1, c2, c3]
  -- the second loop writes `pA` only
  unfold cmC2
  rw [forUp_keep (fun s : WS α => s.X_lambda) cmB2 _ _ (fun _ _ _ _ => rfl),
    forUp_keep (fun s : WS α => s.S) cmB2 _ _ (fun _ _ _ _ => rfl),
    forUp_keep (fun s : WS α => s.S3) cmB2 _ _ (fun _ _ _ _ => rfl)]
  have hinv := forUp_inv_idx (C1fields m st w) (cmB1 m st) (m.nBodies - 1) 1
    (fun i s h1 _ h => cmB1_inv m st w i s h1 h)
    { w with v := upd w.v 0 SV.zero, a := upd w.a 0 SV.zero }
    (fun j => ⟨fun ⟨i, h1, h2, _⟩ => by omega, fun _ => ⟨rfl, rfl, rfl⟩⟩)
  obtain ⟨i, i1, i2, hi⟩ := huo.2 j j1 j2
  exact (hinv j).1 ⟨i, i1, by omega, hi⟩

end
end Rbdl.LDynCap
