import RbdlProofs.Lemmas.L09FLoop
/-
  C09F, part 3: **the reduction**.  A loop constraint whose predecessor and / or successor is a fixed
  body writes the rows of the same constraint on the movable parents with the frames composed with the
  `parentTransform`s (`onParents`); a contact on a fixed body those of the contact at the transformed
  point of the movable parent (`onParentC`).  Jacobian and position error: no further hypothesis;
  velocity error of a contact and gamma: `X_base` of the movable parent must be a rotation (`OrthAt`).
-/
set_option linter.unusedSectionVars false
set_option linter.unusedSimpArgs false
namespace Rbdl.L09F
open Lean.Grind Rbdl Rbdl.L05 Rbdl.L09 Rbdl.L13CS Rbdl.Spec

section
variable {α : Type} [Field α] [DecidableEq α]

/-! ### loops -/

theorem loop_jacobian_red (c : Constr α) (hc : c.ctype = .loop) (m : ModelS α) (w : WS α) (st : QS α)
    (G : MatN α) (hP : IdF m c.bodyP) (hS : IdF m c.bodyS) :
    (c.jacobian m w st G false).2 = ((onParents m c).jacobian m w st G false).2 := by
  funext r col
  rw [L09.loop_jacobian_get (onParents m c) hc m w st G hP.par r col, jacobian_loop c hc, pj6_pair,
    pj6_pair]
  simp only [L05.updQ_false]
  rw [rowsL_get, loopFrame_res m w st c.bodyP c.XP hP]
  have eP : pj60 m w c.bodyP c.XP.r (fun _ _ => 0) = loopJp (onParents m c) m w st :=
    congrArg Prod.snd (pointJacobian6D_res m w st c.bodyP c.XP.r (fun _ _ => 0) hP)
  have eS : pj60 m w c.bodyS c.XS.r (fun _ _ => 0) = loopJs (onParents m c) m w st :=
    congrArg Prod.snd (pointJacobian6D_res m w st c.bodyS c.XS.r (fun _ _ => 0) hS)
  rw [eP, eS]
  rfl

theorem loop_positionError_red (c : Constr α) (hc : c.ctype = .loop) (m : ModelS α) (w : WS α)
    (st : QS α) (err : VecN α) (hP : IdF m c.bodyP) (hS : IdF m c.bodyS) :
    (c.positionError m w st err false).2 = ((onParents m c).positionError m w st err false).2 := by
  funext r
  rw [L09.loop_positionError_get (onParents m c) hc m w st err hP.par hS.par r,
    positionError_loop c hc]
  dsimp only
  have hx : (loopFrame m w st c.bodyP c.XP false).1.X_base = w.X_base := by
    rw [loopFrame_ws, wo_X_base]
  rw [rowsV_get, loopFrame_congr m st hx c.bodyS c.XS, loopFrame_res m w st c.bodyP c.XP hP,
    loopFrame_res m w st c.bodyS c.XS hS]
  rfl

theorem loop_velocityError_red (c : Constr α) (hc : c.ctype = .loop) (m : ModelS α) (w : WS α)
    (st : QS α) (qd : VecN α) (G : MatN α) (errd : VecN α) (update : Bool) :
    c.velocityError m w st qd G errd update = (onParents m c).velocityError m w st qd G errd update := by
  rw [velocityError_loop c hc, velocityError_loop (onParents m c) hc]
  rfl

theorem loop_gamma_red (c : Constr α) (hc : c.ctype = .loop) (m : ModelS α) (w : WS α) (st : QS α)
    (qd : VecN α) (gam : VecN α) (hP : IdF m c.bodyP) (hS : IdF m c.bodyS)
    (oP : OrthAt m w c.bodyP) (oS : OrthAt m w c.bodyS) :
    (c.gamma m w st qd gam).2 = ((onParents m c).gamma m w st qd gam).2 := by
  funext r
  rw [L09.loop_gamma_get (onParents m c) hc m w st qd gam hP.par hS.par r, gamma_loop c hc]
  dsimp only
  obtain ⟨eA, evp, evs, eap, eas⟩ := gammaL_res c m w st qd hP hS oP oS
  rw [rowsV_get, eA, evp, evs, eap, eas]
  rfl

/-- **a loop constraint on fixed bodies is the loop constraint on the movable parents with the frames
    composed with the parent transforms**, for the four per-constraint routines -/
theorem loop_on_fixed_eq_loop_on_parent (c : Constr α) (hc : c.ctype = .loop) (m : ModelS α)
    (w : WS α) (st : QS α) (qd : VecN α) (G : MatN α) (err errd gam : VecN α) (update : Bool)
    (hP : IdF m c.bodyP) (hS : IdF m c.bodyS) :
    (c.jacobian m w st G false).2 = ((onParents m c).jacobian m w st G false).2 ∧
    (c.positionError m w st err false).2 = ((onParents m c).positionError m w st err false).2 ∧
    c.velocityError m w st qd G errd update
      = (onParents m c).velocityError m w st qd G errd update ∧
    (OrthAt m w c.bodyP → OrthAt m w c.bodyS →
      (c.gamma m w st qd gam).2 = ((onParents m c).gamma m w st qd gam).2) :=
  ⟨loop_jacobian_red c hc m w st G hP hS, loop_positionError_red c hc m w st err hP hS,
    loop_velocityError_red c hc m w st qd G errd update,
    fun oP oS => loop_gamma_red c hc m w st qd gam hP hS oP oS⟩

/-- the workspaces: the constraint on the parents leaves the workspace as it is (Jacobian, position
    error) resp. sets `v[0] = a[0] = 0` (gamma); the constraint on the fixed bodies in addition writes
    `mBaseTransform` of the fixed bodies -/
theorem loop_ws (c : Constr α) (m : ModelS α) (w : WS α) (st : QS α) (qd : VecN α) (G : MatN α)
    (err gam : VecN α) :
    FbEq w (c.jacobian m w st G false).1 ∧ FbEq w (c.positionError m w st err false).1 ∧
    KEq w (c.gamma m w st qd gam).1 :=
  ⟨(jacobian_stepF c m w w st G (FbEq.rfl' w) 0 0).1,
    (positionError_stepF c m w w st err (FbEq.rfl' w) 0).1,
    (gamma_stepF c m w w st qd gam (KEq.rfl' w) 0).1⟩

/-! ### contacts -/

theorem contact_jacobian_red (c : Constr α) (hc : c.ctype = .contact) (m : ModelS α) (w : WS α)
    (st : QS α) (G : MatN α) (hP : IdF m c.bodyP) :
    c.jacobian m w st G false = (onParentC m c).jacobian m w st G false := by
  rw [jacobian_contact c hc, jacobian_contact (onParentC m c) hc,
    pointJacobian_res m w st c.bodyP c.XP.r _ hP]
  rfl

theorem contact_positionError_red (c : Constr α) (hc : c.ctype = .contact) (m : ModelS α) (w : WS α)
    (st : QS α) (err : VecN α) (hP : IdF m c.bodyP) :
    c.positionError m w st err false = (onParentC m c).positionError m w st err false := by
  rw [positionError_contact c hc, positionError_contact (onParentC m c) hc]
  simp only [L05.updQ_false]
  rw [bodyToBase0_res m w c.bodyP c.XP.r hP]
  rfl

theorem pointVelocity_res (m : ModelS α) (w : WS α) (st : QS α) (qd : VecN α) (id : Nat) (p : V3 α)
    (h : IdF m id) (ho : OrthAt m w id) :
    calcPointVelocity m w st qd id p false
      = calcPointVelocity m w st qd (resId m id) (resPoint m id p) false := by
  show ((calcPointVelocity6D m w st qd id p false).1, (calcPointVelocity6D m w st qd id p false).2.v)
    = ((calcPointVelocity6D m w st qd (resId m id) (resPoint m id p) false).1,
       (calcPointVelocity6D m w st qd (resId m id) (resPoint m id p) false).2.v)
  rw [pointVelocity6D_res m w st qd id p h ho, L09.pointVelocity6D_eq m w st qd _ _ h.par]

theorem pointAcceleration_res (m : ModelS α) (w : WS α) (st : QS α) (qd qdd : VecN α) (id : Nat)
    (p : V3 α) (h : IdF m id) (ho : OrthAt m w id) :
    calcPointAcceleration m w st qd qdd id p false
      = calcPointAcceleration m w st qd qdd (resId m id) (resPoint m id p) false := by
  show ((calcPointAcceleration6D m w st qd qdd id p false).1,
      (calcPointAcceleration6D m w st qd qdd id p false).2.v)
    = ((calcPointAcceleration6D m w st qd qdd (resId m id) (resPoint m id p) false).1,
       (calcPointAcceleration6D m w st qd qdd (resId m id) (resPoint m id p) false).2.v)
  rw [pointAcceleration6D_res m w st qd qdd id p h ho,
    L09.pointAcceleration6D_eq m w st qd qdd _ _ h.par]

theorem contact_velocityError_red (c : Constr α) (hc : c.ctype = .contact) (m : ModelS α) (w : WS α)
    (st : QS α) (qd : VecN α) (G : MatN α) (errd : VecN α) (hP : IdF m c.bodyP)
    (oP : OrthAt m w c.bodyP) :
    c.velocityError m w st qd G errd false = (onParentC m c).velocityError m w st qd G errd false := by
  rw [velocityError_contact c hc, velocityError_contact (onParentC m c) hc,
    pointVelocity_res m w st qd c.bodyP c.XP.r hP oP]
  rfl

theorem contact_gamma_red (c : Constr α) (hc : c.ctype = .contact) (m : ModelS α) (w : WS α)
    (st : QS α) (qd : VecN α) (gam : VecN α) (hP : IdF m c.bodyP) (oP : OrthAt m w c.bodyP) :
    c.gamma m w st qd gam = (onParentC m c).gamma m w st qd gam := by
  rw [gamma_contact c hc, gamma_contact (onParentC m c) hc,
    pointAcceleration_res m w st qd zeroVec c.bodyP c.XP.r hP oP]
  rfl

/-- **a contact on a fixed body is the contact at the transformed point of the movable parent**
    (whole results, workspace included) -/
theorem contact_on_fixed_eq_contact_on_parent (c : Constr α) (hc : c.ctype = .contact) (m : ModelS α)
    (w : WS α) (st : QS α) (qd : VecN α) (G : MatN α) (err errd gam : VecN α)
    (hP : IdF m c.bodyP) :
    c.jacobian m w st G false = (onParentC m c).jacobian m w st G false ∧
    c.positionError m w st err false = (onParentC m c).positionError m w st err false ∧
    (OrthAt m w c.bodyP →
      c.velocityError m w st qd G errd false = (onParentC m c).velocityError m w st qd G errd false ∧
      c.gamma m w st qd gam = (onParentC m c).gamma m w st qd gam) :=
  ⟨contact_jacobian_red c hc m w st G hP, contact_positionError_red c hc m w st err hP,
    fun oP => ⟨contact_velocityError_red c hc m w st qd G errd hP oP,
      contact_gamma_red c hc m w st qd gam hP oP⟩⟩

end
end Rbdl.L09F
