import RbdlProofs.Lemmas.AbaMain
/-
  C02, (T3): `calcMInvTimesTau` (update = true).  Its two backward loops (`IA` / `U`, `D` first,
  then `pA` / `u`) leave the same joint-space quantities as the single second loop of
  `forwardDynamics` started from the same workspace with `c = 0`; the rest is phases 2 and 3 of the
  tree theorem.
-/
namespace Rbdl.L02
open Lean.Grind Rbdl
set_option linter.unusedSectionVars false
set_option linter.unusedSimpArgs false

section
variable {α : Type} [Field α] [DecidableEq α]

/-! ### the loop bodies and stages -/

def cmB1 (m : ModelS α) (st : QS α) (i : Nat) (w : WS α) : WS α :=
  let w := jcalcXlambdaS m w (m.updateOrder.getD i 0) st
  { w with v_J := upd w.v_J i SV.zero, v := upd w.v i SV.zero, c := upd w.c i SV.zero,
           pA := upd w.pA i SV.zero, IA := upd w.IA i (m.rbi i).toMatrix }

def cmB2 (i : Nat) (w : WS α) : WS α := { w with pA := upd w.pA i SV.zero }

def cmB3 (m : ModelS α) (i : Nat) (w : WS α) : WS α :=
  let w := abaUD m w i
  let lam := m.lam i
  if lam ≠ 0 ∧ m.arity i ≠ .other then
    let Ia := abaIa m w i
    let X := w.X_lambda i
    { w with IA := upd w.IA lam (w.IA lam + X.toMatrixTranspose * Ia * X.toMatrix) }
  else w

def cmB4 (m : ModelS α) (tau : VecN α) (i : Nat) (w : WS α) : WS α :=
  let w := abaU m w i tau
  let lam := m.lam i
  if lam ≠ 0 ∧ m.arity i ≠ .other then
    let pa := w.pA i + abaUDu m w i
    { w with pA := upd w.pA lam (w.pA lam + (w.X_lambda i).applyTranspose pa) }
  else w

/-- workspace of `calcMInvTimesTau` before its backward loops -/
def cmC2 (m : ModelS α) (st : QS α) (w : WS α) : WS α :=
  forUp (m.nBodies - 1) 1 cmB2 (forUp (m.nBodies - 1) 1 (cmB1 m st)
    { w with v := upd w.v 0 SV.zero, a := upd w.a 0 SV.zero })

def cmC3 (m : ModelS α) (c2 : WS α) : WS α :=
  forDown (m.nBodies - 1) (m.nBodies - 1) (cmB3 m) c2

def cmC4 (m : ModelS α) (tau : VecN α) (c3 : WS α) : WS α :=
  forDown (m.nBodies - 1) (m.nBodies - 1) (cmB4 m tau) c3

theorem calcMInvTimesTau_stages (m : ModelS α) (w : WS α) (st : QS α) (tau q0 : VecN α) :
    calcMInvTimesTau m w st tau q0 true
      = forUp (m.nBodies - 1) 1 (fdB3 m) (cmC4 m tau (cmC3 m (cmC2 m st w)), q0) := rfl

/-! ### the workspace before the backward loops -/

theorem jcalcXlambdaS_frame (m : ModelS α) (w : WS α) (i : Nat) (st : QS α) :
    (jcalcXlambdaS m w i st).IA = w.IA ∧ (jcalcXlambdaS m w i st).c = w.c
      ∧ (jcalcXlambdaS m w i st).a = w.a := by
  unfold jcalcXlambdaS; dsimp only
  cases (m.joint i).jt <;> exact ⟨rfl, rfl, rfl⟩

/-- invariant of the first loop of `calcMInvTimesTau` -/
def C1inv (m : ModelS α) (i : Nat) (s : WS α) : Prop :=
  s.a 0 = SV.zero ∧ ∀ j, 1 ≤ j → j < i → s.IA j = (m.rbi j).toMatrix ∧ s.c j = SV.zero

/-- invariant of the second loop of `calcMInvTimesTau` -/
def C2inv (c1 : WS α) (i : Nat) (s : WS α) : Prop :=
  s.a = c1.a ∧ s.IA = c1.IA ∧ s.c = c1.c ∧ ∀ j, 1 ≤ j → j < i → s.pA j = SV.zero

theorem cmC2_facts (m : ModelS α) (st : QS α) (w : WS α) :
    (cmC2 m st w).a 0 = SV.zero ∧ ∀ j, 1 ≤ j → j < m.nBodies →
      (cmC2 m st w).IA j = (m.rbi j).toMatrix ∧ (cmC2 m st w).c j = SV.zero
        ∧ (cmC2 m st w).pA j = SV.zero := by
  have h1 : C1inv m (1 + (m.nBodies - 1)) (forUp (m.nBodies - 1) 1 (cmB1 m st)
        { w with v := upd w.v 0 SV.zero, a := upd w.a 0 SV.zero }) := by
    refine forUp_inv (C1inv m) (cmB1 m st) (m.nBodies - 1) 1 _ ?_ ?_
    · have h0 : upd w.a 0 (SV.zero : SV α) 0 = SV.zero := upd_same _ _ _
      exact ⟨h0, fun j a b => by omega⟩
    · intro i s hi1 hi2 h
      obtain ⟨f1, f2, f3⟩ := jcalcXlambdaS_frame m s (m.updateOrder.getD i 0) st
      refine ⟨?_, ?_⟩
      · show (jcalcXlambdaS m s (m.updateOrder.getD i 0) st).a 0 = _
        rw [f3]; exact h.1
      · intro j hj1 hj2
        show upd (jcalcXlambdaS m s (m.updateOrder.getD i 0) st).IA i _ j = _
          ∧ upd (jcalcXlambdaS m s (m.updateOrder.getD i 0) st).c i _ j = _
        rw [f1, f2]
        by_cases hji : j = i
        · rw [hji, upd_same, upd_same]; exact ⟨rfl, rfl⟩
        · rw [upd_other _ _ _ _ hji, upd_other _ _ _ _ hji]; exact h.2 j hj1 (by omega)
  unfold cmC2
  generalize forUp (m.nBodies - 1) 1 (cmB1 m st)
    { w with v := upd w.v 0 SV.zero, a := upd w.a 0 SV.zero } = c1 at h1 ⊢
  have h2 : C2inv c1 (1 + (m.nBodies - 1)) (forUp (m.nBodies - 1) 1 cmB2 c1) := by
    refine forUp_inv (C2inv c1) cmB2 (m.nBodies - 1) 1 c1 ?_ ?_
    · exact ⟨rfl, rfl, rfl, fun j a b => by omega⟩
    · intro i s hi1 hi2 h
      refine ⟨h.1, h.2.1, h.2.2.1, ?_⟩
      intro j hj1 hj2
      show upd s.pA i _ j = _
      by_cases hji : j = i
      · rw [hji, upd_same]
      · rw [upd_other _ _ _ _ hji]; exact h.2.2.2 j hj1 (by omega)
  obtain ⟨g1, g2, g3, g4⟩ := h2
  refine ⟨by rw [g1]; exact h1.1, ?_⟩
  intro j hj1 hj2
  rw [g2, g3]
  exact ⟨(h1.2 j hj1 (by omega)).1, (h1.2 j hj1 (by omega)).2, g4 j hj1 (by omega)⟩

/-! ### the split backward loops, field by field -/

theorem abaUD_frame (m : ModelS α) (s : WS α) (i : Nat) :
    (abaUD m s i).IA = s.IA ∧ (abaUD m s i).pA = s.pA ∧ (abaUD m s i).c = s.c
      ∧ (abaUD m s i).X_lambda = s.X_lambda ∧ (abaUD m s i).S = s.S ∧ (abaUD m s i).S3 = s.S3
      ∧ (abaUD m s i).u = s.u ∧ (abaUD m s i).u3 = s.u3 := by
  unfold abaUD
  cases m.arity i <;> exact ⟨rfl, rfl, rfl, rfl, rfl, rfl, rfl, rfl⟩

theorem abaU_frame (m : ModelS α) (s : WS α) (i : Nat) (tau : VecN α) :
    (abaU m s i tau).IA = s.IA ∧ (abaU m s i tau).pA = s.pA ∧ (abaU m s i tau).c = s.c
      ∧ (abaU m s i tau).X_lambda = s.X_lambda ∧ (abaU m s i tau).S = s.S
      ∧ (abaU m s i tau).S3 = s.S3 ∧ (abaU m s i tau).U = s.U ∧ (abaU m s i tau).d = s.d
      ∧ (abaU m s i tau).U3 = s.U3 ∧ (abaU m s i tau).Dinv3 = s.Dinv3 := by
  unfold abaU
  cases m.arity i <;> exact ⟨rfl, rfl, rfl, rfl, rfl, rfl, rfl, rfl, rfl, rfl⟩

/-- `U`, `d` / `U`, `D⁻¹` of body `i` -/
def viewUD (w : WS α) (i : Nat) : SV α × α × M63 α × M3 α := (w.U i, w.d i, w.U3 i, w.Dinv3 i)
/-- `u` of body `i` -/
def viewu (w : WS α) (i : Nat) : α × V3 α := (w.u i, w.u3 i)

theorem cmB3_eq (m : ModelS α) (i : Nat) (s : WS α) :
    cmB3 m i s =
      if m.lam i ≠ 0 ∧ m.arity i ≠ .other then
        { abaUD m s i with
          IA := upd (abaUD m s i).IA (m.lam i) ((abaUD m s i).IA (m.lam i)
            + ((abaUD m s i).X_lambda i).toMatrixTranspose * abaIa m (abaUD m s i) i
              * ((abaUD m s i).X_lambda i).toMatrix) }
      else abaUD m s i := rfl

theorem cmB3_IA (m : ModelS α) (i : Nat) (s : WS α) :
    (cmB3 m i s).IA =
      if m.lam i ≠ 0 ∧ m.arity i ≠ .other then
        upd s.IA (m.lam i) (s.IA (m.lam i)
          + (s.X_lambda i).toMatrixTranspose * abaIa m (abaUD m s i) i * (s.X_lambda i).toMatrix)
      else s.IA := by
  obtain ⟨h1, _, _, h4, _⟩ := abaUD_frame m s i
  rw [cmB3_eq]; split
  · show upd (abaUD m s i).IA _ _ = _
    rw [h1, h4]
  · exact h1

theorem cmB3_frame (m : ModelS α) (i : Nat) (s : WS α) :
    (cmB3 m i s).pA = s.pA ∧ (cmB3 m i s).c = s.c ∧ (cmB3 m i s).X_lambda = s.X_lambda
      ∧ (cmB3 m i s).S = s.S ∧ (cmB3 m i s).S3 = s.S3 ∧ (cmB3 m i s).u = s.u
      ∧ (cmB3 m i s).u3 = s.u3 := by
  obtain ⟨_, h2, h3, h4, h5, h6, h7, h8⟩ := abaUD_frame m s i
  rw [cmB3_eq]; split <;> exact ⟨h2, h3, h4, h5, h6, h7, h8⟩

theorem cmB3_viewUD (m : ModelS α) (i : Nat) (s : WS α) (j : Nat) :
    viewUD (cmB3 m i s) j = viewUD (abaUD m s i) j := by
  rw [cmB3_eq]; split <;> rfl

theorem abaUD_viewUD_other (m : ModelS α) (i : Nat) (s : WS α) (j : Nat) (hne : j ≠ i) :
    viewUD (abaUD m s i) j = viewUD s j := by
  unfold abaUD viewUD
  cases m.arity i <;> simp only [upd_other _ _ _ _ hne]

theorem cmB3_viewUD_other (m : ModelS α) (i : Nat) (s : WS α) (j : Nat) (hne : j ≠ i) :
    viewUD (cmB3 m i s) j = viewUD s j := by
  rw [cmB3_viewUD, abaUD_viewUD_other m i s j hne]

theorem cmB4_eq (m : ModelS α) (tau : VecN α) (i : Nat) (s : WS α) :
    cmB4 m tau i s =
      if m.lam i ≠ 0 ∧ m.arity i ≠ .other then
        { abaU m s i tau with
          pA := upd (abaU m s i tau).pA (m.lam i) ((abaU m s i tau).pA (m.lam i)
            + ((abaU m s i tau).X_lambda i).applyTranspose
                ((abaU m s i tau).pA i + abaUDu m (abaU m s i tau) i)) }
      else abaU m s i tau := rfl

theorem cmB4_pA (m : ModelS α) (tau : VecN α) (i : Nat) (s : WS α) :
    (cmB4 m tau i s).pA =
      if m.lam i ≠ 0 ∧ m.arity i ≠ .other then
        upd s.pA (m.lam i) (s.pA (m.lam i)
          + (s.X_lambda i).applyTranspose (s.pA i + abaUDu m (abaU m s i tau) i))
      else s.pA := by
  obtain ⟨_, h2, _, h4, _⟩ := abaU_frame m s i tau
  rw [cmB4_eq]; split
  · show upd (abaU m s i tau).pA _ _ = _
    rw [h2, h4]
  · exact h2

theorem cmB4_frame (m : ModelS α) (tau : VecN α) (i : Nat) (s : WS α) :
    (cmB4 m tau i s).IA = s.IA ∧ (cmB4 m tau i s).c = s.c
      ∧ (cmB4 m tau i s).X_lambda = s.X_lambda ∧ (cmB4 m tau i s).S = s.S
      ∧ (cmB4 m tau i s).S3 = s.S3 ∧ (cmB4 m tau i s).U = s.U ∧ (cmB4 m tau i s).d = s.d
      ∧ (cmB4 m tau i s).U3 = s.U3 ∧ (cmB4 m tau i s).Dinv3 = s.Dinv3 := by
  obtain ⟨h1, _, h3, h4, h5, h6, h7, h8, h9, h10⟩ := abaU_frame m s i tau
  rw [cmB4_eq]; split <;> exact ⟨h1, h3, h4, h5, h6, h7, h8, h9, h10⟩

theorem cmB4_viewu (m : ModelS α) (tau : VecN α) (i : Nat) (s : WS α) (j : Nat) :
    viewu (cmB4 m tau i s) j = viewu (abaU m s i tau) j := by
  rw [cmB4_eq]; split <;> rfl

theorem cmB4_viewu_other (m : ModelS α) (tau : VecN α) (i : Nat) (s : WS α) (j : Nat)
    (hne : j ≠ i) : viewu (cmB4 m tau i s) j = viewu s j := by
  rw [cmB4_viewu]
  unfold abaU viewu
  cases m.arity i <;> simp only [upd_other _ _ _ _ hne]

/-! ### split = fused, locally -/

/-- `Ia` of the split loop equals `Ia` of the fused loop when `IA[i]`, `S_i` agree -/
theorem Ia_split_eq (m : ModelS α) (tau : VecN α) (i : Nat) (s s3 : WS α)
    (har : m.arity i = .one ∨ m.arity i = .three) (hIA : s3.IA i = s.IA i)
    (hS : s3.S i = s.S i) (hS3 : s3.S3 i = s.S3 i) :
    abaIa m (abaUD m s3 i) i = IaOf m s tau i := by
  rcases har with h | h
  · unfold IaOf
    rw [sU_one m s i tau h]
    simp only [abaIa, abaUD, h, upd_same, hIA, hS]
  · unfold IaOf
    rw [sU_three m s i tau h]
    simp only [abaIa, abaUD, h, upd_same, hIA, hS3]

/-- `pa` of the split loop equals `pa` of the fused loop when `c[i] = 0` -/
theorem pa_split_eq (m : ModelS α) (tau : VecN α) (i : Nat) (s s3 s4 : WS α)
    (har : m.arity i = .one ∨ m.arity i = .three) (hIA : s3.IA i = s.IA i)
    (hS3' : s3.S i = s.S i ∧ s3.S3 i = s.S3 i) (hS4 : s4.S i = s.S i ∧ s4.S3 i = s.S3 i)
    (hpA : s4.pA i = s.pA i) (hc : s.c i = SV.zero)
    (hUD : viewUD s4 i = viewUD (abaUD m s3 i) i) :
    s4.pA i + abaUDu m (abaU m s4 i tau) i = paOf m s tau i := by
  simp only [viewUD, Prod.mk.injEq] at hUD
  obtain ⟨hU, hd, hU3, hDinv⟩ := hUD
  rcases har with h | h
  · simp only [abaUD, h, upd_same] at hU hd
    unfold paOf
    rw [sU_one m s i tau h]
    simp only [abaIa, abaUDu, abaU, h, upd_same, hU, hd, hpA, hS4.1, hIA, hS3'.1, hc]
    rw [sm_mulVec_zero, sv_add_zero]
  · simp only [abaUD, h, upd_same] at hU3 hDinv
    unfold paOf
    rw [sU_three m s i tau h]
    simp only [abaIa, abaUDu, abaU, h, upd_same, hU3, hDinv, hpA, hS4.2, hIA, hS3'.2, hc]
    rw [sm_mulVec_zero, sv_add_zero]

/-- the joint-space quantities the third loop reads, compared between two workspaces -/
def jointSame (m : ModelS α) (w w' : WS α) (i : Nat) : Prop :=
  (∀ x, accelOf m w i x = accelOf m w' i x) ∧ (pivotOk m w i ↔ pivotOk m w' i)

theorem jointSame_of (m : ModelS α) (w w' : WS α) (i : Nat)
    (har : m.arity i = .one ∨ m.arity i = .three)
    (h1 : m.arity i = .one → w.U i = w'.U i ∧ w.d i = w'.d i ∧ w.u i = w'.u i ∧ w.S i = w'.S i)
    (h3 : m.arity i = .three → w.U3 i = w'.U3 i ∧ w.Dinv3 i = w'.Dinv3 i ∧ w.u3 i = w'.u3 i
      ∧ w.S3 i = w'.S3 i) : jointSame m w w' i := by
  rcases har with h | h
  · obtain ⟨e1, e2, e3, e4⟩ := h1 h
    refine ⟨fun x => ?_, ?_⟩
    · simp only [accelOf, h, e1, e2, e3, e4]
    · simp only [pivotOk, h, e2]
  · obtain ⟨e1, e2, e3, e4⟩ := h3 h
    refine ⟨fun x => ?_, ?_⟩
    · simp only [accelOf, h, e1, e2, e3, e4]
    · simp only [pivotOk, h, e1, e4]

/-! ### split = fused, for the loops -/

/-- lockstep of the two split loops (`s3`, `s4`) with the fused loop (`sf`), all after `k`
    iterations; `c2` = common start, `c3` = result of the first split loop -/
structure J3 (c2 c3 : WS α) (s3 s4 sf : WS α) : Prop where
  ia : sf.IA = s3.IA
  pa : sf.pA = s4.pA
  fr3 : s3.c = c2.c ∧ s3.X_lambda = c2.X_lambda ∧ s3.S = c2.S ∧ s3.S3 = c2.S3 ∧ s3.pA = c2.pA
  fr4 : s4.c = c2.c ∧ s4.X_lambda = c2.X_lambda ∧ s4.S = c2.S ∧ s4.S3 = c2.S3
  frf : sf.c = c2.c ∧ sf.X_lambda = c2.X_lambda ∧ sf.S = c2.S ∧ sf.S3 = c2.S3
  ud4 : s4.U = c3.U ∧ s4.d = c3.d ∧ s4.U3 = c3.U3 ∧ s4.Dinv3 = c3.Dinv3

theorem cmC3_frame (m : ModelS α) (c2 : WS α) :
    (cmC3 m c2).pA = c2.pA ∧ (cmC3 m c2).c = c2.c ∧ (cmC3 m c2).X_lambda = c2.X_lambda
      ∧ (cmC3 m c2).S = c2.S ∧ (cmC3 m c2).S3 = c2.S3 :=
  ⟨forDown_frame (fun s => s.pA) (cmB3 m) (fun i s => (cmB3_frame m i s).1) _ _ _,
   forDown_frame (fun s => s.c) (cmB3 m) (fun i s => (cmB3_frame m i s).2.1) _ _ _,
   forDown_frame (fun s => s.X_lambda) (cmB3 m) (fun i s => (cmB3_frame m i s).2.2.1) _ _ _,
   forDown_frame (fun s => s.S) (cmB3 m) (fun i s => (cmB3_frame m i s).2.2.2.1) _ _ _,
   forDown_frame (fun s => s.S3) (cmB3 m) (fun i s => (cmB3_frame m i s).2.2.2.2.1) _ _ _⟩

/-- the split loops and the fused loop in lockstep; the second component gives, for the body
    processed in iteration `k`, the data from which the stored joint-space quantities follow -/
theorem split_lockstep (m : ModelS α) (tau : VecN α) (c2 : WS α)
    (hars : ∀ j, 1 ≤ j → j < m.nBodies → m.arity j = .one ∨ m.arity j = .three)
    (hc : ∀ j, 1 ≤ j → j < m.nBodies → c2.c j = SV.zero) :
    ∀ k, k ≤ m.nBodies - 1 →
      J3 c2 (cmC3 m c2) (forDown k (m.nBodies - 1) (cmB3 m) c2)
        (forDown k (m.nBodies - 1) (cmB4 m tau) (cmC3 m c2))
        (forDown k (m.nBodies - 1) (fdB2 m tau) c2) := by
  obtain ⟨p3, c3c, c3X, c3S, c3S3⟩ := cmC3_frame m c2
  intro k
  induction k with
  | zero =>
    intro _
    exact ⟨rfl, p3.symm, ⟨rfl, rfl, rfl, rfl, rfl⟩, ⟨c3c, c3X, c3S, c3S3⟩, ⟨rfl, rfl, rfl, rfl⟩,
      ⟨rfl, rfl, rfl, rfl⟩⟩
  | succ k ih =>
    intro hk
    have h := ih (by omega)
    have hfrozen : viewUD (cmC3 m c2) (m.nBodies - 1 - k)
        = viewUD (cmB3 m (m.nBodies - 1 - k) (forDown k (m.nBodies - 1) (cmB3 m) c2))
            (m.nBodies - 1 - k) :=
      forDown_get_frozen (fun s => viewUD s) (cmB3 m) (cmB3_viewUD_other m)
        (m.nBodies - 1) (m.nBodies - 1) k c2 (by omega) (Nat.le_refl _)
    rw [forDown_succ_right, forDown_succ_right, forDown_succ_right]
    generalize forDown k (m.nBodies - 1) (cmB3 m) c2 = s3 at h hfrozen ⊢
    generalize forDown k (m.nBodies - 1) (cmB4 m tau) (cmC3 m c2) = s4 at h ⊢
    generalize forDown k (m.nBodies - 1) (fdB2 m tau) c2 = sf at h ⊢
    generalize hi : m.nBodies - 1 - k = i at hfrozen ⊢
    have hi1 : 1 ≤ i := by omega
    have hi2 : i < m.nBodies := by omega
    have har := hars i hi1 hi2
    obtain ⟨a1, a2, a3, a4, a5⟩ := h.fr3
    obtain ⟨b1, b2, b3, b4⟩ := h.fr4
    obtain ⟨f1, f2, f3, f4⟩ := h.frf
    obtain ⟨u1, u2, u3, u4⟩ := h.ud4
    obtain ⟨g1, g2, g3, g4, g5, g6, g7⟩ := cmB3_frame m i s3
    obtain ⟨k1, k2, k3, k4, k5, k6, k7, k8, k9⟩ := cmB4_frame m tau i s4
    obtain ⟨e1, e2, e3, e4⟩ := fdB2_frame m tau i sf
    have hIA : s3.IA i = sf.IA i := by rw [h.ia]
    have hS : s3.S i = sf.S i := by rw [a3, f3]
    have hS3 : s3.S3 i = sf.S3 i := by rw [a4, f4]
    have hUD : viewUD s4 i = viewUD (abaUD m s3 i) i := by
      rw [← cmB3_viewUD, ← hfrozen]
      show (s4.U i, s4.d i, s4.U3 i, s4.Dinv3 i) = _
      rw [u1, u2, u3, u4]; rfl
    constructor
    · -- ia
      rw [fdB2_IA, cmB3_IA, h.ia, f2, a2, Ia_split_eq m tau i sf s3 har hIA hS hS3]
    · -- pa
      rw [fdB2_pA, cmB4_pA, h.pa, f2, b2,
        pa_split_eq m tau i sf s3 s4 har hIA ⟨hS, hS3⟩ ⟨by rw [b3, f3], by rw [b4, f4]⟩
          (by rw [h.pa]) (by rw [f1]; exact hc i hi1 hi2) hUD]
    · exact ⟨g2.trans a1, g3.trans a2, g4.trans a3, g5.trans a4, g1.trans a5⟩
    · exact ⟨k2.trans b1, k3.trans b2, k4.trans b3, k5.trans b4⟩
    · exact ⟨e1.trans f1, e2.trans f2, e3.trans f3, e4.trans f4⟩
    · exact ⟨k6.trans u1, k7.trans u2, k8.trans u3, k9.trans u4⟩

theorem cmB3_a (m : ModelS α) (i : Nat) (s : WS α) : (cmB3 m i s).a = s.a := by
  have : (abaUD m s i).a = s.a := by unfold abaUD; cases m.arity i <;> rfl
  rw [cmB3_eq]; split <;> exact this

theorem cmB4_a (m : ModelS α) (tau : VecN α) (i : Nat) (s : WS α) : (cmB4 m tau i s).a = s.a := by
  have : (abaU m s i tau).a = s.a := by unfold abaU; cases m.arity i <;> rfl
  rw [cmB4_eq]; split <;> exact this

theorem cmC4_frame (m : ModelS α) (tau : VecN α) (c3 : WS α) :
    (cmC4 m tau c3).c = c3.c ∧ (cmC4 m tau c3).X_lambda = c3.X_lambda ∧ (cmC4 m tau c3).S = c3.S
      ∧ (cmC4 m tau c3).S3 = c3.S3 ∧ (cmC4 m tau c3).U = c3.U ∧ (cmC4 m tau c3).d = c3.d
      ∧ (cmC4 m tau c3).U3 = c3.U3 ∧ (cmC4 m tau c3).Dinv3 = c3.Dinv3
      ∧ (cmC4 m tau c3).a = c3.a :=
  ⟨forDown_frame (fun s => s.c) (cmB4 m tau) (fun i s => (cmB4_frame m tau i s).2.1) _ _ _,
   forDown_frame (fun s => s.X_lambda) (cmB4 m tau)
     (fun i s => (cmB4_frame m tau i s).2.2.1) _ _ _,
   forDown_frame (fun s => s.S) (cmB4 m tau) (fun i s => (cmB4_frame m tau i s).2.2.2.1) _ _ _,
   forDown_frame (fun s => s.S3) (cmB4 m tau)
     (fun i s => (cmB4_frame m tau i s).2.2.2.2.1) _ _ _,
   forDown_frame (fun s => s.U) (cmB4 m tau)
     (fun i s => (cmB4_frame m tau i s).2.2.2.2.2.1) _ _ _,
   forDown_frame (fun s => s.d) (cmB4 m tau)
     (fun i s => (cmB4_frame m tau i s).2.2.2.2.2.2.1) _ _ _,
   forDown_frame (fun s => s.U3) (cmB4 m tau)
     (fun i s => (cmB4_frame m tau i s).2.2.2.2.2.2.2.1) _ _ _,
   forDown_frame (fun s => s.Dinv3) (cmB4 m tau)
     (fun i s => (cmB4_frame m tau i s).2.2.2.2.2.2.2.2) _ _ _,
   forDown_frame (fun s => s.a) (cmB4 m tau) (fun i s => cmB4_a m tau i s) _ _ _⟩

theorem cmC3_a (m : ModelS α) (c2 : WS α) : (cmC3 m c2).a = c2.a :=
  forDown_frame (fun s => s.a) (cmB3 m) (fun i s => cmB3_a m i s) _ _ _

/-- the split backward loops of `calcMInvTimesTau` leave, for every body, the same joint-space
    quantities as the fused second loop of `forwardDynamics` (when `c = 0`) -/
theorem split_jointSame (m : ModelS α) (tau : VecN α) (c2 : WS α)
    (hars : ∀ j, 1 ≤ j → j < m.nBodies → m.arity j = .one ∨ m.arity j = .three)
    (hc : ∀ j, 1 ≤ j → j < m.nBodies → c2.c j = SV.zero)
    (i : Nat) (hi1 : 1 ≤ i) (hi2 : i < m.nBodies) :
    jointSame m (cmC4 m tau (cmC3 m c2)) (fdWB m tau c2) i := by
  have hk : m.nBodies - 1 - i < m.nBodies - 1 := by omega
  have hki : m.nBodies - 1 - (m.nBodies - 1 - i) = i := by omega
  have h := split_lockstep m tau c2 hars hc (m.nBodies - 1 - i) (by omega)
  have fz3 := forDown_get_frozen (fun s => viewUD s) (cmB3 m) (cmB3_viewUD_other m)
    (m.nBodies - 1) (m.nBodies - 1) (m.nBodies - 1 - i) c2 hk (Nat.le_refl _)
  have fz4 := forDown_get_frozen (fun s => viewu s) (cmB4 m tau) (cmB4_viewu_other m tau)
    (m.nBodies - 1) (m.nBodies - 1) (m.nBodies - 1 - i) (cmC3 m c2) hk (Nat.le_refl _)
  have fzf := forDown_get_frozen (fun s => stored s) (fdB2 m tau) (fdB2_stored_other m tau)
    (m.nBodies - 1) (m.nBodies - 1) (m.nBodies - 1 - i) c2 hk (Nat.le_refl _)
  rw [hki] at fz3 fz4 fzf
  generalize forDown (m.nBodies - 1 - i) (m.nBodies - 1) (cmB3 m) c2 = s3 at h fz3
  generalize forDown (m.nBodies - 1 - i) (m.nBodies - 1) (cmB4 m tau) (cmC3 m c2) = s4 at h fz4
  generalize forDown (m.nBodies - 1 - i) (m.nBodies - 1) (fdB2 m tau) c2 = sf at h fzf
  have fz3' : viewUD (cmC3 m c2) i = viewUD (abaUD m s3 i) i := by
    rw [← cmB3_viewUD]; exact fz3
  have fz4' : viewu (cmC4 m tau (cmC3 m c2)) i = viewu (abaU m s4 i tau) i := by
    rw [← cmB4_viewu]; exact fz4
  have fzf' : stored (fdWB m tau c2) i = stored (sU m sf i tau) i := by
    rw [← fdB2_stored]; exact fzf
  obtain ⟨_, _, q3, q4, q5, q6, q7, q8, _⟩ := cmC4_frame m tau (cmC3 m c2)
  obtain ⟨_, _, _, r3, r4⟩ := cmC3_frame m c2
  obtain ⟨_, _, w3, w4⟩ := fdWB_frame m tau c2
  obtain ⟨a1, a2, a3, a4, a5⟩ := h.fr3
  obtain ⟨b1, b2, b3, b4⟩ := h.fr4
  obtain ⟨f1, f2, f3, f4⟩ := h.frf
  simp only [viewUD, viewu, stored, Prod.mk.injEq] at fz3' fz4' fzf'
  obtain ⟨z1, z2, z3, z4⟩ := fz3'
  obtain ⟨y1, y2⟩ := fz4'
  obtain ⟨x1, x2, x3, x4, x5, x6⟩ := fzf'
  apply jointSame_of m _ _ i (hars i hi1 hi2)
  · intro h1
    rw [sU_one m sf i tau h1] at x1 x2 x3
    simp only [upd_same] at x1 x2 x3
    simp only [abaUD, h1, upd_same] at z1 z2
    simp only [abaU, h1, upd_same] at y1
    refine ⟨?_, ?_, ?_, ?_⟩
    · rw [q5, z1, x1, h.ia, a3, f3]
    · rw [q6, z2, x2, h.ia, a3, f3]
    · rw [y1, x3, h.pa, b3, f3]
    · rw [q3, r3, w3]
  · intro h3
    rw [sU_three m sf i tau h3] at x4 x5 x6
    simp only [upd_same] at x4 x5 x6
    simp only [abaUD, h3, upd_same] at z3 z4
    simp only [abaU, h3, upd_same] at y2
    refine ⟨?_, ?_, ?_, ?_⟩
    · rw [q7, z3, x4, h.ia, a4, f4]
    · rw [q8, z4, x5, h.ia, a4, f4]
    · rw [y2, x6, h.pa, b4, f4]
    · rw [q4, r4, w4]

theorem rneaBackward_eq (m : ModelS α) (w : WS α) (t0 : VecN α) :
    rneaBackward m w t0 = forDown (m.nBodies - 1) (m.nBodies - 1) (idBB m) (w, t0) := rfl

/-- **(T3), joint by joint**: the accelerations returned by `calcMInvTimesTau` (update = true)
    are kinematically consistent with the returned `qdd` at zero velocity and zero gravity, and the
    backward pass of RNEA applied to the forces `I_i a_i` reproduces `tau`. -/
theorem cmt_inverts_joint (m : ModelS α) (w : WS α) (st : QS α) (tau q0 t0 : VecN α)
    (htree : ∀ j, 1 ≤ j → j < m.nBodies → m.lam j < j)
    (hars : ∀ j, 1 ≤ j → j < m.nBodies → m.arity j = .one ∨ m.arity j = .three)
    (hqidx : ∀ i j, 1 ≤ i → i < j → j < m.nBodies →
      (m.joint i).qIndex + (m.joint i).dof ≤ (m.joint j).qIndex)
    (hpiv : ∀ i, 1 ≤ i → i < m.nBodies →
      pivotOk m (calcMInvTimesTau m w st tau q0 true).1 i) :
    ((calcMInvTimesTau m w st tau q0 true).1.a 0 = SV.zero ∧
      ∀ i, 1 ≤ i → i < m.nBodies →
        (calcMInvTimesTau m w st tau q0 true).1.a i
          = ((calcMInvTimesTau m w st tau q0 true).1.X_lambda i).apply
              ((calcMInvTimesTau m w st tau q0 true).1.a (m.lam i))
            + (calcMInvTimesTau m w st tau q0 true).1.Sqdd m i
                (calcMInvTimesTau m w st tau q0 true).2) ∧
    ∀ i, 1 ≤ i → i < m.nBodies → ∀ t, t < (m.joint i).dof →
      (rneaBackward m { (calcMInvTimesTau m w st tau q0 true).1 with
          f := fun j => (m.rbi j).toMatrix * (calcMInvTimesTau m w st tau q0 true).1.a j } t0).2
        ((m.joint i).qIndex + t) = tau ((m.joint i).qIndex + t) := by
  rw [calcMInvTimesTau_stages] at hpiv ⊢
  obtain ⟨ha0, hC2⟩ := cmC2_facts m st w
  generalize cmC2 m st w = c2 at hpiv ha0 hC2 ⊢
  have hjs := split_jointSame m tau c2 hars (fun j a b => (hC2 j a b).2.1)
  obtain ⟨_, r1c, r2, r3, r4⟩ := cmC3_frame m c2
  have r5 := cmC3_a m c2
  obtain ⟨q1, q2, q3, q4, _, _, _, _, q9⟩ := cmC4_frame m tau (cmC3 m c2)
  generalize cmC4 m tau (cmC3 m c2) = c4 at hpiv hjs q1 q2 q3 q4 q9 ⊢
  have h3 := phase3_gen m c4 q0 htree hars hqidx
  generalize forUp (m.nBodies - 1) 1 (fdB3 m) (c4, q0) = sq at hpiv h3 ⊢
  obtain ⟨gX, gc, gS, gS3, gst⟩ := sameButA_fields h3.same
  have hnc : ∀ j, 1 ≤ j → j < m.nBodies → m.arity j ≠ .custom := by
    intro j hj1 hj2
    rcases hars j hj1 hj2 with h | h <;> rw [h] <;> decide
  have hc4 : ∀ j, 1 ≤ j → j < m.nBodies → c4.c j = SV.zero := by
    intro j hj1 hj2
    rw [q1, (cmC3_frame m c2).2.1]; exact (hC2 j hj1 hj2).2.1
  have hacq : ∀ i, 1 ≤ i → i < m.nBodies →
      sq.1.a i = (sq.1.X_lambda i).apply (sq.1.a (m.lam i)) + sq.1.Sqdd m i sq.2 := by
    intro i hi1 hi2
    have := h3.acq i hi1 (by omega)
    rw [hc4 i hi1 hi2, sv_add_zero] at this
    rw [gX, Sqdd_congr m sq.1 c4 i sq.2 (by rw [gS]) (by rw [gS3]) (hnc i hi1 hi2)]
    exact this
  refine ⟨⟨?_, hacq⟩, ?_⟩
  · rw [h3.a0, q9, r5]; exact ha0
  · intro i hi1 hi2 t ht
    rw [rneaBackward_eq]
    have hfw : forDown (m.nBodies - 1) (m.nBodies - 1) (fdB2 m tau) c2 = fdWB m tau c2 := rfl
    have h2 := phase2 m tau t0 c2
      { sq.1 with f := fun j => (m.rbi j).toMatrix * sq.1.a j } sq.1.a htree hars hqidx
      (fun j a b => by show sq.1.X_lambda j = _; rw [gX, q2, r2])
      (fun j a b => by show sq.1.S j = _; rw [gS, q3, r3])
      (fun j a b => by show sq.1.S3 j = _; rw [gS3, q4, r4])
      (fun j a b => by
        show (m.rbi j).toMatrix * sq.1.a j = _
        rw [(hC2 j a b).1, (hC2 j a b).2.2, sv_add_zero])
      (fun j a b => by rw [(hC2 j a b).1]; exact symSM_rbi _)
      (fun j a b => by
        rw [hfw]
        have e := h3.acc j a (by omega)
        rw [q2, r2, q1, r1c, (hjs j a b).1] at e
        exact e)
      (fun j a b => by
        rw [hfw]
        exact (hjs j a b).2.mp
          ((pivotOk_congr m sq.1 c4 j (gst j) (by rw [gS3])).mp (hpiv j a b)))
      (m.nBodies - 1) (Nat.le_refl _)
    exact h2.tau_ok i (by omega) hi2 t ht

end
end Rbdl.L02
