import Rbdl.LuaLoad
import RbdlProofs.Props.C14
/-
  L19 — lemmas for C19 (Lua loader = construction calls): the loop over the frames against the
  counting translator `frameCalls`, the invariant of the loop (well-formed model, valid ids in the
  name map, recorded names), history freedom.
-/
namespace Rbdl.L19
open Lean.Grind Rbdl Rbdl.ModelS Rbdl.LuaLoad

section
variable {α : Type} [Field α] [DecidableEq α]

/-! ### what one successful `AddBody` does to the counters -/

/-- the counters of the translator agree with the model, the name maps coincide -/
structure Agree (s : LState α) (t : TState) : Prop where
  nb : s.m.bodies.length = t.nb
  nf : s.m.fixedBodies.length = t.nf
  map : s.map = t.map

omit [Field α] [DecidableEq α] in
theorem fixed_beq (j : Joint α) : (j.jt == JT.fixed) = true ↔ j.jt = .fixed := by
  cases j.jt <;> simp

/-- a successful `addBody` returns the id the translator predicts and moves the counters as
    `TState.after` does -/
theorem addBody_ok_counts (m m' : ModelS α) (p : Nat) (X : XT α) (j : Joint α) (b : Body α)
    (n : String) (id : Nat) (h : m.addBody p X j b n = (m', .ok id)) :
    (j.jt = .fixed → id = fixedDisc + m.fixedBodies.length ∧
        m'.bodies.length = m.bodies.length ∧ m'.fixedBodies.length = m.fixedBodies.length + 1) ∧
    (j.jt ≠ .fixed → id = m.bodies.length + j.newBodies - 1 ∧ 1 ≤ j.newBodies ∧
        m'.bodies.length = m.bodies.length + j.newBodies ∧
        m'.fixedBodies.length = m.fixedBodies.length) := by
  have ho := addBody_outcome m p X j b n
  rw [h] at ho
  cases ho with
  | movable _ hd hfx hk ha =>
    have hne : j.jt ≠ .fixed := by
      intro hf; rw [(fixed_beq j).mpr hf] at hfx; cases hfx
    refine ⟨fun hf => absurd hf hne, fun _ => ⟨rfl, hk, ha.nb, ?_⟩⟩
    rw [ha.fixed]
  | fixed _ hd hfx ha =>
    have hf : j.jt = .fixed := (fixed_beq j).mp hfx
    obtain ⟨fb, hfb⟩ := ha.fixed
    refine ⟨fun _ => ⟨by omega, ha.nb, ?_⟩, fun hne => absurd hf hne⟩
    rw [hfb]; simp

theorem agree_after (s : LState α) (t : TState) (hA : Agree s t) (m' : ModelS α) (p : Nat)
    (X : XT α) (j : Joint α) (b : Body α) (n : String) (id : Nat)
    (h : s.m.addBody p X j b n = (m', .ok id)) :
    id = t.idFor j ∧ Agree ⟨m', mapSet s.map n id, s.ids ++ [id]⟩ (t.after j n) := by
  obtain ⟨h1, h2⟩ := addBody_ok_counts s.m m' p X j b n id h
  by_cases hf : j.jt = .fixed
  · obtain ⟨e1, e2, e3⟩ := h1 hf
    have hid : id = t.idFor j := by
      simp only [TState.idFor, if_pos hf]; rw [e1, hA.nf]
    refine ⟨hid, ?_⟩
    simp only [TState.after, if_pos hf]
    exact ⟨by simp only; rw [e2, hA.nb], by simp only; rw [e3, hA.nf], by simp only; rw [hA.map, hid]⟩
  · obtain ⟨e1, _, e2, e3⟩ := h2 hf
    have hid : id = t.idFor j := by
      simp only [TState.idFor, if_neg hf]; rw [e1, hA.nb]
    refine ⟨hid, ?_⟩
    simp only [TState.after, if_neg hf]
    exact ⟨by simp only; rw [e2, hA.nb], by simp only; rw [e3, hA.nf], by simp only; rw [hA.map, hid]⟩

/-! ### the loop over the frames = issuing the translated calls -/

theorem combine_ok_nil (m : ModelS α) (pe : Option LErr) :
    combine (runApi m []) pe = (m, match pe with | some e => .error e | none => .ok ()) := by
  cases pe <;> rfl

/-- main lemma: from agreeing states, `loadFrames` produces the model and the outcome of issuing
    `frameCalls`, and on success exactly the predicted ids -/
theorem loadFrames_eq (fs : List (FrameEntry α)) : ∀ (s : LState α) (t : TState), Agree s t →
    ((loadFrames s fs).1.m, (loadFrames s fs).2) =
      combine (runApi s.m (frameCalls t fs).1) (frameCalls t fs).2.2 ∧
    ((loadFrames s fs).2 = .ok () →
      (loadFrames s fs).1.ids = s.ids ++ (frameCalls t fs).2.1) := by
  induction fs with
  | nil =>
    intro s t _
    exact ⟨rfl, fun _ => by simp [loadFrames, frameCalls]⟩
  | cons f fs ih =>
    intro s t hA
    cases hp : f.parent with
    | none =>
      simp only [loadFrames, loadFrame, frameCalls, hp]
      exact ⟨rfl, fun h => by cases h⟩
    | some pn =>
      cases hj : jointOf f.joint with
      | error e =>
        simp only [loadFrames, loadFrame, frameCalls, hp, hj]
        exact ⟨rfl, fun h => by cases h⟩
      | ok j =>
        cases hb : bodyOf f.body with
        | error e =>
          simp only [loadFrames, loadFrame, frameCalls, hp, hj, hb]
          exact ⟨rfl, fun h => by cases h⟩
        | ok b =>
          cases hr : s.m.addBody (mapGet s.map pn) (frameOf f.jointFrame) j b f.name with
          | mk m' res =>
            cases res with
            | error e =>
              simp only [loadFrames, loadFrame, frameCalls, hp, hj, hb, hr, runApi, ApiCall.run,
                ← hA.map]
              exact ⟨rfl, fun h => by cases h⟩
            | ok id =>
              obtain ⟨_, hA'⟩ := agree_after s t hA m' _ _ j b f.name id hr
              obtain ⟨ih1, ih2⟩ := ih ⟨m', mapSet s.map f.name id, s.ids ++ [id]⟩
                (t.after j f.name) hA'
              obtain ⟨hid, -⟩ := agree_after s t hA m' _ _ j b f.name id hr
              simp only [loadFrames, loadFrame, frameCalls, hp, hj, hb, hr, runApi, ApiCall.run,
                ← hA.map]
              refine ⟨ih1, fun h => ?_⟩
              rw [ih2 h, ← hid]
              simp

theorem runApi_append_gravity (m : ModelS α) (g : Option (V3 α)) (cs : List (ApiCall α)) :
    runApi m (gravityCalls g ++ cs) = runApi (setGravity m g) cs := by
  cases g <;> rfl

omit [DecidableEq α] in
theorem agree_init (g : Option (V3 α)) :
    Agree (⟨setGravity (ModelS.init : ModelS α) g, mapSet [] "ROOT" 0, []⟩ : LState α)
      TState.init := by
  cases g <;> exact ⟨rfl, rfl, rfl⟩

/-! ### history -/

theorem processFrom_perLoad (ds : List (Desc α)) : ∀ g : NameMap,
    processFrom .perLoad g ds = ds.map solo := by
  induction ds with
  | nil => intro g; rfl
  | cons d ds ih =>
    intro g
    simp only [processFrom, List.map_cons, ih]
    rfl

/-! ### the loop invariant: well-formed model, every id in the name map is an id of the model -/

structure Inv (s : LState α) : Prop where
  wf : s.m.WF
  map_ok : ∀ p ∈ s.map, s.m.validId p.2

omit [DecidableEq α] in
theorem mapGet_valid (s : LState α) (hI : Inv s) (n : String) : s.m.validId (mapGet s.map n) := by
  unfold mapGet
  split
  · rename_i p hp
    exact hI.map_ok p (List.mem_of_find?_eq_some hp)
  · left; exact hI.wf.nb_pos

/-- the joints the loader constructs are never `custom` proxies -/
theorem jointOf_not_custom (jd : JointD α) (j : Joint α) (h : jointOf jd = .ok j) :
    j.jt ≠ .custom := by
  unfold jointOf at h
  split at h
  · cases h; simp [fixedJoint]
  · rename_i s
    split at h
    · rename_i t ht
      split at h
      · rename_i j' hj'
        cases h
        cases t <;> simp [Joint.ofType] at hj' <;> (subst hj'; simp)
      · cases h
    · cases h
  · cases h; simp [fixedJoint]
  · rename_i a
    cases h
    simp only [Joint.ofAxis]
    split <;> try decide
    split <;> try decide
    split <;> try decide
    split <;> decide
  · rename_i l _ _
    split at h
    · cases h
      simp only [Joint.ofAxes]
      split <;> decide
    · cases h

theorem jointOk_of_jointOf (m : ModelS α) (jd : JointD α) (j : Joint α)
    (h : jointOf jd = .ok j) : m.jointOk j :=
  fun hc => absurd hc (jointOf_not_custom jd j h)

/-- ids of the model stay ids of the model -/
theorem addBody_validId_mono (m : ModelS α) (p : Nat) (X : XT α) (j : Joint α) (b : Body α)
    (n : String) (x : Nat) (hx : m.validId x) : (m.addBody p X j b n).1.validId x := by
  have ho := addBody_outcome m p X j b n
  generalize m.addBody p X j b n = r at ho
  cases ho with
  | dup => exact hx
  | rejected => exact hx
  | movable m' _ _ _ ha =>
    rcases hx with h | h
    · left; simp only [nBodies] at h ⊢; rw [ha.nb]; omega
    · right; rw [isFixedBodyId_iff] at h ⊢; rw [ha.fixed]; exact h
  | fixed m' _ _ ha =>
    obtain ⟨fb, hfb⟩ := ha.fixed
    rcases hx with h | h
    · left; simp only [nBodies] at h ⊢; rw [ha.nb]; exact h
    · right; rw [isFixedBodyId_iff] at h ⊢; rw [hfb]; simp; omega

theorem addBody_names_prefix (m : ModelS α) (p : Nat) (X : XT α) (j : Joint α) (b : Body α)
    (n : String) : m.names <+: (m.addBody p X j b n).1.names := by
  have ho := addBody_outcome m p X j b n
  generalize m.addBody p X j b n = r at ho
  cases ho with
  | dup => exact List.prefix_refl _
  | rejected => exact List.prefix_refl _
  | movable m' _ _ _ ha =>
    simp only; rw [ha.names]; split
    · exact List.prefix_append _ _
    · exact List.prefix_refl _
  | fixed m' _ _ ha =>
    simp only; rw [ha.names]; split
    · exact List.prefix_append _ _
    · exact List.prefix_refl _

/-- a successful named addition records `(name, id)` -/
theorem addBody_ok_name (m m' : ModelS α) (p : Nat) (X : XT α) (j : Joint α) (b : Body α)
    (n : String) (id : Nat) (h : m.addBody p X j b n = (m', .ok id)) (hn : n ≠ "") :
    (n, id) ∈ m'.names := by
  have ho := addBody_outcome m p X j b n
  rw [h] at ho
  cases ho with
  | movable _ _ _ _ ha => rw [ha.names, if_pos hn]; simp
  | fixed _ _ _ ha => rw [ha.names, if_pos hn]; simp

theorem addBody_fixed_le (m : ModelS α) (p : Nat) (X : XT α) (j : Joint α) (b : Body α)
    (n : String) : (m.addBody p X j b n).1.fixedBodies.length ≤ m.fixedBodies.length + 1 := by
  have ho := addBody_outcome m p X j b n
  generalize m.addBody p X j b n = r at ho
  cases ho with
  | dup => exact Nat.le_succ _
  | rejected => exact Nat.le_succ _
  | movable m' _ _ _ ha => simp only; rw [ha.fixed]; omega
  | fixed m' _ _ ha => obtain ⟨fb, hfb⟩ := ha.fixed; simp only; rw [hfb]; simp

/-- the returned id is an id of the new model -/
theorem addBody_ok_validId (m m' : ModelS α) (hwf : m.WF) (p : Nat) (X : XT α) (j : Joint α)
    (b : Body α) (n : String) (id : Nat) (hp : m.validId p) (hj : m.jointOk j)
    (hcap : m.fixedBodies.length ≤ fixedDisc) (h : m.addBody p X j b n = (m', .ok id)) :
    m'.validId id := by
  have hr := C14.returned_id_resolves m (.addBody p X j b n) id hwf ⟨hp, hj, hcap⟩
    (by simp only [ModelS.step]; rw [h])
  have h1 := hr.1
  simp only [ModelS.step] at h1
  rw [h] at h1
  rw [isBodyId_iff] at h1
  rcases h1 with h1 | h1
  · left; exact h1.2
  · right; exact h1

/-- one iteration keeps the invariant and adds at most one fixed body -/
theorem loadFrame_inv (s : LState α) (f : FrameEntry α) (hI : Inv s)
    (hcap : s.m.fixedBodies.length ≤ fixedDisc) :
    Inv (loadFrame s f).1 ∧
    (loadFrame s f).1.m.fixedBodies.length ≤ s.m.fixedBodies.length + 1 := by
  cases hp : f.parent with
  | none => simp only [loadFrame, hp]; exact ⟨hI, Nat.le_succ _⟩
  | some pn =>
    cases hj : jointOf f.joint with
    | error e => simp only [loadFrame, hp, hj]; exact ⟨hI, Nat.le_succ _⟩
    | ok j =>
      cases hb : bodyOf f.body with
      | error e => simp only [loadFrame, hp, hj, hb]; exact ⟨hI, Nat.le_succ _⟩
      | ok b =>
        have hpv := mapGet_valid s hI pn
        have hjo := jointOk_of_jointOf s.m f.joint j hj
        have hwf' := addBody_wf s.m hI.wf (mapGet s.map pn) (frameOf f.jointFrame) j b f.name
          hpv hjo hcap
        have hmono := addBody_validId_mono s.m (mapGet s.map pn) (frameOf f.jointFrame) j b f.name
        have hfl := addBody_fixed_le s.m (mapGet s.map pn) (frameOf f.jointFrame) j b f.name
        cases hr : s.m.addBody (mapGet s.map pn) (frameOf f.jointFrame) j b f.name with
        | mk m' res =>
          rw [hr] at hwf' hmono hfl
          cases res with
          | ok id =>
            simp only [loadFrame, hp, hj, hb, hr]
            refine ⟨⟨hwf', ?_⟩, hfl⟩
            intro q hq
            simp only [mapSet, List.mem_cons] at hq
            rcases hq with hq | hq
            · subst hq
              exact addBody_ok_validId s.m m' hI.wf _ _ j b f.name id hpv hjo hcap hr
            · exact hmono q.2 (hI.map_ok q hq)
          | error e =>
            simp only [loadFrame, hp, hj, hb, hr]
            exact ⟨⟨hwf', fun q hq => hmono q.2 (hI.map_ok q hq)⟩, hfl⟩

theorem loadFrames_inv (fs : List (FrameEntry α)) : ∀ (s : LState α), Inv s →
    s.m.fixedBodies.length + fs.length ≤ fixedDisc → Inv (loadFrames s fs).1 := by
  induction fs with
  | nil => intro s hI _; exact hI
  | cons f fs ih =>
    intro s hI hcap
    simp only [List.length_cons] at hcap
    obtain ⟨hI', hfl⟩ := loadFrame_inv s f hI (by omega)
    simp only [loadFrames]
    split
    · rename_i s' _ hr
      rw [hr] at hI' hfl
      exact ih s' hI' (by simp only at hfl; omega)
    · rename_i r hne
      generalize loadFrame s f = r at hI' hne
      exact hI'

omit [DecidableEq α] in
theorem inv_init (g : Option (V3 α)) :
    Inv (⟨setGravity (ModelS.init : ModelS α) g, mapSet [] "ROOT" 0, []⟩ : LState α) := by
  have hwf : (setGravity (ModelS.init : ModelS α) g).WF := by
    cases g with
    | none => exact C14.wf_init
    | some v =>
      have h := C14.wf_init (α := α)
      exact { h with }
  refine ⟨hwf, ?_⟩
  intro p hp
  simp only [mapSet, List.mem_cons, List.not_mem_nil, or_false] at hp
  subst hp
  left; exact hwf.nb_pos

end
end Rbdl.L19
