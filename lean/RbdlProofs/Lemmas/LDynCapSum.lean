import RbdlProofs.Lemmas.LDynCap
import RbdlProofs.Lemmas.L03Core
/-
  Capstones for the dynamics / whole-body routines: sums over the nodes of the specification regrouped
  by the movable body of the model a node moves with (`node_sum`), and the kinematics of a node in
  terms of the workspace of a forward pass (`link_bodyForm`, `link_nodeForm`).
-/
namespace Rbdl.LDynCap
open Lean.Grind Rbdl Rbdl.Spec Rbdl.L06 Rbdl.L01 Rbdl.Loops Rbdl.L01Cap
set_option linter.unusedSimpArgs false
set_option linter.unusedVariables false
set_option linter.unusedSectionVars false

section Sums
variable {β : Type} [Add β] {z : β}

theorem lsum_addG (L : AddLaws z) (f g : Nat → β) (l : List Nat) :
    lsum z (fun i => f i + g i) l = lsum z f l + lsum z g l := by
  induction l with
  | nil => simp only [lsum]; rw [L.add_zero]
  | cons c l ih =>
    simp only [lsum]; rw [ih, L.add_assoc, L.add_assoc]
    congr 1
    rw [← L.add_assoc, L.add_comm (g c), L.add_assoc]

theorem lsum_ite_eqG (L : AddLaws z) (a : β) (k : Nat) (l : List Nat) (hnd : l.Nodup)
    (hk : k ∈ l) : lsum z (fun i => if k = i then a else z) l = a := by
  rw [L03.Core.lsum_single L _ l k hnd hk (fun c _ hc => if_neg (fun e => hc e.symm)), if_pos rfl]

/-- regrouping a sum by a classifying map `b` with values below `N` -/
theorem lsum_fiberG (L : AddLaws z) (f : Nat → β) (b : Nat → Nat) (N : Nat) (l : List Nat)
    (hb : ∀ n ∈ l, b n < N) :
    lsum z f l = lsum z (fun i => lsum z (fun n => if b n = i then f n else z) l) (List.range N) := by
  induction l with
  | nil =>
    simp only [lsum]
    exact (L03.Core.lsum_zero L _ _ (fun _ _ => rfl)).symm
  | cons c l ih =>
    simp only [lsum]
    rw [lsum_addG L, ← ih (fun n hn => hb n (List.mem_cons_of_mem _ hn)),
      lsum_ite_eqG L (f c) (b c) (List.range N) List.nodup_range
        (List.mem_range.2 (hb c (List.mem_cons_self ..)))]

end Sums

section
variable {α : Type} [Field α] [DecidableEq α]

/-- the movable body a node contributes to (`0` for nodes without a body) -/
def cls (M : SModel α) (n : Nat) : Nat :=
  if (M.nodes.getD n nd0).hasBody = true then bodyOf M n else 0

theorem nodeRBI_off_cls (M : SModel α) (off : Nat → XT α) (i n : Nat) (h : cls M n ≠ i) :
    nodeRBI M off i n = RBI.zero := by
  unfold nodeRBI
  rw [if_neg]
  intro ⟨h1, h2⟩
  apply h
  unfold cls bodyOf
  rw [if_pos h2, h1]

/-- **sums over the nodes, regrouped by movable body**: if the contribution of node `n` is an
    additive function `Φ i` of its inertia in the frame of the movable body `i` it moves with, the sum
    over all nodes is `Σ_i Φ i (I[i])` over the movable bodies of the model; nodes attached to the
    base must contribute nothing (`hbase`). -/
theorem node_sum {β : Type} [Add β] {z : β} (L : AddLaws z) {m : ModelS α} {M : SModel α}
    {off : Nat → XT α} {nodeOf : Nat → Nat} (hL : Link m M off nodeOf) (hnb : 1 ≤ m.nBodies)
    (F : Nat → β) (Φ : Nat → RBI α → β) (hΦ0 : ∀ i, Φ i RBI.zero = z)
    (hΦadd : ∀ i A B, Φ i (A + B) = Φ i A + Φ i B) (hbase : ∀ J, Φ 0 J = z)
    (hF : ∀ n, n < M.nodes.length → F n = Φ (cls M n) (nodeRBI M off (cls M n) n)) :
    lsum z F (List.range M.nodes.length)
      = lsum z (fun i => Φ i (m.rbi i)) (List.range' 1 (m.nBodies - 1)) := by
  have hcl : ∀ n ∈ List.range M.nodes.length, cls M n < m.nBodies := by
    intro n hn
    rw [List.mem_range] at hn
    unfold cls
    by_cases hh : (M.nodes.getD n nd0).hasBody = true
    · rw [if_pos hh]; exact hL.body_lt n hn hh
    · rw [if_neg hh]; omega
  rw [lsum_fiberG L F (cls M) m.nBodies _ hcl]
  have hin : ∀ i, lsum z (fun n => if cls M n = i then F n else z) (List.range M.nodes.length)
      = Φ i (lsum RBI.zero (nodeRBI M off i) (List.range M.nodes.length)) := by
    intro i
    rw [lsum_map RBI.zero z (Φ i) (hΦ0 i) (hΦadd i)]
    refine lsum_congr _ _ _ (fun n hn => ?_)
    rw [List.mem_range] at hn
    by_cases hc : cls M n = i
    · rw [if_pos hc, hF n hn, hc]
    · rw [if_neg hc, nodeRBI_off_cls M off i n hc, hΦ0]
  obtain ⟨k, hk⟩ : ∃ k, m.nBodies = k + 1 := ⟨m.nBodies - 1, by omega⟩
  have e : List.range (k + 1) = 0 :: List.range' 1 k := by
    rw [List.range_eq_range', List.range'_succ]
  rw [funext hin, hk, e, lsum, hbase, L.zero_add, Nat.add_sub_cancel]
  refine lsum_congr _ _ _ (fun i hi => ?_)
  rw [List.mem_range'_1] at hi
  rw [← hL.rbi i (by omega) (by omega)]

/-! ### kinematics of the nodes -/

/-- pose jets of the movable bodies in body form, for every workspace in the closed form of the
    forward pass -/
theorem link_bodyForm {m : ModelS α} {M : SModel α} {off : Nat → XT α} {nodeOf : Nat → Nat}
    (hm : ModelOK m) (hL : Link m M off nodeOf) (h2 : (2 : α) ≠ 0) (w W : WS α) (hw : WSFixed m w)
    (st : QS α) (hst : StateOK m st) (qd qdd : VecN α) (hF : FwdClosed m st qd qdd w W) :
    ∀ i, i < m.nBodies →
      BodyForm (NodeKin.ofPose (specPose M (stateOf st qd qdd) (nodeOf i))) (W.v i)
        (W.a i - gAt (NodeKin.ofPose (specPose M (stateOf st qd qdd) (nodeOf i))) m.gravity) := by
  obtain ⟨hP0, hP⟩ := hL.fk st qd qdd
  exact fwd_bodyForm m w W st qd qdd h2 hm.wf.lam_lt hm.jc hm.frame hst (hm.jointWS hw) hm.w3
    hm.arity hF (fun i => specPose M (stateOf st qd qdd) (nodeOf i)) hP0 hP

/-- the rotation part of the pose of a movable body does not depend on the velocities -/
theorem link_R_indep {m : ModelS α} {M : SModel α} {off : Nat → XT α} {nodeOf : Nat → Nat}
    (hm : ModelOK m) (hL : Link m M off nodeOf) (w : WS α) (st : QS α)
    (qd qdd qd' qdd' : VecN α) (i : Nat) (hi : i < m.nBodies) :
    xtOfKin (NodeKin.ofPose (specPose M (stateOf st qd qdd) (nodeOf i)))
      = xtOfKin (NodeKin.ofPose (specPose M (stateOf st qd' qdd') (nodeOf i))) := by
  obtain ⟨hP0, hP⟩ := hL.fk st qd qdd
  obtain ⟨hP0', hP'⟩ := hL.fk st qd' qdd'
  exact xtOfKin_indep m hm.wf.lam_lt hm.jc w st qd qdd qd' qdd'
    (fun i => specPose M (stateOf st qd qdd) (nodeOf i))
    (fun i => specPose M (stateOf st qd' qdd') (nodeOf i)) hP0 hP0' hP hP' i hi

/-- the pose jet of a node that carries a body is attached to that of its movable body -/
theorem link_nodeKin {m : ModelS α} {M : SModel α} {off : Nat → XT α} {nodeOf : Nat → Nat}
    (hL : Link m M off nodeOf) (S : State α) (n : Nat) (hn : n < M.nodes.length)
    (hh : (M.nodes.getD n nd0).hasBody = true) :
    specKin M S n = compKin (NodeKin.ofPose (specPose M S (nodeOf (bodyOf M n))))
      (NodeKin.ofPose (constPose (off n))) := by
  unfold specKin
  rw [hL.att S n hn hh, ofPose_comp]

/-- list entry of the zipped tables of the specification -/
theorem zip_kin_getD (M : SModel α) (S : State α) (hne : M.nodes ≠ []) (k : Nat)
    (hk : k < M.nodes.length) :
    (M.nodes.zip (kinTable M S)).getD k (nd0, NodeKin.ofPose Pose.id)
      = (M.nodes.getD k nd0, specKin M S k) := by
  rw [getD_zip _ _ _ _ _ hk (by rw [kinTable_length M S hne]; exact hk), kinTable_getD]

end
end Rbdl.LDynCap
