import RbdlProofs.Lemmas.L13Sim
/-
  C13 helper lemmas, part 5: the kinematics loops (`updateKinematicsCustom`, `updateKinematics`) on
  two reachable workspaces.
-/
namespace Rbdl.L13
open Lean.Grind Rbdl Rbdl.Loops Rbdl.L12
set_option linter.unusedSimpArgs false
set_option linter.unusedVariables false
set_option linter.unusedSectionVars false
set_option linter.constructorNameAsVariable false

section
variable {α : Type} [Field α]

/-- tree order -/
def TreeOrder (m : ModelS α) : Prop := ∀ i, 1 ≤ i → i < m.nBodies → m.lam i < i
/-- every movable body carries a joint of a type `jcalc` handles -/
def AllJcalc (m : ModelS α) : Prop := ∀ i, 1 ≤ i → i < m.nBodies → (m.joint i).jt.hasJcalc = true
/-- ... and the arity the algorithms see matches the joint type -/
def AllJointOK (m : ModelS α) : Prop := ∀ i, 1 ≤ i → i < m.nBodies → JointOK m i

theorem AllJointOK.jcalc {m : ModelS α} (h : AllJointOK m) : AllJcalc m :=
  fun i h1 h2 => (h i h1 h2).1

/-- two reachable workspaces agree on `X_base[0]` -/
theorem Agree.init {m : ModelS α} {w w' : WS α} (hw : WSFixed m w) (hw' : WSFixed m w') :
    Agree m (Dom.at [.X_base] 0) w w' := by
  refine ⟨hw, hw', fun g j hgj => ?_⟩
  simp only [dom, List.mem_cons, List.mem_nil_iff, or_false] at hgj
  obtain ⟨rfl, rfl⟩ := hgj
  simp only [view]; rw [hw.1, hw'.1]

/-! ### `updateKinematicsCustom`, position loop -/

/-- entries agreeing after the position loop has passed the bodies `< k` -/
@[dom] def Dpos (m : ModelS α) (k : Nat) : Dom :=
  Dom.at [.X_base] 0 ∪ Dom.rng [.X_lambda, .v_J, .c_J, .X_base] 1 k ∪ SDom m 1 k

theorem ukcBody_steps (m : ModelS α) (st : QS α) (i : Nat) (w : WS α) :
    ukcBody m st i w =
      if m.lam i ≠ 0 then stXb m i (jcalc m w i st zeroVec) else stXb0 i (jcalc m w i st zeroVec) :=
  rfl

theorem ukcBody_sim (m : ModelS α) (st : QS α) (htree : TreeOrder m) (hjc : AllJcalc m) (B : Dom)
    (i : Nat) (s t : WS α) (h1 : 1 ≤ i) (h2 : i < 1 + (m.nBodies - 1))
    (h : Agree m (B ∪ Dpos m i) s t) :
    Agree m (B ∪ Dpos m (i + 1)) (ukcBody m st i s) (ukcBody m st i t) := by
  have hl := htree i h1 (by omega)
  have hJ := h.jcalcU i h1 (by omega) (hjc i h1 (by omega)) st zeroVec
  rw [ukcBody_steps, ukcBody_steps]
  split
  · exact (hJ.stXb i h1 (by dom) (by dom)).mono (by dom)
  · exact (hJ.stXb0 i h1 (by dom)).mono (by dom)

theorem ukc_pos_sim (m : ModelS α) (st : QS α) (htree : TreeOrder m) (hjc : AllJcalc m)
    (B : Dom) (w w' : WS α) (h : Agree m (B ∪ Dom.at [.X_base] 0) w w') :
    Agree m (B ∪ Dpos m (1 + (m.nBodies - 1))) (forUp (m.nBodies - 1) 1 (ukcBody m st) w)
      (forUp (m.nBodies - 1) 1 (ukcBody m st) w') :=
  forUp_simI (fun k s t => Agree m (B ∪ Dpos m k) s t) _ _ _ _
    (fun i s t h1 h2 h => ukcBody_sim m st htree hjc B i s t h1 h2 h) w w'
    (h.mono (by dom))

/-! ### velocity loop -/

/-- entries agreeing after the velocity loop has passed the bodies `< k` -/
@[dom] def Dvel (m : ModelS α) (k : Nat) : Dom :=
  Dpos m (1 + (m.nBodies - 1)) ∪ Dom.rng [.v, .c] 1 k

theorem ukcVelBody_steps (m : ModelS α) (st : QS α) (qd : VecN α) (i : Nat) (w : WS α) :
    ukcVelBody m st qd i w =
      stC i (if m.lam i ≠ 0 then stV m i (jcalc m w i st qd) else stV0 i (jcalc m w i st qd)) := by
  unfold ukcVelBody; dsimp only; split <;> rfl

theorem ukcVelBody_sim (m : ModelS α) (st : QS α) (qd : VecN α) (htree : TreeOrder m)
    (hjc : AllJcalc m) (B : Dom) (i : Nat) (s t : WS α) (h1 : 1 ≤ i)
    (h2 : i < 1 + (m.nBodies - 1)) (h : Agree m (B ∪ Dvel m i) s t) :
    Agree m (B ∪ Dvel m (i + 1)) (ukcVelBody m st qd i s) (ukcVelBody m st qd i t) := by
  have hl := htree i h1 (by omega)
  have hJ := h.jcalcU i h1 (by omega) (hjc i h1 (by omega)) st qd
  rw [ukcVelBody_steps, ukcVelBody_steps]
  split
  · exact (((hJ.stV i (by dom) (by dom) (by dom)).stC i (by dom) (by dom) (by dom))).mono (by dom)
  · exact (((hJ.stV0 i (by dom)).stC i (by dom) (by dom) (by dom))).mono (by dom)

theorem ukc_vel_sim (m : ModelS α) (st : QS α) (qd : VecN α) (htree : TreeOrder m)
    (hjc : AllJcalc m) (B : Dom) (w w' : WS α)
    (h : Agree m (B ∪ Dpos m (1 + (m.nBodies - 1))) w w') :
    Agree m (B ∪ Dvel m (1 + (m.nBodies - 1))) (forUp (m.nBodies - 1) 1 (ukcVelBody m st qd) w)
      (forUp (m.nBodies - 1) 1 (ukcVelBody m st qd) w') :=
  forUp_simI (fun k s t => Agree m (B ∪ Dvel m k) s t) _ _ _ _
    (fun i s t h1 h2 h => ukcVelBody_sim m st qd htree hjc B i s t h1 h2 h) w w'
    (h.mono (by dom))

/-! ### acceleration loop -/

/-- entries agreeing after the acceleration loop has passed the bodies `< k` -/
@[dom] def Dacc (m : ModelS α) (k : Nat) : Dom :=
  Dvel m (1 + (m.nBodies - 1)) ∪ Dom.rng [.a] 1 k

theorem ukcAccBody_sim (m : ModelS α) (qdd : VecN α) (htree : TreeOrder m)
    (hok : AllJointOK m) (B : Dom) (i : Nat) (s t : WS α) (h1 : 1 ≤ i)
    (h2 : i < 1 + (m.nBodies - 1)) (h : Agree m (B ∪ Dacc m i) s t) :
    Agree m (B ∪ Dacc m (i + 1)) (ukcAccBody m qdd i s) (ukcAccBody m qdd i t) := by
  have hl := htree i h1 (by omega)
  have hk := (hok i h1 (by omega)).2
  unfold ukcAccBody; dsimp only
  refine h.setF_a i (fun w =>
    match m.arity i with
    | .other => if m.lam i ≠ 0 then (w.X_lambda i).apply (w.a (m.lam i)) + w.c i else w.c i
    | _ => (if m.lam i ≠ 0 then (w.X_lambda i).apply (w.a (m.lam i)) + w.c i else w.c i)
            + w.Sqdd m i qdd) ?_ (by dom)
  rw [h.get_X_lambda (j := i) (by dom), h.get_c (j := i) (by dom),
    h.Sqdd i qdd (by domw [hk]) (by domw [hk]) (by domw [hk])]
  by_cases hl0 : m.lam i ≠ 0
  · rw [h.get_a (j := m.lam i) (by dom)]
  · simp only [hl0, if_false]

theorem ukc_acc_sim (m : ModelS α) (qdd : VecN α) (htree : TreeOrder m)
    (hok : AllJointOK m) (B : Dom) (w w' : WS α)
    (h : Agree m (B ∪ Dvel m (1 + (m.nBodies - 1))) w w') :
    Agree m (B ∪ Dacc m (1 + (m.nBodies - 1))) (forUp (m.nBodies - 1) 1 (ukcAccBody m qdd) w)
      (forUp (m.nBodies - 1) 1 (ukcAccBody m qdd) w') :=
  forUp_simI (fun k s t => Agree m (B ∪ Dacc m k) s t) _ _ _ _
    (fun i s t h1 h2 h => ukcAccBody_sim m qdd htree hok B i s t h1 h2 h) w w'
    (h.mono (by dom))

/-! ### `updateKinematics` -/

/-- entries agreeing after `updateKinematics` has passed the bodies `< k` -/
@[dom] def Duk (m : ModelS α) (k : Nat) : Dom :=
  Dom.at [.X_base, .a] 0 ∪ Dom.rng [.X_lambda, .v_J, .c_J, .X_base, .v, .c, .a] 1 k ∪ SDom m 1 k

theorem ukBody_steps (m : ModelS α) (st : QS α) (qd qdd : VecN α) (i : Nat) (w : WS α) :
    ukBody m st qd qdd i w =
      stAk m qdd i (stC i (if m.lam i ≠ 0 then stV m i (stXb m i (jcalc m w i st qd))
        else stV0 i (stXb0 i (jcalc m w i st qd)))) := by
  unfold ukBody; dsimp only; split <;> rfl

theorem ukBody_sim (m : ModelS α) (st : QS α) (qd qdd : VecN α) (htree : TreeOrder m)
    (hok : AllJointOK m) (B : Dom) (i : Nat) (s t : WS α) (h1 : 1 ≤ i)
    (h2 : i < 1 + (m.nBodies - 1)) (h : Agree m (B ∪ Duk m i) s t) :
    Agree m (B ∪ Duk m (i + 1)) (ukBody m st qd qdd i s) (ukBody m st qd qdd i t) := by
  have hl := htree i h1 (by omega)
  have hk := (hok i h1 (by omega)).2
  have hJ := h.jcalcU i h1 (by omega) (hok i h1 (by omega)).1 st qd
  rw [ukBody_steps, ukBody_steps]
  split
  · exact (((((hJ.stXb i h1 (by dom) (by dom)).stV i (by dom) (by dom) (by dom)).stC i
      (by dom) (by dom) (by dom)).stAk qdd i (by dom) (by dom) (by dom)
      (by domw [hk]) (by domw [hk]) (by domw [hk]))).mono (by dom)
  · exact (((((hJ.stXb0 i h1 (by dom)).stV0 i (by dom)).stC i
      (by dom) (by dom) (by dom)).stAk qdd i (by dom) (by dom) (by dom)
      (by domw [hk]) (by domw [hk]) (by domw [hk]))).mono (by dom)

theorem uk_sim (m : ModelS α) (st : QS α) (qd qdd : VecN α) (htree : TreeOrder m)
    (hok : AllJointOK m) (B : Dom) (w w' : WS α) (h : Agree m (B ∪ Dom.at [.X_base] 0) w w') :
    Agree m (B ∪ Duk m (1 + (m.nBodies - 1))) (updateKinematics m w st qd qdd)
      (updateKinematics m w' st qd qdd) := by
  rw [uk_eq, uk_eq]
  have h0 := h.set_a 0 (x := SV.zero) (x' := SV.zero) rfl
    (D' := B ∪ Dom.at [.X_base, .a] 0) (by dom)
  exact forUp_simI (fun k s t => Agree m (B ∪ Duk m k) s t) _ _ _ _
    (fun i s t h1 h2 h => ukBody_sim m st qd qdd htree hok B i s t h1 h2 h) _ _
    (h0.mono (by dom))

/-! ### the routines of Kinematics.cc -/

/-- the body whose `X_base` the coordinate routines read for body id `id` -/
def xbIdx (m : ModelS α) (id : Nat) : Nat :=
  if fixedDisc ≤ id then (m.fixedBody (id - fixedDisc)).movableParent else id

/-- `id` resolves to a movable body of the model (directly or as a fixed body), and body ids do
    not reach the fixed-body discriminator -/
def IdOK (m : ModelS α) (id : Nat) : Prop := m.refBody id < m.nBodies ∧ m.nBodies ≤ fixedDisc

theorem IdOK.xb {m : ModelS α} {id : Nat} (h : IdOK m id) : xbIdx m id = m.refBody id := by
  unfold xbIdx ModelS.refBody
  unfold IdOK ModelS.refBody at h
  by_cases hf : m.isFixedBodyId id = true
  · have : fixedDisc ≤ id := by
      unfold ModelS.isFixedBodyId at hf
      simp only [Bool.and_eq_true, decide_eq_true_eq] at hf
      exact hf.1.1
    simp only [hf, this, if_true]
  · simp only [hf, Bool.false_eq_true, if_false] at h ⊢
    have : ¬ fixedDisc ≤ id := by omega
    simp only [this, if_false]

theorem IdOK.ref_lt_disc {m : ModelS α} {id : Nat} (h : IdOK m id) : ¬ fixedDisc ≤ m.refBody id := by
  have := h.1; have := h.2; omega

theorem Agree.bodyToBase0 {m : ModelS α} {D : Dom} {s t : WS α} (h : Agree m D s t) (id : Nat)
    (p : V3 α) (hX : D .X_base (xbIdx m id)) : bodyToBase0 m s id p = bodyToBase0 m t id p := by
  unfold Rbdl.bodyToBase0
  unfold xbIdx at hX
  split
  · rename_i hf; simp only [hf, if_true] at hX; dsimp only; rw [h.get_X_base hX]
  · rename_i hf; simp only [hf, if_false] at hX; dsimp only; rw [h.get_X_base hX]

theorem Agree.baseToBody0 {m : ModelS α} {D : Dom} {s t : WS α} (h : Agree m D s t) (id : Nat)
    (p : V3 α) (hX : D .X_base (xbIdx m id)) : baseToBody0 m s id p = baseToBody0 m t id p := by
  unfold Rbdl.baseToBody0
  unfold xbIdx at hX
  split
  · rename_i hf; simp only [hf, if_true] at hX; dsimp only; rw [h.get_X_base hX]
  · rename_i hf; simp only [hf, if_false] at hX; dsimp only; rw [h.get_X_base hX]

theorem Agree.worldOrientation0 {m : ModelS α} {D : Dom} {s t : WS α} (h : Agree m D s t)
    (id : Nat) (hX : D .X_base (xbIdx m id)) :
    Agree m D (worldOrientation0 m s id).1 (worldOrientation0 m t id).1 ∧
    (worldOrientation0 m s id).2 = (worldOrientation0 m t id).2 := by
  unfold Rbdl.worldOrientation0
  unfold xbIdx at hX
  split
  · rename_i hf; simp only [hf, if_true] at hX; dsimp only
    exact ⟨⟨h.fix, h.fix', fun g j hgj => by have := h.eq g j hgj; cases g <;> exact this⟩,
      by rw [h.get_X_base hX]⟩
  · rename_i hf; simp only [hf, if_false] at hX; dsimp only
    exact ⟨h, by rw [h.get_X_base hX]⟩

/-- after `UpdateKinematicsCustom(Q)` on two reachable workspaces -/
theorem updQ_sim (m : ModelS α) (st : QS α) (htree : TreeOrder m) (hjc : AllJcalc m)
    (w w' : WS α) (hw : WSFixed m w) (hw' : WSFixed m w') :
    Agree m (Dpos m (1 + (m.nBodies - 1))) (updQ m w st true) (updQ m w' st true) :=
  (ukc_pos_sim m st htree hjc (Dom.at [.X_base] 0) w w'
    ((Agree.init hw hw').mono (by dom))).mono (by dom)

theorem Dpos_X_base (m : ModelS α) (j : Nat) (hj : j < m.nBodies) :
    Dpos m (1 + (m.nBodies - 1)) .X_base j := by dom

theorem xbIdx_ref {m : ModelS α} {id : Nat} (h : IdOK m id) : xbIdx m (m.refBody id) = m.refBody id := by
  unfold xbIdx; rw [if_neg h.ref_lt_disc]

theorem Agree.refPoint {m : ModelS α} {D : Dom} {s t : WS α} (h : Agree m D s t) (id : Nat)
    (p : V3 α) (hid : IdOK m id) (hX : D .X_base (m.refBody id)) :
    refPoint m s id p = refPoint m t id p := by
  unfold Rbdl.refPoint
  split
  · rename_i hf
    have e : (m.fixedBody (id - fixedDisc)).movableParent = m.refBody id := by
      unfold ModelS.refBody; rw [if_pos hf]
    dsimp only
    rw [e, h.bodyToBase0 id p (by rw [hid.xb]; exact hX),
      h.baseToBody0 _ _ (by rw [xbIdx_ref hid]; exact hX)]
  · rfl

/-- the output of `CalcPointVelocity6D` from the updated workspace -/
def pvOut (m : ModelS α) (W : WS α) (id : Nat) (p : V3 α) : SV α :=
  let r := refPoint m W id p
  let o := worldOrientation0 m W r.1
  (⟨o.2.transpose, r.2⟩ : XT α).apply (o.1.v r.1)

theorem refPoint_fst (m : ModelS α) (W : WS α) (id : Nat) (p : V3 α) :
    (refPoint m W id p).1 = m.refBody id := by
  unfold Rbdl.refPoint ModelS.refBody; split <;> rfl

theorem Agree.pvOut {m : ModelS α} {D : Dom} {s t : WS α} (h : Agree m D s t) (id : Nat)
    (p : V3 α) (hid : IdOK m id) (hX : D .X_base (m.refBody id)) (hv : D .v (m.refBody id)) :
    pvOut m s id p = pvOut m t id p := by
  unfold L13.pvOut
  dsimp only
  rw [h.refPoint id p hid hX, refPoint_fst]
  obtain ⟨hA, hE⟩ := h.worldOrientation0 (m.refBody id) (by rw [xbIdx_ref hid]; exact hX)
  rw [hE, hA.get_v hv]

theorem pv6D_eq (m : ModelS α) (w : WS α) (st : QS α) (qd : VecN α) (id : Nat) (p : V3 α) :
    (calcPointVelocity6D m w st qd id p true).2 =
      pvOut m (updateKinematicsCustom m { w with v := upd w.v 0 SV.zero } (some st) (some qd) none)
        id p := rfl

/-- `UpdateKinematicsCustom(Q, QDot)` on two reachable workspaces (with an extra set `B` of
    agreeing entries that is carried along) -/
theorem ukc_qv_sim (m : ModelS α) (st : QS α) (qd : VecN α) (htree : TreeOrder m)
    (hjc : AllJcalc m) (B : Dom) (w w' : WS α) (h : Agree m (B ∪ Dom.at [.X_base] 0) w w') :
    Agree m (B ∪ Dvel m (1 + (m.nBodies - 1)))
      (updateKinematicsCustom m w (some st) (some qd) none)
      (updateKinematicsCustom m w' (some st) (some qd) none) := by
  rw [ukc_full_eq, ukc_full_eq]
  exact ukc_vel_sim m st qd htree hjc B _ _ (ukc_pos_sim m st htree hjc B w w' h)

theorem pointVelocity6D_indep (m : ModelS α) (st : QS α) (qd : VecN α) (id : Nat) (p : V3 α)
    (htree : TreeOrder m) (hjc : AllJcalc m) (hid : IdOK m id) (w w' : WS α)
    (hw : WSFixed m w) (hw' : WSFixed m w') :
    (calcPointVelocity6D m w st qd id p true).2 = (calcPointVelocity6D m w' st qd id p true).2 := by
  rw [pv6D_eq, pv6D_eq]
  have h0 := (Agree.init hw hw').set_v 0 (x := SV.zero) (x' := SV.zero) rfl
    (D' := Dom.at [.v] 0 ∪ Dom.at [.X_base] 0) (by dom)
  have h1 := ukc_qv_sim m st qd htree hjc (Dom.at [.v] 0) _ _ h0
  have := hid.1
  exact h1.pvOut id p hid (by dom) (by dom)

/-- the output of `CalcPointAcceleration6D` from the updated workspace -/
def paOut (m : ModelS α) (W : WS α) (id : Nat) (p : V3 α) : SV α :=
  let r := refPoint m W id p
  let o := worldOrientation0 m W r.1
  let pX : XT α := ⟨o.2.transpose, r.2⟩
  let pv := pX.apply (o.1.v r.1)
  pX.apply (o.1.a r.1) + ⟨V3.zero, pv.w.cross pv.v⟩

theorem Agree.paOut {m : ModelS α} {D : Dom} {s t : WS α} (h : Agree m D s t) (id : Nat)
    (p : V3 α) (hid : IdOK m id) (hX : D .X_base (m.refBody id)) (hv : D .v (m.refBody id))
    (ha : D .a (m.refBody id)) : paOut m s id p = paOut m t id p := by
  unfold L13.paOut
  dsimp only
  rw [h.refPoint id p hid hX, refPoint_fst]
  obtain ⟨hA, hE⟩ := h.worldOrientation0 (m.refBody id) (by rw [xbIdx_ref hid]; exact hX)
  rw [hE, hA.get_v hv, hA.get_a ha]

theorem pa6D_eq (m : ModelS α) (w : WS α) (st : QS α) (qd qdd : VecN α) (id : Nat) (p : V3 α) :
    (calcPointAcceleration6D m w st qd qdd id p true).2 =
      paOut m (updateKinematics m { w with v := upd w.v 0 SV.zero, a := upd w.a 0 SV.zero }
        st qd qdd) id p := rfl

theorem pointAcceleration6D_indep (m : ModelS α) (st : QS α) (qd qdd : VecN α) (id : Nat)
    (p : V3 α) (htree : TreeOrder m) (hok : AllJointOK m) (hid : IdOK m id) (w w' : WS α)
    (hw : WSFixed m w) (hw' : WSFixed m w') :
    (calcPointAcceleration6D m w st qd qdd id p true).2
      = (calcPointAcceleration6D m w' st qd qdd id p true).2 := by
  rw [pa6D_eq, pa6D_eq]
  have h0 := (Agree.init hw hw').set_v 0 (x := SV.zero) (x' := SV.zero) rfl
    (D' := Dom.at [.v] 0 ∪ Dom.at [.X_base] 0) (by dom)
  have h0' := h0.set_a 0 (x := SV.zero) (x' := SV.zero) rfl
    (D' := Dom.at [.v] 0 ∪ Dom.at [.X_base] 0) (by dom)
  have h1 := uk_sim m st qd qdd htree hok (Dom.at [.v] 0) _ _ h0'
  have := hid.1
  exact h1.paOut id p hid (by dom) (by dom) (by dom)

/-! ### Jacobians -/

theorem walkUp_congr {σ : Type} (m : ModelS α) (htree : TreeOrder m) (body body' : Nat → σ → σ)
    (hb : ∀ j s, 1 ≤ j → j < m.nBodies → body j s = body' j s) :
    ∀ (fuel j : Nat) (s : σ), j < m.nBodies →
      walkUp m fuel j body s = walkUp m fuel j body' s := by
  intro fuel
  induction fuel with
  | zero => intro j s _; rfl
  | succ f ih =>
    intro j s hj
    unfold walkUp
    split
    · rfl
    · rename_i h0
      have hl := htree j (by omega) hj
      rw [hb j s (by omega) hj]
      exact ih _ _ (by omega)

theorem Agree.jacFill {m : ModelS α} {D : Dom} {s t : WS α} (h : Agree m D s t)
    (htree : TreeOrder m)
    (hD : ∀ j, 1 ≤ j → j < m.nBodies → D .X_base j ∧ D .S j ∧ D .S3 j ∧ D .cS j)
    (T : XT α) (start : Nat) (sel : SV α → List α) (G : MatN α) (hs : start < m.nBodies) :
    jacFill m s T start sel G = jacFill m t T start sel G := by
  unfold Rbdl.jacFill
  refine walkUp_congr m htree _ _ (fun j G h1 h2 => ?_) _ _ _ hs
  obtain ⟨hX, hS, hS3, hcS⟩ := hD j h1 h2
  dsimp only
  rw [h.Scols j hS hS3 hcS, h.get_X_base hX]

theorem Dpos_jac (m : ModelS α) (hok : AllJointOK m) :
    ∀ j, 1 ≤ j → j < m.nBodies →
      Dpos m (1 + (m.nBodies - 1)) .X_base j ∧ Dpos m (1 + (m.nBodies - 1)) .S j ∧
      Dpos m (1 + (m.nBodies - 1)) .S3 j ∧ Dpos m (1 + (m.nBodies - 1)) .cS j := by
  intro j h1 h2
  have hk := (hok j h1 h2).2
  exact ⟨by dom, by domw [hk], by domw [hk], by domw [hk]⟩

theorem pointJacobian_indep (m : ModelS α) (st : QS α) (id : Nat) (p : V3 α) (G : MatN α)
    (htree : TreeOrder m) (hok : AllJointOK m) (hid : IdOK m id) (w w' : WS α)
    (hw : WSFixed m w) (hw' : WSFixed m w') :
    (calcPointJacobian m w st id p G true).2 = (calcPointJacobian m w' st id p G true).2 := by
  have h := updQ_sim m st htree hok.jcalc w w' hw hw'
  have := hid.1
  unfold calcPointJacobian; dsimp only
  rw [h.bodyToBase0 id p (by rw [hid.xb]; dom)]
  exact h.jacFill htree (Dpos_jac m hok) _ _ _ _ hid.1

theorem pointJacobian6D_indep (m : ModelS α) (st : QS α) (id : Nat) (p : V3 α) (G : MatN α)
    (htree : TreeOrder m) (hok : AllJointOK m) (hid : IdOK m id) (w w' : WS α)
    (hw : WSFixed m w) (hw' : WSFixed m w') :
    (calcPointJacobian6D m w st id p G true).2 = (calcPointJacobian6D m w' st id p G true).2 := by
  have h := updQ_sim m st htree hok.jcalc w w' hw hw'
  have := hid.1
  show jacFill m _ _ _ _ G = jacFill m _ _ _ _ G
  rw [h.bodyToBase0 id p (by rw [hid.xb]; dom)]
  exact h.jacFill htree (Dpos_jac m hok) _ _ _ _ hid.1

theorem bodySpatialJacobian_indep (m : ModelS α) (st : QS α) (id : Nat) (G : MatN α)
    (htree : TreeOrder m) (hok : AllJointOK m) (hid : IdOK m id) (w w' : WS α)
    (hw : WSFixed m w) (hw' : WSFixed m w') :
    (calcBodySpatialJacobian m w st id G true).2 = (calcBodySpatialJacobian m w' st id G true).2 := by
  have h := updQ_sim m st htree hok.jcalc w w' hw hw'
  have := hid.1
  show jacFill m _ _ _ _ G = jacFill m _ _ _ _ G
  rw [h.get_X_base (j := m.refBody id) (by dom)]
  exact h.jacFill htree (Dpos_jac m hok) _ _ _ _ hid.1

end
end Rbdl.L13
