import RbdlProofs.Lemmas.L17
/-
  C17 helper lemmas, part 5 (core Lean only): `CalcAssemblyQDot` in the model's own terms
  (`sumTo n f = Σ_{k<n} f k`, vectors as functions of the index): if the black-box solver returned a
  solution of the system it was given, the modelled routine returns velocities with `G q̇ = 0` that
  minimise `Σ wᵢ (yᵢ − q̇₀ᵢ)²` over `{y | G y = 0}`.
-/
namespace Rbdl.L17
open Lean.Grind Rbdl Rbdl.Iter
set_option linter.unusedSectionVars false

section sums
variable {α : Type} [CommRing α]

theorem sum_congr (n : Nat) (f g : Nat → α) (h : ∀ k, k < n → f k = g k) : sumTo n f = sumTo n g := by
  induction n with
  | zero => rfl
  | succ k ih =>
    simp only [sumTo]
    rw [ih (fun j hj => h j (by omega)), h k (by omega)]

theorem sum_zero (n : Nat) : sumTo n (fun _ => (0 : α)) = 0 := by
  induction n with
  | zero => rfl
  | succ k ih => simp only [sumTo, ih]; grind

theorem sum_add (n : Nat) (f g : Nat → α) : sumTo n (fun k => f k + g k) = sumTo n f + sumTo n g := by
  induction n with
  | zero => simp only [sumTo]; grind
  | succ k ih => simp only [sumTo, ih]; grind

theorem sum_mul_left (n : Nat) (a : α) (f : Nat → α) : sumTo n (fun k => a * f k) = a * sumTo n f := by
  induction n with
  | zero => simp only [sumTo]; grind
  | succ k ih => simp only [sumTo, ih]; grind

theorem sum_swap (n m : Nat) (f : Nat → Nat → α) :
    sumTo n (fun i => sumTo m (fun j => f i j)) = sumTo m (fun j => sumTo n (fun i => f i j)) := by
  induction n with
  | zero => simp only [sumTo]; rw [sum_zero]
  | succ k ih => simp only [sumTo, ih, sum_add]

theorem sum_append (a b : Nat) (f : Nat → α) :
    sumTo (a + b) f = sumTo a f + sumTo b (fun k => f (a + k)) := by
  induction b with
  | zero => simp only [sumTo, Nat.add_zero]; grind
  | succ k ih =>
    have e : a + (k + 1) = (a + k) + 1 := by omega
    rw [e]; simp only [sumTo, ih]; grind

/-- `Σ_{c<n} δ_{rc} a x_c = a x_r` -/
theorem sum_single (n r : Nat) (hr : r < n) (a : α) (x : Nat → α) :
    sumTo n (fun c => (if r = c then a else 0) * x c) = a * x r := by
  induction n with
  | zero => omega
  | succ k ih =>
    simp only [sumTo]
    by_cases h : r = k
    · subst h
      rw [sum_congr r _ (fun _ => 0) (fun c hc => by rw [if_neg (by omega)]; grind), sum_zero]
      simp; grind
    · rw [ih (by omega), if_neg h]; grind

end sums

section kkt
variable {α : Type} [Field α] [DecidableEq α] [LT α] [DecidableLT α]

/-- `x` solves `A x = b` on the leading `n × n` block -/
def Solves (n : Nat) (A : MatN α) (b x : VecN α) : Prop :=
  ∀ r, r < n → sumTo n (fun c => A r c * x c) = b r

/-- the upper block rows of the KKT system of the assembly routines:
    `wᵣ xᵣ + Σ_k G_{kr} λ_k = bᵣ`, `λ_k = x_{nv+k}` -/
theorem kkt_row_top (nv nc : Nat) (wts : VecN α) (G : MatN α) (b x : VecN α)
    (h : Solves (nv + nc) (kktMatrix nv wts G) b x) (r : Nat) (hr : r < nv) :
    wts r * x r + sumTo nc (fun k => G k r * x (nv + k)) = b r := by
  have := h r (by omega)
  rw [sum_append] at this
  rw [← this]
  congr 1
  · rw [← sum_single nv r hr (wts r) x]
    apply sum_congr
    intro c hc
    simp only [kktMatrix, if_pos hr, if_pos hc]
  · apply sum_congr
    intro k _
    simp only [kktMatrix, if_pos hr]
    rw [if_neg (by omega)]
    have : nv + k - nv = k := by omega
    rw [this]

/-- the lower block rows: `Σ_j G_{rj} x_j = b_{nv+r}` -/
theorem kkt_row_bottom (nv nc : Nat) (wts : VecN α) (G : MatN α) (b x : VecN α)
    (h : Solves (nv + nc) (kktMatrix nv wts G) b x) (r : Nat) (hr : r < nc) :
    sumTo nv (fun j => G r j * x j) = b (nv + r) := by
  have := h (nv + r) (by omega)
  rw [sum_append] at this
  rw [← this]
  have e0 : sumTo nc (fun k => kktMatrix nv wts G (nv + r) (nv + k) * x (nv + k)) = 0 := by
    rw [sum_congr nc _ (fun _ => 0) (fun k _ => by
      simp only [kktMatrix]
      rw [if_neg (by omega), if_neg (by omega)]; grind), sum_zero]
  rw [e0]
  have e1 : sumTo nv (fun c => kktMatrix nv wts G (nv + r) c * x c) = sumTo nv (fun j => G r j * x j) := by
    apply sum_congr
    intro c hc
    simp only [kktMatrix]
    rw [if_neg (by omega), if_pos hc]
    have : nv + r - nv = r := by omega
    rw [this]
  rw [e1]; grind

end kkt

section order
open Std
variable {α : Type} [Field α] [DecidableEq α] [LE α] [LT α] [DecidableLT α] [LawfulOrderLT α]
  [IsLinearOrder α] [OrderedRing α]

theorem sum_nonneg (n : Nat) (f : Nat → α) (h : ∀ k, k < n → 0 ≤ f k) : 0 ≤ sumTo n f := by
  induction n with
  | zero => simp only [sumTo]; grind
  | succ k ih =>
    have := ih (fun j hj => h j (by omega))
    have := h k (by omega)
    simp only [sumTo]; grind

/-- weighted squared distance to the initial guess, `Σ_{i<nv} wᵢ (yᵢ − q̇₀ᵢ)²` -/
def wlsCost (nv : Nat) (wts qd0 y : VecN α) : α :=
  sumTo nv (fun i => wts i * ((y i - qd0 i) * (y i - qd0 i)))

/-- weighted least squares in the model's terms -/
theorem wls_sum (nv nc : Nat) (wts : VecN α) (G : MatN α) (qd0 x lam : VecN α)
    (hw : ∀ i, i < nv → 0 ≤ wts i)
    (hstat : ∀ i, i < nv → wts i * x i + sumTo nc (fun k => G k i * lam k) = wts i * qd0 i)
    (hfeas : ∀ r, r < nc → sumTo nv (fun j => G r j * x j) = 0)
    (y : VecN α) (hy : ∀ r, r < nc → sumTo nv (fun j => G r j * y j) = 0) :
    wlsCost nv wts qd0 x ≤ wlsCost nv wts qd0 y := by
  -- cost y = cost x + Σ w d² + 2 Σ d w (x − q0),  d = y − x, and the last sum vanishes
  have hcross : sumTo nv (fun i => (y i - x i) * (wts i * (x i - qd0 i))) = 0 := by
    have e1 : sumTo nv (fun i => (y i - x i) * (wts i * (x i - qd0 i)))
        = sumTo nv (fun i => sumTo nc (fun k => -(lam k) * (G k i * (y i - x i)))) := by
      apply sum_congr
      intro i hi
      have := hstat i hi
      rw [show (fun k => -(lam k) * (G k i * (y i - x i))) = (fun k => (-(y i - x i)) * (G k i * lam k)) from
        funext (fun k => by grind), sum_mul_left]
      grind
    rw [e1, sum_swap]
    rw [sum_congr nc _ (fun _ => 0) (fun k hk => by
      rw [sum_mul_left]
      have : sumTo nv (fun i => G k i * (y i - x i)) = 0 := by
        rw [show (fun i => G k i * (y i - x i)) = (fun i => G k i * y i + (-1) * (G k i * x i)) from
          funext (fun i => by grind), sum_add, sum_mul_left, hy k hk, hfeas k hk]
        grind
      rw [this]; grind), sum_zero]
  have hsq : 0 ≤ sumTo nv (fun i => wts i * ((y i - x i) * (y i - x i))) := by
    apply sum_nonneg
    intro i hi
    have mn := @OrderedRing.mul_nonneg α _ _ _ _ _
    rcases (show 0 ≤ y i - x i ∨ 0 ≤ -(y i - x i) by grind) with h | h
    · exact mn (hw i hi) (mn h h)
    · have := mn (hw i hi) (mn h h); grind
  have hsplit : wlsCost nv wts qd0 y = wlsCost nv wts qd0 x
      + (sumTo nv (fun i => wts i * ((y i - x i) * (y i - x i)))
         + 2 * sumTo nv (fun i => (y i - x i) * (wts i * (x i - qd0 i)))) := by
    unfold wlsCost
    rw [← sum_mul_left, ← sum_add, ← sum_add]
    apply sum_congr
    intro i _; grind
  rw [hsplit, hcross]; grind

end order
end Rbdl.L17
