import RbdlProofs.Lemmas.L13Crba
/-
  C13 helper lemmas, part 11: the `update_kinematics = false` variants after the documented update
  call give the same result as the `update_kinematics = true` variants (flag pairs).
-/
namespace Rbdl.L13
open Lean.Grind Rbdl Rbdl.Loops Rbdl.L12
set_option linter.unusedSimpArgs false
set_option linter.unusedVariables false
set_option linter.unusedSectionVars false
set_option linter.constructorNameAsVariable false

section
variable {α : Type} [Field α]

theorem upd_comm {β : Type} (f : Nat → β) (i k : Nat) (a b : β) (h : i ≠ k) :
    upd (upd f i a) k b = upd (upd f k b) i a := by
  funext j; unfold upd; by_cases h1 : j = k <;> by_cases h2 : j = i <;> simp_all

theorem upd_upd {β : Type} (f : Nat → β) (i : Nat) (a b : β) :
    upd (upd f i a) i b = upd f i b := by
  funext j; unfold upd; by_cases h1 : j = i <;> simp_all

/-- `v[0] = 0` -/
def zV (w : WS α) : WS α := { w with v := upd w.v 0 SV.zero }

theorem jcalc_zV (m : ModelS α) (w : WS α) (i : Nat) (st : QS α) (qd : VecN α) :
    jcalc m (zV w) i st qd = zV (jcalc m w i st qd) := by
  rw [jcalc_eq, jcalc_eq]; rfl

theorem stXb_zV (m : ModelS α) (i : Nat) (w : WS α) : stXb m i (zV w) = zV (stXb m i w) := rfl
theorem stXb0_zV (i : Nat) (w : WS α) : stXb0 i (zV w) = zV (stXb0 i w) := rfl

theorem stV_zV (m : ModelS α) (i : Nat) (w : WS α) (hi : i ≠ 0) (hl : m.lam i ≠ 0) :
    stV m i (zV w) = zV (stV m i w) := by
  unfold stV zV
  dsimp only
  rw [upd_other _ _ _ _ hl, upd_comm _ _ _ _ _ (fun e => hi e.symm)]

theorem stV0_zV (i : Nat) (w : WS α) (hi : i ≠ 0) : stV0 i (zV w) = zV (stV0 i w) := by
  unfold stV0 zV
  dsimp only
  rw [upd_comm _ _ _ _ _ (fun e => hi e.symm)]

theorem stC_zV (i : Nat) (w : WS α) (hi : i ≠ 0) : stC i (zV w) = zV (stC i w) := by
  unfold stC zV
  dsimp only
  rw [upd_other _ _ _ _ hi]

theorem ukcBody_zV (m : ModelS α) (st : QS α) (i : Nat) (w : WS α) :
    ukcBody m st i (zV w) = zV (ukcBody m st i w) := by
  rw [ukcBody_steps, ukcBody_steps, jcalc_zV]
  split
  · rw [stXb_zV]
  · rw [stXb0_zV]

theorem ukcVelBody_zV (m : ModelS α) (st : QS α) (qd : VecN α) (i : Nat) (w : WS α) (hi : i ≠ 0) :
    ukcVelBody m st qd i (zV w) = zV (ukcVelBody m st qd i w) := by
  rw [ukcVelBody_steps, ukcVelBody_steps, jcalc_zV]
  split
  · rename_i hl; rw [stV_zV m i _ hi hl, stC_zV i _ hi]
  · rw [stV0_zV i _ hi, stC_zV i _ hi]

theorem forUp_comm {σ : Type} (F : σ → σ) (body : Nat → σ → σ) (n lo : Nat)
    (h : ∀ i s, lo ≤ i → i < lo + n → body i (F s) = F (body i s)) (s : σ) :
    forUp n lo body (F s) = F (forUp n lo body s) :=
  forUp_sim (fun a b => a = F b) body body n lo
    (fun i a b h1 h2 e => by rw [e, h i b h1 h2]) (F s) s rfl

/-- clearing `v[0]` commutes with `UpdateKinematicsCustom(Q, QDot)` -/
theorem ukc_qv_zV (m : ModelS α) (w : WS α) (st : QS α) (qd : VecN α) :
    updateKinematicsCustom m (zV w) (some st) (some qd) none
      = zV (updateKinematicsCustom m w (some st) (some qd) none) := by
  rw [ukc_full_eq, ukc_full_eq, ukc_eq_forUp, ukc_eq_forUp]
  dsimp only
  rw [forUp_comm zV (ukcBody m st) _ _ (fun i s _ _ => ukcBody_zV m st i s),
    forUp_comm zV (ukcVelBody m st qd) _ _ (fun i s h1 _ => ukcVelBody_zV m st qd i s (by omega))]

theorem flag_pointVelocity6D (m : ModelS α) (w : WS α) (st : QS α) (qd : VecN α) (id : Nat)
    (p : V3 α) :
    (calcPointVelocity6D m (updateKinematicsCustom m w (some st) (some qd) none) st qd id p
      false).2 = (calcPointVelocity6D m w st qd id p true).2 := by
  rw [pv6D_eq]
  show pvOut m (zV _) id p = pvOut m (updateKinematicsCustom m (zV w) _ _ _) id p
  rw [ukc_qv_zV]

/-- `a[0] = 0` -/
def zA (w : WS α) : WS α := { w with a := upd w.a 0 SV.zero }

theorem stAk_zV (m : ModelS α) (qdd : VecN α) (i : Nat) (w : WS α) :
    stAk m qdd i (zV w) = zV (stAk m qdd i w) := rfl

theorem ukBody_zV (m : ModelS α) (st : QS α) (qd qdd : VecN α) (i : Nat) (w : WS α) (hi : i ≠ 0) :
    ukBody m st qd qdd i (zV w) = zV (ukBody m st qd qdd i w) := by
  rw [ukBody_steps, ukBody_steps, jcalc_zV]
  split
  · rename_i hl; rw [stXb_zV, stV_zV m i _ hi hl, stC_zV i _ hi, stAk_zV]
  · rw [stXb0_zV, stV0_zV i _ hi, stC_zV i _ hi, stAk_zV]

theorem jcalc_a (m : ModelS α) (w : WS α) (i : Nat) (st : QS α) (qd : VecN α) :
    (jcalc m w i st qd).a = w.a := by rw [jcalc_eq]

theorem ukBody_a_other (m : ModelS α) (st : QS α) (qd qdd : VecN α) (i : Nat) (w : WS α)
    (j : Nat) (hj : j ≠ i) : (ukBody m st qd qdd i w).a j = w.a j := by
  rw [ukBody_steps]
  unfold stAk
  dsimp only
  rw [upd_other _ _ _ _ hj]
  split <;> exact congrFun (jcalc_a m w i st qd) j

theorem uk_a0 (m : ModelS α) (w : WS α) (st : QS α) (qd qdd : VecN α) :
    (updateKinematics m w st qd qdd).a 0 = SV.zero := by
  rw [uk_eq, forUp_get_outside (fun s => s.a) (ukBody m st qd qdd)
    (fun i s j hj => ukBody_a_other m st qd qdd i s j hj) _ _ _ 0 (Or.inl (by omega))]
  show upd w.a 0 SV.zero 0 = SV.zero
  exact upd_same _ _ _

/-- clearing `v[0]`, `a[0]` commutes with `UpdateKinematics` -/
theorem uk_zVA (m : ModelS α) (w : WS α) (st : QS α) (qd qdd : VecN α) :
    updateKinematics m (zA (zV w)) st qd qdd = zA (zV (updateKinematics m w st qd qdd)) := by
  have e1 : updateKinematics m (zA (zV w)) st qd qdd = zV (updateKinematics m w st qd qdd) := by
    rw [uk_eq, uk_eq]
    have : ({ zA (zV w) with a := upd (zA (zV w)).a 0 SV.zero } : WS α)
        = zV { w with a := upd w.a 0 SV.zero } := by
      unfold zA zV; dsimp only; rw [upd_upd]
    rw [this, forUp_comm zV (ukBody m st qd qdd) _ _
      (fun i s h1 _ => ukBody_zV m st qd qdd i s (by omega))]
  rw [e1]
  have e2 : (zV (updateKinematics m w st qd qdd)).a 0 = SV.zero := uk_a0 m w st qd qdd
  unfold zA
  rw [← e2, upd_self]

theorem flag_pointAcceleration6D (m : ModelS α) (w : WS α) (st : QS α) (qd qdd : VecN α)
    (id : Nat) (p : V3 α) :
    (calcPointAcceleration6D m (updateKinematics m w st qd qdd) st qd qdd id p false).2
      = (calcPointAcceleration6D m w st qd qdd id p true).2 := by
  rw [pa6D_eq]
  show paOut m (zA (zV _)) id p = paOut m (updateKinematics m (zA (zV w)) _ _ _) id p
  rw [uk_zVA]

/-! ### `crba` without update after `UpdateKinematicsCustom(Q)` -/

theorem Agree.trans {m : ModelS α} {D D' : Dom} {a b c : WS α} (h : Agree m D a b)
    (h' : Agree m D' b c) : Agree m (fun g j => D g j ∧ D' g j) a c :=
  ⟨h.fix, h'.fix', fun g j hgj => (h.eq g j hgj.1).trans (h'.eq g j hgj.2)⟩

theorem Agree.symm {m : ModelS α} {D : Dom} {a b : WS α} (h : Agree m D a b) : Agree m D b a :=
  ⟨h.fix', h.fix, fun g j hgj => (h.eq g j hgj).symm⟩

/-- replacing the left workspace by one with the same entries on `D'` -/
theorem Agree.left {m : ModelS α} {D D' : Dom} {w w' : WS α} (h : Agree m D w w') (w2 : WS α)
    (hfix : WSFixed m w2) (hv : ∀ g j, D' g j → D g j ∧ view m w2 g j = view m w g j) :
    Agree m D' w2 w' :=
  ⟨hfix, h.fix', fun g j hgj => ((hv g j hgj).2).trans (h.eq g j (hv g j hgj).1)⟩

/-- on a reachable workspace `jcalc` and `jcalc_X_lambda_S` leave the same entries everywhere
    except in `v_J`, `c_J` -/
theorem jcalc_vs_xls (m : ModelS α) (w : WS α) (i : Nat) (st : QS α) (qd : VecN α)
    (hw : WSFixed m w) (h1 : 1 ≤ i) (h2 : i < m.nBodies) :
    Agree m (fun g _ => g ≠ .v_J ∧ g ≠ .c_J) (jcalc m w i st qd) (jcalcXlambdaS m w i st) := by
  refine ⟨wsfixed_jcalc m w i st qd hw, wsfixed_jcalcXlambdaS m w i st hw, fun g j hgj => ?_⟩
  have hF := hw.2 i h1 h2
  rw [jcalc_eq, jcalcXlambdaS_eq]
  cases g
  case v_J => exact absurd rfl hgj.1
  case c_J => exact absurd rfl hgj.2
  case S => simp only [view]; rw [xlsS_of_fixed m i st _ _ _ _ hF]
  all_goals rfl

theorem view_stXb (m : ModelS α) (i : Nat) (w : WS α) (g : Fld) (j : Nat)
    (h : ¬ (g = .X_base ∧ j = i)) : view m (stXb m i w) g j = view m w g j := by
  cases g <;> first
    | rfl
    | (simp only [view, stXb]
       rw [upd_other _ _ _ _ (fun e => h ⟨rfl, e⟩)])

theorem view_stXb0 (m : ModelS α) (i : Nat) (w : WS α) (g : Fld) (j : Nat)
    (h : ¬ (g = .X_base ∧ j = i)) : view m (stXb0 i w) g j = view m w g j := by
  cases g <;> first
    | rfl
    | (simp only [view, stXb0]
       rw [upd_other _ _ _ _ (fun e => h ⟨rfl, e⟩)])

theorem view_stIc (m : ModelS α) (i : Nat) (w : WS α) (g : Fld) (j : Nat)
    (h : ¬ (g = .Ic ∧ j = i)) : view m (stIc m i w) g j = view m w g j := by
  cases g <;> first
    | rfl
    | (simp only [view, stIc]
       rw [upd_other _ _ _ _ (fun e => h ⟨rfl, e⟩)])

theorem wsfixed_stXb (m : ModelS α) (i : Nat) (w : WS α) (hi : 1 ≤ i) (h : WSFixed m w) :
    WSFixed m (stXb m i w) := wsfixed_congr _ h rfl rfl rfl rfl (upd_zero_of_pos _ _ _ hi)
theorem wsfixed_stXb0 (m : ModelS α) (i : Nat) (w : WS α) (hi : 1 ≤ i) (h : WSFixed m w) :
    WSFixed m (stXb0 i w) := wsfixed_congr _ h rfl rfl rfl rfl (upd_zero_of_pos _ _ _ hi)

/-- entries of the left run (`UpdateKinematicsCustom(Q)`) and the right run (first loop of `crba`
    with update) that agree after `k - 1` iterations -/
@[dom] def Dcx (m : ModelS α) (k : Nat) : Dom := Dom.rng [.X_lambda] 1 k ∪ SDom m 1 k

theorem crbaFlag_step (m : ModelS α) (st : QS α) (hjc : AllJcalc m) (i : Nat) (s t : WS α)
    (h1 : 1 ≤ i) (h2 : i < 1 + (m.nBodies - 1))
    (h : Agree m (Dcx m i) s t ∧ ∀ j, 1 ≤ j → j < i → t.Ic j = m.rbi j) :
    Agree m (Dcx m (i + 1)) (ukcBody m st i s) (crbaInitBody m st true i t) ∧
      ∀ j, 1 ≤ j → j < i + 1 → (crbaInitBody m st true i t).Ic j = m.rbi j := by
  obtain ⟨hA, hI⟩ := h
  have hJ := hA.jcalcU i h1 (by omega) (hjc i h1 (by omega)) st zeroVec
  have hX := jcalc_vs_xls m t i st zeroVec hA.fix' h1 (by omega)
  have hJX : Agree m (Dcx m (i + 1)) (jcalc m s i st zeroVec) (jcalcXlambdaS m t i st) :=
    (hJ.trans hX).mono (by
      intro g j hgj
      refine ⟨by revert g j; dom, ?_, ?_⟩ <;>
        (rintro rfl
         simp only [dom, List.mem_cons, List.mem_nil_iff, or_false, reduceCtorEq, false_and,
           false_or, or_self] at hgj))
  refine ⟨?_, ?_⟩
  · rw [ukcBody_steps, crbaInitBody_steps]
    have hno : ∀ g j, Dcx m (i + 1) g j → ¬ (g = .X_base ∧ j = i) ∧ ¬ (g = .Ic ∧ j = i) := by
      intro g j hgj
      constructor <;>
        (rintro ⟨rfl, _⟩
         simp only [dom, List.mem_cons, List.mem_nil_iff, or_false, reduceCtorEq, false_and,
           false_or, or_self] at hgj)
    have hR : Agree m (Dcx m (i + 1)) (jcalc m s i st zeroVec)
        (stIc m i (jcalcXlambdaS m t i st)) :=
      (hJX.symm.left (stIc m i (jcalcXlambdaS m t i st))
        (wsfixed_congr _ hJX.fix' rfl rfl rfl rfl rfl)
        (fun g j hgj => ⟨hgj, view_stIc m i _ g j (hno g j hgj).2⟩)).symm
    split
    · exact hR.left (stXb m i (jcalc m s i st zeroVec)) (wsfixed_stXb m i _ h1 hR.fix)
        (fun g j hgj => ⟨hgj, view_stXb m i _ g j (hno g j hgj).1⟩)
    · exact hR.left (stXb0 i (jcalc m s i st zeroVec)) (wsfixed_stXb0 m i _ h1 hR.fix)
        (fun g j hgj => ⟨hgj, view_stXb0 m i _ g j (hno g j hgj).1⟩)
  · intro j hj1 hj2
    rw [crbaInitBody_steps]
    show upd (jcalcXlambdaS m t i st).Ic i (m.rbi i) j = m.rbi j
    by_cases e : j = i
    · subst e; exact upd_same _ _ _
    · rw [upd_other _ _ _ _ e, jcalcXlambdaS_eq]; exact hI j hj1 (by omega)

theorem forUp_id {σ : Type} (n lo : Nat) (s : σ) : forUp n lo (fun _ t => t) s = s := by
  induction n generalizing lo with
  | zero => rfl
  | succ k ih => rw [forUp]; exact ih _

theorem stIc_self (m : ModelS α) (i : Nat) (t : WS α) (h : t.Ic i = m.rbi i) : stIc m i t = t := by
  unfold stIc; rw [← h, upd_self]

theorem crbaInitBody_false (m : ModelS α) (st : QS α) (i : Nat) (w : WS α) :
    crbaInitBody m st false i w = stIc m i w := rfl

/-- `crba` without update from the workspace left by `UpdateKinematicsCustom(Q)` gives the matrix
    `crba` with update computes from the original (reachable) workspace -/
theorem flag_crba (m : ModelS α) (st : QS α) (H : MatN α) (htree : TreeOrder m)
    (hok : AllJointOK m) (w : WS α) (hw : WSFixed m w) :
    (crba m (updateKinematicsCustom m w (some st) none none) st H false).2
      = (crba m w st H true).2 := by
  rw [crba_eq, crba_eq, ukc_eq_forUp]
  obtain ⟨hA, hI⟩ := forUp_simI
    (fun k s t => Agree m (Dcx m k) s t ∧ ∀ j, 1 ≤ j → j < k → t.Ic j = m.rbi j)
    (ukcBody m st) (crbaInitBody m st true) (m.nBodies - 1) 1
    (fun i s t h1 h2 h => crbaFlag_step m st hok.jcalc i s t h1 h2 h) w w
    ⟨Agree.refl hw, fun j h1 h2 => by omega⟩
  generalize forUp (m.nBodies - 1) 1 (ukcBody m st) w = sL at hA
  generalize forUp (m.nBodies - 1) 1 (crbaInitBody m st true) w = tR at hA hI
  have h2 := forUp_simI
    (fun k s t => Agree m (Dcx m (1 + (m.nBodies - 1)) ∪ Dom.rng [.Ic] 1 k) s t ∧ t = tR)
    (crbaInitBody m st false) (fun _ t => t) (m.nBodies - 1) 1
    (fun i s t h1 h2 h => by
      obtain ⟨hB, rfl⟩ := h
      refine ⟨?_, rfl⟩
      have := hB.stIc i
      rw [stIc_self m i t (hI i h1 h2)] at this
      rw [crbaInitBody_false]
      exact this.mono (by dom)) sL tR ⟨hA.mono (by dom), rfl⟩
  rw [forUp_id] at h2
  exact crba_bwd_sim m htree hok _ (by dom) _ _ H h2.1

end
end Rbdl.L13
