import RbdlProofs.Lemmas.Kkt
import Mathlib.Algebra.Order.BigOperators.Group.Finset
/-
  C17 helper lemmas, part 4 (Mathlib matrices, arbitrary finite index types): the weighted
  least-squares characterisation of the KKT system that `CalcAssemblyQDot` solves,

      [ W  Gᵀ ] [ x ]   [ W q̇₀ ]
      [ G  0  ] [ λ ] = [   0   ] .

  Reuses `Rbdl.Kkt.dot_transpose_mulVec`, `dot_mulVec_symm`, `kkt_unique_of_definite`.
-/
namespace Rbdl.L17
open Matrix Rbdl.Kkt

variable {K : Type*} {m n : Type*} [Fintype m] [Fintype n]

section ring
variable [CommRing K]

/-- the block system is the pair of relations `W x + Gᵀ λ = W q̇₀`, `G x = 0` -/
theorem wls_block (W : Matrix n n K) (G : Matrix m n K) (q0 x : n → K) (l : m → K) :
    fromBlocks W Gᵀ G 0 *ᵥ Sum.elim x l = Sum.elim (W *ᵥ q0) 0 ↔
      W *ᵥ x + Gᵀ *ᵥ l = W *ᵥ q0 ∧ G *ᵥ x = 0 := by
  rw [fromBlocks_mulVec, Sum.elim_comp_inl, Sum.elim_comp_inr, zero_mulVec, add_zero, Sum.elim_eq_iff]

/-- the cost of any feasible `y` exceeds the cost of the KKT point by the cost of the difference -/
theorem wls_cost_identity (W : Matrix n n K) (hW : W.IsSymm) (G : Matrix m n K) (q0 x : n → K) (l : m → K)
    (h1 : W *ᵥ x + Gᵀ *ᵥ l = W *ᵥ q0) (h2 : G *ᵥ x = 0) (y : n → K) (hy : G *ᵥ y = 0) :
    (y - q0) ⬝ᵥ W *ᵥ (y - q0) = (x - q0) ⬝ᵥ W *ᵥ (x - q0) + (y - x) ⬝ᵥ W *ᵥ (y - x) := by
  have hd : G *ᵥ (y - x) = 0 := by rw [mulVec_sub, hy, h2, sub_zero]
  have ha : W *ᵥ (x - q0) = -(Gᵀ *ᵥ l) := by
    rw [mulVec_sub, ← h1]; abel
  have hc : (y - x) ⬝ᵥ W *ᵥ (x - q0) = 0 := by
    rw [ha, dotProduct_neg, dot_transpose_mulVec, hd, zero_dotProduct, neg_zero]
  have hc' : (x - q0) ⬝ᵥ W *ᵥ (y - x) = 0 := by rw [dot_mulVec_symm hW, hc]
  have e : y - q0 = (x - q0) + (y - x) := by abel
  rw [e, mulVec_add, dotProduct_add, add_dotProduct, add_dotProduct, hc, hc']
  abel

end ring

section order
variable [CommRing K] [PartialOrder K] [IsOrderedRing K]

/-- **weighted least squares**: a solution of the KKT system with a symmetric positive semidefinite
    weight matrix satisfies the constraints and minimises `(y − q̇₀)ᵀ W (y − q̇₀)` over `{y | G y = 0}` -/
theorem wls_optimal (W : Matrix n n K) (hW : W.IsSymm) (hpsd : ∀ v : n → K, 0 ≤ v ⬝ᵥ W *ᵥ v)
    (G : Matrix m n K) (q0 x : n → K) (l : m → K)
    (h1 : W *ᵥ x + Gᵀ *ᵥ l = W *ᵥ q0) (h2 : G *ᵥ x = 0) :
    ∀ y, G *ᵥ y = 0 → (x - q0) ⬝ᵥ W *ᵥ (x - q0) ≤ (y - q0) ⬝ᵥ W *ᵥ (y - q0) := by
  intro y hy
  rw [wls_cost_identity W hW G q0 x l h1 h2 y hy]
  exact le_add_of_nonneg_right (hpsd _)

/-- … and it is the only minimiser if `W` is definite -/
theorem wls_unique (W : Matrix n n K) (hW : W.IsSymm) (hdef : ∀ v : n → K, v ⬝ᵥ W *ᵥ v = 0 → v = 0)
    (G : Matrix m n K) (q0 x : n → K) (l : m → K)
    (h1 : W *ᵥ x + Gᵀ *ᵥ l = W *ᵥ q0) (h2 : G *ᵥ x = 0) (y : n → K) (hy : G *ᵥ y = 0)
    (hc : (y - q0) ⬝ᵥ W *ᵥ (y - q0) = (x - q0) ⬝ᵥ W *ᵥ (x - q0)) : y = x := by
  rw [wls_cost_identity W hW G q0 x l h1 h2 y hy] at hc
  have : (y - x) ⬝ᵥ W *ᵥ (y - x) = 0 := by
    have := add_left_cancel (a := (x - q0) ⬝ᵥ W *ᵥ (x - q0)) (b := (y - x) ⬝ᵥ W *ᵥ (y - x)) (c := 0)
    exact this (by rw [add_zero]; exact hc)
  exact sub_eq_zero.mp (hdef _ this)

end order

section diag
variable [CommRing K] [LinearOrder K] [IsStrictOrderedRing K] [DecidableEq n]

omit [LinearOrder K] [IsStrictOrderedRing K] in
theorem diagonal_quadratic (w v : n → K) : v ⬝ᵥ diagonal w *ᵥ v = ∑ i, w i * (v i * v i) := by
  simp only [dotProduct, mulVec_diagonal]
  apply Finset.sum_congr rfl
  intro i _; ring

/-- non-negative diagonal weights are positive semidefinite -/
theorem diagonal_psd (w : n → K) (hw : ∀ i, 0 ≤ w i) (v : n → K) : 0 ≤ v ⬝ᵥ diagonal w *ᵥ v := by
  rw [diagonal_quadratic]
  exact Finset.sum_nonneg (fun i _ => mul_nonneg (hw i) (mul_self_nonneg (v i)))

/-- **the statement for `CalcAssemblyQDot`**: diagonal non-negative weights, block form of the system -/
theorem wls_optimal_diagonal (w : n → K) (hw : ∀ i, 0 ≤ w i) (G : Matrix m n K) (q0 x : n → K) (l : m → K)
    (h : fromBlocks (diagonal w) Gᵀ G 0 *ᵥ Sum.elim x l = Sum.elim (diagonal w *ᵥ q0) 0) :
    G *ᵥ x = 0 ∧
    ∀ y, G *ᵥ y = 0 → ∑ i, w i * ((x i - q0 i) * (x i - q0 i)) ≤ ∑ i, w i * ((y i - q0 i) * (y i - q0 i)) := by
  obtain ⟨h1, h2⟩ := (wls_block _ G q0 x l).mp h
  refine ⟨h2, fun y hy => ?_⟩
  have := wls_optimal (diagonal w) (isSymm_diagonal w) (diagonal_psd w hw) G q0 x l h1 h2 y hy
  rw [diagonal_quadratic, diagonal_quadratic] at this
  simpa using this

end diag
end Rbdl.L17
