import RbdlProofs.Lemmas.L07Misc
import RbdlProofs.Props.C14
/-
  Concrete instances over `Rat` for the non-vacuity examples of C07.
-/
namespace Rbdl.L07.Ex
open Lean.Grind Rbdl Rbdl.Loops Rbdl.L01 Rbdl.ModelS
set_option linter.unusedVariables false

def body : Body Rat := ⟨2, ⟨0, 1/2, 1⟩, ⟨2,1,0, 1,3,1, 0,1,4⟩, false⟩
/-- joint frame: a rotation with no zero entries pattern plus a translation -/
def frame : XT Rat := C16.Ex.X
def jy : Joint Rat := Joint.revolute ⟨0, 1, 0⟩
def jEuler (e : JT) : Joint Rat := (Joint.ofType e).getD Joint.root
def jChain (e : JT) : Joint Rat :=
  Joint.ofAxes [axisJ (eulerAxes e).1, axisJ (eulerAxes e).2.1, axisJ (eulerAxes e).2.2]

/-- base body on a revolute joint, then the body on a specialised Euler joint -/
def opsE (e : JT) : List (Op Rat) :=
  [.addBody 0 frame jy body "base", .addBody 1 frame (jEuler e) body "b"]
/-- the same with the emulated 3-DoF joint about the same axes -/
def opsC (e : JT) : List (Op Rat) :=
  [.addBody 0 frame jy body "base", .addBody 1 frame (jChain e) body "b"]
def mE (e : JT) : ModelS Rat := ModelS.init.run (opsE e)
def mC (e : JT) : ModelS Rat := ModelS.init.run (opsC e)

theorem mC_wf : (mC .eulerZYX).WF := C14.wf_run _ (by decide +kernel)
theorem mE_wf : (mE .eulerZYX).WF := C14.wf_run _ (by decide +kernel)
theorem mC_n : (mC .eulerZYX).nBodies = 5 := by decide +kernel
theorem mE_n : (mE .eulerZYX).nBodies = 3 := by decide +kernel

theorem chainZYX : EulerChain (mE .eulerZYX) 2 (mC .eulerZYX) 2 3 4 := by
  constructor <;> decide +kernel
theorem chainXYZ : EulerChain (mE .eulerXYZ) 2 (mC .eulerXYZ) 2 3 4 := by
  constructor <;> decide +kernel
theorem chainYXZ : EulerChain (mE .eulerYXZ) 2 (mC .eulerYXZ) 2 3 4 := by
  constructor <;> decide +kernel
theorem chainZXY : EulerChain (mE .eulerZXY) 2 (mC .eulerZXY) 2 3 4 := by
  constructor <;> decide +kernel

/-- state: all angles with `(cos, sin) = (3/5, 4/5)` -/
def st : QS Rat := { q := fun n => (n : Rat) / 2 + 1, c := fun _ => 3/5, s := fun _ => 4/5 }
def qd : VecN Rat := fun n => (n : Rat) / 3 - 1
def qdd : VecN Rat := fun n => 2 - (n : Rat) / 5
theorem st_unit (k : Nat) : st.c k * st.c k + st.s k * st.s k = 1 := by
  show (3/5 : Rat) * (3/5) + (4/5) * (4/5) = 1
  grind

theorem axesOK_of_joints (m : ModelS Rat)
    (h : ∀ j ∈ m.joints, (j.jt = .revoluteX → j.axes.headD SV.zero = sv6 1 0 0 0 0 0) ∧
      (j.jt = .revoluteY → j.axes.headD SV.zero = sv6 0 1 0 0 0 0) ∧
      (j.jt = .revoluteZ → j.axes.headD SV.zero = sv6 0 0 1 0 0 0))
    (hl : m.joints.length = m.nBodies) : L13.AxesOK m := by
  intro i h1 h2
  have : m.joint i ∈ m.joints := by
    unfold ModelS.joint
    rw [List.getD_eq_getElem?_getD, List.getElem?_eq_getElem (by omega)]
    exact List.getElem_mem _
  exact h _ this

theorem mC_axes : L13.AxesOK (mC .eulerZYX) :=
  axesOK_of_joints _ (by decide +kernel) (by decide +kernel)
theorem mE_axes : L13.AxesOK (mE .eulerZYX) :=
  axesOK_of_joints _ (by decide +kernel) (by decide +kernel)

/-- workspaces: the construction-time workspace, poisoned, with a chosen state of body 1 -/
def pk : Kin Rat := ⟨C16.Ex.Y, ⟨⟨1, 2, 3⟩, ⟨-1, 0, 2⟩⟩, ⟨⟨0, 1, -2⟩, ⟨3, 1, 1⟩⟩⟩
def wE : WS Rat :=
  let w := poison (mE .eulerZYX) (initWS (mE .eulerZYX)) 7
  { w with X_base := upd w.X_base 1 pk.Xb, v := upd w.v 1 pk.v, a := upd w.a 1 pk.a }
def wC : WS Rat :=
  let w := poison (mC .eulerZYX) (initWS (mC .eulerZYX)) 11
  { w with X_base := upd w.X_base 1 pk.Xb, v := upd w.v 1 pk.v, a := upd w.a 1 pk.a }

theorem wE_fixed (i : Nat) (h1 : 1 ≤ i) (h2 : i < (mE .eulerZYX).nBodies) :
    FixedW (mE .eulerZYX) wE i :=
  (L13.wsfixed_poison _ _ 7 (L13.wsfixed_initWS _ mE_axes)).2 i h1 h2
theorem wC_fixed (i : Nat) (h1 : 1 ≤ i) (h2 : i < (mC .eulerZYX).nBodies) :
    FixedW (mC .eulerZYX) wC i :=
  (L13.wsfixed_poison _ _ 11 (L13.wsfixed_initWS _ mC_axes)).2 i h1 h2

theorem parent_eq : parentKin (mE .eulerZYX) wE 2 = parentKin (mC .eulerZYX) wC 2 := by
  have h1 : (mE .eulerZYX).lam 2 = 1 := by decide +kernel
  have h2 : (mC .eulerZYX).lam 2 = 1 := by decide +kernel
  unfold parentKin
  rw [h1, h2, if_pos (by decide), if_pos (by decide)]
  unfold kinOf wE wC
  simp only [upd_same]

theorem no_custom (m : ModelS Rat) (h : ∀ j ∈ m.joints, j.jt ≠ .custom) : CustomInj m := by
  intro i j hi _ _
  exfalso
  have hl := L01.Ex.joint_custom_lt m i hi
  have : m.joint i ∈ m.joints := by
    unfold ModelS.joint
    rw [List.getD_eq_getElem?_getD, List.getElem?_eq_getElem hl]
    exact List.getElem_mem _
  exact h _ this hi

theorem mC_customInj : CustomInj (mC .eulerZYX) := no_custom _ (by decide +kernel)

theorem mC_arity : ∀ j, 1 ≤ j → j < (mC .eulerZYX).nBodies → (mC .eulerZYX).arity j ≠ .other := by
  intro j h1 h2
  rw [mC_n] at h2
  obtain rfl | rfl | rfl | rfl : j = 1 ∨ j = 2 ∨ j = 3 ∨ j = 4 := by omega
  all_goals decide +kernel


/-! ### `TranslationXYZ` versus three prismatic joints -/
def jTrans : Joint Rat := (Joint.ofType .translationXYZ).getD Joint.root
def jTChain : Joint Rat := Joint.ofAxes [L07.ex, L07.ey, L07.ez]
def mTE : ModelS Rat := ModelS.init.run
  [.addBody 0 frame jy body "base", .addBody 1 frame jTrans body "b"]
def mTC : ModelS Rat := ModelS.init.run
  [.addBody 0 frame jy body "base", .addBody 1 frame jTChain body "b"]
theorem mTC_wf : mTC.WF := C14.wf_run _ (by decide +kernel)
theorem mTC_n : mTC.nBodies = 5 := by decide +kernel
theorem mTE_n : mTE.nBodies = 3 := by decide +kernel
theorem chainT : TransChain mTE 2 mTC 2 3 4 := by
  constructor <;> decide +kernel
theorem mTC_axes : L13.AxesOK mTC := axesOK_of_joints _ (by decide +kernel) (by decide +kernel)
theorem mTE_axes : L13.AxesOK mTE := axesOK_of_joints _ (by decide +kernel) (by decide +kernel)
def wTE : WS Rat :=
  let w := poison mTE (initWS mTE) 5
  { w with X_base := upd w.X_base 1 pk.Xb, v := upd w.v 1 pk.v, a := upd w.a 1 pk.a }
def wTC : WS Rat :=
  let w := poison mTC (initWS mTC) 3
  { w with X_base := upd w.X_base 1 pk.Xb, v := upd w.v 1 pk.v, a := upd w.a 1 pk.a }
theorem wTE_fixed (i : Nat) (h1 : 1 ≤ i) (h2 : i < mTE.nBodies) : FixedW mTE wTE i :=
  (L13.wsfixed_poison _ _ 5 (L13.wsfixed_initWS _ mTE_axes)).2 i h1 h2
theorem wTC_fixed (i : Nat) (h1 : 1 ≤ i) (h2 : i < mTC.nBodies) : FixedW mTC wTC i :=
  (L13.wsfixed_poison _ _ 3 (L13.wsfixed_initWS _ mTC_axes)).2 i h1 h2
theorem parentT_eq : parentKin mTE wTE 2 = parentKin mTC wTC 2 := by
  have h1 : mTE.lam 2 = 1 := by decide +kernel
  have h2 : mTC.lam 2 = 1 := by decide +kernel
  unfold parentKin
  rw [h1, h2, if_pos (by decide), if_pos (by decide)]
  unfold kinOf wTE wTC
  simp only [upd_same]
theorem mTC_customInj : CustomInj mTC := no_custom _ (by decide +kernel)
theorem mTC_arity : ∀ j, 1 ≤ j → j < mTC.nBodies → mTC.arity j ≠ .other := by
  intro j h1 h2
  rw [mTC_n] at h2
  obtain rfl | rfl | rfl | rfl : j = 1 ∨ j = 2 ∨ j = 3 ∨ j = 4 := by omega
  all_goals decide +kernel


/-! ### F: `RevoluteX` three ways -/
def mFA : ModelS Rat := ModelS.init.run
  [.addBody 0 frame jy body "base", .addBody 1 frame (jEuler .revoluteX) body "b"]
def mFB : ModelS Rat := ModelS.init.run
  [.addBody 0 frame jy body "base", .addBody 1 frame (Joint.revolute ⟨1, 0, 0⟩) body "b"]
def mFC : ModelS Rat := ModelS.init.run
  [.addBody 0 frame jy body "base", .addBodyCustomJoint 1 frame .revX body "b"]
theorem mFA_axes : L13.AxesOK mFA := axesOK_of_joints _ (by decide +kernel) (by decide +kernel)
theorem mFB_axes : L13.AxesOK mFB := axesOK_of_joints _ (by decide +kernel) (by decide +kernel)
theorem mFA_fixed : FixedW mFA (initWS mFA) 2 :=
  (L13.wsfixed_initWS _ mFA_axes).2 2 (by decide) (by decide +kernel)
theorem mFB_fixed : FixedW mFB (poison mFB (initWS mFB) 9) 2 :=
  (L13.wsfixed_poison _ _ 9 (L13.wsfixed_initWS _ mFB_axes)).2 2 (by decide) (by decide +kernel)

/-- user-defined joint re-implementing `EulerZYX` -/
def mFCE : ModelS Rat := ModelS.init.run
  [.addBody 0 frame jy body "base", .addBodyCustomJoint 1 frame .eulerZYX body "b"]

/-! ### E: fixed joint versus merged body -/
def bodyF : Body Rat := ⟨3, ⟨1, 0, 2⟩, ⟨5,-1,2, -1,6,0, 2,0,7⟩, false⟩
def jfix : Joint Rat := ⟨.fixed, [], 0, 0, noCustom⟩
def mP : ModelS Rat := (ModelS.init.addBodyMovable 0 frame jy body "p").1
def mPF : ModelS Rat := (mP.addBodyFixed 1 C16.Ex.Y bodyF "f").1
theorem mP_add : (ModelS.init : ModelS Rat).addBodyMovable 0 frame jy body "p" = (mP, .ok 1) := rfl
theorem mPF_add : mP.addBodyFixed 1 C16.Ex.Y bodyF "f" = (mPF, .ok fixedDisc) := by
  have h : (mP.addBodyFixed 1 C16.Ex.Y bodyF "f").2 = .ok fixedDisc := by decide +kernel
  exact Prod.ext rfl h

/-! ### G: spherical versus Euler -/
def jSph : Joint Rat := (Joint.ofType .spherical).getD Joint.root
def mS : ModelS Rat := ModelS.init.run
  [.addBody 0 frame jy body "base", .addBody 1 frame jSph body "b"]
theorem mS_axes : L13.AxesOK mS := axesOK_of_joints _ (by decide +kernel) (by decide +kernel)
theorem mS_fixed : FixedW mS (initWS mS) 2 :=
  (L13.wsfixed_initWS _ mS_axes).2 2 (by decide) (by decide +kernel)
/-- Euler angles with `(cos, sin) = (7/25, 24/25)` (half angle `(4/5, 3/5)`) -/
def stG : QS Rat := { q := fun _ => 0, c := fun _ => 7/25, s := fun _ => 24/25 }
/-- the unit quaternion of the same orientation: `q_x ⊗ q_y ⊗ q_z` of the half angles -/
def stS : QS Rat :=
  { q := fun n => if n = 1 then 12/125 else if n = 2 then 84/125 else if n = 3 then 12/125
                  else 91/125
    c := fun _ => 1, s := fun _ => 0 }
def wG : WS Rat := initWS (mE .eulerZYX)
theorem wG_fixed : FixedW (mE .eulerZYX) wG 2 :=
  (L13.wsfixed_initWS _ mE_axes).2 2 (by decide) (by rw [mE_n]; decide)
/-- `ω = S(q) q̇` and `ω̇ = S q̈ + c_J` of the Euler joint -/
def omG : SV Rat := (jcalc (mE .eulerZYX) wG 2 stG qd).v_J 2
def omdG : SV Rat :=
  (jcalc (mE .eulerZYX) wG 2 stG qd).Sqdd (mE .eulerZYX) 2 qdd + (jcalc (mE .eulerZYX) wG 2 stG qd).c_J 2
def qdS : VecN Rat := fun n => if n = 1 then omG.w.x else if n = 2 then omG.w.y else omG.w.z
def qddS : VecN Rat := fun n => if n = 1 then omdG.w.x else if n = 2 then omdG.w.y else omdG.w.z


theorem ex_add1 : (ModelS.init : ModelS Rat).addBody 0 frame jy body "p" = (mP, .ok 1) := by
  rw [addBody_single _ _ _ _ _ _ (by decide)]; exact mP_add
theorem ex_add2 : mP.addBody 1 C16.Ex.Y jfix bodyF "f" = (mPF, .ok fixedDisc) := by
  rw [ModelS.addBody_fixed _ _ _ _ _ _ rfl]; exact mPF_add

/-- the velocity of the Euler joint is purely angular -/
theorem omG_v : omG.v = V3.zero := by
  unfold omG
  rw [(jcalc_euler (mE .eulerZYX) wG 2 stG qd (by decide +kernel) wG_fixed).2.2.1,
    eulerOmega_eq _ (by decide +kernel)]
theorem omdG_v : omdG.v = V3.zero := by
  unfold omdG
  have hE : isEuler ((mE .eulerZYX).joint 2).jt = true := by decide +kernel
  have ha : (mE .eulerZYX).arity 2 = .three := by decide +kernel
  rw [Sqdd_three _ _ _ _ ha, (jcalc_euler (mE .eulerZYX) wG 2 stG qd hE wG_fixed).2.1,
    (jcalc_euler (mE .eulerZYX) wG 2 stG qd hE wG_fixed).2.2.2, eulerOmega_eq _ hE]
  have ht : ((mE .eulerZYX).joint 2).jt = .eulerZYX := by decide +kernel
  rw [ht]
  simp only [eulerCJ, eulerZYX_cJ, alg]
  ext <;> grind
theorem homegaG : (⟨⟨qdS (mS.joint 2).qIndex, qdS ((mS.joint 2).qIndex + 1),
    qdS ((mS.joint 2).qIndex + 2)⟩, V3.zero⟩ : SV Rat)
      = (jcalc (mE .eulerZYX) wG 2 stG qd).v_J 2 := by
  have h : (mS.joint 2).qIndex = 1 := by decide +kernel
  rw [h]
  show (⟨⟨omG.w.x, omG.w.y, omG.w.z⟩, V3.zero⟩ : SV Rat) = omG
  rw [← omG_v]
theorem haccG : (⟨⟨qddS (mS.joint 2).qIndex, qddS ((mS.joint 2).qIndex + 1),
    qddS ((mS.joint 2).qIndex + 2)⟩, V3.zero⟩ : SV Rat)
      = (jcalc (mE .eulerZYX) wG 2 stG qd).Sqdd (mE .eulerZYX) 2 qdd
        + (jcalc (mE .eulerZYX) wG 2 stG qd).c_J 2 := by
  have h : (mS.joint 2).qIndex = 1 := by decide +kernel
  rw [h]
  show (⟨⟨omdG.w.x, omdG.w.y, omdG.w.z⟩, V3.zero⟩ : SV Rat) = omdG
  rw [← omdG_v]
theorem parentG : parentKin mS (initWS mS) 2 = parentKin (mE .eulerZYX) wG 2 := by
  have h1 : mS.lam 2 = 1 := by decide +kernel
  have h2 : (mE .eulerZYX).lam 2 = 1 := by decide +kernel
  unfold parentKin
  rw [h1, h2]
  rfl

end Rbdl.L07.Ex
