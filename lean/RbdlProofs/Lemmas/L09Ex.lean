import RbdlProofs.Lemmas.L09Bridge
import RbdlProofs.Lemmas.L09Whole
/-
  C09: concrete instances over `Rat`.
  * `C04.Ex.m` (revoluteZ, revolute, spherical, custom cylindrical joint) with a contact constraint on
    body 3 and loop constraints base → body 1 / body 2 → body 3, built with `addContact` / `addLoop`;
  * `mA` (one revoluteZ body), `mB` (revoluteZ + prismatic x), `mS` (one spherical body): the
    defect classes D5a, D5b and the sine-scaling observation.
-/
namespace Rbdl.L09.Ex
open Lean.Grind Rbdl Rbdl.L05 Rbdl.Spec

/-! ### the tree `C04.Ex.m` -/

abbrev m : ModelS Rat := C04.Ex.m
abbrev st : QS Rat := L06.Ex.st
abbrev qd : VecN Rat := L06.Ex.qd
abbrev qdd : VecN Rat := L06.Ex.qdd
/-- construction-time workspace -/
abbrev w0 : WS Rat := L06.Ex.w
/-- after `UpdateKinematics (Q, QDot, QDDot)` -/
abbrev w2 : WS Rat := L05.Ex.w2
/-- after `UpdateKinematics (Q, QDot, 0)` -/
def w20 : WS Rat := updateKinematics C04.Ex.m L06.Ex.w L06.Ex.st L06.Ex.qd zeroVec

theorem setup : Setup m w0 st :=
  ⟨L05.Ex.m_kinHyp, L05.Ex.m_layout, L05.Ex.m_customDof, L06.Ex.m_w3, rfl⟩

theorem two_ne : (2 : Rat) ≠ 0 := by decide

/-- predecessor frame on the base, at the base origin, aligned with the successor frame -/
def XPb : XT Rat := ⟨(w2.X_base 1).E.transpose, V3.zero⟩
/-- successor frame on body 1 -/
def XSb : XT Rat := ⟨M3.one, ⟨1, 2, 3⟩⟩

/-- two contact normals at one point of body 3, a loop base → body 1 with one rotational and one
    translational axis, a loop body 2 → body 3 with a translational axis -/
def ops : List (Op Rat) :=
  [.contact 3 ⟨1, 2, 3⟩ ⟨0, 0, 1⟩ noUserId,
   .contact 3 ⟨1, 2, 3⟩ ⟨1, 0, 0⟩ noUserId,
   .loop 0 1 XPb XSb ⟨⟨0, 0, 1⟩, ⟨0, 0, 0⟩⟩ true 10 7,
   .loop 0 1 XPb XSb ⟨⟨0, 0, 0⟩, ⟨1, 2, 0⟩⟩ true 10 7,
   .loop 2 3 ⟨M3.one, ⟨1, 0, 0⟩⟩ ⟨M3.one, ⟨0, 1, 0⟩⟩ ⟨⟨0, 0, 0⟩, ⟨0, 0, 1⟩⟩ false 0 noUserId]

def C : CSet Rat := run ops
/-- the contact constraint (rows 0, 1) -/
def cC : Constr Rat := C.cs.getD 0 default
/-- the loop constraint base → body 1 (rows 2, 3) -/
def cL : Constr Rat := C.cs.getD 1 default
/-- the loop constraint body 2 → body 3 (row 4) -/
def cM : Constr Rat := C.cs.getD 2 default

theorem C_shape : C.cs.map (fun c => (c.ctype, c.row, c.T.length)) =
    [(.contact, 0, 2), (.loop, 2, 2), (.loop, 4, 1)] ∧ C.size = 5 := by decide +kernel

/-- interleaved additions: contact, loop, the same contact point again -/
def opsBad : List (Op Rat) :=
  [.contact 3 ⟨1, 2, 3⟩ ⟨0, 0, 1⟩ noUserId,
   .loop 0 1 XPb XSb ⟨⟨0, 0, 1⟩, ⟨0, 0, 0⟩⟩ true 10 7,
   .contact 3 ⟨1, 2, 3⟩ ⟨1, 0, 0⟩ noUserId]

/-- with the repaired rule the third call opens a new constraint -/
theorem opsBad_rows : (run opsBad).cs.map (fun c => (c.ctype, c.row, c.T.length)) =
    [(.contact, 0, 1), (.loop, 1, 1), (.contact, 2, 1)] ∧ (run opsBad).size = 3 := by decide +kernel

/-- `AddContactConstraint` as it was before the repair: merged into the last contact constraint
    whenever body, point and user id agree, wherever its rows are -/
def addContactOld (C : CSet Rat) (body : Nat) (point normal : V3 Rat) (userId : Nat) : CSet Rat :=
  let fresh : Constr Rat := freshContact C.size body point normal userId
  match C.lastOf .contact with
  | some k =>
    let c := C.cs.getD k fresh
    if c.bodyP = body ∧ c.XP.r = point ∧ c.userId = userId then
      ⟨C.cs.set k (extend c ⟨V3.zero, normal⟩ false), C.size + 1⟩
    else ⟨C.cs ++ [fresh], C.size + 1⟩
  | none => ⟨C.cs ++ [fresh], C.size + 1⟩

/-- the sequence `opsBad` under the old rule -/
def CBadOld : CSet Rat :=
  addContactOld
    ((addContactOld CSet.empty 3 ⟨1, 2, 3⟩ ⟨0, 0, 1⟩ noUserId).addLoop 0 1 XPb XSb
      ⟨⟨0, 0, 1⟩, ⟨0, 0, 0⟩⟩ true 10 7)
    3 ⟨1, 2, 3⟩ ⟨1, 0, 0⟩ noUserId

/-- old rule: the second normal is merged into constraint 0 although a loop constraint was added in
    between: rows {0,1} and {1}, `size = 3` -/
theorem CBadOld_rows : CBadOld.cs.map (fun c => (c.ctype, c.row, c.T.length)) =
    [(.contact, 0, 2), (.loop, 1, 1)] ∧ CBadOld.size = 3 := by decide +kernel

theorem cC_contact : cC.ctype = .contact := by decide +kernel
theorem cL_loop : cL.ctype = .loop := by decide +kernel
theorem cM_loop : cM.ctype = .loop := by decide +kernel

theorem body3_ok : BodyOK m 3 := Or.inr ⟨by decide, by decide, by decide⟩
theorem body2_ok : BodyOK m 2 := Or.inr ⟨by decide, by decide, by decide⟩
theorem body1_ok : BodyOK m 1 := Or.inr ⟨by decide, by decide, by decide⟩
theorem body0_ok : BodyOK m 0 := Or.inl rfl

theorem getD_mem {β : Type} (l : List β) (i : Nat) (d : β) (h : i < l.length) : l.getD i d ∈ l := by
  rw [List.getD_eq_getElem?_getD, List.getElem?_eq_getElem h, Option.getD_some]
  exact List.getElem_mem h

theorem getElem?_getD {β : Type} (l : List β) (i : Nat) (d : β) (h : i < l.length) :
    l[i]? = some (l.getD i d) := by
  rw [List.getD_eq_getElem?_getD, List.getElem?_eq_getElem h, Option.getD_some]

theorem C_len : C.cs.length = 3 := by decide +kernel
theorem cC_mem : cC ∈ (run ops).cs := getD_mem _ 0 _ (by rw [show (run ops) = C from rfl, C_len]; decide)
theorem cL_mem : cL ∈ (run ops).cs := getD_mem _ 1 _ (by rw [show (run ops) = C from rfl, C_len]; decide)
theorem cM_mem : cM ∈ (run ops).cs := getD_mem _ 2 _ (by rw [show (run ops) = C from rfl, C_len]; decide)
theorem cC_shape : Shape cC := (inv_foldl ops _ inv_empty).shape _ cC_mem
theorem cL_shape : Shape cL := (inv_foldl ops _ inv_empty).shape _ cL_mem
theorem cM_shape : Shape cM := (inv_foldl ops _ inv_empty).shape _ cM_mem

theorem cC_P : BodyOK m cC.bodyP := by
  have : cC.bodyP = 3 := by decide +kernel
  rw [this]; exact body3_ok
theorem cL_P : BodyOK m cL.bodyP := by
  have : cL.bodyP = 0 := by decide +kernel
  rw [this]; exact body0_ok
theorem cL_S : BodyOK m cL.bodyS := by
  have : cL.bodyS = 1 := by decide +kernel
  rw [this]; exact body1_ok
theorem cM_P : BodyOK m cM.bodyP := by
  have : cM.bodyP = 2 := by decide +kernel
  rw [this]; exact body2_ok
theorem cM_S : BodyOK m cM.bodyS := by
  have : cM.bodyS = 3 := by decide +kernel
  rw [this]; exact body3_ok

theorem mem_C (c : Constr Rat) (hc : c ∈ C.cs) : c = cC ∨ c = cL ∨ c = cM := by
  obtain ⟨i, hi, rfl⟩ := List.getElem_of_mem hc
  have hl : C.cs.length = 3 := C_len
  have e : ∀ j (hj : j < C.cs.length), C.cs[j] = C.cs.getD j default := by
    intro j hj
    rw [List.getD_eq_getElem?_getD, List.getElem?_eq_getElem hj, Option.getD_some]
  rw [e i hi]
  obtain rfl | rfl | rfl : i = 0 ∨ i = 1 ∨ i = 2 := by omega
  · exact Or.inl rfl
  · exact Or.inr (Or.inl rfl)
  · exact Or.inr (Or.inr rfl)

theorem ops_noFixed : ∀ c ∈ (run ops).cs, NoFixed c := by
  intro c hc
  rcases mem_C c hc with rfl | rfl | rfl
  · exact ⟨cC_P.notFixed, by decide +kernel⟩
  · exact ⟨cL_P.notFixed, cL_S.notFixed⟩
  · exact ⟨cM_P.notFixed, cM_S.notFixed⟩

theorem ops_contactOK : ∀ c ∈ (run ops).cs, c.ctype = .contact → BodyOK m c.bodyP := by
  intro c hc hct
  rcases mem_C c hc with rfl | rfl | rfl
  · exact cC_P
  · exact absurd hct (by rw [cL_loop]; decide)
  · exact absurd hct (by rw [cM_loop]; decide)

/-- a contact on the fixed body of `C04.Ex.m` -/
def cF : Constr Rat :=
  ((CSet.empty : CSet Rat).addContact fixedDisc ⟨1, 2, 3⟩ ⟨1, 0, 0⟩ noUserId).cs.getD 0 default
theorem cF_shape : Shape cF :=
  (inv_step inv_empty (.contact fixedDisc ⟨1, 2, 3⟩ ⟨1, 0, 0⟩ noUserId)).shape _
    (getD_mem _ 0 _ (by decide +kernel))


/-! ### D5a: one revoluteZ body, rotational axis, predecessor frame origin away from the base origin -/

def mk (lam : List Nat) (js : List (Joint Rat)) (n : Nat) : ModelS Rat :=
  { (ModelS.init : ModelS Rat) with
    lambda := lam, joints := js, xT := js.map (fun _ => XT.id), w3Index := js.map (fun _ => 0),
    bodies := js.map (fun _ => C04.Ex.b), dofCount := n, qSize := n, qdotSize := n }

def jRevZ : Joint Rat := ⟨.revoluteZ, [sv6 0 0 1 0 0 0], 1, 0, noCustom⟩

def mA : ModelS Rat := mk [0, 0] [Joint.root, jRevZ] 1
def stA : QS Rat := { q := fun _ => 1/2, c := fun _ => 4/5, s := fun _ => 3/5 }
def qdA : VecN Rat := fun _ => 1
def wA : WS Rat := updateKinematics mA (initWS mA) stA qdA zeroVec

/-- successor frame on body 1, at the body point (1,0,0) -/
def XSa : XT Rat := ⟨M3.one, ⟨1, 0, 0⟩⟩
/-- predecessor frame on the base: coincides with the successor frame in this configuration, so its
    origin is the base point (4/5, 3/5, 0) -/
def XPa : XT Rat := frameOf wA 1 XSa
/-- one locked rotation (about the common z axis) -/
def cA : Constr Rat :=
  ((CSet.empty : CSet Rat).addLoop 0 1 XPa XSa ⟨⟨0, 0, 1⟩, ⟨0, 0, 0⟩⟩ false 0 noUserId).cs.getD 0 default

/-- the same with the two frames at the base origin -/
def XPa0 : XT Rat := frameOf wA 1 ⟨M3.one, V3.zero⟩
def cA0 : Constr Rat :=
  ((CSet.empty : CSet Rat).addLoop 0 1 XPa0 ⟨M3.one, V3.zero⟩ ⟨⟨0, 0, 1⟩, ⟨0, 0, 0⟩⟩ false 0
    noUserId).cs.getD 0 default

/-! ### D5b: revoluteZ + prismatic x, one translational axis (y of the rotating predecessor) -/

def jPrisX : Joint Rat := { Joint.prismatic (⟨1, 0, 0⟩ : V3 Rat) with qIndex := 1 }
def mB : ModelS Rat := mk [0, 0, 1] [Joint.root, jRevZ, jPrisX] 2
def stB : QS Rat := { q := fun n => if n = 1 then 2 else 1/2, c := fun _ => 4/5, s := fun _ => 3/5 }
def qdB : VecN Rat := fun n => if n = 0 then 1 else 3
def wB : WS Rat := updateKinematics mB (initWS mB) stB qdB zeroVec
/-- predecessor body 1, successor body 2 (slides along x of body 1), frames at the body origins,
    only the y translation is locked -/
def cB : Constr Rat :=
  ((CSet.empty : CSet Rat).addLoop 1 2 XT.id XT.id ⟨⟨0, 0, 0⟩, ⟨0, 1, 0⟩⟩ false 0 noUserId).cs.getD 0
    default

/-! ### sine scaling: one spherical body, one rotational axis locked, frames not aligned -/

def mS : ModelS Rat := L06.Ex.mSph
def stS : QS Rat := L06.Ex.st
def qdS : VecN Rat := fun n => (n : Rat) + 1
def wS : WS Rat := updateKinematics mS (initWS mS) stS qdS zeroVec
/-- predecessor frame on the base: the successor frame turned about its z axis by the angle with
    (cos, sin) = (4/5, 3/5); origin at the base origin -/
def XPs : XT Rat :=
  ⟨(wS.X_base 1).E.transpose * (Xrotz (4/5 : Rat) (3/5)).E, V3.zero⟩
def XSs : XT Rat := ⟨M3.one, V3.zero⟩
/-- the x rotation of the predecessor frame is locked -/
def cS : Constr Rat :=
  ((CSet.empty : CSet Rat).addLoop 0 1 XPs XSs ⟨⟨1, 0, 0⟩, ⟨0, 0, 0⟩⟩ false 0 noUserId).cs.getD 0 default

/-- `φ_k` of row `k` of a loop constraint along the trajectory `(st, qd, qdd)`: `Spec.constrPhi` on the
    pose jets of the two bodies -/
def phiOf (c : Constr Rat) (m : ModelS Rat) (st : QS Rat) (qd qdd : VecN Rat) (r : Nat) : D2 Rat :=
  loopPhi (framePlacement (bodyPoseJet m st qd qdd c.bodyP) c.XP)
    (framePlacement (bodyPoseJet m st qd qdd c.bodyS) c.XS) (axisAt c r)

end Rbdl.L09.Ex
