import RbdlProofs.Lemmas.LDynCap
/-
  Capstones for the dynamics / whole-body routines: facts about models produced by construction.
  * `virtZero_by_construction`  a `goodRun` (real bodies only) produces no virtual body.
-/
namespace Rbdl.LDynCap
open Lean.Grind Rbdl Rbdl.Spec Rbdl.L01Cap
set_option linter.unusedSimpArgs false
set_option linter.unusedVariables false
set_option linter.unusedSectionVars false

section
variable {α : Type} [Field α] [DecidableEq α]

/-- no movable body is virtual -/
def NoVirt (m : ModelS α) : Prop := ∀ i, 1 ≤ i → i < m.nBodies → (m.body i).isVirtual = false

theorem virtZero_of_noVirt {m : ModelS α} (h : NoVirt m) : VirtZero m := by
  intro i i1 i2 hv
  rw [h i i1 i2] at hv
  cases hv

theorem novirt_movable (m : ModelS α) (hN : NoVirt m) (parent : Nat) (frame : XT α) (j : Joint α)
    (b : Body α) (name : String) (hb : b.isVirtual = false) :
    NoVirt (m.movableResult parent frame j b name) := by
  intro i i1 i2
  rw [mr_nBodies] at i2
  by_cases hi : i < m.nBodies
  · rw [mr_body_old m parent frame j b name i hi]; exact hN i i1 hi
  · have : i = m.nBodies := by omega
    subst this
    rw [mr_body_new]; exact hb

theorem novirt_addBody (m : ModelS α) (hN : NoVirt m) (parent : Nat) (frame : XT α)
    (j : Joint α) (b : Body α) (name : String) (hj : GoodJoint j) (hb : GoodBody b) (id : Nat)
    (hok : (m.addBody parent frame j b name).2 = .ok id) :
    NoVirt (m.addBody parent frame j b name).1 := by
  rw [ModelS.addBody_eq] at hok ⊢
  by_cases hd : name ≠ "" ∧ m.hasName name
  · rw [if_pos hd] at hok; cases hok
  · rw [if_neg hd] at hok ⊢
    rw [hasJcalc_single _ hj.1] at hok ⊢
    show NoVirt (m.addBodyMovable parent frame j b name).1
    rw [ModelS.addBodyMovable_eq, if_neg hd]
    exact novirt_movable m hN parent frame j b name hb.1

theorem novirt_run (ops : List (Op α)) : ∀ (m : ModelS α), NoVirt m → goodRun m ops →
    NoVirt (m.run ops) := by
  induction ops with
  | nil => intro m h _; exact h
  | cons op ops ih =>
    intro m hN hg
    obtain ⟨hv, hs, ⟨id, hok⟩, hrest⟩ := hg
    refine ih _ ?_ hrest
    cases op with
    | addBody parent frame j b name =>
      exact novirt_addBody m hN parent frame j b name hs.2.1 hs.2.2 id hok
    | appendBody frame j b name =>
      exact novirt_addBody m hN m.prevBodyId frame j b name hs.2.1 hs.2.2 id hok
    | addBodyCustomJoint parent frame k b name => exact hs.elim

/-- a sequence of supported construction calls with real bodies produces no virtual body -/
theorem virtZero_by_construction (ops : List (Op α))
    (hg : goodRun (ModelS.init : ModelS α) ops) :
    VirtZero ((ModelS.init : ModelS α).run ops) :=
  virtZero_of_noVirt (novirt_run ops _ (fun i i1 i2 => by
    have : (ModelS.init : ModelS α).nBodies = 1 := rfl
    omega) hg)

end
end Rbdl.LDynCap
