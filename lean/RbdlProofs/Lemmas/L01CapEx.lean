import RbdlProofs.Lemmas.L01CapFinal
import RbdlProofs.Lemmas.L13
/-
  C01 capstone: a concrete instance over `Rat`.  A branched tree built by the construction calls:
  body 1 on an Euler-ZYX joint at the root, body 2 (revolute about (2,1,2)/3) and body 3 (spherical)
  on body 1, body 4 (prismatic) on body 2, body 5 (helical) appended to body 4; all joint frames are
  proper rotations + translations, all bodies have off-origin centres of mass and non-diagonal
  inertias.  The specification model is built in parallel by `Spec.SB.add` (`specOf ops`).
-/
namespace Rbdl.L01Cap.Ex
open Lean.Grind Rbdl Rbdl.Spec Rbdl.L01Cap

def b1 : Body Rat := ⟨2, ⟨1, 0, 1/2⟩, C16.Ex.Ic, false⟩
def b2 : Body Rat := ⟨3, ⟨0, 1, 1⟩, C16.Ex.Ic, false⟩
def b3 : Body Rat := ⟨1/2, ⟨-1, 2, 0⟩, M3.one, false⟩
def b4 : Body Rat := ⟨1, ⟨1/3, 1/3, 1⟩, C16.Ex.Ic, false⟩
def b5 : Body Rat := ⟨5/2, ⟨0, -1, 1/4⟩, M3.one, false⟩

def jZYX : Joint Rat :=
  ⟨.eulerZYX, [sv6 0 0 1 0 0 0, sv6 0 1 0 0 0 0, sv6 1 0 0 0 0 0], 3, 0, noCustom⟩
def jRev : Joint Rat := Joint.revolute C16.Ex.ax
def jSph : Joint Rat :=
  ⟨.spherical, [sv6 0 0 1 0 0 0, sv6 0 1 0 0 0 0, sv6 1 0 0 0 0 0], 3, 0, noCustom⟩
def jPris : Joint Rat := Joint.prismatic ⟨1, 2, 3⟩
def jHel : Joint Rat := ⟨.helical, [⟨C16.Ex.ax, ⟨1, 2, 3⟩⟩], 1, 0, noCustom⟩

def ops : List (Op Rat) :=
  [ .addBody 0 C16.Ex.X jZYX b1 "trunk",
    .addBody 1 C16.Ex.Y jRev b2 "arm",
    .addBody 1 C16.Ex.X jSph b3 "head",
    .addBody 2 C16.Ex.Y jPris b4 "slider",
    .appendBody C16.Ex.X jHel b5 "screw" ]

/-- the model built by the construction code -/
def m : ModelS Rat := ModelS.init.run ops
/-- the specification built in parallel from the same calls -/
def M : SModel Rat := specOf ops

theorem good_b1 : GoodBody b1 := ⟨rfl, rfl⟩
theorem good_b2 : GoodBody b2 := ⟨rfl, rfl⟩
theorem good_b3 : GoodBody b3 := ⟨rfl, rfl⟩
theorem good_b4 : GoodBody b4 := ⟨rfl, rfl⟩
theorem good_b5 : GoodBody b5 := ⟨rfl, rfl⟩

theorem good_jZYX : GoodJoint jZYX := ⟨rfl, by decide, by change _ = _; rfl, fun h => nomatch h⟩
theorem good_jRev : GoodJoint jRev := ⟨rfl, by decide, by change _ ∧ _; exact ⟨rfl, rfl⟩, fun h => nomatch h⟩
theorem good_jSph : GoodJoint jSph := ⟨rfl, by decide, by change _ = _; rfl, fun h => nomatch h⟩
theorem good_jPris : GoodJoint jPris :=
  ⟨rfl, by decide, by change _ ∧ _; exact ⟨rfl, rfl⟩, fun h => nomatch h⟩
theorem good_jHel : GoodJoint jHel :=
  ⟨rfl, by decide, by change _ = _; rfl, fun _ => ⟨by decide +kernel, by decide +kernel⟩⟩

theorem ops_good : goodRun (ModelS.init : ModelS Rat) ops := by
  refine ⟨by decide +kernel, ⟨C16.Ex.X_isRot, good_jZYX, good_b1⟩, ⟨_, rfl⟩, ?_⟩
  refine ⟨by decide +kernel, ⟨C16.Ex.Y_isRot, good_jRev, good_b2⟩, ⟨_, rfl⟩, ?_⟩
  refine ⟨by decide +kernel, ⟨C16.Ex.X_isRot, good_jSph, good_b3⟩, ⟨_, rfl⟩, ?_⟩
  refine ⟨by decide +kernel, ⟨C16.Ex.Y_isRot, good_jPris, good_b4⟩, ⟨_, rfl⟩, ?_⟩
  refine ⟨by decide +kernel, ⟨C16.Ex.X_isRot, good_jHel, good_b5⟩, ⟨_, rfl⟩, trivial⟩

theorem m_ok : ModelOK m := (refines_by_construction ops ops_good).1
theorem m_refines : Refines m M := (refines_by_construction ops ops_good).2

theorem m_n : m.nBodies = 6 := by decide +kernel
theorem m_dof : m.dofCount = 9 := by decide +kernel

/-- angles with (cos, sin) = (4/5, 3/5); the unit quaternion (1,2,2,4)/5 in the entries 4, 5, 6 and
    9 (= `dofCount`, the `w` entry of the only spherical joint) -/
def st : QS Rat :=
  { q := fun n => if n = 4 then 1/5 else if n = 5 then 2/5 else if n = 6 then 2/5
                  else if n = 9 then 4/5 else 1/2
    c := fun _ => 4/5
    s := fun _ => 3/5 }
def qd : VecN Rat := fun n => (n : Rat) + 1
def qdd : VecN Rat := fun n => 2 - (n : Rat) / 3
def tau0 : VecN Rat := fun n => (n : Rat) * 7
/-- external forces on every body -/
def fe : Nat → SV Rat := fun i => ⟨⟨1, (i : Rat), -1⟩, ⟨(i : Rat) / 2, 2, 1⟩⟩

theorem st_ok : StateOK m st := by
  intro i h1 h2
  rw [m_n] at h2
  obtain rfl | rfl | rfl | rfl | rfl : i = 1 ∨ i = 2 ∨ i = 3 ∨ i = 4 ∨ i = 5 := by omega
  · exact ⟨C16.Ex.cs_unit, C16.Ex.cs_unit, C16.Ex.cs_unit⟩
  · exact ⟨C16.Ex.cs_unit, C16.Ex.ax_unit⟩
  · exact C16.Ex.p_unit
  · exact trivial
  · exact ⟨C16.Ex.cs_unit, C16.Ex.ax_unit⟩

theorem m_axes : L13.AxesOK m := by
  intro i h1 h2
  rw [m_n] at h2
  obtain rfl | rfl | rfl | rfl | rfl : i = 1 ∨ i = 2 ∨ i = 3 ∨ i = 4 ∨ i = 5 := by omega
  all_goals exact ⟨fun h => absurd h (by decide +kernel), fun h => absurd h (by decide +kernel),
    fun h => absurd h (by decide +kernel)⟩

/-- the workspace the construction code leaves, and a poisoned one -/
def w0 : WS Rat := initWS m
def w1 : WS Rat := poison m w0 7
theorem w0_fixed : WSFixed m w0 := L13.wsfixed_initWS m m_axes
theorem w1_fixed : WSFixed m w1 := L13.wsfixed_poison m _ 7 w0_fixed

theorem two_ne : (2 : Rat) ≠ 0 := by decide

/-! ### a single body (Stage A) and a serial chain (Stage B) -/

/-- one body on a helical joint -/
def opsA : List (Op Rat) := [ .addBody 0 C16.Ex.X jHel b1 "" ]
def mA : ModelS Rat := ModelS.init.run opsA
theorem opsA_good : goodRun (ModelS.init : ModelS Rat) opsA :=
  ⟨by decide +kernel, ⟨C16.Ex.X_isRot, good_jHel, good_b1⟩, ⟨_, rfl⟩, trivial⟩
theorem mA_n : mA.nBodies = 2 := by decide +kernel
theorem stA_ok : StateOK mA st := by
  intro i h1 h2
  rw [mA_n] at h2
  obtain rfl : i = 1 := by omega
  exact ⟨C16.Ex.cs_unit, C16.Ex.ax_unit⟩
theorem mA_axes : L13.AxesOK mA := by
  intro i h1 h2
  rw [mA_n] at h2
  obtain rfl : i = 1 := by omega
  exact ⟨fun h => absurd h (by decide +kernel), fun h => absurd h (by decide +kernel),
    fun h => absurd h (by decide +kernel)⟩
theorem wA_fixed : WSFixed mA (poison mA (initWS mA) 3) :=
  L13.wsfixed_poison mA _ 3 (L13.wsfixed_initWS mA mA_axes)

/-- revolute – prismatic – Euler-ZYX chain -/
def opsB : List (Op Rat) :=
  [ .addBody 0 C16.Ex.X jRev b1 "", .appendBody C16.Ex.Y jPris b2 "", .appendBody C16.Ex.X jZYX b3 "" ]
def mB : ModelS Rat := ModelS.init.run opsB
theorem opsB_good : goodRun (ModelS.init : ModelS Rat) opsB := by
  refine ⟨by decide +kernel, ⟨C16.Ex.X_isRot, good_jRev, good_b1⟩, ⟨_, rfl⟩, ?_⟩
  refine ⟨by decide +kernel, ⟨C16.Ex.Y_isRot, good_jPris, good_b2⟩, ⟨_, rfl⟩, ?_⟩
  exact ⟨by decide +kernel, ⟨C16.Ex.X_isRot, good_jZYX, good_b3⟩, ⟨_, rfl⟩, trivial⟩
theorem mB_n : mB.nBodies = 4 := by decide +kernel
theorem mB_chain : ∀ i, 1 ≤ i → i < mB.nBodies → mB.lam i = i - 1 := by
  intro i h1 h2
  rw [mB_n] at h2
  obtain rfl | rfl | rfl : i = 1 ∨ i = 2 ∨ i = 3 := by omega
  all_goals decide +kernel
theorem stB_ok : StateOK mB st := by
  intro i h1 h2
  rw [mB_n] at h2
  obtain rfl | rfl | rfl : i = 1 ∨ i = 2 ∨ i = 3 := by omega
  · exact ⟨C16.Ex.cs_unit, C16.Ex.ax_unit⟩
  · exact trivial
  · exact ⟨C16.Ex.cs_unit, C16.Ex.cs_unit, C16.Ex.cs_unit⟩
theorem mB_axes : L13.AxesOK mB := by
  intro i h1 h2
  rw [mB_n] at h2
  obtain rfl | rfl | rfl : i = 1 ∨ i = 2 ∨ i = 3 := by omega
  all_goals exact ⟨fun h => absurd h (by decide +kernel), fun h => absurd h (by decide +kernel),
    fun h => absurd h (by decide +kernel)⟩
theorem wB_fixed : WSFixed mB (initWS mB) := L13.wsfixed_initWS mB mB_axes

/-! ### a body with a non-symmetric "inertia" matrix (counterexample) -/

def bN : Body Rat := ⟨2, ⟨1, 0, 1/2⟩, ⟨2, 1, 0, 0, 3, 1, 0, 0, 4⟩, false⟩
/-- all requirements of `goodRun` hold except the symmetry of the inertia matrix -/
def opsN : List (Op Rat) := [ .addBody 0 C16.Ex.X jZYX bN "" ]
def mN : ModelS Rat := ModelS.init.run opsN

end Rbdl.L01Cap.Ex
