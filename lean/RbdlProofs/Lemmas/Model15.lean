import RbdlProofs.Lemmas.Body15
/-
  Helper lemmas for the model-level part of C15: what `AddBodyFixedJoint` / the movable part of
  `AddBody` produce, written with projections so that the new body's parameters can be exchanged,
  and the computation of a setter on the body that has just been added.
-/
namespace Rbdl
open Lean.Grind
namespace ModelS

theorem getD_set_selfS5 {β : Type} (l : List β) (i : Nat) (x d : β) (h : i < l.length) :
    (l.set i x).getD i d = x := by
  simp [List.getD_eq_getElem?_getD, h]

theorem getD_append_length {β : Type} (l : List β) (x d : β) : (l ++ [x]).getD l.length d = x := by
  simp [List.getD_eq_getElem?_getD]

theorem set_append_length {β : Type} (l : List β) (x y : β) :
    (l ++ [x]).set l.length y = l ++ [y] := by
  simp

variable {α : Type} [Field α] [DecidableEq α]

/-! ### `AddBodyFixedJoint` -/

/-- the movable body and the transform a parent id resolves to in `AddBodyFixedJoint` -/
def fixedTarget (m : ModelS α) (parent : Nat) (frame : XT α) : Nat × XT α :=
  if m.isFixedBodyId parent then
    ((m.fixedBody (parent - fixedDisc)).movableParent,
      frame * (m.fixedBody (parent - fixedDisc)).parentTransform)
  else (parent, frame)

/-- what `AddBodyFixedJoint` does once the parent has been resolved to `(mp, pX)` -/
def fixedResultS (m : ModelS α) (mp : Nat) (pX : XT α) (b : Body α) (name : String) :
    ModelS α × Except Err Nat :=
  match (m.body mp).join pX b with
  | none => (m, .error .zeroMass)
  | some pb =>
    ({ m with
        bodies := m.bodies.set mp pb
        I := m.I.set mp (RBI.ofMassComInertiaC pb.mass pb.com pb.inertia)
        fixedBodies := m.fixedBodies ++ [⟨b.mass, b.com, b.inertia, mp, pX⟩]
        names := if name ≠ "" then m.names ++ [(name, m.fixedBodies.length + fixedDisc)] else m.names
        prevBodyId := m.fixedBodies.length + fixedDisc }, .ok (m.fixedBodies.length + fixedDisc))

theorem addBodyFixed_eq (m : ModelS α) (parent : Nat) (frame : XT α) (b : Body α) (name : String) :
    m.addBodyFixed parent frame b name
      = if name ≠ "" ∧ m.hasName name then (m, .error .duplicateName)
        else m.fixedResultS (m.fixedTarget parent frame).1 (m.fixedTarget parent frame).2 b name := by
  rfl

/-- facts about a successful `AddBodyFixedJoint` -/
theorem addBodyFixed_ok {m : ModelS α} {parent : Nat} {frame : XT α} {b : Body α} {name : String}
    {m1 : ModelS α} {id : Nat} (hadd : m.addBodyFixed parent frame b name = (m1, .ok id)) :
    ¬(name ≠ "" ∧ m.hasName name) ∧ id = m.fixedBodies.length + fixedDisc ∧
    ∃ pb, (m.body (m.fixedTarget parent frame).1).join (m.fixedTarget parent frame).2 b = some pb ∧
      m1 = { m with
        bodies := m.bodies.set (m.fixedTarget parent frame).1 pb
        I := m.I.set (m.fixedTarget parent frame).1 (RBI.ofMassComInertiaC pb.mass pb.com pb.inertia)
        fixedBodies := m.fixedBodies ++
          [⟨b.mass, b.com, b.inertia, (m.fixedTarget parent frame).1, (m.fixedTarget parent frame).2⟩]
        names := if name ≠ "" then m.names ++ [(name, m.fixedBodies.length + fixedDisc)] else m.names
        prevBodyId := m.fixedBodies.length + fixedDisc } := by
  rw [addBodyFixed_eq] at hadd
  split at hadd
  · cases hadd
  · rename_i hname
    refine ⟨hname, ?_⟩
    unfold fixedResultS at hadd
    split at hadd
    · cases hadd
    · rename_i pb hpb
      simp only [Prod.mk.injEq, Except.ok.injEq] at hadd
      exact ⟨hadd.2.symm, pb, hpb, hadd.1.symm⟩

/-- the record stored for a fixed body that has just been added -/
theorem addBodyFixed_fixedBody {m : ModelS α} {parent : Nat} {frame : XT α} {b : Body α}
    {name : String} {m1 : ModelS α} {id : Nat}
    (hadd : m.addBodyFixed parent frame b name = (m1, .ok id)) :
    m1.fixedBody (id - fixedDisc)
      = ⟨b.mass, b.com, b.inertia, (m.fixedTarget parent frame).1, (m.fixedTarget parent frame).2⟩ := by
  obtain ⟨_, hidEq, pb, _, hm1⟩ := addBodyFixed_ok hadd
  subst hidEq hm1
  simp only [fixedBody, Nat.add_sub_cancel, getD_append_length]

/-- the setter on a fixed body that has just been added = adding the updated body instead
    (internal form: the three `Join`/`Separate` results are given) -/
theorem setInertial_addBodyFixed_aux {m : ModelS α} {parent : Nat} {frame : XT α} {b : Body α}
    {name : String} {m1 : ModelS α} {id : Nat}
    (updB : Body α → Body α) (updF : FixedBody α → FixedBody α)
    (hadd : m.addBodyFixed parent frame b name = (m1, .ok id))
    (hid : id < 4294967295)
    (hupd : ∀ f, (updF f).movableParent = f.movableParent
      ∧ (updF f).parentTransform = f.parentTransform)
    (hrange : (m.fixedTarget parent frame).1 < m.bodies.length)
    {pb p1 p2 : Body α}
    (hpb : (m.body (m.fixedTarget parent frame).1).join (m.fixedTarget parent frame).2 b = some pb)
    (hsep : pb.separate (m.fixedTarget parent frame).2 ⟨b.mass, b.com, b.inertia, false⟩ = some p1)
    (hjoin : p1.join (m.fixedTarget parent frame).2
      (updF ⟨b.mass, b.com, b.inertia, (m.fixedTarget parent frame).1,
        (m.fixedTarget parent frame).2⟩).toBody = some p2)
    (hscratch : (m.body (m.fixedTarget parent frame).1).join (m.fixedTarget parent frame).2
      (updF ⟨b.mass, b.com, b.inertia, (m.fixedTarget parent frame).1,
        (m.fixedTarget parent frame).2⟩).toBody = some p2) :
    m1.setInertial id updB updF
      = ((m.addBodyFixed parent frame
          (updF ⟨b.mass, b.com, b.inertia, (m.fixedTarget parent frame).1,
            (m.fixedTarget parent frame).2⟩).toBody name).1, .ok ()) := by
  obtain ⟨hname, hidEq, pb', hpb', hm1⟩ := addBodyFixed_ok hadd
  rw [hpb] at hpb'
  cases hpb'
  subst hidEq
  generalize hmp : (m.fixedTarget parent frame).1 = mp at *
  generalize hpX : (m.fixedTarget parent frame).2 = pX at *
  have hk : m.fixedBodies.length + fixedDisc - fixedDisc = m.fixedBodies.length :=
    Nat.add_sub_cancel _ _
  have hfix : m1.isFixedBodyId (m.fixedBodies.length + fixedDisc) = true := by
    subst hm1
    simp only [isFixedBodyId, hk, List.length_append, List.length_singleton, Bool.and_eq_true,
      decide_eq_true_eq]
    omega
  have hfb : m1.fixedBody (m.fixedBodies.length) = ⟨b.mass, b.com, b.inertia, mp, pX⟩ := by
    subst hm1
    simp only [fixedBody, getD_append_length]
  have hbody : m1.body mp = pb := by
    subst hm1
    simp only [body, getD_set_selfS5 _ _ _ _ hrange]
  obtain ⟨hu1, hu2⟩ := hupd ⟨b.mass, b.com, b.inertia, mp, pX⟩
  simp only at hu1 hu2
  generalize hfb' : updF ⟨b.mass, b.com, b.inertia, mp, pX⟩ = fb' at *
  obtain ⟨fm, fc, fI, fmp, fpX⟩ := fb'
  simp only at hu1 hu2
  subst hu1 hu2
  rw [addBodyFixed_eq, if_neg hname, hmp, hpX]
  unfold fixedResultS
  simp only [hscratch]
  unfold setInertial
  simp only [hfix, if_true, hk, hfb, hbody, FixedBody.toBody, hsep, hfb']
  simp only [FixedBody.toBody] at hjoin
  simp only [hjoin]
  have hfix' : isFixedBodyId { m1 with
      bodies := m1.bodies.set fmp p2
      fixedBodies := m1.fixedBodies.set m.fixedBodies.length ⟨fm, fc, fI, fmp, fpX⟩ }
      (m.fixedBodies.length + fixedDisc) = true := by
    simp only [isFixedBodyId, List.length_set] at hfix ⊢
    exact hfix
  unfold updateInertiaMatrixForBody
  simp only [hfix', if_true, hk]
  subst hm1
  simp only [fixedBody, body, set_append_length, getD_append_length, getD_set_selfS5 _ _ _ _ hrange,
    List.set_set]

/-! ### the movable part of `AddBody` -/

/-- the model `AddBody` produces for a joint with its own movable body (name check passed) -/
def movableResultS (m : ModelS α) (parent : Nat) (frame : XT α) (j : Joint α) (b : Body α)
    (name : String) : ModelS α :=
  let t : Nat × XT α :=
    if m.isFixedBodyId parent then
      ((m.fixedBody (parent - fixedDisc)).movableParent,
        (m.fixedBody (parent - fixedDisc)).parentTransform)
    else (parent, XT.id)
  let last := m.joints.getLastD Joint.root
  let lq0 := last.qIndex
  let lqLast :=
    if last.dof > 0 ∧ last.jt ≠ .custom then lq0 + last.dof
    else if last.jt = .custom then lq0 + (m.custom last.customIdx).dof
    else lq0
  let newId := m.bodies.length
  let j' : Joint α := { j with qIndex := last.qIndex + last.dof }
  let joints' := m.joints ++ [j']
  let dofCount' := m.dofCount + j.dof
  let r := renumberW joints' (m.w3Index ++ [0]) dofCount'
  { m with
    lambda := m.lambda ++ [t.1]
    lambdaQ := m.lambdaQ ++ (List.range j.dof).map (fun i => lqLast + i)
    mu := (m.mu ++ [[]]).modify t.1 (fun l => l ++ [newId])
    bodies := m.bodies ++ [b]
    names := if name ≠ "" then m.names ++ [(name, newId)] else m.names
    joints := joints'
    w3Index := r.1
    dofCount := dofCount'
    qSize := dofCount' + r.2
    qdotSize := m.qdotSize + j.dof
    xT := m.xT ++ [frame * t.2]
    I := m.I ++ [RBI.ofMassComInertiaC b.mass b.com b.inertia]
    prevBodyId := newId
    updateOrder := groupOrder (indexed (joints'.map (·.jt)))
    sz := m.sz.push (newId + 1) }

omit [DecidableEq α] in
theorem addBodyMovable_eqS5 (m : ModelS α) (parent : Nat) (frame : XT α) (j : Joint α) (b : Body α)
    (name : String) :
    m.addBodyMovable parent frame j b name
      = if name ≠ "" ∧ m.hasName name then (m, .error .duplicateName)
        else (m.movableResultS parent frame j b name, .ok m.bodies.length) := rfl

/-- construction steps (as functions of the body) after which a setter on the returned id acts as
    re-construction with the updated body -/
def SetterOK (F : Body α → ModelS α × Except Err Nat) : Prop :=
  ∀ b m1 id, F b = (m1, .ok id) → ∀ (updB : Body α → Body α) (updF : FixedBody α → FixedBody α),
    m1.setInertial id updB updF = ((F (updB b)).1, .ok ())

theorem setterOK_addBodyMovable (m : ModelS α) (parent : Nat) (frame : XT α) (j : Joint α)
    (name : String) (hlen : m.I.length = m.bodies.length) (hsmall : m.bodies.length < fixedDisc) :
    SetterOK (fun b => m.addBodyMovable parent frame j b name) := by
  intro b m1 id hadd updB updF
  simp only at hadd ⊢
  rw [addBodyMovable_eqS5] at hadd ⊢
  split at hadd
  · cases hadd
  · rename_i hname
    rw [if_neg hname]
    simp only [Prod.mk.injEq, Except.ok.injEq] at hadd
    obtain ⟨hm1, hidEq⟩ := hadd
    subst hidEq hm1
    have hfix : (m.movableResultS parent frame j b name).isFixedBodyId m.bodies.length = false := by
      simp only [isFixedBodyId, Bool.and_eq_false_iff, decide_eq_false_iff_not]
      omega
    unfold setInertial
    simp only [hfix, Bool.false_eq_true, if_false]
    have hfix' : isFixedBodyId { m.movableResultS parent frame j b name with
        bodies := (m.movableResultS parent frame j b name).bodies.set m.bodies.length
          (updB ((m.movableResultS parent frame j b name).body m.bodies.length)) }
        m.bodies.length = false := hfix
    unfold updateInertiaMatrixForBody
    simp only [hfix', Bool.false_eq_true, if_false]
    have hb : (m.movableResultS parent frame j b name).bodies = m.bodies ++ [b] := rfl
    have hI : (m.movableResultS parent frame j b name).I
        = m.I ++ [RBI.ofMassComInertiaC b.mass b.com b.inertia] := rfl
    simp only [body, hb, hI, getD_append_length, set_append_length]
    rw [← hlen, set_append_length]
    rfl

omit [DecidableEq α] in
theorem addBodyMovable_lengths {m : ModelS α} {parent : Nat} {frame : XT α} {j : Joint α}
    {b : Body α} {name : String} {m1 : ModelS α} {id : Nat}
    (hadd : m.addBodyMovable parent frame j b name = (m1, .ok id)) :
    m1.I.length = m.I.length + 1 ∧ m1.bodies.length = m.bodies.length + 1 := by
  rw [addBodyMovable_eqS5] at hadd
  split at hadd
  · cases hadd
  · simp only [Prod.mk.injEq, Except.ok.injEq] at hadd
    obtain ⟨hm1, _⟩ := hadd
    subst hm1
    simp [movableResultS]

theorem setterOK_addChain (name : String) (axes : List (SV α)) :
    ∀ (m : ModelS α) (parent : Nat) (frame : XT α), m.I.length = m.bodies.length →
      m.bodies.length + axes.length ≤ fixedDisc →
      SetterOK (fun b => m.addChain parent frame axes b name) := by
  induction axes with
  | nil =>
    intro m parent frame _ _ b m1 id hadd
    simp only [addChain] at hadd
    cases hadd
  | cons a rest ih =>
    intro m parent frame hlen hsmall
    cases rest with
    | nil =>
      simp only [addChain]
      exact setterOK_addBodyMovable m parent frame _ name hlen (by simp at hsmall; omega)
    | cons a2 rest =>
      simp only [addChain]
      generalize h1 : m.addBodyMovable parent frame (Joint.ofAxis a) nullBody "" = first
      obtain ⟨mm, res⟩ := first
      cases res with
      | error e =>
        intro b m1 id hadd
        simp only at hadd
        cases hadd
      | ok idd =>
        simp only
        obtain ⟨h1I, h1b⟩ := addBodyMovable_lengths h1
        apply ih
        · omega
        · simp only [List.length_cons] at hsmall ⊢; omega


theorem setterOK_error (m : ModelS α) (e : Err) : SetterOK (fun _ : Body α => (m, .error e)) := by
  intro b m1 id hadd
  cases hadd

/-- `Model::AddBody` with any joint that is not the fixed joint -/
theorem setterOK_addBody (m : ModelS α) (parent : Nat) (frame : XT α) (j : Joint α)
    (name : String) (hjt : j.jt ≠ .fixed) (hlen : m.I.length = m.bodies.length)
    (hsmall : m.bodies.length + j.axes.length + 1 < fixedDisc) :
    SetterOK (fun b => m.addBody parent frame j b name) := by
  unfold addBody
  by_cases hname : name ≠ "" ∧ m.hasName name
  · simp only [if_pos hname]
    exact setterOK_error m _
  · simp only [if_neg hname]
    have hmov := setterOK_addBodyMovable m parent frame j name hlen (by omega)
    cases hj : j.jt <;> simp only [] <;> first
      | exact hmov
      | exact setterOK_error m _
      | exact absurd hj hjt
      | exact setterOK_addChain name j.axes m parent frame hlen (by omega)
      | skip
    -- floating base
    cases h1 : Joint.ofType (α := α) .translationXYZ with
    | none => exact setterOK_error m _
    | some jt =>
      cases h2 : Joint.ofType (α := α) .spherical with
      | none => exact setterOK_error m _
      | some js =>
        simp only
        generalize h1 : m.addBodyMovable parent frame jt nullBody "" = first
        obtain ⟨mm, res⟩ := first
        cases res with
        | error e =>
          intro b m1 id hadd
          simp only at hadd
          cases hadd
        | ok idd =>
          simp only
          obtain ⟨h1I, h1b⟩ := addBodyMovable_lengths h1
          exact setterOK_addBodyMovable mm idd XT.id js name (by omega) (by omega)


theorem addBody_fixed (m : ModelS α) (parent : Nat) (frame : XT α) (j : Joint α) (b : Body α)
    (name : String) (hjt : j.jt = .fixed) :
    m.addBody parent frame j b name = m.addBodyFixed parent frame b name := by
  unfold addBody
  by_cases hname : name ≠ "" ∧ m.hasName name
  · rw [if_pos hname, addBodyFixed_eq, if_pos hname]
  · rw [if_neg hname]
    simp only [hjt]

/-- `AddBodyCustomJoint` -/
theorem setterOK_addBodyCustomJoint (m : ModelS α) (parent : Nat) (frame : XT α) (k : CustomKind)
    (name : String) (hlen : m.I.length = m.bodies.length)
    (hsmall : m.bodies.length + 4 < fixedDisc) :
    SetterOK (fun b => m.addBodyCustomJoint parent frame k b name) := by
  unfold addBodyCustomJoint
  by_cases hname : name ≠ "" ∧ m.hasName name
  · simp only [if_pos hname]
    exact setterOK_error m _
  · simp only [if_neg hname]
    apply setterOK_addBody
    · simp [Joint.customProxy]
    · exact hlen
    · have : k.dof ≤ 3 := by cases k <;> decide
      simp only [Joint.customProxy, List.length_replicate]
      omega

/-- a successful `AddBodyFixedJoint` on concrete data: the result code -/
theorem addBodyFixed_snd {m : ModelS α} {parent : Nat} {frame : XT α} {b : Body α} {name : String}
    (hname : ¬(name ≠ "" ∧ m.hasName name))
    (h : ((m.body (m.fixedTarget parent frame).1).join (m.fixedTarget parent frame).2 b).isSome) :
    (m.addBodyFixed parent frame b name).2 = .ok (m.fixedBodies.length + fixedDisc) := by
  rw [addBodyFixed_eq, if_neg hname]
  unfold fixedResultS
  obtain ⟨pb, hpb⟩ := Option.isSome_iff_exists.1 h
  simp only [hpb]

end ModelS

/-! ### a concrete model over `Rat` -/
namespace C15.Ex

def jzS5 : Joint Rat := Joint.revolute ⟨0, 0, 1⟩
def jfixS5 : Joint Rat := ⟨.fixed, [], 0, 0, noCustom⟩
/-- the initial model with one revolute body `A` … -/
def mA : ModelS Rat := (ModelS.init.addBody 0 X jzS5 A "a").1
theorem mA_add : ModelS.init.addBody 0 X jzS5 A "a" = (mA, .ok 1) := rfl
/-- … and `B` fixed to it -/
def mB : ModelS Rat := (mA.addBody 1 X jfixS5 B "b").1
theorem mA_body : mA.body (mA.fixedTarget 1 X).1 = A := rfl
theorem mB_add : mA.addBody 1 X jfixS5 B "b" = (mB, .ok fixedDisc) := by
  have hb : ¬(B.mass = 0 ∧ B.inertia = M3.zero) := fun h => B_mass h.1
  have h : (mA.addBodyFixed 1 X B "b").2 = .ok (mA.fixedBodies.length + fixedDisc) :=
    ModelS.addBodyFixed_snd (by decide) (by rw [mA_body, Body.join_eq hb AB_mass]; rfl)
  unfold mB
  rw [ModelS.addBody_fixed _ _ _ _ _ _ rfl]
  exact Prod.ext rfl h
theorem mB_fixedBody : mB.fixedBody (fixedDisc - fixedDisc) = ⟨B.mass, B.com, B.inertia, 1, X⟩ :=
  ModelS.addBodyFixed_fixedBody
    (by rw [← ModelS.addBody_fixed mA 1 X jfixS5 B "b" rfl]; exact mB_add)

end C15.Ex
end Rbdl
