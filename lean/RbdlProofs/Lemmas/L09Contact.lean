import RbdlProofs.Lemmas.L09Kin
/-
  C09, part 3: what one constraint writes — the rows of `Constr.jacobian`, `Constr.positionError`,
  `Constr.velocityError`, `Constr.gamma`, for contacts and for loops, as closed formulas in the
  outputs of the kinematics routines; the contact statements of C09.
-/
set_option linter.unusedSectionVars false
namespace Rbdl.L09
open Lean.Grind Rbdl Rbdl.L05 Rbdl.Spec

section
variable {α : Type} [Field α] [DecidableEq α]

/-- row `r` of `G` times `x` -/
def rowDot (G : MatN α) (nv r : Nat) (x : VecN α) : α := sumTo nv (fun j => G r j * x j)

/-- `r` is one of the rows of the constraint -/
def hasRow (c : Constr α) (r : Nat) : Prop := c.row ≤ r ∧ r < c.row + c.T.length

instance (c : Constr α) (r : Nat) : Decidable (hasRow c r) := by
  unfold hasRow; infer_instance

/-- axis `r - row` of the constraint (for a row of the constraint) -/
def axisAt (c : Constr α) (r : Nat) : SV α := c.T.getD (r - c.row) SV.zero

theorem axisAt_eq (c : Constr α) (r : Nat) (h : c.row ≤ r ∧ r < c.row + c.T.length) :
    c.T[r - c.row]'(by omega) = axisAt c r := by
  unfold axisAt
  rw [List.getD_eq_getElem?_getD, List.getElem?_eq_getElem (by omega), Option.getD_some]

/-! ### contact constraints -/

/-- the point Jacobian the contact constraint evaluates -/
def contactJ (c : Constr α) (m : ModelS α) (w : WS α) (st : QS α) (update : Bool) : MatN α :=
  (calcPointJacobian m w st c.bodyP c.XP.r zeroMat update).2

/-- rows written by `ContactConstraint::calcConstraintJacobian`: row `row + k` is
    `n_kᵀ J_point` (columns `< qdotSize`); everything else keeps the input -/
theorem contact_jacobian_get (c : Constr α) (hc : c.ctype = .contact) (m : ModelS α) (w : WS α)
    (st : QS α) (G : MatN α) (update : Bool) (r col : Nat) :
    (c.jacobian m w st G update).2 r col
      = if hasRow c r ∧ col < m.qdotSize then
          (axisAt c r).v.x * contactJ c m w st update 0 col
            + (axisAt c r).v.y * contactJ c m w st update 1 col
            + (axisAt c r).v.z * contactJ c m w st update 2 col
        else G r col := by
  unfold Constr.jacobian
  simp only [hc]
  have := setRows_get c.T c.row m.qdotSize
    (fun (t : SV α) (_ : Nat) col => t.v.x * contactJ c m w st update 0 col
      + t.v.y * contactJ c m w st update 1 col + t.v.z * contactJ c m w st update 2 col) G r col
  rw [show (calcPointJacobian m w st c.bodyP c.XP.r (fun _ _ => 0) update) =
    ((calcPointJacobian m w st c.bodyP c.XP.r zeroMat update).1, contactJ c m w st update) from rfl]
  dsimp only
  rw [this]
  by_cases h : (c.row ≤ r ∧ r < c.row + c.T.length) ∧ col < m.qdotSize
  · rw [dif_pos h, if_pos (show hasRow c r ∧ col < m.qdotSize from h), axisAt_eq c r h.1]
  · rw [dif_neg h, if_neg (show ¬ (hasRow c r ∧ col < m.qdotSize) from h)]

theorem contact_jacobian_ws (c : Constr α) (hc : c.ctype = .contact) (m : ModelS α) (w : WS α)
    (st : QS α) (G : MatN α) (update : Bool) :
    (c.jacobian m w st G update).1 = updQ m w st update := by
  unfold Constr.jacobian
  simp only [hc]
  rfl

/-- `row · x = n_k · (J_point x)` -/
theorem contact_row_dot (c : Constr α) (hc : c.ctype = .contact) (m : ModelS α) (w : WS α)
    (st : QS α) (G : MatN α) (update : Bool) (r : Nat) (hr : hasRow c r) (x : VecN α) :
    rowDot (c.jacobian m w st G update).2 m.qdotSize r x
      = (axisAt c r).v.dot (mulVecV3 (contactJ c m w st update) m.qdotSize x) := by
  unfold rowDot
  rw [← dot_mulVecV3]
  refine sumTo_congr _ _ _ (fun j hj => ?_)
  rw [contact_jacobian_get c hc, if_pos ⟨hr, hj⟩]

/-- rows written by `ContactConstraint::calcVelocityError` -/
theorem contact_velocityError_get (c : Constr α) (hc : c.ctype = .contact) (m : ModelS α)
    (w : WS α) (st : QS α) (qd : VecN α) (G : MatN α) (errd : VecN α) (update : Bool) (r : Nat) :
    (c.velocityError m w st qd G errd update).2 r
      = if hasRow c r then
          (if c.velC.getD (r - c.row) false then
            (calcPointVelocity m w st qd c.bodyP c.XP.r update).2.dot (axisAt c r).v else 0)
        else errd r := by
  unfold Constr.velocityError
  simp only [hc]
  have := updRows_get c.T c.row
    (fun (t : SV α) (k : Nat) => if c.velC.getD k false then
      (calcPointVelocity m w st qd c.bodyP c.XP.r update).2.dot t.v else 0) errd r
  rw [show (calcPointVelocity m w st qd c.bodyP c.XP.r update) =
    ((calcPointVelocity m w st qd c.bodyP c.XP.r update).1,
     (calcPointVelocity m w st qd c.bodyP c.XP.r update).2) from rfl]
  dsimp only
  rw [this]
  by_cases h : c.row ≤ r ∧ r < c.row + c.T.length
  · rw [dif_pos h, if_pos (show hasRow c r from h), axisAt_eq c r h]
  · rw [dif_neg h, if_neg (show ¬ hasRow c r from h)]

/-- rows written by `ContactConstraint::calcPositionError` -/
theorem contact_positionError_get (c : Constr α) (hc : c.ctype = .contact) (m : ModelS α)
    (w : WS α) (st : QS α) (err : VecN α) (update : Bool) (r : Nat) :
    (c.positionError m w st err update).2 r
      = if hasRow c r then
          (if c.posC.getD (r - c.row) false then
            (calcBodyToBaseCoordinates m w st c.bodyP c.XP.r update).2.dot (axisAt c r).v else 0)
        else err r := by
  unfold Constr.positionError
  simp only [hc]
  have := updRows_get c.T c.row
    (fun (t : SV α) (k : Nat) => if c.posC.getD k false then
      (calcBodyToBaseCoordinates m w st c.bodyP c.XP.r update).2.dot t.v else 0) err r
  rw [show (calcBodyToBaseCoordinates m w st c.bodyP c.XP.r update) =
    ((calcBodyToBaseCoordinates m w st c.bodyP c.XP.r update).1,
     (calcBodyToBaseCoordinates m w st c.bodyP c.XP.r update).2) from rfl]
  dsimp only
  rw [this]
  by_cases h : c.row ≤ r ∧ r < c.row + c.T.length
  · rw [dif_pos h, if_pos (show hasRow c r from h), axisAt_eq c r h]
  · rw [dif_neg h, if_neg (show ¬ hasRow c r from h)]

/-- rows written by `ContactConstraint::calcGamma` -/
theorem contact_gamma_get (c : Constr α) (hc : c.ctype = .contact) (m : ModelS α)
    (w : WS α) (st : QS α) (qd : VecN α) (gam : VecN α) (r : Nat) :
    (c.gamma m w st qd gam).2 r
      = if hasRow c r then
          -((axisAt c r).v.dot (calcPointAcceleration m w st qd zeroVec c.bodyP c.XP.r false).2)
        else gam r := by
  unfold Constr.gamma
  simp only [hc]
  have := updRows_get c.T c.row
    (fun (t : SV α) (_ : Nat) =>
      -(t.v.dot (calcPointAcceleration m w st qd zeroVec c.bodyP c.XP.r false).2)) gam r
  rw [show (calcPointAcceleration m w st qd zeroVec c.bodyP c.XP.r false) =
    ((calcPointAcceleration m w st qd zeroVec c.bodyP c.XP.r false).1,
     (calcPointAcceleration m w st qd zeroVec c.bodyP c.XP.r false).2) from rfl]
  dsimp only
  rw [this]
  by_cases h : c.row ≤ r ∧ r < c.row + c.T.length
  · rw [dif_pos h, if_pos (show hasRow c r from h), axisAt_eq c r h]
  · rw [dif_neg h, if_neg (show ¬ hasRow c r from h)]

theorem v3_dot_comm (a b : V3 α) : a.dot b = b.dot a := by simp only [alg]; grind

/-! ### the contact constraint function as a jet -/

/-- `φ(t) = n · (p(t) + R(t) x)`: the constraint function of one contact row, over jets -/
def contactPhi (P : Pose (D2 α)) (x n : V3 α) : D2 α := (liftV n).dot (P.p + P.R * liftV x)

/-- the contact branch of `Spec.constrPhi` is `contactPhi` of the body's pose jet -/
theorem constrPhi_contact (M : SModel α) (tab : List (Pose (D2 α))) (c : Constr α)
    (hc : c.ctype = .contact) :
    constrPhi M tab c = c.T.map (fun t => contactPhi (poseOf M tab c.bodyP) c.XP.r t.v) := by
  unfold constrPhi
  simp only [hc]
  rfl

theorem contactPhi_x (P : Pose (D2 α)) (x n : V3 α) :
    (contactPhi P x n).x = n.dot ((NodeKin.ofPose P).pt x) := by
  simp only [contactPhi, liftV, NodeKin.pt]
  jet06_simp

theorem contactPhi_d1 (P : Pose (D2 α)) (x n : V3 α) :
    (contactPhi P x n).d1 = n.dot ((NodeKin.ofPose P).ptd x) := by
  simp only [contactPhi, liftV, NodeKin.ptd]
  jet06_simp
  grind

theorem contactPhi_d2 (P : Pose (D2 α)) (x n : V3 α) :
    (contactPhi P x n).d2 = n.dot ((NodeKin.ofPose P).ptdd x) := by
  simp only [contactPhi, liftV, NodeKin.ptdd]
  jet06_simp
  grind

end
end Rbdl.L09
