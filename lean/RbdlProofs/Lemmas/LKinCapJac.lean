import RbdlProofs.Lemmas.LKinCapWs
import RbdlProofs.Lemmas.L05Ex
/-
  Kinematics capstones, Jacobian side: **column `x` of a zero-initialised Jacobian fill is the fill's
  transform applied to the base-frame spatial velocity of the body for the unit generalized velocity
  `e_x`**.

  `G e_x` is column `x` of `G`; the fill reads only `X_base` and the motion-subspace columns, which
  `UpdateKinematicsCustom (Q)` and `UpdateKinematicsCustom (Q, e_x)` leave identical
  (`LKinCap.ukc2_Scols`, `ukc2_X_base`); in the latter workspace `G q̇` is the velocity
  (`L05.jacFill_mulVec`, C05).
-/
namespace Rbdl.LKinCap
open Lean.Grind Rbdl Rbdl.Spec Rbdl.L06 Rbdl.L05 Rbdl.L01Cap Rbdl.Loops
set_option linter.unusedSimpArgs false
set_option linter.unusedVariables false
set_option linter.unusedSectionVars false

section
variable {α : Type} [Field α] [DecidableEq α]

/-! ### `G e_x` is column `x` -/

theorem sumTo_unit (f : Nat → α) (x n : Nat) :
    sumTo n (fun k => f k * (unitV x : VecN α) k) = if x < n then f x else 0 := by
  induction n with
  | zero => rfl
  | succ n ih =>
    rw [sumTo, ih]
    simp only [unitV]
    by_cases h : n = x
    · subst h
      rw [if_neg (by omega), if_pos rfl, if_pos (by omega)]
      grind
    · rw [if_neg h]
      by_cases h' : x < n
      · rw [if_pos h', if_pos (by omega)]; grind
      · rw [if_neg h', if_neg (by omega)]; grind

theorem mulVecSV_unit (G : MatN α) (n x : Nat) (hx : x < n) :
    mulVecSV G n (unitV x) = colSV G x := by
  simp only [mulVecSV, colSV, sumTo_unit, if_pos hx]

/-! ### the fill reads `X_base` and the motion-subspace columns only -/

theorem fillList_congr (m : ModelS α) (w w' : WS α) (T : XT α) (sel : SV α → List α)
    (l : List Nat)
    (h : ∀ j ∈ l, w.X_base j = w'.X_base j ∧ w.Scols m j = w'.Scols m j) (G : MatN α) :
    fillList m w T sel l G = fillList m w' T sel l G := by
  induction l generalizing G with
  | nil => rfl
  | cons a l ih =>
    rw [fillList_cons, fillList_cons, ih (fun j hj => h j (List.mem_cons_of_mem _ hj))]
    congr 1
    unfold jacBody
    rw [(h a (List.mem_cons_self ..)).1, (h a (List.mem_cons_self ..)).2]

theorem jacFill_congr (m : ModelS α) (htree : Tree m) (w w' : WS α) (T : XT α) (start : Nat)
    (hs : start < m.nBodies) (sel : SV α → List α) (G : MatN α)
    (h : ∀ j, 1 ≤ j → j < m.nBodies → w.X_base j = w'.X_base j ∧ w.Scols m j = w'.Scols m j) :
    jacFill m w T start sel G = jacFill m w' T start sel G := by
  rw [jacFill_eq_path m htree w T start hs, jacFill_eq_path m htree w' T start hs]
  refine fillList_congr m w w' T sel _ (fun j hj => ?_) G
  have := mem_path m htree start hs j hj
  exact h j this.1 (by omega)

/-- the fill started at the base writes nothing -/
theorem jacFill_base (m : ModelS α) (w : WS α) (T : XT α) (sel : SV α → List α) (G : MatN α) :
    jacFill m w T 0 sel G = G := by
  unfold jacFill
  cases h : m.nBodies with
  | zero => rfl
  | succ n => simp only [walkUp, if_true]

/-! ### the hypotheses of C05 from those of the capstone -/

theorem customInj05 {m : ModelS α} (h : L01.CustomInj m) : L05.CustomInj m :=
  fun i j _ _ _ _ hi hj e => h i j hi hj e

theorem kinHyp_of_ok {m : ModelS α} (hm : ModelOK m) {w : WS α} (hw : WSFixed m w) {st : QS α}
    (hst : StateOK m st) : KinHyp m w st :=
  ⟨hm.wf.lam_lt, hm.jc, hm.frame, hst, hm.jointWS hw, customInj05 hm.cinj⟩

/-- **column `x` of a zero-initialised fill**: with the workspace `W1` left by
    `UpdateKinematicsCustom (Q)` and the workspace `Wx` left by `UpdateKinematicsCustom (Q, e_x)` from
    the same entry workspace, column `x < dofCount` of `jacFill W1 T b` is
    `T (X_base[b]⁻¹ v_x[b])`, for every movable body `b ≥ 1` and every transform `T` -/
theorem jacFill_col {m : ModelS α} (hm : ModelOK m) (w : WS α) (hw : WSFixed m w) (st : QS α)
    (hst : StateOK m st) (T : XT α) (b : Nat) (b1 : 1 ≤ b) (b2 : b < m.nBodies) (x : Nat)
    (hx : x < m.dofCount) :
    colSV (jacFill m (updateKinematicsCustom m w (some st) none none) T b SV.toList zeroMat) x
      = T.apply (((updateKinematicsCustom m w (some st) (some (unitV x)) none).X_base b).inverse.apply
          ((updateKinematicsCustom m w (some st) (some (unitV x)) none).v b)) := by
  have hK := kinHyp_of_ok hm hw hst
  have hL := Layout.of_WF m hm.wf
  obtain ⟨hkin, hcc⟩ := kinWS_updateKinematicsCustom m w st (unitV x) hK
  have hcols := colsOk_of_customCols hcc (customDof_of_WF m hm.wf)
  rw [← mulVecSV_unit _ m.qdotSize x (by rw [hm.wf.qdot]; exact hx),
    jacFill_congr m hm.wf.lam_lt _ (updateKinematicsCustom m w (some st) (some (unitV x)) none) T b
      b2 SV.toList zeroMat (fun j j1 j2 => ⟨by rw [ukc2_X_base],
        (ukc2_Scols m w st (unitV x) hm.cinj j j1 j2).symm⟩),
    jacFill_mulVec hL hcols hkin T b b1 b2]

end
end Rbdl.LKinCap
