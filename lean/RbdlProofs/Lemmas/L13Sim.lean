import RbdlProofs.Lemmas.L13Agree
/-
  C13 helper lemmas, part 4: `jcalc` / `jcalc_X_lambda_S` on two reachable workspaces, and the
  derived quantities (`Sqdd`, `tauWrite`, `Scols`, body force, the articulated-body helpers) read
  from agreeing entries.
-/
namespace Rbdl.L13
open Lean.Grind Rbdl Rbdl.Loops
set_option linter.unusedSimpArgs false
set_option linter.unusedVariables false
set_option linter.unusedSectionVars false
set_option linter.constructorNameAsVariable false

/-- rewrite with equations whose sides may contain projections of structure literals -/
syntax "arw " "[" term,* "]" : tactic
macro_rules
  | `(tactic| arw []) => `(tactic| skip)
  | `(tactic| arw [$t]) =>
    `(tactic| first
      | done
      | (try dsimp only
         have e := $t; try dsimp only at e
         rw [e]))
  | `(tactic| arw [$t, $ts,*]) =>
    `(tactic| ((first
      | done
      | (try dsimp only
         have e := $t; try dsimp only at e
         rw [e])); arw [$ts,*]))

/-- `dom` with extra facts for the simplifier (e.g. `m.arity i = jtAr …`) -/
macro "domw " "[" ts:Lean.Parser.Tactic.simpLemma,* "]" : tactic =>
  `(tactic| first
    | (simp only [dom, List.mem_cons, List.mem_nil_iff, or_false, reduceCtorEq, true_or, or_true,
        true_and, and_true, false_and, and_false, false_or, ne_eq, not_false_eq_true, $ts,*]; done)
    | (simp only [dom, List.mem_cons, List.mem_nil_iff, or_false, reduceCtorEq, true_or, or_true,
        true_and, and_true, false_and, and_false, false_or, ne_eq, not_false_eq_true, $ts,*]; omega))

/-- the arity the algorithms should see for a joint type -/
def jtAr : JT → Arity
  | .revoluteX | .revoluteY | .revoluteZ | .revolute | .prismatic | .helical => .one
  | .spherical | .eulerZYX | .eulerXYZ | .eulerYXZ | .eulerZXY | .translationXYZ => .three
  | .custom => .custom
  | _ => .other

section
variable {α : Type} [Field α]

/-- joint `i` has a type `jcalc` handles, and its `mDoFCount` matches the type (true for every
    joint a model can contain after `AddBody`) -/
def JointOK (m : ModelS α) (i : Nat) : Prop :=
  (m.joint i).jt.hasJcalc = true ∧ m.arity i = jtAr (m.joint i).jt

theorem jcalcX_indep (m : ModelS α) (i : Nat) (st : QS α) (old old' : XT α)
    (hj : (m.joint i).jt.hasJcalc = true) : jcalcX m i st old = jcalcX m i st old' := by
  unfold jcalcX
  dsimp only
  cases h : (m.joint i).jt <;> simp only [h, JT.hasJcalc, Bool.false_eq_true] at hj <;> rfl

theorem jcalcS_agree (m : ModelS α) (i : Nat) (st : QS α) {S vJ cJ S' vJ' cJ' : SV α}
    {S3 S3' : M63 α}
    (h : FixedAt (m.joint i).jt ((m.joint i).axes.headD SV.zero) S vJ cJ S3)
    (h' : FixedAt (m.joint i).jt ((m.joint i).axes.headD SV.zero) S' vJ' cJ' S3')
    (ha : jtAr (m.joint i).jt = .one) : jcalcS m i st S = jcalcS m i st S' := by
  unfold jcalcS
  cases hj : (m.joint i).jt <;> simp only [hj, jtAr, reduceCtorEq, FixedAt] at ha h h' ⊢
  all_goals rw [h.1, h'.1]

theorem jcalcS3_agree (m : ModelS α) (i : Nat) (st : QS α) {S vJ cJ S' vJ' cJ' : SV α}
    {S3 S3' : M63 α}
    (h : FixedAt (m.joint i).jt ((m.joint i).axes.headD SV.zero) S vJ cJ S3)
    (h' : FixedAt (m.joint i).jt ((m.joint i).axes.headD SV.zero) S' vJ' cJ' S3')
    (ha : jtAr (m.joint i).jt = .three) : jcalcS3 m i st S3 = jcalcS3 m i st S3' := by
  unfold jcalcS3
  dsimp only
  cases hj : (m.joint i).jt <;> simp only [hj, jtAr, reduceCtorEq, FixedAt] at ha h h' ⊢
  all_goals
    simp only [S3mask, M63.setW, M63.zero, SV.zero, V3.zero, M63.mk.injEq, SV.mk.injEq,
      V3.mk.injEq] at h h'
    simp only [sphericalS, eulerZYX_S, eulerXYZ_S, eulerYXZ_S, eulerZXY_S, translationS, M63.setW,
      M63.mk.injEq, SV.mk.injEq, V3.mk.injEq]
    grind

theorem jcalcVJ_agree (m : ModelS α) (i : Nat) (st : QS α) (qd : VecN α)
    {S vJ cJ S' vJ' cJ' : SV α} {S3 S3' : M63 α}
    (h : FixedAt (m.joint i).jt ((m.joint i).axes.headD SV.zero) S vJ cJ S3)
    (h' : FixedAt (m.joint i).jt ((m.joint i).axes.headD SV.zero) S' vJ' cJ' S3')
    (hjc : (m.joint i).jt.hasJcalc = true) :
    jcalcVJ m i st qd S vJ S3 = jcalcVJ m i st qd S' vJ' S3' := by
  have hS3 := jcalcS3_agree m i st h h'
  unfold jcalcVJ
  dsimp only
  cases hj : (m.joint i).jt <;>
    simp only [hj, jtAr, reduceCtorEq, FixedAt, JT.hasJcalc, Bool.false_eq_true, forall_const]
      at hjc h h' hS3 ⊢
  case revoluteX => rw [h.2.1, h.2.2.1, h.2.2.2.1, h'.2.1, h'.2.2.1, h'.2.2.2.1]
  case revoluteY => rw [h.2.1, h.2.2.1, h.2.2.2.1, h'.2.1, h'.2.2.1, h'.2.2.2.1]
  case revoluteZ => rw [h.2.1, h.2.2.1, h.2.2.2.1, h'.2.1, h'.2.2.1, h'.2.2.2.1]
  case revolute => rw [h.1, h'.1]
  case prismatic => rw [h.1, h'.1]
  all_goals rw [hS3]

theorem jcalcCJ_agree (m : ModelS α) (i : Nat) (st : QS α) (qd : VecN α)
    {S vJ cJ S' vJ' cJ' : SV α} {S3 S3' : M63 α}
    (h : FixedAt (m.joint i).jt ((m.joint i).axes.headD SV.zero) S vJ cJ S3)
    (h' : FixedAt (m.joint i).jt ((m.joint i).axes.headD SV.zero) S' vJ' cJ' S3')
    (hjc : (m.joint i).jt.hasJcalc = true) :
    jcalcCJ m i st qd cJ = jcalcCJ m i st qd cJ' := by
  unfold jcalcCJ
  dsimp only
  cases hj : (m.joint i).jt <;>
    simp only [hj, FixedAt, JT.hasJcalc, Bool.false_eq_true] at hjc h h' ⊢
  case revoluteX => rw [h.2.2.2.2, h'.2.2.2.2]
  case revoluteY => rw [h.2.2.2.2, h'.2.2.2.2]
  case revoluteZ => rw [h.2.2.2.2, h'.2.2.2.2]
  case revolute => rw [h.2, h'.2]
  case prismatic => rw [h.2, h'.2]
  case spherical => rw [h.1, h'.1]

theorem upd_fn_congr {β : Type} (F : β → β) (a a' : Nat → β) (i j : Nat) (h : a j = a' j) :
    upd a i (F (a i)) j = upd a' i (F (a' i)) j := by
  by_cases e : j = i
  · subst e; rw [upd_same, upd_same, h]
  · rw [upd_other _ _ _ _ e, upd_other _ _ _ _ e, h]

theorem jtAr_custom {t : JT} (h : jtAr t = .custom) : t = .custom := by
  cases t <;> simp only [jtAr, reduceCtorEq] at h ⊢

theorem jcalcCS_congr (m : ModelS α) (i : Nat) (st : QS α) (a a' : Nat → List (SV α)) (k : Nat)
    (h : a k = a' k) : jcalcCS m i st a k = jcalcCS m i st a' k := by
  unfold jcalcCS
  cases hj : (m.joint i).jt <;> dsimp only <;> try exact h
  by_cases e : k = (m.joint i).customIdx
  · rw [e, upd_same, upd_same]
  · rw [upd_other _ _ _ _ e, upd_other _ _ _ _ e, h]

theorem jcalcCS_self (m : ModelS α) (i : Nat) (st : QS α) (a a' : Nat → List (SV α))
    (h : (m.joint i).jt = .custom) :
    jcalcCS m i st a (m.joint i).customIdx = jcalcCS m i st a' (m.joint i).customIdx := by
  unfold jcalcCS
  simp only [h, upd_same]

/-- `jcalc` on two agreeing reachable workspaces: afterwards `X_lambda[i]`, `v_J[i]`, `c_J[i]` and
    (when the arity matches the joint type) the motion subspace of joint `i` agree as well -/
theorem Agree.jcalc {m : ModelS α} {D D' : Dom} {w w' : WS α} (h : Agree m D w w') (i : Nat)
    (h1 : 1 ≤ i) (h2 : i < m.nBodies) (hjc : (m.joint i).jt.hasJcalc = true) (st : QS α)
    (qd : VecN α)
    (hD : ∀ g j, D' g j → D g j ∨ (j = i ∧ (g = .X_lambda ∨ g = .v_J ∨ g = .c_J ∨
        ((g = .S ∨ g = .S3 ∨ g = .cS) ∧ m.arity i = jtAr (m.joint i).jt)))) :
    Agree m D' (jcalc m w i st qd) (jcalc m w' i st qd) := by
  have hF := h.fix.2 i h1 h2
  have hF' := h.fix'.2 i h1 h2
  refine ⟨wsfixed_jcalc m w i st qd h.fix, wsfixed_jcalc m w' i st qd h.fix', fun g j hgj => ?_⟩
  rw [jcalc_eq, jcalc_eq]
  have hX := jcalcX_indep m i st (w.X_lambda i) (w'.X_lambda i) hjc
  have hV := jcalcVJ_agree m i st qd hF hF' hjc
  have hC := jcalcCJ_agree m i st qd hF hF' hjc
  rcases hD g j hgj with hd | ⟨rfl, hg⟩
  · have := h.eq g j hd
    by_cases e : j = i
    · subst e
      cases g
      case X_lambda => simp only [view, upd_same]; rw [hX]
      case v_J => simp only [view, upd_same]; rw [hV]
      case c_J => simp only [view, upd_same]; rw [hC]
      case S =>
        simp only [view, upd_same] at this ⊢
        by_cases ha : m.arity j = .one
        · simp only [ha, if_true] at this ⊢; rw [Option.some.inj this]
        · simp only [ha, if_false]
      case S3 =>
        simp only [view, upd_same] at this ⊢
        by_cases ha : m.arity j = .three
        · simp only [ha, if_true] at this ⊢; rw [Option.some.inj this]
        · simp only [ha, if_false]
      case cS =>
        simp only [view] at this ⊢
        by_cases ha : m.arity j = .custom
        · simp only [ha, if_true] at this ⊢
          exact congrArg some (jcalcCS_congr m j st _ _ _ (Option.some.inj this))
        · simp only [ha, if_false]
      all_goals exact this
    · cases g
      case X_lambda => simp only [view, upd_other _ _ _ _ e] at this ⊢; exact this
      case v_J => simp only [view, upd_other _ _ _ _ e] at this ⊢; exact this
      case c_J => simp only [view, upd_other _ _ _ _ e] at this ⊢; exact this
      case S => simp only [view, upd_other _ _ _ _ e] at this ⊢; exact this
      case S3 => simp only [view, upd_other _ _ _ _ e] at this ⊢; exact this
      case cS =>
        simp only [view] at this ⊢
        by_cases ha : m.arity j = .custom
        · simp only [ha, if_true] at this ⊢
          exact congrArg some (jcalcCS_congr m i st _ _ _ (Option.some.inj this))
        · simp only [ha, if_false]
      all_goals exact this
  · rcases hg with rfl | rfl | rfl | ⟨rfl | rfl | rfl, ha⟩
    · simp only [view, upd_same]; rw [hX]
    · simp only [view, upd_same]; rw [hV]
    · simp only [view, upd_same]; rw [hC]
    · simp only [view, upd_same]
      split
      · rename_i h1; rw [jcalcS_agree m j st hF hF' (by rw [← ha, h1])]
      · rfl
    · simp only [view, upd_same]
      split
      · rename_i h1; rw [jcalcS3_agree m j st hF hF' (by rw [← ha, h1])]
      · rfl
    · simp only [view]
      split
      · rename_i h1
        rw [jcalcCS_self m j st _ w'.cS (jtAr_custom (by rw [← ha, h1]))]
      · rfl

/-- `jcalc_X_lambda_S` on two agreeing reachable workspaces -/
theorem Agree.xls {m : ModelS α} {D D' : Dom} {w w' : WS α} (h : Agree m D w w') (i : Nat)
    (h1 : 1 ≤ i) (h2 : i < m.nBodies) (hjc : (m.joint i).jt.hasJcalc = true) (st : QS α)
    (hD : ∀ g j, D' g j → D g j ∨ (j = i ∧ (g = .X_lambda ∨
        ((g = .S ∨ g = .S3 ∨ g = .cS) ∧ m.arity i = jtAr (m.joint i).jt)))) :
    Agree m D' (jcalcXlambdaS m w i st) (jcalcXlambdaS m w' i st) := by
  have hF := h.fix.2 i h1 h2
  have hF' := h.fix'.2 i h1 h2
  refine ⟨wsfixed_jcalcXlambdaS m w i st h.fix, wsfixed_jcalcXlambdaS m w' i st h.fix',
    fun g j hgj => ?_⟩
  rw [jcalcXlambdaS_eq, jcalcXlambdaS_eq]
  have hX := jcalcX_indep m i st (w.X_lambda i) (w'.X_lambda i) hjc
  rcases hD g j hgj with hd | ⟨rfl, hg⟩
  · have := h.eq g j hd
    by_cases e : j = i
    · subst e
      cases g
      case X_lambda => simp only [view, upd_same]; rw [hX]
      case S =>
        simp only [view, upd_same] at this ⊢
        by_cases ha : m.arity j = .one
        · simp only [ha, if_true] at this ⊢; rw [Option.some.inj this]
        · simp only [ha, if_false]
      case S3 =>
        simp only [view, upd_same] at this ⊢
        by_cases ha : m.arity j = .three
        · simp only [ha, if_true] at this ⊢; rw [Option.some.inj this]
        · simp only [ha, if_false]
      case cS =>
        simp only [view] at this ⊢
        by_cases ha : m.arity j = .custom
        · simp only [ha, if_true] at this ⊢
          exact congrArg some (jcalcCS_congr m j st _ _ _ (Option.some.inj this))
        · simp only [ha, if_false]
      all_goals exact this
    · cases g
      case X_lambda => simp only [view, upd_other _ _ _ _ e] at this ⊢; exact this
      case S => simp only [view, upd_other _ _ _ _ e] at this ⊢; exact this
      case S3 => simp only [view, upd_other _ _ _ _ e] at this ⊢; exact this
      case cS =>
        simp only [view] at this ⊢
        by_cases ha : m.arity j = .custom
        · simp only [ha, if_true] at this ⊢
          exact congrArg some (jcalcCS_congr m i st _ _ _ (Option.some.inj this))
        · simp only [ha, if_false]
      all_goals exact this
  · rcases hg with rfl | ⟨rfl | rfl | rfl, ha⟩
    · simp only [view, upd_same]; rw [hX]
    · simp only [view, upd_same]
      split
      · rename_i h1
        rw [xlsS_of_fixed m j st _ _ _ _ hF, xlsS_of_fixed m j st _ _ _ _ hF',
          jcalcS_agree m j st hF hF' (by rw [← ha, h1])]
      · rfl
    · simp only [view, upd_same]
      split
      · rename_i h1; rw [jcalcS3_agree m j st hF hF' (by rw [← ha, h1])]
      · rfl
    · simp only [view]
      split
      · rename_i h1
        rw [jcalcCS_self m j st _ w'.cS (jtAr_custom (by rw [← ha, h1]))]
      · rfl

/-- the motion-subspace entries of the bodies `lo ≤ j < hi` whose arity matches their joint type -/
@[dom] def SDom (m : ModelS α) (lo hi : Nat) : Dom :=
  fun g j => (g = .S ∨ g = .S3 ∨ g = .cS) ∧ lo ≤ j ∧ j < hi ∧ m.arity j = jtAr (m.joint j).jt

theorem Agree.jcalcU {m : ModelS α} {D : Dom} {w w' : WS α} (h : Agree m D w w') (i : Nat)
    (h1 : 1 ≤ i) (h2 : i < m.nBodies) (hjc : (m.joint i).jt.hasJcalc = true) (st : QS α)
    (qd : VecN α) :
    Agree m (D ∪ Dom.at [.X_lambda, .v_J, .c_J] i ∪ SDom m i (i + 1))
      (Rbdl.jcalc m w i st qd) (Rbdl.jcalc m w' i st qd) :=
  h.jcalc i h1 h2 hjc st qd (by dom)

theorem Agree.xlsU {m : ModelS α} {D : Dom} {w w' : WS α} (h : Agree m D w w') (i : Nat)
    (h1 : 1 ≤ i) (h2 : i < m.nBodies) (hjc : (m.joint i).jt.hasJcalc = true) (st : QS α) :
    Agree m (D ∪ Dom.at [.X_lambda] i ∪ SDom m i (i + 1))
      (jcalcXlambdaS m w i st) (jcalcXlambdaS m w' i st) :=
  h.xls i h1 h2 hjc st (by dom)

/-! ## derived quantities read from agreeing entries -/

theorem Agree.Sqdd {m : ModelS α} {D : Dom} {w w' : WS α} (h : Agree m D w w') (i : Nat)
    (qdd : VecN α) (hS : D .S i) (hS3 : D .S3 i) (hcS : D .cS i) :
    w.Sqdd m i qdd = w'.Sqdd m i qdd := by
  unfold WS.Sqdd; dsimp only
  cases ha : m.arity i <;> dsimp only
  · rw [h.get_S hS ha]
  · rw [h.get_S3 hS3 ha]
  · rw [h.get_cS hcS ha]

theorem Agree.tauWrite {m : ModelS α} {D : Dom} {w w' : WS α} (h : Agree m D w w') (i : Nat)
    (f : SV α) (tau : VecN α) (hS : D .S i) (hS3 : D .S3 i) (hcS : D .cS i) :
    w.tauWrite m i f tau = w'.tauWrite m i f tau := by
  unfold WS.tauWrite; dsimp only
  cases ha : m.arity i <;> dsimp only
  · rw [h.get_S hS ha]
  · rw [h.get_S3 hS3 ha]
  · rw [h.get_cS hcS ha]

theorem Agree.Scols {m : ModelS α} {D : Dom} {w w' : WS α} (h : Agree m D w w') (i : Nat)
    (hS : D .S i) (hS3 : D .S3 i) (hcS : D .cS i) : w.Scols m i = w'.Scols m i := by
  unfold WS.Scols
  cases ha : m.arity i <;> dsimp only
  · rw [h.get_S hS ha]
  · rw [h.get_S3 hS3 ha]
  · rw [h.get_cS hcS ha]

theorem Agree.bodyForce {m : ModelS α} {D : Dom} {w w' : WS α} (h : Agree m D w w') (i : Nat)
    (ha : D .a i) (hv : D .v i) : bodyForce m w i = bodyForce m w' i := by
  unfold Rbdl.bodyForce
  rw [h.get_a ha, h.get_v hv]

/-! ## primitive steps of the algorithms, and their behaviour on agreeing workspaces

  Each `Agree.stX` lemma lists the entries the step reads (as membership facts of the domain) and
  returns the domain extended by the entry it writes. -/

/-- `v[i] = X_lambda[i].apply(v[λ]) + v_J[i]` -/
def stV (m : ModelS α) (i : Nat) (w : WS α) : WS α :=
  { w with v := upd w.v i ((w.X_lambda i).apply (w.v (m.lam i)) + w.v_J i) }
/-- `v[i] = v_J[i]` -/
def stV0 (i : Nat) (w : WS α) : WS α := { w with v := upd w.v i (w.v_J i) }
/-- `c[i] = c_J[i] + crossm(v[i], v_J[i])` -/
def stC (i : Nat) (w : WS α) : WS α :=
  { w with c := upd w.c i (w.c_J i + crossm (w.v i) (w.v_J i)) }
/-- `X_base[i] = X_lambda[i] * X_base[λ]` -/
def stXb (m : ModelS α) (i : Nat) (w : WS α) : WS α :=
  { w with X_base := upd w.X_base i (w.X_lambda i * w.X_base (m.lam i)) }
/-- `X_base[i] = X_lambda[i]` -/
def stXb0 (i : Nat) (w : WS α) : WS α := { w with X_base := upd w.X_base i (w.X_lambda i) }
/-- `a[i] = X_lambda[i].apply(a[λ]) + c[i] (+ S_i qdd_i)` as in `UpdateKinematics` -/
def stAk (m : ModelS α) (qdd : VecN α) (i : Nat) (w : WS α) : WS α :=
  { w with a := upd w.a i (match m.arity i with
      | .other => (w.X_lambda i).apply (w.a (m.lam i)) + w.c i
      | _ => (w.X_lambda i).apply (w.a (m.lam i)) + w.c i + w.Sqdd m i qdd) }
/-- `a[i] = X_lambda[i].apply(a[λ]) + c[i] + S_i qdd_i` (skipped for joints of no known arity) -/
def stAid (m : ModelS α) (qdd : VecN α) (i : Nat) (w : WS α) : WS α :=
  match m.arity i with
  | .other => w
  | _ => { w with a := upd w.a i ((w.X_lambda i).apply (w.a (m.lam i)) + w.c i + w.Sqdd m i qdd) }
/-- `a[i] = X_lambda[i].apply(x) + c[i]` for a given vector `x` -/
def stAg (x : SV α) (i : Nat) (w : WS α) : WS α :=
  { w with a := upd w.a i ((w.X_lambda i).apply x + w.c i) }
/-- `a[i] = X_lambda[i].apply(a[λ]) + c[i]` -/
def stAn (m : ModelS α) (i : Nat) (w : WS α) : WS α :=
  { w with a := upd w.a i ((w.X_lambda i).apply (w.a (m.lam i)) + w.c i) }
/-- `f[i] = I_i a_i + v_i ×* I_i v_i` -/
def stF (m : ModelS α) (i : Nat) (w : WS α) : WS α := { w with f := upd w.f i (bodyForce m w i) }
/-- `f[i] -= X_base[i].applyAdjoint(f_ext[i])` -/
def stFe (fe : Nat → SV α) (i : Nat) (w : WS α) : WS α :=
  { w with f := upd w.f i (w.f i - (w.X_base i).applyAdjoint (fe i)) }
/-- `f[λ] += X_lambda[i].applyTranspose(f[i])` -/
def stFl (m : ModelS α) (i : Nat) (w : WS α) : WS α :=
  { w with f := upd w.f (m.lam i) (w.f (m.lam i) + (w.X_lambda i).applyTranspose (w.f i)) }

section steps
variable {m : ModelS α} {D : Dom} {w w' : WS α}

theorem Agree.stV (h : Agree m D w w') (i : Nat) (h1 : D .X_lambda i) (h2 : D .v (m.lam i))
    (h3 : D .v_J i) : Agree m (D ∪ Dom.at [.v] i) (stV m i w) (stV m i w') :=
  h.set_v i (by rw [h.get_X_lambda h1, h.get_v h2, h.get_v_J h3]) (by dom)

theorem Agree.stV0 (h : Agree m D w w') (i : Nat) (h3 : D .v_J i) :
    Agree m (D ∪ Dom.at [.v] i) (stV0 i w) (stV0 i w') :=
  h.set_v i (by rw [h.get_v_J h3]) (by dom)

theorem Agree.stC (h : Agree m D w w') (i : Nat) (h1 : D .c_J i) (h2 : D .v i) (h3 : D .v_J i) :
    Agree m (D ∪ Dom.at [.c] i) (stC i w) (stC i w') :=
  h.set_c i (by rw [h.get_c_J h1, h.get_v h2, h.get_v_J h3]) (by dom)

theorem Agree.stXb (h : Agree m D w w') (i : Nat) (hi : 1 ≤ i) (h1 : D .X_lambda i)
    (h2 : D .X_base (m.lam i)) : Agree m (D ∪ Dom.at [.X_base] i) (stXb m i w) (stXb m i w') :=
  h.set_X_base i (by rw [h.get_X_lambda h1, h.get_X_base h2]) hi (by dom)

theorem Agree.stXb0 (h : Agree m D w w') (i : Nat) (hi : 1 ≤ i) (h1 : D .X_lambda i) :
    Agree m (D ∪ Dom.at [.X_base] i) (stXb0 i w) (stXb0 i w') :=
  h.set_X_base i (by rw [h.get_X_lambda h1]) hi (by dom)

theorem Agree.stAk (h : Agree m D w w') (qdd : VecN α) (i : Nat) (h1 : D .X_lambda i)
    (h2 : D .a (m.lam i)) (h3 : D .c i) (hS : D .S i) (hS3 : D .S3 i) (hcS : D .cS i) :
    Agree m (D ∪ Dom.at [.a] i) (stAk m qdd i w) (stAk m qdd i w') :=
  h.set_a i (by rw [h.get_X_lambda h1, h.get_a h2, h.get_c h3, h.Sqdd i qdd hS hS3 hcS]) (by dom)

theorem Agree.stAid (h : Agree m D w w') (qdd : VecN α) (i : Nat) (h1 : D .X_lambda i)
    (h2 : D .a (m.lam i)) (h3 : D .c i) (hS : D .S i) (hS3 : D .S3 i) (hcS : D .cS i)
    (hne : m.arity i ≠ .other) :
    Agree m (D ∪ Dom.at [.a] i) (stAid m qdd i w) (stAid m qdd i w') := by
  have := h.set_a i (D' := D ∪ Dom.at [.a] i)
    (x := (w.X_lambda i).apply (w.a (m.lam i)) + w.c i + w.Sqdd m i qdd)
    (x' := (w'.X_lambda i).apply (w'.a (m.lam i)) + w'.c i + w'.Sqdd m i qdd)
    (by rw [h.get_X_lambda h1, h.get_a h2, h.get_c h3, h.Sqdd i qdd hS hS3 hcS]) (by dom)
  unfold L13.stAid
  cases ha : m.arity i <;> first | exact this | exact absurd ha hne

theorem Agree.stAg (h : Agree m D w w') (x : SV α) (i : Nat) (h1 : D .X_lambda i) (h3 : D .c i) :
    Agree m (D ∪ Dom.at [.a] i) (stAg x i w) (stAg x i w') :=
  h.set_a i (by rw [h.get_X_lambda h1, h.get_c h3]) (by dom)

theorem Agree.stAn (h : Agree m D w w') (i : Nat) (h1 : D .X_lambda i) (h2 : D .a (m.lam i))
    (h3 : D .c i) : Agree m (D ∪ Dom.at [.a] i) (stAn m i w) (stAn m i w') :=
  h.set_a i (by rw [h.get_X_lambda h1, h.get_a h2, h.get_c h3]) (by dom)

theorem Agree.stF (h : Agree m D w w') (i : Nat) (h1 : D .a i) (h2 : D .v i) :
    Agree m (D ∪ Dom.at [.f] i) (stF m i w) (stF m i w') :=
  h.set_f i (h.bodyForce i h1 h2) (by dom)

theorem Agree.stFe (h : Agree m D w w') (fe : Nat → SV α) (i : Nat) (h1 : D .f i)
    (h2 : D .X_base i) : Agree m (D ∪ Dom.at [.f] i) (stFe fe i w) (stFe fe i w') :=
  h.set_f i (by rw [h.get_f h1, h.get_X_base h2]) (by dom)

theorem Agree.stFl (h : Agree m D w w') (i : Nat) (h1 : D .f (m.lam i)) (h2 : D .X_lambda i)
    (h3 : D .f i) : Agree m D (stFl m i w) (stFl m i w') :=
  h.set_f (m.lam i) (by rw [h.get_f h1, h.get_X_lambda h2, h.get_f h3])
    (fun g j hgj => Or.inl hgj)

end steps

end
end Rbdl.L13
