import RbdlProofs.Lemmas.Rot
/-
  Helper lemmas, tactics and concrete instances for the C16 algebra properties
  (`RbdlProofs/Props/C16.lean`).
-/
namespace Rbdl
open Lean.Grind

/- component-wise extensionality for all the fixed-size structures (`ext` then descends to scalars) -/
attribute [ext] V3 M3 SV SM XT RBI Quat D2

/-- Reduce an equation between structures to its scalar components, unfold the algebra layer and
    close every component with `grind` (ring solver). -/
macro "alg_ext" : tactic =>
  `(tactic| (ext <;> simp only [alg] <;> grind))

/-- `alg_ext` with the 15 equations of an `M3.IsRot` hypothesis put in the context first. -/
macro "rot_ext " h:ident : tactic =>
  `(tactic| (obtain ⟨n0,n1,n2,o01,o02,o12,c00,c01,c02,c10,c11,c12,c20,c21,c22⟩ := $h
             ext <;> simp only [alg] <;> grind))

/-- proves `M.IsRot` for a definition that `alg` unfolds, from the hypotheses in the context -/
macro "isRot_grind" : tactic =>
  `(tactic| (constructor <;> simp only [alg] <;> grind))

/-! ### jets of matrices (for the angular-velocity statement) -/

/-- entry-wise map -/
def M3.map {α β : Type} (f : α → β) (A : M3 α) : M3 β :=
  ⟨f A.m00, f A.m01, f A.m02, f A.m10, f A.m11, f A.m12, f A.m20, f A.m21, f A.m22⟩
/-- value part of a matrix of jets -/
def M3.val {α : Type} (A : M3 (D2 α)) : M3 α := A.map D2.x
/-- first time-derivative of a matrix of jets -/
def M3.der1 {α : Type} (A : M3 (D2 α)) : M3 α := A.map D2.d1
/-- the quaternion jet with value `q`, first derivative `d`, second derivative `a` -/
def Quat.jet {α : Type} (q d a : Quat α) : Quat (D2 α) :=
  ⟨⟨q.x, d.x, a.x⟩, ⟨q.y, d.y, a.y⟩, ⟨q.z, d.z, a.z⟩, ⟨q.w, d.w, a.w⟩⟩

namespace D2
variable {α : Type} [CommRing α]
theorem add_x (a b : D2 α) : (a + b).x = a.x + b.x := rfl
theorem add_d1 (a b : D2 α) : (a + b).d1 = a.d1 + b.d1 := rfl
theorem sub_x (a b : D2 α) : (a - b).x = a.x - b.x := rfl
theorem sub_d1 (a b : D2 α) : (a - b).d1 = a.d1 - b.d1 := rfl
theorem mul_x (a b : D2 α) : (a * b).x = a.x * b.x := rfl
theorem mul_d1 (a b : D2 α) : (a * b).d1 = a.d1 * b.x + a.x * b.d1 := rfl
theorem one_x : (1 : D2 α).x = 1 := rfl
theorem one_d1 : (1 : D2 α).d1 = 0 := rfl
theorem two_x : (2 : D2 α).x = 2 := rfl
theorem two_d1 : (2 : D2 α).d1 = 0 := rfl
end D2

/-! ### concrete non-trivial instances over `Rat` (used by the satisfiability examples) -/
namespace C16.Ex

/-- unit quaternions with all/most components non-zero -/
def p : Quat Rat := ⟨1/5, 2/5, 2/5, 4/5⟩
def q : Quat Rat := ⟨1/2, 1/2, 1/2, 1/2⟩
/-- `p.toMatrix`: a rotation with no zero off-diagonal pattern, trace `39/25` -/
def M : M3 Rat := ⟨9/25, 4/5, -12/25,  -12/25, 3/5, 16/25,  4/5, 0, 3/5⟩
/-- rotation + translation -/
def X : XT Rat := ⟨M, ⟨1, 2, 3⟩⟩
def Y : XT Rat := ⟨⟨4/5, 3/5, 0,  -3/5, 4/5, 0,  0, 0, 1⟩, ⟨-1, 5, 2⟩⟩
/-- a symmetric, non-diagonal inertia -/
def Ic : M3 Rat := ⟨2, 1, 0,  1, 3, 1,  0, 1, 4⟩
/-- unit axis `(2,1,2)/3` -/
def ax : V3 Rat := ⟨2/3, 1/3, 2/3⟩
attribute [alg] p q M X Y Ic ax

theorem p_unit : p.nrm2 = 1 := by simp only [alg]; grind
theorem q_unit : q.nrm2 = 1 := by simp only [alg]; grind
theorem p_w_ne : p.w ≠ 0 := by simp only [alg]; grind
theorem M_isRot : M.IsRot := by isRot_grind
theorem X_isRot : X.E.IsRot := by isRot_grind
theorem Y_isRot : Y.E.IsRot := by isRot_grind
theorem Ic_symm : Ic.transpose = Ic := rfl
theorem ax_unit : ax.nrm2 = 1 := by simp only [alg]; grind
theorem cs_unit : (4/5 : Rat) * (4/5) + (3/5) * (3/5) = 1 := by grind
theorem M_trace : 4 * (4/5 : Rat) * (4/5) = 1 + M.trace := by simp only [alg]; grind
theorem two_ne : (2 : Rat) ≠ 0 := by grind
theorem four_ne : (4 : Rat) ≠ 0 := by grind
theorem w_ne : (4/5 : Rat) ≠ 0 := by grind
theorem M_eq : p.toMatrix = M := by alg_ext

/-- the two-element field (not an instance; activated locally), used to show that the hypotheses
    `2 ≠ 0` / `4 ≠ 0` of the quaternion theorems cannot be dropped -/
@[reducible] def gf2 : Field (Fin 2) where
  inv a := a
  div a b := a * b
  zpow := ⟨fun a n => if a = 0 then (if n = 0 then 1 else 0) else 1⟩
  div_eq_mul_inv := by decide
  zero_ne_one := by decide
  inv_zero := by decide
  mul_inv_cancel := by decide
  zpow_zero := by decide
  zpow_succ a n := by
    show (if a = 0 then (if (n + 1 : Int) = 0 then 1 else 0) else 1 : Fin 2)
       = (if a = 0 then (if (n : Int) = 0 then 1 else 0) else 1 : Fin 2) * a
    have : (n + 1 : Int) ≠ 0 := by omega
    simp only [this, if_false]
    by_cases h : a = 0
    · subst h; simp only [if_true]; exact (Semiring.mul_zero _).symm
    · simp only [h, if_false]; revert a; decide
  zpow_neg a n := by
    show (if a = 0 then (if -n = 0 then 1 else 0) else 1 : Fin 2)
       = (if a = 0 then (if n = 0 then 1 else 0) else 1 : Fin 2)
    have : (-n = 0) ↔ (n = 0) := by omega
    simp only [this]

end C16.Ex
end Rbdl
