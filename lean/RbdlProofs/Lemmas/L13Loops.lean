import RbdlProofs.Lemmas.L13
import RbdlProofs.Lemmas.L12Kin
/-
  C13 helper lemmas, part 2: the loops of the algorithms as named bodies (each routine is, by `rfl`,
  a composition of `forUp` / `forDown` over these bodies), and the preservation of `WSFixed` by
  every body and every routine.
-/
namespace Rbdl.L13
open Lean.Grind Rbdl Rbdl.Loops Rbdl.L12
set_option linter.unusedSimpArgs false
set_option linter.unusedVariables false
set_option linter.unusedSectionVars false

section
variable {α : Type} [Field α]

/-! ## loop bodies -/

/-- body of `updateKinematics` -/
def ukBody (m : ModelS α) (st : QS α) (qd qdd : VecN α) (i : Nat) (w : WS α) : WS α :=
  let lam := m.lam i
  let w := jcalc m w i st qd
  let w := if lam ≠ 0 then
      { w with X_base := upd w.X_base i (w.X_lambda i * w.X_base lam)
               v := upd w.v i ((w.X_lambda i).apply (w.v lam) + w.v_J i) }
    else
      { w with X_base := upd w.X_base i (w.X_lambda i)
               v := upd w.v i (w.v_J i) }
  let w := { w with c := upd w.c i (w.c_J i + crossm (w.v i) (w.v_J i)) }
  let a0 := (w.X_lambda i).apply (w.a lam) + w.c i
  let a1 := match m.arity i with
    | .other => a0
    | _ => a0 + w.Sqdd m i qdd
  { w with a := upd w.a i a1 }

theorem uk_eq (m : ModelS α) (w : WS α) (st : QS α) (qd qdd : VecN α) :
    updateKinematics m w st qd qdd =
      forUp (m.nBodies - 1) 1 (ukBody m st qd qdd) { w with a := upd w.a 0 SV.zero } := rfl

/-- the four shapes of `updateKinematicsCustom` -/
theorem ukc_eq (m : ModelS α) (w : WS α) (st : Option (QS α)) (qd qdd : Option (VecN α)) :
    updateKinematicsCustom m w st qd qdd =
      (match qdd with
        | none => fun w => w
        | some qdd => forUp (m.nBodies - 1) 1 (ukcAccBody m qdd))
      ((match st, qd with
        | some st, some qd => forUp (m.nBodies - 1) 1 (ukcVelBody m st qd)
        | _, _ => fun w => w)
      ((match st with
        | none => fun w => w
        | some st => forUp (m.nBodies - 1) 1 (ukcBody m st)) w)) := by
  cases st <;> cases qd <;> cases qdd <;> rfl

/-- forward loop of `inverseDynamics` -/
def idFwdBody (m : ModelS α) (st : QS α) (qd qdd : VecN α) (i : Nat) (w : WS α) : WS α :=
  let lam := m.lam i
  let w := jcalc m w i st qd
  let w := { w with v := upd w.v i ((w.X_lambda i).apply (w.v lam) + w.v_J i) }
  let w := { w with c := upd w.c i (w.c_J i + crossm (w.v i) (w.v_J i)) }
  let w := match m.arity i with
    | .other => w
    | _ => { w with a := upd w.a i ((w.X_lambda i).apply (w.a lam) + w.c i + w.Sqdd m i qdd) }
  { w with f := upd w.f i (bodyForce m w i) }

/-- external-force loop of `inverseDynamics` -/
def idFextBody (m : ModelS α) (fe : Nat → SV α) (i : Nat) (w : WS α) : WS α :=
  let w := { w with X_base := upd w.X_base i (w.X_lambda i * w.X_base (m.lam i)) }
  { w with f := upd w.f i (w.f i - (w.X_base i).applyAdjoint (fe i)) }

/-- body of `rneaBackward` -/
def rneaBody (m : ModelS α) (i : Nat) (s : WS α × VecN α) : WS α × VecN α :=
  let (w, tau) := s
  let tau := w.tauWrite m i (w.f i) tau
  let lam := m.lam i
  if lam ≠ 0 then
    ({ w with f := upd w.f lam (w.f lam + (w.X_lambda i).applyTranspose (w.f i)) }, tau)
  else (w, tau)

theorem rnea_eq (m : ModelS α) (w : WS α) (tau : VecN α) :
    rneaBackward m w tau = forDown (m.nBodies - 1) (m.nBodies - 1) (rneaBody m) (w, tau) := rfl

def idInit (m : ModelS α) (w : WS α) : WS α :=
  { w with v := upd w.v 0 SV.zero, a := upd w.a 0 (spatialGravityNeg m) }

theorem id_eq (m : ModelS α) (w : WS α) (st : QS α) (qd qdd tau : VecN α)
    (fext : Option (Nat → SV α)) :
    inverseDynamics m w st qd qdd tau fext =
      rneaBackward m
        ((match fext with
          | none => fun w => w
          | some fe => forUp (m.nBodies - 1) 1 (idFextBody m fe))
          (forUp (m.nBodies - 1) 1 (idFwdBody m st qd qdd) (idInit m w))) tau := by
  cases fext <;> rfl

/-- main loop of `nonlinearEffects` -/
def neBody [DecidableEq α] (m : ModelS α) (fext : Option (Nat → SV α)) (i : Nat) (w : WS α) : WS α :=
  let g := spatialGravityNeg m
  let lam := m.lam i
  let w :=
    if lam = 0 then
      let w := { w with v := upd w.v i (w.v_J i) }
      let w := { w with c := upd w.c i (w.c_J i + crossm (w.v i) (w.v_J i)) }
      { w with a := upd w.a i ((w.X_lambda i).apply g + w.c i) }
    else
      let w := { w with v := upd w.v i ((w.X_lambda i).apply (w.v lam) + w.v_J i) }
      let w := { w with c := upd w.c i (w.c_J i + crossm (w.v i) (w.v_J i)) }
      { w with a := upd w.a i ((w.X_lambda i).apply (w.a lam) + w.c i) }
  let w := match fext with
    | none => w
    | some _ =>
      if lam ≠ 0 then { w with X_base := upd w.X_base i (w.X_lambda i * w.X_base lam) }
      else { w with X_base := upd w.X_base i (w.X_lambda i) }
  let f0 := bodyForce m w i
  let f1 := match fext with
    | none => f0
    | some fe => if fe i ≠ SV.zero then f0 - (w.X_base i).applyAdjoint (fe i) else f0
  { w with f := upd w.f i f1 }

theorem ne_eq [DecidableEq α] (m : ModelS α) (w : WS α) (st : QS α) (qd tau : VecN α)
    (fext : Option (Nat → SV α)) :
    nonlinearEffects m w st qd tau fext =
      rneaBackward m
        (forUp (m.nBodies - 1) 1 (neBody m fext)
          ((m.updateOrder.drop 1).foldl (fun w i => jcalc m w i st qd) (idInit m w))) tau := rfl

/-- first loop of `crba` -/
def crbaInitBody (m : ModelS α) (st : QS α) (update : Bool) (i : Nat) (w : WS α) : WS α :=
  let w := if update then jcalcXlambdaS m w i st else w
  { w with Ic := upd w.Ic i (m.rbi i) }

/-- second loop of `crba` -/
def crbaBody (m : ModelS α) (i : Nat) (s : WS α × MatN α) : WS α × MatN α :=
  let (w, H) := s
  let lam := m.lam i
  let w := if lam ≠ 0 then
      { w with Ic := upd w.Ic lam (w.Ic lam + (w.X_lambda i).applyTransposeRBI (w.Ic i)) }
    else w
  let ki := (m.joint i).qIndex
  let Si := zipIdx (w.Scols m i)
  let F : List (SV α × Nat) := Si.map (fun p => (w.Ic i * p.1, p.2))
  let H := Si.foldl (fun H a => F.foldl (fun H b => setH H (ki + a.2) (ki + b.2) (a.1.dot b.1)) H) H
  let res := walkUp m m.nBodies i (fun j (s : List (SV α × Nat) × MatN α) =>
    let (F, H) := s
    if m.lam j = 0 then (F, H) else
    let F := F.map (fun p => ((w.X_lambda j).applyTranspose p.1, p.2))
    let jj := m.lam j
    let kj := (m.joint jj).qIndex
    let Sj := zipIdx (w.Scols m jj)
    let H := F.foldl (fun H a => Sj.foldl (fun H b =>
      let x := a.1.dot b.1
      setH (setH H (ki + a.2) (kj + b.2) x) (kj + b.2) (ki + a.2) x) H) H
    (F, H)) (F, H)
  (w, res.2)

theorem crba_eq (m : ModelS α) (w : WS α) (st : QS α) (H : MatN α) (update : Bool) :
    crba m w st H update =
      forDown (m.nBodies - 1) (m.nBodies - 1) (crbaBody m)
        (forUp (m.nBodies - 1) 1 (crbaInitBody m st update) w, H) := rfl

/-- first loop of `forwardDynamics` -/
def fdFwdBody [DecidableEq α] (m : ModelS α) (st : QS α) (qd : VecN α) (fext : Option (Nat → SV α)) (i : Nat)
    (w : WS α) : WS α :=
  let lam := m.lam i
  let w := jcalc m w i st qd
  let w := if lam ≠ 0 then { w with X_base := upd w.X_base i (w.X_lambda i * w.X_base lam) }
           else { w with X_base := upd w.X_base i (w.X_lambda i) }
  let w := { w with v := upd w.v i ((w.X_lambda i).apply (w.v lam) + w.v_J i) }
  let w := { w with c := upd w.c i (w.c_J i + crossm (w.v i) (w.v_J i)) }
  let w := { w with IA := upd w.IA i (m.rbi i).toMatrix }
  let p0 := crossf (w.v i) (m.rbi i * w.v i)
  let p1 := match fext with
    | none => p0
    | some fe => if fe i ≠ SV.zero then p0 - (w.X_base i).applyAdjoint (fe i) else p0
  { w with pA := upd w.pA i p1 }

/-- second loop of `forwardDynamics` -/
def fdBwdBody [DecidableEq α] (m : ModelS α) (tau : VecN α) (i : Nat) (w : WS α) : WS α :=
  let w := abaUD m w i
  let w := abaU m w i tau
  let lam := m.lam i
  if lam ≠ 0 ∧ m.arity i ≠ .other then
    let Ia := abaIa m w i
    let pa := w.pA i + Ia * w.c i + abaUDu m w i
    let X := w.X_lambda i
    { w with IA := upd w.IA lam (w.IA lam + X.toMatrixTranspose * Ia * X.toMatrix)
             pA := upd w.pA lam (w.pA lam + X.applyTranspose pa) }
  else w

/-- third loop of `forwardDynamics` / `calcMInvTimesTau` -/
def accBody (m : ModelS α) (i : Nat) (s : WS α × VecN α) : WS α × VecN α := abaAccel m s.1 i s.2

theorem fd_eq [DecidableEq α] (m : ModelS α) (w : WS α) (st : QS α) (qd tau qdd : VecN α)
    (fext : Option (Nat → SV α)) :
    forwardDynamics m w st qd tau qdd fext =
      forUp (m.nBodies - 1) 1 (accBody m)
        ((fun w : WS α => ({ w with a := upd w.a 0 (spatialGravityNeg m) }, qdd))
          (forDown (m.nBodies - 1) (m.nBodies - 1) (fdBwdBody m tau)
            (forUp (m.nBodies - 1) 1 (fdFwdBody m st qd fext)
              { w with v := upd w.v 0 SV.zero }))) := rfl

/-- the loops of `calcMInvTimesTau` -/
def miInitBody (m : ModelS α) (st : QS α) (i : Nat) (w : WS α) : WS α :=
  let w := jcalcXlambdaS m w (m.updateOrder.getD i 0) st
  { w with v_J := upd w.v_J i SV.zero, v := upd w.v i SV.zero, c := upd w.c i SV.zero,
           pA := upd w.pA i SV.zero, IA := upd w.IA i (m.rbi i).toMatrix }

def miPaBody (i : Nat) (w : WS α) : WS α := { w with pA := upd w.pA i SV.zero }

def miIABody [DecidableEq α] (m : ModelS α) (i : Nat) (w : WS α) : WS α :=
  let w := abaUD m w i
  let lam := m.lam i
  if lam ≠ 0 ∧ m.arity i ≠ .other then
    let Ia := abaIa m w i
    let X := w.X_lambda i
    { w with IA := upd w.IA lam (w.IA lam + X.toMatrixTranspose * Ia * X.toMatrix) }
  else w

def miBwdBody (m : ModelS α) (tau : VecN α) (i : Nat) (w : WS α) : WS α :=
  let w := abaU m w i tau
  let lam := m.lam i
  if lam ≠ 0 ∧ m.arity i ≠ .other then
    let pa := w.pA i + abaUDu m w i
    { w with pA := upd w.pA lam (w.pA lam + (w.X_lambda i).applyTranspose pa) }
  else w

theorem mi_eq [DecidableEq α] (m : ModelS α) (w : WS α) (st : QS α) (tau qdd : VecN α) (update : Bool) :
    calcMInvTimesTau m w st tau qdd update =
      forUp (m.nBodies - 1) 1 (accBody m)
        (forDown (m.nBodies - 1) (m.nBodies - 1) (miBwdBody m tau)
          ((fun w => if update then forDown (m.nBodies - 1) (m.nBodies - 1) (miIABody m) w else w)
            (forUp (m.nBodies - 1) 1 miPaBody
              ((fun w => if update then forUp (m.nBodies - 1) 1 (miInitBody m st) w else w)
                { w with v := upd w.v 0 SV.zero, a := upd w.a 0 SV.zero }))), qdd) := rfl

/-- the optional `hdotc` loops of `calcCenterOfMass` -/
def comHdBody (i : Nat) (w : WS α) : WS α := { w with hdotc := upd w.hdotc i (comHd w i) }

def comHdBwdBody (m : ModelS α) (i : Nat) (s : WS α × SV α) : WS α × SV α :=
  let (w, hdtot) := s
  let lam := m.lam i
  let X := w.X_lambda i
  if lam ≠ 0 then
    ({ w with hdotc := upd w.hdotc lam (w.hdotc lam + X.applyTranspose (w.hdotc i)) }, hdtot)
  else (w, hdtot + X.applyTranspose (w.hdotc i))

/-- the totals `calcCenterOfMass` derives its outputs from -/
def comOut (Itot : RBI α) (htot hdtot : SV α) : ComOut α :=
  let mass := Itot.m
  let com := (1 / mass) * Itot.h
  let comVel := (1 / mass) * htot.v
  let hC := (Xtrans com).applyAdjoint htot
  let comAcc := (1 / mass) * hdtot.v
  let hdC := (Xtrans com).applyAdjoint hdtot
  ⟨mass, com, comVel, comAcc, hC.w, hdC.w⟩

theorem com_eq (m : ModelS α) (w : WS α) (st : QS α) (qd : VecN α) (qdd : Option (VecN α))
    (wantAcc update : Bool) :
    calcCenterOfMass m w st qd qdd wantAcc update =
      (let n := m.nBodies - 1
       let doAcc := qdd.isSome && wantAcc
       let w1 := forUp n 1 (comInitBody m) (comKin m w st qd qdd update)
       let w2 := if doAcc then forUp n 1 comHdBody w1 else w1
       let r := forDown n n (comBody m) (w2, RBI.ofMat 0 V3.zero M3.zero, SV.zero)
       let r2 := if doAcc then forDown n n (comHdBwdBody m) (r.1, SV.zero) else (r.1, SV.zero)
       (r2.1, comOut r.2.1 r.2.2 r2.2)) := rfl

/-! ## `WSFixed` is kept by every loop body -/

/-- closes `WSFixed m w2` from `h : WSFixed m w` when `w2` is `w` with free fields (and possibly
    `X_base[i]`, `i ≠ 0`) replaced -/
macro "wsf_exact " h:term : tactic =>
  `(tactic| first
    | exact $h
    | exact wsfixed_congr _ $h rfl rfl rfl rfl rfl
    | exact wsfixed_congr _ $h rfl rfl rfl rfl (upd_zero_of_pos _ _ _ (by assumption)))

theorem wsfixed_ukcBody (m : ModelS α) (st : QS α) (i : Nat) (w : WS α) (hi : 1 ≤ i)
    (h : WSFixed m w) : WSFixed m (ukcBody m st i w) := by
  have hj := wsfixed_jcalc m w i st zeroVec h
  unfold ukcBody; dsimp only
  split <;> wsf_exact hj

theorem wsfixed_ukcVelBody (m : ModelS α) (st : QS α) (qd : VecN α) (i : Nat) (w : WS α)
    (h : WSFixed m w) : WSFixed m (ukcVelBody m st qd i w) := by
  have hj := wsfixed_jcalc m w i st qd h
  unfold ukcVelBody; dsimp only
  split <;> wsf_exact hj

theorem wsfixed_ukcAccBody (m : ModelS α) (qdd : VecN α) (i : Nat) (w : WS α)
    (h : WSFixed m w) : WSFixed m (ukcAccBody m qdd i w) := h

theorem wsfixed_ukBody (m : ModelS α) (st : QS α) (qd qdd : VecN α) (i : Nat) (w : WS α)
    (hi : 1 ≤ i) (h : WSFixed m w) : WSFixed m (ukBody m st qd qdd i w) := by
  have hj := wsfixed_jcalc m w i st qd h
  unfold ukBody; dsimp only
  split <;> wsf_exact hj

theorem wsfixed_idFwdBody (m : ModelS α) (st : QS α) (qd qdd : VecN α) (i : Nat) (w : WS α)
    (h : WSFixed m w) : WSFixed m (idFwdBody m st qd qdd i w) := by
  have hj := wsfixed_jcalc m w i st qd h
  unfold idFwdBody; dsimp only
  split <;> wsf_exact hj

theorem wsfixed_idFextBody (m : ModelS α) (fe : Nat → SV α) (i : Nat) (w : WS α) (hi : 1 ≤ i)
    (h : WSFixed m w) : WSFixed m (idFextBody m fe i w) := by
  unfold idFextBody; dsimp only
  wsf_exact h

theorem wsfixed_rneaBody (m : ModelS α) (i : Nat) (s : WS α × VecN α)
    (h : WSFixed m s.1) : WSFixed m (rneaBody m i s).1 := by
  obtain ⟨w, tau⟩ := s
  unfold rneaBody; dsimp only
  split <;> wsf_exact h

theorem wsfixed_neBody [DecidableEq α] (m : ModelS α) (fext : Option (Nat → SV α)) (i : Nat) (w : WS α)
    (hi : 1 ≤ i) (h : WSFixed m w) : WSFixed m (neBody m fext i w) := by
  unfold neBody; dsimp only
  cases fext <;> dsimp only <;> split <;> (try split) <;> wsf_exact h

theorem wsfixed_crbaInitBody (m : ModelS α) (st : QS α) (update : Bool) (i : Nat) (w : WS α)
    (h : WSFixed m w) : WSFixed m (crbaInitBody m st update i w) := by
  have hj := wsfixed_jcalcXlambdaS m w i st h
  unfold crbaInitBody; dsimp only
  split
  · wsf_exact hj
  · wsf_exact h

theorem wsfixed_crbaBody (m : ModelS α) (i : Nat) (s : WS α × MatN α)
    (h : WSFixed m s.1) : WSFixed m (crbaBody m i s).1 := by
  obtain ⟨w, H⟩ := s
  unfold crbaBody; dsimp only
  split <;> wsf_exact h

theorem wsfixed_abaUD [DecidableEq α] (m : ModelS α) (w : WS α) (i : Nat) (h : WSFixed m w) :
    WSFixed m (abaUD m w i) := by
  unfold abaUD; dsimp only
  split <;> wsf_exact h

theorem wsfixed_abaU (m : ModelS α) (w : WS α) (i : Nat) (tau : VecN α) (h : WSFixed m w) :
    WSFixed m (abaU m w i tau) := by
  unfold abaU; dsimp only
  split <;> wsf_exact h

theorem wsfixed_abaAccel (m : ModelS α) (w : WS α) (i : Nat) (qdd : VecN α) (h : WSFixed m w) :
    WSFixed m (abaAccel m w i qdd).1 := by
  unfold abaAccel; dsimp only
  split <;> wsf_exact h

theorem wsfixed_fdFwdBody [DecidableEq α] (m : ModelS α) (st : QS α) (qd : VecN α) (fext : Option (Nat → SV α))
    (i : Nat) (w : WS α) (hi : 1 ≤ i) (h : WSFixed m w) :
    WSFixed m (fdFwdBody m st qd fext i w) := by
  have hj := wsfixed_jcalc m w i st qd h
  unfold fdFwdBody; dsimp only
  split <;> wsf_exact hj

theorem wsfixed_fdBwdBody [DecidableEq α] (m : ModelS α) (tau : VecN α) (i : Nat) (w : WS α)
    (h : WSFixed m w) : WSFixed m (fdBwdBody m tau i w) := by
  have hj := wsfixed_abaU m _ i tau (wsfixed_abaUD m w i h)
  unfold fdBwdBody; dsimp only
  split <;> wsf_exact hj

theorem wsfixed_accBody (m : ModelS α) (i : Nat) (s : WS α × VecN α)
    (h : WSFixed m s.1) : WSFixed m (accBody m i s).1 := wsfixed_abaAccel m s.1 i s.2 h

theorem wsfixed_miInitBody (m : ModelS α) (st : QS α) (i : Nat) (w : WS α)
    (h : WSFixed m w) : WSFixed m (miInitBody m st i w) := by
  have hj := wsfixed_jcalcXlambdaS m w (m.updateOrder.getD i 0) st h
  unfold miInitBody; dsimp only
  refine ⟨hj.1, fun j h1 h2 => ?_⟩
  have := hj.2 j h1 h2
  dsimp only
  by_cases e : j = i
  · subst e
    rw [upd_same]
    cases hjt : (m.joint j).jt <;> simp only [hjt, FixedAt] at this ⊢ <;>
      first | exact this | exact ⟨this.1, rfl, rfl, rfl, this.2.2.2.2⟩
  · rw [upd_other _ _ _ _ e]; exact this

theorem wsfixed_miIABody [DecidableEq α] (m : ModelS α) (i : Nat) (w : WS α)
    (h : WSFixed m w) : WSFixed m (miIABody m i w) := by
  have hj := wsfixed_abaUD m w i h
  unfold miIABody; dsimp only
  split <;> wsf_exact hj

theorem wsfixed_miBwdBody (m : ModelS α) (tau : VecN α) (i : Nat) (w : WS α)
    (h : WSFixed m w) : WSFixed m (miBwdBody m tau i w) := by
  have hj := wsfixed_abaU m w i tau h
  unfold miBwdBody; dsimp only
  split <;> wsf_exact hj

theorem wsfixed_comBody (m : ModelS α) (i : Nat) (s : WS α × RBI α × SV α)
    (h : WSFixed m s.1) : WSFixed m (comBody m i s).1 := by
  obtain ⟨w, I, hh⟩ := s
  unfold comBody; dsimp only
  split <;> wsf_exact h

theorem wsfixed_comHdBwdBody (m : ModelS α) (i : Nat) (s : WS α × SV α)
    (h : WSFixed m s.1) : WSFixed m (comHdBwdBody m i s).1 := by
  obtain ⟨w, hh⟩ := s
  unfold comHdBwdBody; dsimp only
  split <;> wsf_exact h

theorem wsfixed_zmpBody (m : ModelS α) (i : Nat) (s : WS α × RBI α × SV α)
    (h : WSFixed m s.1) : WSFixed m (zmpBody m i s).1 := by
  obtain ⟨w, I, hh⟩ := s
  unfold zmpBody; dsimp only
  split <;> wsf_exact h

/-! ## `WSFixed` is kept by every routine -/

theorem forUp_wsf (m : ModelS α) (body : Nat → WS α → WS α) (n lo : Nat)
    (h : ∀ i s, lo ≤ i → WSFixed m s → WSFixed m (body i s)) (s : WS α) (h0 : WSFixed m s) :
    WSFixed m (forUp n lo body s) :=
  forUp_inv (WSFixed m) body n lo (fun i s h1 _ hs => h i s h1 hs) s h0

theorem forDown_wsf (m : ModelS α) (body : Nat → WS α → WS α) (cnt hi : Nat)
    (h : ∀ i s, WSFixed m s → WSFixed m (body i s)) (s : WS α) (h0 : WSFixed m s) :
    WSFixed m (forDown cnt hi body s) :=
  forDown_inv (WSFixed m) body cnt hi (fun i s _ _ hs => h i s hs) s h0

theorem forUp_wsf1 {β : Type} (m : ModelS α) (body : Nat → WS α × β → WS α × β) (n lo : Nat)
    (h : ∀ i s, WSFixed m s.1 → WSFixed m (body i s).1) (s : WS α × β) (h0 : WSFixed m s.1) :
    WSFixed m (forUp n lo body s).1 :=
  forUp_inv (fun s : WS α × β => WSFixed m s.1) body n lo (fun i s _ _ hs => h i s hs) s h0

theorem forDown_wsf1 {β : Type} (m : ModelS α) (body : Nat → WS α × β → WS α × β) (cnt hi : Nat)
    (h : ∀ i s, WSFixed m s.1 → WSFixed m (body i s).1) (s : WS α × β) (h0 : WSFixed m s.1) :
    WSFixed m (forDown cnt hi body s).1 :=
  forDown_inv (fun s : WS α × β => WSFixed m s.1) body cnt hi (fun i s _ _ hs => h i s hs) s h0

theorem wsfixed_updateKinematics (m : ModelS α) (w : WS α) (st : QS α) (qd qdd : VecN α)
    (h : WSFixed m w) : WSFixed m (updateKinematics m w st qd qdd) := by
  rw [uk_eq]
  exact forUp_wsf m _ _ _ (fun i s hi hs => wsfixed_ukBody m st qd qdd i s hi hs) _ h

theorem wsfixed_updateKinematicsCustom (m : ModelS α) (w : WS α) (st : Option (QS α))
    (qd qdd : Option (VecN α)) (h : WSFixed m w) :
    WSFixed m (updateKinematicsCustom m w st qd qdd) := by
  rw [ukc_eq]
  have h1 : WSFixed m ((match st with
        | none => fun w => w
        | some st => forUp (m.nBodies - 1) 1 (ukcBody m st)) w) := by
    cases st
    · exact h
    · exact forUp_wsf m _ _ _ (fun i s hi hs => wsfixed_ukcBody m _ i s hi hs) _ h
  generalize (match st with
        | none => fun w => w
        | some st => forUp (m.nBodies - 1) 1 (ukcBody m st)) w = w1 at h1
  have h2 : WSFixed m ((match st, qd with
        | some st, some qd => forUp (m.nBodies - 1) 1 (ukcVelBody m st qd)
        | _, _ => fun w => w) w1) := by
    cases st <;> cases qd <;> first
      | exact h1
      | exact forUp_wsf m _ _ _ (fun i s hi hs => wsfixed_ukcVelBody m _ _ i s hs) _ h1
  generalize (match st, qd with
        | some st, some qd => forUp (m.nBodies - 1) 1 (ukcVelBody m st qd)
        | _, _ => fun w => w) w1 = w2 at h2
  cases qdd
  · exact h2
  · exact forUp_wsf m _ _ _ (fun i s hi hs => wsfixed_ukcAccBody m _ i s hs) _ h2

theorem wsfixed_rneaBackward (m : ModelS α) (w : WS α) (tau : VecN α) (h : WSFixed m w) :
    WSFixed m (rneaBackward m w tau).1 := by
  rw [rnea_eq]
  exact forDown_wsf1 m _ _ _ (fun i s hs => wsfixed_rneaBody m i s hs) _ h

theorem wsfixed_inverseDynamics (m : ModelS α) (w : WS α) (st : QS α) (qd qdd tau : VecN α)
    (fext : Option (Nat → SV α)) (h : WSFixed m w) :
    WSFixed m (inverseDynamics m w st qd qdd tau fext).1 := by
  rw [id_eq]
  apply wsfixed_rneaBackward
  have h1 : WSFixed m (forUp (m.nBodies - 1) 1 (idFwdBody m st qd qdd) (idInit m w)) :=
    forUp_wsf m _ _ _ (fun i s hi hs => wsfixed_idFwdBody m _ _ _ i s hs) _ h
  cases fext
  · exact h1
  · exact forUp_wsf m _ _ _ (fun i s hi hs => wsfixed_idFextBody m _ i s hi hs) _ h1

theorem wsfixed_foldl_jcalc (m : ModelS α) (l : List Nat) (st : QS α) (qd : VecN α) (w : WS α)
    (h : WSFixed m w) : WSFixed m (l.foldl (fun w i => jcalc m w i st qd) w) := by
  induction l generalizing w with
  | nil => exact h
  | cons i l ih => exact ih _ (wsfixed_jcalc m w i st qd h)

theorem wsfixed_nonlinearEffects [DecidableEq α] (m : ModelS α) (w : WS α) (st : QS α) (qd tau : VecN α)
    (fext : Option (Nat → SV α)) (h : WSFixed m w) :
    WSFixed m (nonlinearEffects m w st qd tau fext).1 := by
  rw [ne_eq]
  apply wsfixed_rneaBackward
  exact forUp_wsf m _ _ _ (fun i s hi hs => wsfixed_neBody m _ i s hi hs) _
    (wsfixed_foldl_jcalc m _ st qd _ h)

theorem wsfixed_crba (m : ModelS α) (w : WS α) (st : QS α) (H : MatN α) (update : Bool)
    (h : WSFixed m w) : WSFixed m (crba m w st H update).1 := by
  rw [crba_eq]
  exact forDown_wsf1 m _ _ _ (fun i s hs => wsfixed_crbaBody m i s hs) _
    (forUp_wsf m _ _ _ (fun i s hi hs => wsfixed_crbaInitBody m _ _ i s hs) _ h)

theorem wsfixed_forwardDynamics [DecidableEq α] (m : ModelS α) (w : WS α) (st : QS α) (qd tau qdd : VecN α)
    (fext : Option (Nat → SV α)) (h : WSFixed m w) :
    WSFixed m (forwardDynamics m w st qd tau qdd fext).1 := by
  rw [fd_eq]
  refine forUp_wsf1 m _ _ _ (fun i s hs => wsfixed_accBody m i s hs) _ ?_
  have : WSFixed m (forDown (m.nBodies - 1) (m.nBodies - 1) (fdBwdBody m tau)
      (forUp (m.nBodies - 1) 1 (fdFwdBody m st qd fext) { w with v := upd w.v 0 SV.zero })) :=
    forDown_wsf m _ _ _ (fun i s hs => wsfixed_fdBwdBody m _ i s hs) _
      (forUp_wsf m _ _ _ (fun i s hi hs => wsfixed_fdFwdBody m _ _ _ i s hi hs) _ h)
  exact this

theorem wsfixed_calcMInvTimesTau [DecidableEq α] (m : ModelS α) (w : WS α) (st : QS α) (tau qdd : VecN α)
    (update : Bool) (h : WSFixed m w) :
    WSFixed m (calcMInvTimesTau m w st tau qdd update).1 := by
  rw [mi_eq]
  refine forUp_wsf1 m _ _ _ (fun i s hs => wsfixed_accBody m i s hs) _ ?_
  refine forDown_wsf m _ _ _ (fun i s hs => wsfixed_miBwdBody m _ i s hs) _ ?_
  cases update
  · simp only [Bool.false_eq_true, if_false]
    exact forUp_wsf m miPaBody (m.nBodies - 1) 1 (fun i s hi hs => hs) _ h
  · simp only [if_true]
    exact forDown_wsf m _ _ _ (fun i s hs => wsfixed_miIABody m i s hs) _
      (forUp_wsf m miPaBody (m.nBodies - 1) 1 (fun i s hi hs => hs) _
        (forUp_wsf m _ _ _ (fun i s hi hs => wsfixed_miInitBody m _ i s hs) _ h))

theorem wsfixed_comKin (m : ModelS α) (w : WS α) (st : QS α) (qd : VecN α)
    (qdd : Option (VecN α)) (update : Bool) (h : WSFixed m w) :
    WSFixed m (comKin m w st qd qdd update) := by
  unfold comKin; split
  · exact wsfixed_updateKinematicsCustom m w _ _ _ h
  · exact h

theorem wsfixed_calcCenterOfMass (m : ModelS α) (w : WS α) (st : QS α) (qd : VecN α)
    (qdd : Option (VecN α)) (wantAcc update : Bool) (h : WSFixed m w) :
    WSFixed m (calcCenterOfMass m w st qd qdd wantAcc update).1 := by
  rw [com_eq]
  dsimp only
  have h1 : WSFixed m (forUp (m.nBodies - 1) 1 (comInitBody m) (comKin m w st qd qdd update)) :=
    forUp_wsf m (comInitBody m) _ _ (fun i s hi hs => hs) _ (wsfixed_comKin m w st qd qdd update h)
  cases (qdd.isSome && wantAcc)
  · simp only [Bool.false_eq_true, if_false]
    exact forDown_wsf1 m _ _ _ (fun i s hs => wsfixed_comBody m i s hs) _ h1
  · simp only [if_true]
    refine forDown_wsf1 m _ _ _ (fun i s hs => wsfixed_comHdBwdBody m i s hs) _ ?_
    refine forDown_wsf1 m _ _ _ (fun i s hs => wsfixed_comBody m i s hs) _ ?_
    exact forUp_wsf m comHdBody _ _ (fun i s hi hs => hs) _ h1

theorem zmp_fst (m : ModelS α) (w : WS α) (st : QS α) (qd qdd : VecN α) (normal point : V3 α)
    (update : Bool) :
    (calcZeroMomentPoint m w st qd qdd normal point update).1
      = (zmpBwd m (zmpInit m (zmpKin m w st qd qdd update))).1 := rfl

theorem wsfixed_calcZeroMomentPoint (m : ModelS α) (w : WS α) (st : QS α) (qd qdd : VecN α)
    (normal point : V3 α) (update : Bool) (h : WSFixed m w) :
    WSFixed m (calcZeroMomentPoint m w st qd qdd normal point update).1 := by
  rw [zmp_fst]
  refine forDown_wsf1 m _ _ _ (fun i s hs => wsfixed_zmpBody m i s hs) _ ?_
  refine forUp_wsf m (zmpInitBody m) _ _ (fun i s hi hs => hs) _ ?_
  unfold zmpKin; split
  · exact wsfixed_updateKinematicsCustom m w _ _ _ h
  · exact h

theorem wsfixed_calcPotentialEnergy (m : ModelS α) (w : WS α) (st : QS α) (update : Bool)
    (h : WSFixed m w) : WSFixed m (calcPotentialEnergy m w st update).1 :=
  wsfixed_calcCenterOfMass m w st zeroVec none false update h

theorem wsfixed_calcKineticEnergy (m : ModelS α) (w : WS α) (st : QS α) (qd : VecN α)
    (update : Bool) (h : WSFixed m w) : WSFixed m (calcKineticEnergy m w st qd update).1 := by
  unfold calcKineticEnergy; dsimp only; split
  · exact wsfixed_updateKinematicsCustom m w _ _ _ h
  · exact h

theorem wsfixed_updQ (m : ModelS α) (w : WS α) (st : QS α) (update : Bool) (h : WSFixed m w) :
    WSFixed m (updQ m w st update) := by
  unfold updQ; split
  · exact wsfixed_updateKinematicsCustom m w _ _ _ h
  · exact h

theorem wsfixed_worldOrientation0 (m : ModelS α) (w : WS α) (id : Nat) (h : WSFixed m w) :
    WSFixed m (worldOrientation0 m w id).1 := by
  unfold worldOrientation0; split <;> exact h

theorem wsfixed_calcBodyToBaseCoordinates (m : ModelS α) (w : WS α) (st : QS α) (id : Nat)
    (p : V3 α) (update : Bool) (h : WSFixed m w) :
    WSFixed m (calcBodyToBaseCoordinates m w st id p update).1 := wsfixed_updQ m w st update h

theorem wsfixed_calcBaseToBodyCoordinates (m : ModelS α) (w : WS α) (st : QS α) (id : Nat)
    (p : V3 α) (update : Bool) (h : WSFixed m w) :
    WSFixed m (calcBaseToBodyCoordinates m w st id p update).1 := wsfixed_updQ m w st update h

theorem wsfixed_calcBodyWorldOrientation (m : ModelS α) (w : WS α) (st : QS α) (id : Nat)
    (update : Bool) (h : WSFixed m w) :
    WSFixed m (calcBodyWorldOrientation m w st id update).1 :=
  wsfixed_worldOrientation0 m _ id (wsfixed_updQ m w st update h)

theorem wsfixed_calcPointJacobian (m : ModelS α) (w : WS α) (st : QS α) (id : Nat) (p : V3 α)
    (G : MatN α) (update : Bool) (h : WSFixed m w) :
    WSFixed m (calcPointJacobian m w st id p G update).1 := wsfixed_updQ m w st update h

theorem wsfixed_calcPointJacobian6D (m : ModelS α) (w : WS α) (st : QS α) (id : Nat) (p : V3 α)
    (G : MatN α) (update : Bool) (h : WSFixed m w) :
    WSFixed m (calcPointJacobian6D m w st id p G update).1 := wsfixed_updQ m w st update h

theorem wsfixed_calcBodySpatialJacobian (m : ModelS α) (w : WS α) (st : QS α) (id : Nat)
    (G : MatN α) (update : Bool) (h : WSFixed m w) :
    WSFixed m (calcBodySpatialJacobian m w st id G update).1 := wsfixed_updQ m w st update h

theorem wsfixed_calcPointVelocity6D (m : ModelS α) (w : WS α) (st : QS α) (qd : VecN α)
    (id : Nat) (p : V3 α) (update : Bool) (h : WSFixed m w) :
    WSFixed m (calcPointVelocity6D m w st qd id p update).1 := by
  unfold calcPointVelocity6D; dsimp only
  apply wsfixed_worldOrientation0
  split
  · exact wsfixed_updateKinematicsCustom m _ _ _ _ h
  · exact h

theorem wsfixed_calcPointVelocity (m : ModelS α) (w : WS α) (st : QS α) (qd : VecN α)
    (id : Nat) (p : V3 α) (update : Bool) (h : WSFixed m w) :
    WSFixed m (calcPointVelocity m w st qd id p update).1 :=
  wsfixed_calcPointVelocity6D m w st qd id p update h

theorem wsfixed_calcPointAcceleration6D (m : ModelS α) (w : WS α) (st : QS α) (qd qdd : VecN α)
    (id : Nat) (p : V3 α) (update : Bool) (h : WSFixed m w) :
    WSFixed m (calcPointAcceleration6D m w st qd qdd id p update).1 := by
  unfold calcPointAcceleration6D; dsimp only
  apply wsfixed_worldOrientation0
  split
  · exact wsfixed_updateKinematics m _ _ _ _ h
  · exact h

theorem wsfixed_calcPointAcceleration (m : ModelS α) (w : WS α) (st : QS α) (qd qdd : VecN α)
    (id : Nat) (p : V3 α) (update : Bool) (h : WSFixed m w) :
    WSFixed m (calcPointAcceleration m w st qd qdd id p update).1 :=
  wsfixed_calcPointAcceleration6D m w st qd qdd id p update h

end
end Rbdl.L13
