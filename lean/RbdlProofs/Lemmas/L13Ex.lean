import RbdlProofs.Lemmas.L13Dyn
import RbdlProofs.Lemmas.L13Crba
import RbdlProofs.Lemmas.L13MInv
import RbdlProofs.Lemmas.L13Util
import RbdlProofs.Lemmas.L13Flag
import RbdlProofs.Lemmas.L12Ex
/-
  Concrete instance over `Rat` for the satisfiability examples of C13: the branched model of
  `L12.Ex.m` (revoluteZ, general revolute, spherical, custom cylindrical joint, one fixed body) with
  the workspace after construction and a poisoned copy of it.
-/
namespace Rbdl.L13.Ex
open Lean.Grind Rbdl Rbdl.L13

abbrev m : ModelS Rat := L12.Ex.m
/-- the workspace after construction -/
def w : WS Rat := initWS m
/-- the same with every free entry overwritten -/
def w' : WS Rat := poison m (initWS m) 7
abbrev st : QS Rat := C04.Ex.st
def qd : VecN Rat := fun i => (i : Rat) / 3 - 1
def qdd : VecN Rat := fun i => 2 - (i : Rat) / 5

theorem m_n : m.nBodies = 5 := rfl

theorem m_axes : AxesOK m := by
  intro i h1 h2
  rw [m_n] at h2
  obtain rfl | rfl | rfl | rfl : i = 1 ∨ i = 2 ∨ i = 3 ∨ i = 4 := by omega
  all_goals refine ⟨?_, ?_, ?_⟩ <;> intro h <;> first | rfl | exact absurd h (by decide)

theorem m_tree : TreeOrder m := L12.Ex.m_tree
theorem m_jcalc : AllJcalc m := L12.Ex.m_hasJcalc
theorem m_ok : AllJointOK m := by
  intro i h1 h2
  rw [m_n] at h2
  obtain rfl | rfl | rfl | rfl : i = 1 ∨ i = 2 ∨ i = 3 ∨ i = 4 := by omega
  all_goals exact ⟨rfl, rfl⟩

/-- the same model with `mJointUpdateOrder` filled in -/
def mU : ModelS Rat := { m with updateOrder := [0, 1, 2, 4, 3] }
theorem mU_tree : TreeOrder mU := L12.Ex.m_tree
theorem mU_ok : AllJointOK mU := m_ok
theorem mU_axes : AxesOK mU := m_axes
theorem mU_uo : UOrderOK mU := by
  refine ⟨by decide, ?_⟩
  intro i h1 h2
  have : mU.nBodies = 5 := rfl
  rw [this] at h2
  obtain rfl | rfl | rfl | rfl : i = 1 ∨ i = 2 ∨ i = 3 ∨ i = 4 := by omega
  all_goals decide
theorem mU_perm : UOrderPerm mU := by
  have hn : mU.nBodies = 5 := rfl
  refine ⟨?_, ?_⟩
  · intro i h1 h2
    rw [hn] at h2 ⊢
    obtain rfl | rfl | rfl | rfl : i = 1 ∨ i = 2 ∨ i = 3 ∨ i = 4 := by omega
    all_goals decide
  · intro j h1 h2
    rw [hn] at h2
    obtain rfl | rfl | rfl | rfl : j = 1 ∨ j = 2 ∨ j = 3 ∨ j = 4 := by omega
    · exact ⟨1, by decide, by decide, rfl⟩
    · exact ⟨2, by decide, by decide, rfl⟩
    · exact ⟨4, by decide, by decide, rfl⟩
    · exact ⟨3, by decide, by decide, rfl⟩

theorem w_fixed : WSFixed m w := wsfixed_initWS m m_axes
theorem w'_fixed : WSFixed m w' := wsfixed_poison m _ 7 w_fixed

def wU : WS Rat := initWS mU
def wU' : WS Rat := poison mU (initWS mU) 11
theorem wU_fixed : WSFixed mU wU := wsfixed_initWS mU mU_axes
theorem wU'_fixed : WSFixed mU wU' := wsfixed_poison mU _ 11 wU_fixed

/-- id of the fixed body (attached to body 2) -/
def fid : Nat := fixedDisc
theorem fid_ok : IdOK m fid := ⟨by decide, by decide⟩
theorem id3_ok : IdOK m 3 := ⟨by decide, by decide⟩

/-! ### one body on a revolute joint about `z`: everything evaluates -/

def b1 : Body Rat := ⟨1, ⟨0, 0, 0⟩, M3.one, false⟩
def m1 : ModelS Rat :=
  { (ModelS.init : ModelS Rat) with
    lambda := [0, 0]
    joints := [Joint.root, ⟨.revolute, [sv6 0 0 1 0 0 0], 1, 0, noCustom⟩]
    xT := [XT.id, XT.id]
    w3Index := [0, 0]
    bodies := [b1, b1]
    I := [RBI.zero, RBI.ofMassComInertiaC 1 ⟨0, 0, 0⟩ M3.one]
    dofCount := 1, qSize := 1, qdotSize := 1 }
/-- `q = 0` -/
def st1 : QS Rat := ⟨fun _ => 0, fun _ => 1, fun _ => 0⟩
/-- the workspace after construction -/
def wA : WS Rat := initWS m1
/-- the same with `S[1]` overwritten (an entry that is *not* free) -/
def wB : WS Rat := { initWS m1 with S := fun _ => sv6 0 0 2 0 0 0 }

theorem m1_n : m1.nBodies = 2 := rfl
theorem m1_tree : TreeOrder m1 := by
  intro i h1 h2; rw [m1_n] at h2; obtain rfl : i = 1 := by omega
  decide
theorem m1_ok : AllJointOK m1 := by
  intro i h1 h2; rw [m1_n] at h2; obtain rfl : i = 1 := by omega
  exact ⟨rfl, rfl⟩
theorem m1_axes : AxesOK m1 := by
  intro i h1 h2; rw [m1_n] at h2; obtain rfl : i = 1 := by omega
  refine ⟨?_, ?_, ?_⟩ <;> intro h <;> exact absurd h (by decide)
theorem wA_fixed : WSFixed m1 wA := wsfixed_initWS m1 m1_axes
theorem wB_not_fixed : ¬ WSFixed m1 wB := fun h =>
  absurd (h.2 1 (by decide) (by decide)).1 (by decide +kernel)

/-! ### models / workspaces showing that the side hypotheses of C13.4 cannot be dropped -/

/-- body 1 carries a joint of a type `jcalc` ignores (`AllJcalc` fails) -/
abbrev mBad : ModelS Rat := C04.Ex.mBad
def wBad : WS Rat := initWS mBad
def wBad' : WS Rat := poison mBad (initWS mBad) 7
theorem mBad_axes : AxesOK mBad := by
  intro i h1 h2
  have : mBad.nBodies = 2 := rfl
  rw [this] at h2; obtain rfl : i = 1 := by omega
  refine ⟨?_, ?_, ?_⟩ <;> intro h <;> exact absurd h (by decide)
theorem wBad_fixed : WSFixed mBad wBad := wsfixed_initWS mBad mBad_axes
theorem wBad'_fixed : WSFixed mBad wBad' := wsfixed_poison mBad _ 7 wBad_fixed

/-- a revoluteX joint stored with `mDoFCount = 3` (`AllJcalc` holds, `AllJointOK` fails) -/
def m3 : ModelS Rat :=
  { m1 with joints := [Joint.root, ⟨.revoluteX, [sv6 1 0 0 0 0 0], 3, 0, noCustom⟩] }
def w3 : WS Rat := initWS m3
/-- `multdof3_S[1]` is not constrained for a revoluteX joint -/
def w3' : WS Rat :=
  { initWS m3 with S3 := fun _ => ⟨sv6 1 0 0 0 0 0, sv6 0 1 0 0 0 0, sv6 0 0 1 0 0 0⟩ }
theorem m3_tree : TreeOrder m3 := m1_tree
theorem m3_jcalc : AllJcalc m3 := by
  intro i h1 h2
  have : m3.nBodies = 2 := rfl
  rw [this] at h2; obtain rfl : i = 1 := by omega
  rfl
theorem w3_fixed : WSFixed m3 w3 := by
  refine ⟨rfl, fun i h1 h2 => ?_⟩
  have : m3.nBodies = 2 := rfl
  rw [this] at h2; obtain rfl : i = 1 := by omega
  exact ⟨rfl, rfl, rfl, rfl, rfl⟩
theorem w3'_fixed : WSFixed m3 w3' := by
  refine ⟨rfl, fun i h1 h2 => ?_⟩
  have : m3.nBodies = 2 := rfl
  rw [this] at h2; obtain rfl : i = 1 := by omega
  exact ⟨rfl, rfl, rfl, rfl, rfl⟩

/-- two bodies in a chain on revolute joints about `z` and `x`; `mJointUpdateOrder` left empty
    (`UOrderOK`, `UOrderPerm` fail) -/
def m2 : ModelS Rat :=
  { (ModelS.init : ModelS Rat) with
    lambda := [0, 0, 1]
    joints := [Joint.root, ⟨.revolute, [sv6 0 0 1 0 0 0], 1, 0, noCustom⟩,
      ⟨.revolute, [sv6 1 0 0 0 0 0], 1, 1, noCustom⟩]
    xT := [XT.id, XT.id, ⟨M3.one, ⟨0, 1, 0⟩⟩]
    w3Index := [0, 0, 0]
    bodies := [b1, b1, b1]
    I := [RBI.zero, RBI.ofMassComInertiaC 1 ⟨1, 0, 0⟩ M3.one,
      RBI.ofMassComInertiaC 2 ⟨0, 1, 1⟩ M3.one]
    dofCount := 2, qSize := 2, qdotSize := 2 }
def w2 : WS Rat := initWS m2
def w2' : WS Rat := poison m2 (initWS m2) 3
/-- an entry outside the model differs -/
def w2'' : WS Rat :=
  { w2 with X_base := fun i => if i = 0 then XT.id else ⟨M3.one, ⟨1, 1, 1⟩⟩ }
theorem m2_n : m2.nBodies = 3 := rfl
theorem m2_tree : TreeOrder m2 := by
  intro i h1 h2; rw [m2_n] at h2; obtain rfl | rfl : i = 1 ∨ i = 2 := by omega
  all_goals decide
theorem m2_ok : AllJointOK m2 := by
  intro i h1 h2; rw [m2_n] at h2; obtain rfl | rfl : i = 1 ∨ i = 2 := by omega
  all_goals exact ⟨rfl, rfl⟩
theorem m2_axes : AxesOK m2 := by
  intro i h1 h2; rw [m2_n] at h2; obtain rfl | rfl : i = 1 ∨ i = 2 := by omega
  all_goals refine ⟨?_, ?_, ?_⟩ <;> intro h <;> exact absurd h (by decide)
theorem w2_fixed : WSFixed m2 w2 := wsfixed_initWS m2 m2_axes
theorem w2'_fixed : WSFixed m2 w2' := wsfixed_poison m2 _ 3 w2_fixed
theorem w2''_fixed : WSFixed m2 w2'' := wsfixed_congr _ w2_fixed rfl rfl rfl rfl rfl

end Rbdl.L13.Ex
