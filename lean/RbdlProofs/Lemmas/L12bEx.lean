import RbdlProofs.Lemmas.L12b
import RbdlProofs.Lemmas.L12Ex
/-
  Concrete instances over `Rat` for the satisfiability examples of the balance-addon part of C12.
-/
namespace Rbdl.L12b.Ex
open Lean.Grind Rbdl Rbdl.Spec Rbdl.Spec.FpeCode

/-! ### vectors and scalars for the foot-placement algebra -/
/-- unit normal `(2,1,2)/3`, a unit vector perpendicular to it, a plane point, a centre of mass -/
def k : V3 Rat := ⟨2/3, 1/3, 2/3⟩
def n : V3 Rat := ⟨1/3, 2/3, -2/3⟩
def p : V3 Rat := ⟨1, -1, 2⟩
def C : V3 Rat := ⟨3, 1/2, 4⟩
def v : V3 Rat := ⟨1, -2, 1/2⟩
attribute [alg] k n p C v
theorem k_unit : k.dot k = 1 := by simp only [alg]; grind
theorem n_unit : n.dot n = 1 := by simp only [alg]; grind
theorem n_perp_k : n.dot k = 0 := by simp only [alg]; grind
/-- `cos φ = 4/5`, `sin φ = 3/5`, `tan φ = 3/4` -/
theorem cs_unit : (4/5 : Rat) * (4/5) + (3/5) * (3/5) = 1 := by grind
theorem tan_ok : (3/4 : Rat) * (4/5) = 3/5 := by grind
theorem c_ne : (4/5 : Rat) ≠ 0 := by grind
/-- planar state: `h = 1`, `m = 2`, `J = 3`: `cos² φ J + h² m = 98/25` -/
theorem den_ne : fpeDen (4/5 : Rat) 1 2 3 ≠ 0 := by unfold fpeDen; grind

/-! ### a one-body pendulum: specification-side description and the matching workspace -/

/-- body: mass 2, centre of mass `(1, 0, 1/2)`, symmetric non-diagonal inertia -/
def b1 : Body Rat := ⟨2, ⟨1, 0, 1/2⟩, C16.Ex.Ic, false⟩
/-- joint frame `SpatialTransform(E, r)`, `E = C16.Ex.M` (a rotation), `r = (1, 2, 3)`; revolute about `z` -/
def M1 : SModel Rat :=
  { nodes := [⟨0, M3.one, V3.zero, .fixed, 0, 0, false, 0, V3.zero, M3.zero, 0, 0⟩,
              ⟨0, C16.Ex.M, ⟨1, 2, 3⟩, .revolute ⟨0, 0, 1⟩, 0, 0, true, 2, ⟨1, 0, 1/2⟩, C16.Ex.Ic, 1, 1⟩],
    gravity := ⟨0, 0, -(981 : Rat) / 100⟩ }
/-- `cos q = 3/5`, `sin q = 4/5`, `q̇ = 2` -/
def st1 : State Rat := ⟨fun _ => 0, fun _ => 3/5, fun _ => 4/5, fun _ => 2, fun _ => 0⟩

/-- the same mechanism as the implementation stores it -/
def m1 : ModelS Rat :=
  { (ModelS.init : ModelS Rat) with
    lambda := [0, 0]
    bodies := [Body.null, b1]
    I := [RBI.zero, b1.toRBI]
    gravity := ⟨0, 0, -(981 : Rat) / 100⟩ }
/-- `X_base[1] = Xrotz(q) * X_T`, `v[1] = (0, 0, q̇, 0, 0, 0)` in body coordinates -/
def X1 : XT Rat := Xrotz (3/5) (4/5) * (⟨C16.Ex.M, ⟨1, 2, 3⟩⟩ : XT Rat)
def w1 : WS Rat :=
  { (default : WS Rat) with
    X_lambda := fun _ => X1
    X_base := fun _ => X1
    v := fun _ => ⟨⟨0, 0, 2⟩, ⟨0, 0, 0⟩⟩ }
def qs1 : QS Rat := ⟨fun _ => 0, fun _ => 3/5, fun _ => 4/5⟩

theorem M1_mass : totalMass M1 = 2 := by decide +kernel
theorem M1_mass_ne : totalMass M1 ≠ 0 := by rw [M1_mass]; grind
theorem M1_symm : ∀ nd ∈ M1.nodes, nd.inertia.transpose = nd.inertia := by
  intro nd h
  simp only [M1, List.mem_cons, List.not_mem_nil, or_false] at h
  rcases h with rfl | rfl <;> rfl


/-! the code-shaped `CalcCenterOfMass` on `(m1, w1)` and the specification on `(M1, st1)` agree
    (closed rational terms, evaluated by the kernel) -/
def qd1 : VecN Rat := fun _ => 2
theorem e_mass : (calcCenterOfMass m1 w1 qs1 qd1 none false false).2.mass = totalMass M1 := by
  decide +kernel
theorem e_com : (calcCenterOfMass m1 w1 qs1 qd1 none false false).2.com = com M1 st1 := by
  decide +kernel
theorem e_vel : (calcCenterOfMass m1 w1 qs1 qd1 none false false).2.comVel = comVelocity M1 st1 := by
  decide +kernel
theorem e_mom : (calcCenterOfMass m1 w1 qs1 qd1 none false false).2.angMom = (angularMomentum M1 st1).1 := by
  decide +kernel
theorem e_J : inertiaAboutL (com M1 st1) (codeStates m1 (calcCenterOfMass m1 w1 qs1 qd1 none false false).1)
    = inertiaAbout M1 st1 (com M1 st1) := by
  decide +kernel
/-- the angular momentum about the centre of mass is not zero: the instance is not degenerate -/
theorem e_mom_ne : (angularMomentum M1 st1).1 ≠ V3.zero := by decide +kernel

end Rbdl.L12b.Ex
