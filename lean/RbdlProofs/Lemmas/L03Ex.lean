import RbdlProofs.Lemmas.L03Unit
import RbdlProofs.Lemmas.L12Ex
/-
  Concrete instances over `Rat` for the satisfiability examples of C03: a branched tree with a
  revoluteZ, a general revolute (axis (2,1,2)/3), a spherical and a revoluteX joint, non-trivial
  joint frames and inertias.
-/
namespace Rbdl.L03.Ex
open Lean.Grind Rbdl Rbdl.Loops Rbdl.L03
set_option linter.unusedSimpArgs false

def b : Body Rat := ⟨1, ⟨0, 0, 0⟩, M3.one, false⟩

/-- bodies 1 (revoluteZ, on the base, q 0), 2 (revolute about `ax`, on 1, q 1), 3 (spherical, on 2,
    q 2..4, w at 6), 4 (revoluteX, on 1, q 5) -/
def m : ModelS Rat :=
  { (ModelS.init : ModelS Rat) with
    lambda := [0, 0, 1, 2, 1]
    joints := [Joint.root,
      ⟨.revoluteZ, [sv6 0 0 1 0 0 0], 1, 0, noCustom⟩,
      ⟨.revolute, [⟨C16.Ex.ax, V3.zero⟩], 1, 1, noCustom⟩,
      ⟨.spherical, [sv6 0 0 1 0 0 0, sv6 0 1 0 0 0 0, sv6 1 0 0 0 0 0], 3, 2, noCustom⟩,
      ⟨.revoluteX, [sv6 1 0 0 0 0 0], 1, 5, noCustom⟩]
    xT := [XT.id, C16.Ex.X, C16.Ex.Y, C16.Ex.X, C16.Ex.Y]
    w3Index := [0, 0, 0, 6, 0]
    bodies := [b, b, b, b, b]
    I := [RBI.zero, L12.Ex.I1, L12.Ex.I2, L12.Ex.I3, L12.Ex.I4]
    dofCount := 6, qSize := 7, qdotSize := 6 }

def st : QS Rat :=
  { q := fun n => if n = 2 then 1/5 else if n = 3 then 2/5 else if n = 4 then 2/5
                  else if n = 6 then 4/5 else 1/2
    c := fun _ => 4/5
    s := fun _ => 3/5 }

/-- a workspace with the motion subspaces of the 1-DoF joints as `Model::AddBody` leaves them -/
def w : WS Rat :=
  { (default : WS Rat) with
    S := fun i => if i = 1 then sv6 0 0 1 0 0 0 else if i = 2 then ⟨C16.Ex.ax, V3.zero⟩
                  else if i = 4 then sv6 1 0 0 0 0 0 else SV.zero }

/-- the same with other velocities / accelerations / forces lying around -/
def w' : WS Rat :=
  { w with v := fun i => ⟨⟨1, (i : Rat), 2⟩, ⟨0, 1, 3⟩⟩, a := fun _ => ⟨⟨1, 1, 2⟩, ⟨0, 1, 1⟩⟩
           f := fun i => ⟨⟨(i : Rat), 0, 2⟩, ⟨5, 1, 1⟩⟩ }

def qd : VecN Rat := fun k => (k : Rat) / 3 + 1
def qdd : VecN Rat := fun k => 2 - (k : Rat) / 5
def qdd' : VecN Rat := fun k => (k : Rat) * (k : Rat) - 1
def tau0 : VecN Rat := fun k => (k : Rat)
def fe : Nat → SV Rat := fun i => ⟨⟨1, 0, (i : Rat)⟩, ⟨0, 2, 1⟩⟩

theorem m_n : m.nBodies - 1 = 4 := rfl

theorem m_tree : ∀ c, 1 ≤ c → c ≤ m.nBodies - 1 → m.lam c < c := by
  intro i h1 h2
  rw [m_n] at h2
  obtain rfl | rfl | rfl | rfl : i = 1 ∨ i = 2 ∨ i = 3 ∨ i = 4 := by omega
  all_goals decide

theorem m_arity : ∀ c, 1 ≤ c → c ≤ m.nBodies - 1 → m.arity c = .one ∨ m.arity c = .three := by
  intro i h1 h2
  rw [m_n] at h2
  obtain rfl | rfl | rfl | rfl : i = 1 ∨ i = 2 ∨ i = 3 ∨ i = 4 := by omega
  all_goals decide

theorem m_arity' : ∀ c, 1 ≤ c → c ≤ m.nBodies - 1 → m.arity c ≠ .other := by
  intro i h1 h2
  rcases m_arity i h1 h2 with e | e <;> rw [e] <;> simp

theorem m_virt : ∀ i, 1 ≤ i → i ≤ m.nBodies - 1 → (m.body i).isVirtual = true → m.rbi i = RBI.zero := by
  intro i h1 h2
  rw [m_n] at h2
  obtain rfl | rfl | rfl | rfl : i = 1 ∨ i = 2 ∨ i = 3 ∨ i = 4 := by omega
  all_goals (intro h; exact absurd h (by decide))

theorem m_hasJcalc : ∀ i, 1 ≤ i → i ≤ m.nBodies - 1 → (m.joint i).jt.hasJcalc = true := by
  intro i h1 h2
  rw [m_n] at h2
  obtain rfl | rfl | rfl | rfl : i = 1 ∨ i = 2 ∨ i = 3 ∨ i = 4 := by omega
  all_goals rfl

theorem m_frames : ∀ i, 1 ≤ i → i ≤ m.nBodies - 1 → (m.XT_ i).E.IsRot := by
  intro i h1 h2
  rw [m_n] at h2
  obtain rfl | rfl | rfl | rfl : i = 1 ∨ i = 2 ∨ i = 3 ∨ i = 4 := by omega
  · exact C16.Ex.X_isRot
  · exact C16.Ex.Y_isRot
  · exact C16.Ex.X_isRot
  · exact C16.Ex.Y_isRot

theorem st_quat : (getQuaternion m 3 st.q).nrm2 = 1 := by
  show (getQuaternion m 3 st.q).nrm2 = 1
  have : getQuaternion m 3 st.q = C16.Ex.p := by
    simp only [getQuaternion, st, C16.Ex.p]
    rfl
  rw [this]; exact C16.Ex.p_unit

theorem m_unit : ∀ i, 1 ≤ i → i ≤ m.nBodies - 1 → m.jointUnit i st := by
  intro i h1 h2
  rw [m_n] at h2
  obtain rfl | rfl | rfl | rfl : i = 1 ∨ i = 2 ∨ i = 3 ∨ i = 4 := by omega
  · exact C16.Ex.cs_unit
  · exact ⟨C16.Ex.cs_unit, C16.Ex.ax_unit⟩
  · exact st_quat
  · exact C16.Ex.cs_unit

/-- the link transforms `inverseDynamics` leaves in the workspace are rotations + translations -/
theorem id_rot (w0 : WS Rat) (qd qdd tau : VecN Rat) (fext : Option (Nat → SV Rat)) :
    ∀ i, 1 ≤ i → i ≤ m.nBodies - 1 →
      ((inverseDynamics m w0 st qd qdd tau fext).1.X_lambda i).E.IsRot := by
  intro i h1 h2
  rw [id_X_lambda m w0 st qd qdd tau fext i h1 h2]
  exact jcalcX_isRot m i st _ (m_hasJcalc i h1 h2) (m_frames i h1 h2) (m_unit i h1 h2)

/-- the coordinate ranges of the joints (`{0}`, `{1}`, `{2,3,4}`, `{5}`) are disjoint, whatever the
    workspace holds -/
theorem m_disj (w0 : WS Rat) : Disj m w0 := by
  have n1 : nS w0 m 1 = 1 := rfl
  have n2 : nS w0 m 2 = 1 := rfl
  have n3 : nS w0 m 3 = 3 := rfl
  have n4 : nS w0 m 4 = 1 := rfl
  have q1 : (m.joint 1).qIndex = 0 := rfl
  have q2 : (m.joint 2).qIndex = 1 := rfl
  have q3 : (m.joint 3).qIndex = 2 := rfl
  have q4 : (m.joint 4).qIndex = 5 := rfl
  intro i i' a b h1 h2 h3 h4 ha hb e
  rw [m_n] at h2 h4
  obtain rfl | rfl | rfl | rfl : i = 1 ∨ i = 2 ∨ i = 3 ∨ i = 4 := by omega
  all_goals
    obtain rfl | rfl | rfl | rfl : i' = 1 ∨ i' = 2 ∨ i' = 3 ∨ i' = 4 := by omega
  all_goals first | rfl | (exfalso; simp only [n1, n2, n3, n4, q1, q2, q3, q4] at ha hb e; omega)

theorem path23 : PathOK m.lam 2 3 := by
  intro k' hk'
  obtain rfl | rfl | rfl : k' = 0 ∨ k' = 1 ∨ k' = 2 := by omega
  all_goals decide

/-- `ancK` on the example tree: the ancestors of every body -/
theorem anc_cases (i k : Nat) (h1 : 1 ≤ i) (h2 : i ≤ 4) (hp : PathOK m.lam k i) :
    (i = 1 ∧ k = 0) ∨ (i = 2 ∧ (k = 0 ∨ k = 1)) ∨ (i = 3 ∧ (k = 0 ∨ k = 1 ∨ k = 2)) ∨
    (i = 4 ∧ (k = 0 ∨ k = 1)) := by
  have hle := ancK_le m.lam 4 (fun c h1 h2 => m_tree c h1 (by rw [m_n]; exact h2)) k i h2 hp
  have h0 := hp k (Nat.le_refl _)
  obtain rfl | rfl | rfl | rfl : i = 1 ∨ i = 2 ∨ i = 3 ∨ i = 4 := by omega
  · left; omega
  · right; left; omega
  · right; right; left; omega
  · right; right; right
    refine ⟨rfl, ?_⟩
    have hk : k = 0 ∨ k = 1 ∨ k = 2 ∨ k = 3 := by omega
    rcases hk with rfl | rfl | rfl | rfl
    · left; rfl
    · right; rfl
    · exact absurd (by decide : ancK m.lam 2 4 = 0) (hp 2 (by omega))
    · exact absurd (by decide : ancK m.lam 2 4 = 0) (hp 2 (by omega))

/-- entry `(3, 5)`: coordinate 3 belongs to body 3, coordinate 5 to body 4, on different branches -/
theorem offpath35 (w0 : WS Rat) : ∀ i, 1 ≤ i → i ≤ m.nBodies - 1 → ¬ OnPath m w0 i 3 5 := by
  have n1 : nS w0 m 1 = 1 := rfl
  have n2 : nS w0 m 2 = 1 := rfl
  have n3 : nS w0 m 3 = 3 := rfl
  have n4 : nS w0 m 4 = 1 := rfl
  have q1 : (m.joint 1).qIndex = 0 := rfl
  have q2 : (m.joint 2).qIndex = 1 := rfl
  have q3 : (m.joint 3).qIndex = 2 := rfl
  have q4 : (m.joint 4).qIndex = 5 := rfl
  have l2 : m.lam 2 = 1 := rfl
  have l3 : m.lam 3 = 2 := rfl
  have l4 : m.lam 4 = 1 := rfl
  intro i h1 h2 ⟨k, a, b, hp, ha, hb, hh⟩
  rw [m_n] at h2
  rcases anc_cases i k h1 h2 hp with ⟨rfl, rfl⟩ | ⟨rfl, rfl | rfl⟩ | ⟨rfl, rfl | rfl | rfl⟩ |
    ⟨rfl, rfl | rfl⟩ <;>
    simp only [ancK, l2, l3, l4, n1, n2, n3, n4, q1, q2, q3, q4] at ha hb hh <;> omega

/-- every coordinate `< 6` belongs to a joint -/
theorem m_cov (w0 : WS Rat) : ∀ c, c < 6 → ∃ j b, 1 ≤ j ∧ j ≤ m.nBodies - 1 ∧ b < nS w0 m j ∧
    c = (m.joint j).qIndex + b := by
  intro c hc
  obtain rfl | rfl | rfl | rfl | rfl | rfl : c = 0 ∨ c = 1 ∨ c = 2 ∨ c = 3 ∨ c = 4 ∨ c = 5 := by
    omega
  · exact ⟨1, 0, by decide, by decide, (by show 0 < 1; omega), rfl⟩
  · exact ⟨2, 0, by decide, by decide, (by show 0 < 1; omega), rfl⟩
  · exact ⟨3, 0, by decide, by decide, (by show 0 < 3; omega), rfl⟩
  · exact ⟨3, 1, by decide, by decide, (by show 1 < 3; omega), rfl⟩
  · exact ⟨3, 2, by decide, by decide, (by show 2 < 3; omega), rfl⟩
  · exact ⟨4, 0, by decide, by decide, (by show 0 < 1; omega), rfl⟩

/-! ### overlapping coordinate ranges: the hypothesis `Disj` of `crba_entries` cannot be dropped -/

/-- a chain of two 1-DoF joints that (wrongly) share coordinate 0 -/
def mBad : ModelS Rat :=
  { (ModelS.init : ModelS Rat) with
    lambda := [0, 0, 1]
    joints := [Joint.root,
      ⟨.revoluteZ, [sv6 0 0 1 0 0 0], 1, 0, noCustom⟩,
      ⟨.revoluteX, [sv6 1 0 0 0 0 0], 1, 0, noCustom⟩]
    xT := [XT.id, C16.Ex.X, C16.Ex.Y]
    w3Index := [0, 0, 0]
    bodies := [b, b, b]
    I := [RBI.zero, L12.Ex.I1, L12.Ex.I2]
    dofCount := 1, qSize := 1, qdotSize := 1 }

theorem mBad_tree : ∀ c, 1 ≤ c → c ≤ mBad.nBodies - 1 → mBad.lam c < c := by
  intro i h1 h2
  have : mBad.nBodies - 1 = 2 := rfl
  rw [this] at h2
  obtain rfl | rfl : i = 1 ∨ i = 2 := by omega
  all_goals decide

theorem mBad_path : PathOK mBad.lam 0 2 := (pathOK_zero ..).2 (by decide)

end Rbdl.L03.Ex
