import RbdlProofs.Lemmas.L01CapBuild
/-
  C01 capstone, Stage E (end): `SModel.finalize` assigns the quaternion indices exactly as the
  construction code does (`dofCount + number of spherical joints before`), so the simulation
  invariant `Sim` of the parallel construction gives `Refines`.
-/
namespace Rbdl.L01Cap
open Lean.Grind Rbdl Rbdl.Spec Rbdl.L06 Rbdl.L01 Rbdl.Loops
set_option linter.unusedSimpArgs false
set_option linter.unusedVariables false
set_option linter.unusedSectionVars false

section
variable {α : Type} [Field α] [DecidableEq α]

/-- the step of the fold in `SModel.finalize` -/
def finStep (nv : Nat) (acc : List (SNode α) × Nat) (nd : SNode α) : List (SNode α) × Nat :=
  if isQuatNode nd then (acc.1 ++ [{ nd with wIdx := nv + acc.2 }], acc.2 + 1)
  else (acc.1 ++ [nd], acc.2)

/-- node `nd` after `finalize`, when `c` quaternion nodes precede it -/
def finNode (nv c : Nat) (nd : SNode α) : SNode α :=
  if isQuatNode nd then { nd with wIdx := nv + c } else nd

theorem finalize_eq (M : SModel α) :
    M.finalize = { M with nodes := (M.nodes.foldl (finStep M.nv) ([], 0)).1 } := rfl

theorem finStep_eq (nv : Nat) (acc : List (SNode α) × Nat) (nd : SNode α) :
    finStep nv acc nd
      = (acc.1 ++ [finNode nv acc.2 nd], acc.2 + (if isQuatNode nd then 1 else 0)) := by
  unfold finStep finNode
  cases isQuatNode nd <;> simp

theorem fin_fold (nv : Nat) (L : List (SNode α)) : ∀ (l0 : List (SNode α)) (c0 : Nat),
    (L.foldl (finStep nv) (l0, c0)).1.length = l0.length + L.length ∧
    (∀ i, i < l0.length → (L.foldl (finStep nv) (l0, c0)).1[i]? = l0[i]?) ∧
    (∀ j nd, L[j]? = some nd →
      (L.foldl (finStep nv) (l0, c0)).1[l0.length + j]?
        = some (finNode nv (c0 + (L.take j).countP isQuatNode) nd)) := by
  induction L with
  | nil =>
    intro l0 c0
    refine ⟨rfl, fun _ _ => rfl, fun j nd h => ?_⟩
    simp at h
  | cons n0 rest ih =>
    intro l0 c0
    rw [List.foldl_cons, finStep_eq]
    obtain ⟨h1, h2, h3⟩ := ih (l0 ++ [finNode nv c0 n0]) (c0 + (if isQuatNode n0 then 1 else 0))
    rw [List.length_append, List.length_singleton] at h1 h2 h3
    refine ⟨?_, ?_, ?_⟩
    · rw [h1, List.length_cons]; omega
    · intro i hi
      rw [h2 i (by omega), List.getElem?_append_left hi]
    · intro j nd hj
      cases j with
      | zero =>
        simp only [List.getElem?_cons_zero, Option.some.injEq] at hj
        subst hj
        rw [Nat.add_zero, h2 l0.length (by omega), List.getElem?_append_right (Nat.le_refl _),
          Nat.sub_self, List.getElem?_cons_zero]
        simp
      | succ j =>
        rw [List.getElem?_cons_succ] at hj
        have := h3 j nd hj
        have e : l0.length + (j + 1) = l0.length + 1 + j := by omega
        rw [e, this, List.take_succ_cons, List.countP_cons]
        congr 2
        cases isQuatNode n0 <;> simp <;> omega

theorem fin_fold_joint (nv : Nat) (L : List (SNode α)) : ∀ (l0 : List (SNode α)) (c0 : Nat),
    (L.foldl (finStep nv) (l0, c0)).1.map (·.joint) = l0.map (·.joint) ++ L.map (·.joint) := by
  induction L with
  | nil => intro l0 c0; simp
  | cons n0 rest ih =>
    intro l0 c0
    rw [List.foldl_cons, finStep_eq, ih]
    have : (finNode nv c0 n0).joint = n0.joint := by
      unfold finNode; split <;> rfl
    simp [this]

theorem nv_eq_map (M : SModel α) :
    M.nv = (M.nodes.map (·.joint)).foldl (fun n j => n + j.dof) 0 := by
  unfold SModel.nv
  rw [List.foldl_map]

theorem finalize_nv (M : SModel α) : M.finalize.nv = M.nv := by
  rw [nv_eq_map, nv_eq_map, finalize_eq]
  show (((M.nodes.foldl (finStep M.nv) ([], 0)).1.map (·.joint)).foldl _ 0) = _
  rw [fin_fold_joint]
  rfl

theorem finalize_nodes (M : SModel α) :
    M.finalize.nodes.length = M.nodes.length ∧
    ∀ i nd, M.nodes[i]? = some nd →
      M.finalize.nodes[i]? = some (finNode M.nv ((M.nodes.take i).countP isQuatNode) nd) := by
  obtain ⟨h1, _, h3⟩ := fin_fold M.nv M.nodes [] 0
  rw [finalize_eq]
  refine ⟨by rw [h1]; simp, fun i nd h => ?_⟩
  have := h3 i nd h
  simp only [List.length_nil, Nat.zero_add] at this
  exact this

theorem countP_take_congr {β γ : Type} (p : β → Bool) (q : γ → Bool) (A : List β) (B : List γ) :
    ∀ i, i ≤ A.length → i ≤ B.length →
      (∀ k (hA : k < A.length) (hB : k < B.length), k < i → p A[k] = q B[k]) →
      (A.take i).countP p = (B.take i).countP q := by
  intro i
  induction i with
  | zero => intro _ _ _; simp
  | succ i ih =>
    intro hA hB h
    rw [List.take_add_one, List.take_add_one, List.countP_append, List.countP_append,
      ih (by omega) (by omega) (fun k a b hk => h k a b (by omega)),
      List.getElem?_eq_getElem (by omega : i < A.length),
      List.getElem?_eq_getElem (by omega : i < B.length)]
    simp only [Option.toList_some, List.countP_cons, List.countP_nil, Nat.zero_add]
    rw [h i (by omega) (by omega) (by omega)]

theorem isQuatNode_pre {m : ModelS α} {i : Nat} {nd : SNode α} (h : NodePre m i nd) :
    isQuatNode nd = true ↔ (m.joint i).jt = .spherical := by
  rw [isQuatNode_iff, h.joint, sjoint_spherical_iff]

/-- **the parallel construction establishes `Refines`** -/
theorem refines_of_sim {m : ModelS α} {p : PB α} (hS : Sim m p) :
    Refines m p.sb.M.finalize := by
  obtain ⟨hlen, hnodes⟩ := finalize_nodes p.sb.M
  have hwf := hS.ok.wf
  -- nodes of the builder, by index
  have hex : ∀ i, i < m.nBodies → ∃ nd, p.sb.M.nodes[i]? = some nd := by
    intro i hi
    exact ⟨p.sb.M.nodes[i]'(by rw [hS.len]; exact hi), List.getElem?_eq_getElem _⟩
  have hback : ∀ i nd', p.sb.M.finalize.nodes[i]? = some nd' →
      ∃ nd, p.sb.M.nodes[i]? = some nd ∧
        nd' = finNode p.sb.M.nv ((p.sb.M.nodes.take i).countP isQuatNode) nd := by
    intro i nd' h
    have hi : i < m.nBodies := by
      rcases Nat.lt_or_ge i p.sb.M.finalize.nodes.length with h1 | h1
      · rw [hlen, hS.len] at h1; exact h1
      · rw [List.getElem?_eq_none h1] at h; cases h
    obtain ⟨nd, hnd⟩ := hex i hi
    refine ⟨nd, hnd, ?_⟩
    rw [hnodes i nd hnd] at h
    exact (Option.some.inj h).symm
  refine ⟨by rw [hlen, hS.len], hS.gravity, by rw [finalize_nv, hS.nv], ?_, ?_⟩
  · intro nd' h
    obtain ⟨nd, hnd, rfl⟩ := hback 0 nd' h
    obtain ⟨b1, b2, b3⟩ := hS.base nd hnd
    have hq : isQuatNode nd = false := by unfold isQuatNode; rw [b3]
    unfold finNode
    rw [hq]
    exact ⟨b1, b2, b3⟩
  · intro i nd' i1 h
    obtain ⟨nd, hnd, rfl⟩ := hback i nd' h
    have hN := hS.node i nd i1 hnd
    have hi : i < m.nBodies := by
      rcases Nat.lt_or_ge i p.sb.M.nodes.length with h1 | h1
      · rw [hS.len] at h1; exact h1
      · rw [List.getElem?_eq_none h1] at hnd; cases hnd
    have hfields : ∀ c, (finNode p.sb.M.nv c nd).parent = nd.parent ∧
        (finNode p.sb.M.nv c nd).E = nd.E ∧ (finNode p.sb.M.nv c nd).r = nd.r ∧
        (finNode p.sb.M.nv c nd).joint = nd.joint ∧ (finNode p.sb.M.nv c nd).qIdx = nd.qIdx ∧
        (finNode p.sb.M.nv c nd).apiId = nd.apiId ∧
        (finNode p.sb.M.nv c nd).movableId = nd.movableId ∧
        (finNode p.sb.M.nv c nd).hasBody = nd.hasBody ∧ (finNode p.sb.M.nv c nd).mass = nd.mass ∧
        (finNode p.sb.M.nv c nd).com = nd.com ∧ (finNode p.sb.M.nv c nd).inertia = nd.inertia := by
      intro c; unfold finNode; split <;> exact ⟨rfl, rfl, rfl, rfl, rfl, rfl, rfl, rfl, rfl, rfl, rfl⟩
    obtain ⟨f1, f2, f3, f4, f5, f6, f7, f8, f9, f10, f11⟩ :=
      hfields ((p.sb.M.nodes.take i).countP isQuatNode)
    refine ⟨by rw [f1]; exact hN.parent, by rw [f2]; exact hN.E, by rw [f3]; exact hN.r,
      by rw [f4]; exact hN.joint, by rw [f5]; exact hN.qIdx, ?_, by rw [f6]; exact hN.apiId,
      by rw [f7]; exact hN.movableId, by rw [f8]; exact hN.virt, ?_, ?_⟩
    · -- the quaternion index
      intro hs
      have hq : isQuatNode nd = true := (isQuatNode_pre hN).2 hs
      unfold finNode
      rw [if_pos hq]
      show p.sb.M.nv + _ = _
      rw [hS.nv, hwf.w3_sph i hi hs, sphBefore_eq]
      congr 1
      refine countP_take_congr _ _ _ _ i (by rw [hS.len]; omega) (by rw [hwf.len_joints]; omega) ?_
      intro k hA hB hk
      have hk' : k < m.nBodies := by omega
      have hndk : p.sb.M.nodes[k]? = some p.sb.M.nodes[k] := List.getElem?_eq_getElem hA
      have hjk : m.joint k = m.joints[k] := by
        unfold ModelS.joint
        rw [List.getD_eq_getElem?_getD, List.getElem?_eq_getElem hB]; rfl
      by_cases hk0 : k = 0
      · subst hk0
        have hb := (hS.base _ hndk).2.2
        have h0 : isQuatNode p.sb.M.nodes[0] = false := by unfold isQuatNode; rw [hb]
        have hj0 := hwf.joint_zero
        rw [hjk] at hj0
        rw [h0]
        simp [isSph, hj0, Joint.root]
      · have hNk := hS.node k _ (by omega) hndk
        have hiff := isQuatNode_pre hNk
        rw [hjk] at hiff
        unfold isSph
        cases hq' : isQuatNode p.sb.M.nodes[k]
        · symm
          simp only [beq_eq_false_iff_ne, ne_eq]
          intro e
          have := hiff.2 e
          rw [hq'] at this; cases this
        · symm
          simp only [beq_iff_eq]
          exact hiff.1 hq'
    · intro hb; rw [f9, f10, f11]; exact hN.rbi (f8 ▸ hb)
    · intro hb; rw [f11]; exact hN.symm (f8 ▸ hb)

/-- **Stage E**: for every supported construction sequence that succeeds, the model built by the
    construction code satisfies `ModelOK`, and it refines the specification model built in parallel -/
theorem refines_by_construction (ops : List (Op α))
    (hg : goodRun (ModelS.init : ModelS α) ops) :
    ModelOK ((ModelS.init : ModelS α).run ops) ∧
    Refines ((ModelS.init : ModelS α).run ops) (specOf ops) := by
  have hS := sim_run ops _ _ sim_init hg
  exact ⟨hS.ok, refines_of_sim hS⟩

end
end Rbdl.L01Cap
